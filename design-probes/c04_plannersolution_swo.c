#include <stdbool.h>
typedef struct { bool approximate_; double difference_; bool optimized_; double cost_; double length_; bool opt_; } PS;
static bool isCostBetterThan(double c1, double c2){ return c1 < c2; }
bool lt(const PS *a, const PS *b)
{
    if (!a->approximate_ && b->approximate_)
        return true;
    if (a->approximate_ && !b->approximate_)
        return false;
    if (a->approximate_ && b->approximate_)
        return a->difference_ < b->difference_;
    if (a->optimized_ && !b->optimized_)
        return true;
    if (!a->optimized_ && b->optimized_)
        return false;
    return a->opt_ ? isCostBetterThan(a->cost_, b->cost_) : a->length_ < b->length_;
}
PS nondet_PS(void);
#define OKD(x) ((x)==(x))
void harness(void){
  PS a=nondet_PS(), b=nondet_PS(), c=nondet_PS();
  __CPROVER_assume(OKD(a.difference_)&&OKD(a.cost_)&&OKD(a.length_)&&OKD(b.difference_)&&OKD(b.cost_)&&OKD(b.length_)&&OKD(c.difference_)&&OKD(c.cost_)&&OKD(c.length_));
  __CPROVER_assume(a.opt_==b.opt_ && b.opt_==c.opt_);
  __CPROVER_assert(!lt(&a,&a),"irreflexive");
  __CPROVER_assert(!(lt(&a,&b)&&lt(&b,&a)),"asymmetric");
  __CPROVER_assert(!(lt(&a,&b)&&lt(&b,&c)) || lt(&a,&c),"transitive");
  bool iab=!lt(&a,&b)&&!lt(&b,&a), ibc=!lt(&b,&c)&&!lt(&c,&b), iac=!lt(&a,&c)&&!lt(&c,&a);
  __CPROVER_assert(!(iab&&ibc)||iac,"incomparability transitive");
  /* ranking from the property statement */
  __CPROVER_assert(!(!a.approximate_ && b.approximate_) || lt(&a,&b),"exact before approximate");
  __CPROVER_assert(!(a.approximate_ && b.approximate_) || (lt(&a,&b)==(a.difference_<b.difference_)),"approx by difference");
  __CPROVER_assert(!(!a.approximate_ && !b.approximate_ && a.optimized_ && !b.optimized_) || lt(&a,&b),"optimized first");
}
