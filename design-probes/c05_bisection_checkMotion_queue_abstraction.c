#include <stddef.h>
#include <stdbool.h>
typedef struct State { int num; int den; } State;
typedef struct { int first; int second; } pair_int_int;
int  G; bool VG; bool checked_G; int checks_at_G; bool any_invalid;
unsigned valid_, invalid_;
int ND;
/* ---- ghost-indexed multiset abstraction of std::queue<std::pair<int,int>> ---- */
int Q_n, Q_cov; long Q_len; bool Q_wf; bool Q_front_covers; pair_int_int Q_front_val;
bool nondet_bool(void); int nondet_int(void);

bool pos_empty(void)
__CPROVER_requires(1) __CPROVER_assigns() __CPROVER_ensures(__CPROVER_return_value == (Q_n == 0));

void pos_emplace(int a, int b)
__CPROVER_requires(Q_n < 2000000000)
__CPROVER_assigns(Q_n, Q_cov, Q_wf, Q_len)
__CPROVER_ensures(Q_len == __CPROVER_old(Q_len) + ((long)b - (long)a + 1))
__CPROVER_ensures(Q_n == __CPROVER_old(Q_n) + 1)
__CPROVER_ensures(Q_cov == __CPROVER_old(Q_cov) + ((a <= G && G <= b) ? 1 : 0))
__CPROVER_ensures(Q_wf == (__CPROVER_old(Q_wf) && 1 <= a && a <= b && b <= ND - 1));

pair_int_int pos_front(void)
__CPROVER_requires(Q_n > 0)
__CPROVER_assigns(Q_front_covers, Q_front_val)
__CPROVER_ensures(Q_front_covers ==> Q_cov >= 1)
__CPROVER_ensures(!Q_front_covers ==> Q_n > Q_cov)
__CPROVER_ensures(Q_wf ==> (1 <= __CPROVER_return_value.first && __CPROVER_return_value.first <= __CPROVER_return_value.second && __CPROVER_return_value.second <= ND - 1))
__CPROVER_ensures(Q_wf ==> ((long)__CPROVER_return_value.second - (long)__CPROVER_return_value.first + 1 <= Q_len - (Q_n - 1)))
__CPROVER_ensures(Q_front_covers == (__CPROVER_return_value.first <= G && G <= __CPROVER_return_value.second))
__CPROVER_ensures(Q_front_val.first == __CPROVER_return_value.first && Q_front_val.second == __CPROVER_return_value.second);

void pos_pop(void)
__CPROVER_requires(Q_n > 0)
__CPROVER_assigns(Q_n, Q_cov, Q_len)
__CPROVER_ensures(Q_len == __CPROVER_old(Q_len) - ((long)Q_front_val.second - (long)Q_front_val.first + 1))
__CPROVER_ensures(Q_n == __CPROVER_old(Q_n) - 1)
__CPROVER_ensures(Q_cov == __CPROVER_old(Q_cov) - (Q_front_covers ? 1 : 0));

int validSegmentCount(const State *s1, const State *s2)
__CPROVER_requires(1) __CPROVER_ensures(__CPROVER_return_value == ND) __CPROVER_assigns();
void interpolate(const State *s1, const State *s2, double t, int num, int den, State *out)
__CPROVER_requires(out != NULL) __CPROVER_assigns(*out) __CPROVER_ensures(out->num == num && out->den == den);
bool isValid(const State *s)
__CPROVER_requires(s != NULL)
__CPROVER_assigns(checked_G, any_invalid, checks_at_G)
__CPROVER_ensures((s->num == G && s->den == ND) ==> (checked_G && __CPROVER_return_value == VG && checks_at_G == __CPROVER_old(checks_at_G) + 1))
__CPROVER_ensures(!(s->num == G && s->den == ND) ==> (checked_G == __CPROVER_old(checked_G) && checks_at_G == __CPROVER_old(checks_at_G)))
__CPROVER_ensures(any_invalid == (__CPROVER_old(any_invalid) || !__CPROVER_return_value));
State *allocState(void) __CPROVER_requires(1) __CPROVER_assigns() __CPROVER_ensures(__CPROVER_is_fresh(__CPROVER_return_value, sizeof(State)));
void freeState(State *s) __CPROVER_requires(s != NULL) __CPROVER_assigns() __CPROVER_ensures(1);

bool checkMotion(const State *s1, const State *s2)
__CPROVER_requires(ND >= 0 && ND <= 1000000000 && G >= 1 && G <= ND)
__CPROVER_requires(__CPROVER_is_fresh(s1, sizeof(State)) && __CPROVER_is_fresh(s2, sizeof(State)))
__CPROVER_requires(s2->num == ND && s2->den == ND)
__CPROVER_requires(!checked_G && checks_at_G == 0 && !any_invalid && valid_ < 1000000u && invalid_ < 1000000u)
__CPROVER_requires(Q_n == 0 && Q_cov == 0 && Q_wf && Q_len == 0)
__CPROVER_assigns(checked_G, checks_at_G, any_invalid, valid_, invalid_, Q_n, Q_cov, Q_wf, Q_len, Q_front_covers, Q_front_val)
__CPROVER_ensures(__CPROVER_return_value ==> (checked_G && VG))
__CPROVER_ensures(__CPROVER_return_value ==> checks_at_G == 1)
__CPROVER_ensures(!__CPROVER_return_value ==> any_invalid)
__CPROVER_ensures(valid_ + invalid_ == __CPROVER_old(valid_) + __CPROVER_old(invalid_) + 1)
{
    /* assume motion starts in a valid configuration so s1 is valid */
    if (!isValid(s2))
    {
        invalid_++;
        return false;
    }

    bool result = true;
    int nd = validSegmentCount(s1, s2);

    /* initialize the queue of test positions */
    
    if (nd >= 2)
    {
        pos_emplace(1, nd - 1);

        /* temporary storage for the checked state */
        State *test = allocState();

        /* repeatedly subdivide the path segment in the middle (and check the middle) */
        while (!pos_empty())
        __CPROVER_assigns(result, checked_G, checks_at_G, any_invalid, Q_n, Q_cov, Q_wf, Q_len, Q_front_covers, Q_front_val, *test)
        __CPROVER_loop_invariant(result && !any_invalid && Q_wf && 0 <= Q_cov && Q_cov <= Q_n && Q_n <= Q_len && Q_len <= ND - 1)
        __CPROVER_loop_invariant(G == ND || ((checked_G && VG && checks_at_G == 1 && Q_cov == 0) || (!checked_G && checks_at_G == 0 && Q_cov == 1)))
        __CPROVER_loop_invariant(G == ND ==> (checked_G && VG && checks_at_G == 1 && Q_cov == 0))
        __CPROVER_decreases(Q_len)
        {
            pair_int_int x = pos_front();

            int mid = (x.first + x.second) / 2;
            interpolate(s1, s2, (double)mid / (double)nd, mid, nd, test);

            if (!isValid(test))
            {
                result = false;
                break;
            }

            pos_pop();

            if (x.first < mid)
                pos_emplace(x.first, mid - 1);
            if (x.second > mid)
                pos_emplace(mid + 1, x.second);
        }

        freeState(test);
    }

    if (result)
        valid_++;
    else
        invalid_++;

    return result;
}
void harness(void){ State *a,*b; checkMotion(a,b); }
