#include <stddef.h>
#include <stdbool.h>
/* ---- prelude: abstract state = the fraction index it was interpolated at ---- */
typedef struct State { int num; int den; } State;   /* ghost content: interpolation parameter num/den */
typedef struct { State *first; double second; } pair_State_double;
int  G;            /* ghost index, arbitrary */
bool VG;           /* validity of the state at index G (arbitrary but fixed) */
bool checked_G;    /* ghost: isValid was evaluated at index G */
bool any_invalid;  /* ghost: some isValid call returned false */
int  last_interp_num, last_interp_den;
unsigned valid_, invalid_;
int ND;            /* what validSegmentCount returns */
State S2;
bool nondet_bool(void);

int validSegmentCount(const State *s1, const State *s2)
__CPROVER_ensures(__CPROVER_return_value == ND)
__CPROVER_assigns()
;
void interpolate(const State *s1, const State *s2, double t, int num, int den, State *out)
__CPROVER_requires(__CPROVER_is_fresh(out, sizeof(State)) || out != NULL)
__CPROVER_assigns(*out)
__CPROVER_ensures(out->num == num && out->den == den)
;
bool isValid(const State *s)
__CPROVER_requires(s != NULL)
__CPROVER_assigns(checked_G, any_invalid)
__CPROVER_ensures((s->num == G && s->den == ND) ==> (checked_G && __CPROVER_return_value == VG))
__CPROVER_ensures(!(s->num == G && s->den == ND) ==> checked_G == __CPROVER_old(checked_G))
__CPROVER_ensures(any_invalid == (__CPROVER_old(any_invalid) || !__CPROVER_return_value))
;
State *allocState(void)
__CPROVER_assigns()
__CPROVER_ensures(__CPROVER_is_fresh(__CPROVER_return_value, sizeof(State)))
;
void freeState(State *s)
__CPROVER_requires(s != NULL)
__CPROVER_assigns()
__CPROVER_ensures(1)
;

bool checkMotion_lv(const State *s1, const State *s2, pair_State_double *lastValid)
__CPROVER_requires(ND >= 0 && ND <= 1000000 && G >= 1 && G <= ND)
__CPROVER_requires(__CPROVER_is_fresh(s1, sizeof(State)) && __CPROVER_is_fresh(s2, sizeof(State)) && __CPROVER_is_fresh(lastValid, sizeof(*lastValid)))
__CPROVER_requires(s2->num == ND && s2->den == ND)
__CPROVER_requires(lastValid->first == NULL && lastValid->second == lastValid->second)
__CPROVER_requires(!checked_G && !any_invalid && valid_ < 1000000u && invalid_ < 1000000u)
__CPROVER_assigns(checked_G, any_invalid, valid_, invalid_, lastValid->second)
__CPROVER_ensures(__CPROVER_return_value ==> (checked_G && VG))            /* valid => every index incl. G was checked and valid */
__CPROVER_ensures(!__CPROVER_return_value ==> any_invalid)                /* invalid => some check failed */
__CPROVER_ensures(valid_ + invalid_ == __CPROVER_old(valid_) + __CPROVER_old(invalid_) + 1)
__CPROVER_ensures(__CPROVER_return_value ==> lastValid->second == __CPROVER_old(lastValid->second))
{
    /* assume motion starts in a valid configuration so s1 is valid */

    bool result = true;
    int nd = validSegmentCount(s1, s2);

    if (nd > 1)
    {
        /* temporary storage for the checked state */
        State *test = allocState();

        for (int j = 1; j < nd; ++j)
        __CPROVER_assigns(j, result, checked_G, any_invalid, lastValid->second, *test)
        __CPROVER_loop_invariant(1 <= j && j <= nd && result && !any_invalid)
        __CPROVER_loop_invariant((G < j) ==> (checked_G && VG))
        __CPROVER_loop_invariant(lastValid->second == __CPROVER_loop_entry(lastValid->second))
        __CPROVER_decreases(nd - j)
        {
            interpolate(s1, s2, (double)j / (double)nd, j, nd, test);
            if (!isValid(test))
            {
                lastValid->second = (double)(j - 1) / (double)nd;
                if (lastValid->first != NULL)
                    interpolate(s1, s2, lastValid->second, j-1, nd, lastValid->first);
                result = false;
                break;
            }
        }
        freeState(test);
    }

    if (result)
        if (!isValid(s2))
        {
            lastValid->second = (double)(nd - 1) / (double)nd;
            if (lastValid->first != NULL)
                interpolate(s1, s2, lastValid->second, nd-1, nd, lastValid->first);
            result = false;
        }

    if (result)
        valid_++;
    else
        invalid_++;

    return result;
}
void harness(void){ State *a,*b; pair_State_double *lv; checkMotion_lv(a,b,lv); }
