#include <math.h>
#include <stdbool.h>
#define pi 3.14159265358979323846
double nondet_double(void);
/* trusted: IEEE multiplication by t in [0,1] is monotone: result between 0 and x */
double fmul_unit(double x, double t)
__CPROVER_requires(t >= 0.0 && t <= 1.0 && x == x)
__CPROVER_assigns()
__CPROVER_ensures((x >= 0.0 ==> (__CPROVER_return_value >= 0.0 && __CPROVER_return_value <= x)) && (x <= 0.0 ==> (__CPROVER_return_value <= 0.0 && __CPROVER_return_value >= x)))
__CPROVER_ensures(t == 1.0 ==> __CPROVER_return_value == x)
__CPROVER_ensures(t == 0.0 ==> __CPROVER_return_value == 0.0)
;
double from_value, to_value, state_value;
static bool satisfiesBounds(double v){ return (v < pi) && (v >= -pi); }
void interpolate(const double t)
__CPROVER_requires(t >= 0.0 && t <= 1.0 && satisfiesBounds(from_value) && satisfiesBounds(to_value))
__CPROVER_assigns(state_value)
__CPROVER_ensures(satisfiesBounds(state_value))
__CPROVER_ensures(t == 0.0 ==> state_value == from_value)
{
    double diff = to_value - from_value;
    if (fabs(diff) <= pi)
        state_value = from_value + fmul_unit(diff, t);
    else
    {
        double *v = &state_value;
        if (diff > 0.0)
            diff = 2.0 * pi - diff;
        else
            diff = -2.0 * pi - diff;
        *v = from_value - fmul_unit(diff, t);
        // input states are within bounds, so the following check is sufficient
        if (*v > pi)
            *v -= 2.0 * pi;
        else if (*v < -pi)
            *v += 2.0 * pi;
    }
}
void harness(void){ from_value=nondet_double(); to_value=nondet_double(); interpolate(nondet_double()); }
