#include <math.h>
#include <stdbool.h>
#define pi 3.14159265358979323846
double nondet_double(void);
/* trusted: C99 fmod: result has the sign of x, magnitude < |y|, and equals x when |x| < |y| */
double fmod_stub(double x, double y)
__CPROVER_requires(x == x && !__CPROVER_isinfd(x) && y > 0.0)
__CPROVER_assigns()
__CPROVER_ensures(__CPROVER_return_value > -y && __CPROVER_return_value < y)
__CPROVER_ensures((x >= 0.0 ==> __CPROVER_return_value >= 0.0) && (x <= 0.0 ==> __CPROVER_return_value <= 0.0))
__CPROVER_ensures((x > -y && x < y) ==> __CPROVER_return_value == x)
;
double value;
static bool satisfiesBounds(double v){ return (v < pi) && (v >= -pi); }
void enforceBounds(void)
__CPROVER_requires(value == value && !__CPROVER_isinfd(value))
__CPROVER_assigns(value)
__CPROVER_ensures(satisfiesBounds(value))
__CPROVER_ensures(satisfiesBounds(__CPROVER_old(value)) ==> value == __CPROVER_old(value))
{
    double v = fmod_stub(value, 2.0 * pi);
    if (v < -pi)
        v += 2.0 * pi;
    else if (v >= pi)
        v -= 2.0 * pi;
    value = v;
}
void harness(void){ value = nondet_double(); enforceBounds(); }
