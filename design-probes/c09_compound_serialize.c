#include <stddef.h>
#include <stdbool.h>
#define MAXC 8
#define MAXLEN 64
typedef struct Comp { unsigned int len; } Comp;           /* component space: only its serialization length matters */
typedef struct State { int id; } State;
unsigned int componentCount_; Comp components_[MAXC]; State *cstate_components[MAXC];
unsigned int G;            /* ghost component index */
char *ghost_dst; unsigned int ghost_calls;   /* where component G was asked to write, and how often */

unsigned int comp_getSerializationLength(unsigned int i)
__CPROVER_requires(i < componentCount_) __CPROVER_assigns() __CPROVER_ensures(__CPROVER_return_value == components_[i].len);

void comp_serialize(unsigned int i, char *dst, const State *s)
__CPROVER_requires(i < componentCount_ && __CPROVER_w_ok(dst, components_[i].len))
__CPROVER_assigns(__CPROVER_object_upto(dst, components_[i].len), ghost_dst, ghost_calls)
__CPROVER_ensures(i == G ==> (ghost_dst == dst && ghost_calls == __CPROVER_old(ghost_calls) + 1))
__CPROVER_ensures(i != G ==> (ghost_dst == __CPROVER_old(ghost_dst) && ghost_calls == __CPROVER_old(ghost_calls)));

void compound_serialize(char *serialization, unsigned int total)
__CPROVER_requires(componentCount_ <= MAXC && G < componentCount_ && total <= MAXC*MAXLEN)
__CPROVER_requires(__CPROVER_is_fresh(serialization, total))
__CPROVER_requires(components_[0].len<=MAXLEN && components_[1].len<=MAXLEN && components_[2].len<=MAXLEN && components_[3].len<=MAXLEN && components_[4].len<=MAXLEN && components_[5].len<=MAXLEN && components_[6].len<=MAXLEN && components_[7].len<=MAXLEN)
__CPROVER_requires(total == (componentCount_>0?components_[0].len:0)+(componentCount_>1?components_[1].len:0)+(componentCount_>2?components_[2].len:0)+(componentCount_>3?components_[3].len:0)+(componentCount_>4?components_[4].len:0)+(componentCount_>5?components_[5].len:0)+(componentCount_>6?components_[6].len:0)+(componentCount_>7?components_[7].len:0))
__CPROVER_requires(ghost_calls == 0)
__CPROVER_assigns(__CPROVER_object_whole(serialization), ghost_dst, ghost_calls)
__CPROVER_ensures(ghost_calls == 1)
__CPROVER_ensures(ghost_dst == serialization + ((G>0?components_[0].len:0)+(G>1?components_[1].len:0)+(G>2?components_[2].len:0)+(G>3?components_[3].len:0)+(G>4?components_[4].len:0)+(G>5?components_[5].len:0)+(G>6?components_[6].len:0)))
{
    unsigned int l = 0;
    for (unsigned int i = 0; i < componentCount_; ++i)
    __CPROVER_assigns(i, l, __CPROVER_object_whole(serialization), ghost_dst, ghost_calls)
    __CPROVER_loop_invariant(i <= componentCount_)
    __CPROVER_loop_invariant(l == (i>0?components_[0].len:0)+(i>1?components_[1].len:0)+(i>2?components_[2].len:0)+(i>3?components_[3].len:0)+(i>4?components_[4].len:0)+(i>5?components_[5].len:0)+(i>6?components_[6].len:0)+(i>7?components_[7].len:0))
    __CPROVER_loop_invariant(ghost_calls == (i > G ? 1 : 0))
    __CPROVER_loop_invariant(i > G ==> ghost_dst == serialization + ((G>0?components_[0].len:0)+(G>1?components_[1].len:0)+(G>2?components_[2].len:0)+(G>3?components_[3].len:0)+(G>4?components_[4].len:0)+(G>5?components_[5].len:0)+(G>6?components_[6].len:0)))
    __CPROVER_decreases(componentCount_ - i)
    {
        comp_serialize(i, (char *)(serialization) + l, cstate_components[i]);
        l += comp_getSerializationLength(i);
    }
}
void harness(void){ char *p; unsigned t; compound_serialize(p,t); }
