
#include <stddef.h>
#include <stdbool.h>
typedef unsigned int ElemRef;
#ifndef N
#define N 15
#endif
#define NREF (N+2)
unsigned int F_position[NREF]; unsigned char F_data[NREF]; bool alive[NREF]; ElemRef next_ref;
ElemRef vector_[N+1]; size_t vector__size;
#define lt_(a,b) ((a)<(b))
#define NEW_Element() (alive[next_ref]=1, next_ref++)
#define DELETE_Element(r) do{ __CPROVER_assert(alive[r],"delete of live element"); alive[r]=0; }while(0)
#define VEC_PUSH(v,x) do{ v[v##_size++] = (x); }while(0)
typedef void (*Ev)(ElemRef, void*); Ev eventAfterInsert_; void *eventAfterInsertData_;
void percolateUp(const unsigned int pos)
{
            ElemRef tmp = vector_[pos];
            unsigned int child = pos;
            unsigned int parent = (pos - 1) >> 1;

            while (child > 0 && lt_(F_data[tmp], F_data[vector_[parent]]))
            {
                vector_[child] = vector_[parent];
                F_position[vector_[child]] = child;
                child = parent;
                parent = (parent - 1) >> 1;
            }
            if (child != pos)
            {
                vector_[child] = tmp;
                F_position[vector_[child]] = child;
            }
        }

void percolateDown(const unsigned int pos)
{
            const unsigned int n = vector__size;
            ElemRef tmp = vector_[pos];
            unsigned int parent = pos;
            unsigned int child = (pos + 1) << 1;

            while (child < n)
            {
                if (lt_(F_data[vector_[child - 1]], F_data[vector_[child]]))
                    --child;
                if (lt_(F_data[vector_[child]], F_data[tmp]))
                {
                    vector_[parent] = vector_[child];
                    F_position[vector_[parent]] = parent;
                }
                else
                    break;
                parent = child;
                child = (child + 1) << 1;
            }
            if (child == n)
            {
                --child;
                if (lt_(F_data[vector_[child]], F_data[tmp]))
                {
                    vector_[parent] = vector_[child];
                    F_position[vector_[parent]] = parent;
                    parent = child;
                }
            }
            if (parent != pos)
            {
                vector_[parent] = tmp;
                F_position[vector_[parent]] = parent;
            }
        }

void removePos(unsigned int pos)
{
            const int n = vector__size - 1;
            DELETE_Element(vector_[pos]);
            if ((int)pos < n)
            {
                vector_[pos] = vector_[vector__size - 1];
                F_position[vector_[pos]] = pos;
                vector__size--;
                percolateDown(pos);
            }
            else
                vector__size--;
        }

void update(ElemRef element)
{
            const unsigned int pos = F_position[element];
            __CPROVER_assert(vector_[pos] == element, "assert");
            percolateUp(pos);
            percolateDown(pos);
        }

ElemRef insert(const unsigned char data)
{
            ElemRef element = NEW_Element();
            F_data[element] = data;
            const unsigned int pos = vector__size;
            F_position[element] = pos;
            VEC_PUSH(vector_, element);
            percolateUp(pos);
            if (eventAfterInsert_)
                eventAfterInsert_(element, eventAfterInsertData_);
            return element;
        }

void build(void)
{
            for (int i = vector__size / 2 - 1; i >= 0; --i)
                percolateDown(i);
        }


unsigned nondet_u(void); unsigned char nondet_i(void);
static void any_heap(unsigned n, bool ordered){
  vector__size=n; next_ref=n;
  for(unsigned i=0;i<N;i++) if(i<n){ vector_[i]=i; F_position[i]=i; alive[i]=1; F_data[i]=nondet_i(); if(ordered && i>0) __CPROVER_assume(!(F_data[i] < F_data[(i-1)>>1])); }
}
static void check(void){
  for(unsigned i=1;i<N+1;i++) if(i<vector__size) __CPROVER_assert(!(F_data[vector_[i]] < F_data[vector_[(i-1)>>1]]),"heap order");
  for(unsigned i=0;i<N+1;i++) if(i<vector__size) __CPROVER_assert(F_position[vector_[i]]==i && alive[vector_[i]],"handles");
}
void h_update(void){ unsigned n=nondet_u(); __CPROVER_assume(n>=1&&n<=N); any_heap(n,true); unsigned k=nondet_u(); __CPROVER_assume(k<n); F_data[vector_[k]]=nondet_i(); update(vector_[k]); check(); __CPROVER_assert(vector__size==n,"size"); }
void h_insert(void){ unsigned n=nondet_u(); __CPROVER_assume(n<=N-1); any_heap(n,true); ElemRef e=insert(nondet_i()); check(); __CPROVER_assert(vector__size==n+1 && vector_[F_position[e]]==e,"size/handle"); }
void h_build(void){ unsigned n=nondet_u(); __CPROVER_assume(n<=N); any_heap(n,false); build(); check(); }
void h_remove(void){ unsigned n=nondet_u(); __CPROVER_assume(n>=1&&n<=N); any_heap(n,true); unsigned k=nondet_u(); __CPROVER_assume(k<n); removePos(k); check(); }
