
#include <stddef.h>
#include <stdbool.h>
typedef unsigned short ElemRef;
#define NREF 65536
unsigned int F_position[NREF]; int F_data[NREF];
ElemRef vector_[65536]; size_t vector__size;
#define lt_(a,b) ((a)<(b))
#define D(e) (F_data[e])
#define PAR(x) (((x)-1u)>>1)
#define SIB(x) (((x)&1u) ? (x)+1u : (x)-1u)
unsigned int G; ElemRef E_G, E_P, E_PP, E_C1, E_C2, E_S, T; ElemRef H;
#define P  PAR(G)
#define PP PAR(P)
#define C1 (2u*G+1u)
#define C2 (2u*G+2u)
#define S  SIB(G)
#define N vector__size
#define ABOVE_G  (((((parent)+1u)>>0) == (G)+1u || (((parent)+1u)>>1) == (G)+1u || (((parent)+1u)>>2) == (G)+1u || (((parent)+1u)>>3) == (G)+1u || (((parent)+1u)>>4) == (G)+1u || (((parent)+1u)>>5) == (G)+1u || (((parent)+1u)>>6) == (G)+1u || (((parent)+1u)>>7) == (G)+1u || (((parent)+1u)>>8) == (G)+1u || (((parent)+1u)>>9) == (G)+1u || (((parent)+1u)>>10) == (G)+1u || (((parent)+1u)>>11) == (G)+1u || (((parent)+1u)>>12) == (G)+1u || (((parent)+1u)>>13) == (G)+1u || (((parent)+1u)>>14) == (G)+1u || (((parent)+1u)>>15) == (G)+1u || (((parent)+1u)>>16) == (G)+1u) && G >= pos && G != parent)
#define ABOVE_P  (G > 0 && ((((parent)+1u)>>0) == (P)+1u || (((parent)+1u)>>1) == (P)+1u || (((parent)+1u)>>2) == (P)+1u || (((parent)+1u)>>3) == (P)+1u || (((parent)+1u)>>4) == (P)+1u || (((parent)+1u)>>5) == (P)+1u || (((parent)+1u)>>6) == (P)+1u || (((parent)+1u)>>7) == (P)+1u || (((parent)+1u)>>8) == (P)+1u || (((parent)+1u)>>9) == (P)+1u || (((parent)+1u)>>10) == (P)+1u || (((parent)+1u)>>11) == (P)+1u || (((parent)+1u)>>12) == (P)+1u || (((parent)+1u)>>13) == (P)+1u || (((parent)+1u)>>14) == (P)+1u || (((parent)+1u)>>15) == (P)+1u || (((parent)+1u)>>16) == (P)+1u) && P >= pos && P != parent)
void percolateDown(const unsigned int pos)
__CPROVER_requires(N >= 1 && N <= 32767 && pos < N && G < N)
__CPROVER_requires(E_G == vector_[G] && T == vector_[pos])
__CPROVER_requires(G > 0 ==> E_P == vector_[P])
__CPROVER_requires((G > 0 && P > 0) ==> E_PP == vector_[PP])
__CPROVER_requires(C1 < N ==> E_C1 == vector_[C1])
__CPROVER_requires(C2 < N ==> E_C2 == vector_[C2])
__CPROVER_requires((G > 0 && S < N) ==> E_S == vector_[S])
/* pre-state heap order instances; relations whose parent is pos are excluded */
__CPROVER_requires((G > 0 && P != pos) ==> !lt_(D(vector_[G]), D(vector_[P])))
__CPROVER_requires((C1 < N && G != pos) ==> !lt_(D(vector_[C1]), D(vector_[G])))
__CPROVER_requires((C2 < N && G != pos) ==> !lt_(D(vector_[C2]), D(vector_[G])))
__CPROVER_requires((G > 0 && S < N && P != pos) ==> !lt_(D(vector_[S]), D(vector_[P])))
/* grand relation: children of pos are not smaller than the parent of pos */
__CPROVER_requires((G > 0 && P == pos && pos > 0) ==> !lt_(D(vector_[G]), D(vector_[PP])))
/* grand relation, seen from G == pos: its children are not smaller than its parent */
__CPROVER_requires((G == pos && pos > 0 && C1 < N) ==> !lt_(D(vector_[C1]), D(vector_[P])))
__CPROVER_requires((G == pos && pos > 0 && C2 < N) ==> !lt_(D(vector_[C2]), D(vector_[P])))
/* handles */
__CPROVER_requires(F_position[H] < N && vector_[F_position[H]] == H)
__CPROVER_requires(F_position[vector_[pos]] == pos)
__CPROVER_assigns(vector_, F_position)
__CPROVER_ensures(G > 0 ==> !lt_(D(vector_[G]), D(vector_[P])))
__CPROVER_ensures(F_position[H] < N && vector_[F_position[H]] == H)
{
            const unsigned int n = vector__size;
            ElemRef tmp = vector_[pos];
            unsigned int parent = pos;
            unsigned int child = (pos + 1) << 1;

            while (child < n)
            __CPROVER_assigns(child, parent, vector_, F_position)
            __CPROVER_loop_invariant(pos <= parent && parent < n && n == N && ((((parent)+1u)>>0) == (pos)+1u || (((parent)+1u)>>1) == (pos)+1u || (((parent)+1u)>>2) == (pos)+1u || (((parent)+1u)>>3) == (pos)+1u || (((parent)+1u)>>4) == (pos)+1u || (((parent)+1u)>>5) == (pos)+1u || (((parent)+1u)>>6) == (pos)+1u || (((parent)+1u)>>7) == (pos)+1u || (((parent)+1u)>>8) == (pos)+1u || (((parent)+1u)>>9) == (pos)+1u || (((parent)+1u)>>10) == (pos)+1u || (((parent)+1u)>>11) == (pos)+1u || (((parent)+1u)>>12) == (pos)+1u || (((parent)+1u)>>13) == (pos)+1u || (((parent)+1u)>>14) == (pos)+1u || (((parent)+1u)>>15) == (pos)+1u || (((parent)+1u)>>16) == (pos)+1u) && child == ((parent + 1u) << 1) && tmp == T)
            __CPROVER_loop_invariant(!ABOVE_G ==> vector_[G] == E_G)
            __CPROVER_loop_invariant(ABOVE_G ==> vector_[G] == (((((parent)+1u)>>0) == (C1)+1u || (((parent)+1u)>>1) == (C1)+1u || (((parent)+1u)>>2) == (C1)+1u || (((parent)+1u)>>3) == (C1)+1u || (((parent)+1u)>>4) == (C1)+1u || (((parent)+1u)>>5) == (C1)+1u || (((parent)+1u)>>6) == (C1)+1u || (((parent)+1u)>>7) == (C1)+1u || (((parent)+1u)>>8) == (C1)+1u || (((parent)+1u)>>9) == (C1)+1u || (((parent)+1u)>>10) == (C1)+1u || (((parent)+1u)>>11) == (C1)+1u || (((parent)+1u)>>12) == (C1)+1u || (((parent)+1u)>>13) == (C1)+1u || (((parent)+1u)>>14) == (C1)+1u || (((parent)+1u)>>15) == (C1)+1u || (((parent)+1u)>>16) == (C1)+1u) ? E_C1 : E_C2))
            __CPROVER_loop_invariant(ABOVE_G ==> lt_(D(vector_[G]), D(T)))
            __CPROVER_loop_invariant(G > 0 ==> (!ABOVE_P ==> vector_[P] == E_P))
            __CPROVER_loop_invariant(ABOVE_P ==> vector_[P] == (((((parent)+1u)>>0) == (G)+1u || (((parent)+1u)>>1) == (G)+1u || (((parent)+1u)>>2) == (G)+1u || (((parent)+1u)>>3) == (G)+1u || (((parent)+1u)>>4) == (G)+1u || (((parent)+1u)>>5) == (G)+1u || (((parent)+1u)>>6) == (G)+1u || (((parent)+1u)>>7) == (G)+1u || (((parent)+1u)>>8) == (G)+1u || (((parent)+1u)>>9) == (G)+1u || (((parent)+1u)>>10) == (G)+1u || (((parent)+1u)>>11) == (G)+1u || (((parent)+1u)>>12) == (G)+1u || (((parent)+1u)>>13) == (G)+1u || (((parent)+1u)>>14) == (G)+1u || (((parent)+1u)>>15) == (G)+1u || (((parent)+1u)>>16) == (G)+1u) ? E_G : E_S))
            __CPROVER_loop_invariant(ABOVE_P ==> lt_(D(vector_[P]), D(T)))
            __CPROVER_loop_invariant((ABOVE_P && !((((parent)+1u)>>0) == (G)+1u || (((parent)+1u)>>1) == (G)+1u || (((parent)+1u)>>2) == (G)+1u || (((parent)+1u)>>3) == (G)+1u || (((parent)+1u)>>4) == (G)+1u || (((parent)+1u)>>5) == (G)+1u || (((parent)+1u)>>6) == (G)+1u || (((parent)+1u)>>7) == (G)+1u || (((parent)+1u)>>8) == (G)+1u || (((parent)+1u)>>9) == (G)+1u || (((parent)+1u)>>10) == (G)+1u || (((parent)+1u)>>11) == (G)+1u || (((parent)+1u)>>12) == (G)+1u || (((parent)+1u)>>13) == (G)+1u || (((parent)+1u)>>14) == (G)+1u || (((parent)+1u)>>15) == (G)+1u || (((parent)+1u)>>16) == (G)+1u)) ==> !lt_(D(E_G), D(vector_[P])))
            __CPROVER_loop_invariant((G > 0 && P > 0) ==> (PP < pos ==> vector_[PP] == E_PP))
            __CPROVER_loop_invariant(C1 < N ==> (!((((parent)+1u)>>0) == (C1)+1u || (((parent)+1u)>>1) == (C1)+1u || (((parent)+1u)>>2) == (C1)+1u || (((parent)+1u)>>3) == (C1)+1u || (((parent)+1u)>>4) == (C1)+1u || (((parent)+1u)>>5) == (C1)+1u || (((parent)+1u)>>6) == (C1)+1u || (((parent)+1u)>>7) == (C1)+1u || (((parent)+1u)>>8) == (C1)+1u || (((parent)+1u)>>9) == (C1)+1u || (((parent)+1u)>>10) == (C1)+1u || (((parent)+1u)>>11) == (C1)+1u || (((parent)+1u)>>12) == (C1)+1u || (((parent)+1u)>>13) == (C1)+1u || (((parent)+1u)>>14) == (C1)+1u || (((parent)+1u)>>15) == (C1)+1u || (((parent)+1u)>>16) == (C1)+1u) || C1 == parent || C1 < pos ==> vector_[C1] == E_C1))
            __CPROVER_loop_invariant(C2 < N ==> (!((((parent)+1u)>>0) == (C2)+1u || (((parent)+1u)>>1) == (C2)+1u || (((parent)+1u)>>2) == (C2)+1u || (((parent)+1u)>>3) == (C2)+1u || (((parent)+1u)>>4) == (C2)+1u || (((parent)+1u)>>5) == (C2)+1u || (((parent)+1u)>>6) == (C2)+1u || (((parent)+1u)>>7) == (C2)+1u || (((parent)+1u)>>8) == (C2)+1u || (((parent)+1u)>>9) == (C2)+1u || (((parent)+1u)>>10) == (C2)+1u || (((parent)+1u)>>11) == (C2)+1u || (((parent)+1u)>>12) == (C2)+1u || (((parent)+1u)>>13) == (C2)+1u || (((parent)+1u)>>14) == (C2)+1u || (((parent)+1u)>>15) == (C2)+1u || (((parent)+1u)>>16) == (C2)+1u) || C2 == parent || C2 < pos ==> vector_[C2] == E_C2))
            __CPROVER_loop_invariant((G > 0 && S < N) ==> (!((((parent)+1u)>>0) == (S)+1u || (((parent)+1u)>>1) == (S)+1u || (((parent)+1u)>>2) == (S)+1u || (((parent)+1u)>>3) == (S)+1u || (((parent)+1u)>>4) == (S)+1u || (((parent)+1u)>>5) == (S)+1u || (((parent)+1u)>>6) == (S)+1u || (((parent)+1u)>>7) == (S)+1u || (((parent)+1u)>>8) == (S)+1u || (((parent)+1u)>>9) == (S)+1u || (((parent)+1u)>>10) == (S)+1u || (((parent)+1u)>>11) == (S)+1u || (((parent)+1u)>>12) == (S)+1u || (((parent)+1u)>>13) == (S)+1u || (((parent)+1u)>>14) == (S)+1u || (((parent)+1u)>>15) == (S)+1u || (((parent)+1u)>>16) == (S)+1u) || S == parent || S < pos ==> vector_[S] == E_S))
            __CPROVER_loop_invariant(H != T ==> (F_position[H] < N && vector_[F_position[H]] == H && F_position[H] != parent))
            __CPROVER_loop_invariant(H == T ==> F_position[H] == pos)
            __CPROVER_loop_invariant(parent == pos ==> vector_[pos] == T)
            __CPROVER_decreases(n - parent)
            {
                if (lt_(F_data[vector_[child - 1]], F_data[vector_[child]]))
                    --child;
                if (lt_(F_data[vector_[child]], F_data[tmp]))
                {
                    vector_[parent] = vector_[child];
                    F_position[vector_[parent]] = parent;
                }
                else
                    break;
                parent = child;
                child = (child + 1) << 1;
            }
            if (child == n)
            {
                --child;
                if (lt_(F_data[vector_[child]], F_data[tmp]))
                {
                    vector_[parent] = vector_[child];
                    F_position[vector_[parent]] = parent;
                    parent = child;
                }
            }
            if (parent != pos)
            {
                vector_[parent] = tmp;
                F_position[vector_[parent]] = parent;
            }
}
void harness(void){ unsigned int pos; percolateDown(pos); }
