
#include <stddef.h>
#include <stdbool.h>
typedef unsigned short ElemRef;
#define NREF 65536
unsigned int F_position[NREF]; int F_data[NREF];
ElemRef vector_[65536]; size_t vector__size;
#define lt_(a,b) ((a)<(b))
#define D(e) (F_data[e])
#define PAR(x) (((x)-1u)>>1)
unsigned int G; ElemRef E_G, E_P, E_PP, T; ElemRef H;
#define P  PAR(G)
#define PP PAR(P)
#define N vector__size
unsigned int pos, child, parent; ElemRef tmp;
#define INV ( child <= pos && pos < N && N <= 65535 && G < N && ((((pos)+1u)>>0) == (child)+1u || (((pos)+1u)>>1) == (child)+1u || (((pos)+1u)>>2) == (child)+1u || (((pos)+1u)>>3) == (child)+1u || (((pos)+1u)>>4) == (child)+1u || (((pos)+1u)>>5) == (child)+1u || (((pos)+1u)>>6) == (child)+1u || (((pos)+1u)>>7) == (child)+1u || (((pos)+1u)>>8) == (child)+1u || (((pos)+1u)>>9) == (child)+1u || (((pos)+1u)>>10) == (child)+1u || (((pos)+1u)>>11) == (child)+1u || (((pos)+1u)>>12) == (child)+1u || (((pos)+1u)>>13) == (child)+1u || (((pos)+1u)>>14) == (child)+1u || (((pos)+1u)>>15) == (child)+1u || (((pos)+1u)>>16) == (child)+1u) && (child > 0 ? parent == PAR(child) : 1) && tmp == T \
  && (((G <= child) || !((((pos)+1u)>>0) == (G)+1u || (((pos)+1u)>>1) == (G)+1u || (((pos)+1u)>>2) == (G)+1u || (((pos)+1u)>>3) == (G)+1u || (((pos)+1u)>>4) == (G)+1u || (((pos)+1u)>>5) == (G)+1u || (((pos)+1u)>>6) == (G)+1u || (((pos)+1u)>>7) == (G)+1u || (((pos)+1u)>>8) == (G)+1u || (((pos)+1u)>>9) == (G)+1u || (((pos)+1u)>>10) == (G)+1u || (((pos)+1u)>>11) == (G)+1u || (((pos)+1u)>>12) == (G)+1u || (((pos)+1u)>>13) == (G)+1u || (((pos)+1u)>>14) == (G)+1u || (((pos)+1u)>>15) == (G)+1u || (((pos)+1u)>>16) == (G)+1u)) ? vector_[G] == E_G : 1) \
  && ((G > 0) ? (((P <= child) || !((((pos)+1u)>>0) == (P)+1u || (((pos)+1u)>>1) == (P)+1u || (((pos)+1u)>>2) == (P)+1u || (((pos)+1u)>>3) == (P)+1u || (((pos)+1u)>>4) == (P)+1u || (((pos)+1u)>>5) == (P)+1u || (((pos)+1u)>>6) == (P)+1u || (((pos)+1u)>>7) == (P)+1u || (((pos)+1u)>>8) == (P)+1u || (((pos)+1u)>>9) == (P)+1u || (((pos)+1u)>>10) == (P)+1u || (((pos)+1u)>>11) == (P)+1u || (((pos)+1u)>>12) == (P)+1u || (((pos)+1u)>>13) == (P)+1u || (((pos)+1u)>>14) == (P)+1u || (((pos)+1u)>>15) == (P)+1u || (((pos)+1u)>>16) == (P)+1u)) ? vector_[P] == E_P : 1) : 1) \
  && ((G > 0 && P > 0) ? ((PP <= child) ? vector_[PP] == E_PP : 1) : 1) \
  && ((G > child && ((((pos)+1u)>>0) == (G)+1u || (((pos)+1u)>>1) == (G)+1u || (((pos)+1u)>>2) == (G)+1u || (((pos)+1u)>>3) == (G)+1u || (((pos)+1u)>>4) == (G)+1u || (((pos)+1u)>>5) == (G)+1u || (((pos)+1u)>>6) == (G)+1u || (((pos)+1u)>>7) == (G)+1u || (((pos)+1u)>>8) == (G)+1u || (((pos)+1u)>>9) == (G)+1u || (((pos)+1u)>>10) == (G)+1u || (((pos)+1u)>>11) == (G)+1u || (((pos)+1u)>>12) == (G)+1u || (((pos)+1u)>>13) == (G)+1u || (((pos)+1u)>>14) == (G)+1u || (((pos)+1u)>>15) == (G)+1u || (((pos)+1u)>>16) == (G)+1u)) ? vector_[G] == E_P : 1) \
  && ((G > 0 && P > child && ((((pos)+1u)>>0) == (P)+1u || (((pos)+1u)>>1) == (P)+1u || (((pos)+1u)>>2) == (P)+1u || (((pos)+1u)>>3) == (P)+1u || (((pos)+1u)>>4) == (P)+1u || (((pos)+1u)>>5) == (P)+1u || (((pos)+1u)>>6) == (P)+1u || (((pos)+1u)>>7) == (P)+1u || (((pos)+1u)>>8) == (P)+1u || (((pos)+1u)>>9) == (P)+1u || (((pos)+1u)>>10) == (P)+1u || (((pos)+1u)>>11) == (P)+1u || (((pos)+1u)>>12) == (P)+1u || (((pos)+1u)>>13) == (P)+1u || (((pos)+1u)>>14) == (P)+1u || (((pos)+1u)>>15) == (P)+1u || (((pos)+1u)>>16) == (P)+1u)) ? vector_[P] == E_PP : 1) \
  && ((child != pos) ? lt_(D(T), D(vector_[child])) : 1) \
  && ((H != T) ? (F_position[H] < N && vector_[F_position[H]] == H && F_position[H] != child) : 1) \
  && ((H == T) ? F_position[H] == pos : 1) )
/* step: all statics are nondet (--nondet-static) = havocked loop-head state */
void step(void){
  __CPROVER_assume(INV);
  __CPROVER_assume(child > 0 && lt_(F_data[tmp], F_data[vector_[parent]]));
  unsigned int old_child = child;
            {
                __CPROVER_assert(child < N && parent < N, "index in range");
                vector_[child] = vector_[parent];
                F_position[vector_[child]] = child;
                child = parent;
                parent = (parent - 1) >> 1;
            }
  __CPROVER_assert(INV, "invariant preserved");
  __CPROVER_assert(child < old_child, "decreases");
}
