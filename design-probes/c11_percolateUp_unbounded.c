
#include <stddef.h>
#include <stdbool.h>
typedef unsigned short ElemRef;
#define NREF 65536
unsigned int F_position[NREF]; int F_data[NREF];
ElemRef vector_[65536]; size_t vector__size;
#define lt_(a,b) ((a)<(b))
#define D(e) (F_data[e])
#define PAR(x) (((x)-1u)>>1)
/* ghosts */
unsigned int G; ElemRef E_G, E_P, E_PP, T; ElemRef H; unsigned int POS;
#define P  PAR(G)
#define PP PAR(P)
#define ONP(x) ONPATH_X
#define N vector__size
void percolateUp(const unsigned int pos)
__CPROVER_requires(N >= 1 && N <= 65535 && pos < N && POS == pos && G < N)
__CPROVER_requires(E_G == vector_[G] && T == vector_[pos])
__CPROVER_requires(G > 0 ==> E_P == vector_[P])
__CPROVER_requires((G > 0 && P > 0) ==> E_PP == vector_[PP])
/* heap order instances (pre-state), excluding relations whose child is pos and whose parent is pos */
__CPROVER_requires((G > 0 && G != pos && P != pos) ==> !lt_(D(vector_[G]), D(vector_[P])))
__CPROVER_requires((G > 0 && P > 0 && P != pos) ==> !lt_(D(vector_[P]), D(vector_[PP])))
/* grand relation for children of pos */
__CPROVER_requires((G > 0 && P == pos && pos > 0) ==> !lt_(D(vector_[G]), D(vector_[PP])))
/* handle of ghost element H */
__CPROVER_requires(F_position[H] < N && vector_[F_position[H]] == H)
__CPROVER_requires(F_position[vector_[pos]] == pos)
__CPROVER_assigns(vector_, F_position)
/* post: order at G unless G is a child of pos and nothing moved */
__CPROVER_ensures((G > 0 && !(P == pos && vector_[pos] == T)) ==> !lt_(D(vector_[G]), D(vector_[P])))
__CPROVER_ensures((G > 0 && P == pos && vector_[pos] == T) ==> vector_[G] == E_G)
__CPROVER_ensures(F_position[H] < N && vector_[F_position[H]] == H)
{
            ElemRef tmp = vector_[pos];
            unsigned int child = pos;
            unsigned int parent = (pos - 1) >> 1;

            while (child > 0 && lt_(F_data[tmp], F_data[vector_[parent]]))
            __CPROVER_assigns(child, parent, vector_, F_position)
            __CPROVER_loop_invariant(child <= pos && ((((pos)+1u)>>0) == (child)+1u || (((pos)+1u)>>1) == (child)+1u || (((pos)+1u)>>2) == (child)+1u || (((pos)+1u)>>3) == (child)+1u || (((pos)+1u)>>4) == (child)+1u || (((pos)+1u)>>5) == (child)+1u || (((pos)+1u)>>6) == (child)+1u || (((pos)+1u)>>7) == (child)+1u || (((pos)+1u)>>8) == (child)+1u || (((pos)+1u)>>9) == (child)+1u || (((pos)+1u)>>10) == (child)+1u || (((pos)+1u)>>11) == (child)+1u || (((pos)+1u)>>12) == (child)+1u || (((pos)+1u)>>13) == (child)+1u || (((pos)+1u)>>14) == (child)+1u || (((pos)+1u)>>15) == (child)+1u || (((pos)+1u)>>16) == (child)+1u) && (child > 0 ==> parent == PAR(child)) && tmp == T)
            /* untouched at or above the hole, and off the path */
            __CPROVER_loop_invariant((G <= child || !((((pos)+1u)>>0) == (G)+1u || (((pos)+1u)>>1) == (G)+1u || (((pos)+1u)>>2) == (G)+1u || (((pos)+1u)>>3) == (G)+1u || (((pos)+1u)>>4) == (G)+1u || (((pos)+1u)>>5) == (G)+1u || (((pos)+1u)>>6) == (G)+1u || (((pos)+1u)>>7) == (G)+1u || (((pos)+1u)>>8) == (G)+1u || (((pos)+1u)>>9) == (G)+1u || (((pos)+1u)>>10) == (G)+1u || (((pos)+1u)>>11) == (G)+1u || (((pos)+1u)>>12) == (G)+1u || (((pos)+1u)>>13) == (G)+1u || (((pos)+1u)>>14) == (G)+1u || (((pos)+1u)>>15) == (G)+1u || (((pos)+1u)>>16) == (G)+1u)) ==> vector_[G] == E_G)
            __CPROVER_loop_invariant(G > 0 ==> ((P <= child || !((((pos)+1u)>>0) == (P)+1u || (((pos)+1u)>>1) == (P)+1u || (((pos)+1u)>>2) == (P)+1u || (((pos)+1u)>>3) == (P)+1u || (((pos)+1u)>>4) == (P)+1u || (((pos)+1u)>>5) == (P)+1u || (((pos)+1u)>>6) == (P)+1u || (((pos)+1u)>>7) == (P)+1u || (((pos)+1u)>>8) == (P)+1u || (((pos)+1u)>>9) == (P)+1u || (((pos)+1u)>>10) == (P)+1u || (((pos)+1u)>>11) == (P)+1u || (((pos)+1u)>>12) == (P)+1u || (((pos)+1u)>>13) == (P)+1u || (((pos)+1u)>>14) == (P)+1u || (((pos)+1u)>>15) == (P)+1u || (((pos)+1u)>>16) == (P)+1u)) ==> vector_[P] == E_P))
            __CPROVER_loop_invariant((G > 0 && P > 0) ==> (PP <= child ==> vector_[PP] == E_PP))
            /* shifted: on the path strictly below the hole */
            __CPROVER_loop_invariant((G > child && ((((pos)+1u)>>0) == (G)+1u || (((pos)+1u)>>1) == (G)+1u || (((pos)+1u)>>2) == (G)+1u || (((pos)+1u)>>3) == (G)+1u || (((pos)+1u)>>4) == (G)+1u || (((pos)+1u)>>5) == (G)+1u || (((pos)+1u)>>6) == (G)+1u || (((pos)+1u)>>7) == (G)+1u || (((pos)+1u)>>8) == (G)+1u || (((pos)+1u)>>9) == (G)+1u || (((pos)+1u)>>10) == (G)+1u || (((pos)+1u)>>11) == (G)+1u || (((pos)+1u)>>12) == (G)+1u || (((pos)+1u)>>13) == (G)+1u || (((pos)+1u)>>14) == (G)+1u || (((pos)+1u)>>15) == (G)+1u || (((pos)+1u)>>16) == (G)+1u)) ==> vector_[G] == E_P)
            __CPROVER_loop_invariant((G > 0 && P > child && ((((pos)+1u)>>0) == (P)+1u || (((pos)+1u)>>1) == (P)+1u || (((pos)+1u)>>2) == (P)+1u || (((pos)+1u)>>3) == (P)+1u || (((pos)+1u)>>4) == (P)+1u || (((pos)+1u)>>5) == (P)+1u || (((pos)+1u)>>6) == (P)+1u || (((pos)+1u)>>7) == (P)+1u || (((pos)+1u)>>8) == (P)+1u || (((pos)+1u)>>9) == (P)+1u || (((pos)+1u)>>10) == (P)+1u || (((pos)+1u)>>11) == (P)+1u || (((pos)+1u)>>12) == (P)+1u || (((pos)+1u)>>13) == (P)+1u || (((pos)+1u)>>14) == (P)+1u || (((pos)+1u)>>15) == (P)+1u || (((pos)+1u)>>16) == (P)+1u)) ==> vector_[P] == E_PP)
            __CPROVER_loop_invariant(child != pos ==> lt_(D(T), D(vector_[child])))
            /* handle of H */
            __CPROVER_loop_invariant(H != T ==> (F_position[H] < N && vector_[F_position[H]] == H && F_position[H] != child))
            __CPROVER_loop_invariant(H == T ==> F_position[H] == pos)
            __CPROVER_loop_invariant(child == pos ==> vector_[pos] == T)
            __CPROVER_decreases(child)
            {
                vector_[child] = vector_[parent];
                F_position[vector_[child]] = child;
                child = parent;
                parent = (parent - 1) >> 1;
            }
            if (child != pos)
            {
                vector_[child] = tmp;
                F_position[vector_[child]] = child;
            }
}
void harness(void){ unsigned int pos; percolateUp(pos); }
