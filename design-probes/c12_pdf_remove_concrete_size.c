#include <stddef.h>
#include <stdbool.h>
#ifndef N
#define N 8
#endif
#define ROWS 5
typedef int W;                 /* weights as exact integers */
typedef unsigned ElemRef;
size_t F_index[64];             /* Element::index_ */
ElemRef data_[N]; size_t data_size;
W tree_[ROWS][N]; size_t tree_rowsize[ROWS]; size_t tree_size;
bool alive[64]; bool EXC_;
#define EXC() do{EXC_=1;}while(0)
/* ---- extracted: PDF::remove ---- */
void pdf_remove(ElemRef elem)
{
            if (data_size == 1)
            {
                alive[data_[0]] = 0;
                data_size = 0;
                tree_size = 0;
                return;
            }

            const size_t index = F_index[elem];
            __CPROVER_assert(alive[data_[index]], "no double free"); alive[data_[index]] = 0;

            W weight;
            if (index + 1 == data_size)
                weight = tree_[0][tree_rowsize[0]-1];
            else
            {
                { ElemRef t_ = data_[index]; data_[index] = data_[data_size-1]; data_[data_size-1] = t_; }
                F_index[data_[index]] = index;
                { W t_ = tree_[0][index]; tree_[0][index] = tree_[0][tree_rowsize[0]-1]; tree_[0][tree_rowsize[0]-1] = t_; }

                if (index + 2 == data_size && index % 2 == 0)
                    weight = tree_[0][tree_rowsize[0]-1];
                else
                {
                    weight = tree_[0][index];
                    const W weightChange = weight - tree_[0][tree_rowsize[0]-1];
                    size_t parent = index >> 1;
                    for (size_t row = 1; row < tree_size; ++row)
                    {
                        tree_[row][parent] += weightChange;
                        parent >>= 1;
                    }
                }
            }

            data_size--;
            tree_rowsize[0]--;
            for (size_t i = 1; i < tree_size && tree_rowsize[i - 1] > 1; ++i)
            {
                if (tree_rowsize[i - 1] % 2 == 0)
                    tree_rowsize[i]--;
                else
                {
                    while (i < tree_size)
                    {
                        tree_[i][tree_rowsize[i]-1] -= weight;
                        ++i;
                    }
                    return;
                }
            }
            tree_size--;
}
/* ---- harness: arbitrary well-formed PDF with n<=N elements, built from the view ---- */
W nondet_W(void); size_t nondet_size(void);
W w0[N];
static void build(size_t n){
  data_size=n; tree_size=0; if(n==0) return;
  for(size_t i=0;i<N;i++) if(i<n){ data_[i]=i+1; F_index[i+1]=i; alive[i+1]=1; tree_[0][i]=w0[i]; }
  tree_rowsize[0]=n; tree_size=1;
  size_t r=0;
  while(tree_rowsize[r]>1){ size_t m=(tree_rowsize[r]+1)/2; for(size_t j=0;j<N/2+1;j++) if(j<m){ tree_[r+1][j]=tree_[r][2*j]+((2*j+1<tree_rowsize[r])?tree_[r][2*j+1]:0);} tree_rowsize[r+1]=m; r++; tree_size=r+1; }
}
static void check_inv(void){
  __CPROVER_assert(tree_size==0 ? data_size==0 : tree_rowsize[0]==data_size,"row0 size");
  for(size_t r=0;r+1<ROWS;r++) if(r+1<tree_size){
     __CPROVER_assert(tree_rowsize[r+1]==(tree_rowsize[r]+1)/2,"row size");
     for(size_t j=0;j<N/2+1;j++) if(j<tree_rowsize[r+1]) __CPROVER_assert(tree_[r+1][j]==tree_[r][2*j]+((2*j+1<tree_rowsize[r])?tree_[r][2*j+1]:0),"sum tree");
  }
  if(tree_size>0) __CPROVER_assert(tree_rowsize[tree_size-1]==1,"single head");
  for(size_t i=0;i<N;i++) if(i<data_size) __CPROVER_assert(F_index[data_[i]]==i && alive[data_[i]],"handles");
}
void harness(void){
  size_t n=nondet_size(); __CPROVER_assume(n==NN);
  for(size_t i=0;i<N;i++){ w0[i]=nondet_W(); __CPROVER_assume(w0[i]>=0 && w0[i]<=(1<<20)); }
  build(n);
  size_t k=nondet_size(); __CPROVER_assume(k<n);
  ElemRef last=data_[n-1]; W wlast=w0[n-1];
  pdf_remove(data_[k]);
  check_inv();
  __CPROVER_assert(data_size==n-1,"size");
  for(size_t i=0;i<N;i++) if(i<data_size){ if(i==k){ __CPROVER_assert(data_[i]==last && tree_[0][i]==wlast,"moved last"); } else __CPROVER_assert(data_[i]==i+1 && tree_[0][i]==w0[i],"others untouched"); }
}
