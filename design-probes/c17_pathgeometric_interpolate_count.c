#include <stddef.h>
#include <stdbool.h>
/* abstraction: only sizes matter here */
size_t states__size;          /* states_.size() */
size_t newStates_size;        /* newStates.size() */
int nondet_int(void);
double nondet_double(void);
/* stubs */
int floor_to_int_stub(void)   /* (int)floor(0.5 + (double)count * segmentLength / remainingLength) : any int */
__CPROVER_requires(1) __CPROVER_assigns() __CPROVER_ensures(__CPROVER_return_value < 2147483647);
size_t getMotionStates_stub(int ns)   /* block.size() after getMotionStates(s1,s2,block,ns,false,true) */
__CPROVER_requires(ns >= 1) __CPROVER_assigns() __CPROVER_ensures(__CPROVER_return_value == (size_t)ns);

void interpolate(unsigned int requestCount)
__CPROVER_requires(states__size <= 1000000 && requestCount <= 2000000 && newStates_size == 0)
__CPROVER_assigns(newStates_size, states__size)
__CPROVER_ensures((requestCount < __CPROVER_old(states__size) || __CPROVER_old(states__size) < 2) ==> states__size == __CPROVER_old(states__size))
__CPROVER_ensures(!(requestCount < __CPROVER_old(states__size) || __CPROVER_old(states__size) < 2) ==> states__size == requestCount)
{
    if (requestCount < states__size || states__size < 2)
        return;

    unsigned int count = requestCount;

    // the new array of states this path will have
    const int n1 = states__size - 1;

    for (int i = 0; i < n1; ++i)
    __CPROVER_assigns(i, count, newStates_size)
    __CPROVER_loop_invariant(0 <= i && i <= n1)
    __CPROVER_loop_invariant(newStates_size <= requestCount && newStates_size + count == requestCount)
    __CPROVER_loop_invariant(count >= states__size - i)
    __CPROVER_loop_invariant(i == n1 ==> count == 1)
    __CPROVER_decreases(n1 - i)
    {
        newStates_size++;   /* newStates.push_back(s1); */

        // the maximum number of states that can be added on the current motion (without its endpoints)
        // such that we can at least fit the remaining states
        int maxNStates = count + i - states__size;

        if (maxNStates > 0)
        {
            // compute an approximate number of states the following segment needs to contain; this includes endpoints
            int ns =
                i + 1 == n1 ? maxNStates + 2 : floor_to_int_stub() + 1;

            // if more than endpoints are needed
            if (ns > 2)
            {
                ns -= 2;  // subtract endpoints

                // make sure we don't add too many states
                if (ns > maxNStates)
                    ns = maxNStates;

                // compute intermediate states
                newStates_size += getMotionStates_stub(ns);   /* newStates.insert(end, block.begin(), block.end()) */
            }
            else
                ns = 0;

            // update what remains to be done
            count -= (ns + 1);
        }
        else
            count--;
    }

    // add the last state
    newStates_size++;
    states__size = newStates_size;   /* states_.swap(newStates) */
}
void harness(void){ unsigned r; interpolate(r); }
