import re,sys
src=open('/repo/src/ompl/datastructures/BinaryHeap.h').read()
def strip_comments(s):
    return re.sub(r'/\*.*?\*/|//[^\n]*', lambda m: ' '*0 if '\n' not in m.group(0) else '\n'*m.group(0).count('\n'), s, flags=re.S)
s=strip_comments(src)
def body(sigre):
    ms=list(re.finditer(sigre,s))
    assert len(ms)==1,(sigre,len(ms))
    i=s.index('{',ms[0].end()-1)
    d=0
    for j in range(i,len(s)):
        if s[j]=='{': d+=1
        elif s[j]=='}':
            d-=1
            if d==0: return s[i:j+1]
units={
 'percolateUp': r'void\s+percolateUp\s*\(\s*const unsigned int pos\s*\)\s*\{',
 'percolateDown': r'void\s+percolateDown\s*\(\s*const unsigned int pos\s*\)\s*\{',
 'removePos': r'void\s+removePos\s*\(\s*unsigned int pos\s*\)\s*\{',
 'update': r'void\s+update\s*\(\s*Element \*element\s*\)\s*\{',
 'insert': r'Element \*insert\s*\(\s*const _T &data\s*\)\s*\{',
 'build': r'void\s+build\s*\(\s*\)\s*\{',
}
rules=[ # (regex, repl, min)
 (r'\bElement \*', 'ElemRef ', 0),
 (r'auto \*element = new Element\(\);', 'ElemRef element = NEW_Element();', 0),
 (r'\bdelete vector_\[(\w+)\];', r'DELETE_Element(vector_[\1]);', 0),
 (r'(\w+(?:\[[^\]]+\])?)->data\b', r'F_data[\1]', 0),
 (r'(\w+(?:\[[^\]]+\])?)->position\b', r'F_position[\1]', 0),
 (r'vector_\.size\(\)', 'vector__size', 0),
 (r'vector_\.back\(\)', 'vector_[vector__size - 1]', 0),
 (r'vector_\.pop_back\(\);', 'vector__size--;', 0),
 (r'vector_\.push_back\((\w+)\);', r'VEC_PUSH(vector_, \1);', 0),
 (r'\bassert\(', '__CPROVER_assert(1 && ', 0),
 (r'\(int\)pos', '(int)pos', 0),
]
for name,sig in units.items():
    b=body(sig)
    fired={}
    for rx,rp,mn in rules:
        b,n=re.subn(rx,rp,b); fired[rx]=n
    left=re.findall(r'::|->|\bauto\b|\bnew\b|\bdelete\b|\bthrow\b|std::|<[A-Za-z_]', b)
    print('/* ==== %s ==== leftovers=%s */'%(name,left)); print(b)
