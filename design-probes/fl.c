#include <math.h>
double nondet_double(void);
#define PI 3.14159265358979323846
/* SO2 enforceBounds body */
double enforce(double value){
    double v = fmod(value, 2.0 * PI);
    if (v < -PI)
        v += 2.0 * PI;
    else if (v >= PI)
        v -= 2.0 * PI;
    return v;
}
void h_enforce(void){ double x=nondet_double(); __CPROVER_assume(!isnan(x) && !isinf(x)); double v=enforce(x); __CPROVER_assert(v>=-PI && v<PI,"in [-pi,pi)"); __CPROVER_assert(enforce(v)==v,"idempotent"); }
void h_sqrt(void){ double x=nondet_double(); __CPROVER_assume(x>=0 && !isinf(x)); double s=sqrt(x); __CPROVER_assert(s>=0,"sqrt nonneg"); __CPROVER_assert(x>0 ? s>0 : s==0,"sqrt pos"); }
void h_ceil(void){ double d=nondet_double(), l=nondet_double(); __CPROVER_assume(d>=0 && d<1e9 && l>1e-6 && l<1e6); unsigned n=(unsigned)ceil(d/l); __CPROVER_assert(d>0 ? n>=1 : n==0,"ceil"); }
void h_fabs(void){ double a=nondet_double(), b=nondet_double(); __CPROVER_assume(a>=-PI&&a<=PI&&b>=-PI&&b<=PI); double d=fabs(a-b); double r=(d>PI)?2.0*PI-d:d; double d2=fabs(b-a); double r2=(d2>PI)?2.0*PI-d2:d2; __CPROVER_assert(r>=0 && r<=PI,"range"); __CPROVER_assert(r==r2,"sym"); }
