#include <math.h>
double nondet_double(void);
#define PI 3.14159265358979323846
void h_range(void){ double a=nondet_double(), b=nondet_double(); __CPROVER_assume(a>=-PI&&a<=PI&&b>=-PI&&b<=PI); double d=fabs(a-b); double r=(d>PI)?2.0*PI-d:d; __CPROVER_assert(r>=0 && r<=PI,"range"); }
void h_sym(void){ double a=nondet_double(), b=nondet_double(); __CPROVER_assume(a>=-PI&&a<=PI&&b>=-PI&&b<=PI); double d=fabs(a-b); double d2=fabs(b-a); __CPROVER_assert(d==d2,"sym"); }
void h_clamp(void){ double v=nondet_double(), lo=nondet_double(), hi=nondet_double(); __CPROVER_assume(lo<=hi && !isnan(v)); double eps=2.220446049250313e-16;
  if (v > hi) v = hi; else if (v < lo) v = lo;
  __CPROVER_assert(!(v - eps > hi || v + eps < lo),"satisfies");}
void h_interp(void){ double f=nondet_double(), t=nondet_double(), s=nondet_double(); __CPROVER_assume(f>=-1e6&&f<=1e6&&t>=-1e6&&t<=1e6&&s>=0&&s<=1); double r=f+(t-f)*s; double lo=f<t?f:t, hi=f<t?t:f; __CPROVER_assert(r>=lo-1e-9 && r<=hi+1e-9,"within"); }
