#include "ompl/datastructures/GridB.h"
#include <cstdio>
int main(){
  ompl::GridB<int> g(2);
  ompl::GridB<int>::Coord c(2); c[0]=0; c[1]=0;
  auto *cell=g.createCell(c); cell->data=5; g.add(cell);
  printf("internal=%u external=%u\n", g.countInternal(), g.countExternal());
  fflush(stdout);
  auto *t=g.topInternal();   // internal heap empty -> documented fallback to external
  printf("topInternal data=%d\n", t->data);
}
