#include <stddef.h>
typedef struct Element { unsigned int position; int data; } Element;
typedef unsigned int ElemRef;
ElemRef *vector_; unsigned int vector__size; Element *pool; unsigned int pool_n;
#define lt_(a,b) ((a)<(b))
#define NMAX 1000000u
#define DATA(r) (pool[r].data)
#define POSN(r) (pool[r].position)
void percolateUp(const unsigned int pos)
__CPROVER_requires(vector__size > 0 && vector__size <= NMAX && pos < vector__size && pool_n <= NMAX && pool_n>0)
__CPROVER_requires(__CPROVER_is_fresh(vector_, vector__size * sizeof(ElemRef)))
__CPROVER_requires(__CPROVER_is_fresh(pool, pool_n * sizeof(Element)))
__CPROVER_requires(__CPROVER_forall { unsigned int i1; (i1 < vector__size) ==> vector_[i1] < pool_n })
__CPROVER_requires(__CPROVER_forall { unsigned int i2; (i2 < vector__size) ==> POSN(vector_[i2]) == i2 })
__CPROVER_requires(__CPROVER_forall { unsigned int i3; (0 < i3 && i3 < vector__size && i3 != pos) ==> !lt_(DATA(vector_[i3]), DATA(vector_[(i3-1)>>1])) })
__CPROVER_requires(__CPROVER_forall { unsigned int i4; (0 < i4 && i4 < vector__size && ((i4-1)>>1) == pos && pos > 0) ==> !lt_(DATA(vector_[i4]), DATA(vector_[(pos-1)>>1])) })
__CPROVER_assigns(__CPROVER_object_whole(vector_), __CPROVER_object_whole(pool))
__CPROVER_ensures(__CPROVER_forall { unsigned int i5; (i5 < vector__size) ==> vector_[i5] < pool_n })
__CPROVER_ensures(__CPROVER_forall { unsigned int i6; (i6 < vector__size) ==> POSN(vector_[i6]) == i6 })
__CPROVER_ensures(__CPROVER_forall { unsigned int i7; (0 < i7 && i7 < vector__size) ==> !lt_(DATA(vector_[i7]), DATA(vector_[(i7-1)>>1])) })
{
            ElemRef tmp = vector_[pos];
            unsigned int child = pos;
            unsigned int parent = (pos - 1) >> 1;

            while (child > 0 && lt_(DATA(tmp), DATA(vector_[parent])))
            __CPROVER_assigns(child, parent, __CPROVER_object_whole(vector_), __CPROVER_object_whole(pool))
            __CPROVER_loop_invariant(child <= pos && (child > 0 ==> parent == ((child - 1) >> 1)) && tmp < pool_n)
            __CPROVER_loop_invariant(__CPROVER_forall { unsigned int j1; (j1 < vector__size) ==> vector_[j1] < pool_n })
            __CPROVER_loop_invariant(__CPROVER_forall { unsigned int j2; (j2 < vector__size && j2 != child) ==> POSN(vector_[j2]) == j2 })
            __CPROVER_loop_invariant(__CPROVER_forall { unsigned int j3; (0 < j3 && j3 < vector__size && j3 != child) ==> !lt_(DATA(vector_[j3]), DATA(vector_[(j3-1)>>1])) })
            __CPROVER_loop_invariant(__CPROVER_forall { unsigned int j4; (0 < j4 && j4 < vector__size && ((j4-1)>>1) == child && child > 0) ==> !lt_(DATA(vector_[j4]), DATA(vector_[(child-1)>>1])) })
            __CPROVER_loop_invariant(child != pos ==> __CPROVER_forall { unsigned int j5; (0 < j5 && j5 < vector__size && ((j5-1)>>1) == child) ==> !lt_(DATA(vector_[j5]), DATA(tmp)) })
            __CPROVER_decreases(child)
            {
                vector_[child] = vector_[parent];
                POSN(vector_[child]) = child;
                child = parent;
                parent = (parent - 1) >> 1;
            }
            if (child != pos)
            {
                vector_[child] = tmp;
                POSN(vector_[child]) = child;
            }
}
void harness(void){ unsigned int pos; percolateUp(pos); }
