#include <stddef.h>
#include <stdlib.h>
typedef struct Element { unsigned int position; int data; } Element;
#ifndef N
#define N 15
#endif
Element *vector_[N]; unsigned int vector__size;
#define lt_(a,b) ((a)<(b))
        void percolateDown(const unsigned int pos)
        {
            const unsigned int n = vector__size;
            Element *tmp = vector_[pos];
            unsigned int parent = pos;
            unsigned int child = (pos + 1) << 1;

            while (child < n)
            {
                if (lt_(vector_[child - 1]->data, vector_[child]->data))
                    --child;
                if (lt_(vector_[child]->data, tmp->data))
                {
                    vector_[parent] = vector_[child];
                    vector_[parent]->position = parent;
                }
                else
                    break;
                parent = child;
                child = (child + 1) << 1;
            }
            if (child == n)
            {
                --child;
                if (lt_(vector_[child]->data, tmp->data))
                {
                    vector_[parent] = vector_[child];
                    vector_[parent]->position = parent;
                    parent = child;
                }
            }
            if (parent != pos)
            {
                vector_[parent] = tmp;
                vector_[parent]->position = parent;
            }
        }
        void removePos(unsigned int pos)
        {
            const int n = vector__size - 1;
            free(vector_[pos]);
            if ((int)pos < n)
            {
                vector_[pos] = vector_[vector__size-1];
                vector_[pos]->position = pos;
                vector__size--;
                percolateDown(pos);
            }
            else
                vector__size--;
        }
void harness(void){
  unsigned n; __CPROVER_assume(n>=1 && n<=N);
  vector__size=n;
  for(unsigned i=0;i<N;i++){ if(i<n){ vector_[i]=malloc(sizeof(Element)); vector_[i]->position=i; int d; vector_[i]->data=d; if(i>0) __CPROVER_assume(!(vector_[i]->data < vector_[(i-1)>>1]->data)); } }
  unsigned pos; __CPROVER_assume(pos<n);
  removePos(pos);
  for(unsigned i=1;i<N;i++) if(i<vector__size) __CPROVER_assert(!(vector_[i]->data < vector_[(i-1)>>1]->data),"heap order");
  for(unsigned i=0;i<N;i++) if(i<vector__size) __CPROVER_assert(vector_[i]->position==i,"pos");
}
