#include <stddef.h>
typedef unsigned int ElemRef;          /* Element*  ->  reference into total field maps */
extern unsigned int F_position[];      /* Element::position as a total map */
extern int F_data[];                   /* Element::data */
ElemRef *vector_; unsigned int vector__size;
#define lt_(a,b) ((a)<(b))
#define ORD(i) (!lt_(F_data[vector_[i]], F_data[vector_[((i)-1)>>1]]))
unsigned int g;  /* ghost index */
unsigned int POS0; 
        void percolateDown(const unsigned int pos)
        {
            const unsigned int n = vector__size;
            ElemRef tmp = vector_[pos];
            unsigned int parent = pos;
            unsigned int child = (pos + 1) << 1;

            while (child < n)
            {
                if (lt_(F_data[vector_[child - 1]], F_data[vector_[child]]))
                    --child;
                if (lt_(F_data[vector_[child]], F_data[tmp]))
                {
                    vector_[parent] = vector_[child];
                    F_position[vector_[parent]] = parent;
                }
                else
                    break;
                parent = child;
                child = (child + 1) << 1;
            }
            if (child == n)
            {
                --child;
                if (lt_(F_data[vector_[child]], F_data[tmp]))
                {
                    vector_[parent] = vector_[child];
                    F_position[vector_[parent]] = parent;
                    parent = child;
                }
            }
            if (parent != pos)
            {
                vector_[parent] = tmp;
                F_position[vector_[parent]] = parent;
            }
        }
#define INR(i) ((i) > 0 && (i) < n)
void harness(void){
  unsigned n; unsigned pos; unsigned gg; g = gg; vector__size = n;
  __CPROVER_assume(n>=1 && n<=NLIM && pos<n);
  vector_ = __CPROVER_allocate(n*sizeof(ElemRef),0);
  /* pre: heap order at instances around ghost g, except relations whose parent is pos */
  unsigned c1=2*g+1, c2=2*g+2, p1=2*pos+1, p2=2*pos+2;
  __CPROVER_assume(g < n);
  if (INR(g) && ((g-1)>>1)!=pos) __CPROVER_assume(ORD(g));
  if (INR(c1) && g!=pos) __CPROVER_assume(ORD(c1));
  if (INR(c2) && g!=pos) __CPROVER_assume(ORD(c2));
  /* grand relation: children of pos are >= parent of pos */
  if (pos>0 && INR(p1)) __CPROVER_assume(!lt_(F_data[vector_[p1]], F_data[vector_[(pos-1)>>1]]));
  if (pos>0 && INR(p2)) __CPROVER_assume(!lt_(F_data[vector_[p2]], F_data[vector_[(pos-1)>>1]]));
  /* handles */
  __CPROVER_assume(F_position[vector_[g]]==g);
  __CPROVER_cover(1);
  percolateDown(pos);
  __CPROVER_cover(1);
  if (INR(g)) __CPROVER_assert(ORD(g),"heap order at ghost index");
}
