#include "ompl/datastructures/BinaryHeap.h"
#include <cstdio>
#include <random>
int main(){
  std::mt19937 g(1);
  for(int it=0; it<100000; ++it){
    int n=5+g()%8;
    ompl::BinaryHeap<int> h; std::vector<ompl::BinaryHeap<int>::Element*> e; std::vector<int> v;
    for(int i=0;i<n;i++){ int x=g()%50; v.push_back(x); e.push_back(h.insert(x)); }
    int k=g()%n; int removed=v[k]; h.remove(e[k]);
    std::vector<int> pops; while(!h.empty()){ pops.push_back(h.top()->data); h.pop(); }
    for(size_t i=1;i<pops.size();i++) if(pops[i]<pops[i-1]){
      printf("iter %d: insert", it); for(int x: v) printf(" %d",x); printf(" ; remove handle #%d (value %d); pops:",k,removed); for(int x:pops) printf(" %d",x); printf("\n"); return 0; }
  }
  printf("none\n");
}
