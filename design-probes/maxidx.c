#include <stddef.h>
#include <stdint.h>
size_t max_index(const uint32_t *a, size_t n)
__CPROVER_requires(n > 0 && n <= 4096 && __CPROVER_is_fresh(a, n * sizeof(*a)))
__CPROVER_ensures(__CPROVER_return_value < n)
__CPROVER_ensures(__CPROVER_forall { size_t k; (k < n) ==> a[k] <= a[__CPROVER_return_value] })
__CPROVER_assigns()
{
  size_t best = 0;
  for (size_t i = 1; i < n; i++)
    __CPROVER_assigns(i, best)
    __CPROVER_loop_invariant(1 <= i && i <= n && best < i)
    __CPROVER_loop_invariant(__CPROVER_forall { size_t k; (k < i) ==> a[k] <= a[best] })
    __CPROVER_decreases(n - i)
  { if (a[i] > a[best]) best = i; }
  return best;
}
void harness(void){ const uint32_t *a; size_t n; max_index(a,n); }
