#include <ompl/base/spaces/RealVectorStateSpace.h>
#include <ompl/base/SpaceInformation.h>
#include <ompl/base/ScopedState.h>
#include <cstdio>
#include <cmath>
namespace ob=ompl::base;
int main(){
  auto sp=std::make_shared<ob::RealVectorStateSpace>(1); sp->setBounds(-1,1);
  auto si=std::make_shared<ob::SpaceInformation>(sp);
  si->setStateValidityChecker([](const ob::State*s){ return s->as<ob::RealVectorStateSpace::StateType>()->values[0] <= 0.0; });
  si->setup();
  ob::ScopedState<ob::RealVectorStateSpace> a(sp), b(sp), lv(sp);
  a[0]=0.0; b[0]=1e-200;   // distinct states, distance underflows to 0
  lv[0]=0.5;
  printf("dist=%g nd=%u validA=%d validB=%d\n", sp->distance(a.get(),b.get()), sp->validSegmentCount(a.get(),b.get()), (int)si->isValid(a.get()), (int)si->isValid(b.get()));
  std::pair<ob::State*,double> last(lv.get(), 0.25);
  bool r=si->checkMotion(a.get(), b.get(), last);
  printf("checkMotion=%d lastValid.second=%g lastValid.first=%g\n", (int)r, last.second, lv[0]);
  bool r2=si->checkMotion(a.get(), b.get());
  printf("checkMotion(2-arg)=%d\n",(int)r2);
}
