/* C12 -- PDF::sample, UNBOUNDED (loop contract, ghost leaf, cvc5): for every PDF of up to 65 535 elements and an ARBITRARY ghost leaf G:
 * if sample() returns leaf G then  prefix(G) < x <= prefix(G) + weight(G)   (x = r * total; for x = 0 the leftmost leaf) -- the selection rule of the
 * property, hence a leaf of weight 0 is never returned for x > 0 -- and every access made on the way to G is inside its row.
 * prefix(G) is not a loop over the leaves: P[r] = sum of the level-r nodes left of G's level-r ancestor obeys  P[r] = P[r+1] + (ancestor is a right child ?
 * its left sibling : 0), P[top] = 0 -- 16 equations along the STATIC ancestor chain G >> r, given as preconditions together with the sum invariant at
 * those 16 ancestors.  The descent leaves that chain as soon as it turns away from G, and nothing is claimed (or checked) from then on for this G; since G is
 * arbitrary, every descent is covered by the G it ends in ("prophecy" ghost; the in-row checks are asserted for nodes on G's chain, and a first out-of-row
 * access at node k would be on the chain of G := k << row).
 * Weights are exact integers below 2^32 (machine arithmetic treated as mathematical). */
#include <stddef.h>
#include <stdbool.h>
#define ROWS 17
#define NCOL 65536
typedef unsigned long long W;
typedef unsigned short ElemRef; typedef int KeyT;
ElemRef data_[NCOL]; size_t data__size; KeyT F_data[65536];
W tree_[ROWS][NCOL]; size_t tree_rowsize[ROWS]; size_t tree__size;
bool EXC_;
#define EXC() do { EXC_ = 1; } while (0)
size_t G; W P[ROWS]; W X0;
#define ANC(r) (G >> (r))
#define ROWIDX(r) (__CPROVER_assert((size_t)(r) < tree__size, "C12.storage row index within tree_"), (r))
#define COLIDX(r, c) (__CPROVER_assert((size_t)(c) != ANC(r) || (size_t)(c) < tree_rowsize[r], "C12.storage column index within the row (nodes on the way to G)"), (c))
#define DIDX(i) (__CPROVER_assert((size_t)(i) != G || (size_t)(i) < data__size, "C12.storage index within data_"), (i))
size_t sample_node; W sample_x;
W nondet_W(void);
static W SCALE(W r, W total) { W x = X0; return x; }
#define RS(r) (tree_rowsize[(r) + 1] == (tree_rowsize[r] + 1) / 2)
#define BIG (1ULL << 48)
/* level r (0 <= r < top): the ancestor ANC(r+1) of G is in its row, is the sum of its children, children are bounded; P[r] from P[r+1] */
#define LVL(r) (tree__size <= (r) + 1 || (RS(r) && ANC((r) + 1) < tree_rowsize[(r) + 1] && tree_[r][2 * ANC((r) + 1)] < BIG && \
    ((2 * ANC((r) + 1) + 1 < tree_rowsize[r]) ? (tree_[r][2 * ANC((r) + 1) + 1] < BIG && tree_[(r) + 1][ANC((r) + 1)] == tree_[r][2 * ANC((r) + 1)] + tree_[r][2 * ANC((r) + 1) + 1]) \
                                              : tree_[(r) + 1][ANC((r) + 1)] == tree_[r][2 * ANC((r) + 1)]) && \
    P[r] == P[(r) + 1] + ((ANC(r) & 1u) ? tree_[r][ANC(r) - 1] : 0)))
#define CHAIN (LVL(0) && LVL(1) && LVL(2) && LVL(3) && LVL(4) && LVL(5) && LVL(6) && LVL(7) && LVL(8) && LVL(9) && LVL(10) && LVL(11) && LVL(12) && LVL(13) && LVL(14) && LVL(15))
KeyT pdf_sample(W r)     /* r in {0, 1}: the scaled value r * total is the ghost X0 (any exact value in [0, total]); no floating point in this unit */
__CPROVER_requires(tree__size >= 1 && tree__size <= ROWS && tree_rowsize[0] == data__size && data__size >= 1 && data__size <= 65535 && tree_rowsize[tree__size - 1] == 1 && !EXC_)
__CPROVER_requires(r <= 1 && G < 65536 && ANC(tree__size - 1) == 0 && P[tree__size - 1] == 0 && tree_[tree__size - 1][0] < BIG && X0 <= tree_[tree__size - 1][0])
__CPROVER_requires(CHAIN)
__CPROVER_assigns(sample_node, sample_x)
__CPROVER_ensures(!EXC_)
__CPROVER_ensures(sample_node == G ==> (G < data__size && X0 <= P[0] + tree_[0][G] && (P[0] < X0 || G == 0)))     /* C12.select prefix(G) < x <= prefix(G) + weight(G) */
__CPROVER_ensures(sample_node == G ==> (X0 > 0 ==> tree_[0][G] > 0))                                                /* C12.zero a weight-0 element is never returned for x > 0 */
/*@BODY sample@*/
void harness(void)
{
    W r; pdf_sample(r);
    if (sample_node == G && G > 2) __CPROVER_assert(0, "REACH returned the ghost leaf");
}
