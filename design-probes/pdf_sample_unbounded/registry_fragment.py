# removed from units/C12.py (not registered): attempt at an unbounded proof of PDF::sample

SMP_LOOP = """
__CPROVER_assigns(row, node, x_)
__CPROVER_loop_invariant(row < tree__size && tree__size == __CPROVER_loop_entry(tree__size) && node < ((size_t)1 << (tree__size - 1 - row)))
__CPROVER_loop_invariant(node == ANC(row) ==> (node < tree_rowsize[row] && x_ <= tree_[row][node] && x_ + P[row] == X0 && P[row] <= X0 && (x_ > 0 || node == 0)))
__CPROVER_decreases(row)
"""
UNITS.append(dict(name="c12_sample_unbounded", template="C12/pdf_sample_unb.c", functions=["ompl::PDF::sample"],
                  sources=[dict(name="sample", file=PDF, sig=r"_T &sample\s*\(double r\)\s*const", rules=[(r'throw Exception\("[^"]*"\);', "{ EXC(); return 0; }", 0)] + PDF_RULES, loops={1: SMP_LOOP})],
                  enforce=["pdf_sample"], replace=[], backend="cvc5", split="per-property", split_groups=[r"\.bounds\.|\.pointer|\.overflow\.|\.conversion", r"\.assigns\.|loop_assigns"],
                  flags=["--bounds-check", "--pointer-check", "--no-malloc-may-fail", "--object-bits", "12"], timeout=600, level="proof", bound="n <= 65535 elements (17 rows), unbounded in the loop",
                  canaries=[dict(name="tie_goes_right", where="body:sample", rx=r"x_ > tree_", repl="x_ >= tree_", props=[r"postcondition", r"loop_invariant", r"assertion"], timeout=300)]))
