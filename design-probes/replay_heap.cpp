#include "ompl/datastructures/BinaryHeap.h"
#include <cstdio>
int main(){
  ompl::BinaryHeap<int> h;
  int a[]={10,20,10,30,25,40,10};
  std::vector<ompl::BinaryHeap<int>::Element*> e;
  for(int x: a) e.push_back(h.insert(x));
  h.remove(e[4]);
  std::vector<int> c; h.getContent(c); for(int x:c) printf("%d ",x); printf("\n");
  int prev=-1; bool ok=true; while(!h.empty()){ int t=h.top()->data; printf("%d ",t); if(t<prev) ok=false; prev=t; h.pop(); } printf("\nordered=%d\n",ok);
}
