#include <ompl/base/spaces/SO2StateSpace.h>
#include <ompl/base/ScopedState.h>
#include <cstdio>
namespace ob=ompl::base;
int main(){
  auto sp=std::make_shared<ob::SO2StateSpace>();
  ob::ScopedState<ob::SO2StateSpace> a(sp), b(sp), c(sp);
  a->value=3.0; b->value=-3.0;
  sp->interpolate(a.get(), b.get(), 0.5, c.get());
  printf("interp=%.17g satisfiesBounds=%d\n", c->value, (int)sp->satisfiesBounds(c.get()));
  a->value=-M_PI; b->value=std::nextafter(M_PI,0.0);
  printf("dist(-pi, pi-)=%.17g equal=%d\n", sp->distance(a.get(),b.get()), (int)sp->equalStates(a.get(),b.get()));
}
