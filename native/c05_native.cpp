// Native oracle / replay driver for C05 on the REAL classes (compiled against /repo's working tree).
// usage: c05_native exhaust <maxnd>        exhaustive: every nd in 0..maxnd, every (first invalid, second invalid) pattern
//        c05_native one <kind> <nd> <mask>  replay a single case: kind in {discrete,dubins,reedsshepp,si}; mask = bitmask of invalid indices (bit k = index k, index max(nd,1) = end state)
// exit 0: property held; 1: violated (explanation on stdout); 2: usage
#include <ompl/base/SpaceInformation.h>
#include <ompl/base/DiscreteMotionValidator.h>
#include <ompl/base/spaces/RealVectorStateSpace.h>
#include <ompl/base/spaces/DubinsStateSpace.h>
#include <ompl/base/spaces/ReedsSheppStateSpace.h>
#include <cmath>
#include <cstdio>
#include <cstring>
#include <string>
namespace ob = ompl::base;
static int g_nd = 0;
static unsigned long long g_mask = 0;  // invalid indices
static double g_len = 8.0;

struct RV : ob::RealVectorStateSpace {
    RV() : ob::RealVectorStateSpace(1) {}
    unsigned int validSegmentCount(const ob::State *, const ob::State *) const override { return g_nd; }
};
struct DU : ob::DubinsStateSpace {
    DU() : ob::DubinsStateSpace(1.0) {}
    unsigned int validSegmentCount(const ob::State *, const ob::State *) const override { return g_nd; }
};
struct RS : ob::ReedsSheppStateSpace {
    RS() : ob::ReedsSheppStateSpace(1.0) {}
    unsigned int validSegmentCount(const ob::State *, const ob::State *) const override { return g_nd; }
};
static int idx_of(double x) {
    int nd = g_nd >= 1 ? g_nd : 1;
    double f = x / g_len * nd;
    int k = (int)std::floor(f + 0.5);
    return k;
}
static double xof(const ob::State *s, int kind) {
    if (kind == 0) return s->as<ob::RealVectorStateSpace::StateType>()->values[0];
    return s->as<ob::SE2StateSpace::StateType>()->getX();
}
static int fails = 0;
#define FAIL(...) do { printf("VIOLATED kind=%s nd=%d mask=0x%llx: ", kname, g_nd, g_mask); printf(__VA_ARGS__); printf("\n"); fails++; } while (0)

static void run_case(int kind) {
    const char *kname = kind == 0 ? "discrete" : kind == 1 ? "dubins" : "reedsshepp";
    ob::StateSpacePtr space;
    if (kind == 0) { auto s = std::make_shared<RV>(); s->setBounds(-1, 100); space = s; }
    else if (kind == 1) { auto s = std::make_shared<DU>(); ob::RealVectorBounds b(2); b.setLow(-1); b.setHigh(100); s->setBounds(b); space = s; }
    else { auto s = std::make_shared<RS>(); ob::RealVectorBounds b(2); b.setLow(-1); b.setHigh(100); s->setBounds(b); space = s; }
    auto si = std::make_shared<ob::SpaceInformation>(space);
    si->setStateValidityChecker([kind](const ob::State *s) {
        int k = idx_of(xof(s, kind));
        if (k < 0 || k > 62) return true;
        return ((g_mask >> k) & 1ull) == 0;
    });
    if (kind == 0) si->setMotionValidator(std::make_shared<ob::DiscreteMotionValidator>(si));
    else if (kind == 1) si->setMotionValidator(std::make_shared<ob::DubinsMotionValidator>(si));
    else si->setMotionValidator(std::make_shared<ob::ReedsSheppMotionValidator>(si));
    si->setup();
    ob::State *s1 = si->allocState(), *s2 = si->allocState(), *lv = si->allocState(), *ref = si->allocState();
    auto setx = [&](ob::State *s, double x) {
        if (kind == 0) s->as<ob::RealVectorStateSpace::StateType>()->values[0] = x;
        else { auto *q = s->as<ob::SE2StateSpace::StateType>(); q->setX(x); q->setY(0); q->setYaw(0); }
    };
    setx(s1, 0.0); setx(s2, g_len); setx(lv, 42.0);
    int ndp = g_nd >= 1 ? g_nd : 1;
    int first_bad = -1;
    for (int k = 1; k <= ndp; ++k) if ((g_mask >> k) & 1ull) { first_bad = k; break; }
    bool expect = first_bad < 0;
    auto mv = si->getMotionValidator();
    // ---- two-argument form
    unsigned v0 = mv->getValidMotionCount(), i0 = mv->getInvalidMotionCount();
    bool r2 = mv->checkMotion(s1, s2);
    unsigned v1 = mv->getValidMotionCount(), i1 = mv->getInvalidMotionCount();
    if (r2 != expect) FAIL("checkMotion(s1,s2) returned %d, expected %d (first invalid index %d)", r2, expect, first_bad);
    if (r2 ? !(v1 == v0 + 1 && i1 == i0) : !(i1 == i0 + 1 && v1 == v0)) FAIL("checkMotion(s1,s2)=%d advanced counters valid %u->%u invalid %u->%u", r2, v0, v1, i0, i1);
    // ---- last-valid form
    std::pair<ob::State *, double> lastValid(lv, 0.777);
    bool r3 = mv->checkMotion(s1, s2, lastValid);
    unsigned v2 = mv->getValidMotionCount(), i2 = mv->getInvalidMotionCount();
    if (r3 != expect) FAIL("checkMotion(s1,s2,lastValid) returned %d, expected %d", r3, expect);
    if (r3 != r2) FAIL("the two forms disagree: %d vs %d", r2, r3);
    if (r3 ? !(v2 == v1 + 1 && i2 == i1) : !(i2 == i1 + 1 && v2 == v1)) FAIL("checkMotion(…,lastValid)=%d advanced counters valid %u->%u invalid %u->%u", r3, v1, v2, i1, i2);
    if (r3) {
        if (lastValid.second != 0.777 || lastValid.first != lv || xof(lv, kind) != 42.0) FAIL("success touched lastValid (second=%g, x=%g)", lastValid.second, xof(lv, kind));
    } else if (!expect) {
        double want = g_nd > 0 ? (double)(first_bad - 1) / (double)g_nd : 0.0;
        if (!(lastValid.second >= 0.0 && lastValid.second < 1.0)) FAIL("last-valid fraction %g not in [0,1)", lastValid.second);
        if (lastValid.second != want) FAIL("last-valid fraction %g, expected %d/%d = %g", lastValid.second, first_bad - 1, g_nd, want);
        space->interpolate(s1, s2, lastValid.second, ref);
        if (std::isfinite(lastValid.second) && !space->equalStates(ref, lv)) FAIL("last-valid state x=%g is not the interpolation at the fraction (x=%g)", xof(lv, kind), xof(ref, kind));
    }
    si->freeState(s1); si->freeState(s2); si->freeState(lv); si->freeState(ref);
}

static void run_si(int count) {
    const char *kname = "si";
    auto space = std::make_shared<RV>(); space->setBounds(-1, 100);
    auto si = std::make_shared<ob::SpaceInformation>(space);
    si->setStateValidityChecker([](const ob::State *s) {
        int k = (int)s->as<ob::RealVectorStateSpace::StateType>()->values[0];
        return ((g_mask >> k) & 1ull) == 0;
    });
    si->setup();
    std::vector<ob::State *> st;
    for (int i = 0; i < count + 2; ++i) { st.push_back(si->allocState()); st.back()->as<ob::RealVectorStateSpace::StateType>()->values[0] = i; }
    int first_bad = -1;
    for (int k = 0; k < count; ++k) if ((g_mask >> k) & 1ull) { first_bad = k; break; }
    bool expect = first_bad < 0;
    bool r = si->checkMotion(st, count);
    if (r != expect) FAIL("SpaceInformation::checkMotion(states,%d) returned %d expected %d", count, r, expect);
    unsigned idx = 12345;
    bool r2 = si->checkMotion(st, count, idx);
    if (r2 != expect) FAIL("SpaceInformation::checkMotion(states,%d,idx) returned %d expected %d", count, r2, expect);
    if (r2 && idx != 12345) FAIL("success changed firstInvalidStateIndex to %u", idx);
    if (!r2 && !expect && (int)idx != first_bad) FAIL("firstInvalidStateIndex=%u, expected %d", idx, first_bad);
    for (auto *s : st) si->freeState(s);
}

int main(int argc, char **argv) {
    ompl::msg::setLogLevel(ompl::msg::LOG_NONE);
    if (argc >= 3 && !strcmp(argv[1], "exhaust")) {
        int maxnd = atoi(argv[2]);
        long cases = 0;
        for (int kind = 0; kind < 3; ++kind)
            for (g_nd = 0; g_nd <= maxnd; ++g_nd) {
                int ndp = g_nd >= 1 ? g_nd : 1;
                for (int a = 0; a <= ndp; ++a)
                    for (int b = a; b <= ndp; ++b) {
                        g_mask = 0;
                        if (a > 0) g_mask |= 1ull << a;
                        if (b > a) g_mask |= 1ull << b;
                        run_case(kind); ++cases;
                        if (fails) { printf("replay: c05_native one %s %d 0x%llx\n", kind == 0 ? "discrete" : kind == 1 ? "dubins" : "reedsshepp", g_nd, g_mask); return 1; }
                    }
            }
        for (int count = 0; count <= maxnd; ++count)
            for (int a = -1; a < count; ++a)
                for (int b = a; b < count; ++b) {
                    g_mask = 0; g_nd = count;
                    if (a >= 0) g_mask |= 1ull << a;
                    if (b > a) g_mask |= 1ull << b;
                    run_si(count); ++cases;
                    if (fails) { printf("replay: c05_native one si %d 0x%llx\n", count, g_mask); return 1; }
                }
        printf("c05_native: %ld cases, all held\n", cases);
        return 0;
    }
    if (argc >= 5 && !strcmp(argv[1], "one")) {
        g_nd = atoi(argv[3]); g_mask = strtoull(argv[4], nullptr, 0);
        std::string k = argv[2];
        if (k == "si") run_si(g_nd); else run_case(k == "discrete" ? 0 : k == "dubins" ? 1 : 2);
        printf(fails ? "violated\n" : "held\n");
        return fails ? 1 : 0;
    }
    return 2;
}
