// Native oracle / replay driver for C11 on the REAL ompl::BinaryHeap<int> (header from /repo's working tree).
// usage: c11_native search <seed> <sequences>   random operation sequences (insert, bulk insert, remove, update, pop,
//                                               rebuild, buildFrom, sort, clear) against a reference multiset
// exit 0 held / 1 violated (prints the operation sequence) / 2 usage
#define private public
#include <ompl/datastructures/BinaryHeap.h>
#undef private
#include <algorithm>
#include <cstdio>
#include <cstdlib>
#include <cstring>
#include <map>
#include <random>
#include <set>
#include <sstream>
#include <string>
#include <vector>
typedef ompl::BinaryHeap<int> Heap;
static std::string g_log;
static int g_inserted = 0, g_removed = 0;
static std::vector<Heap::Element *> g_new_handles;
static void afterInsert(Heap::Element *e, void *) { g_inserted++; g_new_handles.push_back(e); }
static void beforeRemove(Heap::Element *, void *) { g_removed++; }

static bool check(Heap &h, const std::multiset<int> &ref, const std::map<Heap::Element *, int> &handles, const char *what)
{
    auto fail = [&](const std::string &m) { printf("VIOLATED after %s: %s\nsequence: %s\n", what, m.c_str(), g_log.c_str()); return false; };
    if (h.size() != ref.size()) return fail("size() = " + std::to_string(h.size()) + ", live elements = " + std::to_string(ref.size()));
    if (h.empty() != ref.empty()) return fail("empty() wrong");
    if (!ref.empty()) { if (!h.top() || h.top()->data != *ref.begin()) return fail("top() = " + std::to_string(h.top() ? h.top()->data : -1) + " is not the minimum " + std::to_string(*ref.begin())); }
    else if (h.top() != nullptr) return fail("top() of empty heap not null");
    // white-box: order and positions
    for (unsigned i = 0; i < h.vector_.size(); ++i) {
        if (h.vector_[i]->position != i) return fail("element at slot " + std::to_string(i) + " has position " + std::to_string(h.vector_[i]->position));
        if (i > 0 && h.vector_[i]->data < h.vector_[(i - 1) / 2]->data) return fail("heap order broken at slot " + std::to_string(i));
    }
    // handles identify their own element
    for (auto &kv : handles) {
        if (kv.first->data != kv.second) return fail("handle no longer holds its key " + std::to_string(kv.second));
        if (kv.first->position >= h.vector_.size() || h.vector_[kv.first->position] != kv.first) return fail("handle of key " + std::to_string(kv.second) + " does not identify its element");
    }
    std::vector<int> content; h.getContent(content); std::multiset<int> c(content.begin(), content.end());
    if (c != ref) return fail("getContent differs from the expected multiset");
    return true;
}

static bool run_sequence(std::mt19937 &rng, int maxops, int maxkey)
{
    Heap h; h.onAfterInsert(afterInsert, nullptr); h.onBeforeRemove(beforeRemove, nullptr);
    std::multiset<int> ref; std::map<Heap::Element *, int> handles; g_log.clear();
    auto pick = [&]() { auto it = handles.begin(); std::advance(it, rng() % handles.size()); return it; };
    int nops = 1 + rng() % maxops;
    for (int s = 0; s < nops; ++s) {
        int op = rng() % 100; std::ostringstream o; const char *what = "";
        if (op < 35 || handles.empty()) { int k = rng() % maxkey; o << "insert " << k << "; "; g_log += o.str(); auto *e = h.insert(k); handles[e] = k; ref.insert(k); what = "insert"; }
        else if (op < 50) { auto it = pick(); o << "remove(handle of " << it->second << " at slot " << it->first->position << "); "; g_log += o.str(); ref.erase(ref.find(it->second)); Heap::Element *e = it->first; handles.erase(it); h.remove(e); what = "remove"; }
        else if (op < 65) { auto it = pick(); int k = rng() % maxkey; o << "update(" << it->second << " -> " << k << "); "; g_log += o.str(); ref.erase(ref.find(it->second)); ref.insert(k); it->second = k; it->first->data = k; h.update(it->first); what = "update"; }
        else if (op < 77) { auto *t = h.top(); o << "pop; "; g_log += o.str(); ref.erase(ref.find(t->data)); handles.erase(t); h.pop(); what = "pop"; }
        else if (op < 84) { int m = rng() % 5; std::vector<int> l; o << "insert{"; for (int i = 0; i < m; ++i) { l.push_back(rng() % maxkey); o << l.back() << " "; } o << "}; "; g_log += o.str();
                            g_new_handles.clear(); h.insert(l); for (int k : l) ref.insert(k);
                            if ((int)g_new_handles.size() != m) { printf("VIOLATED: bulk insert fired %zu insert events for %d elements\nsequence: %s\n", g_new_handles.size(), m, g_log.c_str()); return false; }
                            for (int i = 0; i < m; ++i) handles[g_new_handles[i]] = l[i]; what = "bulk insert"; }
        else if (op < 90) { // scramble keys in place, then rebuild
                            o << "scramble+rebuild{"; for (auto &kv : handles) { int k = rng() % maxkey; ref.erase(ref.find(kv.second)); ref.insert(k); kv.second = k; kv.first->data = k; o << k << " "; } o << "}; "; g_log += o.str(); h.rebuild(); what = "rebuild"; }
        else if (op < 94) { int m = rng() % 7; std::vector<int> l; o << "buildFrom{"; for (int i = 0; i < m; ++i) { l.push_back(rng() % maxkey); o << l.back() << " "; } o << "}; "; g_log += o.str();
                            h.buildFrom(l); ref.clear(); handles.clear(); for (int k : l) ref.insert(k); for (auto *e : h.vector_) handles[e] = e->data; what = "buildFrom"; }
        else if (op < 98) { int m = rng() % 7; std::vector<int> l; o << "sort{"; for (int i = 0; i < m; ++i) { l.push_back(rng() % maxkey); o << l.back() << " "; } o << "}; "; g_log += o.str();
                            std::vector<int> want = l; std::sort(want.begin(), want.end()); h.sort(l);
                            if (l != want) { printf("VIOLATED: sort() output is not the sorted input\nsequence: %s\n", g_log.c_str()); return false; } what = "sort"; }
        else { o << "clear; "; g_log += o.str(); h.clear(); ref.clear(); handles.clear(); what = "clear"; }
        if (!check(h, ref, handles, what)) return false;
    }
    // pop everything: non-decreasing and exactly the multiset
    g_log += "pop-all; "; int prev = -1; std::multiset<int> popped;
    while (!h.empty()) { int k = h.top()->data; if (k < prev) { printf("VIOLATED: pops out of order (%d after %d)\nsequence: %s\n", k, prev, g_log.c_str()); return false; } prev = k; popped.insert(k); h.pop(); }
    if (popped != ref) { printf("VIOLATED: popped elements differ from the expected multiset\nsequence: %s\n", g_log.c_str()); return false; }
    return true;
}
int main(int argc, char **argv)
{
    if (argc >= 4 && !strcmp(argv[1], "search")) {
        std::mt19937 rng(atoi(argv[2])); long n = atol(argv[3]);
        for (long i = 0; i < n; ++i) {
            int maxops = (i % 3 == 0) ? 8 : (i % 3 == 1) ? 24 : 60, maxkey = (i % 2) ? 6 : 50;
            if (!run_sequence(rng, maxops, maxkey)) return 1;
        }
        printf("c11_native: %ld random operation sequences, all held\n", n); return 0;
    }
    return 2;
}
