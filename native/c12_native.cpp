// Native oracle / replay driver for C12 on the REAL ompl::PDF<int> (header from /repo's working tree).
// Weights are small integers (exactly representable, sums exact) so the sum-tree invariant is an equality.
// usage: c12_native search <seed> <sequences>
// exit 0 held / 1 violated (prints the operation sequence) / 2 usage
#define private public
#include <ompl/datastructures/PDF.h>
#undef private
#include <cstdio>
#include <cstdlib>
#include <cstring>
#include <random>
#include <sstream>
#include <string>
#include <vector>
typedef ompl::PDF<int> P;
static std::string g_log;
struct Ref { std::vector<P::Element *> el; std::vector<double> w; std::vector<int> d; };

static bool check(P &p, Ref &ref, const char *what)
{
    auto fail = [&](const std::string &m) { printf("VIOLATED after %s: %s\nsequence: %s\n", what, m.c_str(), g_log.c_str()); return false; };
    size_t n = ref.el.size();
    if (p.size() != n || p.empty() != (n == 0)) return fail("size() = " + std::to_string(p.size()) + ", surviving elements = " + std::to_string(n));
    if (p.data_.size() != n) return fail("data_ size");
    if (n == 0) { if (!p.tree_.empty()) return fail("tree_ not empty for an empty PDF"); return true; }
    if (p.tree_.empty() || p.tree_[0].size() != n) return fail("leaf row size " + std::to_string(p.tree_.empty() ? 0 : p.tree_[0].size()) + " != " + std::to_string(n));
    for (size_t i = 0; i < n; ++i) {
        if (p.data_[i] != ref.el[i]) return fail("element order: slot " + std::to_string(i) + " holds a different element");
        if (p.data_[i]->index_ != i) return fail("handle index_ of slot " + std::to_string(i) + " is " + std::to_string(p.data_[i]->index_));
        if (p.data_[i]->data_ != ref.d[i] || p[i] != ref.d[i]) return fail("datum of slot " + std::to_string(i));
        if (p.getWeight(ref.el[i]) != ref.w[i]) return fail("weight of slot " + std::to_string(i) + " is " + std::to_string(p.getWeight(ref.el[i])) + " expected " + std::to_string(ref.w[i]));
    }
    for (size_t r = 0; r + 1 < p.tree_.size(); ++r) {
        if (p.tree_[r + 1].size() != (p.tree_[r].size() + 1) / 2) return fail("row " + std::to_string(r + 1) + " has size " + std::to_string(p.tree_[r + 1].size()));
        for (size_t j = 0; j < p.tree_[r + 1].size(); ++j) {
            double s = p.tree_[r][2 * j] + (2 * j + 1 < p.tree_[r].size() ? p.tree_[r][2 * j + 1] : 0.0);
            if (p.tree_[r + 1][j] != s) return fail("inner node (" + std::to_string(r + 1) + "," + std::to_string(j) + ") = " + std::to_string(p.tree_[r + 1][j]) + " is not the sum of its children " + std::to_string(s));
        }
    }
    if (p.tree_.back().size() != 1) return fail("head row has " + std::to_string(p.tree_.back().size()) + " entries");
    // sampling: the returned element's cumulative interval contains r*total
    double total = 0; for (double w : ref.w) total += w;
    std::vector<double> rs = {0.0, 1.0, 0.5, 0.25, 0.999999, 1e-9};
    double pre = 0; for (size_t i = 0; i < n && total > 0; ++i) { rs.push_back(pre / total); pre += ref.w[i]; rs.push_back(pre / total); rs.push_back((pre - 0.5 * ref.w[i]) / total); }
    for (double r : rs) {
        if (!(r >= 0 && r <= 1)) continue;
        int got = p.sample(r); double x = r * total;
        // find which slot: data are unique ids
        size_t i = 0; while (i < n && ref.d[i] != got) ++i;
        if (i == n) return fail("sample(" + std::to_string(r) + ") returned a non-member");
        double lo = 0; for (size_t j = 0; j < i; ++j) lo += ref.w[j];
        bool ok = (x == 0) ? (i == 0) : (lo < x && x <= lo + ref.w[i]);
        if (!ok) return fail("sample(" + std::to_string(r) + ") returned slot " + std::to_string(i) + " [" + std::to_string(lo) + "," + std::to_string(lo + ref.w[i]) + "] which does not contain r*total = " + std::to_string(x));
        if (r > 0 && r < 1 && total > 0 && ref.w[i] == 0) return fail("zero-weight element drawn for r = " + std::to_string(r));
    }
    return true;
}
static bool run_sequence(std::mt19937 &rng, int maxops)
{
    P p; Ref ref; g_log.clear(); int next_id = 1;
    int nops = 1 + rng() % maxops;
    for (int s = 0; s < nops; ++s) {
        int op = rng() % 100; std::ostringstream o; const char *what;
        size_t n = ref.el.size();
        if (op < 40 || n == 0) { double w = (rng() % 4 == 0) ? 0 : (double)(rng() % 16); o << "add(w=" << w << "); "; g_log += o.str(); auto *e = p.add(next_id, w); ref.el.push_back(e); ref.w.push_back(w); ref.d.push_back(next_id++); what = "add"; }
        else if (op < 65) { size_t k = rng() % n; if (rng() % 3 == 0 && n >= 2) k = n - 2; o << "remove(slot " << k << " of " << n << "); "; g_log += o.str(); p.remove(ref.el[k]);
                            ref.el[k] = ref.el.back(); ref.w[k] = ref.w.back(); ref.d[k] = ref.d.back(); ref.el.pop_back(); ref.w.pop_back(); ref.d.pop_back(); what = "remove"; }
        else if (op < 95) { size_t k = rng() % n; double w = (rng() % 4 == 0) ? 0 : (double)(rng() % 16); o << "update(slot " << k << ", w=" << w << "); "; g_log += o.str(); p.update(ref.el[k], w); ref.w[k] = w; what = "update"; }
        else { o << "clear; "; g_log += o.str(); p.clear(); ref = Ref(); what = "clear"; }
        if (!check(p, ref, what)) return false;
    }
    bool threw = false; try { p.add(0, -1.0); } catch (...) { threw = true; }
    if (!threw) { printf("VIOLATED: negative weight accepted\n"); return false; }
    try { p.sample(1.5); printf("VIOLATED: sample(1.5) accepted\n"); return false; } catch (...) {}
    return true;
}
int main(int argc, char **argv)
{
    if (argc >= 4 && !strcmp(argv[1], "search")) {
        std::mt19937 rng(atoi(argv[2])); long n = atol(argv[3]);
        for (long i = 0; i < n; ++i) if (!run_sequence(rng, (i % 3 == 0) ? 6 : (i % 3 == 1) ? 20 : 70)) return 1;
        printf("c12_native: %ld random operation sequences, all held\n", n); return 0;
    }
    return 2;
}
