// Native oracle / replay driver for C13 on the REAL ompl::Grid / GridN / GridB (headers from /repo's working tree).
// usage: c13_native search <seed> <histories>     exit 0 held / 1 violated / 2 usage
#include <ompl/datastructures/GridB.h>
#include <functional>
#include <algorithm>
#include <cstdio>
#include <cstring>
#include <map>
#include <random>
#include <set>
#include <sstream>
#include <vector>
typedef ompl::GridB<int> GB;
typedef GB::Coord Coord;
static std::string g_log;
static int g_mode = 0;
static void onUpdate(GB::Cell *c, void *) { if (g_mode) c->data = 100 - 7 * (int)c->neighbors + (c->coord[0] & 3); }
struct Ref { std::map<std::vector<int>, GB::Cell *> cells; };
static std::vector<int> key(const Coord &c) { return std::vector<int>(c.data(), c.data() + c.size()); }
static bool check(GB &g, Ref &ref, int dim, bool bounds, const Coord &lo, const Coord &up, unsigned limit, const char *what)
{
    auto fail = [&](const std::string &m) { printf("VIOLATED after %s: %s\nhistory: %s\n", what, m.c_str(), g_log.c_str()); return false; };
    if (g.size() != ref.cells.size()) return fail("size() = " + std::to_string(g.size()) + " but " + std::to_string(ref.cells.size()) + " cells are present");
    unsigned ni = 0, ne = 0; int bestI = 1 << 30, bestE = 1 << 30;
    for (auto &kv : ref.cells) {
        Coord c(dim); for (int d = 0; d < dim; ++d) c[d] = kv.first[d];
        if (g.getCell(c) != kv.second || !g.has(c)) return fail("lookup does not find a present cell");
        unsigned n = 0; std::set<GB::Cell *> nb;
        for (int d = 0; d < dim; ++d) for (int e = -1; e <= 1; e += 2) { auto k = kv.first; k[d] += e; auto it = ref.cells.find(k); if (it != ref.cells.end()) { n++; nb.insert(it->second); } }
        GB::CellArray list; g.neighbors(kv.second, list);
        if (list.size() != n || std::set<GB::Cell *>(list.begin(), list.end()) != nb) return fail("neighbors() of a cell is not exactly its present +-1 neighbours");
        unsigned bd = 0; if (bounds) for (int d = 0; d < dim; ++d) if (kv.first[d] == lo[d] || kv.first[d] == up[d]) bd++;
        if (kv.second->neighbors != n + bd) return fail("cell neighbour count " + std::to_string(kv.second->neighbors) + " != actual " + std::to_string(n + bd));
        if (kv.second->border != (kv.second->neighbors < limit)) return fail("border flag inconsistent with the count");
        if (kv.second->border) { ne++; bestE = std::min(bestE, kv.second->data); } else { ni++; bestI = std::min(bestI, kv.second->data); }
    }
    if (g.countInternal() != ni || g.countExternal() != ne) return fail("queue sizes " + std::to_string(g.countInternal()) + "/" + std::to_string(g.countExternal()) + " != interior/border cells " + std::to_string(ni) + "/" + std::to_string(ne));
    if (ni + ne > 0) {
        GB::Cell *ti = g.topInternal(), *te = g.topExternal();
        if (!ti || !te) return fail("null top on a non-empty grid");
        if (ni > 0 && (ti->border || ti->data != bestI)) return fail("topInternal is not the best interior cell (data " + std::to_string(ti->data) + ", best " + std::to_string(bestI) + ")");
        if (ne > 0 && (!te->border || te->data != bestE)) return fail("topExternal is not the best border cell (data " + std::to_string(te->data) + ", best " + std::to_string(bestE) + ")");
        if (ni == 0 && ti != te) return fail("topInternal fallback");
    }
    // components: partition according to the neighbour relation
    auto comps = g.components(); std::map<GB::BaseCell *, int> where; size_t total = 0;
    for (size_t i = 0; i < comps.size(); ++i) for (auto *c : comps[i]) { if (where.count(c)) return fail("components(): a cell is listed twice"); where[c] = i; total++; }
    if (total != ref.cells.size()) return fail("components() lists " + std::to_string(total) + " cells, " + std::to_string(ref.cells.size()) + " present");
    for (auto &kv : ref.cells) for (int d = 0; d < dim; ++d) { auto k = kv.first; k[d] += 1; auto it = ref.cells.find(k); if (it != ref.cells.end() && where[kv.second] != where[it->second]) return fail("components(): neighbouring cells in different components"); }
    // number of components via union-find on the reference
    std::map<std::vector<int>, std::vector<int>> parent; for (auto &kv : ref.cells) parent[kv.first] = kv.first;
    std::function<std::vector<int>(std::vector<int>)> find = [&](std::vector<int> x) { while (parent[x] != x) x = parent[x]; return x; };
    for (auto &kv : ref.cells) for (int d = 0; d < dim; ++d) { auto k = kv.first; k[d] += 1; if (ref.cells.count(k)) parent[find(k)] = find(kv.first); }
    size_t nc = 0; for (auto &kv : ref.cells) if (find(kv.first) == kv.first) nc++;
    if (nc != comps.size()) return fail("components() reports " + std::to_string(comps.size()) + " components, the neighbour relation has " + std::to_string(nc));
    return true;
}
static bool run_history(std::mt19937 &rng)
{
    int dim = 1 + rng() % 3; int w = dim == 1 ? 6 : (dim == 2 ? 3 : 2); g_mode = rng() % 2;
    GB g(dim); g.onCellUpdate(onUpdate, nullptr); Ref ref; g_log.clear();
    bool bounds = rng() % 2; Coord lo(dim), up(dim); for (int d = 0; d < dim; ++d) { lo[d] = 0; up[d] = w - 1; }
    if (bounds) g.setBounds(lo, up);
    unsigned limit = 2 * dim; if (rng() % 2) { limit = 1 + rng() % (2 * dim); g.setInteriorCellNeighborLimit(limit); }
    { std::ostringstream o; o << "dim=" << dim << " bounds=" << bounds << " limit=" << limit << " prio=" << g_mode << ": "; g_log = o.str(); }
    int nops = 1 + rng() % 40;
    for (int s = 0; s < nops; ++s) {
        Coord c(dim); std::ostringstream o; o << "["; for (int d = 0; d < dim; ++d) { c[d] = rng() % w; o << c[d] << (d + 1 < dim ? "," : ""); } o << "]";
        auto k = key(c); int op = rng() % 100; const char *what;
        if (!ref.cells.count(k) && op < 55) { g_log += "create+add" + o.str() + "; "; GB::CellArray nb; auto *cell = g.createCell(c, rng() % 2 ? &nb : nullptr); cell->data = rng() % 50; g.add(cell); ref.cells[k] = cell; what = "create+add"; }
        else if (!ref.cells.count(k) && op < 70) { g_log += "create+abandon" + o.str() + "; "; auto *cell = g.createCell(c); cell->data = rng() % 50; if (g.remove(cell)) { printf("VIOLATED: remove of a never-added cell returned true\n"); return false; } g.destroyCell(cell); what = "create+remove(without add)"; }
        else if (ref.cells.count(k) && op < 45) { g_log += "remove" + o.str() + "; "; auto *cell = ref.cells[k]; if (!g.remove(cell)) { printf("VIOLATED: remove of a present cell returned false\nhistory: %s\n", g_log.c_str()); return false; } g.destroyCell(cell); ref.cells.erase(k); what = "remove"; }
        else if (ref.cells.count(k) && op < 80) { g_log += "update" + o.str() + "; "; if (!g_mode) ref.cells[k]->data = rng() % 50; g.update(ref.cells[k]); what = "update"; }
        else if (op < 90) { g_log += "updateAll; "; if (!g_mode) for (auto &kv : ref.cells) kv.second->data = rng() % 50; g.updateAll(); what = "updateAll"; }
        else continue;
        if (!check(g, ref, dim, bounds, lo, up, limit, what)) return false;
    }
    g.clear(); ref.cells.clear(); Coord z(dim); z.setZero();
    if (g.size() != 0 || g.countInternal() + g.countExternal() != 0 || g.topInternal() != nullptr) { printf("VIOLATED: clear() leaves cells or queue entries\n"); return false; }
    return true;
}
typedef ompl::GridN<int> GN;
static bool run_history_n(std::mt19937 &rng)
{
    int dim = 1 + rng() % 2; int w = dim == 1 ? 6 : 3;
    GN g(dim); std::map<std::vector<int>, GN::Cell *> ref; g_log = "GridN: ";
    bool bounds = rng() % 2; Coord lo(dim), up(dim); for (int d = 0; d < dim; ++d) { lo[d] = 0; up[d] = w - 1; }
    if (bounds) g.setBounds(lo, up);
    unsigned limit = 2 * dim; if (rng() % 2) { limit = 1 + rng() % (2 * dim); g.setInteriorCellNeighborLimit(limit); }
    int nops = 1 + rng() % 30;
    for (int s = 0; s < nops; ++s) {
        Coord c(dim); std::ostringstream o; o << "["; for (int d = 0; d < dim; ++d) { c[d] = rng() % w; o << c[d] << (d + 1 < dim ? "," : ""); } o << "]";
        auto k = key(c); int op = rng() % 100;
        if (!ref.count(k) && op < 50) { g_log += "create+add" + o.str() + "; "; auto *cell = static_cast<GN::Cell *>(g.createCell(c)); g.add(cell); ref[k] = cell; }
        else if (!ref.count(k) && op < 75) { g_log += "create+abandon" + o.str() + "; "; auto *cell = g.createCell(c); if (g.remove(cell)) { printf("VIOLATED: GridN::remove of a never-added cell returned true\n"); return false; } g.destroyCell(cell); }
        else if (ref.count(k)) { g_log += "remove" + o.str() + "; "; if (!g.remove(ref[k])) { printf("VIOLATED: GridN::remove of a present cell returned false\nhistory: %s\n", g_log.c_str()); return false; } g.destroyCell(ref[k]); ref.erase(k); }
        if (g.size() != ref.size()) { printf("VIOLATED: GridN size\nhistory: %s\n", g_log.c_str()); return false; }
        for (auto &kv : ref) {
            unsigned n = 0; for (int d = 0; d < dim; ++d) for (int e = -1; e <= 1; e += 2) { auto kk = kv.first; kk[d] += e; if (ref.count(kk)) n++; }
            if (bounds) for (int d = 0; d < dim; ++d) if (kv.first[d] == lo[d] || kv.first[d] == up[d]) n++;
            if (kv.second->neighbors != n || kv.second->border != (n < limit)) { printf("VIOLATED: GridN cell count %u / border %d, actual %u (limit %u)\nhistory: %s\n", kv.second->neighbors, (int)kv.second->border, n, limit, g_log.c_str()); return false; }
        }
    }
    return true;
}
int main(int argc, char **argv)
{
    if (argc >= 4 && !strcmp(argv[1], "search")) {
        std::mt19937 rng(atoi(argv[2])); long n = atol(argv[3]);
        for (long i = 0; i < n; ++i) if (!run_history(rng) || !run_history_n(rng)) return 1;
        printf("c13_native: %ld random histories, all held\n", n); return 0;
    }
    return 2;
}
