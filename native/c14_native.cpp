// Native differential oracle for C14 on the REAL DubinsStateSpace.cpp (compiled from the working tree; the file is #included so that the functions of
// its anonymous namespace are reachable).  Supporting evidence only (bounded: a grid of inputs), never counted as proof.
//  For long paths dubins(d, alpha, beta) answers from the 16-class table (dubinsClassification); the property says the Dubins distance is the shortest of the six
//  canonical words, i.e. the table's word must not be longer than what the exhaustive six-word search returns.
// usage: c14_native grid <n>     exit 0 held / 1 violated / 2 usage
#include <ompl/base/spaces/src/DubinsStateSpace.cpp>
#include <cstdio>
#include <cstring>
#include <cstdlib>
int main(int argc, char **argv)
{
    if (argc < 3 || strcmp(argv[1], "grid")) return 2;
    int n = atoi(argv[2]); if (n < 8) n = 8;
    const double pi_ = 3.14159265358979323846;
    long checked = 0, bad = 0; double worst = 0;
    const double ds[] = {4.0001, 4.5, 5.0, 6.0, 8.0, 12.0, 30.0};
    for (double d : ds)
        for (int i = 0; i <= n; ++i)
            for (int j = 0; j <= n; ++j)
                for (int e = -1; e <= 1; ++e)
                {
                    double alpha = 2 * pi_ * i / n + e * 1e-3, beta = 2 * pi_ * j / n - e * 1e-3;
                    double a = mod2pi(alpha), b = mod2pi(beta);
                    if (!isLongPath(d, a, b)) continue;
                    double lt = dubins(d, alpha, beta).length(), le = ::dubinsExhaustive(d, a, b).length();
                    ++checked;
                    if (lt > le + 1e-6)
                    {
                        if (bad < 5) printf("VIOLATED: d=%.6f alpha=%.6f beta=%.6f: table word length %.9f > shortest of six %.9f\n", d, alpha, beta, lt, le);
                        ++bad; if (lt - le > worst) worst = lt - le;
                    }
                }
    printf("c14_native: %ld long-path inputs checked, %ld with a table word longer than the shortest of six (worst excess %.3g)\n", checked, bad, worst);
    return bad ? 1 : 0;
}
