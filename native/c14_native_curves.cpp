// Native oracle for C14 on the REAL Dubins / Reeds-Shepp spaces through the public API (deterministic grid; bounded supporting evidence, never counted as proof).
// Clauses of the property sampled: distance >= straight line; Reeds-Shepp and symmetrised Dubins symmetric; Reeds-Shepp <= Dubins in both directions;
// the interpolated curve ends at the target pose; the distance to its point at t is t times the total (prefix of a shortest curve is shortest).
// usage: c14_native_curves grid <n>    exit 0 held / 1 violated / 2 usage
#include <ompl/base/spaces/DubinsStateSpace.h>
#include <ompl/base/spaces/ReedsSheppStateSpace.h>
#include <ompl/base/ScopedState.h>
#include <cmath>
#include <cstdio>
#include <cstring>
#include <cstdlib>
namespace ob = ompl::base;
static long fails = 0, checks = 0;
#define FAIL(...) do { if (fails < 8) { printf("VIOLATED: "); printf(__VA_ARGS__); printf("\n"); } fails++; } while (0)
static double angdiff(double a, double b) { double d = fmod(fabs(a - b), 2 * M_PI); return d > M_PI ? 2 * M_PI - d : d; }
template <class S> static void set(ob::ScopedState<ob::SE2StateSpace> &s, double x, double y, double th) { s->setXY(x, y); s->setYaw(th); }
int main(int argc, char **argv)
{
    ompl::msg::setLogLevel(ompl::msg::LOG_NONE);
    if (argc >= 2 && !strcmp(argv[1], "kf_rs_prefix"))
    {   // witness of the known finding rs-prefix-suboptimal (known_findings.txt): exit 1 while it reproduces
        double rho = 0.6; auto rs = std::make_shared<ob::ReedsSheppStateSpace>(rho); ob::RealVectorBounds bnd(2); bnd.setLow(-10); bnd.setHigh(10); rs->setBounds(bnd);
        ob::ScopedState<ob::SE2StateSpace> a(rs), b(rs), p(rs);
        a->setXY(0.1, -0.2); a->setYaw(-M_PI + 2 * M_PI * 9 / 16 + 1e-3); b->setXY(0.4, 2.3); b->setYaw(-M_PI + 2 * M_PI * 10 / 16 + 2e-3);
        double L = rs->distance(a.get(), b.get()); rs->interpolate(a.get(), b.get(), 0.3, p.get()); double dp = rs->distance(a.get(), p.get());
        printf("Reeds-Shepp rho=0.6 from (0.1,-0.2,%.6f) to (0.4,2.3,%.6f): total %.9f; point at t=0.3 is (%.9f,%.9f,%.9f); distance(from, point) = %.9f, t x total = %.9f\n", a->getYaw(), b->getYaw(), L, p->getX(), p->getY(), p->getYaw(), dp, 0.3 * L);
        return dp > 0.3 * L + 1e-5 * (1 + L) ? 1 : 0;
    }
    if (argc < 3 || strcmp(argv[1], "grid")) return 2;
    int n = atoi(argv[2]); if (n < 4) n = 4;
    const double rhos[] = {1.0, 0.6};
    for (double rho : rhos)
    {
        auto dub = std::make_shared<ob::DubinsStateSpace>(rho, false); auto sdub = std::make_shared<ob::DubinsStateSpace>(rho, true); auto rs = std::make_shared<ob::ReedsSheppStateSpace>(rho);
        ob::RealVectorBounds bnd(2); bnd.setLow(-10); bnd.setHigh(10);
        dub->setBounds(bnd); sdub->setBounds(bnd); rs->setBounds(bnd);
        ob::ScopedState<ob::SE2StateSpace> a(dub), b(dub), p(dub);
        const double xs[] = {0.0, 0.3, 1.0, 2.5, 6.0};
        for (double x : xs) for (double y : xs) for (int i = 0; i < n; ++i) for (int j = 0; j < n; ++j)
        {
            double ta = -M_PI + 2 * M_PI * i / n + 1e-3, tb = -M_PI + 2 * M_PI * j / n + 2e-3;
            a->setXY(0.1, -0.2); a->setYaw(ta); b->setXY(0.1 + x, -0.2 + y); b->setYaw(tb);
            double e = std::hypot(x, y);
            double dd = dub->distance(a.get(), b.get()), ddr = dub->distance(b.get(), a.get()), sd = sdub->distance(a.get(), b.get()), sdr = sdub->distance(b.get(), a.get());
            double rr = rs->distance(a.get(), b.get()), rrr = rs->distance(b.get(), a.get());
            checks += 6;
            if (dd < e - 1e-9 || sd < e - 1e-9 || rr < e - 1e-9) FAIL("distance below the straight line: euclid %.9f dubins %.9f sym %.9f rs %.9f (rho %.1f, x %.2f y %.2f ta %.4f tb %.4f)", e, dd, sd, rr, rho, x, y, ta, tb);
            if (fabs(sd - sdr) > 1e-9) FAIL("symmetrised Dubins not symmetric: %.9f vs %.9f", sd, sdr);
            if (fabs(sd - std::min(dd, ddr)) > 1e-9) FAIL("symmetrised Dubins %.9f is not the shorter direction min(%.9f, %.9f)", sd, dd, ddr);
            if (fabs(rr - rrr) > 1e-6) FAIL("Reeds-Shepp not symmetric: %.9f vs %.9f (rho %.1f, x %.2f y %.2f ta %.4f tb %.4f)", rr, rrr, rho, x, y, ta, tb);
            if (rr > dd + 1e-6 || rr > ddr + 1e-6) FAIL("Reeds-Shepp %.9f exceeds Dubins %.9f / %.9f (rho %.1f, x %.2f y %.2f ta %.4f tb %.4f)", rr, dd, ddr, rho, x, y, ta, tb);
            ob::StateSpace *sp[3] = {dub.get(), sdub.get(), rs.get()}; const char *nm[3] = {"Dubins", "symmetrised Dubins", "Reeds-Shepp"}; double L[3] = {dd, sd, rr};
            for (int k = 0; k < 3; ++k)
            {
                sp[k]->interpolate(a.get(), b.get(), 1.0 - 1e-9, p.get());
                checks++;
                if (std::hypot(p->getX() - b->getX(), p->getY() - b->getY()) > 1e-5 || angdiff(p->getYaw(), b->getYaw()) > 1e-5)
                    FAIL("%s curve does not end at the target: (%.6f, %.6f, %.6f) vs (%.6f, %.6f, %.6f) (rho %.1f, x %.2f y %.2f ta %.4f tb %.4f)", nm[k], p->getX(), p->getY(), p->getYaw(), b->getX(), b->getY(), b->getYaw(), rho, x, y, ta, tb);
                if (k == 1) continue;   // the symmetrised space may follow the reverse curve: prefix distances are measured along another word
                if (k == 2) continue;   // Reeds-Shepp prefix clause: KNOWN FINDING rs-prefix-suboptimal (known_findings.txt) -- replayed by the kf_rs_prefix witness, not searched here
                for (double t : {0.3, 0.7})
                {
                    sp[k]->interpolate(a.get(), b.get(), t, p.get()); double dp = sp[k]->distance(a.get(), p.get()); checks++;
                    if (fabs(dp - t * L[k]) > 1e-5 * (1 + L[k])) FAIL("%s: distance to the point at t=%.1f is %.9f, expected t x total = %.9f (rho %.1f, x %.2f y %.2f ta %.4f tb %.4f)", nm[k], t, dp, t * L[k], rho, x, y, ta, tb);
                }
            }
        }
    }
    printf("c14_native_curves: %ld checks, %ld violated\n", checks, fails);
    return fails ? 1 : 0;
}
