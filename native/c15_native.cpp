// Native oracle for C15 ("the reported measure equals the analytic volume") on the REAL GeometricEquations.cpp through the public API.
// Deterministic, bounded supporting evidence (never counted as proof): closed-form identities the measure helpers must satisfy.
// usage: c15_native measures    exit 0 held / 1 violated / 2 usage
#include <ompl/util/GeometricEquations.h>
#include <cmath>
#include <cstdio>
#include <cstring>
#include <initializer_list>
static int fails = 0;
#define FAIL(...) do { printf("VIOLATED: "); printf(__VA_ARGS__); printf("\n"); fails++; } while (0)
static bool close(double a, double b) { return std::fabs(a - b) <= 1e-10 * (1 + std::fabs(b)); }
int main(int argc, char **argv)
{
    if (argc < 2 || strcmp(argv[1], "measures")) return 2;
    double V[21]; V[0] = 1.0; V[1] = 2.0;
    for (unsigned n = 2; n <= 20; ++n) V[n] = 2 * M_PI / n * V[n - 2];          // V_n = (2 pi / n) V_{n-2}:  2, pi, 4pi/3, pi^2/2, 8pi^2/15, ...
    for (unsigned n = 1; n <= 20; ++n)
    {
        double u = ompl::unitNBallMeasure(n);
        if (!close(u, V[n])) FAIL("unitNBallMeasure(%u) = %.12g, analytic volume %.12g", n, u, V[n]);
        for (double r : {0.5, 1.0, 3.0})
        {
            double b = ompl::nBallMeasure(n, r);
            if (!close(b, V[n] * std::pow(r, (double)n))) FAIL("nBallMeasure(%u, %.1f) = %.12g, analytic volume %.12g", n, r, b, V[n] * std::pow(r, (double)n));
        }
        if (n >= 2)
        {
            // a hyperspheroid with coincident foci is a ball of diameter d; with foci f apart and transverse diameter d: V_n * (d/2) * (sqrt(d^2 - f^2)/2)^(n-1)
            for (double d : {1.0, 2.5}) for (double f : {0.0, 0.6})
            {
                double p = ompl::prolateHyperspheroidMeasure(n, f, d), want = V[n] * (d / 2) * std::pow(std::sqrt(d * d - f * f) / 2, (double)(n - 1));
                if (!close(p, want)) FAIL("prolateHyperspheroidMeasure(%u, %.1f, %.1f) = %.12g, analytic volume %.12g", n, f, d, p, want);
            }
        }
    }
    printf("c15_native: measures for dimensions 1..20: %d violated\n", fails);
    return fails ? 1 : 0;
}
