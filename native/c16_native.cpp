// Native oracle / witness driver for C16 on the REAL projection-based constrained space.
// usage: c16_native search <seed> <n>   sphere of radius 1 inside generous bounds: samples, interpolated states and geodesic states
//                                        must satisfy the constraint, geodesic steps within lambda*delta, success ends within delta
//        c16_native kfbounds <seed> <n> witness of the known finding: bounds that cut the manifold -> the sampler clamps AFTER projecting
//        c16_native kffail <seed> <n>   witness of the known finding: a failed projection is returned by the sampler all the same
// exit 0 held / 1 violated / 2 usage
#include <ompl/base/Constraint.h>
#include <ompl/base/ConstrainedSpaceInformation.h>
#include <ompl/base/spaces/RealVectorStateSpace.h>
#include <ompl/base/spaces/constraint/ProjectedStateSpace.h>
#include <cstdio>
#include <cstring>
#include <cmath>
namespace ob = ompl::base;
class Sphere : public ob::Constraint
{
public:
    Sphere(double tol = 1e-4, unsigned it = 50) : ob::Constraint(3, 1, tol) { setMaxIterations(it); }
    void function(const Eigen::Ref<const Eigen::VectorXd> &x, Eigen::Ref<Eigen::VectorXd> out) const override { out[0] = x.norm() - 1; }
    void jacobian(const Eigen::Ref<const Eigen::VectorXd> &x, Eigen::Ref<Eigen::MatrixXd> out) const override { out = x.transpose().normalized(); }
};
// x^2 + y^2 + z^2 + 1 = 0 has no solution: every projection fails
class Empty : public ob::Constraint
{
public:
    Empty() : ob::Constraint(3, 1, 1e-4) { setMaxIterations(20); }
    void function(const Eigen::Ref<const Eigen::VectorXd> &x, Eigen::Ref<Eigen::VectorXd> out) const override { out[0] = x.squaredNorm() + 1; }
    void jacobian(const Eigen::Ref<const Eigen::VectorXd> &x, Eigen::Ref<Eigen::MatrixXd> out) const override { out = 2 * x.transpose(); }
};
static int fails = 0;
#define FAIL(...) do { if (fails < 5) { printf("VIOLATED: "); printf(__VA_ARGS__); printf("\n"); } fails++; } while (0)
int main(int argc, char **argv)
{
    if (argc < 4) return 2;
    ompl::msg::setLogLevel(ompl::msg::LOG_NONE);
    ompl::RNG::setSeed(atoi(argv[2]) + 1);
    int n = atoi(argv[3]);
    std::string mode = argv[1];
    auto rv = std::make_shared<ob::RealVectorStateSpace>(3);
    ob::RealVectorBounds b(3); b.setLow(-2); b.setHigh(2);
    if (mode == "kfbounds") b.setLow(2, 0.5);          // the plane z = 0.5 cuts the unit sphere
    rv->setBounds(b);
    ob::ConstraintPtr con;
    if (mode == "kffail") con = std::make_shared<Empty>(); else con = std::make_shared<Sphere>();
    auto css = std::make_shared<ob::ProjectedStateSpace>(rv, con);
    auto csi = std::make_shared<ob::ConstrainedSpaceInformation>(css);
    csi->setStateValidityChecker([](const ob::State *) { return true; });
    csi->setup();
    auto sampler = css->allocStateSampler();
    ob::State *a = css->allocState(), *c = css->allocState(), *m = css->allocState();
    if (mode == "kfbounds" || mode == "kffail")
    {
        int off = 0;
        for (int i = 0; i < n; ++i) { sampler->sampleUniform(a); if (!con->isSatisfied(a)) off++; }
        if (off) { printf("VIOLATED: %d of %d states returned by ProjectedStateSampler::sampleUniform do not satisfy the constraint (%s)\n", off, n,
                          mode == "kffail" ? "projection failed, result ignored" : "enforceBounds after projection moved them off the manifold"); return 1; }
        return 0;
    }
    if (mode != "search") return 2;
    const double delta = css->getDelta(), lambda = css->getLambda();
    for (int i = 0; i < n; ++i)
    {
        sampler->sampleUniform(a); sampler->sampleUniformNear(c, a, 0.7);
        if (!con->isSatisfied(a) || !con->isSatisfied(c)) { FAIL("sampled state off the manifold (residual %g / %g)", con->distance(a), con->distance(c)); continue; }
        std::vector<ob::State *> geo;
        bool ok = css->discreteGeodesic(a, c, true, &geo);
        for (std::size_t k = 0; k < geo.size(); ++k)
        {
            if (!con->isSatisfied(geo[k])) FAIL("geodesic state %zu off the manifold (residual %g)", k, con->distance(geo[k]));
            if (k && css->distance(geo[k - 1], geo[k]) > lambda * delta * (1 + 1e-12)) FAIL("geodesic step %zu of length %g > lambda*delta = %g", k, css->distance(geo[k - 1], geo[k]), lambda * delta);
        }
        if (geo.empty() || !css->equalStates(geo[0], a)) FAIL("geodesic does not start at `from`");
        if (ok && css->distance(geo.back(), c) > delta * (1 + 1e-12)) FAIL("successful geodesic ends %g from the target (delta %g)", css->distance(geo.back(), c), delta);
        for (auto s : geo) css->freeState(s);
        for (double t : {0.0, 0.3, 0.5, 1.0}) { css->interpolate(a, c, t, m); if (!con->isSatisfied(m)) FAIL("interpolate(t=%g) off the manifold (residual %g)", t, con->distance(m)); }
        if (csi->checkMotion(a, c) && !(con->isSatisfied(c) && ok)) FAIL("checkMotion true although the geodesic did not reach a satisfying target");
    }
    css->freeState(a); css->freeState(c); css->freeState(m);
    if (fails) { printf("%d violations\n", fails); return 1; }
    return 0;
}
