// Native replay for the ropeShortcutPath defect fixed by daeaf84e7 (C17): built with -D_GLIBCXX_ASSERTIONS so that an out-of-range
// std::vector index aborts; SIGABRT is turned into exit code 1.  Runs ropeShortcutPath on zig-zag paths whose far ends see each other.
// usage: c17_rope_native <seed> <n>    exit 0 held / 1 violated
#include <ompl/base/SpaceInformation.h>
#include <ompl/base/spaces/RealVectorStateSpace.h>
#include <ompl/geometric/PathGeometric.h>
#include <ompl/geometric/PathSimplifier.h>
#include <csignal>
#include <cstdio>
#include <random>
#include <unistd.h>
namespace ob = ompl::base; namespace og = ompl::geometric;
static void on_abort(int) { const char m[] = "VIOLATED: ropeShortcutPath aborted (out-of-range vector index)\n"; (void)!write(1, m, sizeof(m) - 1); _exit(1); }
int main(int argc, char **argv)
{
    if (argc < 3) return 2;
    signal(SIGABRT, on_abort);
    ompl::msg::setLogLevel(ompl::msg::LOG_NONE);
    std::mt19937 rng(atoi(argv[1])); int n = atoi(argv[2]); int fails = 0;
    auto space = std::make_shared<ob::RealVectorStateSpace>(2); space->setBounds(-100, 100);
    auto si = std::make_shared<ob::SpaceInformation>(space); si->setStateValidityChecker([](const ob::State *) { return true; }); si->setup();
    std::uniform_real_distribution<double> u(-1, 1);
    for (int it = 0; it < n; ++it)
    {
        og::PathGeometric path(si); int len = 3 + it % 5;
        for (int k = 0; k < len; ++k) { ob::ScopedState<ob::RealVectorStateSpace> s(space); s[0] = k; s[1] = (k == 0 || k == len - 1) ? 0 : u(rng) * 2; path.append(s.get()); }
        double x0 = path.getState(0)->as<ob::RealVectorStateSpace::StateType>()->values[0], xl = path.getState(len - 1)->as<ob::RealVectorStateSpace::StateType>()->values[0];
        double before = path.length();
        og::PathSimplifier ps(si);
        ps.ropeShortcutPath(path, it % 2 ? 10.0 : 0.7, 0.1);
        auto *f = path.getState(0)->as<ob::RealVectorStateSpace::StateType>(); auto *l = path.getState(path.getStateCount() - 1)->as<ob::RealVectorStateSpace::StateType>();
        if (f->values[0] != x0 || l->values[0] != xl) { printf("VIOLATED: end points changed\n"); fails++; }
        if (path.length() > before * (1 + 1e-9)) { printf("VIOLATED: path got longer %g -> %g\n", before, path.length()); fails++; }
        if (!path.check()) { printf("VIOLATED: invalid path\n"); fails++; }
    }
    return fails ? 1 : 0;
}
