// Native oracle / replay driver for C18 on the REAL termination-condition classes.
// usage: c18_native all <seed>     exit 0 held / 1 violated / 2 usage
#include <ompl/base/PlannerTerminationCondition.h>
#include <ompl/base/terminationconditions/IterationTerminationCondition.h>
#include <ompl/base/terminationconditions/CostConvergenceTerminationCondition.h>
#include <ompl/base/ProblemDefinition.h>
#include <ompl/base/SpaceInformation.h>
#include <ompl/base/spaces/RealVectorStateSpace.h>
#include <ompl/geometric/PathGeometric.h>
#include <ompl/util/Time.h>
#include <algorithm>
#include <chrono>
#include <cstdio>
#include <cstring>
#include <random>
#include <thread>
namespace ob = ompl::base;
static int fails = 0;
#define FAIL(...) do { printf("VIOLATED: "); printf(__VA_ARGS__); printf("\n"); fails++; } while (0)
int main(int argc, char **argv)
{
    if (argc < 3 || strcmp(argv[1], "all")) return 2;
    ompl::msg::setLogLevel(ompl::msg::LOG_NONE);
    std::mt19937 rng(atoi(argv[2]));
    // predicate form + sticky terminate
    for (int v = 0; v < 2; ++v) {
        bool val = v; int calls = 0;
        ob::PlannerTerminationCondition c([&] { calls++; return val; });
        if (c.eval() != val || calls != 1) FAIL("predicate condition: eval()=%d for predicate %d (calls %d)", (int)c.eval(), v, calls);
        val = !val; if (c.eval() != val) FAIL("predicate condition does not follow the predicate");
        c.terminate(); val = false; for (int i = 0; i < 3; ++i) if (!c.eval()) FAIL("terminate() requested but eval() is false");
    }
    {   // periodic form: terminate() must win over the cached value
        ob::PlannerTerminationCondition c([] { return false; }, 0.01);
        if (c.eval()) FAIL("periodic condition true although predicate false");
        c.terminate();
        for (int i = 0; i < 3; ++i) { if (!c.eval()) FAIL("periodic form: terminate() requested but eval() is false"); std::this_thread::sleep_for(std::chrono::milliseconds(5)); }
    }
    {   // periodic form follows the predicate within a few periods
        std::atomic<bool> val(false);
        ob::PlannerTerminationCondition c([&] { return val.load(); }, 0.005);
        val = true; std::this_thread::sleep_for(std::chrono::milliseconds(100));
        if (!c.eval()) FAIL("periodic form did not become true 20 periods after the predicate did");
    }
    // combinators
    for (int a = 0; a < 2; ++a) for (int b = 0; b < 2; ++b) {
        bool va = a, vb = b;
        ob::PlannerTerminationCondition c1([&] { return va; }), c2([&] { return vb; });
        auto o = ob::plannerOrTerminationCondition(c1, c2); auto n = ob::plannerAndTerminationCondition(c1, c2);
        if (o.eval() != (a || b)) FAIL("or(%d,%d) = %d", a, b, (int)o.eval());
        if (n.eval() != (a && b)) FAIL("and(%d,%d) = %d", a, b, (int)n.eval());
        va = !va; if (o.eval() != (va || vb) || n.eval() != (va && vb)) FAIL("or/and do not follow their operands");
    }
    { auto nv = ob::plannerNonTerminatingCondition(); auto al = ob::plannerAlwaysTerminatingCondition();
      for (int i = 0; i < 3; ++i) { if (nv.eval()) FAIL("never-terminating condition is true"); if (!al.eval()) FAIL("always-terminating condition is false"); } }
    // iteration count
    for (unsigned n = 0; n <= 6; ++n) {
        ob::IterationTerminationCondition it(n);
        for (unsigned k = 1; k <= n + 3; ++k) { bool r = it.eval(); if (r != (k > n)) FAIL("IterationTerminationCondition(%u): evaluation %u returned %d", n, k, (int)r); }
        it.reset(); for (unsigned k = 1; k <= n + 1; ++k) { bool r = it.eval(); if (r != (k > n)) FAIL("IterationTerminationCondition(%u) after reset: evaluation %u returned %d", n, k, (int)r); }
        ob::IterationTerminationCondition it2(n); ob::PlannerTerminationCondition p = it2;
        for (unsigned k = 1; k <= n + 2; ++k) { bool r = p.eval(); if (r != (k > n)) FAIL("IterationTerminationCondition(%u) as PTC: evaluation %u returned %d", n, k, (int)r); }
    }
    // timed
    { auto t = ob::timedPlannerTerminationCondition(0.05); if (t.eval()) FAIL("timed(0.05s) true immediately");
      std::this_thread::sleep_for(std::chrono::milliseconds(80)); if (!t.eval()) FAIL("timed(0.05s) false after 80ms"); if (!t.eval()) FAIL("timed condition reverted"); }
    { auto t = ob::timedPlannerTerminationCondition(0.05, 0.5); if (t.eval()) FAIL("timed(0.05,0.5) true immediately");
      std::this_thread::sleep_for(std::chrono::milliseconds(200)); if (!t.eval()) FAIL("timed(0.05s, interval 0.5s) still false after 200ms: interval not clipped to the duration"); }
    // exact solution mirror
    {
        auto space = std::make_shared<ob::RealVectorStateSpace>(1); space->setBounds(0, 1);
        auto si = std::make_shared<ob::SpaceInformation>(space); si->setup();
        auto pdef = std::make_shared<ob::ProblemDefinition>(si);
        auto c = ob::exactSolnPlannerTerminationCondition(pdef);
        if (c.eval()) FAIL("exact-solution condition true with no solution");
        auto path = std::make_shared<ompl::geometric::PathGeometric>(si);
        pdef->addSolutionPath(path, true, 0.5); if (c.eval()) FAIL("exact-solution condition true with only an approximate solution");
        pdef->addSolutionPath(path, false, 0.0); if (!c.eval()) FAIL("exact-solution condition false although an exact solution is held");
        pdef->clearSolutionPaths(); if (c.eval()) FAIL("exact-solution condition still true after the solutions were cleared");
        // cost convergence vs reference
        for (int trial = 0; trial < 300; ++trial) {
            size_t window = 1 + rng() % 5; double eps = (rng() % 4) * 0.05 + 0.01;
            auto pd = std::make_shared<ob::ProblemDefinition>(si);
            ob::CostConvergenceTerminationCondition cc(pd, window, eps);
            double avg = 0; size_t sols = 0; bool fired = false; std::string seq;
            double cost = 50 + rng() % 100;
            for (int k = 0; k < 14 && !fired; ++k) {
                if (rng() % 3) cost *= (rng() % 2) ? 0.5 : 0.97;
                seq += std::to_string(cost) + " ";
                ++sols; size_t s = std::min(sols, window);
                double nc = ((s - 1) * avg + cost) / s, lo = (1. - eps) * avg, hi = (1. + eps) * avg; avg = nc;
                bool want = (s == window && avg > lo && avg < hi);
                std::vector<const ob::State *> none;
                pd->getIntermediateSolutionCallback()(nullptr, none, ob::Cost(cost));
                bool got = ((ob::PlannerTerminationCondition &)cc).eval();
                if (got != want) { FAIL("cost convergence (window %zu, eps %g): after costs %s fired=%d expected %d", window, eps, seq.c_str(), (int)got, (int)want); break; }
                fired = got;
            }
        }
    }
    printf(fails ? "c18_native: %d violations\n" : "c18_native: all held\n", fails);
    return fails ? 1 : 0;
}
