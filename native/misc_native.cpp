// Native oracle / replay driver for C01, C02, C04, C09, C10, C17, C20 on the REAL classes.
// usage: misc_native <c01|c02|c04|c09|c10|c17|c20> <seed> <n>     exit 0 held / 1 violated / 2 usage
#include <ompl/base/SpaceInformation.h>
#include <ompl/base/ProblemDefinition.h>
#include <ompl/base/Planner.h>
#include <ompl/base/PlannerData.h>
#include <ompl/base/PlannerDataStorage.h>
#include <ompl/base/StateStorage.h>
#include <ompl/base/goals/GoalState.h>
#include <ompl/base/goals/GoalStates.h>
#include <ompl/base/objectives/PathLengthOptimizationObjective.h>
#include <ompl/base/objectives/MaximizeMinClearanceObjective.h>
#include <ompl/base/spaces/RealVectorStateSpace.h>
#include <ompl/base/spaces/SO2StateSpace.h>
#include <ompl/base/spaces/SO3StateSpace.h>
#include <ompl/base/spaces/SE2StateSpace.h>
#include <ompl/base/spaces/SE3StateSpace.h>
#include <ompl/base/spaces/DiscreteStateSpace.h>
#include <ompl/base/spaces/TimeStateSpace.h>
#include <ompl/control/SpaceInformation.h>
#include <ompl/control/SimpleDirectedControlSampler.h>
#include <ompl/control/spaces/RealVectorControlSpace.h>
#include <ompl/datastructures/NearestNeighborsGNAT.h>
#include <ompl/datastructures/NearestNeighborsGNATNoThreadSafety.h>
#include <ompl/datastructures/NearestNeighborsLinear.h>
#include <ompl/datastructures/NearestNeighborsSqrtApprox.h>
#include <ompl/geometric/PathGeometric.h>
#include <ompl/util/RandomNumbers.h>
#include <algorithm>
#include <cmath>
#include <cstdio>
#include <cstring>
#include <map>
#include <memory>
#include <random>
#include <set>
#include <sstream>
namespace ob = ompl::base; namespace oc = ompl::control; namespace og = ompl::geometric;
static int fails = 0;
#define FAIL(...) do { printf("VIOLATED: "); printf(__VA_ARGS__); printf("\n"); if (++fails > 3) return 1; } while (0)
static double rnd(std::mt19937_64 &g, double lo, double hi) { return std::uniform_real_distribution<double>(lo, hi)(g); }

// ------------------------------------------------------------------ C10
struct P { int x, y, id; bool operator==(const P &o) const { return id == o.id; } bool operator!=(const P &o) const { return id != o.id; } };
static double pdist(const P &a, const P &b) { return std::abs(a.x - b.x) + std::abs(a.y - b.y); }   // Manhattan on integers: exact, many ties
template <class NN> struct Make { static NN *make(long) { return new NN(); } };
template <> struct Make<ompl::NearestNeighborsGNAT<P>> { static ompl::NearestNeighborsGNAT<P> *make(long it) { return (it % 2) ? new ompl::NearestNeighborsGNAT<P>(3, 2, 4, 4, 3) : new ompl::NearestNeighborsGNAT<P>(); } };
template <> struct Make<ompl::NearestNeighborsGNATNoThreadSafety<P>> { static ompl::NearestNeighborsGNATNoThreadSafety<P> *make(long it) { return (it % 2) ? new ompl::NearestNeighborsGNATNoThreadSafety<P>(3, 2, 4, 4, 3) : new ompl::NearestNeighborsGNATNoThreadSafety<P>(); } };
template <class NN> static int run_nn(const char *name, std::mt19937_64 &g, long n, bool exactNearest)
{
    for (long it = 0; it < n; ++it) try {
        std::unique_ptr<NN> nnp(Make<NN>::make(it)); NN &nn = *nnp; nn.setDistanceFunction(pdist); std::vector<P> ref; int next = 1; std::string log;
        int ops = 1 + g() % 60; int range = (it % 3 == 0) ? 4 : (it % 3 == 1 ? 12 : 40); bool line = it % 3 == 2;
        for (int s = 0; s < ops; ++s) {
            int op = g() % 100; P q{(int)(g() % range), line ? 0 : (int)(g() % range), 0};
            if (op < 6 && !ref.empty()) { P p = ref[g() % ref.size()]; nn.add(p); ref.push_back(p); log += "add-duplicate#" + std::to_string(p.id) + " "; }
            else if (op < 40) { P p{q.x, q.y, next++}; nn.add(p); ref.push_back(p); log += "add(" + std::to_string(p.x) + "," + std::to_string(p.y) + ") "; }
            else if (op < 48) { std::vector<P> l; for (int i = 0, m = g() % 5; i < m; ++i) { P p{(int)(g() % range), line ? 0 : (int)(g() % range), next++}; l.push_back(p); ref.push_back(p); } nn.add(l); log += "addlist(" + std::to_string(l.size()) + ") "; }
            else if (op < 62 && !ref.empty()) { size_t k = g() % ref.size(); P p = ref[k]; bool r = nn.remove(p); log += "remove#" + std::to_string(p.id) + " "; if (!r) FAIL("%s: remove of a stored element returned false; history: %s", name, log.c_str()); ref.erase(ref.begin() + k); }
            else if (op < 66) { P p{(int)(g() % range), line ? 0 : (int)(g() % range), 1000000 + (int)(g() % 5)}; log += "remove-absent "; if (nn.remove(p)) FAIL("%s: remove of an element that is not stored returned true; history: %s", name, log.c_str()); }
            else if (op < 68) { nn.clear(); ref.clear(); log += "clear "; }
            // queries
            if (nn.size() != ref.size()) FAIL("%s: size() = %zu, should hold %zu; history: %s", name, nn.size(), ref.size(), log.c_str());
            std::vector<P> l; nn.list(l); std::multiset<int> a, b; for (auto &p : l) a.insert(p.id); for (auto &p : ref) b.insert(p.id); if (a != b) FAIL("%s: list() differs from the expected contents; history: %s", name, log.c_str());
            if (ref.empty()) continue;
            std::vector<double> bf; for (auto &p : ref) bf.push_back(pdist(p, q)); std::sort(bf.begin(), bf.end());
            P nr = nn.nearest(q); if (!b.count(nr.id)) FAIL("%s: nearest() returned a non-member; history: %s", name, log.c_str());
            if (exactNearest && pdist(nr, q) != bf[0]) FAIL("%s: nearest() at distance %g, brute force %g; history: %s", name, pdist(nr, q), bf[0], log.c_str());
            size_t k = 1 + g() % 6; std::vector<P> kn; nn.nearestK(q, k, kn); size_t want = std::min(k, ref.size());
            if (kn.size() != want) FAIL("%s: nearestK(%zu) returned %zu elements of %zu stored; history: %s", name, k, kn.size(), ref.size(), log.c_str());
            std::multiset<int> seen; for (size_t i = 0; i < kn.size(); ++i) { seen.insert(kn[i].id); if (!b.count(kn[i].id) || seen.count(kn[i].id) > b.count(kn[i].id)) FAIL("%s: nearestK returned a removed or duplicate element; history: %s", name, log.c_str()); if (pdist(kn[i], q) != bf[i]) FAIL("%s: nearestK[%zu] at distance %g, brute force %g; history: %s", name, i, pdist(kn[i], q), bf[i], log.c_str()); }
            double r = g() % (2 * range); std::vector<P> rn; nn.nearestR(q, r, rn); size_t cnt = 0; for (double d : bf) if (d <= r) cnt++;
            if (rn.size() != cnt) FAIL("%s: nearestR(%g) returned %zu elements, brute force %zu; history: %s", name, r, rn.size(), cnt, log.c_str());
            for (size_t i = 0; i < rn.size(); ++i) { if (pdist(rn[i], q) != bf[i]) FAIL("%s: nearestR[%zu] not in brute-force order; history: %s", name, i, log.c_str()); }
        }
    } catch (std::exception &e) { FAIL("%s: unexpected exception %s", name, e.what()); }
    return 0;
}
// ------------------------------------------------------------------ main
int main(int argc, char **argv)
{
    if (argc < 4) return 2;
    ompl::msg::setLogLevel(ompl::msg::LOG_NONE);
    std::string which = argv[1]; std::mt19937_64 g(atoi(argv[2])); long n = atol(argv[3]);
    if (which == "c10") {
        if (run_nn<ompl::NearestNeighborsLinear<P>>("Linear", g, n, true)) return 1;
        if (run_nn<ompl::NearestNeighborsSqrtApprox<P>>("SqrtApprox", g, n, false)) return 1;
        if (run_nn<ompl::NearestNeighborsGNAT<P>>("GNAT", g, n, true)) return 1;
        if (run_nn<ompl::NearestNeighborsGNATNoThreadSafety<P>>("GNATNoThreadSafety", g, n, true)) return 1;
    }
    else if (which == "c04") {
        auto sp = std::make_shared<ob::RealVectorStateSpace>(1); sp->setBounds(0, 100); auto si = std::make_shared<ob::SpaceInformation>(sp); si->setup();
        for (long it = 0; it < n; ++it) {
            bool maxi = it % 3 == 0; ob::OptimizationObjectivePtr opt; if (maxi) opt = std::make_shared<ob::MaximizeMinClearanceObjective>(si); else opt = std::make_shared<ob::PathLengthOptimizationObjective>(si);
            auto pdef = std::make_shared<ob::ProblemDefinition>(si); int m = 1 + g() % 5; std::vector<ob::PlannerSolution> all;
            for (int i = 0; i < m; ++i) {
                auto path = std::make_shared<og::PathGeometric>(si); ob::PlannerSolution s(path); bool approx = g() % 3 == 0; if (approx) s.setApproximate((double)(g() % 4));
                double cost = (double)(g() % 4); if (it % 4) s.setOptimized(opt, ob::Cost(cost), g() % 2); else s.length_ = cost;
                pdef->addSolutionPath(s); all.push_back(s);
            }
            ob::PlannerSolution top(nullptr); if (!pdef->getSolution(top)) FAIL("no top solution although %d were added", m);
            for (auto &s : all) if (s < top) FAIL("the solution handed out first ranks after another stored one (approx %d/%d diff %g/%g optimized %d/%d cost %g/%g)", (int)top.approximate_, (int)s.approximate_, top.difference_, s.difference_, (int)top.optimized_, (int)s.optimized_, top.cost_.value(), s.cost_.value());
            if (pdef->hasApproximateSolution() != top.approximate_ || pdef->hasOptimizedSolution() != top.optimized_) FAIL("reported flags differ from the top solution's");
            bool anyExact = false; for (auto &s : all) anyExact |= !s.approximate_; if (anyExact && pdef->hasApproximateSolution()) FAIL("an exact solution is hidden behind an approximate one");
            ob::Cost a(rnd(g, -5, 5)), b(rnd(g, -5, 5)), c(rnd(g, -5, 5)); if (g() % 4 == 0) b = a;
            if (opt->isCostBetterThan(a, a) || (opt->isCostBetterThan(a, b) && opt->isCostBetterThan(b, a)) || (opt->isCostBetterThan(a, b) && opt->isCostBetterThan(b, c) && !opt->isCostBetterThan(a, c))) FAIL("isCostBetterThan is not a strict order");
            if (opt->isCostEquivalentTo(a, b) != (!opt->isCostBetterThan(a, b) && !opt->isCostBetterThan(b, a))) FAIL("isCostEquivalentTo inconsistent");
            opt->setCostThreshold(c); if (opt->isSatisfied(a) != opt->isCostBetterThan(a, c)) FAIL("isSatisfied(c) != isCostBetterThan(c, threshold)");
            ob::Cost bc = opt->betterCost(a, b); if (opt->isCostBetterThan(a, bc) || opt->isCostBetterThan(b, bc)) FAIL("betterCost did not return the better cost");
        }
    }
    else if (which == "c17" || which == "c01") {
        auto sp = std::make_shared<ob::RealVectorStateSpace>(2); sp->setBounds(0, 10); auto si = std::make_shared<ob::SpaceInformation>(sp);
        si->setStateValidityChecker([](const ob::State *s) { double x = s->as<ob::RealVectorStateSpace::StateType>()->values[0]; return !(x > 4.0 && x < 4.5); }); si->setStateValidityCheckingResolution(0.01); si->setup();
        for (long it = 0; it < n; ++it) {
            og::PathGeometric p(si); int m = g() % 7; std::vector<std::pair<double, double>> orig;
            for (int i = 0; i < m; ++i) { ob::State *s = si->allocState(); auto *v = s->as<ob::RealVectorStateSpace::StateType>()->values; v[0] = (it % 5 == 0) ? 1.0 : rnd(g, 0, 10); v[1] = (it % 5 == 0) ? 1.0 : rnd(g, 0, 10); orig.push_back({v[0], v[1]}); p.append(s); si->freeState(s); }
            if (which == "c01") {
                bool ok = p.check(); bool want = true; if (m > 0) { want = si->isValid(p.getState(0)); for (int i = 0; i + 1 < m && want; ++i) want = si->checkMotion(p.getState(i), p.getState(i + 1)); }
                if (ok != want) FAIL("PathGeometric::check() = %d, first state valid and all motions valid = %d", (int)ok, (int)want);
                continue;
            }
            og::PathGeometric q(p); unsigned req = g() % 20; q.interpolate(req);
            size_t wantn = (req < (unsigned)m || m < 2) ? m : req;
            if (q.getStateCount() != wantn) FAIL("interpolate(%u) on a path of %d states gave %zu states (expected %zu)", req, m, q.getStateCount(), wantn);
            size_t pos = 0; for (auto &o : orig) { bool found = false; for (; pos < q.getStateCount(); ++pos) { auto *v = q.getState(pos)->as<ob::RealVectorStateSpace::StateType>()->values; if (v[0] == o.first && v[1] == o.second) { found = true; ++pos; break; } } if (!found) FAIL("interpolate(%u): an original vertex is missing or out of order", req); }
            og::PathGeometric r(p); r.subdivide(); if (m >= 2 && r.getStateCount() != (size_t)(2 * m - 1)) FAIL("subdivide of %d states gave %zu", m, r.getStateCount());
            if (m >= 2) for (int i = 0; i < m; ++i) { auto *v = r.getState(2 * i)->as<ob::RealVectorStateSpace::StateType>()->values; if (v[0] != orig[i].first || v[1] != orig[i].second) FAIL("subdivide: original vertex %d is not at position %d", i, 2 * i); }
        }
        if (which == "c01") {
            for (int hs = 0; hs < 2; ++hs) for (int ap = 0; ap < 2; ++ap) { ob::PlannerStatus st(hs, ap); if ((bool)st != (bool)hs) FAIL("PlannerStatus(%d,%d) converts to %d", hs, ap, (int)(bool)st);
                if ((st == ob::PlannerStatus::APPROXIMATE_SOLUTION) != (hs && ap) || (st == ob::PlannerStatus::EXACT_SOLUTION) != (hs && !ap)) FAIL("PlannerStatus(%d,%d) has the wrong value", hs, ap); }
            // nextStart filters invalid / out-of-bounds starts
            for (long it = 0; it < n; ++it) {
                auto pdef = std::make_shared<ob::ProblemDefinition>(si); int m = g() % 6; std::vector<bool> okv;
                for (int i = 0; i < m; ++i) { ob::ScopedState<> s(sp); s[0] = (g() % 3 == 0) ? 4.2 : ((g() % 4 == 0) ? 11.0 : rnd(g, 0, 4)); s[1] = 1; pdef->addStartState(s); okv.push_back(si->satisfiesBounds(s.get()) && si->isValid(s.get())); }
                ob::ScopedState<> gs(sp); gs[0] = 9; gs[1] = 9; pdef->setGoalState(gs);
                ob::PlannerInputStates pis; pis.use(pdef); int idx = 0;
                while (const ob::State *st = pis.nextStart()) { while (idx < m && !okv[idx]) ++idx; if (idx >= m || !sp->equalStates(st, pdef->getStartState(idx))) FAIL("nextStart returned a start state that is not the next valid in-bounds one"); if (!si->isValid(st) || !si->satisfiesBounds(st)) FAIL("nextStart returned an invalid or out-of-bounds start state"); ++idx; }
                while (idx < m && !okv[idx]) ++idx; if (idx != m) FAIL("nextStart stopped although a valid start state was left");
                pis.restart(); if (m > 0) { int first = 0; while (first < m && !okv[first]) ++first; const ob::State *st = pis.nextStart(); if ((st == nullptr) != (first == m)) FAIL("after restart() nextStart does not begin with the first start state again"); }
            }
            auto gst = std::make_shared<ob::GoalState>(si); ob::ScopedState<> gs(sp); gs[0] = 9; gs[1] = 9; gst->setState(gs); gst->setThreshold(0.5);
            for (long it = 0; it < n; ++it) { ob::ScopedState<> s(sp); s[0] = rnd(g, 8, 10); s[1] = rnd(g, 8, 10); double d = -1; bool r = gst->isSatisfied(s.get(), &d); double want = sp->distance(s.get(), gs.get()); if (d != want) FAIL("GoalRegion::isSatisfied reported distance %g, the goal distance is %g", d, want); if (r != (want < 0.5)) FAIL("isSatisfied = %d at distance %g (threshold 0.5)", (int)r, want); }
        }
    }
    else if (which == "c09") {
        auto rv = std::make_shared<ob::RealVectorStateSpace>(2); rv->setBounds(-5, 5); auto dc = std::make_shared<ob::DiscreteStateSpace>(-3, 9);
        auto se2 = std::make_shared<ob::SE2StateSpace>(); ob::RealVectorBounds b2(2); b2.setLow(-1); b2.setHigh(1); se2->setBounds(b2);
        auto cp = std::make_shared<ob::CompoundStateSpace>(); cp->addSubspace(dc, 1.0); cp->addSubspace(se2, 1.0); cp->addSubspace(rv, 1.0); cp->addSubspace(std::make_shared<ob::TimeStateSpace>(), 0.5); cp->lock();
        auto cp2 = std::make_shared<ob::CompoundStateSpace>(); cp2->addSubspace(std::make_shared<ob::SO3StateSpace>(), 1.0); cp2->addSubspace(cp, 1.0); cp2->addSubspace(std::make_shared<ob::DiscreteStateSpace>(0, 3), 1.0); cp2->lock();
        std::vector<ob::StateSpacePtr> spaces = {rv, dc, se2, cp, cp2, std::make_shared<ob::SE3StateSpace>()}; { ob::RealVectorBounds b3(3); b3.setLow(-1); b3.setHigh(1); spaces.back()->as<ob::SE3StateSpace>()->setBounds(b3); }
        for (auto &sp : spaces) { sp->setup(); auto smp = sp->allocDefaultStateSampler(); ob::State *s = sp->allocState(), *t = sp->allocState();
            for (long it = 0; it < n / 4 + 1; ++it) { smp->sampleUniform(s);
                std::vector<char> buf(sp->getSerializationLength() + 16, 0x5a); sp->serialize(buf.data() + 8, s); smp->sampleUniform(t); sp->deserialize(t, buf.data() + 8);
                if (!sp->equalStates(s, t)) FAIL("%s: serialize then deserialize does not reproduce the state", sp->getName().c_str());
                for (int k = 0; k < 8; ++k) if (buf[k] != 0x5a || buf[buf.size() - 1 - k] != 0x5a) FAIL("%s: serialize wrote outside getSerializationLength() bytes", sp->getName().c_str());
                smp->sampleUniform(t); sp->copyState(t, s); if (!sp->equalStates(s, t)) FAIL("%s: copyState does not reproduce the state", sp->getName().c_str());
                ob::State *c = sp->cloneState(s); if (!sp->equalStates(s, c)) FAIL("%s: cloneState differs", sp->getName().c_str()); sp->freeState(c);
                if (sp != dc && sp != cp && sp != cp2) { std::vector<double> r; sp->copyToReals(r, s); smp->sampleUniform(t); sp->copyFromReals(t, r); if (!sp->equalStates(s, t)) FAIL("%s: copyToReals/copyFromReals round trip differs", sp->getName().c_str()); } }   /* spaces with a discrete component: known finding discrete-reals */
            sp->freeState(s); sp->freeState(t); }
        // signatures: different spaces have different signatures; partial copy keeps all common subspaces
        std::vector<int> s1, s2; auto a = std::make_shared<ob::CompoundStateSpace>(); a->addSubspace(std::make_shared<ob::SO2StateSpace>(), 1); a->addSubspace(std::make_shared<ob::RealVectorStateSpace>(2), 1); a->lock();
        auto b = std::make_shared<ob::CompoundStateSpace>(); b->addSubspace(std::make_shared<ob::RealVectorStateSpace>(1), 1); b->addSubspace(std::make_shared<ob::RealVectorStateSpace>(2), 1); b->lock();
        a->computeSignature(s1); b->computeSignature(s2); if (s1 == s2) FAIL("SO2+R2 and R1+R2 have the same signature");
        { auto r3 = std::make_shared<ob::RealVectorStateSpace>(3); r3->setBounds(-1, 1); r3->setName("pos"); auto so3 = std::make_shared<ob::SO3StateSpace>(); so3->setName("rot"); auto big = std::make_shared<ob::CompoundStateSpace>(); big->addSubspace(r3, 1); big->addSubspace(so3, 1); big->addSubspace(std::make_shared<ob::DiscreteStateSpace>(0, 2), 1); big->lock();
          auto small = std::make_shared<ob::CompoundStateSpace>(); small->addSubspace(so3, 1); small->addSubspace(r3, 1); small->lock(); big->setup(); small->setup(); std::vector<std::string> common; big->getCommonSubspaces(small, common); if (common.size() != 2) FAIL("getCommonSubspaces found %zu common subspaces of R3+SO3+D and SO3+R3 (expected 2)", common.size()); }
        // planner data marks, any order, and store/load
        { auto si = std::make_shared<ob::SpaceInformation>(rv); si->setup();
          for (long it = 0; it < n / 10 + 1; ++it) { ob::PlannerData pd(si); std::vector<ob::State *> st; int m = 2 + g() % 5; for (int i = 0; i < m; ++i) { st.push_back(si->allocState()); auto *v = st.back()->as<ob::RealVectorStateSpace::StateType>()->values; v[0] = i; v[1] = it % 5; pd.addVertex(ob::PlannerDataVertex(st.back(), i)); }
            std::set<int> S, G; for (int k = 0; k < 4; ++k) { int v = g() % m; if (g() % 2) { if (!G.count(v)) { pd.markStartState(st[v]); S.insert(v); } } else if (!S.count(v)) { pd.markGoalState(st[v]); G.insert(v); } }
            for (int i = 0; i + 1 < m; ++i) pd.addEdge(i, i + 1, ob::PlannerDataEdge(), ob::Cost(i + 0.5));
            for (int v = 0; v < m; ++v) if (pd.isStartVertex(v) != (S.count(v) > 0) || pd.isGoalVertex(v) != (G.count(v) > 0)) FAIL("PlannerData: vertex %d start/goal marks wrong (marking order matters)", v);
            std::stringstream ss; ob::PlannerDataStorage store; store.store(pd, ss); ob::PlannerData pd2(si); store.load(ss, pd2);
            if (pd2.numVertices() != pd.numVertices() || pd2.numEdges() != pd.numEdges() || pd2.numStartVertices() != S.size() || pd2.numGoalVertices() != G.size()) FAIL("PlannerData store/load: %u/%u vertices, %u/%u edges, %u/%zu starts, %u/%zu goals", pd2.numVertices(), pd.numVertices(), pd2.numEdges(), pd.numEdges(), pd2.numStartVertices(), S.size(), pd2.numGoalVertices(), G.size());
            for (auto *s : st) si->freeState(s); } }
    }
    else if (which == "c09kf") {   // known-finding witness: a discrete component is not part of the vector of reals
        ob::DiscreteStateSpace d(0, 9); d.setup(); ob::State *s = d.allocState(), *t = d.allocState(); s->as<ob::DiscreteStateSpace::StateType>()->value = 7; t->as<ob::DiscreteStateSpace::StateType>()->value = 2;
        std::vector<double> r; d.copyToReals(r, s); d.copyFromReals(t, r); bool bad = !d.equalStates(s, t);
        printf("DiscreteStateSpace: copyToReals gives %zu reals; after copyFromReals the value is %d (original 7)\n", r.size(), t->as<ob::DiscreteStateSpace::StateType>()->value); return bad ? 1 : 0;
    }
    else if (which == "c02") {
        auto sp = std::make_shared<ob::RealVectorStateSpace>(1); sp->setBounds(-1000, 1000); auto cs = std::make_shared<oc::RealVectorControlSpace>(sp, 3);
        ob::RealVectorBounds cb(3); cb.setLow(0, -1); cb.setHigh(0, 5); cb.setLow(1, -2); cb.setHigh(1, 1); cb.setLow(2, 0); cb.setHigh(2, 0.5); cs->setBounds(cb);
        auto si = std::make_shared<oc::SpaceInformation>(sp, cs); static int badStep; 
        si->setStatePropagator([](const ob::State *s, const oc::Control *c, const double dt, ob::State *r) { r->as<ob::RealVectorStateSpace::StateType>()->values[0] = s->as<ob::RealVectorStateSpace::StateType>()->values[0] + (dt > 0 ? 1 : -1); });
        si->setStateValidityChecker([](const ob::State *s) { return (int)std::lround(std::fabs(s->as<ob::RealVectorStateSpace::StateType>()->values[0])) != badStep; });
        si->setPropagationStepSize(0.1); si->setMinMaxControlDuration(1, 6); si->setup();
        ob::State *s = si->allocState(), *r = si->allocState(); oc::Control *c = si->allocControl(); auto csm = cs->allocDefaultControlSampler();
        for (long it = 0; it < n; ++it) { int steps = (int)(g() % 13) - 6; badStep = 1 + g() % 8; s->as<ob::RealVectorStateSpace::StateType>()->values[0] = 0; csm->sample(c);
            for (int d = 0; d < 3; ++d) { double v = c->as<oc::RealVectorControlSpace::ControlType>()->values[d]; if (v < cb.low[d] || v > cb.high[d]) FAIL("sampled control coordinate %d = %g outside its bounds [%g,%g]", d, v, cb.low[d], cb.high[d]); }
            unsigned got = si->propagateWhileValid(s, c, steps, r); int nabs = std::abs(steps); int want = std::min(nabs, badStep - 1);
            if ((int)got != want) FAIL("propagateWhileValid(%d steps, first invalid at %d) returned %u, expected %d", steps, badStep, got, want);
            double x = r->as<ob::RealVectorStateSpace::StateType>()->values[0]; if (x != (steps >= 0 ? 1 : -1) * want) FAIL("propagateWhileValid result state is %g after %d reported steps", x, want);
            if (s->as<ob::RealVectorStateSpace::StateType>()->values[0] != 0) FAIL("propagateWhileValid modified the start state");
            oc::SimpleDirectedControlSampler dcs(si.get(), 1 + g() % 3); ob::State *dest = si->allocState(); dest->as<ob::RealVectorStateSpace::StateType>()->values[0] = 3; unsigned st = dcs.sampleTo(c, s, dest);
            if (dest->as<ob::RealVectorStateSpace::StateType>()->values[0] != (double)st) FAIL("SimpleDirectedControlSampler: returned %u steps but the state returned is %g steps from the source", st, dest->as<ob::RealVectorStateSpace::StateType>()->values[0]); si->freeState(dest); }
    }
    else if (which == "c20") {
        for (long it = 0; it < n / 50 + 1; ++it) { ompl::RNG a(1234 + it); std::vector<double> first; for (int i = 0; i < 7; ++i) first.push_back(i % 2 ? a.gaussian01() : a.uniform01()); double q[4]; a.quaternion(q);
            a.setLocalSeed(1234 + it); for (int i = 0; i < 7; ++i) { double v = i % 2 ? a.gaussian01() : a.uniform01(); if (v != first[i]) FAIL("RNG stream differs after setLocalSeed with the same seed (draw %d: %g vs %g)", i, v, first[i]); }
            ompl::RNG b(1234 + it); for (int i = 0; i < 7; ++i) { double v = i % 2 ? b.gaussian01() : b.uniform01(); if (v != first[i]) FAIL("two generators with the same local seed produce different streams"); } }
    }
    else return 2;
    printf(fails ? "misc_native %s: %d violations\n" : "misc_native %s: all held\n", which.c_str(), fails);
    return fails ? 1 : 0;
}
