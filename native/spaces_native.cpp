// Native oracle / replay driver for C06, C07, C08 on the REAL state spaces and samplers.
// usage: spaces_native so2seam | rvovershoot            known-finding witnesses (exit 1 = still reproduces)
//        spaces_native search <seed> <n> [c06|c07|c08]  random search for a violating input (exit 1 = found)
#include <ompl/base/SpaceInformation.h>
#include <ompl/base/spaces/SO2StateSpace.h>
#include <ompl/base/spaces/SO3StateSpace.h>
#include <ompl/base/spaces/SE2StateSpace.h>
#include <ompl/base/spaces/RealVectorStateSpace.h>
#include <ompl/base/spaces/TimeStateSpace.h>
#include <ompl/base/spaces/DiscreteStateSpace.h>
#include <ompl/base/samplers/UniformValidStateSampler.h>
#include <ompl/base/samplers/GaussianValidStateSampler.h>
#include <ompl/base/samplers/ObstacleBasedValidStateSampler.h>
#include <ompl/base/samplers/BridgeTestValidStateSampler.h>
#include <ompl/base/samplers/MaximizeClearanceValidStateSampler.h>
#include <ompl/base/samplers/MinimumClearanceValidStateSampler.h>
#include <cmath>
#include <cstdio>
#include <cstring>
#include <random>
namespace ob = ompl::base;
static int fails = 0;
#define FAIL(...) do { printf("VIOLATED: "); printf(__VA_ARGS__); printf("\n"); if (++fails > 3) return 1; } while (0)
struct Checker : ob::StateValidityChecker {
    int mode; Checker(const ob::SpaceInformationPtr &si, int m) : ob::StateValidityChecker(si), mode(m) {}
    double val(const ob::State *s) const { std::vector<double> r; si_->getStateSpace()->copyToReals(r, s); return r[0]; }
    bool isValid(const ob::State *s) const override { double v = val(s); return std::fmod(std::fabs(v) * 3.0, 2.0) < 1.2; }
    // clearance deliberately unsigned (distance to the boundary of the valid set): invalid states may report a larger clearance than valid ones
    double clearance(const ob::State *s) const override { double v = std::fmod(std::fabs(val(s)) * 3.0, 2.0); return mode ? std::fabs(v - 1.2) : (1.2 - v); }
};
static double rnd(std::mt19937_64 &g, double lo, double hi) { return std::uniform_real_distribution<double>(lo, hi)(g); }
int main(int argc, char **argv)
{
    ompl::msg::setLogLevel(ompl::msg::LOG_NONE);
    if (argc >= 2 && !strcmp(argv[1], "so2seam")) {
        ob::SO2StateSpace sp; auto *a = sp.allocState()->as<ob::SO2StateSpace::StateType>(), *b = sp.allocState()->as<ob::SO2StateSpace::StateType>();
        a->value = -M_PI; b->value = std::nextafter(M_PI, 0.0);
        bool bad = sp.distance(a, b) == 0.0 && !sp.equalStates(a, b);
        printf("SO2 distance(-pi, nextbelow(pi)) = %g, equalStates = %d -> %s\n", sp.distance(a, b), (int)sp.equalStates(a, b), bad ? "violates 'strictly positive between unequal states'" : "ok");
        return bad ? 1 : 0;
    }
    if (argc >= 2 && !strcmp(argv[1], "rvovershoot")) {
        ob::RealVectorStateSpace sp(1); double hi = std::nextafter(1234567.8901234567, 2e6); sp.setBounds(-3.3, hi);
        auto *a = sp.allocState()->as<ob::RealVectorStateSpace::StateType>(), *b = sp.allocState()->as<ob::RealVectorStateSpace::StateType>(), *c = sp.allocState()->as<ob::RealVectorStateSpace::StateType>();
        a->values[0] = 102399.12619053747; b->values[0] = hi; sp.interpolate(a, b, 1.0, c);
        bool bad = !sp.satisfiesBounds(c);
        printf("R^1 interpolate(%.17g, high=%.17g, 1) = %.17g, satisfiesBounds = %d\n", a->values[0], hi, c->values[0], (int)!bad);
        return bad ? 1 : 0;
    }
    if (argc < 4 || strcmp(argv[1], "search")) return 2;
    std::mt19937_64 g(atoi(argv[2])); long n = atol(argv[3]); const char *only = argc > 4 ? argv[4] : "";
    bool c06 = !*only || !strcmp(only, "c06"), c07 = !*only || !strcmp(only, "c07"), c08 = !*only || !strcmp(only, "c08");
    // ---- SO2
    ob::SO2StateSpace so2; auto so2s = so2.allocDefaultStateSampler();
    auto *a = so2.allocState()->as<ob::SO2StateSpace::StateType>(), *b = so2.allocState()->as<ob::SO2StateSpace::StateType>(), *c = so2.allocState()->as<ob::SO2StateSpace::StateType>();
    const double specials[] = {-M_PI, std::nextafter(-M_PI, 0.0), std::nextafter(M_PI, 0.0), 0.0, 3.0, -3.0, 1.0000000000000007, M_PI, 3 * M_PI, -3 * M_PI, 2 * M_PI, -2 * M_PI, 1e9, -1e9, 100.0};
    for (long i = 0; i < n; ++i) {
        double x = (i % 4 == 0) ? specials[g() % 15] : rnd(g, -20, 20);
        if (c08) {
            a->value = x; bool sat0 = so2.satisfiesBounds(a); so2.enforceBounds(a);
            if (sat0 && a->value != x) FAIL("SO2 enforceBounds changed the in-bounds state %.17g to %.17g", x, a->value);
            if (!so2.satisfiesBounds(a)) FAIL("SO2 enforceBounds(%.17g) = %.17g does not satisfy the bounds", x, a->value);
            double y = a->value; so2.enforceBounds(a); if (a->value != y) FAIL("SO2 enforceBounds not idempotent at %.17g", x);
            so2s->sampleUniform(a); if (!so2.satisfiesBounds(a)) FAIL("SO2 sampleUniform out of bounds");
            b->value = std::fmod(x, M_PI); so2s->sampleUniformNear(a, b, std::fabs(rnd(g, 0, 10))); if (!so2.satisfiesBounds(a)) FAIL("SO2 sampleUniformNear out of bounds (%.17g)", a->value);
            so2s->sampleGaussian(a, b, std::fabs(rnd(g, 0, 10))); if (!so2.satisfiesBounds(a)) FAIL("SO2 sampleGaussian out of bounds (%.17g)", a->value);
        }
        a->value = (i % 3 == 0) ? specials[g() % 6] : rnd(g, -M_PI, M_PI); b->value = (i % 5 == 0) ? specials[g() % 6] : rnd(g, -M_PI, M_PI);
        if (!so2.satisfiesBounds(a) || !so2.satisfiesBounds(b)) continue;
        if (c06) {
            double d = so2.distance(a, b);
            if (!(d >= 0) || so2.distance(a, a) != 0 || d != so2.distance(b, a) || d > so2.getMaximumExtent()) FAIL("SO2 distance laws at (%.17g, %.17g): d=%.17g", a->value, b->value, d);
            if (!so2.equalStates(a, b) && !(d > 0) && !(std::fabs(a->value - b->value) > 6.2831853071795853)) FAIL("SO2 distance 0 between unequal states (%.17g, %.17g) outside the known seam zone", a->value, b->value);
        }
        if (c07) {
            double t = (i % 4 == 0) ? 1.0 : (i % 4 == 1 ? 0.0 : rnd(g, 0, 1)); so2.interpolate(a, b, t, c);
            if (!so2.satisfiesBounds(c)) FAIL("SO2 interpolate(%.17g, %.17g, %.17g) = %.17g out of bounds", a->value, b->value, t, c->value);
            if (t == 0.0 && c->value != a->value) FAIL("SO2 interpolate at t=0 is not the first state");
            double want = c->value, av = a->value; so2.interpolate(a, b, t, a); if (a->value != want) FAIL("SO2 interpolate differs when the output aliases 'from'"); a->value = av;
            double bv = b->value; so2.interpolate(a, b, t, b); if (b->value != want) FAIL("SO2 interpolate differs when the output aliases 'to'"); b->value = bv;
        }
    }
    // ---- RealVector(3), Time, Discrete, SE2 (compound) : bounds, samplers, interpolation endpoints
    auto rv = std::make_shared<ob::RealVectorStateSpace>(3); ob::RealVectorBounds bd(3); bd.setLow(0, -1); bd.setHigh(0, 2); bd.setLow(1, 5); bd.setHigh(1, 5.5); bd.setLow(2, -100); bd.setHigh(2, -99); rv->setBounds(bd);
    auto tm = std::make_shared<ob::TimeStateSpace>(); tm->setBounds(-2.5, 7.0);
    auto dc = std::make_shared<ob::DiscreteStateSpace>(-3, 9);
    auto se2 = std::make_shared<ob::SE2StateSpace>(); ob::RealVectorBounds b2(2); b2.setLow(-1); b2.setHigh(1); se2->setBounds(b2);
    auto cp = std::make_shared<ob::CompoundStateSpace>(); cp->addSubspace(rv, 1.0); cp->addSubspace(std::make_shared<ob::SO2StateSpace>(), 0.0); cp->addSubspace(dc, 0.5); cp->lock();
    std::vector<ob::StateSpacePtr> spaces = {rv, tm, dc, se2, cp};
    for (auto &sp : spaces) {
        sp->setup(); auto smp = sp->allocDefaultStateSampler(); ob::State *s = sp->allocState(), *s2 = sp->allocState(), *s3 = sp->allocState();
        for (long i = 0; i < n / 4 + 1; ++i) {
            if (c08) {
                smp->sampleUniform(s); if (!sp->satisfiesBounds(s)) FAIL("%s sampleUniform out of bounds", sp->getName().c_str());
                { std::vector<double> junk; sp->copyToReals(junk, s); for (auto &v : junk) v = 1e6; sp->copyFromReals(s2, junk); }   // stale out-of-bounds content in the output
                smp->sampleUniformNear(s2, s, rnd(g, 0, 3)); if (!sp->satisfiesBounds(s2)) FAIL("%s sampleUniformNear out of bounds", sp->getName().c_str());
                smp->sampleGaussian(s2, s, rnd(g, 0, 3)); if (!sp->satisfiesBounds(s2)) FAIL("%s sampleGaussian out of bounds", sp->getName().c_str());
                // push out of bounds, then enforce
                std::vector<double> r; sp->copyToReals(r, s); std::vector<double> r0 = r; for (auto &v : r) if (g() % 2) v += rnd(g, -50, 50); sp->copyFromReals(s3, r);
                sp->enforceBounds(s3); if (!sp->satisfiesBounds(s3)) FAIL("%s enforceBounds result out of bounds", sp->getName().c_str());
                sp->copyState(s2, s3); sp->enforceBounds(s3); if (!sp->equalStates(s2, s3)) FAIL("%s enforceBounds not idempotent", sp->getName().c_str());
                sp->copyState(s2, s); sp->enforceBounds(s2); std::vector<double> r1; sp->copyToReals(r1, s2); if (r1 != r0) FAIL("%s enforceBounds changed an in-bounds state", sp->getName().c_str());
            }
            smp->sampleUniform(s); smp->sampleUniform(s2);
            if (c06) { double d = sp->distance(s, s2); if (!(d >= 0) || sp->distance(s, s) != 0 || (sp->hasSymmetricDistance() && std::fabs(d - sp->distance(s2, s)) > 1e-12) || d > sp->getMaximumExtent() + 1e-9) FAIL("%s distance laws", sp->getName().c_str());
                       if (!sp->equalStates(s, s2) && !(d > 0)) FAIL("%s distance 0 between unequal states", sp->getName().c_str()); }
            if (c07) { sp->interpolate(s, s2, 0.0, s3); if (!sp->equalStates(s, s3)) FAIL("%s interpolate at t=0 is not the first state", sp->getName().c_str());
                       double t = rnd(g, 0, 1); sp->interpolate(s, s2, t, s3); if (!sp->satisfiesBounds(s3)) FAIL("%s interpolate out of bounds at t=%g", sp->getName().c_str(), t);
                       ob::State *al = sp->cloneState(s); sp->interpolate(al, s2, t, al); if (!sp->equalStates(al, s3)) FAIL("%s interpolate differs when output aliases 'from'", sp->getName().c_str()); sp->freeState(al); }
        }
    }
    // ---- SO3: normalisation
    if (c08) { ob::SO3StateSpace so3; auto *q = so3.allocState()->as<ob::SO3StateSpace::StateType>();
        for (long i = 0; i < n / 4 + 1; ++i) {
            double sc = (i % 3 == 0) ? rnd(g, 0.999999, 1.000001) : rnd(g, 0.05, 4.0);
            q->x = rnd(g, -1, 1); q->y = rnd(g, -1, 1); q->z = rnd(g, -1, 1); q->w = rnd(g, -1, 1); double nn = std::sqrt(q->x * q->x + q->y * q->y + q->z * q->z + q->w * q->w); if (nn < 1e-3) continue;
            q->x *= sc / nn; q->y *= sc / nn; q->z *= sc / nn; q->w *= sc / nn;
            so3.enforceBounds(q); if (!so3.satisfiesBounds(q)) FAIL("SO3 enforceBounds of a quaternion of norm %.9g does not satisfy the bounds", sc);
            double x = q->x, y = q->y, z = q->z, w = q->w; so3.enforceBounds(q); if (std::fabs(q->x - x) + std::fabs(q->y - y) + std::fabs(q->z - z) + std::fabs(q->w - w) > 1e-12) FAIL("SO3 enforceBounds not idempotent (norm %.9g)", sc);
        } }
    // ---- valid-state samplers on R^1: success => valid and in bounds
    if (c08) for (int mode = 0; mode < 2; ++mode) {
        auto r1 = std::make_shared<ob::RealVectorStateSpace>(1); r1->setBounds(-4, 4);
        auto si = std::make_shared<ob::SpaceInformation>(r1); si->setStateValidityChecker(std::make_shared<Checker>(si, mode)); si->setup();
        std::vector<ob::ValidStateSamplerPtr> vs = {std::make_shared<ob::UniformValidStateSampler>(si.get()), std::make_shared<ob::GaussianValidStateSampler>(si.get()),
            std::make_shared<ob::ObstacleBasedValidStateSampler>(si.get()), std::make_shared<ob::BridgeTestValidStateSampler>(si.get()),
            std::make_shared<ob::MaximizeClearanceValidStateSampler>(si.get()), std::make_shared<ob::MinimumClearanceValidStateSampler>(si.get())};
        ob::State *s = si->allocState(), *nr = si->allocState(); nr->as<ob::RealVectorStateSpace::StateType>()->values[0] = 0.3;
        for (auto &v : vs) for (long i = 0; i < n / 8 + 1; ++i) {
            if (v->sample(s) && (!si->isValid(s) || !si->satisfiesBounds(s))) FAIL("%s::sample reported success for a state that is %s", v->getName().c_str(), si->isValid(s) ? "out of bounds" : "invalid");
            if (v->sampleNear(s, nr, 1.0) && (!si->isValid(s) || !si->satisfiesBounds(s))) FAIL("%s::sampleNear reported success for an invalid / out-of-bounds state", v->getName().c_str());
        }
    }
    printf(fails ? "spaces_native: %d violations\n" : "spaces_native: all held\n", fails);
    return fails ? 1 : 0;
}
