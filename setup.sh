#!/bin/sh
# Offline setup: nothing to fetch. Verifies tools; builds libompl.so once if it is missing
# (native replay drivers for .cpp units link it; the unit's own .cpp is recompiled from the
# working tree on every run and pre-empts the library's copy).
set -e
for t in cbmc goto-cc goto-instrument cvc5 kissat g++ python3; do
  command -v $t >/dev/null || { echo "missing tool: $t"; exit 1; }
done
if [ ! -e /repo/_build/src/ompl/libompl.so ]; then
  [ -d /repo/_build ] || cmake -G Ninja -S /repo -B /repo/_build -DCMAKE_BUILD_TYPE=RelWithDebInfo >/dev/null
  cmake --build /repo/_build --target ompl -j16
fi
mkdir -p /verif/evidence /verif/replays
echo setup ok
