#!/bin/bash
# usage: confirm_mutant.sh <mutant-dir containing patch.diff and demo.cpp> [extra g++ flags for the demo]
# Confirms, in the scratch worktree /tmp/mut/confirm (created and fully built on first use):
#   patch applies, library+tests build, ctest passes, demo exits 0 on the clean tree (/repo) and !=0 with the patch.
# Writes <dir>/confirm.log and prints one summary line.
D=$(readlink -f "$1"); shift; XF="$@"
WT=/tmp/mut/confirm
LOG=$D/confirm.log; : > $LOG
if [ ! -d $WT ]; then
  git -C /repo worktree add -q --detach $WT HEAD >>$LOG 2>&1 || exit 3
fi
cd $WT && git checkout -q --detach $(git -C /repo rev-parse HEAD) >>$LOG 2>&1 && git checkout -- . 
if [ ! -d $WT/_build ]; then
  cmake -G Ninja -S $WT -B $WT/_build -DCMAKE_BUILD_TYPE=RelWithDebInfo -DOMPL_BUILD_DEMOS=OFF -DOMPL_BUILD_PYBINDINGS=OFF >>$LOG 2>&1
fi
git apply $D/patch.diff >>$LOG 2>&1 || { echo "CONFIRM $D: patch does not apply"; exit 3; }
cmake --build $WT/_build -j6 >>$LOG 2>&1 || { echo "CONFIRM $D: build failed"; git checkout -- .; exit 3; }
ctest --test-dir $WT/_build -j6 --timeout 900 >$D/confirm_ctest.log 2>&1
CT=$(grep -E "tests passed|tests failed" $D/confirm_ctest.log | tail -1)
LIBS="-lboost_serialization -lboost_filesystem -lboost_system -lboost_program_options -lpthread"
g++ -std=c++17 -O1 -w $XF -I$WT/src -I$WT/_build/src -isystem /usr/include/eigen3 $D/demo.cpp -L$WT/_build/src/ompl -lompl -Wl,-rpath,$WT/_build/src/ompl $LIBS -o /tmp/mut/demo_with >>$LOG 2>&1
timeout 600 /tmp/mut/demo_with >$D/confirm_demo_with.out 2>&1; RW=$?
g++ -std=c++17 -O1 -w $XF -I/repo/src -I/repo/_build/src -isystem /usr/include/eigen3 $D/demo.cpp -L/repo/_build/src/ompl -lompl -Wl,-rpath,/repo/_build/src/ompl $LIBS -o /tmp/mut/demo_without >>$LOG 2>&1
timeout 600 /tmp/mut/demo_without >$D/confirm_demo_without.out 2>&1; RO=$?
git checkout -- .
rm -f /tmp/mut/demo_with /tmp/mut/demo_without
echo "CONFIRM $D: ctest[$CT] demo_without=$RO demo_with=$RW" | tee -a $LOG
