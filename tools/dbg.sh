#!/bin/bash
# usage: dbg.sh <unit scratch dir> <property> : prints a compact view of the counterexample trace
D=$1; P=$2
F="--bounds-check --pointer-check --signed-overflow-check --conversion-check --div-by-zero-check --no-malloc-may-fail --object-bits 12"
timeout 400 cbmc $D/b_b.gb $F --sat-solver cadical --property $P --trace 2>/dev/null > /var/tmp/dbg_trace.txt
grep -n "Violated property" -A4 /var/tmp/dbg_trace.txt | head -7 | cut -c1-400
grep -E "^  [A-Za-z_]+[A-Za-z_0-9]*=" /var/tmp/dbg_trace.txt | grep -v "__\|wrapper\|car\.\|set\b" | awk -F'[= ]' '{print $3"="$4}' | tail -60 | tr '\n' ' '; echo
for a in ${3:-M_state M_parent in_tree}; do echo "-- $a"; grep -E "^  $a\[[0-9]+l\]=" /var/tmp/dbg_trace.txt | awk -F'[= ]' '{v[$3]=$4} END{for(k in v) print k"="v[k]}' | sort -V | tr '\n' ' '; echo; done
