#!/usr/bin/env python3
"""Regenerates MANIFEST.json from the table below (kept here so the file stays valid and consistent)."""
import json, os
V = "/verif"
props = [json.loads(l) for l in open(V + "/properties.jsonl")]
TRUST = "Trusted: the regex extraction C++->C (rewrite tables in units/<id>.py, must-fire rules, deny-list), the stub contracts / harness code in units/<id>/, CBMC 6.11 and its back ends. "
CLAIMED = {
 "C05": dict(level="proof", tech="CBMC code contracts (DFCC) on extracted bodies, loop contracts, ghost-index Skolemisation, queue abstraction",
   text="Contracts on the real bodies of all ten motion-check functions (DiscreteMotionValidator, Dubins/ReedsShepp/Dubins3D validators, SpaceInformation::checkMotion on state vectors), extracted to C on every run: postconditions taken from the property statement (verdict iff all subdivision points valid, last-valid fraction/state, untouched storage on success, exactly one counter) are discharged with loop contracts for every segment count up to 1e9 (quick: bisection forms up to 2^20) and an arbitrary ghost index, i.e. unbounded in the number of subdivision points. A native exhaustive run on the real classes (all counts <= 14/40) is the replay oracle.",
   note=TRUST + "s1 assumed valid; IEEE facts about (double)a/(double)b; std::queue replaced by a ghost-counter multiset abstraction; cached-curve interpolate of Dubins/RS treated as interpolate; StateSpace::validSegmentCount's own arithmetic not covered."),
 "C18": dict(level="proof", tech="CBMC code contracts (DFCC) and loop-free full-domain CBMC harnesses on extracted bodies",
   text="Every termination-condition function is loop-free, so each check is a complete proof over the full bit-vector domain of its inputs: PlannerTerminationConditionImpl::eval/terminate (sticky terminate, predicate evaluated exactly once in the direct form, cached value in the periodic form), the or/and/always/never/timed/exact-solution factories (lambda bodies extracted, evaluated twice in sequence against a monotone clock / a changing problem definition), IterationTerminationCondition::eval/reset (false for evaluations 1..n, true afterwards) and CostConvergenceTerminationCondition::processNewSolution (fires exactly when the window is full and the new average lies strictly inside the band computed from the pre-state average).",
   note=TRUST + "Floating-point * and / in processNewSolution are trusted external operations (recorded in ghost slots); fewer than 2^32-1 evaluations of the iteration condition; the periodic evaluation thread itself (lag <= one period) is concurrency and not covered."),
 "C04": dict(level="proof", tech="loop-free full-domain CBMC harnesses + DFCC loop contract (cost fold) on extracted bodies; bounded CBMC for the solution set",
   text="Reduced scope: the ranking and cost-algebra layer every planner funnels through. Proved for all non-NaN inputs: PlannerSolution::operator< is a strict weak order and realises the ranking of the property text (exact before approximate, smaller difference, objective-satisfying first, better cost); OptimizationObjective::isCostBetterThan/isCostEquivalentTo/betterCost/isSatisfied/isFinite/combineCosts (+ MaximizeMinClearance and Minimax overrides) including 'meets the objective exactly when better than the threshold'; PathGeometric::cost is the left fold initial/motion/terminal (unbounded, loop contract, ghost index). Bounded (<= 4/6 solutions): PlannerSolutionSet::add/getTopSolution/isApproximate/isOptimized/getDifference hand out the best-ranked solution first.",
   note=TRUST + "NOT covered: that each optimizing planner's stored cost is >= the true path cost and >= the admissible bound, and monotonicity across solve() calls (planner solve() bodies are not under contract). std::sort modelled by insertion sort over the extracted comparator."),
 "C13": dict(level="model_checking", tech="bounded CBMC (SAT) on extracted bodies over every grid state of a small window; abstract heaps from the C11 contract",
   text="Grid::neighbors/add/remove, GridN::createCell/remove/numberOfBoundaryDimensions, GridB::createCell/add/remove/update/updateAll/topInternal/topExternal/count* and Grid::components (all extracted on every run) are checked over EVERY grid state inside a 3x3 window (thorough: also 1-D and 3-D windows): every subset of cells present, every neighbour limit and bounds configuration, every argument. Whole-view postconditions: lookups find exactly the present cells, neighbour lists are exactly the present +-1 cells, counts and border flags match the actual neighbours and bounds (also after create-then-abandon), every cell sits in exactly one queue with a valid handle and no stale priority, tops are the best cell of their class with the documented fallback, components partition the cells according to the neighbour relation (all occupancy patterns enumerated). Bounded stand-in, not proof.",
   note=TRUST + "unordered_map behind an assumed finite-map contract (direct table), Eigen vectors as int arrays, the two BinaryHeaps behind the abstract view proved in C11 (handle validity asserted as precondition at every use)."),
 "C11": dict(level="proof", tech="CBMC code contracts (DFCC + cvc5) for the sift loops, bounded CBMC (SAT) for whole-structure operations",
   text="Unbounded (loop-contract) proofs of BinaryHeap::percolateUp and percolateDown for every heap of up to 65535/32767 elements: heap order at an arbitrary ghost slot and handle integrity for an arbitrary ghost element, discharged one obligation per cvc5 process. Every public operation (insert, bulk insert, remove, pop, update, rebuild, buildFrom, sort, clear, top, getContent) is additionally verified, with callees inlined, for ALL heaps of up to N elements (N=15; build/sort N=6-7; thorough 31/15) with fully symbolic contents against whole-view postconditions (order, handles, size = live elements, multiset change, events). The bounded units are labelled bounded in the evidence and are not counted as proof; the level 'proof' refers to the two sift units.",
   note=TRUST + "Strict-weak-order comparator (8-bit rank keys are then WLOG); 16-bit element references in the unbounded units; callers are not yet verified against the sift contracts (bounded only); narrowing conversions treated as two's complement."),
 "C12": dict(level="model_checking", tech="bounded CBMC (SAT) on extracted bodies, one concrete size per process, exact-integer weights",
   text="Every method of PDF.h (extracted on every run) is checked for every structure of exactly n elements, n = 0..16 (thorough 0..32), with fully symbolic weights and arguments: sum-tree invariant, whole-view postconditions for add/update/remove (last element moves into the removed slot), the selection rule of sample() (returned element's cumulative interval contains r*total; zero weight never drawn for 0<r<1), handles, size, and every tree_/data_ index within the current extent. Bounded stand-in (not proof): the loops are closed by unwinding, sizes are enumerated.",
   note=TRUST + "Weights are exact integers (machine arithmetic treated as mathematical: rounding drift undecided); r*total is any exact value in [0,total]."),
}
NA = {
 "C14": "Dubins/Reeds-Shepp optimality and curve fidelity are identities between compositions of sin/cos/atan2/acos/sqrt/fmod in double precision; CBMC cannot decide a single double multiplication claim here and abstracting the trigonometry by contracts leaves nothing of the property (DESIGN.md section 7). The motion validators of these spaces are covered under C05.",
 "C15": "Informed sampling: Eigen linear algebra, transcendental volume formulas and a distributional (uniformity) claim; no function contract over machine values can state them (DESIGN.md section 7).",
 "C19": "Thread safety / schedule independence: CBMC code contracts (DFCC) are sequential, with no notion of interleavings or happens-before; bounded concurrency model checking would be a different technique family (DESIGN.md section 7).",
}
NOT_YET = "contract units for this property are not built yet in this session (planned: DESIGN.md section 5); not claimed until they are"
m = dict(version=1, setup_cmd="./setup.sh",
  hooks=dict(guard="OMPL_VERIF", enable="no hooks: the extractor reads /repo sources directly; native drivers use '#define private public' around ompl includes (no repository change)",
             baseline_off_cmd="ctest --test-dir /repo/_build -j8 --timeout 900", source_commits=[], add_only=True),
  engines=[dict(name="vf", path="/verif/vf", serves_properties=sorted(CLAIMED),
                kind_free_text="mechanical C++->C extraction of the real function bodies on every run + CBMC 6.11 code contracts (goto-cc / goto-instrument --dfcc / cbmc; minisat, cadical, kissat, cvc5) + native replay drivers against the real classes")],
  checks=[], not_applicable=[], notes="Technique family: contract-based deductive verification of the real code (CBMC DFCC). See DESIGN.md. Exit 2 = undecided (tooling/extraction drift/solver), never reported as a violation.")
for p in props:
    i = p["id"]
    if i in CLAIMED:
        c = CLAIMED[i]
        m["checks"].append(dict(property_id=i, quick_cmd="./check %s --tier quick" % i, thorough_cmd="./check %s --tier thorough" % i,
            evidence_file="/verif/evidence/%s.json" % i, replay_cmd_template="./check --replay {path}", engine="vf",
            level_claimed=dict(category=c["level"], text=c["text"], design_ref="DESIGN.md section 5 (%s)" % i),
            level_note=c["note"], technique=c["tech"]))
    else:
        m["not_applicable"].append(dict(property_id=i, reason=NA.get(i, NOT_YET)))
json.dump(m, open(V + "/MANIFEST.json", "w"), indent=1)
print("claimed:", sorted(CLAIMED), "not applicable:", [x["property_id"] for x in m["not_applicable"]])
