#!/usr/bin/env python3
"""tools/mkprompt.py <PID> <n>: writes /tmp/mut/prompt_<PID>.txt (property text only; nothing from /verif)"""
import json, sys
props={json.loads(l)['id']:json.loads(l) for l in open('/verif/properties.jsonl')}
T=open('/verif/tools/mutant_prompt.txt').read()
pid=sys.argv[1]; n=sys.argv[2]; p=props[pid]
open('/tmp/mut/prompt_%s.txt'%pid,'w').write(T.format(n=n,wt='/tmp/mut/'+pid,pid=pid,title=p['title'],stmt=p['statement'],files=', '.join(p['anchors']['files'])))
