#!/usr/bin/env python3
"""tools/mkprompt2.py <PID> <n> <first-number>: round-2 prompt /tmp/mut/prompt_<PID>.txt -- property text plus one-line
descriptions of the changes earlier seeders produced (so that new ones differ); nothing about the checks in /verif."""
import json, sys, glob, os, re
props = {json.loads(l)['id']: json.loads(l) for l in open('/verif/properties.jsonl')}
T = open('/verif/tools/mutant_prompt.txt').read()
pid, n, first = sys.argv[1], sys.argv[2], int(sys.argv[3])
p = props[pid]
prev = []
for d in sorted(glob.glob('/verif/seeded/%s-m*' % pid)):
    m = json.load(open(d + '/meta.json'))
    first_line = m['needs_to_manifest'].strip().split('\n')[0][:200]
    prev.append("  - %s (%s)" % (first_line, ', '.join(os.path.basename(f) for f in m['files_touched'])))
txt = T.format(n=n, wt='/tmp/mut/' + pid, pid=pid, title=p['title'], stmt=p['statement'], files=', '.join(p['anchors']['files']))
txt = txt.replace('-j6', '-j4')
txt = txt.replace("(call them m1, m2, ...)", "(call them m%d, m%d, ...)" % (first, first + 1))
extra = ("\n\nEarlier seeders already delivered the changes below. Yours must be DIFFERENT: other functions, and preferably other files "
         "of the anchor list above (callers/users of the structure count as much as the structure itself), other clauses of the property:\n"
         + '\n'.join(prev) + "\n")
txt = txt.replace("\n\nPracticalities:", extra + "\nPracticalities:")
open('/tmp/mut/prompt_%s.txt' % pid, 'w').write(txt)
print(len(txt))
