#!/bin/bash
# runs every claimed check once (quick tier) in /verif against /repo, sequentially; summary in /var/tmp/run_all.log
cd /verif
for id in $(python3 -c "import json; print(' '.join(c['property_id'] for c in json.load(open('MANIFEST.json'))['checks']))"); do
  s=$(date +%s); ./check $id --tier quick > /var/tmp/run_all_$id.log 2>&1; rc=$?; e=$(date +%s)
  echo "$id rc=$rc $((e-s))s $(grep -c ' ok ' /var/tmp/run_all_$id.log) units ok; $(grep -E 'VIOLATION|UNDECIDED|KNOWN-FINDING' /var/tmp/run_all_$id.log | cut -c1-160 | tr '\n' '|')"
done
