#!/bin/bash
# usage: run_all.sh [tier] [ids...]   runs the claimed checks once in /verif against /repo, sequentially; one summary line per check on stdout
cd /verif
T=${1:-quick}; shift
IDS="$@"; [ -z "$IDS" ] && IDS=$(python3 -c "import json; print(' '.join(c['property_id'] for c in json.load(open('MANIFEST.json'))['checks']))")
for id in $IDS; do
  s=$(date +%s); ./check $id --tier $T > /var/tmp/run_all_${T}_$id.log 2>&1; rc=$?; e=$(date +%s)
  echo "$id rc=$rc $((e-s))s $(grep -c ' ok ' /var/tmp/run_all_${T}_$id.log) units ok; $(grep -E 'VIOLATION|UNDECIDED|KNOWN-FINDING' /var/tmp/run_all_${T}_$id.log | cut -c1-160 | tr '\n' '|')"
done
