#!/bin/bash
# usage: run_all.sh [tier] [ids...]   runs the claimed checks once in /verif against /repo, sequentially; one summary line per check on stdout
cd "$(dirname "$0")/.." || exit 2   # the tree this script belongs to (a vp-run snapshot, or /verif)
L=${VERIF_LOGDIR:-/var/tmp}
T=${1:-quick}; shift
IDS="$@"; [ -z "$IDS" ] && IDS=$(python3 -c "import json; print(' '.join(c['property_id'] for c in json.load(open('MANIFEST.json'))['checks']))")
for id in $IDS; do
  s=$(date +%s); ./check $id --tier $T > $L/run_all_${T}_$id.log 2>&1; rc=$?; e=$(date +%s)
  echo "$id rc=$rc $((e-s))s $(grep -c ' ok ' $L/run_all_${T}_$id.log) units ok; $(grep -E 'VIOLATION|UNDECIDED|KNOWN-FINDING' $L/run_all_${T}_$id.log | cut -c1-160 | tr '\n' '|')"
done
