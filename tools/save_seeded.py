#!/usr/bin/env python3
"""Copies a confirmed seeded change from /tmp/mut/<P>-out/<mK> to /verif/seeded/<P>-<mK>/ with meta.json.
usage: save_seeded.py <P> <mK> <breaks-property> <check-exit> "<caught by / missed because>" """
import json, os, re, shutil, sys
P, M, prop, rc, caught = sys.argv[1:6]
src = "/tmp/mut/%s-out/%s" % (P, M)
dst = "/verif/seeded/%s-%s" % (P, M)
os.makedirs(dst, exist_ok=True)
for f in ("patch.diff", "demo.cpp", "README.txt"):
    if os.path.exists(os.path.join(src, f)):
        shutil.copy(os.path.join(src, f), dst)
readme = open(os.path.join(src, "README.txt")).read() if os.path.exists(os.path.join(src, "README.txt")) else ""
conf = ""
if os.path.exists(os.path.join(src, "confirm.log")):
    conf = [l for l in open(os.path.join(src, "confirm.log")) if l.startswith("CONFIRM")][-1:]
    conf = conf[0].strip() if conf else ""
files = re.findall(r"^\+\+\+ b/(\S+)", open(os.path.join(src, "patch.diff")).read(), re.M)
meta = dict(id="%s-%s" % (P, M), breaks_property=prop, files_touched=files,
            needs_to_manifest=readme.strip()[:1500],
            confirmed_by_me=conf or "not re-confirmed",
            what_i_ran=["tools/confirm_mutant.sh %s  (scratch worktree /tmp/mut/confirm: git apply, cmake --build, ctest -j6, demo against patched and clean library)" % src,
                        "tools/try_mutant.sh %s %s/patch.diff  (check run against a scratch worktree with the patch applied)" % (prop, dst)],
            check_exit_code=int(rc), detection=caught)
json.dump(meta, open(os.path.join(dst, "meta.json"), "w"), indent=1)
print("saved", dst)
