#!/bin/sh
# usage: try_mutant.sh <PROPERTY> <patch.diff> [tier]   -- applies the patch to /repo, runs the check, reverts.
P=$1; D=$2; T=${3:-quick}
cd /repo || exit 3
git diff --quiet || { echo "repo not clean"; exit 3; }
git apply "$D" || { echo "patch does not apply"; exit 3; }
cd /verif && ./check $P --tier $T; rc=$?
git -C /repo checkout -- .
echo "try_mutant: $D -> exit $rc"
exit $rc
