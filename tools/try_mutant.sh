#!/bin/sh
# usage: try_mutant.sh <PROPERTY> <patch.diff> [tier]
# Applies the patch to a scratch worktree of /repo (VERIF_REPO), runs the check there, removes the change.
# (Equivalent to: git -C /repo apply; ./check; git -C /repo checkout -- .  -- but does not disturb /repo.)
P=$1; D=$2; T=${3:-quick}
WT=/tmp/mut/apply.$$
git -C /repo worktree add -q --detach $WT HEAD || exit 3
ln -s /repo/_build $WT/_build
cd $WT && git apply "$D" || { echo "patch does not apply"; git -C /repo worktree remove --force $WT; exit 3; }
cd /verif && VERIF_REPO=$WT VERIF_NO_EVIDENCE=1 ./check $P --tier $T; rc=$?
git -C /repo worktree remove --force $WT
echo "try_mutant: $D -> exit $rc"
exit $rc
