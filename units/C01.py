"""C01 -- geometric planners only report solution paths that are real (reduced scope: the shared reporting/filter layer)."""
import importlib.util, os, re, sys
_REENTRANT = bool(sys.modules.get("_c01_loading"))      # C03 and C04 import this module and this module borrows units from them: nested loads borrow nothing
sys.modules["_c01_loading"] = True
_s = importlib.util.spec_from_file_location("c17", os.path.join(os.path.dirname(__file__), "C17.py")); C17 = importlib.util.module_from_spec(_s); _s.loader.exec_module(C17)
PROPERTY = "C01"
LEVEL = "proof"
PL = "src/ompl/base/src/Planner.cpp"
PSH = "src/ompl/base/PlannerStatus.h"
GR = "src/ompl/base/goals/src/GoalRegion.cpp"
FLAGS = C17.FLAGS
SRC = [
    dict(name="ps_ctor", file=PSH, begin=r"PlannerStatus\(bool hasSolution, bool isApproximate\)\s*:\s*status_\(", end=r"\)\s*\{\s*\}", wrap_braces=False, loops={},
         rules=[(r"PlannerStatus\(bool hasSolution, bool isApproximate\)\s*:\s*status_\(", "status_ = (", 0), (r"$", ");", 0)]),
    dict(name="ps_bool", file=PSH, sig=r"operator bool\(\) const", rules=[], loops={}),
    dict(name="nextStart", file=PL, sig=r"const ompl::base::State \*ompl::base::PlannerInputStates::nextStart\(\)",
         rules=[(r"if \(pdef_ == nullptr \|\| si_ == nullptr\)\s*\{.*?\n    \}", "", 0, re.S),
                (r"pdef_->getStartStateCount\(\)", "START_COUNT", 0), (r"const base::State \*st = pdef_->getStartState\(addedStartStates_\);", "int st = (int)addedStartStates_;", 0),
                (r"si_->satisfiesBounds\(st\)", "satisfiesBoundsIdx((unsigned)st)", 0), (r"si_->isValid\(st\)", "isValidIdx((unsigned)st)", 0),
                (r"std::stringstream ss;\s*si_->printState\(st, ss\);", "", 0), (r"return nullptr;", "return -1;", 0)],
         loops={1: """
__CPROVER_assigns(addedStartStates_, boundsCheckedG, validCheckedG)
__CPROVER_loop_invariant(OLD_IDX <= addedStartStates_ && addedStartStates_ <= START_COUNT)
__CPROVER_loop_invariant((G >= OLD_IDX && G < addedStartStates_) ? (boundsCheckedG && !(BG && VG)) : (!boundsCheckedG && !validCheckedG))
__CPROVER_decreases(START_COUNT - addedStartStates_)
"""}),
    dict(name="restart", file=PL, sig=r"void ompl::base::PlannerInputStates::restart\(\)", rules=[], loops={}),
    dict(name="clear", file=PL, sig=r"void ompl::base::PlannerInputStates::clear\(\)", loops={},
         rules=[(r"tempState_ != nullptr", "tempState_ != 0", 0), (r"si_->freeState\(tempState_\);", "freeStateT(tempState_);", 0), (r"tempState_ = nullptr;", "tempState_ = 0;", 0),
                (r"pdef_\.reset\(\);", "pdef_set = 0;", 0), (r"si_ = nullptr;", "si_set = 0;", 0)]),
    dict(name="isSatisfied", file=GR, sig=r"bool ompl::base::GoalRegion::isSatisfied\(const State \*st, double \*distance\) const", loops={},
         rules=[(r"distanceGoal\(st\)", "distanceGoal()", 0), (r"distance != nullptr", "distance != NULL", 0)]),
]
STUBS = ["satisfiesBoundsIdx", "isValidIdx", "freeStateT", "distanceGoal"]


def U(name, entry, enforce, fn, can=(), mode="dfcc", expect_loops=None):
    d = dict(name=name, template="C01/inputs.c", entry=entry, sources=SRC, flags=FLAGS, level="proof", functions=[fn], canaries=list(can), backend="minisat", confirm=dict(unwind=6, defines={}))
    if mode == "plain":
        d.update(mode="plain", flags=[f for f in FLAGS if not f.startswith("--no-malloc") and f not in ("--object-bits", "12")])
    else:
        d.update(enforce=[enforce], replace=STUBS)
    if expect_loops is not None:
        d["expect_loops"] = expect_loops
    return d


UNITS = [
    U("c01_planner_status", "h_status", None, "ompl::base::PlannerStatus::PlannerStatus(bool,bool), operator bool", mode="plain",
      can=[dict(name="approximate_is_not_a_solution", where="body:ps_bool", rx=r"status_ == APPROXIMATE_SOLUTION \|\| ", repl="")]),
    U("c01_inputstates_nextStart", "h_nextStart", "pis_nextStart", "ompl::base::PlannerInputStates::nextStart", expect_loops=1,
      can=[dict(name="bounds_only", where="body:nextStart", rx=r"if \(bounds && valid\)", repl="if (bounds)")]),
    U("c01_inputstates_restart", "h_restart", "pis_restart", "ompl::base::PlannerInputStates::restart", expect_loops=0),
    U("c01_inputstates_clear", "h_clear", "pis_clear", "ompl::base::PlannerInputStates::clear", expect_loops=0,
      can=[dict(name="keeps_start_cursor", where="body:clear", rx=r"addedStartStates_ = 0;", repl="")]),
    U("c01_goalregion_isSatisfied", "h_goal", "gr_isSatisfied", "ompl::base::GoalRegion::isSatisfied(st, distance)", expect_loops=0,
      can=[dict(name="reports_threshold", where="body:isSatisfied", rx=r"\*distance = d2g;", repl="*distance = threshold_;")]),
    dict(name="c01_path_check", template="C17/pathgeom.c", entry="h_check", sources=C17.SOURCES, enforce=["pg_check"], replace=C17.STUBS, flags=FLAGS, level="proof", expect_loops=1,
         functions=["ompl::geometric::PathGeometric::check"], backend="minisat", confirm=dict(unwind=6, defines={}),
         canaries=[dict(name="last_motion_unchecked", where="body:check", rx=r"j < last;", repl="j < last - 1;")]),
]
# ---------------------------------------------------------------- showcase: the whole body of geometric::RRT::solve
RRT = "src/ompl/geometric/planners/rrt/src/RRT.cpp"
RRT_RULES = [
    (r"checkValidity\(\);", ";", 0), (r"base::Goal \*goal = pdef_->getGoal\(\)\.get\(\);", ";", 0), (r"auto \*goal_s = dynamic_cast<base::GoalSampleableRegion \*>\(goal\);", "SRef st;", 0),
    (r"while \(const base::State \*st = pis_\.nextStart\(\)\)", "while ((st = pis_nextStart()) != 0)", 0),
    (r"auto \*(\w+) = new Motion\(si_\);", r"MRef \1 = NEW_MOTION_S();", 0), (r"auto \*(\w+) = new Motion;", r"MRef \1 = NEW_MOTION();", 0),
    (r"si_->copyState\(", "copyState(", 0), (r"nn_->add\(", "NN_ADD(", 0), (r"nn_->size\(\)", "NN_SIZE()", 0), (r"nn_->nearest\(", "NN_NEAREST(", 0),
    (r"return base::PlannerStatus::INVALID_START;", "return ST_INVALID_START;", 0), (r"return base::PlannerStatus::TIMEOUT;", "return ST_TIMEOUT;", 0),
    (r"return base::PlannerStatus::APPROXIMATE_SOLUTION;", "return ST_APPROX;", 0), (r"return base::PlannerStatus::EXACT_SOLUTION;", "return ST_EXACT;", 0),
    (r"if \(!sampler_\)\s*sampler_ = si_->allocStateSampler\(\);", "if (!have_sampler) have_sampler = 1;", 0),
    (r"Motion \*(\w+) = ", r"MRef \1 = ", 0), (r"base::State \*(\w+) = ", r"SRef \1 = ", 0),
    (r"std::numeric_limits<double>::infinity\(\)", "INFD", 0), (r"si_->allocState\(\)", "allocState()", 0), (r"si_->freeState\(", "freeState(", 0),
    (r"while \(!ptc\)", "while (!ptc())", 0),
    (r"\(goal_s != nullptr\) && rng_\.uniform01\(\) < goalBias_ && goal_s->canSample\(\)", "have_goal_s && uniform01_lt_goalBias() && canSampleGoal()", 0),
    (r"goal_s->sampleGoal\(rstate\);", "SAMPLE_INTO(rstate);", 0), (r"sampler_->sampleUniform\(rstate\);", "SAMPLE_INTO(rstate);", 0),
    (r"si_->distance\(", "distanceS(", 0),
    (r"si_->getStateSpace\(\)->interpolate\(nmotion->state, rstate, maxDistance_ / d, xstate\);", "{ double t_ = FDIVT(maxDistance_, d); SAMPLE_INTO(xstate); }", 0),
    (r"si_->checkMotion\(", "checkMotionS(", 0),
    (r"std::vector<base::State \*> states;", "MS_size = 0;", 0), (r"si_->getStateSpace\(\)->validSegmentCount\(", "validSegmentCountS(", 0),
    (r"si_->getMotionStates\(nmotion->state, dstate, states, count, true, true\)", "getMotionStatesS(nmotion->state, dstate, count)", 0),
    (r"states\.size\(\)", "MS_size", 0), (r"\bstates\[", "MS_states[", 0), (r"std::size_t", "size_t", 0),
    (r"goal->isSatisfied\(nmotion->state, ", "goal_isSatisfiedM(nmotion, ", 0),
    (r"std::vector<Motion \*> mpath;", "mpath_size = 0;", 0), (r"mpath\.push_back\(solution\);", "MPATH_PUSH(solution);", 0), (r"solution = solution->parent;", "solution = PARENT_OF(solution);", 0),
    (r"auto path\(std::make_shared<PathGeometric>\(si_\)\);", "path_len = 0;", 0), (r"mpath\.size\(\)", "mpath_size", 0),
    (r"path->append\(mpath\[i\]->state\);", "PATH_APPEND_M(MPATH[i], (size_t)i);", 0),
    (r"pdef_->addSolutionPath\(path, approximate, approxdif, getName\(\)\);", "addSolutionPathS(approximate, approxdif);", 0),
    (r"delete rmotion;", "DELETE_MOTION(rmotion);", 0),
    (r"return \{solved, approximate\};", "return solved ? (approximate ? ST_APPROX : ST_EXACT) : ST_TIMEOUT;", 0),
    (r"(\w+)->state\b", r"M_state[\1]", 0), (r"(\w+)->parent\b", r"M_parent[\1]", 0),
    (r"\bnullptr\b", "0", 0),
]
ARR = "__CPROVER_object_whole(M_parent), __CPROVER_object_whole(M_state), __CPROVER_object_whole(in_tree), __CPROVER_object_whole(M_alive), __CPROVER_object_whole(S_cid), __CPROVER_object_whole(S_start), __CPROVER_object_whole(S_seg), __CPROVER_object_whole(M_gdist), __CPROVER_object_whole(M_gsat), __CPROVER_object_whole(M_geval), __CPROVER_object_whole(S_alive), __CPROVER_object_whole(S_owned_by_tree)"
QUIET = "n_paths_added == 0 && path_len == 0 && mpath_size == 0"
SCRATCH = "rmotion >= 1 && rmotion < MAXM && M_alive[rmotion] && !in_tree[rmotion] && M_state[rmotion] == rstate && rstate >= 1 && rstate < MAXS && S_alive[rstate] && !S_owned_by_tree[rstate] && xstate >= 1 && xstate < MAXS && S_alive[xstate] && !S_owned_by_tree[xstate] && xstate != rstate && rmotion < next_m && rstate < next_s && xstate < next_s"
APPROX = "(approxsol == 0 ? approxdif == INFD : (approxsol < MAXM && in_tree[approxsol] && M_state[approxsol] >= 1 && M_state[approxsol] < MAXS && M_geval[approxsol] && !M_gsat[approxsol] && approxdif == M_gdist[approxsol] && approxdif == approxdif && approxsol >= 1 && approxsol < next_m))"
UNITS.append(dict(name="c01_rrt_solve_whole_body", template="C01/rrt_solve.c", entry="h_solve", enforce=["rrt_solve"], flags=FLAGS, level="proof", bound="executions that create fewer than 16 motions (field-map size); unbounded in the number of loop iterations",
    replace=["ptc", "pis_nextStart", "NEW_MOTION_S", "NEW_MOTION", "DELETE_MOTION", "allocState", "freeState", "copyState", "SAMPLE_INTO", "uniform01_lt_goalBias", "canSampleGoal", "NN_ADD", "NN_NEAREST", "NN_SIZE", "distanceS", "FDIVT",
             "checkMotionS", "validSegmentCountS", "getMotionStatesS", "goal_isSatisfiedM", "MPATH_PUSH", "PARENT_OF", "PATH_APPEND_M", "addSolutionPathS"],
    functions=["ompl::geometric::RRT::solve"], backend="cadical", timeout=1800, expect_loops=5, confirm=dict(unwind=3, defines={"MAXM": 4}),
    sources=[dict(name="solve", file=RRT, sig=r"ompl::base::PlannerStatus ompl::geometric::RRT::solve\(const base::PlannerTerminationCondition &ptc\)", rules=RRT_RULES, loops={
        1: """
__CPROVER_assigns(st, live_unowned, next_m, next_s, next_cid, tree_size, %(ARR)s)
__CPROVER_loop_invariant(next_m >= 1 && next_s >= 1 && next_m < MAXM && next_s < MAXS - 8 && tree_size == next_m - 1 && live_unowned == 0 && !ptc_fired && ptc_after_fired == 0 && CM_token == 0 && !CM_ok && next_cid >= 1 && next_cid < (1L << 62) && %(QUIET)s)
""" % dict(ARR=ARR, QUIET=QUIET),
        2: """
__CPROVER_assigns(solution, approxsol, approxdif, live_unowned, ptc_fired, ptc_after_fired, next_m, next_s, next_cid, tree_size, CM_ok, CM_from, CM_to, CM_token, MS_size, __CPROVER_object_whole(MS_states), %(ARR)s)
__CPROVER_loop_invariant(live_unowned == 2 && !ptc_fired && ptc_after_fired == 0 && solution == 0 && tree_size > 0 && tree_size < next_m && next_m < MAXM && next_s < MAXS - 8 && CM_token >= 0 && CM_token < (1L << 62) && next_cid >= 1 && next_cid < (1L << 62) && %(QUIET)s && %(SCRATCH)s)
__CPROVER_loop_invariant(%(APPROX)s)
""" % dict(ARR=ARR, QUIET=QUIET, SCRATCH=SCRATCH, APPROX=APPROX),
        3: """
__CPROVER_assigns(i, nmotion, live_unowned, next_m, tree_size, %(ARR)s)
__CPROVER_loop_invariant(!ptc_fired && ptc_after_fired == 0 && live_unowned == 2 + (MS_size > i ? (int)(MS_size - i) : 0) && i >= 1 && i <= 3 && MS_size <= 3 && (i <= MS_size || MS_size <= 1) && CM_ok && CM_token > 0 && CM_token < (1L << 62) && tree_size > 0 && tree_size < next_m && next_m < MAXM && next_s < MAXS - 8 && %(QUIET)s && %(SCRATCH)s)
__CPROVER_loop_invariant(nmotion >= 1 && nmotion < MAXM && in_tree[nmotion] && M_alive[nmotion] && M_state[nmotion] >= 1 && M_state[nmotion] < MAXS && S_alive[M_state[nmotion]] && nmotion < next_m && M_state[nmotion] < next_s)
__CPROVER_loop_invariant(i == 1 ? CM_from == S_cid[M_state[nmotion]] : S_seg[M_state[nmotion]] == CM_token)
__CPROVER_loop_invariant((i <= 1 && MS_size >= 2) ==> (MS_states[1] >= 1 && MS_states[1] < MAXS && S_alive[MS_states[1]] && S_seg[MS_states[1]] == CM_token && !S_owned_by_tree[MS_states[1]] && MS_states[1] != rstate && MS_states[1] != xstate))
__CPROVER_loop_invariant((i <= 2 && MS_size >= 3) ==> (MS_states[2] >= 1 && MS_states[2] < MAXS && S_alive[MS_states[2]] && S_seg[MS_states[2]] == CM_token && !S_owned_by_tree[MS_states[2]] && MS_states[2] != rstate && MS_states[2] != xstate && MS_states[2] != MS_states[1]))
__CPROVER_loop_invariant(%(APPROX)s)
__CPROVER_decreases(4 - i)
""" % dict(ARR=ARR, QUIET=QUIET, SCRATCH=SCRATCH, APPROX=APPROX),
        4: """
__CPROVER_assigns(solution, mpath_size, __CPROVER_object_whole(MPATH))
__CPROVER_loop_invariant(solution < MAXM && (solution == 0 || in_tree[solution]) && mpath_size < MAXM && (mpath_size == 0 ? solution == lastGoalMotion_ : (MPATH[0] == lastGoalMotion_ && MPATH[mpath_size - 1] >= 1 && MPATH[mpath_size - 1] < MAXM && solution == M_parent[MPATH[mpath_size - 1]] && in_tree[MPATH[mpath_size - 1]])))
__CPROVER_loop_invariant((GJ < mpath_size) ==> (MPATH[GJ] >= 1 && MPATH[GJ] < MAXM && in_tree[MPATH[GJ]] && ((GJ + 1 < mpath_size) ==> (MPATH[GJ + 1] == M_parent[MPATH[GJ]]))))
__CPROVER_loop_invariant(mpath_size + solution <= MAXM - 1)
__CPROVER_decreases(solution)
""",
        5: """
__CPROVER_assigns(i, path_len, path_first_m, path_last_m, PA, PB)
__CPROVER_loop_invariant(-1 <= i && i < (int)mpath_size && mpath_size < MAXM && path_len + (size_t)(i + 1) == mpath_size)
__CPROVER_loop_invariant(path_len >= 1 ==> (path_first_m == MPATH[mpath_size - 1] && path_last_m == MPATH[i + 1]))
__CPROVER_loop_invariant(((int)GJ + 1 > i && GJ + 1 < mpath_size) ==> PA == MPATH[GJ + 1])
__CPROVER_loop_invariant(((int)GJ > i && GJ < mpath_size) ==> PB == MPATH[GJ])
__CPROVER_decreases(i + 1)
"""})],
    canaries=[dict(name="edge_without_motion_check", where="body:solve", rx=r"if \(checkMotionS\(M_state\[nmotion\], dstate\)\)", repl="if (checkMotionS(M_state[nmotion], dstate) || 1)"),
              dict(name="approx_flag_dropped", where="body:solve", rx=r"approximate = true;", repl=";", thorough_only=True),
              dict(name="xstate_leaked", where="body:solve", rx=r"freeState\(xstate\);", repl=";", thorough_only=True)]))

# ---------------------------------------------------------------- PRM::constructApproximateSolution (bounded)
PRMF = "src/ompl/geometric/planners/prm/src/PRM.cpp"
PRMA_RULES = [
    (r"std::lock_guard<std::mutex> _\(graphMutex_\);", "", 0), (r"base::Goal \*g = pdef_->getGoal\(\)\.get\(\);", "", 0),
    (r"base::Cost closestVal\(opt_->infiniteCost\(\)\);", "double closestVal = INFC;", 0),
    (r"foreach \(Vertex start, starts\)\s*\{", "for (unsigned si_ = 0; si_ < NS_; ++si_) { Vertex start = STARTS[si_];", 0),
    (r"foreach \(Vertex goal, goals\)\s*\{", "for (unsigned gi_ = 0; gi_ < NG_; ++gi_) { Vertex goal = GOALS[gi_];", 0),
    (r"base::Cost heuristicCost\(costHeuristic\(start, goal\)\);", "double heuristicCost = costHeuristic(start, goal);", 0),
    (r"opt_->isCostBetterThan\(", "better(", 0), (r"g->isStartGoalPairValid\(stateProperty_\[goal\], stateProperty_\[start\]\)", "isStartGoalPairValid(goal, start)", 0),
    (r"base::PathPtr p;", "", 0), (r"boost::vector_property_map<[\w:]+> \w+\(boost::num_vertices\(g_\)\);", "", 0),
    (r"try\s*\{.*?\}\s*catch \(AStarFoundGoal &\)\s*\{\s*\}", "ASTAR(start, goal);", 0, __import__("re").S),
    (r"for \(auto vp = vertices\(g_\); vp\.first != vp\.second; vp\.first\+\+\)", "for (Vertex v_ = 0; v_ != NV_; v_++)", 0), (r"\*vp\.first", "v_", 0),
    (r"ompl::base::Cost dist_to_goal\(costHeuristic\(v_, goal\)\);", "double dist_to_goal = costHeuristic(v_, goal);", 0), (r"opt_->isFinite\(rank\[v_\]\)", "RANK_FINITE(v_)", 0),
    (r"auto p\(std::make_shared<PathGeometric>\(si_\)\);\s*for \(Vertex pos = closeToGoal; prev\[pos\] != pos; pos = prev\[pos\]\)\s*p->append\(stateProperty_\[pos\]\);\s*p->append\(stateProperty_\[start\]\);\s*p->reverse\(\);\s*solution = p;", "SOLUTION_TO(closeToGoal, start);", 0),
    (r"return opt_->infiniteCost\(\);", "return INFC;", 0),
]
UNITS.append(dict(name="c01_prm_constructApproximateSolution", template="C01/prm_approx.c", mode="plain", entry="h_prm_approx", flags=["--bounds-check", "--pointer-check", "--signed-overflow-check", "--conversion-check"], unwind=5,
                  level="bounded", bound="<= 2 start, <= 2 goal, <= 3 roadmap vertices", backend="minisat", timeout=900, functions=["ompl::geometric::PRM::constructApproximateSolution"],
                  sources=[dict(name="approx", file=PRMF, sig=r"ompl::base::Cost ompl::geometric::PRM::constructApproximateSolution\(const std::vector<Vertex> &starts,\s*const std::vector<Vertex> &goals,\s*base::PathPtr &solution\)", rules=PRMA_RULES, loops={"allow_uncontracted": True})],
                  canaries=[dict(name="flag_not_rearmed", where="body:approx", rx=r"closestVal = heuristicCost;\s*approxPathJustStart = true;", repl="closestVal = heuristicCost;")]))

# ---------------------------------------------------------------- SBL::isPathValid / checkSolution (bounded)
SBLF = "src/ompl/geometric/planners/sbl/src/SBL.cpp"
SBL_RULES = [
    (r"Grid<MotionInfo>::Coord coord\(projectionEvaluator_->getDimension\(\)\);", "", 0), (r"projectionEvaluator_->computeCoordinates\(motion->state, coord\);", "", 0),
    (r"Grid<MotionInfo>::Cell \*cell = otherTree\.grid\.getCell\(coord\);", "Motion cell_pick = PICK_OTHER(motion);", 0), (r"if \(cell && !cell->data\.empty\(\)\)", "if (cell_pick != NIL)", 0),
    (r"Motion \*connectOther = cell->data\[rng_\.uniformInt\(0, cell->data\.size\(\) - 1\)\];", "Motion connectOther = cell_pick;", 0),
    (r"pdef_->getGoal\(\)->isStartGoalPairValid\(start \? motion->root : connectOther->root,\s*start \? connectOther->root : motion->root\)", "PAIRVALID(start ? ROOT[motion] : ROOT[connectOther], start ? ROOT[connectOther] : ROOT[motion])", 0),
    (r"auto \*connect = new Motion\(si_\);", "Motion connect = NEW_MOTION();", 0), (r"si_->copyState\(connect->state, connectOther->state\);", "CID[connect] = CID[connectOther];", 0),
    (r"connect->parent = motion;", "PARENT[connect] = motion;", 0), (r"connect->root = motion->root;", "ROOT[connect] = ROOT[motion];", 0), (r"motion->children\.push_back\(connect\);", "", 0),
    (r"addMotion\(tree, connect\);", "ADD_MOTION(tree, connect);", 0), (r"\bisPathValid\(", "sbl_isPathValid(", 0),
    (r"connectionPoint_ = std::make_pair\([^;]*\);", ";", 0),
    (r"std::vector<Motion \*> (\w+);", r"VEC(\1);", 0), (r"(\w+)\.push_back\((\w+)\);", lambda m: ("SOL_PUSH(%s);" % m.group(2)) if m.group(1) == "solution" else "PUSH(%s, %s);" % (m.group(1), m.group(2)), 0),
    (r"solution\.push_back\(mpath1\[i\]\);", "SOL_PUSH(mpath1[i]);", 0),
    (r"(\w+) = \1->parent;", r"\1 = PARENT[\1];", 0), (r"(\w+) != nullptr", r"\1 != NIL", 0),
    (r"mpath1\.swap\(mpath2\);", "SWAPV(mpath1, mpath2);", 0), (r"(mpath\w*)\.size\(\)", r"(int)\1_n", 0),
    (r"solution\.insert\(solution\.end\(\), mpath2\.begin\(\), mpath2\.end\(\)\);", "for (size_t k_ = 0; k_ < mpath2_n; ++k_) SOL_PUSH(mpath2[k_]);", 0),
    (r"si_->checkMotion\(mpath\[i\]->parent->state, mpath\[i\]->state\)", "CM(PARENT[mpath[i]], mpath[i])", 0), (r"!mpath\[i\]->valid", "!VALID[mpath[i]]", 0), (r"mpath\[i\]->valid = true;", "SET_VALID(mpath[i]);", 0),
    (r"removeMotion\(tree, mpath\[i\]\);", "REMOVE(tree, mpath[i]);", 0),
]
SBL_SRC = [
    dict(name="isPathValid", file=SBLF, sig=r"bool ompl::geometric::SBL::isPathValid\(TreeData &tree, Motion \*motion\)", rules=SBL_RULES, loops={"allow_uncontracted": True}),
    dict(name="checkSolution", file=SBLF, sig=r"bool ompl::geometric::SBL::checkSolution\(bool start, TreeData &tree, TreeData &otherTree, Motion \*motion,\s*std::vector<Motion \*> &solution\)", rules=SBL_RULES, loops={"allow_uncontracted": True}),
]
for nm, ent, fn, can in (("c01_sbl_isPathValid", "h_sbl_isPathValid", "ompl::geometric::SBL::isPathValid", [dict(name="marks_without_check", where="body:isPathValid", rx=r"if \(CM\(PARENT\[mpath\[i\]\], mpath\[i\]\)\)", repl="if (CM(PARENT[mpath[i]], mpath[i]) || 1)")]),
                         ("c01_sbl_checkSolution", "h_sbl_checkSolution", "ompl::geometric::SBL::checkSolution", [dict(name="junction_not_validated", where="body:checkSolution", rx=r"sbl_isPathValid\(tree, connect\)", repl="sbl_isPathValid(tree, motion)")])):
    UNITS.append(dict(name=nm, template="C01/sbl.c", mode="plain", entry=ent, flags=["--bounds-check", "--pointer-check", "--signed-overflow-check", "--conversion-check"], unwind=10, level="bounded", bound="branches of <= 3 motions per tree",
                      backend="minisat", timeout=900, functions=[fn], sources=SBL_SRC, canaries=can))

# ---------------------------------------------------------------- RRTConnect::growTree
def _stub_intermediate_block(text):
    """'if (addIntermediateStates_) { ... }' -> the block body becomes a stub call (this unit covers the default, addIntermediateStates_ off)."""
    from vf import extract as X
    i = text.find("if (addIntermediateStates_)")
    if i < 0:
        return text
    j = text.index("{", i)
    e = X._match(text, j, "{", "}")
    return text[:j] + "{ INTERMEDIATE_STATES_BRANCH(); }" + text[e + 1:]
RCF = "src/ompl/geometric/planners/rrt/src/RRTConnect.cpp"
RC_RULES = [
    (_stub_intermediate_block,),
    (r"Motion \*nmotion = tree->nearest\(rmotion\);", "Motion nmotion = NEAREST();", 0), (r"base::State \*dstate = rmotion->state;", "SRef dstate = M_state[rmotion];", 0),
    (r"si_->distance\(nmotion->state, rmotion->state\)", "DIST()", 0), (r"tgi\.xstate", "XSTATE", 0), (r"tgi\.start", "TGI_START", 0), (r"tgi\.xmotion", "TGI_XMOTION", 0),
    (r"si_->getStateSpace\(\)->interpolate\(nmotion->state, rmotion->state, maxDistance_ / d, XSTATE\);", "INTERPOLATE_INTO(XSTATE, maxDistance_ / d);", 0),
    (r"si_->equalStates\(", "EQUAL_STATES(", 0), (r"si_->checkMotion\(", "CM(", 0), (r"si_->isValid\(", "ISVALID(", 0),
    (r"auto \*motion = new Motion\(si_\);", "Motion motion = NEW_MOTION();", 0), (r"si_->copyState\(", "COPY_STATE(", 0), (r"tree->add\(motion\);", "TREE_ADD(motion);", 0),
    (r"(\w+)->parent\b", r"PARENT[\1]", 0), (r"(\w+)->state\b", r"M_state[\1]", 0), (r"(\w+)->root\b", r"ROOT[\1]", 0),
]
UNITS.append(dict(name="c01_rrtconnect_growTree", template="C01/rrtconnect.c", mode="plain", entry="h_growTree", flags=["--bounds-check", "--pointer-check", "--signed-overflow-check", "--conversion-check"], level="proof", backend="minisat", timeout=300,
                  functions=["ompl::geometric::RRTConnect::growTree (addIntermediateStates_ off)"],
                  sources=[dict(name="growTree", file=RCF, sig=r"ompl::geometric::RRTConnect::GrowState ompl::geometric::RRTConnect::growTree\(TreeData &tree, TreeGrowingInfo &tgi,\s*Motion \*rmotion\)", rules=RC_RULES, loops={})],
                  canaries=[dict(name="goal_tree_checked_in_start_direction", where="body:growTree", rx=r"ISVALID\(dstate\) && CM\(dstate, M_state\[nmotion\]\)", repl="ISVALID(dstate) && CM(M_state[nmotion], dstate)"),
                            dict(name="goal_tree_state_not_validated", where="body:growTree", rx=r"ISVALID\(dstate\) && ", repl=""),
                            dict(name="adds_when_trapped", where="body:growTree", rx=r"if \(!validMotion\)\s*return TRAPPED;", repl="")]))

RCI_RULES = [
    (r"growTree\((\w+), tgi, rmotion\)", r"GROW(\1, &tgi)", 0), (r"Motion \*(addedMotion|startMotion|goalMotion|solution) =", r"MotionRef \1 =", 0),
    (r"si_->copyState\(rstate, tgi\.xstate\);", ";", 0),
    (r"const double newDist = tree->getDistanceFunction\(\)\(addedMotion, otherTree->nearest\(addedMotion\)\);", "const double newDist = nondet_double();", 0),
    (r"goal->isStartGoalPairValid\(startMotion->root, goalMotion->root\)", "PAIR_VALID(startMotion, goalMotion)", 0),
    (r"connectionPoint_ = std::make_pair\(startMotion->state, goalMotion->state\);", "", 0),
    (r"MotionRef solution = startMotion;.*?pdef_->addSolutionPath\(path, false, 0\.0, getName\(\)\);", "ADD_EXACT(startMotion, goalMotion);", 0, re.S),
    (r"goal->isSatisfied\(tgi\.xmotion->state, &dist\);", "dist = GOAL_DIST(tgi.xmotion);", 0),
    (r"(\w+)->parent\b", r"M_parent[\1]", 0), (r"\bnullptr\b", "NIL", 0),
]
UNITS.append(dict(name="c01_rrtconnect_iteration", template="C01/rrtconnect_iter.c", mode="plain", entry="h_rc_iteration", flags=["--bounds-check", "--pointer-check"], unwind=10, level="bounded", bound="one iteration, <= 4 growTree calls",
                  backend="minisat", timeout=300, functions=["ompl::geometric::RRTConnect::solve (connect attempt, exact-solution test, approximate-solution bookkeeping of one iteration)"],
                  sources=[dict(name="solve_iteration", file=RCF, begin=r"GrowState gs = growTree\(tree, tgi, rmotion\);", end=r"si_->freeState\(tgi\.xstate\);", rules=RCI_RULES + [(r"\}\s*\Z", "", 0)], loops={"allow_uncontracted": True})],
                  canaries=[dict(name="tree_flag_not_restored_when_trapped", where="body:solve_iteration", rx=r"if \(gsc == TRAPPED\)\s*tgi\.start = !tgi\.start;", repl="")]))

# ---------------------------------------------------------------- PRM::addMilestone (bounded)
PM_RULES = [
    (r"std::lock_guard<std::mutex> _\(graphMutex_\);", "", 0), (r"Vertex m = boost::add_vertex\(g_\);", "Vertex m = ADD_VERTEX();", 0), (r"stateProperty_\[(\w+)\]", r"SP[\1]", 0),
    (r"totalConnectionAttemptsProperty_\[(\w+)\]", r"TOTAL[\1]", 0), (r"successfulConnectionAttemptsProperty_\[(\w+)\]", r"SUCC[\1]", 0), (r"disjointSets_\.make_set\(m\);", "MAKE_SET(m);", 0),
    (r"const std::vector<Vertex> &neighbors = connectionStrategy_\(m\);", "", 0), (r"foreach \(Vertex n, neighbors\)", "for (unsigned k_ = 0; k_ < n_nb; ++k_) FOREACH_BODY", 0),
    (r"connectionFilter_\(n, m\)", "FILTER(n, m)", 0), (r"si_->checkMotion\(", "CM(", 0), (r"const base::Cost weight = opt_->motionCost\(SP\[n\], SP\[m\]\);", "const double weight = MOTION_COST(SP[n], SP[m]);", 0),
    (r"const Graph::edge_property_type properties\(weight\);", "", 0), (r"boost::add_edge\(n, m, properties, g_\);", "ADD_EDGE(n, m, weight);", 0), (r"uniteComponents\(n, m\);", "UNITE(n, m);", 0), (r"nn_->add\(m\);", "NN_ADD(m);", 0),
    (r"FOREACH_BODY\s*if \(FILTER\(n, m\)\)", "{ Vertex n = NB[k_]; if (FILTER(n, m))", 0), (r"(UNITE\(n, m\);\s*\}\s*\})", r"\1 }", 0),
]
UNITS.append(dict(name="c01_prm_addMilestone", template="C01/prm_milestone.c", mode="plain", entry="h_addMilestone", flags=["--bounds-check", "--pointer-check", "--unsigned-overflow-check", "--conversion-check"], unwind=5, level="bounded", bound="<= 3 proposed neighbours",
                  backend="minisat", timeout=300, functions=["ompl::geometric::PRM::addMilestone"],
                  sources=[dict(name="addMilestone", file=PRMF, sig=r"ompl::geometric::PRM::Vertex ompl::geometric::PRM::addMilestone\(base::State \*state\)", rules=PM_RULES, loops={"allow_uncontracted": True})],
                  canaries=[dict(name="edge_without_motion_check", where="body:addMilestone", rx=r"if \(CM\(SP\[n\], SP\[m\]\)\)", repl="if (CM(SP[n], SP[m]) || 1)"),
                            dict(name="components_not_united", where="body:addMilestone", rx=r"UNITE\(n, m\);", repl="")]))

PLF = "src/ompl/base/src/Planner.cpp"
NG_RULES = [
    (r"std::string error = .*?throw Exception\(error\);", "thrown = 1; return 0;", 0, re.S), (r"pdef_ == nullptr \|\| si_ == nullptr", "!pdef_set || !si_set", 0),
    (r"pdef_->getGoal\(\) != nullptr", "HAS_GOAL", 0), (r"const GoalSampleableRegion \*goal =.*?: nullptr;", "int goal = GOAL_SAMPLEABLE ? 1 : 0;", 0, re.S), (r"goal != nullptr", "goal != 0", 0),
    (r"time::point start_wait;", "", 0), (r"goal->maxSampleCount\(\)", "MAXSAMPLES", 0), (r"goal->canSample\(\)", "CAN_SAMPLE()", 0), (r"goal->couldSample\(\)", "COULD_SAMPLE()", 0),
    (r"tempState_ == nullptr", "tempState_ == 0", 0), (r"tempState_ = si_->allocState\(\);", "tempState_ = 7;", 0), (r"goal->sampleGoal\(tempState_\);", "SAMPLE_GOAL();", 0),
    (r"si_->satisfiesBounds\(tempState_\)", "SAT_BOUNDS()", 0), (r"si_->isValid\(tempState_\)", "IS_VALID()", 0),
    (r"OMPL_(?:DEBUG|WARN)\((?:[^()]|\((?:[^()]|\((?:[^()]|\([^()]*\))*\))*\))*\);", "", 0), (r"std::stringstream ss;\s*si_->printState\(tempState_, ss\);", "", 0),
    (r"!ptc\b", "!PTC()", 0), (r"start_wait = time::now\(\);", "", 0), (r"std::this_thread::sleep_for\(time::seconds\(0\.01\)\);", "SLEEP();", 0), (r"return nullptr;", "return 0;", 0),
]
NG_UNIT = dict(name="c01_inputstates_nextGoal_ptc", template="C01/nextgoal.c", mode="plain", entry="h_nextGoal_ptc", flags=["--bounds-check", "--pointer-check", "--unsigned-overflow-check"], unwind=6, level="bounded",
               bound="goal regions of <= 3 samples, <= 2 waiting rounds", backend="minisat", timeout=300, functions=["ompl::base::PlannerInputStates::nextGoal(const PlannerTerminationCondition&)"],
               sources=[dict(name="nextGoal_ptc", file=PLF, sig=r"const ompl::base::State \*ompl::base::PlannerInputStates::nextGoal\(const PlannerTerminationCondition &ptc\)", rules=NG_RULES, loops={"allow_uncontracted": True})],
               canaries=[dict(name="termination_not_consulted_between_samples", where="body:nextGoal_ptc", rx=r"while \(!PTC\(\) && sampledGoalsCount_", repl="while (sampledGoalsCount_"),
                         dict(name="validity_of_the_previous_sample", where="body:nextGoal_ptc", rx=r"bool valid = bounds \? IS_VALID\(\) : false;", repl="bool valid = bounds ? valid_ok : false;")])
UNITS.append(NG_UNIT)

def _c04_tiny():
    if _REENTRANT:
        return []
    sp = importlib.util.spec_from_file_location("c04t", os.path.join(os.path.dirname(__file__), "C04.py")); m = importlib.util.module_from_spec(sp); sp.loader.exec_module(m)
    import copy as _copy
    out = [_copy.deepcopy(m.TINY_GS)]
    v = _copy.deepcopy(m.RR_UNIT); v["name"] = "c01_rrtstar_report"; out.append(v)      # RRT*'s reporting block (unit of C04): path, approximate flag, status
    for u in m.UNITS:           # which stored solution the problem definition reports (flags, difference): the solution-set unit of C04
        if u["name"] == "c04_solution_set":
            v = _copy.deepcopy(u); v["name"] = "c01_solution_set"; out.append(v)
    return out
UNITS += _c04_tiny()

# ---------------------------------------------------------------- the reporting epilogue shared by seven more tree planners
EP_RULES = [
    (r"lastGoalMotion_ = solution;", "lastGoalMotion_ = solution; lgm_set = true;", 0),
    (r"std::vector<Motion \*> mpath;", "mpath_n = 0;", 0), (r"mpath\.push_back\(solution\);", "MPATH_PUSH(solution);", 0), (r"solution->parent", "M_parent[solution]", 0),
    (r"auto path\(std::make_shared<PathGeometric>\(si_\)\);", "path_n = 0;", 0), (r"mpath\.size\(\)", "mpath_n", 0), (r"path->append\(mpath\[i\]->state\);", "PATH_APPEND(mpath[i]);", 0),
    (r"pdef_->addSolutionPath\(path, approximate, approxdif, (?:getName\(\)|name_)\);", "ADD_SOLUTION(approximate, approxdif);", 0),
    (r"if \(rmotion->state\)\s*si_->freeState\(rmotion->state\);", "frees++;", 0), (r"si_->freeState\([\w.>-]+\);", "frees++;", 0), (r"delete \w+;", "deletes++;", 0), (r"\bnullptr\b", "NIL", 0),
]
for _pl, _f in (("kpiece1", "src/ompl/geometric/planners/kpiece/src/KPIECE1.cpp"), ("est", "src/ompl/geometric/planners/est/src/EST.cpp"), ("projest", "src/ompl/geometric/planners/est/src/ProjEST.cpp"),
                ("stride", "src/ompl/geometric/planners/stride/src/STRIDE.cpp"), ("rlrt", "src/ompl/geometric/planners/rlrt/src/RLRT.cpp"), ("tsrrt", "src/ompl/geometric/planners/rrt/src/TSRRT.cpp"), ("vfrrt", "src/ompl/geometric/planners/rrt/src/VFRRT.cpp")):
    UNITS.append(dict(name="c01_%s_report_epilogue" % _pl, template="C01/epilogue.c", mode="plain", entry="h_epilogue", flags=["--bounds-check", "--pointer-check", "--signed-overflow-check", "--conversion-check"], unwind=8, level="bounded",
                      bound="parent chains of <= 4 motions", backend="minisat", timeout=300, functions=["ompl::geometric::%s::solve (result-reporting epilogue)" % _pl.upper()],
                      sources=[dict(name="epilogue", file=_f, begin=r"bool solved = false;\s*bool approximate = false;", end=r"return \{solved, approximate\};", rules=EP_RULES, loops={"allow_uncontracted": True}, wrap_braces=False)],
                      canaries=[dict(name="approximate_flag_dropped", where="body:epilogue", rx=r"approximate = true;", repl=";")]))

# ---------------------------------------------------------------- the per-motion exact / approximate bookkeeping of the same planners
REC_RULES = [(r"(?:bool (\w+)|(solved)) = goal->isSatisfied\(motion->state, &dist\);", lambda m: "bool %s = GOAL_SAT(motion, &dist);" % m.group(1) if m.group(1) else "solved = GOAL_SAT(motion, &dist);", 0),
             (r"projectionEvaluator_->computeCoordinates\(motion->state, xcoord\);", "", 0), (r"disc_\.addMotion\(motion, xcoord, dist\);", "", 0), (r"Grid::Cell \*toCell = addMotion\(motion, dist\);", "", 0), (r"\bnullptr\b", "NIL", 0)]
REC_PLANNERS = (("kpiece1", "src/ompl/geometric/planners/kpiece/src/KPIECE1.cpp", "C01"), ("est", "src/ompl/geometric/planners/est/src/EST.cpp", "C01"), ("projest", "src/ompl/geometric/planners/est/src/ProjEST.cpp", "C01"),
                ("stride", "src/ompl/geometric/planners/stride/src/STRIDE.cpp", "C01"), ("ctrl_est", "src/ompl/control/planners/est/src/EST.cpp", "C02"), ("ctrl_kpiece1", "src/ompl/control/planners/kpiece/src/KPIECE1.cpp", "C02"))
REC_UNITS = {}
for _pl, _f, _prop in REC_PLANNERS:
    REC_UNITS.setdefault(_prop, []).append(dict(name="%s_%s_solution_record" % (_prop.lower(), _pl), template="C01/record.c", mode="plain", entry="h_record", flags=["--bounds-check", "--pointer-check"], unwind=6, level="bounded",
        bound="<= 3 motions examined", backend="cadical", timeout=300, functions=["%s::solve (exact / approximate bookkeeping per new motion)" % _pl],
        sources=[dict(name="record", file=_f, begin=r"(?:bool \w+|solved) = goal->isSatisfied\(motion->state, &dist\);", end=r"approxsol = motion;\s*\}", end_inclusive=True, rules=REC_RULES, loops={"allow_uncontracted": True}, wrap_braces=False)],
        canaries=[dict(name="approximate_not_strictly_closer", where="body:record", rx=r"if \(dist < approxdif\)", repl="if (dist > approxdif)")]))
UNITS += REC_UNITS["C01"]

KPF = "src/ompl/geometric/planners/kpiece/src/KPIECE1.cpp"
KPI_RULES = [
    (r"Motion \*existing = nullptr;", "MotionRef existing = NIL;", 0), (r"Discretization<Motion>::Cell \*ecell = nullptr;", "CellRef ecell = NIL;", 0), (r"disc_\.selectMotion\(existing, ecell\);", "SELECT_MOTION(&existing, &ecell);", 0),
    (r"assert\(existing\);", "", 0),
    (r"if \(\(goal_s != nullptr\) && rng_\.uniform01\(\) < goalBias_ && goal_s->canSample\(\)\)\s*goal_s->sampleGoal\(xstate\);\s*else\s*sampler_->sampleUniformNear\(xstate, existing->state, maxDistance_\);", "SAMPLE();", 0),
    (r"std::pair<base::State \*, double> fail\(xstate, 0\.0\);", "FailPair fail = {xstate, 0.0};", 0), (r"si_->checkMotion\(existing->state, xstate, fail\)", "CHECK_MOTION_LV(existing, xstate, &fail)", 0),
    (r"auto \*motion = new Motion\(si_\);", "MotionRef motion = NEW_MOTION();", 0), (r"si_->copyState\(motion->state, xstate\);", "M_cid[motion] = *xstate;", 0), (r"motion->parent = existing;", "M_parent[motion] = existing;", 0),
    (r"bool solv = goal->isSatisfied\(motion->state, &dist\);", "bool solv = GOAL_SAT(motion, &dist);", 0), (r"projectionEvaluator_->computeCoordinates\(motion->state, xcoord\);", "", 0),
    (r"disc_\.addMotion\(motion, xcoord, dist\);", "ADD_TO_DISC(motion);", 0), (r"ecell->data->score \*= failedExpansionScoreFactor_;", "{ C_score[ecell] *= failedExpansionScoreFactor_; cell_dirty[ecell] = true; }", 0),
    (r"disc_\.updateCell\(ecell\);", "UPDATE_CELL(ecell);", 0), (r"\bnullptr\b", "NIL", 0),
]
UNITS.append(dict(name="c01_kpiece1_iteration", template="C01/kpiece_iter.c", mode="plain", entry="h_kp_iteration", flags=["--bounds-check", "--pointer-check"], unwind=5, level="bounded", bound="one iteration", backend="cadical", timeout=300,
                  functions=["ompl::geometric::KPIECE1::solve (one iteration: selection, expansion, admission, cell update)"],
                  sources=[dict(name="kp_iteration", file=KPF, begin=r"Motion \*existing = nullptr;\s*Discretization<Motion>::Cell \*ecell = nullptr;", end=r"disc_\.updateCell\(ecell\);", end_inclusive=True, rules=KPI_RULES, loops={"allow_uncontracted": True}, wrap_braces=False)],
                  canaries=[dict(name="cell_not_resorted_after_a_failed_expansion", where="body:kp_iteration", rx=r"UPDATE_CELL\(ecell\);", repl="if (keep) UPDATE_CELL(ecell);"),
                            dict(name="partial_motion_accepted_without_threshold", where="body:kp_iteration", rx=r"M_cid\[motion\] = \*xstate;", repl="M_cid[motion] = *xstate + 1;")]))

BITF1 = "src/ompl/geometric/planners/informedtrees/src/BITstar.cpp"
BP_RULES = [
    (r"#ifdef BITSTAR_DEBUG.*?#endif", "", 0, re.S), (r"std::vector<const ompl::base::State \*> reversePath;", "rev_n = 0;", 0), (r"VertexConstPtr curVertex;", "VRef curVertex = NIL;", 0),
    (r"graphPtr_->getTrackApproximateSolutions\(\)", "TRACK", 0), (r"graphPtr_->closestVertexToGoal\(\)", "CLOSEST", 0), (r"throw ompl::Exception\(\"[^\"]*\"\);", "{ thrown = 1; return; }", 0),
    (r"reversePath\.push_back\(curVertex->state\(\)\);", "REV_PUSH(curVertex);", 0), (r"reversePath\.push_back\(curVertex->getParent\(\)->state\(\)\);", "REV_PUSH(V_parent[curVertex]);", 0),
    (r"!curVertex->isRoot\(\)", "!IS_ROOT(curVertex)", 0), (r"curVertex = curVertex->getParent\(\)", "curVertex = V_parent[curVertex]", 0), (r"return reversePath;", "return;", 0),
    (r"auto pathGeoPtr = std::make_shared<ompl::geometric::PathGeometric>\(Planner::si_\);", "path_n = 0;", 0), (r"reversePath = this->bestPathFromGoalToStart\(\);", "bit_bestPath(); if (thrown) return;", 0),
    (r"for \(const auto &solnState : boost::adaptors::reverse\(reversePath\)\)\s*\{", "for (unsigned r_ = rev_n; r_ > 0; --r_) { VRef solnState = rev[r_ - 1];", 0), (r"pathGeoPtr->append\(solnState\);", "PATH_APPEND(solnState);", 0),
    (r"ompl::base::PlannerSolution soln\(pathGeoPtr\);", "", 0), (r"soln\.setPlannerName\(Planner::getName\(\)\);", "", 0), (r"soln\.setApproximate\(graphPtr_->smallestDistanceToGoal\(\)\);", "{ sol_approx = true; sol_dif = SMALLEST; }", 0),
    (r"soln\.setOptimized\(Planner::pdef_->getOptimizationObjective\(\), (\w+),\s*Planner::pdef_->getOptimizationObjective\(\)->isSatisfied\((\w+)\)\);", r"SET_OPTIMIZED(\1, OBJ_SATISFIED(\2));", 0),
    (r"Planner::pdef_->addSolutionPath\(soln\);", "adds++;", 0),
]
BP_UNIT = dict(name="c01_bitstar_publishSolution", template="C01/bit_publish.c", mode="plain", entry="h_bit_publish", flags=["--bounds-check", "--pointer-check"], unwind=8, level="bounded", bound="chains of <= 4 vertices", backend="minisat", timeout=300,
               functions=["ompl::geometric::BITstar::bestPathFromGoalToStart", "ompl::geometric::BITstar::publishSolution"],
               sources=[dict(name="bit_bestPath", file=BITF1, sig=r"std::vector<const ompl::base::State \*> BITstar::bestPathFromGoalToStart\(\) const", rules=BP_RULES, loops={"allow_uncontracted": True}),
                        dict(name="bit_publish", file=BITF1, sig=r"void BITstar::publishSolution\(\)", rules=BP_RULES, loops={"allow_uncontracted": True})],
               canaries=[dict(name="path_published_goal_first", where="body:bit_publish", rx=r"for \(unsigned r_ = rev_n; r_ > 0; --r_\) \{ VRef solnState = rev\[r_ - 1\];", repl="for (unsigned r_ = 1; r_ <= rev_n; ++r_) { VRef solnState = rev[r_ - 1];"),
                         dict(name="flag_for_another_cost", where="body:bit_publish", rx=r"OBJ_SATISFIED\(bestCost_\)", repl="OBJ_SATISFIED(bestCost_ + 1.0)")])
UNITS.append(BP_UNIT)

PT_RULES = [
    (r"std::vector<std::shared_ptr<(?:Vertex|State)>> (?:reversePath|states);", "rev_n = 0;", 0), (r"auto current = (?:vertex|state);", "VRef current = vertex;", 0), (r"graph_\.isStart\(current\)", "IS_START(current)", 0),
    (r"assert\((?:[^()]|\((?:[^()]|\([^()]*\))*\))*\);", "", 0), (r"(?:reversePath|states)\.emplace_back\(current\);", "REV_PUSH(current);", 0),
    (r"current = current->getForwardParent\(\);", "current = V_parent[current];", 0), (r"current = current->asForwardVertex\(\)->getParent\(\)\.lock\(\)->getState\(\);", "current = V_parent[current];", 0),
    (r"auto path = std::make_shared<ompl::geometric::PathGeometric>\((?:Planner::si_|spaceInfo_)\);", "path_n = 0;", 0),
    (r"for \(const auto &vertex : boost::adaptors::reverse\(reversePath\)\)\s*\{\s*path->append\(vertex->getState\(\)\);\s*\}", "for (unsigned r_ = rev_n; r_ > 0; --r_) { PATH_APPEND(rev[r_ - 1]); }", 0),
    (r"for \(auto it = states\.crbegin\(\); it != states\.crend\(\); \+\+it\)\s*\{\s*path->append\(\(\*it\)->raw\(\)\);\s*\}", "for (unsigned r_ = rev_n; r_ > 0; --r_) { PATH_APPEND(rev[r_ - 1]); }", 0),
    (r"return path;", "return;", 0),
]
for _pl, _f, _sig in (("aitstar", "src/ompl/geometric/planners/informedtrees/src/AITstar.cpp", r"AITstar::getPathToVertex\(const std::shared_ptr<Vertex> &vertex\) const"),
                      ("eitstar", "src/ompl/geometric/planners/informedtrees/src/EITstar.cpp", r"EITstar::getPathToState\(const std::shared_ptr<eitstar::State> &state\) const")):
    UNITS.append(dict(name="c01_%s_path_extraction" % _pl, template="C01/path_to.c", mode="plain", entry="h_path_to", flags=["--bounds-check", "--pointer-check"], unwind=8, level="bounded", bound="chains of <= 4 vertices", backend="minisat", timeout=300,
                      functions=["ompl::geometric::" + _sig.split("\\(")[0]], sources=[dict(name="path_to", file=_f, sig=_sig, rules=PT_RULES, loops={"allow_uncontracted": True})],
                      canaries=[dict(name="start_vertex_left_out", where="body:path_to", rx=r"\}\s*REV_PUSH\(current\);", repl="}")]))

FT_RULES = [(r"std::vector<Motion \*> mpath;", "mpath_n = 0;", 0), (r"Motion \*solution = goalMotion;", "MotionRef solution = goalMotion;", 0), (r"mpath\.push_back\(solution\);", "MPATH_PUSH(solution);", 0),
            (r"solution = solution->getParent\(\);", "solution = M_parent[solution];", 0), (r"auto path\(std::make_shared<PathGeometric>\(si_\)\);", "path_n = 0;", 0), (r"mpath\.size\(\)", "(int)mpath_n", 0),
            (r"path->append\(mpath\[i\]->getState\(\)\);", "PATH_APPEND(mpath[i]);", 0), (r"pdef_->addSolutionPath\(path, (\w+), ([-\w.]+), getName\(\)\);", r"ADD_SOLUTION(\1, \2);", 0), (r"\bnullptr\b", "NIL", 0)]
UNITS.append(dict(name="c01_fmt_traceSolutionPath", template="C01/fmt_trace.c", mode="plain", entry="h_fmt_trace", flags=["--bounds-check", "--pointer-check", "--signed-overflow-check"], unwind=8, level="bounded", bound="chains of <= 4 motions", backend="minisat", timeout=300,
                  functions=["ompl::geometric::FMT::traceSolutionPathThroughTree"], sources=[dict(name="fmt_trace", file="src/ompl/geometric/planners/fmt/src/FMT.cpp", sig=r"void ompl::geometric::FMT::traceSolutionPathThroughTree\(Motion \*goalMotion\)", rules=FT_RULES, loops={"allow_uncontracted": True})],
                  canaries=[dict(name="goal_motion_left_out", where="body:fmt_trace", rx=r"for \(int i = mPathSize - 1; i >= 0; --i\)", repl="for (int i = mPathSize - 1; i > 0; --i)")]))

PDF1 = "src/ompl/base/src/ProblemDefinition.cpp"
PDEF_RULES = [(r"PlannerSolution sol\(path\);", "Sol sol; SOL_INIT(&sol, path);", 0), (r"sol\.setApproximate\(difference\);", "SOL_SET_APPROX(&sol, difference);", 0), (r"sol\.setPlannerName\(plannerName\);", "", 0), (r"addSolutionPath\(sol\);", "STORE(&sol);", 0),
              (r"!goal_", "!HAS_GOAL", 0), (r"startStates_\.size\(\)", "nstarts", 0), (r"const State \*start = startStates_\[i\];", "bool start = S_present[i];", 0), (r"si_->isValid\(start\)", "S_valid[i]", 0),
              (r"si_->satisfiesBounds\(start\)", "S_inb[i]", 0), (r"goal_->isSatisfied\(start, &dist\)", "GOAL_SAT(i, &dist)", 0)]
PDEF_SRC = [dict(name="pd_addSolutionPath", file=PDF1, sig=r"void ompl::base::ProblemDefinition::addSolutionPath\(const PathPtr &path, bool approximate, double difference,\s*const std::string &plannerName\) const", rules=PDEF_RULES, loops={}),
            dict(name="pd_isTrivial", file=PDF1, sig=r"bool ompl::base::ProblemDefinition::isTrivial\(unsigned int \*startIndex, double \*distance\) const", rules=PDEF_RULES, loops={"allow_uncontracted": True})]
for _h, _fn, _can in (("pd_addSolutionPath", "ProblemDefinition::addSolutionPath(path, approximate, difference, name)", [dict(name="always_stored_as_exact", where="body:pd_addSolutionPath", rx=r"if \(approximate\)", repl="if (0)")]),
                      ("pd_isTrivial", "ProblemDefinition::isTrivial", [dict(name="bounds_not_required", where="body:pd_isTrivial", rx=r" && S_inb\[i\]", repl="")])):
    UNITS.append(dict(name="c01_" + _h, template="C01/pdef.c", mode="plain", entry="h_" + _h, sources=PDEF_SRC, needs=[_h], flags=["--bounds-check", "--pointer-check"], unwind=5, level="proof" if "add" in _h else "bounded", bound="" if "add" in _h else "<= 3 start states",
                      backend="minisat", timeout=300, functions=["ompl::base::" + _fn], canaries=_can))

# geometric::PDST::solve: the flag / status logic (same template as control::PDST in C02; geometric rule variants)
def _pdst_unit():
    if _REENTRANT:
        return []
    sp = importlib.util.spec_from_file_location("c02p", os.path.join(os.path.dirname(__file__), "C02.py")); m = importlib.util.module_from_spec(sp); sp.loader.exec_module(m)
    S_ = re.S
    rules = [(r"unsigned ndim = projectionEvaluator_->getDimension\(\);", "", 0), (r"Eigen::VectorXd tmpProj\(ndim\);", "", 0), (r"addMotion\(newMotion, bsp_, tmpState1, tmpProj\);", "", 0),
             (r"Cell \*cellSelected = motionSelected->cell_;.*?addMotion\(motion, cellSelected, tmpState1, tmpProj\);", "", 0, S_),
             (r"auto path\(std::make_shared<PathGeometric>\(si_\)\);.*?(?=pdef_->addSolutionPath)", "", 0, S_)] + list(m.PDST_RULES)
    return [dict(name="c01_pdst_solve_flags", template="C02/pdst.c", mode="plain", entry="h_pdst", defines={"PROPAGATE_NEVER_FAILS": 1}, flags=["--bounds-check", "--pointer-check", "--signed-overflow-check", "--conversion-check"], unwind=7, level="bounded",
                 bound="<= 2 iterations of the planning loop after an arbitrary earlier result", backend="minisat", timeout=600, functions=["ompl::geometric::PDST::solve (flag and status logic; growth, subdivision and path vector behind stubs)"],
                 sources=[dict(name="solve", file="src/ompl/geometric/planners/pdst/src/PDST.cpp", begin=r"double distanceToGoal, closestDistanceToGoal = std::numeric_limits<double>::infinity\(\);", end=r"\}\s*ompl::geometric::PDST::Motion \*ompl::geometric::PDST::propagateFrom", rules=rules, loops={"allow_uncontracted": True})],
                 canaries=[dict(name="closer_motion_not_recorded", where="body:solve", rx=r"(if \(distanceToGoal < closestDistanceToGoal\)\s*\{\s*closestDistanceToGoal = distanceToGoal;)\s*lastGoalMotion_ = newMotion;", repl=r"\1")])]
UNITS += _pdst_unit()

# roadmap planners: a new problem definition forgets the old query's start/goal milestones (otherwise the old query's path is reported for the new one) -- units of C03
def _c03_query_units():
    sp = importlib.util.spec_from_file_location("c03q", os.path.join(os.path.dirname(__file__), "C03.py")); m = importlib.util.module_from_spec(sp)
    if _REENTRANT:
        return []
    sp.loader.exec_module(m)
    import copy as _copy
    out = []
    for u in m.UNITS:
        if u["name"].endswith("_setProblemDefinition"):
            v = _copy.deepcopy(u); v["name"] = v["name"].replace("c03_", "c01_"); out.append(v)
    return out
UNITS += _c03_query_units()

# the motion validators every planner funnels through (anchors DiscreteMotionValidator.cpp, SpaceInformation.cpp): units of C05.  C01 needs them because several
# planners (KPIECE1, BKPIECE1, STRIDE, PDST) keep the "last valid state" of checkMotion(s1, s2, lastValid) as a tree node: it must be a validated state.
def _c05_units():
    if _REENTRANT:
        return []
    sp = importlib.util.spec_from_file_location("c05v", os.path.join(os.path.dirname(__file__), "C05.py")); m = importlib.util.module_from_spec(sp); sp.loader.exec_module(m)
    import copy as _copy
    out = []
    for u in m.UNITS:
        if u["name"] in ("c05_checkMotion_lastvalid", "c05_checkMotion_bisection", "c05_si_checkMotion_firstInvalid", "c05_si_checkMotion_bisection"):
            v = _copy.deepcopy(u); v["name"] = v["name"].replace("c05_", "c01_validator_"); out.append(v)
    return out
UNITS += _c05_units()

ASSUMPTIONS = ["start states are addressed by index; bounds/validity of the start state at the ghost index are arbitrary fixed values", "exceptions (missing problem definition) are outside the modelled paths"]
TRUSTED = ["extraction rewrite tables of units/C01.py, units/C17.py", "stubs in units/C01/inputs.c, units/C17/pathgeom.c", "CBMC 6.11 DFCC + minisat"]
NOT_COVERED = ["THE SOLVE LOOPS OF THE ~45 GEOMETRIC AND MULTILEVEL PLANNERS: that every tree/roadmap edge is admitted only after checkMotion, that the reported path starts at a start state and ends in the goal region, status/flag consistency per planner, non-solution statuses adding no path (planner bodies are not under contract)",
               "under contract besides geometric::RRT::solve (whole body): RRTConnect growTree + one solve iteration (bounded), PRM approximate solution / addMilestone, SBL path validation, setProblemDefinition/clearQuery of PRM, LazyPRM, SPARS, SPARStwo, PlannerInputStates::nextStart / nextGoal(ptc), GoalState, the solution set; every other solve() body is NOT",
               "PlannerInputStates::nextGoal() (no termination condition), EIT*'s isValidAtResolution"]

MISC_CPPS = ['src/ompl/base/src/Planner.cpp', 'src/ompl/base/goals/src/GoalRegion.cpp', 'src/ompl/geometric/src/PathGeometric.cpp']
NATIVE = [
    dict(name="c01_native_search", driver="native/misc_native.cpp", link_ompl=True, unit_cpps=MISC_CPPS, args=lambda tier, seed: ["c01", seed, 300 if tier == "quick" else 20000], timeout=900),
]


def replay(ur, scratch, seed):
    """Search the real classes for a failing input (native/misc_native.cpp, mode c01)."""
    from vf import native as N, cbmc as C
    exe = N.build_driver("native/misc_native.cpp", scratch, link_ompl=True, unit_cpps=MISC_CPPS)
    r = C.run_cmd([exe, "c01", str(seed), "5000"], 600, env=N.run_env())
    return dict(found=(r["rc"] == 1), driver="native/misc_native.cpp", args=["c01", seed, 5000], link_ompl=True, unit_cpps=MISC_CPPS, output=r["out"][-2500:])
if not _REENTRANT:
    del sys.modules["_c01_loading"]
