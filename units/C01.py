"""C01 -- geometric planners only report solution paths that are real (reduced scope: the shared reporting/filter layer)."""
import importlib.util, os, re
_s = importlib.util.spec_from_file_location("c17", os.path.join(os.path.dirname(__file__), "C17.py")); C17 = importlib.util.module_from_spec(_s); _s.loader.exec_module(C17)
PROPERTY = "C01"
LEVEL = "proof"
PL = "src/ompl/base/src/Planner.cpp"
PSH = "src/ompl/base/PlannerStatus.h"
GR = "src/ompl/base/goals/src/GoalRegion.cpp"
FLAGS = C17.FLAGS
SRC = [
    dict(name="ps_ctor", file=PSH, begin=r"PlannerStatus\(bool hasSolution, bool isApproximate\)\s*:\s*status_\(", end=r"\)\s*\{\s*\}", wrap_braces=False, loops={},
         rules=[(r"PlannerStatus\(bool hasSolution, bool isApproximate\)\s*:\s*status_\(", "status_ = (", 0), (r"$", ");", 0)]),
    dict(name="ps_bool", file=PSH, sig=r"operator bool\(\) const", rules=[], loops={}),
    dict(name="nextStart", file=PL, sig=r"const ompl::base::State \*ompl::base::PlannerInputStates::nextStart\(\)",
         rules=[(r"if \(pdef_ == nullptr \|\| si_ == nullptr\)\s*\{.*?\n    \}", "", 0, re.S),
                (r"pdef_->getStartStateCount\(\)", "START_COUNT", 0), (r"const base::State \*st = pdef_->getStartState\(addedStartStates_\);", "int st = (int)addedStartStates_;", 0),
                (r"si_->satisfiesBounds\(st\)", "satisfiesBoundsIdx((unsigned)st)", 0), (r"si_->isValid\(st\)", "isValidIdx((unsigned)st)", 0),
                (r"std::stringstream ss;\s*si_->printState\(st, ss\);", "", 0), (r"return nullptr;", "return -1;", 0)],
         loops={1: """
__CPROVER_assigns(addedStartStates_, boundsCheckedG, validCheckedG)
__CPROVER_loop_invariant(OLD_IDX <= addedStartStates_ && addedStartStates_ <= START_COUNT)
__CPROVER_loop_invariant((G >= OLD_IDX && G < addedStartStates_) ? (boundsCheckedG && !(BG && VG)) : (!boundsCheckedG && !validCheckedG))
__CPROVER_decreases(START_COUNT - addedStartStates_)
"""}),
    dict(name="restart", file=PL, sig=r"void ompl::base::PlannerInputStates::restart\(\)", rules=[], loops={}),
    dict(name="clear", file=PL, sig=r"void ompl::base::PlannerInputStates::clear\(\)", loops={},
         rules=[(r"tempState_ != nullptr", "tempState_ != 0", 0), (r"si_->freeState\(tempState_\);", "freeStateT(tempState_);", 0), (r"tempState_ = nullptr;", "tempState_ = 0;", 0),
                (r"pdef_\.reset\(\);", "pdef_set = 0;", 0), (r"si_ = nullptr;", "si_set = 0;", 0)]),
    dict(name="isSatisfied", file=GR, sig=r"bool ompl::base::GoalRegion::isSatisfied\(const State \*st, double \*distance\) const", loops={},
         rules=[(r"distanceGoal\(st\)", "distanceGoal()", 0), (r"distance != nullptr", "distance != NULL", 0)]),
]
STUBS = ["satisfiesBoundsIdx", "isValidIdx", "freeStateT", "distanceGoal"]


def U(name, entry, enforce, fn, can=(), mode="dfcc", expect_loops=None):
    d = dict(name=name, template="C01/inputs.c", entry=entry, sources=SRC, flags=FLAGS, level="proof", functions=[fn], canaries=list(can), backend="minisat", confirm=dict(unwind=6, defines={}))
    if mode == "plain":
        d.update(mode="plain", flags=[f for f in FLAGS if not f.startswith("--no-malloc") and f not in ("--object-bits", "12")])
    else:
        d.update(enforce=[enforce], replace=STUBS)
    if expect_loops is not None:
        d["expect_loops"] = expect_loops
    return d


UNITS = [
    U("c01_planner_status", "h_status", None, "ompl::base::PlannerStatus::PlannerStatus(bool,bool), operator bool", mode="plain",
      can=[dict(name="approximate_is_not_a_solution", where="body:ps_bool", rx=r"status_ == APPROXIMATE_SOLUTION \|\| ", repl="")]),
    U("c01_inputstates_nextStart", "h_nextStart", "pis_nextStart", "ompl::base::PlannerInputStates::nextStart", expect_loops=1,
      can=[dict(name="bounds_only", where="body:nextStart", rx=r"if \(bounds && valid\)", repl="if (bounds)")]),
    U("c01_inputstates_restart", "h_restart", "pis_restart", "ompl::base::PlannerInputStates::restart", expect_loops=0),
    U("c01_inputstates_clear", "h_clear", "pis_clear", "ompl::base::PlannerInputStates::clear", expect_loops=0,
      can=[dict(name="keeps_start_cursor", where="body:clear", rx=r"addedStartStates_ = 0;", repl="")]),
    U("c01_goalregion_isSatisfied", "h_goal", "gr_isSatisfied", "ompl::base::GoalRegion::isSatisfied(st, distance)", expect_loops=0,
      can=[dict(name="reports_threshold", where="body:isSatisfied", rx=r"\*distance = d2g;", repl="*distance = threshold_;")]),
    dict(name="c01_path_check", template="C17/pathgeom.c", entry="h_check", sources=C17.SOURCES, enforce=["pg_check"], replace=C17.STUBS, flags=FLAGS, level="proof", expect_loops=1,
         functions=["ompl::geometric::PathGeometric::check"], backend="minisat", confirm=dict(unwind=6, defines={}),
         canaries=[dict(name="last_motion_unchecked", where="body:check", rx=r"j < last;", repl="j < last - 1;")]),
]
ASSUMPTIONS = ["start states are addressed by index; bounds/validity of the start state at the ghost index are arbitrary fixed values", "exceptions (missing problem definition) are outside the modelled paths"]
TRUSTED = ["extraction rewrite tables of units/C01.py, units/C17.py", "stubs in units/C01/inputs.c, units/C17/pathgeom.c", "CBMC 6.11 DFCC + minisat"]
NOT_COVERED = ["THE SOLVE LOOPS OF THE ~45 GEOMETRIC AND MULTILEVEL PLANNERS: that every tree/roadmap edge is admitted only after checkMotion, that the reported path starts at a start state and ends in the goal region, status/flag consistency per planner, non-solution statuses adding no path (planner bodies are not under contract)",
               "PlannerInputStates::nextGoal (goal sampling with termination condition), ProblemDefinition::addSolutionPath flags (see C04 for the solution set), EIT*'s isValidAtResolution"]

MISC_CPPS = ['src/ompl/base/src/Planner.cpp', 'src/ompl/base/goals/src/GoalRegion.cpp', 'src/ompl/geometric/src/PathGeometric.cpp']
NATIVE = [
    dict(name="c01_native_search", driver="native/misc_native.cpp", link_ompl=True, unit_cpps=MISC_CPPS, args=lambda tier, seed: ["c01", seed, 300 if tier == "quick" else 20000], timeout=900),
]


def replay(ur, scratch, seed):
    """Search the real classes for a failing input (native/misc_native.cpp, mode c01)."""
    from vf import native as N, cbmc as C
    exe = N.build_driver("native/misc_native.cpp", scratch, link_ompl=True, unit_cpps=MISC_CPPS)
    r = C.run_cmd([exe, "c01", str(seed), "5000"], 600, env=N.run_env())
    return dict(found=(r["rc"] == 1), driver="native/misc_native.cpp", args=["c01", seed, 5000], link_ompl=True, unit_cpps=MISC_CPPS, output=r["out"][-2500:])
