/* C01 / C04 -- BITstar::bestPathFromGoalToStart and BITstar::publishSolution: the published path, read front to back, starts at a root of the tree (a start
 * state), follows parent links and ends at the incumbent goal vertex (exact) resp. at the vertex closest to the goal (approximate, only when tracking);
 * it is marked approximate exactly in the second case, with the graph's smallest distance to the goal; the cost stored with it is bestCost_ and the
 * "meets the objective" flag is the objective's own verdict for exactly that cost.  Bounded: chains of <= 4 vertices. */
#include <stdbool.h>
#include <stddef.h>
#define NVX 6
#define NIL 0u
#define REACH(msg) __CPROVER_assert(0, "REACH " msg)
typedef unsigned VRef;
bool nondet_bool(void);
VRef V_parent[NVX]; bool hasExactSolution_, TRACK; VRef curGoalVertex_, CLOSEST; double bestCost_, SMALLEST; bool thrown;
VRef rev[NVX]; unsigned rev_n; VRef path[NVX]; unsigned path_n;
bool sol_approx; double sol_dif; double sol_cost; bool sol_opt_flag; bool sol_optimized_called; unsigned adds; double sat_arg; bool SAT_RET;
static bool IS_ROOT(VRef v) { __CPROVER_assert(v != NIL && v < NVX, "live vertex"); return V_parent[v] == NIL; }
static void REV_PUSH(VRef v) { __CPROVER_assert(rev_n < NVX, "model capacity"); rev[rev_n++] = v; }
static void PATH_APPEND(VRef v) { __CPROVER_assert(path_n < NVX, "model capacity"); path[path_n++] = v; }
static bool OBJ_SATISFIED(double c) { sat_arg = c; return SAT_RET; }
static void SET_OPTIMIZED(double cost, bool flag) { sol_optimized_called = true; sol_cost = cost; sol_opt_flag = flag; }
void bit_bestPath(void)
/*@BODY bit_bestPath@*/
void bit_publish(void)
/*@BODY bit_publish@*/
void h_bit_publish(void)
{
    for (VRef v = 1; v < NVX; v++) V_parent[v] = v - 1;           /* chain 1 <- 2 <- 3 <- 4 <- 5, 1 is a root */
    __CPROVER_assume(curGoalVertex_ >= 1 && curGoalVertex_ <= 4 && CLOSEST >= 1 && CLOSEST <= 4 && bestCost_ == bestCost_ && SMALLEST == SMALLEST); thrown = false; adds = 0; path_n = 0; rev_n = 0; sol_approx = false; sol_optimized_called = false;
    __CPROVER_assume(hasExactSolution_ || TRACK);                 /* publishSolution is only called with something to publish (unit c03_bitstar_solve_shell) */
    bit_publish();
    VRef end = hasExactSolution_ ? curGoalVertex_ : CLOSEST;
    __CPROVER_assert(!thrown && adds == 1 && path_n == end, "one path is published; it has as many states as the chain to the reported vertex");
    for (unsigned k = 0; k < NVX; k++) if (k < path_n) __CPROVER_assert(path[k] == k + 1, "C01.start/goal the path runs from a root of the tree along parent links to the reported vertex (front = start)");
    __CPROVER_assert(!sol_approx == !(!hasExactSolution_), "C01.approx the path is marked approximate exactly when there is no exact solution"); if (sol_approx) __CPROVER_assert(sol_dif == SMALLEST, "... with the graph's smallest distance to the goal");
    __CPROVER_assert(sol_optimized_called && sol_cost == bestCost_ && sat_arg == bestCost_ && !sol_opt_flag == !SAT_RET, "C04.flag the cost stored with the solution is the incumbent cost and the objective flag is the objective's verdict for that very cost");
    if (!hasExactSolution_) REACH("approximate"); else REACH("exact");
}
