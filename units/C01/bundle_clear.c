/* C03: multilevel::BundleSpaceGraph::clear -- "clear() forgets the old query completely": every per-query member is back at its
 * freshly-constructed value, in particular the vertex count that guards the cached solution path (getSolution() reuses solutionPath_
 * when getNumberOfVertices() == numVerticesWhenComputingSolutionPath_). */
#include <stddef.h>
#include <stdbool.h>
#define REACH(tag) __CPROVER_assert(0, "REACH " tag)
#define NIL 0
size_t n_vertices, svp_n, sc_n, gc_n, sp_len; bool pis_restarted, base_cleared, setup_, ic_cleared, gs_cleared, pr_cleared, dynamic_;
double graphLength_, bestCost_; unsigned vStart_, numVerticesWhenComputingSolutionPath_; int solutionPath_, pathRestriction_;
static void BASE_CLEAR(void) { base_cleared = 1; }
static bool IS_DYNAMIC(void) { return dynamic_; }
void bsg_clear(void)
/*@BODY clear@*/
void h_bundle_clear(void)
{
    pis_restarted = base_cleared = ic_cleared = gs_cleared = pr_cleared = 0;
    bsg_clear();
    __CPROVER_assert(base_cleared && pis_restarted && n_vertices == 0, "C03.clear the base class, the input iterator and the graph are reset");
    __CPROVER_assert(graphLength_ == 0 && bestCost_ == __builtin_inf() && !setup_ && vStart_ == 0, "C03.clear scalar per-query members are back at their initial values");
    __CPROVER_assert(svp_n == 0 && sc_n == 0 && gc_n == 0, "C03.clear start, goal and path vertex lists are empty");
    __CPROVER_assert(numVerticesWhenComputingSolutionPath_ == 0, "C03.clear the vertex count guarding the cached solution path is reset, so a path of the old query cannot be served again");
    __CPROVER_assert((dynamic_ || solutionPath_ == NIL || sp_len == 0) && ic_cleared && gs_cleared && (pathRestriction_ == NIL || pr_cleared), "C03.clear helper objects and the stored path are cleared");
    REACH("cleared");
}
