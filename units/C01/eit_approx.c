/* C03: EITstar::updateApproximateSolution(state) (EIRM* inherits it) and PRM::setProblemDefinition / clearQuery.
 * EIT*: "the status truthfully describes what the problem definition now holds": EIT* reports APPROXIMATE_SOLUTION from its stored
 * approximate cost, so after the update of an eligible state the problem definition must hold a solution -- in particular after the user
 * cleared the solution paths between two solve() calls; whatever is registered is marked approximate with the state's own cost-to-goal.
 * PRM: a new problem definition forgets the old query unconditionally. */
#include <stdbool.h>
#include <stddef.h>
#define REACH(tag) __CPROVER_assert(0, "REACH " tag)
typedef struct { int path; bool approx; double dif; double cost; bool optimized; } Sol;
bool HAS_FWD, IS_START, IS_GOAL, pdef_has; double CTG, COST_TO_COME, approximateSolutionCost_, approximateSolutionCostToGoal_; int registered; Sol last;
static double COST_TO_GOAL(void) { return CTG; }
static bool better(double a, double b) { return a < b; }
static bool HAS_SOLUTION(void) { return pdef_has; }
static void ADD_SOLUTION(Sol *s) { registered++; last = *s; pdef_has = 1; }
void eit_updateApproximateSolution(void)
/*@BODY eit_approx@*/
void h_eit_approx(void)
{
    __CPROVER_assume(CTG >= 0.0 && COST_TO_COME >= 0.0 && approximateSolutionCostToGoal_ >= 0.0 && approximateSolutionCost_ >= 0.0); registered = 0;
    double c0 = approximateSolutionCost_, g0 = approximateSolutionCostToGoal_; bool had = pdef_has;
    eit_updateApproximateSolution();
    bool eligible = (HAS_FWD || IS_START) && !IS_GOAL;
    if (eligible) __CPROVER_assert(pdef_has, "C03.truthful after the update of an eligible state the problem definition holds a solution");
    if (registered) { __CPROVER_assert(registered == 1 && eligible && last.approx && last.dif == CTG && !last.optimized && last.cost == COST_TO_COME && approximateSolutionCostToGoal_ == CTG && approximateSolutionCost_ == COST_TO_COME, "what is registered is this state's path, marked approximate with its own cost-to-goal; the stored costs are those of the registered path"); REACH("registered"); }
    else { __CPROVER_assert(approximateSolutionCost_ == c0 && approximateSolutionCostToGoal_ == g0 && pdef_has == had, "without a registration nothing changes"); REACH("not registered"); }
    if (registered && !had && !(CTG < g0)) REACH("registered because the solution paths had been cleared");
}

/* ---- PRM::setProblemDefinition / clearQuery ---- */
int pdef_, base_set, query_cleared, solutions_cleared; size_t startM_n, goalM_n; bool pis_restarted;
static void BASE_SET(int p) { pdef_ = p; base_set++; }
void prm_clearQuery(void)
/*@BODY clearQuery@*/
void prm_setProblemDefinition(int pdef)
/*@BODY setProblemDefinition@*/
void h_prm_setpdef(void)
{
    int p; base_set = 0; pis_restarted = 0;
    prm_setProblemDefinition(p);
    __CPROVER_assert(base_set == 1 && pdef_ == p, "the new problem definition is installed");
    __CPROVER_assert(startM_n == 0 && goalM_n == 0 && pis_restarted, "C03.forget a new problem definition forgets the start and goal milestones of the old query and rewinds the input states, unconditionally");
    REACH("set");
}
