/* C01 -- the result-reporting epilogue shared by the tree planners KPIECE1, EST, ProjEST, STRIDE, RLRT, TSRRT, VFRRT (same text as RRT's, which is proved as part of
 * the whole-body RRT unit): given the motion that satisfied the goal (`solution`, may be null) and the motion closest to the goal (`approxsol`, may be null):
 *  - a path is reported iff one of them exists; it is the parent chain of the chosen motion from the root (a start state) to that motion, in this order;
 *  - it is flagged approximate exactly when no motion satisfied the goal, and the reported difference is the recorded approxdif;
 *  - the status says solved iff a path was added, approximate iff that path was flagged so; lastGoalMotion_ is the chosen motion; scratch objects are released.
 * Bounded: chains of <= 4 motions. */
#include <stdbool.h>
#include <stddef.h>
#define NM 6
#define NIL 0u
#define REACH(msg) __CPROVER_assert(0, "REACH " msg)
typedef unsigned MotionRef;
typedef struct { bool solved, approximate; } PStatus;
MotionRef M_parent[NM]; MotionRef lastGoalMotion_; double approxdif;
MotionRef mpath[NM]; unsigned mpath_n; MotionRef path[NM]; unsigned path_n; unsigned adds; bool add_approx; double add_dif; unsigned frees, deletes; bool lgm_set;
static void MPATH_PUSH(MotionRef m) { __CPROVER_assert(mpath_n < NM, "model capacity"); mpath[mpath_n++] = m; }
static void PATH_APPEND(MotionRef m) { __CPROVER_assert(path_n < NM, "model capacity"); path[path_n++] = m; }
static void ADD_SOLUTION(bool approx, double dif) { adds++; add_approx = approx; add_dif = dif; }
PStatus epilogue(MotionRef solution, MotionRef approxsol)
{
/*@BODY epilogue@*/
    { PStatus r_ = {solved, approximate}; return r_; }
}
void h_epilogue(void)
{
    for (MotionRef m = 1; m < NM; m++) M_parent[m] = m - 1;          /* chain 1 <- 2 <- 3 <- 4 <- 5, 1 is a root (start state) */
    MotionRef sol, apx; __CPROVER_assume(sol <= 4 && apx <= 4 && approxdif == approxdif); adds = 0; path_n = 0; mpath_n = 0; frees = deletes = 0; lgm_set = false;
    PStatus st = epilogue(sol, apx);
    MotionRef chosen = sol != NIL ? sol : apx;
    __CPROVER_assert(adds == (chosen != NIL ? 1u : 0u) && !st.solved == !(chosen != NIL), "C01.status a path is added, and the status says solved, exactly when a motion was found");
    if (chosen != NIL)
    {
        __CPROVER_assert(!add_approx == !(sol == NIL) && !st.approximate == !(sol == NIL) && add_dif == approxdif, "C01.approx the path is flagged approximate exactly when no motion satisfied the goal; the reported difference is the recorded one");
        __CPROVER_assert(path_n == chosen && (!lgm_set || lastGoalMotion_ == chosen), "the path is the chain of the chosen motion (which is also what the planner remembers as its last goal motion, if it keeps one)");
        for (unsigned k = 0; k < NM; k++) if (k < path_n) __CPROVER_assert(path[k] == k + 1, "C01.start the path runs from the root (a start state) along parent links to the chosen motion, in this order");
        if (sol == NIL) REACH("approximate"); else REACH("exact");
    }
    else REACH("nothing found");      /* {solved = false, approximate = true} is what these planners return here; PlannerStatus(false, *) is TIMEOUT (unit c01_planner_status) */
}
