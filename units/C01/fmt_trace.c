/* C01 -- FMT::traceSolutionPathThroughTree: the reported path is the parent chain of the goal motion, root (a start state) first, registered as an exact
 * solution.  Bounded: chains of <= 4 motions. */
#include <stdbool.h>
#include <stddef.h>
#define NM 6
#define NIL 0u
#define REACH(msg) __CPROVER_assert(0, "REACH " msg)
typedef unsigned MotionRef;
MotionRef M_parent[NM]; MotionRef mpath[NM]; unsigned mpath_n; MotionRef path[NM]; unsigned path_n; unsigned adds; bool add_approx;
static void MPATH_PUSH(MotionRef m) { __CPROVER_assert(mpath_n < NM, "model capacity"); mpath[mpath_n++] = m; }
static void PATH_APPEND(MotionRef m) { __CPROVER_assert(path_n < NM, "model capacity"); path[path_n++] = m; }
static void ADD_SOLUTION(bool approx, double dif) { adds++; add_approx = approx; }
void fmt_trace(MotionRef goalMotion)
/*@BODY fmt_trace@*/
void h_fmt_trace(void)
{
    for (MotionRef m = 1; m < NM; m++) M_parent[m] = m - 1; MotionRef g; __CPROVER_assume(g >= 1 && g <= 4); adds = 0; path_n = 0; mpath_n = 0;
    fmt_trace(g);
    __CPROVER_assert(adds == 1 && !add_approx && path_n == g, "one exact solution path with one state per motion of the chain");
    for (unsigned k = 0; k < NM; k++) if (k < path_n) __CPROVER_assert(path[k] == k + 1, "C01.start/goal the path runs from the root along parent links to the goal motion");
    REACH("traced");
}
