/* C01: the shared machinery every geometric planner funnels through: PlannerStatus(bool,bool) / operator bool,
 * PlannerInputStates::nextStart / restart / clear counters, GoalRegion::isSatisfied(st, distance). */
#include <stddef.h>
#include <stdbool.h>
bool nondet_bool(void);
#define REACH(tag) __CPROVER_assert(0, "REACH " tag)
enum StatusType { UNKNOWN = 0, INVALID_START, INVALID_GOAL, UNRECOGNIZED_GOAL_TYPE, TIMEOUT, APPROXIMATE_SOLUTION, EXACT_SOLUTION, CRASH, ABORT, INFEASIBLE, TYPE_COUNT };
int status_;
void ps_ctor(bool hasSolution, bool isApproximate)
{
/*@BODY ps_ctor@*/
}
bool ps_bool(void)
/*@BODY ps_bool@*/
/* ---- PlannerInputStates ---- */
unsigned addedStartStates_, sampledGoalsCount_; unsigned START_COUNT;
unsigned G; bool BG, VG; bool boundsCheckedG, validCheckedG; int tempState_; bool pdef_set, si_set; int frees;
bool satisfiesBoundsIdx(unsigned k)
__CPROVER_requires(k < START_COUNT) __CPROVER_assigns(boundsCheckedG)
__CPROVER_ensures(k == G ? (boundsCheckedG && __CPROVER_return_value == BG) : boundsCheckedG == __CPROVER_old(boundsCheckedG));
bool isValidIdx(unsigned k)
__CPROVER_requires(k < START_COUNT) __CPROVER_assigns(validCheckedG)
__CPROVER_ensures(k == G ? (validCheckedG && __CPROVER_return_value == VG) : validCheckedG == __CPROVER_old(validCheckedG));
unsigned OLD_IDX;
int pis_nextStart(void)
__CPROVER_requires(START_COUNT <= 1000000 && addedStartStates_ <= START_COUNT && OLD_IDX == addedStartStates_ && !boundsCheckedG && !validCheckedG)
__CPROVER_assigns(addedStartStates_, boundsCheckedG, validCheckedG)
/* C01.start a returned start state is one of the problem's start states, in bounds AND valid; the cursor moves past it */
__CPROVER_ensures(__CPROVER_return_value >= 0 ==> ((unsigned)__CPROVER_return_value >= OLD_IDX && (unsigned)__CPROVER_return_value < START_COUNT && addedStartStates_ == (unsigned)__CPROVER_return_value + 1))
__CPROVER_ensures((__CPROVER_return_value >= 0 && (unsigned)__CPROVER_return_value == G) ==> (boundsCheckedG && BG && validCheckedG && VG))
/* every start state that was skipped was out of bounds or invalid */
__CPROVER_ensures((G >= OLD_IDX && G < START_COUNT && (__CPROVER_return_value < 0 || G < (unsigned)__CPROVER_return_value)) ==> (boundsCheckedG && !(BG && VG)))
/* nullptr only when no start state is left */
__CPROVER_ensures(__CPROVER_return_value < 0 ==> addedStartStates_ == START_COUNT)
/*@BODY nextStart@*/
void pis_restart(void)
__CPROVER_requires(1) __CPROVER_assigns(addedStartStates_, sampledGoalsCount_)
__CPROVER_ensures(addedStartStates_ == 0 && sampledGoalsCount_ == 0)    /* the next nextStart() begins with the first start state again */
/*@BODY restart@*/
void freeStateT(int s) __CPROVER_requires(s > 0 && frees < 10) __CPROVER_assigns(frees) __CPROVER_ensures(frees == __CPROVER_old(frees) + 1);
void pis_clear(void)
__CPROVER_requires(frees == 0 && tempState_ >= 0) __CPROVER_assigns(addedStartStates_, sampledGoalsCount_, tempState_, pdef_set, si_set, frees)
__CPROVER_ensures(addedStartStates_ == 0 && sampledGoalsCount_ == 0 && tempState_ == 0 && !pdef_set && !si_set)   /* forgets the old query completely */
__CPROVER_ensures(frees == (__CPROVER_old(tempState_) != 0 ? 1 : 0))
/*@BODY clear@*/
/* ---- GoalRegion ---- */
double threshold_, D2G; int dg_calls;
double distanceGoal(void) __CPROVER_requires(dg_calls < 10) __CPROVER_assigns(dg_calls) __CPROVER_ensures(__CPROVER_return_value == D2G && dg_calls == __CPROVER_old(dg_calls) + 1);
double DOUT;
bool gr_isSatisfied(double *distance)
__CPROVER_requires(D2G == D2G && threshold_ == threshold_ && dg_calls == 0 && (distance == NULL || distance == &DOUT))
__CPROVER_assigns(dg_calls; distance != NULL: DOUT)
/* C01.goal the reported goal difference is exactly the distance the goal computed for that state (computed once); satisfied => within the threshold */
__CPROVER_ensures(dg_calls == 1 && (distance == NULL || DOUT == D2G))
__CPROVER_ensures(__CPROVER_return_value ==> D2G <= threshold_)
__CPROVER_ensures(!__CPROVER_return_value ==> D2G >= threshold_)
/*@BODY isSatisfied@*/

void h_status(void)
{
    bool hs = nondet_bool(), ap = nondet_bool(); ps_ctor(hs, ap);
    __CPROVER_assert(ps_bool() == hs, "C01.status a status converts to true exactly when a solution was reported");
    __CPROVER_assert((status_ == APPROXIMATE_SOLUTION) == (hs && ap) && (status_ == EXACT_SOLUTION) == (hs && !ap) && (status_ == TIMEOUT) == !hs, "C01.status status, solution flag and approximate flag agree");
    if (hs && ap) REACH("approximate");
}
void h_nextStart(void) { int r = pis_nextStart(); if (r >= 0 && (unsigned)r > OLD_IDX + 1) REACH("skipped some"); if (r < 0) REACH("none left"); }
void h_restart(void) { pis_restart(); REACH("done"); }
void h_clear(void) { pis_clear(); REACH("done"); }
void h_goal(void) { double *p = 0; bool give; if (give) p = &DOUT; bool r = gr_isSatisfied(p); if (r) REACH("satisfied"); else REACH("not satisfied"); }
