/* C01 (and the grid-owner discipline of C11/C13) -- one iteration of geometric::KPIECE1::solve:
 *  - a motion enters the tree only as a copy of a state whose motion FROM the selected tree state was approved by checkMotion -- either the whole sampled motion,
 *    or the last valid state checkMotion wrote into the sample (accepted only beyond minValidPathFraction_); its parent is the selected motion;
 *  - the cell the iteration selected (whose selection counter selectMotion advanced, and whose score a failed expansion lowers) is re-sorted by
 *    updateCell() at the end of every iteration that goes on (the iteration that finds the solution leaves the loop).
 * States carry a content id; checkMotion(s1, s2, lastValid) is behind the contract proved for it in C05. */
#include <stdbool.h>
#include <stddef.h>
#define NIL 0u
#define REACH(msg) __CPROVER_assert(0, "REACH " msg)
typedef unsigned MotionRef; typedef unsigned CellRef;
bool nondet_bool(void); double nondet_double(void); unsigned nondet_unsigned(void);
typedef struct { unsigned *first; double second; } FailPair;
unsigned cid_next; unsigned M_cid[8]; MotionRef M_parent[8]; MotionRef m_next; unsigned xstate_cid; unsigned approved_from, approved_to; bool approved;
double minValidPathFraction_, failedExpansionScoreFactor_; double C_score[4]; bool cell_dirty[4]; unsigned cell_updates; CellRef selected_cell; MotionRef selected;
MotionRef solution, approxsol; double approxdif; unsigned added; MotionRef added_m; bool SATV; double DISTV; bool broke;
static void SELECT_MOTION(MotionRef *m, CellRef *c) { *m = 1; *c = 2; selected = 1; selected_cell = 2; cell_dirty[2] = true; }     /* selections++ made the cell's priority stale */
static void SAMPLE(void) { xstate_cid = ++cid_next; }
static bool CHECK_MOTION_LV(MotionRef from, unsigned *xs, FailPair *fail)
{   /* C05 contract: true => the whole motion is approved, lastValid untouched; false => lastValid.first (here: the sample itself) holds the last valid state, second in [0,1) */
    __CPROVER_assert(fail->first == xs, "the sample doubles as last-valid storage");
    if (nondet_bool()) { approved = true; approved_from = M_cid[from]; approved_to = *xs; return true; }
    double f = nondet_double(); __CPROVER_assume(f >= 0.0 && f < 1.0); fail->second = f; *xs = ++cid_next; approved = true; approved_from = M_cid[from]; approved_to = *xs; return false;
}
static MotionRef NEW_MOTION(void) { __CPROVER_assert(m_next < 8, "model capacity"); MotionRef m = m_next++; M_cid[m] = 0; M_parent[m] = NIL; return m; }
static void ADD_TO_DISC(MotionRef m) { __CPROVER_assert(approved && M_parent[m] == selected && approved_from == M_cid[selected] && approved_to == M_cid[m], "C01.edge the motion added to the tree was approved by checkMotion from its parent's state to ITS state"); added++; added_m = m; }
static bool GOAL_SAT(MotionRef m, double *d) { *d = DISTV; return SATV; }
static void UPDATE_CELL(CellRef c) { __CPROVER_assert(c == selected_cell, "the selected cell is the one re-sorted"); cell_dirty[c] = false; cell_updates++; }
void kp_iteration(void)
{
    unsigned xstate_ = 0; unsigned *xstate = &xstate_cid; broke = true;
    for (int once_ = 0; once_ < 1; ++once_)
    {
/*@BODY kp_iteration@*/
        broke = false;
    }
}
void h_kp_iteration(void)
{
    cid_next = 10; m_next = 2; M_cid[1] = 5; M_parent[1] = NIL; approved = false; added = 0; cell_updates = 0; for (int c = 0; c < 4; c++) { cell_dirty[c] = false; __CPROVER_assume(C_score[c] >= 0.0 && C_score[c] <= 1e6); }
    solution = NIL; approxsol = NIL; approxdif = __builtin_inf(); __CPROVER_assume(DISTV == DISTV && DISTV >= 0.0 && minValidPathFraction_ >= 0.0 && minValidPathFraction_ <= 1.0 && failedExpansionScoreFactor_ > 0.0 && failedExpansionScoreFactor_ <= 1.0);
    kp_iteration();
    if (!broke) { __CPROVER_assert(cell_updates == 1 && !cell_dirty[2], "C13.queues an iteration that goes on re-sorts the cell it selected (selection count / score changed)"); }
    else __CPROVER_assert(solution != NIL && added == 1, "the loop is left early only with a solution");
    if (added) REACH("motion added"); else REACH("expansion failed"); if (broke) REACH("solution found");
}
