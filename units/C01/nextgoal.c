/* C01 / C03 -- PlannerInputStates::nextGoal(ptc): the loop that draws goal states from a sampleable goal region.
 *  C01: a state handed to the planner as a goal is the LAST sample drawn, and it passed satisfiesBounds and isValid after it was drawn;
 *  C03: the termination condition is consulted between samples: once it holds at most one more goal sample is drawn (the draw in flight) and the call returns.
 * Model: the termination condition is a flag that may become true at any sampling or waiting event and stays true; ptc evaluates the flag.
 * Bounded: maxSampleCount <= 3, <= 2 waiting rounds. */
#include <stdbool.h>
#include <stddef.h>
#define REACH(msg) __CPROVER_assert(0, "REACH " msg)
bool nondet_bool(void);
bool pdef_set, si_set, HAS_GOAL, GOAL_SAMPLEABLE, thrown; unsigned sampledGoalsCount_, MAXSAMPLES; int tempState_;
bool TERM; unsigned samples_after_term, samples, sleeps; unsigned version, bounds_checked_version, valid_checked_version; bool bounds_ok, valid_ok; unsigned allocs;
static void tick(void) { if (!TERM) TERM = nondet_bool(); }
static bool PTC(void) { return TERM; }
static bool CAN_SAMPLE(void) { return nondet_bool(); }
static bool COULD_SAMPLE(void) { return nondet_bool(); }
static void SAMPLE_GOAL(void) { __CPROVER_assert(tempState_ != 0, "sampling into an allocated state"); if (TERM) samples_after_term++; samples++; version++; tick(); }
static bool SAT_BOUNDS(void) { bounds_checked_version = version; bounds_ok = nondet_bool(); return bounds_ok; }
static bool IS_VALID(void) { valid_checked_version = version; valid_ok = nondet_bool(); return valid_ok; }
static void SLEEP(void) { sleeps++; __CPROVER_assume(sleeps <= 2); tick(); }
long pis_nextGoal_ptc(void)
/*@BODY nextGoal_ptc@*/
void h_nextGoal_ptc(void)
{
    __CPROVER_assume(MAXSAMPLES <= 3 && sampledGoalsCount_ <= MAXSAMPLES && (tempState_ == 0 || tempState_ == 7)); pdef_set = true; si_set = true; thrown = false;
    TERM = nondet_bool(); samples_after_term = 0; samples = 0; sleeps = 0; version = 1; bounds_checked_version = 0; valid_checked_version = 0; unsigned c0 = sampledGoalsCount_;
    long r = pis_nextGoal_ptc();
    __CPROVER_assert(sampledGoalsCount_ == c0 + samples && sampledGoalsCount_ <= MAXSAMPLES, "the sample counter counts every draw and respects the region's maximum");
    if (r != 0) { __CPROVER_assert(r == tempState_ && samples >= 1 && bounds_checked_version == version && bounds_ok && valid_checked_version == version && valid_ok, "C01.goal a goal state handed out is the last sample drawn, found in bounds and valid after it was drawn"); REACH("goal state returned"); }
    __CPROVER_assert(samples_after_term <= 1, "C03.stop once the termination condition holds at most one more goal sample is drawn (the loop samples first and consults the condition before the next draw)");
    if (r == 0 && TERM && samples >= 1) REACH("interrupted while skipping invalid samples");
    if (r == 0 && !TERM) REACH("region exhausted or cannot sample");
}
