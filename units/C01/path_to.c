/* C01 -- AITstar::getPathToVertex and EITstar::getPathToState: the reported path, front to back, starts at a start vertex of the graph, follows forward-parent
 * links and ends at the given vertex (each state once, in this order).  Bounded: chains of <= 4 vertices. */
#include <stdbool.h>
#include <stddef.h>
#define NVX 6
#define NIL 0u
#define REACH(msg) __CPROVER_assert(0, "REACH " msg)
typedef unsigned VRef;
VRef V_parent[NVX]; VRef rev[NVX]; unsigned rev_n; VRef path[NVX]; unsigned path_n;
static bool IS_START(VRef v) { __CPROVER_assert(v != NIL && v < NVX, "live vertex"); return v == 1; }
static void REV_PUSH(VRef v) { __CPROVER_assert(rev_n < NVX, "model capacity"); rev[rev_n++] = v; }
static void PATH_APPEND(VRef v) { __CPROVER_assert(path_n < NVX, "model capacity"); path[path_n++] = v; }
void path_to(VRef vertex)
/*@BODY path_to@*/
void h_path_to(void)
{
    for (VRef v = 1; v < NVX; v++) V_parent[v] = v - 1;
    VRef goal; __CPROVER_assume(goal >= 1 && goal <= 4); rev_n = 0; path_n = 0;
    path_to(goal);
    __CPROVER_assert(path_n == goal, "as many states as the chain from the start to the vertex");
    for (unsigned k = 0; k < NVX; k++) if (k < path_n) __CPROVER_assert(path[k] == k + 1, "C01.start/goal the path starts at the start vertex, follows parent links and ends at the given vertex");
    if (goal == 4) REACH("four vertices"); if (goal == 1) REACH("the start itself");
}
