/* C01 -- ProblemDefinition::addSolutionPath(path, approximate, difference, name): the stored solution carries exactly the flag and the difference the planner
 * reported (an exact solution is stored with approximate_ == false); ProblemDefinition::isTrivial: a start state is reported as already solving the problem
 * only if it is valid, within bounds and accepted by the goal, and the reported index / distance are that state's. */
#include <stdbool.h>
#include <stddef.h>
#define NS 3
#define REACH(msg) __CPROVER_assert(0, "REACH " msg)
typedef struct { int path; bool approximate_; double difference_; } Sol;
Sol stored; unsigned stores;
static void SOL_INIT(Sol *s, int path) { s->path = path; s->approximate_ = false; s->difference_ = -1.0; }
static void SOL_SET_APPROX(Sol *s, double d) { s->approximate_ = true; s->difference_ = d; }
static void STORE(const Sol *s) { stored = *s; stores++; }
void pd_addSolutionPath(int path, bool approximate, double difference)
/*@BODY pd_addSolutionPath@*/
bool HAS_GOAL; unsigned nstarts; bool S_present[NS], S_valid[NS], S_inb[NS], S_sat[NS]; double S_dist[NS];
static bool GOAL_SAT(unsigned i, double *d) { *d = S_dist[i]; return S_sat[i]; }
bool pd_isTrivial(unsigned int *startIndex, double *distance)
/*@BODY pd_isTrivial@*/
void h_pd_addSolutionPath(void)
{
    bool a; double d; __CPROVER_assume(d == d); stores = 0;
    pd_addSolutionPath(7, a, d);
    __CPROVER_assert(stores == 1 && stored.path == 7 && !stored.approximate_ == !a && (!a || stored.difference_ == d), "C01.approx the stored solution is flagged approximate exactly when the planner said so, with the planner's difference");
    if (a) REACH("approximate"); else REACH("exact");
}
void h_pd_isTrivial(void)
{
    __CPROVER_assume(nstarts <= NS); for (unsigned i = 0; i < NS; i++) __CPROVER_assume(S_dist[i] == S_dist[i]);
    unsigned idx = 99; double dist = -5.0; bool r = pd_isTrivial(&idx, &dist);
    if (r) { __CPROVER_assert(HAS_GOAL && idx < nstarts && S_present[idx] && S_valid[idx] && S_inb[idx] && S_sat[idx] && dist == S_dist[idx], "C01.trivial a start state solves the problem outright only if it is valid, in bounds and in the goal; index and distance are its own");
             for (unsigned i = 0; i < NS; i++) if (i < idx) __CPROVER_assert(!(S_present[i] && S_valid[i] && S_inb[i] && S_sat[i]), "the first such start state is reported"); REACH("trivial"); }
    else { for (unsigned i = 0; i < NS; i++) if (i < nstarts && HAS_GOAL) __CPROVER_assert(!(S_present[i] && S_valid[i] && S_inb[i] && S_sat[i]), "no qualifying start state is overlooked"); REACH("not trivial"); }
}
