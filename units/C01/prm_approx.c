/* C01: PRM::constructApproximateSolution -- "the approximate flag and the reported goal difference agree with the reported path's last
 * state": when the function returns a finite difference, a path was handed back, it starts at a start vertex, it ends at a vertex the
 * graph search reached from that start, and the returned difference IS the heuristic distance of that last vertex to one of the goals.
 * The graph search is abstract (which vertices it reaches is arbitrary, the start always is); costHeuristic is an arbitrary table.
 * Bounded: <= 2 starts, <= 2 goals, <= 3 roadmap vertices. */
#include <stddef.h>
#include <stdbool.h>
#define NV 3
#define REACH(tag) __CPROVER_assert(0, "REACH " tag)
typedef unsigned Vertex;
unsigned NS_, NG_, NV_; Vertex STARTS[2], GOALS[2]; double H[NV][NV]; bool PAIROK[NV][NV]; bool RF[NV][NV][NV]; double INFC;
Vertex cur_s, cur_g; bool searched; int SOL_LAST, SOL_FIRST; Vertex SOL_GOAL;
static bool better(double a, double b) { return a < b; }
static double costHeuristic(Vertex a, Vertex b) { __CPROVER_assert(a < NV_ && b < NV_, "vertex in range"); return H[a][b]; }
static bool isStartGoalPairValid(Vertex g, Vertex s) { return PAIROK[s][g]; }
static void ASTAR(Vertex s, Vertex g) { cur_s = s; cur_g = g; searched = 1; }
static bool RANK_FINITE(Vertex v) { __CPROVER_assert(searched && v < NV_, "rank read after the search"); return v == cur_s || RF[cur_s][cur_g][v]; }
static void SOLUTION_TO(Vertex v, Vertex s) { __CPROVER_assert(searched && s == cur_s && (v == cur_s || RF[cur_s][cur_g][v]), "C01.path the approximate path ends at a vertex the search reached from its start"); SOL_LAST = (int)v; SOL_FIRST = (int)s; SOL_GOAL = cur_g; }

double prm_constructApproximateSolution(void)
/*@BODY approx@*/

void h_prm_approx(void)
{
    __CPROVER_assume(NV_ >= 1 && NV_ <= NV && NS_ <= 2 && NG_ <= 2 && INFC == __builtin_inf());
    for (unsigned k = 0; k < 2; k++) __CPROVER_assume(STARTS[k] < NV_ && GOALS[k] < NV_);
    for (unsigned a = 0; a < NV; a++) for (unsigned b = 0; b < NV; b++) __CPROVER_assume(H[a][b] >= 0.0 && H[a][b] < INFC);
    SOL_LAST = -1; SOL_FIRST = -1; searched = 0;
    double r = prm_constructApproximateSolution();
    if (r < INFC)
    {
        __CPROVER_assert(SOL_LAST >= 0, "C01.approx a finite difference comes with a path");
        __CPROVER_assert(SOL_FIRST == (int)STARTS[0] || (NS_ == 2 && SOL_FIRST == (int)STARTS[1]), "C01.path the approximate path begins at a start");
        __CPROVER_assert((NG_ >= 1 && r == H[SOL_LAST][GOALS[0]]) || (NG_ == 2 && r == H[SOL_LAST][GOALS[1]]), "C01.difference the reported difference is the distance of the path's last state to a goal");
        REACH("approximate solution");
    }
    else { if (SOL_LAST >= 0) REACH("path superseded by a closer start, nothing reported"); if (SOL_LAST < 0 && NS_ && NG_) REACH("nothing closer than the start"); }
}
