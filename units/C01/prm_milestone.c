/* C01: PRM::addMilestone -- a roadmap edge is added only between the new milestone and a neighbour whose motion the motion check approved
 * (for exactly these two states), its weight is the objective's cost of exactly that motion, and the union-find structure used to decide
 * "start and goal are connected" is united for exactly the pairs that got an edge.  Bounded: <= 3 neighbours proposed. */
#include <stddef.h>
#include <stdbool.h>
#define NV 5
#define REACH(tag) __CPROVER_assert(0, "REACH " tag)
typedef unsigned Vertex; typedef unsigned SRef;
SRef SP[NV]; unsigned TOTAL[NV], SUCC[NV]; Vertex next_v; unsigned n_nb; Vertex NB[3];
struct { SRef a, b; bool ok; bool used; } LASTCM; struct { SRef a, b; double v; bool used; } LASTMC;
int edges, unions, nn_added; Vertex last_edge_n, last_edge_m, made_set; bool edge_pending_union;
bool nondet_bool(void); double nondet_double(void);
static Vertex ADD_VERTEX(void) { __CPROVER_assert(next_v < NV, "pool"); return next_v++; }
static void MAKE_SET(Vertex m) { made_set = m; }
static bool FILTER(Vertex n, Vertex m) { return nondet_bool(); }
static bool CM(SRef a, SRef b) { bool r = nondet_bool(); LASTCM.a = a; LASTCM.b = b; LASTCM.ok = r; LASTCM.used = 1; return r; }
static double MOTION_COST(SRef a, SRef b) { double v = nondet_double(); __CPROVER_assume(v >= 0.0); LASTMC.a = a; LASTMC.b = b; LASTMC.v = v; LASTMC.used = 1; return v; }
static void ADD_EDGE(Vertex n, Vertex m, double w)
{
    __CPROVER_assert(n < next_v && m < next_v && n != m, "edge between existing distinct vertices");
    __CPROVER_assert(LASTCM.used && LASTCM.ok && LASTCM.a == SP[n] && LASTCM.b == SP[m], "C01.edge a roadmap edge is added only after the motion check approved exactly this motion");
    __CPROVER_assert(LASTMC.used && LASTMC.a == SP[n] && LASTMC.b == SP[m] && LASTMC.v == w, "C04.weight the edge weight is the objective's cost of exactly this motion");
    __CPROVER_assert(!edge_pending_union, "components are united before the next edge");
    edges++; last_edge_n = n; last_edge_m = m; edge_pending_union = 1;
}
static void UNITE(Vertex n, Vertex m) { __CPROVER_assert(edge_pending_union && n == last_edge_n && m == last_edge_m, "C01.components components are united for exactly the pairs that got an edge"); edge_pending_union = 0; unions++; }
static void NN_ADD(Vertex m) { nn_added++; }
Vertex prm_addMilestone(SRef state)
/*@BODY addMilestone@*/
void h_addMilestone(void)
{
    next_v = 3; SP[0] = 10; SP[1] = 11; SP[2] = 12; edges = unions = nn_added = 0; edge_pending_union = 0; LASTCM.used = 0; LASTMC.used = 0; made_set = NV;
    __CPROVER_assume(n_nb <= 3); for (unsigned k = 0; k < 3; k++) __CPROVER_assume(NB[k] < 3 && TOTAL[k] < 1000000000u && SUCC[k] < 1000000000u);
    Vertex m = prm_addMilestone(20);
    __CPROVER_assert(m == 3 && SP[m] == 20 && made_set == m && nn_added == 1, "the milestone is a new vertex holding the state, in a component of its own, known to the neighbour structure");
    __CPROVER_assert(edges == unions && !edge_pending_union && edges <= (int)n_nb, "C01.components as many unions as edges");
    __CPROVER_assert(SUCC[m] == (unsigned)edges && TOTAL[m] >= SUCC[m], "connection statistics count the edges");
    if (edges > 1) REACH("several edges"); if (edges == 0 && n_nb > 0) REACH("no neighbour connected");
}
