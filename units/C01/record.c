/* C01 / C02 -- the per-motion solution bookkeeping shared by many tree planners:  verdict = goal->isSatisfied(motion->state, &dist);  on acceptance the motion
 * becomes `solution` (and the search stops), otherwise it replaces `approxsol` iff it is strictly closer to the goal than anything seen so far.
 * Over a sequence of <= 3 motions with arbitrary verdicts and distances: the motion reported as exact is one the goal accepted; without an accepted motion the
 * remembered approximate motion is the closest seen; approxdif is the remembered motion's own distance. */
#include <stdbool.h>
#include <stddef.h>
#define NM 5
#define NIL 0u
#define REACH(msg) __CPROVER_assert(0, "REACH " msg)
typedef unsigned MotionRef;
bool SAT[NM]; double DISTG[NM]; MotionRef solution, approxsol; double approxdif; bool solved; bool stopped;
static bool GOAL_SAT(MotionRef m, double *d) { __CPROVER_assert(m != NIL && m < NM, "goal test of a live motion"); *d = DISTG[m]; return SAT[m]; }
void record_motion(MotionRef motion)
{
    double dist = 0.0; stopped = true;
    for (int once_ = 0; once_ < 1; ++once_)
    {
/*@BODY record@*/
        stopped = false;
    }
}
void h_record(void)
{
    for (MotionRef m = 1; m < NM; m++) __CPROVER_assume(DISTG[m] == DISTG[m] && DISTG[m] >= 0.0 && DISTG[m] <= 1e300);
    solution = NIL; approxsol = NIL; approxdif = __builtin_inf(); solved = false; unsigned n; __CPROVER_assume(n <= 3); unsigned seen = 0; bool stop = false;
    for (MotionRef m = 1; m <= 3; m++) if (m <= n && !stop) { record_motion(m); seen = m; stop = stopped; }
    if (solution != NIL) { __CPROVER_assert(solution == seen && SAT[solution] && stop && approxdif == DISTG[solution], "C01.goal a motion is reported as the exact solution only if the goal accepted it (the search stops there)"); REACH("exact"); }
    else
    {
        __CPROVER_assert(!stop, "the search goes on while no motion satisfied the goal");
        for (MotionRef m = 1; m <= 3; m++) if (m <= seen) __CPROVER_assert(!SAT[m] && approxsol != NIL && DISTG[approxsol] <= DISTG[m], "C01.approx without an accepted motion the remembered approximate motion is the closest one seen");
        if (approxsol != NIL) __CPROVER_assert(approxdif == DISTG[approxsol], "the remembered difference is that motion's own goal distance");
        if (seen == 3 && approxsol == 2) REACH("closest was not the last");
    }
}
