/* C01 / C03 showcase: the WHOLE body of geometric::RRT::solve under contract (one planner; stated as exactly that).
 * Memory model: motions and states are references into field maps (Burstall); a state carries ghost content:
 *   S_cid      content identity (fresh on every sample / interpolation, copied by copyState)
 *   S_start    the content is a copy of a start state that nextStart() handed out (valid, in bounds: C01 nextStart unit)
 *   S_seg      token of the checkMotion call whose validated motion the state lies on (getMotionStates)
 *   S_gdist / S_gsat   what goal->isSatisfied reported for this content.
 * The property is carried by callee PRECONDITIONS (call-site obligations for every call, no quantifier):
 *   NN_ADD(m)        -- a motion enters the tree only as a copy of a valid start state, or with a parent that is in the tree and an
 *                       edge parent->m that the immediately preceding checkMotion validated (or that lies on that validated motion);
 *   addSolutionPath  -- the path is non-empty, starts at a root (start state), every consecutive pair is a tree edge, it ends at the
 *                       motion whose goal test produced the reported flag and difference; called at most once;
 *   free*            -- every temporary is freed exactly once, tree states are never freed here.
 * ptc() returns an arbitrary value at EVERY evaluation, so every interruption point (including before the first iteration) is covered. */
#include <stddef.h>
#include <stdbool.h>
#ifndef MAXM
#define MAXM 8
#endif
#define MAXS (2 * MAXM + 16)
#define REACH(tag) __CPROVER_assert(0, "REACH " tag)
typedef unsigned MRef; typedef unsigned SRef;
MRef M_parent[MAXM]; SRef M_state[MAXM]; bool in_tree[MAXM]; bool M_alive[MAXM]; double M_gdist[MAXM]; bool M_gsat[MAXM]; bool M_geval[MAXM];
long S_cid[MAXS]; bool S_start[MAXS]; long S_seg[MAXS]; bool S_alive[MAXS]; bool S_owned_by_tree[MAXS];
MRef next_m; SRef next_s; long next_cid; unsigned tree_size;
long CM_from, CM_to, CM_token; bool CM_ok;
bool addIntermediateStates_, have_goal_s, have_sampler; double goalBias_, maxDistance_;
MRef lastGoalMotion_;
/* status */
enum { ST_INVALID_START = 1, ST_TIMEOUT = 4, ST_APPROX = 5, ST_EXACT = 6 };
int live_unowned; bool ptc_fired; int ptc_after_fired;
int n_paths_added; bool added_approx; double added_dif; SRef added_last;
/* ---- stubs with contracts ---- */
bool ptc(void)      /* arbitrary at every evaluation; ghost: evaluations made after it first reported true */
__CPROVER_requires(ptc_after_fired < 1000)
__CPROVER_assigns(ptc_fired, ptc_after_fired)
__CPROVER_ensures(ptc_fired == (__CPROVER_old(ptc_fired) || __CPROVER_return_value) && ptc_after_fired == __CPROVER_old(ptc_after_fired) + (__CPROVER_old(ptc_fired) ? 1 : 0));
SRef pis_nextStart(void)
__CPROVER_requires(next_s < MAXS - 4)
__CPROVER_assigns(next_s, S_cid[next_s], S_start[next_s], S_alive[next_s], S_owned_by_tree[next_s], next_cid)
__CPROVER_ensures(__CPROVER_return_value == 0 || __CPROVER_return_value == __CPROVER_old(next_s))
__CPROVER_ensures(__CPROVER_return_value == 0 ? (next_s == __CPROVER_old(next_s) && next_cid == __CPROVER_old(next_cid)) :
                  (next_s == __CPROVER_old(next_s) + 1 && next_s < MAXS - 8 && S_start[__CPROVER_old(next_s)] && S_cid[__CPROVER_old(next_s)] == __CPROVER_old(next_cid) && next_cid == __CPROVER_old(next_cid) + 1 && next_cid < (1L << 62) && S_alive[__CPROVER_old(next_s)] && !S_owned_by_tree[__CPROVER_old(next_s)]));
MRef NEW_MOTION_S(void)     /* new Motion(si_): a motion with a freshly allocated state */
__CPROVER_requires(next_m < MAXM && next_s < MAXS - 4)
__CPROVER_requires(live_unowned >= 0 && live_unowned < 1000000)
__CPROVER_assigns(live_unowned, next_m, next_s, M_parent[next_m], M_state[next_m], M_alive[next_m], in_tree[next_m], M_geval[next_m], S_alive[next_s], S_cid[next_s], S_start[next_s], S_seg[next_s], S_owned_by_tree[next_s])
__CPROVER_ensures(__CPROVER_return_value == __CPROVER_old(next_m) && next_m == __CPROVER_old(next_m) + 1 && next_m < MAXM && __CPROVER_return_value >= 1)   /* model bound: fewer than MAXM motions */
__CPROVER_ensures(M_parent[__CPROVER_return_value] == 0 && M_alive[__CPROVER_return_value] && M_state[__CPROVER_return_value] == __CPROVER_old(next_s) && next_s == __CPROVER_old(next_s) + 1 && next_s < MAXS - 8)
__CPROVER_ensures(!in_tree[__CPROVER_return_value] && !S_owned_by_tree[M_state[__CPROVER_return_value]] && !M_geval[__CPROVER_return_value] && live_unowned == __CPROVER_old(live_unowned) + 1)
__CPROVER_ensures(S_alive[M_state[__CPROVER_return_value]] && !S_start[M_state[__CPROVER_return_value]] && S_cid[M_state[__CPROVER_return_value]] == 0 && S_seg[M_state[__CPROVER_return_value]] == 0);
MRef NEW_MOTION(void)       /* new Motion: no state */
__CPROVER_requires(next_m < MAXM)
__CPROVER_assigns(next_m, M_parent[next_m], M_state[next_m], M_alive[next_m], in_tree[next_m], M_geval[next_m])
__CPROVER_ensures(__CPROVER_return_value == __CPROVER_old(next_m) && next_m == __CPROVER_old(next_m) + 1 && next_m < MAXM && __CPROVER_return_value >= 1 && M_parent[__CPROVER_return_value] == 0 && M_state[__CPROVER_return_value] == 0 && M_alive[__CPROVER_return_value])
__CPROVER_ensures(!in_tree[__CPROVER_return_value] && !M_geval[__CPROVER_return_value]);
void DELETE_MOTION(MRef m)
__CPROVER_requires(m >= 1 && m < MAXM && M_alive[m] && !in_tree[m])       /* C03.mem only the scratch motion is deleted here, once, never a tree member */
__CPROVER_assigns(M_alive[m]) __CPROVER_ensures(!M_alive[m]);
SRef allocState(void)
__CPROVER_requires(next_s < MAXS - 4 && live_unowned >= 0 && live_unowned < 1000000)
__CPROVER_assigns(live_unowned, next_s, S_alive[next_s], S_cid[next_s], S_start[next_s], S_seg[next_s], S_owned_by_tree[next_s])
__CPROVER_ensures(__CPROVER_return_value == __CPROVER_old(next_s) && next_s == __CPROVER_old(next_s) + 1 && next_s < MAXS - 8 && __CPROVER_return_value >= 1 && S_alive[__CPROVER_return_value] && !S_start[__CPROVER_return_value] && S_cid[__CPROVER_return_value] == 0 && S_seg[__CPROVER_return_value] == 0)
__CPROVER_ensures(!S_owned_by_tree[__CPROVER_return_value] && live_unowned == __CPROVER_old(live_unowned) + 1);
void freeState(SRef s)
__CPROVER_requires(s >= 1 && s < MAXS && S_alive[s] && !S_owned_by_tree[s])   /* C03.mem no double free, no free of a state owned by a tree motion */
__CPROVER_requires(live_unowned >= 1)
__CPROVER_assigns(S_alive[s], live_unowned) __CPROVER_ensures(!S_alive[s] && live_unowned == __CPROVER_old(live_unowned) - 1);
void copyState(SRef dst, SRef src)
__CPROVER_requires(dst >= 1 && dst < MAXS && src >= 1 && src < MAXS && S_alive[dst] && S_alive[src] && !S_owned_by_tree[dst])
__CPROVER_assigns(S_cid[dst], S_start[dst], S_seg[dst])
__CPROVER_ensures(S_cid[dst] == S_cid[src] && S_start[dst] == S_start[src] && S_seg[dst] == S_seg[src]);
void SAMPLE_INTO(SRef s)    /* goal_s->sampleGoal(s) / sampler_->sampleUniform(s) / interpolate(..., s): fresh content */
__CPROVER_requires(s >= 1 && s < MAXS && S_alive[s] && !S_owned_by_tree[s])   /* the contents of tree states are never overwritten */
__CPROVER_assigns(S_cid[s], S_start[s], S_seg[s], next_cid)
__CPROVER_ensures(S_cid[s] == __CPROVER_old(next_cid) && next_cid == __CPROVER_old(next_cid) + 1 && next_cid < (1L << 62) && !S_start[s] && S_seg[s] == 0);
bool uniform01_lt_goalBias(void) __CPROVER_requires(1) __CPROVER_assigns() __CPROVER_ensures(1);
bool canSampleGoal(void) __CPROVER_requires(have_goal_s) __CPROVER_assigns() __CPROVER_ensures(1);
void NN_ADD(MRef m)
__CPROVER_requires(m >= 1 && m < MAXM && M_alive[m] && !in_tree[m] && M_state[m] >= 1 && M_state[m] < MAXS && S_alive[M_state[m]] && tree_size < 1000000000u)
/* C01.edge: root = copy of a valid start state; otherwise parent in the tree (created earlier) and the edge validated by the last motion check */
__CPROVER_requires(M_parent[m] == 0 ? S_start[M_state[m]] :
                   (M_parent[m] < m && in_tree[M_parent[m]] && CM_ok &&
                    ((CM_from == S_cid[M_state[M_parent[m]]] && CM_to == S_cid[M_state[m]]) ||
                     (S_seg[M_state[m]] == CM_token && CM_token != 0 && (CM_from == S_cid[M_state[M_parent[m]]] || S_seg[M_state[M_parent[m]]] == CM_token)))))
__CPROVER_requires(live_unowned >= 1)
__CPROVER_assigns(in_tree[m], S_owned_by_tree[M_state[m]], tree_size, live_unowned)
__CPROVER_ensures(in_tree[m] && S_owned_by_tree[M_state[m]] && tree_size == __CPROVER_old(tree_size) + 1 && live_unowned == __CPROVER_old(live_unowned) - 1);   /* ownership of the state passes to the tree */
MRef NN_NEAREST(MRef q)
__CPROVER_requires(tree_size > 0 && q >= 1 && q < MAXM)
__CPROVER_assigns() __CPROVER_ensures(__CPROVER_return_value >= 1 && __CPROVER_return_value < MAXM && __CPROVER_return_value < next_m) __CPROVER_ensures(in_tree[__CPROVER_return_value] && M_alive[__CPROVER_return_value] && M_state[__CPROVER_return_value] >= 1 && M_state[__CPROVER_return_value] < MAXS && S_alive[M_state[__CPROVER_return_value]] && S_owned_by_tree[M_state[__CPROVER_return_value]] && M_state[__CPROVER_return_value] < next_s);
unsigned NN_SIZE(void) __CPROVER_requires(1) __CPROVER_assigns() __CPROVER_ensures(__CPROVER_return_value == tree_size);
double distanceS(SRef a, SRef b) __CPROVER_requires(a >= 1 && b >= 1 && a < MAXS && b < MAXS) __CPROVER_assigns() __CPROVER_ensures(__CPROVER_return_value >= 0.0);
double FDIVT(double a, double b) __CPROVER_requires(b > 0.0) __CPROVER_assigns() __CPROVER_ensures(1);
bool checkMotionS(SRef a, SRef b)
__CPROVER_requires(a >= 1 && b >= 1 && a < MAXS && b < MAXS && S_alive[a] && S_alive[b])
__CPROVER_assigns(CM_ok, CM_from, CM_to, CM_token)
__CPROVER_ensures(CM_ok == __CPROVER_return_value && CM_from == S_cid[a] && CM_to == S_cid[b] && CM_token == __CPROVER_old(CM_token) + 1 && CM_token > 0 && CM_token < (1L << 62));
unsigned validSegmentCountS(SRef a, SRef b) __CPROVER_requires(1) __CPROVER_assigns() __CPROVER_ensures(__CPROVER_return_value <= 1000);
/* getMotionStates(a, b, states, count, true, true): states[0] is a new copy of a; every further state is newly allocated and lies on the motion a->b */
SRef MS_states[8]; size_t MS_size;
bool getMotionStatesS(SRef a, SRef b, unsigned count)
__CPROVER_requires(CM_ok && CM_from == S_cid[a] && CM_to == S_cid[b])     /* only a motion that was just validated is subdivided into tree states */
__CPROVER_requires(live_unowned >= 0 && live_unowned < 1000000)
__CPROVER_assigns(live_unowned, __CPROVER_object_whole(MS_states), MS_size, next_s, S_alive[next_s], S_alive[next_s + 1], S_alive[next_s + 2], S_seg[next_s], S_seg[next_s + 1], S_seg[next_s + 2], S_start[next_s], S_start[next_s + 1], S_start[next_s + 2],
                  S_cid[next_s], S_cid[next_s + 1], S_cid[next_s + 2], S_owned_by_tree[next_s], S_owned_by_tree[next_s + 1], S_owned_by_tree[next_s + 2])
__CPROVER_requires(next_s < MAXS - 4)
__CPROVER_ensures(!S_owned_by_tree[__CPROVER_old(next_s)] && !S_owned_by_tree[__CPROVER_old(next_s) + 1] && !S_owned_by_tree[__CPROVER_old(next_s) + 2])
__CPROVER_ensures(MS_size <= 3 && (__CPROVER_return_value == (MS_size > 0)) && next_s == __CPROVER_old(next_s) + MS_size && next_s < MAXS - 8 && live_unowned == __CPROVER_old(live_unowned) + (int)MS_size)
__CPROVER_ensures(MS_size < 1 || (MS_states[0] == __CPROVER_old(next_s) && S_alive[MS_states[0]] && !S_owned_by_tree[MS_states[0]]))
__CPROVER_ensures(MS_size < 2 || (MS_states[1] == __CPROVER_old(next_s) + 1 && S_alive[MS_states[1]] && S_seg[MS_states[1]] == CM_token && !S_start[MS_states[1]]))
__CPROVER_ensures(MS_size < 3 || (MS_states[2] == __CPROVER_old(next_s) + 2 && S_alive[MS_states[2]] && S_seg[MS_states[2]] == CM_token && !S_start[MS_states[2]]));
bool goal_isSatisfiedM(MRef m, double *dist)     /* goal->isSatisfied(m->state, &dist); deterministic: a tree motion evaluated before gives the same answer (tree states never change) */
__CPROVER_requires(m >= 1 && m < MAXM && in_tree[m] && M_state[m] >= 1 && M_state[m] < MAXS && S_alive[M_state[m]] && dist != NULL)
__CPROVER_assigns(*dist, M_gdist[m], M_gsat[m], M_geval[m])
__CPROVER_ensures(*dist == *dist && *dist >= 0.0 && M_gdist[m] == *dist && M_gsat[m] == __CPROVER_return_value && M_geval[m])
__CPROVER_ensures(__CPROVER_old(M_geval[m]) ==> (*dist == __CPROVER_old(M_gdist[m]) && __CPROVER_return_value == __CPROVER_old(M_gsat[m])));
/* path under construction */
size_t mpath_size; MRef MPATH[MAXM]; size_t GJ;           /* ghost position in mpath */
size_t path_len; MRef path_first_m, path_last_m;
void MPATH_PUSH(MRef m)
__CPROVER_requires(m >= 1 && m < MAXM && mpath_size < MAXM)
__CPROVER_assigns(mpath_size, MPATH[mpath_size]) __CPROVER_ensures(mpath_size == __CPROVER_old(mpath_size) + 1 && MPATH[__CPROVER_old(mpath_size)] == m);
MRef PARENT_OF(MRef m)      /* solution->parent for a tree member: structure invariant (parents are created earlier), justified by NN_ADD's precondition */
__CPROVER_requires(m >= 1 && m < MAXM && in_tree[m])
__CPROVER_assigns() __CPROVER_ensures(__CPROVER_return_value == M_parent[m] && (__CPROVER_return_value == 0 || (__CPROVER_return_value < m && in_tree[__CPROVER_return_value])));
MRef PA, PB;   /* ghosts: the motions appended at mpath positions GJ+1 and GJ */
void PATH_APPEND_M(MRef m, size_t pos)  /* path->append(mpath[pos]->state) */
__CPROVER_requires(pos < mpath_size && m == MPATH[pos] && path_len < MAXM)
__CPROVER_assigns(path_len, path_first_m, path_last_m, PA, PB)
__CPROVER_ensures(path_len == __CPROVER_old(path_len) + 1 && path_last_m == m && (__CPROVER_old(path_len) == 0 ? path_first_m == m : path_first_m == __CPROVER_old(path_first_m)))
__CPROVER_ensures((pos == GJ + 1 ? PA == m : PA == __CPROVER_old(PA)) && (pos == GJ ? PB == m : PB == __CPROVER_old(PB)));
void addSolutionPathS(bool approximate, double difference)
__CPROVER_requires(n_paths_added == 0)                                                              /* at most one path per solve() */
__CPROVER_requires(path_len >= 1)                                                                   /* C03: never an empty path as a solution */
/* C01: the path starts at a root (copy of a valid start state), and the states at ghost positions GJ+1, GJ (arbitrary) are parent and child in the tree, i.e. every consecutive pair is a validated tree edge */
__CPROVER_requires(path_len == mpath_size && M_parent[path_first_m] == 0 && in_tree[path_first_m])
__CPROVER_requires(GJ + 1 < mpath_size ==> (M_parent[PB] == PA && in_tree[PB]))
__CPROVER_requires(path_last_m == lastGoalMotion_ && in_tree[path_last_m])
__CPROVER_requires(approximate == !M_gsat[path_last_m] && difference == M_gdist[path_last_m] && M_geval[path_last_m])   /* C01: flag and reported difference are those of the path's last state */
__CPROVER_assigns(n_paths_added, added_approx, added_dif)
__CPROVER_ensures(n_paths_added == 1 && added_approx == approximate && added_dif == difference);
#define INFD (__builtin_inf())

int rrt_solve(void)
__CPROVER_requires(next_m == 1 && next_s == 1 && next_cid == 1 && tree_size == 0 && n_paths_added == 0 && CM_token == 0 && !CM_ok && path_len == 0 && mpath_size == 0 && maxDistance_ >= 0.0 && GJ < MAXM && live_unowned == 0 && !ptc_fired && ptc_after_fired == 0)
__CPROVER_assigns(live_unowned, ptc_fired, ptc_after_fired, next_m, next_s, next_cid, tree_size, n_paths_added, added_approx, added_dif, CM_ok, CM_from, CM_to, CM_token, lastGoalMotion_, have_sampler, mpath_size, path_len, path_first_m, path_last_m, PA, PB, MS_size,
                  __CPROVER_object_whole(M_parent), __CPROVER_object_whole(M_state), __CPROVER_object_whole(in_tree), __CPROVER_object_whole(M_alive), __CPROVER_object_whole(S_cid), __CPROVER_object_whole(S_start),
                  __CPROVER_object_whole(S_seg), __CPROVER_object_whole(M_gdist), __CPROVER_object_whole(M_gsat), __CPROVER_object_whole(M_geval), __CPROVER_object_whole(S_alive), __CPROVER_object_whole(S_owned_by_tree), __CPROVER_object_whole(MPATH), __CPROVER_object_whole(MS_states))
/* C01.status / C03: the returned status truthfully describes what the problem definition now holds */
__CPROVER_ensures(__CPROVER_return_value == ST_INVALID_START || __CPROVER_return_value == ST_TIMEOUT || __CPROVER_return_value == ST_APPROX || __CPROVER_return_value == ST_EXACT)
__CPROVER_ensures((__CPROVER_return_value == ST_EXACT) == (n_paths_added == 1 && !added_approx))
__CPROVER_ensures((__CPROVER_return_value == ST_APPROX) == (n_paths_added == 1 && added_approx))
__CPROVER_ensures((__CPROVER_return_value == ST_TIMEOUT || __CPROVER_return_value == ST_INVALID_START) == (n_paths_added == 0))
__CPROVER_ensures(__CPROVER_return_value == ST_INVALID_START ==> tree_size == 0)
/* C03.mem every state allocated here is either owned by the tree or freed before returning: no leak (double frees are excluded by freeState's precondition) */
__CPROVER_ensures(live_unowned == 0)
/* C03.interrupt once the termination condition has reported true it is not evaluated again: solve() returns after 0 further evaluations */
__CPROVER_ensures(ptc_after_fired == 0)
/*@BODY solve@*/

void h_solve(void) { int r = rrt_solve(); if (r == ST_EXACT) REACH("exact"); if (r == ST_APPROX) REACH("approximate"); if (r == ST_TIMEOUT) REACH("timeout"); if (r == ST_INVALID_START) REACH("invalid start"); if (r == ST_EXACT && path_len > 2) REACH("path of several states"); }
