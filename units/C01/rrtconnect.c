/* C01: RRTConnect::growTree (the step both trees grow by; addIntermediateStates_ off, the default) -- "every edge a planner admits was
 * validated by the motion check, in the direction it will be traversed": a motion is added to a tree only as a copy of a state whose
 * motion from (start tree) / to (goal tree) its parent's state was approved by the immediately relevant checkMotion call (and, for the goal
 * tree, whose state passed isValid); TRAPPED adds nothing; REACHED means the sampled state itself was added. */
#include <stddef.h>
#include <stdbool.h>
#define NIL 0u
#define NMO 5
#define NST 6
#define REACH(tag) __CPROVER_assert(0, "REACH " tag)
typedef unsigned Motion; typedef unsigned SRef; typedef int GrowState;
enum { TRAPPED, ADVANCED, REACHED };
SRef M_state[NMO]; Motion PARENT[NMO]; SRef ROOT[NMO]; bool IN_TREE[NMO]; Motion next_m;
unsigned S_cid[NST]; bool S_alive[NST]; SRef next_s; unsigned next_cid; SRef XSTATE; bool TGI_START; Motion TGI_XMOTION; double maxDistance_; bool addIntermediateStates_;
struct { unsigned a, b; bool ok; bool used; } LASTCM; unsigned valid_cid; bool valid_ok; int added; Motion added_m;
bool nondet_bool(void); double nondet_double(void);
static Motion NEAREST(void) { return 1; }
static double DIST(void) { double d = nondet_double(); __CPROVER_assume(d >= 0.0); return d; }
static void INTERPOLATE_INTO(SRef out, double t) { __CPROVER_assert(out == XSTATE && S_alive[out], "interpolation writes the scratch state"); S_cid[out] = next_cid++; }
static bool EQUAL_STATES(SRef a, SRef b) { return nondet_bool(); }
static bool CM(SRef a, SRef b) { __CPROVER_assert(S_alive[a] && S_alive[b], "motion check on allocated states"); bool r = nondet_bool(); LASTCM.a = S_cid[a]; LASTCM.b = S_cid[b]; LASTCM.ok = r; LASTCM.used = 1; return r; }
static bool ISVALID(SRef a) { bool r = nondet_bool(); valid_cid = S_cid[a]; valid_ok = r; return r; }
static Motion NEW_MOTION(void) { __CPROVER_assert(next_m < NMO && next_s < NST, "pool"); Motion m = next_m++; SRef s = next_s++; S_alive[s] = 1; S_cid[s] = 0; M_state[m] = s; PARENT[m] = NIL; ROOT[m] = NIL; IN_TREE[m] = 0; return m; }
static void COPY_STATE(SRef dst, SRef src) { __CPROVER_assert(S_alive[dst] && S_alive[src], "copy between allocated states"); S_cid[dst] = S_cid[src]; }
static void INTERMEDIATE_STATES_BRANCH(void) { __CPROVER_assert(0, "addIntermediateStates_ is off in this unit"); }
static void TREE_ADD(Motion m)
{
    __CPROVER_assert(m != NIL && !IN_TREE[m] && PARENT[m] != NIL && IN_TREE[PARENT[m]] && ROOT[m] == ROOT[PARENT[m]], "C01.tree a new motion hangs below a tree motion and inherits its root");
    unsigned p = S_cid[M_state[PARENT[m]]], c = S_cid[M_state[m]];
    __CPROVER_assert(LASTCM.used && LASTCM.ok && (TGI_START ? (LASTCM.a == p && LASTCM.b == c) : (LASTCM.a == c && LASTCM.b == p)), "C01.edge the edge was approved by the motion check in the direction it will be traversed");
    if (!TGI_START) __CPROVER_assert(valid_ok && valid_cid == c, "C01.edge a state entering the goal tree passed the validity check");
    IN_TREE[m] = 1; added++; added_m = m;
}
GrowState rc_growTree(bool tree_is_start, Motion rmotion)
/*@BODY growTree@*/

void h_growTree(void)
{
    next_m = 3; next_s = 4; next_cid = 100; added = 0; LASTCM.used = 0; valid_ok = 0; TGI_XMOTION = NIL; addIntermediateStates_ = 0;
    for (unsigned k = 0; k < NST; k++) S_alive[k] = 0;
    M_state[1] = 1; S_alive[1] = 1; S_cid[1] = 11; IN_TREE[1] = 1; PARENT[1] = NIL; ROOT[1] = 1;      /* some motion of the tree being grown */
    M_state[2] = 2; S_alive[2] = 1; S_cid[2] = 12; IN_TREE[2] = 0; PARENT[2] = NIL; ROOT[2] = NIL;   /* rmotion: the sampled state */
    XSTATE = 3; S_alive[3] = 1; S_cid[3] = 13; TGI_START = nondet_bool(); __CPROVER_assume(maxDistance_ > 0.0);
    GrowState gs = rc_growTree(TGI_START, 2);
    if (gs == TRAPPED) { __CPROVER_assert(added == 0, "C01.edge TRAPPED adds nothing"); REACH("trapped"); }
    else
    {
        __CPROVER_assert(added == 1 && TGI_XMOTION == added_m, "one motion added and reported");
        __CPROVER_assert((gs == REACHED) == (S_cid[M_state[added_m]] == 12), "the result is REACHED exactly when the sampled state itself was added");
        __CPROVER_assert(M_state[added_m] != 2 && M_state[added_m] != XSTATE, "the new motion owns a state of its own");
        if (gs == REACHED) REACH("reached"); else REACH("advanced");
    }
    __CPROVER_assert(!IN_TREE[2] && S_alive[2] && S_alive[XSTATE], "scratch objects stay outside the tree");
}
