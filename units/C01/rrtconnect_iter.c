/* C01 -- one iteration of RRTConnect::solve after the first tree was grown (the connect attempt, the exact-solution test and the
 * approximate-solution bookkeeping): the path reported as exact runs from a START-tree branch to a GOAL-tree branch, and the motion remembered
 * for an approximate solution is a START-tree motion (so that the approximate path begins at a valid start state).
 * growTree is behind its contract (unit c01_rrtconnect_growTree): it must be told truthfully which tree it grows (tgi.start), on success
 * tgi.xmotion is the new motion of THAT tree, on TRAPPED tgi.xmotion is untouched.  Motions carry the ghost mark `which tree`. */
#include <stddef.h>
#include <stdbool.h>
#define NIL 0u
#define NMO 8
#define REACH(tag) __CPROVER_assert(0, "REACH " tag)
typedef unsigned MotionRef; typedef int GrowState; typedef int TreeId;
enum { TRAPPED, ADVANCED, REACHED };
bool nondet_bool(void); double nondet_double(void); int nondet_int(void);
bool M_in_start_tree[NMO]; MotionRef M_parent[NMO]; bool M_alive[NMO]; MotionRef m_next;
struct { MotionRef xmotion; bool start; } tgi;
TreeId tree, otherTree;          /* 1 = start tree, 0 = goal tree */
bool startTree_; double distanceBetweenTrees_; MotionRef approxsol; double approxdif; bool solved; unsigned grows;
MotionRef exact_from, exact_to; unsigned exact_paths;
static GrowState GROW(TreeId t, void *tgi_)
{
    __CPROVER_assert(tgi.start == (t == 1), "C01.direction growTree is told truthfully which tree it grows (the direction of its motion checks depends on it)");
    grows++; __CPROVER_assume(grows <= 4);
    int g = nondet_int(); __CPROVER_assume(g == TRAPPED || g == ADVANCED || g == REACHED);
    if (g != TRAPPED) { __CPROVER_assert(m_next < NMO, "model capacity"); MotionRef m = m_next++; M_alive[m] = true; M_in_start_tree[m] = (t == 1); M_parent[m] = (t == 1) ? 1u : 2u;   /* a grown motion hangs below a motion of the same tree */ tgi.xmotion = m; }
    return g;
}
static bool PAIR_VALID(MotionRef a, MotionRef b) { return nondet_bool(); }
static double GOAL_DIST(MotionRef m) { __CPROVER_assert(m != NIL && m < NMO && M_alive[m], "goal distance of a live motion"); double d = nondet_double(); __CPROVER_assume(d >= 0.0); return d; }
static void ADD_EXACT(MotionRef s, MotionRef g)
{
    __CPROVER_assert(s != NIL && g != NIL && s < NMO && g < NMO, "both branches exist");
    exact_from = s; exact_to = g; exact_paths++;
}
void rc_iteration(MotionRef rmotion)
{
    for (int once_ = 0; once_ < 1; ++once_)
/*@BODY solve_iteration@*/
}
void h_rc_iteration(void)
{
    for (MotionRef m = 0; m < NMO; m++) { M_alive[m] = false; M_parent[m] = NIL; }
    /* existing motions: 1 = a start-tree root, 2 = a goal-tree root, 3 = whatever an earlier iteration remembered as approximate solution (start tree) */
    M_alive[1] = true; M_in_start_tree[1] = true; M_alive[2] = true; M_in_start_tree[2] = false; M_alive[3] = true; M_in_start_tree[3] = true; m_next = 4; grows = 0; exact_paths = 0; solved = false;
    tree = nondet_bool() ? 1 : 0; otherTree = 1 - tree; tgi.start = (tree == 1); startTree_ = !(tree == 1);           /* state at the top of the iteration, after the toggle */
    approxsol = nondet_bool() ? 3u : NIL; __CPROVER_assume(approxdif >= 0.0); tgi.xmotion = NIL; __CPROVER_assume(distanceBetweenTrees_ == distanceBetweenTrees_);
    rc_iteration(7);
    if (approxsol != NIL) __CPROVER_assert(approxsol < NMO && M_alive[approxsol] && M_in_start_tree[approxsol], "C01.start the motion remembered for an approximate solution belongs to the START tree");
    if (exact_paths) { __CPROVER_assert(exact_paths == 1 && solved, "one exact path, flagged solved");
        __CPROVER_assert(M_in_start_tree[exact_from] && !M_in_start_tree[exact_to], "C01.start/goal the exact path joins a start-tree branch to a goal-tree branch");
        REACH("connected"); }
    if (approxsol >= 4) REACH("approximate solution improved"); if (grows >= 3) REACH("connect loop advanced");
}
