/* C01: SBL (lazy, bidirectional) -- a solution is reported only after every motion on both branches AND the junction motion have been
 * validated by the motion check.  Motions are indices with field maps PARENT/ROOT/VALID/CID (state content id); VALID[m] means "the motion
 * from PARENT[m]'s state to m's state was approved"; only isPathValid may set it, and only after checkMotion approved exactly that pair.
 * Bounded: branches of <= MAXD motions. */
#include <stddef.h>
#include <stdbool.h>
#ifndef MAXD
#define MAXD 3
#endif
#define NM (2 * MAXD + 2)
#define NIL 0u
#define REACH(tag) __CPROVER_assert(0, "REACH " tag)
typedef unsigned Motion;
Motion PARENT[NM]; unsigned ROOT[NM]; bool VALID[NM]; unsigned CID[NM]; bool REMOVED[NM]; int TREE_OF[NM]; Motion next_m;
struct { unsigned a, b; bool ok; } LASTCM;
Motion SOL[2 * MAXD + 2]; size_t sol_n;
Motion OTHER_PICK;
bool nondet_bool(void); unsigned nondet_unsigned(void);
static bool CM(Motion p, Motion m) { __CPROVER_assert(p != NIL && m != NIL && p < NM && m < NM, "C01.sbl motion check on existing motions (a root is never unchecked)"); bool r = nondet_bool(); LASTCM.a = CID[p]; LASTCM.b = CID[m]; LASTCM.ok = r; return r; }
static void SET_VALID(Motion m) { __CPROVER_assert(LASTCM.ok && PARENT[m] != NIL && LASTCM.a == CID[PARENT[m]] && LASTCM.b == CID[m], "C01.sbl a motion is marked valid only after the motion check approved it"); VALID[m] = 1; }
static void REMOVE(int tree, Motion m) { __CPROVER_assert(m != NIL && !REMOVED[m], "removed once"); REMOVED[m] = 1; }
static Motion PICK_OTHER(Motion m) { return OTHER_PICK; }
static bool PAIRVALID(unsigned a, unsigned b) { return nondet_bool(); }
static Motion NEW_MOTION(void) { __CPROVER_assert(next_m < NM, "pool"); Motion m = next_m++; PARENT[m] = NIL; ROOT[m] = 0; VALID[m] = 0; CID[m] = 0; REMOVED[m] = 0; return m; }
static void ADD_MOTION(int tree, Motion m) { TREE_OF[m] = tree; }
static void SOL_PUSH(Motion m) { __CPROVER_assert(sol_n < 2 * MAXD + 2, "capacity"); SOL[sol_n++] = m; }
#define VEC(name) Motion name[MAXD + 2]; size_t name##_n = 0
#define PUSH(name, m) do { __CPROVER_assert(name##_n < MAXD + 2, "branch depth within the bound"); name[name##_n++] = (m); } while (0)
#define SWAPV(a, b) do { for (size_t k_ = 0; k_ < MAXD + 2; k_++) { Motion t_ = a[k_]; a[k_] = b[k_]; b[k_] = t_; } size_t n_ = a##_n; a##_n = b##_n; b##_n = n_; } while (0)

bool sbl_isPathValid(int tree, Motion motion)
/*@BODY isPathValid@*/
bool sbl_checkSolution(bool start, int tree, int otherTree, Motion motion)
/*@BODY checkSolution@*/

/* two chains: motion -> ... -> root of tree 0 (depth d1), OTHER_PICK -> ... -> root of tree 1 (depth d2) */
Motion M0, d1, d2;
static void any_trees(void)
{
    d1 = nondet_unsigned(); d2 = nondet_unsigned(); __CPROVER_assume(d1 >= 1 && d1 <= MAXD && d2 <= MAXD);
    next_m = 1; sol_n = 0; LASTCM.ok = 0;
    for (unsigned k = 0; k < MAXD; k++) if (k < d1) { Motion m = next_m++; PARENT[m] = k ? m - 1 : NIL; ROOT[m] = 100; CID[m] = m; REMOVED[m] = 0; VALID[m] = k ? nondet_bool() : 1; TREE_OF[m] = 0; }
    M0 = next_m - 1;
    Motion first2 = next_m;
    for (unsigned k = 0; k < MAXD; k++) if (k < d2) { Motion m = next_m++; PARENT[m] = k ? m - 1 : NIL; ROOT[m] = 200; CID[m] = m; REMOVED[m] = 0; VALID[m] = k ? nondet_bool() : 1; TREE_OF[m] = 1; }
    OTHER_PICK = d2 ? next_m - 1 : NIL;
}
static bool edge_ok(Motion a, Motion b)      /* the motion between the states of a and b was validated (either direction) */
{
    if (PARENT[b] == a && VALID[b] && !REMOVED[b]) return 1;
    if (PARENT[a] == b && VALID[a] && !REMOVED[a]) return 1;
    return 0;
}
void h_sbl_isPathValid(void)
{
    any_trees(); bool v[NM]; for (Motion m = 0; m < NM; m++) v[m] = VALID[m];
    bool r = sbl_isPathValid(0, M0);
    if (r) { for (Motion m = 1; m < NM; m++) if (m <= M0) __CPROVER_assert(VALID[m] && !REMOVED[m], "C01.sbl a branch declared valid has every motion validated"); REACH("valid branch"); }
    else { bool some = 0; for (Motion m = 1; m < NM; m++) if (m <= M0 && REMOVED[m]) some = 1; __CPROVER_assert(some, "an invalid branch loses the offending motion"); REACH("invalid branch"); }
    for (Motion m = 1; m < NM; m++) if (m <= M0 && v[m]) __CPROVER_assert(VALID[m], "validity is never withdrawn");
}
void h_sbl_checkSolution(void)
{
    any_trees(); bool start = nondet_bool();
    bool r = sbl_checkSolution(start, 0, 1, M0);
    if (!r) { __CPROVER_assert(sol_n == 0, "no solution motions without success"); REACH("no connection"); return; }
    __CPROVER_assert(sol_n == (size_t)d1 + d2 && sol_n >= 2, "the solution is the two branches");
    for (size_t k = 0; k + 1 < 2 * MAXD + 2; k++) if (k + 1 < sol_n)
    {
        Motion a = SOL[k], b = SOL[k + 1];
        bool junction = false;
        for (Motion c = 1; c < NM; c++) if (c < next_m && VALID[c] && !REMOVED[c] && PARENT[c] != NIL && ((CID[PARENT[c]] == CID[a] && CID[c] == CID[b]) || (CID[PARENT[c]] == CID[b] && CID[c] == CID[a]))) junction = true;
        __CPROVER_assert(edge_ok(a, b) || junction, "C01.sbl every motion of the reported solution, including the junction of the two trees, was validated by the motion check");
    }
    __CPROVER_assert(ROOT[SOL[0]] == (start ? 100 : 200) && PARENT[SOL[0]] == NIL && PARENT[SOL[sol_n - 1]] == NIL && ROOT[SOL[sol_n - 1]] == (start ? 200 : 100), "the solution runs from the root of one tree to the root of the other");
    if (start) REACH("connected from the start tree"); else REACH("connected from the goal tree");
}
