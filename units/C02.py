"""C02 -- control planners' solutions replay through the propagator to the goal (reduced scope: the shared propagation machinery)."""
import importlib.util, os
_s = importlib.util.spec_from_file_location("spaces_defs", os.path.join(os.path.dirname(__file__), "spaces_defs.py")); D = importlib.util.module_from_spec(_s); _s.loader.exec_module(D)
PROPERTY = "C02"
LEVEL = "model_checking"
CSI = "src/ompl/control/src/SpaceInformation.cpp"
SDC = "src/ompl/control/src/SimpleDirectedControlSampler.cpp"
RVC = "src/ompl/control/spaces/src/RealVectorControlSpace.cpp"
PWV = dict(name="pwv", file=CSI, sig=r"unsigned int ompl::control::SpaceInformation::propagateWhileValid\(const base::State \*state, const Control \*control,\s*int steps, base::State \*result\) const",
           loops={"allow_uncontracted": True},
           rules=[(r"statePropagator_->propagate\(", "propagate(", 0), (r"base::State \*(\w+) = ", r"int \1 = ", 0), (r"std::swap\(temp1, temp2\);", "SWAP(temp1, temp2);", 0)])
GBC = dict(name="gbc", file=SDC, sig=r"unsigned int ompl::control::SimpleDirectedControlSampler::getBestControl\(Control \*control, const base::State \*source,\s*base::State \*dest, const Control \*previous\)",
           loops={"allow_uncontracted": True},
           rules=[(r"previous != nullptr", "previous >= 0", 0), (r"cs_->sampleNext\((\w+), previous, source\);", r"cs_sample(\1);", 0), (r"cs_->sample\((\w+), source\);", r"cs_sample(\1);", 0),
                  (r"si_->getMinControlDuration\(\)", "minD", 0), (r"si_->getMaxControlDuration\(\)", "maxD", 0), (r"cs_->sampleStepCount\(", "sampleStepCount(", 0),
                  (r"si_->allocState\(\)", "allocState()", 0), (r"si_->freeState\(", "freeState(", 0), (r"si_->allocControl\(\)", "allocControl()", 0), (r"si_->freeControl\(", "freeControl(", 0),
                  (r"si_->propagateWhileValid\(", "pwv_stub(", 0), (r"si_->distance\(", "distance_stub(", 0), (r"si_->copyState\(", "copyStateT(", 0), (r"si_->copyControl\(", "copyControl(", 0),
                  (r"base::State \*(\w+) = ", r"int \1 = ", 0), (r"Control \*(\w+) = ", r"int \1 = ", 0)])
UNITS = [
    dict(name="c02_propagateWhileValid", template="C02/propagate.c", mode="plain", entry="h_pwv", sources=[PWV, GBC], flags=D.PFLAGS, unwind=7, level="bounded", bound="|steps| <= 4",
         functions=["ompl::control::SpaceInformation::propagateWhileValid(state, control, steps, result)"], backend="minisat",
         canaries=[dict(name="reports_requested_steps", where="body:pwv", rx=r"r = i;", repl="r = i + 1;"), dict(name="temp_not_freed", where="body:pwv", rx=r"freeState\(toDelete\);", repl="")]),
    dict(name="c02_getBestControl", template="C02/propagate.c", mode="plain", entry="h_gbc", sources=[PWV, GBC], flags=D.PFLAGS, unwind=7, level="bounded", bound="numControlSamples_ <= 3",
         functions=["ompl::control::SimpleDirectedControlSampler::getBestControl"], backend="minisat",
         canaries=[dict(name="step_count_not_stored", where="body:gbc", rx=r"sampleSteps = pwv_stub\(", repl="pwv_stub(")]),
]
# control sampler: RealVector-style per-coordinate loop, ghost coordinate (unbounded, dimension <= 64)
CS = dict(name="ctrl_sample", file=RVC, sig=r"void ompl::control::RealVectorControlUniformSampler::sample\(Control \*control\)",
          rules=[(r"const unsigned int dim = space_->getDimension\(\);", "const unsigned int dim = dimension_;", 0),
                 (r"const base::RealVectorBounds &bounds = static_cast<const RealVectorControlSpace \*>\(space_\)->getBounds\(\);", "", 0),
                 (r"auto \*rcontrol = static_cast<RealVectorControlSpace::ControlType \*>\(control\);", "const RVState *rcontrol = control;", 0),
                 (r"\bbounds\.(low|high)\[", r"bounds_.\1[", 0), (r"rng_\.uniformReal\(", "c_uniformReal(", 0)],
          loops={1: "\n__CPROVER_assigns(i, __CPROVER_object_whole(VAL_A))\n__CPROVER_loop_invariant(i <= dim && (G < i ==> (VAL_A[G] >= LO_G && VAL_A[G] <= HI_G)))\n__CPROVER_decreases(dim - i)\n"})
UNITS.append(dict(name="c02_control_sampler_bounds", template="C02/ctrl_sampler.c", entry="h_ctrl", sources=[CS], enforce=["ctrl_sample"], replace=["c_uniformReal"], flags=D.DFLAGS, level="proof",
                  bound="dimension <= 64", functions=["ompl::control::RealVectorControlUniformSampler::sample"], backend="cadical", confirm=dict(unwind=4, defines={"MAXDIM": 3}),
                  canaries=[dict(name="first_dimension_bound_for_all", where="body:ctrl_sample", rx=r"bounds_\.high\[i\]", repl="bounds_.high[0]")]))
ASSUMPTIONS = ["the user's state propagator and validity checker are deterministic callbacks; states/controls are abstract objects with ghost counters",
               "bounded: |steps| <= 4, at most 3 control samples; control dimension <= 64", "RNG contract uniformReal in [a,b)"]
TRUSTED = ["extraction rewrite tables of units/C02.py", "stubs/harness code in units/C02/*.c", "CBMC 6.11"]
NOT_COVERED = ["that each control planner (RRT, SST, EST, KPIECE, PDST, Syclop) assembles its PathControl from (state, control, steps*stepSize) of its motions, marks approximate solutions correctly and reaches the goal (planner solve() bodies are not under contract)",
               "the vector-result overload of propagateWhileValid, PathControl::check/interpolate"]

MISC_CPPS = ['src/ompl/control/src/SpaceInformation.cpp', 'src/ompl/control/src/SimpleDirectedControlSampler.cpp', 'src/ompl/control/spaces/src/RealVectorControlSpace.cpp']
NATIVE = [
    dict(name="c02_native_search", driver="native/misc_native.cpp", link_ompl=True, unit_cpps=MISC_CPPS, args=lambda tier, seed: ["c02", seed, 2000 if tier == "quick" else 200000], timeout=900),
]


def replay(ur, scratch, seed):
    """Search the real classes for a failing input (native/misc_native.cpp, mode c02)."""
    from vf import native as N, cbmc as C
    exe = N.build_driver("native/misc_native.cpp", scratch, link_ompl=True, unit_cpps=MISC_CPPS)
    r = C.run_cmd([exe, "c02", str(seed), "50000"], 600, env=N.run_env())
    return dict(found=(r["rc"] == 1), driver="native/misc_native.cpp", args=["c02", seed, 50000], link_ompl=True, unit_cpps=MISC_CPPS, output=r["out"][-2500:])
