"""C02 -- control planners' solutions replay through the propagator to the goal (reduced scope: the shared propagation machinery)."""
import importlib.util, os
_s = importlib.util.spec_from_file_location("spaces_defs", os.path.join(os.path.dirname(__file__), "spaces_defs.py")); D = importlib.util.module_from_spec(_s); _s.loader.exec_module(D)
PROPERTY = "C02"
LEVEL = "model_checking"
CSI = "src/ompl/control/src/SpaceInformation.cpp"
SDC = "src/ompl/control/src/SimpleDirectedControlSampler.cpp"
RVC = "src/ompl/control/spaces/src/RealVectorControlSpace.cpp"
PWV = dict(name="pwv", file=CSI, sig=r"unsigned int ompl::control::SpaceInformation::propagateWhileValid\(const base::State \*state, const Control \*control,\s*int steps, base::State \*result\) const",
           loops={"allow_uncontracted": True},
           rules=[(r"statePropagator_->propagate\(", "propagate(", 0), (r"base::State \*(\w+) = ", r"int \1 = ", 0), (r"std::swap\(temp1, temp2\);", "SWAP(temp1, temp2);", 0)])
GBC = dict(name="gbc", file=SDC, sig=r"unsigned int ompl::control::SimpleDirectedControlSampler::getBestControl\(Control \*control, const base::State \*source,\s*base::State \*dest, const Control \*previous\)",
           loops={"allow_uncontracted": True},
           rules=[(r"previous != nullptr", "previous >= 0", 0), (r"cs_->sampleNext\((\w+), previous, source\);", r"cs_sample(\1);", 0), (r"cs_->sample\((\w+), source\);", r"cs_sample(\1);", 0),
                  (r"si_->getMinControlDuration\(\)", "minD", 0), (r"si_->getMaxControlDuration\(\)", "maxD", 0), (r"cs_->sampleStepCount\(", "sampleStepCount(", 0),
                  (r"si_->allocState\(\)", "allocState()", 0), (r"si_->freeState\(", "freeState(", 0), (r"si_->allocControl\(\)", "allocControl()", 0), (r"si_->freeControl\(", "freeControl(", 0),
                  (r"si_->propagateWhileValid\(", "pwv_stub(", 0), (r"si_->distance\(", "distance_stub(", 0), (r"si_->copyState\(", "copyStateT(", 0), (r"si_->copyControl\(", "copyControl(", 0),
                  (r"base::State \*(\w+) = ", r"int \1 = ", 0), (r"Control \*(\w+) = ", r"int \1 = ", 0)])
UNITS = [
    dict(name="c02_propagateWhileValid", template="C02/propagate.c", mode="plain", entry="h_pwv", sources=[PWV, GBC], flags=D.PFLAGS, unwind=7, level="bounded", bound="|steps| <= 4",
         functions=["ompl::control::SpaceInformation::propagateWhileValid(state, control, steps, result)"], backend="minisat",
         canaries=[dict(name="reports_requested_steps", where="body:pwv", rx=r"r = i;", repl="r = i + 1;"), dict(name="temp_not_freed", where="body:pwv", rx=r"freeState\(toDelete\);", repl="")]),
    dict(name="c02_getBestControl", template="C02/propagate.c", mode="plain", entry="h_gbc", sources=[PWV, GBC], flags=D.PFLAGS, unwind=7, level="bounded", bound="numControlSamples_ <= 3",
         functions=["ompl::control::SimpleDirectedControlSampler::getBestControl"], backend="minisat",
         canaries=[dict(name="step_count_not_stored", where="body:gbc", rx=r"sampleSteps = pwv_stub\(", repl="pwv_stub(")]),
]
PWV_LOOP = """
__CPROVER_assigns(i, temp1, temp2, r, K[S_RES], K[S_TMP], checked_G, invalid_seen, invalid_at, dt_ok)
__CPROVER_loop_invariant(1 <= i && i <= steps && steps == N0 && r == (unsigned)steps && toDelete == S_TMP && live_tmp && dt_ok && !invalid_seen && K[S_IN] == 0)
__CPROVER_loop_invariant(((temp1 == S_RES && temp2 == S_TMP) || (temp1 == S_TMP && temp2 == S_RES)) && K[temp1] == i)
__CPROVER_loop_invariant(G <= i ==> (checked_G && VG))
__CPROVER_decreases(steps - i)
"""
PWV_U = dict(PWV); PWV_U["loops"] = {1: PWV_LOOP}
UNITS.append(dict(name="c02_propagateWhileValid_unbounded", template="C02/propagate_unb.c", sources=[PWV_U], enforce=["propagateWhileValid"], replace=["propagate", "isValid", "copyState", "allocState", "freeState"],
                  flags=D.PFLAGS + ["--no-malloc-may-fail", "--object-bits", "12"], level="proof", bound="|steps| <= 10^6, unbounded in the loop", backend="minisat", timeout=600, expect_loops=1,
                  functions=["ompl::control::SpaceInformation::propagateWhileValid(state, control, steps, result)"], confirm=dict(unwind=6, defines={}),
                  canaries=[dict(name="reports_requested_steps", where="body:pwv", rx=r"r = i;", repl="r = i + 1;"), dict(name="temp_not_freed", where="body:pwv", rx=r"freeState\(toDelete\);", repl="")]))

PWVV = dict(name="pwv_vec", file=CSI, sig=r"unsigned int ompl::control::SpaceInformation::propagateWhileValid\(const base::State \*state, const Control \*control,\s*int steps, std::vector<base::State \*> &result,\s*bool alloc\) const",
            loops={"allow_uncontracted": True},
            rules=[(r"statePropagator_->propagate\(", "propagate(", 0), (r"result\.resize\(([^;]+)\);", r"RESIZE(result_p, (unsigned)(\1));", 0), (r"result\.empty\(\)", "(result_p->n == 0)", 0), (r"\(int\)result\.size\(\)", "(int)result_p->n", 0),
                   (r"std::min\(", "MINI(", 0), (r"result\[([^\]]+)\]", r"result_p->v[\1]", 0)])
UNITS.append(dict(name="c02_propagateWhileValid_vector", template="C02/propagate_vec.c", mode="plain", entry="h_pwv_vec", sources=[PWVV], flags=D.PFLAGS, unwind=14, level="bounded", bound="|steps| <= 4", backend="cadical", timeout=600,
                  functions=["ompl::control::SpaceInformation::propagateWhileValid(state, control, steps, result vector, alloc)"],
                  canaries=[dict(name="invalid_state_left_in_the_vector", where="body:pwv_vec", rx=r"freeState\(result_p->v\[st\]\);\s*RESIZE\(result_p, \(unsigned\)\(st\)\);\s*\}\s*break;", repl="freeState(result_p->v[st]); } break;")]))

# control sampler: RealVector-style per-coordinate loop, ghost coordinate (unbounded, dimension <= 64)
CS = dict(name="ctrl_sample", file=RVC, sig=r"void ompl::control::RealVectorControlUniformSampler::sample\(Control \*control\)",
          rules=[(r"const unsigned int dim = space_->getDimension\(\);", "const unsigned int dim = dimension_;", 0),
                 (r"const base::RealVectorBounds &bounds = static_cast<const RealVectorControlSpace \*>\(space_\)->getBounds\(\);", "", 0),
                 (r"auto \*rcontrol = static_cast<RealVectorControlSpace::ControlType \*>\(control\);", "const RVState *rcontrol = control;", 0),
                 (r"\bbounds\.(low|high)\[", r"bounds_.\1[", 0), (r"rng_\.uniformReal\(", "c_uniformReal(", 0)],
          loops={1: "\n__CPROVER_assigns(i, __CPROVER_object_whole(VAL_A))\n__CPROVER_loop_invariant(i <= dim && (G < i ==> (VAL_A[G] >= LO_G && VAL_A[G] <= HI_G)))\n__CPROVER_decreases(dim - i)\n"})
UNITS.append(dict(name="c02_control_sampler_bounds", template="C02/ctrl_sampler.c", entry="h_ctrl", sources=[CS], enforce=["ctrl_sample"], replace=["c_uniformReal"], flags=D.DFLAGS, level="proof",
                  bound="dimension <= 64", functions=["ompl::control::RealVectorControlUniformSampler::sample"], backend="cadical", confirm=dict(unwind=4, defines={"MAXDIM": 3}),
                  canaries=[dict(name="first_dimension_bound_for_all", where="body:ctrl_sample", rx=r"bounds_\.high\[i\]", repl="bounds_.high[0]")]))
# ---------------------------------------------------------------- control::SST::solve: solution record and path construction (bounded)
SSTF = "src/ompl/control/planners/sst/src/SST.cpp"
SST_RULES = [
    (r"bool solv = goal->isSatisfied\(motion->state_, &dist\);", "double dist = 0.0; bool solv = GOAL_SAT(motion, &dist);", 0),
    (r"opt_->isCostBetterThan\(motion->accCost_, prevSolutionCost_\)", "better(ACC[motion], prevSolutionCost_)", 0),
    (r"for \(auto &i : prevSolution_\)\s*if \(i\)\s*si_->freeState\(i\);", "FREE_PREV_STATES();", 0),
    (r"for \(auto &prevSolutionControl : prevSolutionControls_\)\s*if \(prevSolutionControl\)\s*siC_->freeControl\(prevSolutionControl\);", "FREE_PREV_CONTROLS();", 0),
    (r"prevSolution_\.clear\(\);", "ps_n = 0;", 0), (r"prevSolutionControls_\.clear\(\);", "pc_n = 0;", 0), (r"prevSolutionSteps_\.clear\(\);", "pt_n = 0;", 0),
    (r"Motion \*solTrav = (\w+);", r"Motion solTrav = \1;", 0), (r"solTrav->parent_ != nullptr", "PARENT[solTrav] != NIL", 0),
    (r"prevSolution_\.push_back\(si_->cloneState\(solTrav->state_\)\);", "PS_PUSH(solTrav);", 0), (r"prevSolutionControls_\.push_back\(siC_->cloneControl\(solTrav->control_\)\);", "PC_PUSH(solTrav);", 0),
    (r"prevSolutionSteps_\.push_back\(solTrav->steps_\);", "PT_PUSH(solTrav);", 0), (r"solTrav = solTrav->parent_;", "solTrav = PARENT[solTrav];", 0),
    (r"prevSolutionCost_ = solution->accCost_;", "prevSolutionCost_ = ACC[solution];", 0),
    (r"OMPL_INFORM\(\"Found solution with cost %\.2f\", solution->accCost_\.value\(\)\);", "", 0),
    (r"if \(intermediateSolutionCallback\)\s*\{.*?\}", "", 0, __import__("re").S),
    (r"sufficientlyShort = opt_->isSatisfied\(solution->accCost_\);", "sufficientlyShort = OBJ_SAT(ACC[solution]);", 0), (r"\bbreak;", "{ broke = 1; return; }", 0),
    (r"solution == nullptr", "solution == NIL", 0),
    (r"auto path\(std::make_shared<PathControl>\(si_\)\);", "", 0), (r"prevSolution_\.size\(\)", "(int)ps_n", 0),
    (r"path->append\(prevSolution_\[i\], prevSolutionControls_\[i - 1\],\s*prevSolutionSteps_\[i - 1\] \* siC_->getPropagationStepSize\(\)\);", "PATH_APPEND3(PS_AT(i), PC_AT(i - 1), PT_AT(i - 1));", 0),
    (r"path->append\(prevSolution_\[0\]\);", "PATH_APPEND1(PS_AT(0));", 0),
]
UNITS.append(dict(name="c02_sst_solution_record", template="C02/sst.c", mode="plain", entry="h_sst", flags=["--bounds-check", "--pointer-check", "--signed-overflow-check", "--conversion-check"], unwind=12, level="bounded",
                  bound="tree branches of <= 3 motions", backend="minisat", timeout=900, functions=["ompl::control::SST::solve (solution record blocks and path construction)"],
                  sources=[dict(name="record", file=SSTF, begin=r"bool solv = goal->isSatisfied\(motion->state_, &dist\);", end=r"if \(oldRep != rmotion\)", rules=SST_RULES, loops={"allow_uncontracted": True}),
                           dict(name="path", file=SSTF, begin=r"auto path\(std::make_shared<PathControl>\(si_\)\);", end=r"solved = true;\s*pdef_->addSolutionPath\(path, approximate, approxdif, getName\(\)\);", rules=SST_RULES, loops={"allow_uncontracted": True})],
                  canaries=[dict(name="steps_not_cleared", where="body:record", rx=r"pt_n = 0;(?=\s*Motion solTrav = approxsol;)", repl=""),
                            dict(name="control_of_the_wrong_motion", where="body:path", rx=r"PC_AT\(i - 1\)", repl="PC_AT(i < (int)pc_n ? i : i - 1)")]))

# ---------------------------------------------------------------- control::PDST::solve flag logic (bounded)
PDSTF = "src/ompl/control/planners/pdst/src/PDST.cpp"
S_ = __import__("re").S
PDST_RULES = [
    (r"double distanceToGoal, closestDistanceToGoal = std::numeric_limits<double>::infinity\(\);", "double distanceToGoal, closestDistanceToGoal = __builtin_inf();", 0),
    (r"goal->isSatisfied\((\w+)->endState_, &(\w+)\)", r"GOAL_SAT(\1, &\2)", 0), (r"unsigned int ndim = projectionEvaluator_->getDimension\(\);", "", 0),
    (r"return ompl::base::PlannerStatus::EXACT_SOLUTION;", "return ST_EXACT;", 0), (r"return base::PlannerStatus::INVALID_START;", "return ST_INVALID_START;", 0),
    (r"while \(const base::State \*st = pis_\.nextStart\(\)\)\s*\{.*?\}", "ADD_STARTS();", 0, S_), (r"priorityQueue_\.empty\(\)", "PQ_EMPTY()", 0),
    (r"base::State \*tmpState1 = si_->allocState\(\), \*tmpState2 = si_->allocState\(\);", "", 0), (r"Eigen::VectorXd tmpProj1\(ndim\), tmpProj2\(ndim\);", "", 0),
    (r"while \(!ptc\)", "while (!PTC())", 0),
    (r"Motion \*motionSelected = priorityQueue_\.top\(\)->data;\s*motionSelected->updatePriority\(\);\s*priorityQueue_\.update\(motionSelected->heapElement_\);", "", 0),
    (r"Motion \*newMotion = propagateFrom\(motionSelected, tmpState1, tmpState2\);", "Motion newMotion = PROPAGATE();", 0), (r"newMotion == nullptr", "newMotion == NIL", 0),
    (r"addMotion\(newMotion, bsp_, tmpState1, tmpState2, tmpProj1, tmpProj2\);", "", 0),
    (r"Cell \*cellSelected = motionSelected->cell_;.*?addMotion\(motion, cellSelected, tmpState1, tmpState2, tmpProj1, tmpProj2\);", "", 0, S_),
    (r"lastGoalMotion_ != nullptr", "lastGoalMotion_ != NIL", 0),
    (r"Motion \*m;\s*std::vector<unsigned int> durations\(.*?(?=pdef_->addSolutionPath)", "", 0, S_),
    (r"pdef_->addSolutionPath\(path, isApproximate, closestDistanceToGoal, getName\(\)\);", "ADD_SOLUTION(lastGoalMotion_, isApproximate, closestDistanceToGoal);", 0),
    (r"si_->freeState\(tmpState[12]\);", "", 0), (r"return \{hasSolution, isApproximate\};", "return STATUS2(hasSolution, isApproximate);", 0),
]
UNITS.append(dict(name="c02_pdst_solve_flags", template="C02/pdst.c", mode="plain", entry="h_pdst", flags=["--bounds-check", "--pointer-check", "--signed-overflow-check", "--conversion-check"], unwind=7, level="bounded",
                  bound="<= 2 iterations of the planning loop after an arbitrary earlier result", backend="minisat", timeout=600, functions=["ompl::control::PDST::solve (flag and status logic; growth, subdivision and path vector behind stubs)"],
                  sources=[dict(name="solve", file=PDSTF, begin=r"double distanceToGoal, closestDistanceToGoal = std::numeric_limits<double>::infinity\(\);", end=r"\}\s*ompl::control::PDST::Motion \*ompl::control::PDST::propagateFrom", rules=PDST_RULES, loops={"allow_uncontracted": True})],
                  canaries=[dict(name="flag_not_from_goal", where="body:solve", rx=r"bool isApproximate = !hasSolution \|\| !GOAL_SAT\(lastGoalMotion_, &closestDistanceToGoal\);", repl="bool isApproximate = !hasSolution; if (hasSolution) GOAL_SAT(lastGoalMotion_, &closestDistanceToGoal);"),
                            dict(name="closer_motion_not_recorded", where="body:solve", rx=r"(else if \(distanceToGoal < closestDistanceToGoal\)\s*\{\s*closestDistanceToGoal = distanceToGoal;)\s*lastGoalMotion_ = newMotion;", repl=r"\1")]))

# ---------------------------------------------------------------- control::RRT::solve: one arbitrary iteration + path construction
CRRTF = "src/ompl/control/planners/rrt/src/RRT.cpp"
CRRT_RULES = [
    (r"while \(ptc == false\)", "ONCE", 0),
    (r"goal_s && rng_\.uniform01\(\) < goalBias_ && goal_s->canSample\(\)", "GOAL_BIAS()", 0), (r"goal_s->sampleGoal\(rstate\);", "WRITE_STATE(rstate);", 0), (r"sampler_->sampleUniform\(rstate\);", "WRITE_STATE(rstate);", 0),
    (r"Motion \*nmotion = nn_->nearest\(rmotion\);", "Motion nmotion = NEAREST();", 0),
    (r"controlSampler_->sampleTo\(rctrl, nmotion->control, nmotion->state, rmotion->state\)", "SAMPLE_TO(rctrl, M_ctrl[nmotion], M_state[nmotion], M_state[rmotion])", 0),
    (r"std::vector<base::State \*> pstates;", "pstates_n = 0;", 0), (r"siC_->propagateWhileValid\(nmotion->state, rctrl, cd, pstates, true\)", "PROPAGATE_WHILE_VALID(M_state[nmotion], rctrl, cd)", 0),
    (r"siC_->getMinControlDuration\(\)", "MIN_DURATION", 0), (r"pstates\.size\(\)", "pstates_n", 0),
    (r"auto \*motion = new Motion\(\);", "Motion motion = NEW_MOTION_EMPTY();", 0), (r"auto \*motion = new Motion\(siC_\);", "Motion motion = NEW_MOTION_ALLOC();", 0),
    (r"motion->state = pstates\[p\];", "M_state[motion] = TAKE_PSTATE(p);", 0), (r"motion->control = siC_->allocControl\(\);", "M_ctrl[motion] = ALLOC_CONTROL();", 0),
    (r"for \(auto &pstate : pstates\)\s*si_->freeState\(pstate\);", "for (size_t q_ = 0; q_ < pstates_n; ++q_) FREE_STATE(PSTATE_AT(q_));", 0), (r"pstates\[p\]", "PSTATE_AT(p)", 0),
    (r"Motion \*(\w+) = ", r"Motion \1 = ", 0), (r"std::vector<Motion \*> mpath;", "VEC(mpath);", 0), (r"mpath\.push_back\(solution\);", "PUSH(mpath, solution);", 0), (r"mpath\.size\(\)", "(int)mpath_n", 0),
    (r"(\w+(?:\[\w+\])?)->steps\b", r"STEPS[\1]", 0), (r"(\w+(?:\[\w+\])?)->parent\b", r"PARENT[\1]", 0), (r"(\w+(?:\[\w+\])?)->state\b", r"M_state[\1]", 0), (r"(\w+(?:\[\w+\])?)->control\b", r"M_ctrl[\1]", 0),
    (r"siC_->copyControl\(", "COPY_CONTROL(", 0), (r"si_->copyState\(", "COPY_STATE(", 0), (r"si_->freeState\(", "FREE_STATE(", 0), (r"nn_->add\(motion\);", "NN_ADD(motion);", 0),
    (r"goal->isSatisfied\(M_state\[motion\], &dist\)", "GOAL_SAT(M_state[motion], &dist)", 0), (r"(\w+) (==|!=) nullptr", r"\1 \2 NIL", 0),
    (r"auto path\(std::make_shared<PathControl>\(si_\)\);", "", 0),
    (r"path->append\(M_state\[(\w+\[\w+\])\], M_ctrl\[(\w+\[\w+\])\], STEPS\[(\w+\[\w+\])\] \* siC_->getPropagationStepSize\(\)\);", r"PATH_APPEND3(\1, \2, \3);", 0),
    (r"path->append\(M_state\[(\w+\[\w+\])\]\);", r"PATH_APPEND1(\1);", 0), (r"pdef_->addSolutionPath\(path, approximate, approxdif, getName\(\)\);", "ADD_SOLUTION(approximate, approxdif);", 0),
    (r"^", "{ ", 0), (r"$", " return solved ? (approximate ? 2 : 1) : 0; }", 0),
]
CRRT_SRC = [dict(name="iteration", file=CRRTF, begin=r"while \(ptc == false\)\s*\{\s*if \(goal_s && rng_\.uniform01\(\)", end=r"bool solved = false;\s*bool approximate = false;\s*if \(solution == nullptr\)", rules=[r for r in CRRT_RULES if r[0] not in (r"$", r"^")], loops={"allow_uncontracted": True}),
            dict(name="path", file=CRRTF, begin=r"bool solved = false;\s*bool approximate = false;\s*if \(solution == nullptr\)", end=r"if \(rmotion->state\)\s*si_->freeState\(rmotion->state\);", rules=CRRT_RULES, wrap_braces=False, loops={"allow_uncontracted": True})]
CFL = ["--bounds-check", "--pointer-check", "--signed-overflow-check", "--conversion-check"]
UNITS.append(dict(name="c02_rrt_iteration", template="C02/crrt.c", mode="plain", entry="h_crrt_iteration", flags=CFL, unwind=14, level="bounded", backend="minisat", timeout=900, sources=CRRT_SRC,
                  bound="<= 3 propagation steps requested per iteration (the tree and the iteration are arbitrary: inductive step)", functions=["ompl::control::RRT::solve (body of the planning loop, one arbitrary iteration from an arbitrary tree; <= 3 states per propagateWhileValid call)"],
                  canaries=[dict(name="steps_of_the_request_not_of_the_result", where="body:iteration", rx=r"STEPS\[motion\] = cd;", repl="STEPS[motion] = cd + 1;"),
                            dict(name="leaks_states_after_the_goal", where="body:iteration", rx=r"while \(\+\+p < pstates_n\)\s*FREE_STATE\(PSTATE_AT\(p\)\);", repl=""),
                            dict(name="wrong_parent_for_intermediate_states", where="body:iteration", rx=r"PARENT\[motion\] = lastmotion;", repl="PARENT[motion] = nmotion;")]))
UNITS.append(dict(name="c02_rrt_path_construction", template="C02/crrt.c", mode="plain", entry="h_crrt_path", flags=CFL, unwind=14, level="bounded", bound="branches of <= 5 motions", backend="minisat", timeout=600, sources=CRRT_SRC,
                  functions=["ompl::control::RRT::solve (solution path construction)"],
                  canaries=[dict(name="approximate_flag_dropped", where="body:path", rx=r"approximate = true;", repl="")]))

# ---------------------------------------------------------------- control::Syclop::solve: solution record and report
SYF = "src/ompl/control/planners/syclop/src/Syclop.cpp"
SY_RULES = [(r"solved = goal->isSatisfied\(motion->state, &distance\);", "solved = GOAL_SAT(motion, &distance);", 0),
            (r"std::vector<const Motion \*> mpath;", "mpath_n = 0;", 0), (r"mpath\.push_back\(solution\);", "MPATH_PUSH(solution);", 0), (r"solution->parent", "M_parent[solution]", 0),
            (r"auto path\(std::make_shared<PathControl>\(si_\)\);", "path_n = 0;", 0), (r"mpath\.size\(\)", "mpath_n", 0), (r"mpath\[i\]->parent", "M_parent[mpath[i]]", 0),
            (r"path->append\(mpath\[i\]->state, mpath\[i\]->control, mpath\[i\]->steps \* siC_->getPropagationStepSize\(\)\);", "PATH_APPEND3(mpath[i], mpath[i], FMULSTEP(M_steps[mpath[i]], STEPSIZE));", 0),
            (r"path->append\(mpath\[i\]->state\);", "PATH_APPEND1(mpath[i]);", 0), (r"pdef_->addSolutionPath\(path, !solved, goalDist, getName\(\)\);", "ADD_SOLUTION(!solved, goalDist);", 0),
            (r"bool addedSolution = false;", "addedSolution = false;", 0), (r"\bnullptr\b", "NIL", 0)]
UNITS.append(dict(name="c02_syclop_solution_record", template="C02/syclop_record.c", mode="plain", entry="h_syclop", flags=["--bounds-check", "--pointer-check", "--signed-overflow-check", "--conversion-check"], unwind=8, level="bounded",
                  bound="<= 3 examined motions on a chain of 4", backend="cadical", timeout=300, functions=["ompl::control::Syclop::solve (solution record and report)"],
                  sources=[dict(name="record", file=SYF, begin=r"solved = goal->isSatisfied\(motion->state, &distance\);", end=r"const int newRegion = decomp_->locateRegion", rules=SY_RULES, loops={"allow_uncontracted": True}),
                           dict(name="report", file=SYF, begin=r"bool addedSolution = false;", end=r"return addedSolution \? base::PlannerStatus::EXACT_SOLUTION", rules=SY_RULES, loops={"allow_uncontracted": True})],
                  canaries=[dict(name="exact_only_if_also_closest", where="body:record", rx=r"if \(solved\)\s*\{\s*goalDist = distance;\s*solution = motion;\s*break;\s*\}", repl="if (solved && distance < goalDist) { goalDist = distance; solution = motion; } if (solved) break;")]))

# ---------------------------------------------------------------- control::PathControl::interpolate / check (anchor src/ompl/control/src/PathControl.cpp)
PCF = "src/ompl/control/src/PathControl.cpp"
PC_RULES = [
    (r"const auto \*si = static_cast<const SpaceInformation \*>\(si_\.get\(\)\);", "", 0), (r"double res = si->getPropagationStepSize\(\);", "double res = RES;", 0),
    (r"std::vector<base::State \*> newStates;", "BigS newStates; newStates.n = 0;", 0), (r"std::vector<Control \*> newControls;", "BigC newControls; newControls.n = 0;", 0), (r"std::vector<double> newControlDurations;", "BigD newControlDurations; newControlDurations.n = 0;", 0),
    (r"auto steps = \((?:int|unsigned int)\)floor\(0\.5 \+ controlDurations_\[i\] / res\);", "int steps = ROUND_STEPS(controlDurations_[i], res);", 0), (r"assert\(steps >= 0\);", "", 0),
    (r"std::vector<base::State \*> istates;", "SVec istates; istates.n = 0;", 0), (r"si->propagate\(states_\[i\], controls_\[i\], steps, istates, true\);", "PROPAGATE(states_[i], controls_[i], steps, &istates);", 0),
    (r"!istates\.empty\(\)", "(istates.n != 0)", 0), (r"si_->freeState\(istates\.back\(\)\);", "FREE_STATE(istates.v[istates.n - 1]);", 0), (r"istates\.pop_back\(\);", "istates.n--;", 0),
    (r"newStates\.insert\(newStates\.end\(\), istates\.begin\(\), istates\.end\(\)\);", "for (unsigned q_ = 0; q_ < istates.n; ++q_) PUSH(newStates, istates.v[q_]);", 0),
    (r"(newStates|newControls|newControlDurations)\.push_back\(([^;]+)\);", r"PUSH(\1, \2);", 0), (r"si->cloneControl\(", "CLONE_CONTROL(", 0),
    (r"states_\.swap\(newStates\);", "for (unsigned q_ = 0; q_ < newStates.n; ++q_) states_[q_] = newStates.v[q_]; states__size = newStates.n;", 0),
    (r"controls_\.swap\(newControls\);", "for (unsigned q_ = 0; q_ < newControls.n; ++q_) controls_[q_] = newControls.v[q_]; controls__size = newControls.n;", 0),
    (r"controlDurations_\.swap\(newControlDurations\);", "for (unsigned q_ = 0; q_ < newControlDurations.n; ++q_) controlDurations_[q_] = newControlDurations.v[q_]; controlDurations__size = newControlDurations.n;", 0),
    (r"states_\.size\(\)", "states__size", 0), (r"controls_\.size\(\)", "controls__size", 0), (r"controls_\.empty\(\)", "(controls__size == 0)", 0),
    (r"si_?->isValid\(", "IS_VALID(", 0), (r"base::State \*next = si_->allocState\(\);", "StateRef next = ALLOC_STATE();", 0), (r"si->propagateWhileValid\(states_\[i\], controls_\[i\], steps, next\)", "PWV(states_[i], controls_[i], steps, next)", 0),
    (r"PWV\(([^;]*?)\) != steps", r"PWV(\1) != (unsigned)steps", 0),
    (r"si->distance\(next, states_\[i \+ 1\]\)", "DISTANCE(next, states_[i + 1])", 0), (r"std::numeric_limits<float>::epsilon\(\)", "1.1920929e-07", 0), (r"si_->freeState\(next\);", "live_next--;", 0),
]
PC_SRC = [dict(name="interpolate", file=PCF, sig=r"void ompl::control::PathControl::interpolate\(\)", rules=PC_RULES, loops={"allow_uncontracted": True}),
          dict(name="check", file=PCF, sig=r"bool ompl::control::PathControl::check\(\) const", rules=PC_RULES, loops={"allow_uncontracted": True})]
for _h, _needs, _can in (("pc_interpolate", ["interpolate"], [dict(name="one_intermediate_state_too_many", where="body:interpolate", rx=r"istates\.n--;", repl=";")]),
                         ("pc_check", ["check"], [dict(name="next_state_not_compared", where="body:check", rx=r"\|\|\s*DISTANCE\(next, states_\[i \+ 1\]\) > 1\.1920929e-07", repl="")])):
    UNITS.append(dict(name="c02_pathcontrol_" + _h[3:], template="C02/pathcontrol.c", mode="plain", entry="h_" + _h, sources=PC_SRC, needs=_needs, flags=["--bounds-check", "--pointer-check", "--signed-overflow-check"], unwind=10,
                      unwindset={"any_path.2": 34, "h_pc_interpolate.5": 34}, level="bounded", bound="<= 2 controls, <= 3 steps per control", backend="cadical", timeout=600, functions=["ompl::control::PathControl::" + _h[3:]], canaries=_can))

PA_RULES = [
    (r"const double eps = std::numeric_limits<float>::epsilon\(\);", "", 0), (r"findDurationAndAncestor\(motion->parent_, state, scratch, ancestor\)", "pdst_fdaa(M_parent_[motion], state, scratch, ancestor_p)", 0),
    (r"si_->distance\(([^;()]+?), state\) < eps", r"NEAR(\1, state)", 0), (r"si_->copyState\(scratch, motion->startState_\);", ";", 0), (r"siC_->propagate\(scratch, motion->control_, 1, scratch\);", ";", 0),
    (r"while \(ancestor->parent_ &&", "found_ = motion; dlocal_ = duration; while (ancestor->parent_ &&", 0),
    (r"siC_->equalControls\(", "EQUAL_CONTROLS(", 0),
    (r"(\w+)->parent_->(control_|controlDuration_)", r"M_\2[M_parent_[\1]]", 0), (r"(\w+)->(endState_|startState_|controlDuration_|control_|parent_)\b", r"M_\2[\1]", 0),
    (r"\bancestor\b", "(*ancestor_p)", 0),
]
UNITS.append(dict(name="c02_pdst_findDurationAndAncestor", template="C02/pdst_ancestor.c", mode="plain", entry="h_pdst_fdaa", flags=["--bounds-check", "--pointer-check", "--unsigned-overflow-check"], unwind=8, level="bounded",
                  bound="chains of <= 4 motions, control durations <= 4 steps", backend="minisat", timeout=300, functions=["ompl::control::PDST::findDurationAndAncestor"],
                  sources=[dict(name="findDurationAndAncestor", file=PDSTF, sig=r"unsigned int ompl::control::PDST::findDurationAndAncestor\(Motion \*motion, base::State \*state, base::State \*scratch,\s*Motion \*&ancestor\) const", rules=PA_RULES, loops={"allow_uncontracted": True})],
                  canaries=[dict(name="pieces_identified_by_control_value", where="body:findDurationAndAncestor", rx=r"M_control_\[\(\*ancestor_p\)\] == M_control_\[M_parent_\[\(\*ancestor_p\)\]\]", repl="EQUAL_CONTROLS(M_control_[(*ancestor_p)], M_control_[M_parent_[(*ancestor_p)]])")]))

CE_RULES = [
    (r"bool approximate = false;", "bool approximate = false;", 0), (r"lastGoalMotion_ = solution;", "lastGoalMotion_ = solution; lgm_set = true;", 0),
    (r"std::vector<Motion \*> mpath;", "mpath_n = 0;", 0), (r"mpath\.push_back\(solution\);", "MPATH_PUSH(solution);", 0), (r"solution->parent", "M_parent[solution]", 0),
    (r"auto path\(std::make_shared<PathControl>\(si_\)\);", "path_n = 0;", 0), (r"mpath\.size\(\)", "mpath_n", 0), (r"mpath\[i\]->parent", "M_parent[mpath[i]]", 0),
    (r"path->append\(mpath\[i\]->state, mpath\[i\]->control, mpath\[i\]->steps \* siC_->getPropagationStepSize\(\)\);", "PATH_APPEND3(mpath[i], mpath[i], DURATION(M_steps[mpath[i]], STEPSIZE));", 0),
    (r"path->append\(mpath\[i\]->state\);", "PATH_APPEND1(mpath[i]);", 0), (r"pdef_->addSolutionPath\(path, approximate, approxdif, getName\(\)\);", "ADD_SOLUTION(approximate, approxdif);", 0),
    (r"if \(rmotion->state\)\s*si_->freeState\(rmotion->state\);", "", 0), (r"if \(rmotion->control\)\s*siC_->freeControl\(rmotion->control\);", "", 0), (r"delete rmotion;", "", 0),
    (r"siC_->freeControl\(rctrl\);", "", 0), (r"for \(auto &state : states\)\s*si_->freeState\(state\);", "", 0), (r"\bnullptr\b", "NIL", 0),
]
for _pl, _f in (("est", "src/ompl/control/planners/est/src/EST.cpp"), ("kpiece1", "src/ompl/control/planners/kpiece/src/KPIECE1.cpp")):
    UNITS.append(dict(name="c02_%s_report_epilogue" % _pl, template="C02/ctrl_epilogue.c", mode="plain", entry="h_ctrl_epilogue", flags=["--bounds-check", "--pointer-check", "--signed-overflow-check", "--conversion-check"], unwind=8, level="bounded",
                      bound="parent chains of <= 4 motions", backend="minisat", timeout=300, functions=["ompl::control::%s::solve (result-reporting epilogue)" % _pl.upper()],
                      sources=[dict(name="ctrl_epilogue", file=_f, begin=r"bool approximate = false;\s*if \(solution == nullptr\)", end=r"return \{solved, approximate\};", rules=CE_RULES, loops={"allow_uncontracted": True}, wrap_braces=False)],
                      canaries=[dict(name="control_of_the_parent", where="body:ctrl_epilogue", rx=r"PATH_APPEND3\(mpath\[i\], mpath\[i\],", repl="PATH_APPEND3(mpath[i], M_parent[mpath[i]],")]))

# the per-motion exact / approximate bookkeeping of control EST and KPIECE1 (template and rules shared with C01)
import importlib.util as _ilu2, os as _os2, copy as _copy2
_sp = _ilu2.spec_from_file_location("c01r", _os2.path.join(_os2.path.dirname(__file__), "C01.py")); _C01 = _ilu2.module_from_spec(_sp); _sp.loader.exec_module(_C01)
UNITS += [_copy2.deepcopy(u) for u in _C01.REC_UNITS.get("C02", [])]

ASSUMPTIONS = ["the user's state propagator and validity checker are deterministic callbacks; states/controls are abstract objects with ghost counters",
               "bounded: |steps| <= 4, at most 3 control samples; control dimension <= 64", "RNG contract uniformReal in [a,b)",
               "planner fragments: motions/states/controls are references with ghost content ids; the goal, samplers and propagators are arbitrary"]
TRUSTED = ["extraction rewrite tables of units/C02.py", "stubs/harness code in units/C02/*.c", "CBMC 6.11"]
NOT_COVERED = ["control planners other than RRT (loop body + path construction), SST (solution record + path construction), PDST (flag logic, findDurationAndAncestor) and Syclop (solution record + report): EST, KPIECE, LTL; their PathControl assembly and approximate marking",
               "control::RRT: the start-state loop and the contracts assumed for DirectedControlSampler::sampleTo and the vector overload of propagateWhileValid (they RECORD what they propagated; that the record is true is what the units on propagateWhileValid -- scalar form unbounded, vector form bounded -- and getBestControl establish)",
               "PathControl::asGeometric / append / random; in check() and interpolate() the rounding floor(0.5 + duration / stepSize) is behind a recording stub (that both functions use the SAME rounding is what is proved)"]

MISC_CPPS = ['src/ompl/control/src/SpaceInformation.cpp', 'src/ompl/control/src/SimpleDirectedControlSampler.cpp', 'src/ompl/control/spaces/src/RealVectorControlSpace.cpp']
NATIVE = [
    dict(name="c02_native_search", driver="native/misc_native.cpp", link_ompl=True, unit_cpps=MISC_CPPS, args=lambda tier, seed: ["c02", seed, 2000 if tier == "quick" else 200000], timeout=900),
]


def replay(ur, scratch, seed):
    """Search the real classes for a failing input (native/misc_native.cpp, mode c02)."""
    from vf import native as N, cbmc as C
    exe = N.build_driver("native/misc_native.cpp", scratch, link_ompl=True, unit_cpps=MISC_CPPS)
    r = C.run_cmd([exe, "c02", str(seed), "50000"], 600, env=N.run_env())
    return dict(found=(r["rc"] == 1), driver="native/misc_native.cpp", args=["c02", seed, 50000], link_ompl=True, unit_cpps=MISC_CPPS, output=r["out"][-2500:])
