/* C02: control::RRT::solve -- (A) ONE arbitrary iteration of the planning loop from an arbitrary tree (inductive step: whatever the tree
 * looks like, a motion enters it only as "the state the propagator/sampler reported for its parent's state under exactly the stored
 * control and step count"), and (B) the construction of the PathControl from the parent chain.
 * States/controls are references with ghost content ids; the directed control sampler and propagateWhileValid are stubs that RECORD
 * what they propagated (from-content, control-content, steps, to-content); the obligation sits in the precondition of nn_->add.
 * Bounded only in the number of intermediate states one call of propagateWhileValid returns (<= PMAX) and, for (B), the branch depth. */
#include <stddef.h>
#include <stdbool.h>
#ifndef PMAX
#define PMAX 3
#endif
#define NMO (PMAX + 4)
#define NST (2 * PMAX + 6)
#define NIL 0u
#define REACH(tag) __CPROVER_assert(0, "REACH " tag)
#define ONCE for (int once_ = 0; once_ < 1; ++once_)
typedef unsigned Motion; typedef unsigned SRef; typedef unsigned CRef;
SRef M_state[NMO]; CRef M_ctrl[NMO]; unsigned STEPS[NMO]; Motion PARENT[NMO]; bool IN_TREE[NMO]; Motion next_m;
unsigned S_cid[NST]; bool S_alive[NST]; bool S_owned[NST]; SRef next_s; unsigned C_cid[NST]; bool C_alive[NST]; CRef next_c; unsigned next_cid;
int state_allocs, state_frees, ctrl_allocs, ctrl_frees, added;
struct { unsigned from, ctrl, steps, to; bool used; } REC[PMAX + 1];
SRef pstates[PMAX]; size_t pstates_n; bool p_taken[PMAX];
Motion solution, approxsol, lastGoalMotion_; double approxdif; unsigned MIN_DURATION; bool addIntermediateStates_;
Motion goal_eval_m; double goal_eval_dist; bool goal_eval_sat; Motion rmotion; SRef rstate; CRef rctrl;
bool nondet_bool(void); unsigned nondet_unsigned(void); double nondet_double(void);
static unsigned fresh(void) { return next_cid++; }
static bool GOAL_BIAS(void) { return nondet_bool(); }
static void WRITE_STATE(SRef s) { __CPROVER_assert(s == rstate && S_alive[s], "sampling writes the scratch state only"); S_cid[s] = fresh(); }
static Motion NEAREST(void) { return 1; }
static unsigned SAMPLE_TO(CRef c, CRef prev, SRef src, SRef dst)
{
    __CPROVER_assert(c == rctrl && dst == rstate && S_alive[src] && S_alive[dst] && C_alive[c], "the directed sampler writes the scratch control and the scratch state");
    unsigned cd = nondet_unsigned(); __CPROVER_assume(cd <= PMAX);
    C_cid[c] = fresh(); S_cid[dst] = fresh();
    REC[0].from = S_cid[src]; REC[0].ctrl = C_cid[c]; REC[0].steps = cd; REC[0].to = S_cid[dst]; REC[0].used = 1; for (int k = 1; k <= PMAX; k++) REC[k].used = 0;
    return cd;
}
static unsigned PROPAGATE_WHILE_VALID(SRef src, CRef c, unsigned steps)
{
    __CPROVER_assert(S_alive[src] && C_alive[c] && steps <= PMAX, "propagation from an allocated state under an allocated control");
    unsigned r = nondet_unsigned(); __CPROVER_assume(r <= steps);
    unsigned prev = S_cid[src];
    for (unsigned k = 0; k < PMAX; k++) { REC[k].used = 0; if (k < r) { SRef s = next_s++; S_alive[s] = 1; S_owned[s] = 0; S_cid[s] = fresh(); state_allocs++; pstates[k] = s; p_taken[k] = 0;
        REC[k].from = prev; REC[k].ctrl = C_cid[c]; REC[k].steps = 1; REC[k].to = S_cid[s]; REC[k].used = 1; prev = S_cid[s]; } }
    REC[PMAX].used = 0; pstates_n = r; return r;
}
static SRef PSTATE_AT(size_t p) { __CPROVER_assert(p < pstates_n, "C02.range index into the propagated states"); return pstates[p]; }
static SRef TAKE_PSTATE(size_t p) { __CPROVER_assert(p < pstates_n && !p_taken[p], "a propagated state is handed to one motion only"); p_taken[p] = 1; return pstates[p]; }
static Motion NEW_MOTION_EMPTY(void) { __CPROVER_assert(next_m < NMO, "pool"); Motion m = next_m++; M_state[m] = NIL; M_ctrl[m] = NIL; STEPS[m] = 0; PARENT[m] = NIL; IN_TREE[m] = 0; return m; }
static SRef ALLOC_STATE(void) { __CPROVER_assert(next_s < NST, "pool"); SRef s = next_s++; S_alive[s] = 1; S_owned[s] = 0; S_cid[s] = 0; state_allocs++; return s; }
static CRef ALLOC_CONTROL(void) { __CPROVER_assert(next_c < NST, "pool"); CRef c = next_c++; C_alive[c] = 1; C_cid[c] = 0; ctrl_allocs++; return c; }
static Motion NEW_MOTION_ALLOC(void) { Motion m = NEW_MOTION_EMPTY(); M_state[m] = ALLOC_STATE(); M_ctrl[m] = ALLOC_CONTROL(); return m; }
static void COPY_CONTROL(CRef dst, CRef src) { __CPROVER_assert(C_alive[dst] && C_alive[src], "copy between allocated controls"); C_cid[dst] = C_cid[src]; }
static void COPY_STATE(SRef dst, SRef src) { __CPROVER_assert(S_alive[dst] && S_alive[src], "copy between allocated states"); S_cid[dst] = S_cid[src]; }
static void FREE_STATE(SRef s) { __CPROVER_assert(s != NIL && S_alive[s] && !S_owned[s] && s != rstate, "C02.mem only an allocated state that no tree motion owns is freed, once"); S_alive[s] = 0; state_frees++; }
static void NN_ADD(Motion m)
{
    __CPROVER_assert(m != NIL && !IN_TREE[m] && m != rmotion, "a new motion is added once");
    __CPROVER_assert(PARENT[m] != NIL && IN_TREE[PARENT[m]], "C02.tree the parent of a new motion is in the tree");
    __CPROVER_assert(M_state[m] != NIL && S_alive[M_state[m]] && !S_owned[M_state[m]] && M_state[m] != rstate && M_ctrl[m] != NIL && C_alive[M_ctrl[m]] && M_ctrl[m] != rctrl, "C02.mem a new motion owns its state and control");
    bool rec = 0;
    for (int k = 0; k <= PMAX; k++) if (REC[k].used && REC[k].from == S_cid[M_state[PARENT[m]]] && REC[k].to == S_cid[M_state[m]] && REC[k].ctrl == C_cid[M_ctrl[m]] && REC[k].steps == STEPS[m]) rec = 1;
    __CPROVER_assert(rec, "C02.edge the state of a new motion is what the propagator reported from its parent's state under exactly the stored control and step count");
    __CPROVER_assert(STEPS[m] >= 1, "C02.edge a motion applies its control for at least one step");
    IN_TREE[m] = 1; S_owned[M_state[m]] = 1; added++;
}
static bool GOAL_SAT(SRef s, double *dist) { double d = nondet_double(); __CPROVER_assume(d >= 0.0); *dist = d; bool r = nondet_bool(); goal_eval_dist = d; goal_eval_sat = r; goal_eval_m = 0; for (Motion m = 1; m < NMO; m++) if (m < next_m && M_state[m] == s) goal_eval_m = m; return r; }

void crrt_iteration(void)
/*@BODY iteration@*/

/* ---- (B) path construction ---- */
#define VEC(name) Motion name[NMO]; size_t name##_n = 0
#define PUSH(name, m) do { __CPROVER_assert(name##_n < NMO, "branch depth within the bound"); name[name##_n++] = (m); } while (0)
Motion path_last; size_t path_states; int sol_added; bool sol_approx; double sol_dif; double STEPSIZE;
static void PATH_APPEND3(Motion a, Motion b, Motion c)
{
    __CPROVER_assert(a == b && b == c, "C02.triple state, control and duration appended together belong to one motion");
    __CPROVER_assert(path_states > 0 && PARENT[a] == path_last, "C02.chain the control appended with a state is the one the tree applied at the previously appended state");
    path_last = a; path_states++;
}
static void PATH_APPEND1(Motion a) { __CPROVER_assert(path_states == 0 && PARENT[a] == NIL, "C02.chain a state without control is appended first and is a root"); path_last = a; path_states++; }
static void ADD_SOLUTION(bool approximate, double dif) { sol_added++; sol_approx = approximate; sol_dif = dif; }
int crrt_path(void)
/*@BODY path@*/

static void setup_tree(void)
{
    next_m = 3; next_s = 3; next_c = 3; next_cid = 100; state_allocs = state_frees = ctrl_allocs = ctrl_frees = added = 0; pstates_n = 0;
    for (unsigned k = 0; k < NST; k++) { S_alive[k] = 0; S_owned[k] = 0; C_alive[k] = 0; }
    for (int k = 0; k <= PMAX; k++) REC[k].used = 0;
    /* motion 1: some motion of the tree; motion 2: the scratch motion rmotion */
    M_state[1] = 1; M_ctrl[1] = 1; S_alive[1] = 1; S_owned[1] = 1; C_alive[1] = 1; S_cid[1] = 11; C_cid[1] = 21; IN_TREE[1] = 1; PARENT[1] = NIL; STEPS[1] = nondet_unsigned();
    rmotion = 2; rstate = 2; rctrl = 2; M_state[2] = 2; M_ctrl[2] = 2; S_alive[2] = 1; C_alive[2] = 1; S_cid[2] = 12; C_cid[2] = 22; IN_TREE[2] = 0; PARENT[2] = NIL;
}
void h_crrt_iteration(void)
{
    setup_tree(); solution = NIL; approxsol = nondet_bool() ? 1 : NIL; __CPROVER_assume(approxdif >= 0.0 && MIN_DURATION >= 1);
    Motion app0 = approxsol; double dif0 = approxdif;
    crrt_iteration();
    __CPROVER_assert(state_allocs - state_frees == added && ctrl_allocs - ctrl_frees == added, "C02.mem every state and control allocated in the iteration is owned by a new tree motion or freed");
    __CPROVER_assert(S_alive[rstate] && C_alive[rctrl] && !IN_TREE[rmotion], "the scratch motion stays outside the tree and allocated");
    if (solution != NIL) __CPROVER_assert(IN_TREE[solution] && goal_eval_m == solution && goal_eval_sat && approxdif == goal_eval_dist, "C01.difference an exact solution is a tree motion the goal accepted, with the goal's own distance");
    if (solution == NIL && approxsol != app0) __CPROVER_assert(IN_TREE[approxsol] && approxdif < dif0, "the closest motion is replaced only by a closer tree motion");
    if (solution == NIL && approxsol == app0) __CPROVER_assert(approxdif == dif0, "the recorded difference changes only with the recorded motion");
    if (added > 1) REACH("intermediate states added"); if (added == 1 && !addIntermediateStates_) REACH("one motion added"); if (added == 0) REACH("too short, nothing added"); if (solution != NIL) REACH("goal reached");
}
void h_crrt_path(void)
{
    unsigned d = nondet_unsigned(); __CPROVER_assume(d >= 1 && d < NMO - 1);
    for (Motion m = 1; m < NMO; m++) { PARENT[m] = (m <= d && m > 1) ? m - 1 : NIL; M_state[m] = m; M_ctrl[m] = m; }
    bool exact = nondet_bool(), any = nondet_bool(); solution = exact ? d : NIL; approxsol = (!exact && any) ? d : NIL; __CPROVER_assume(approxdif >= 0.0);
    path_states = 0; path_last = NIL; sol_added = 0; lastGoalMotion_ = NIL;
    int st = crrt_path();
    if (exact || any)
    {
        __CPROVER_assert(sol_added == 1 && sol_approx == !exact && sol_dif == approxdif && lastGoalMotion_ == d, "C01.approx one solution; approximate exactly when no motion satisfied the goal; the recorded difference is reported");
        __CPROVER_assert(path_states == (size_t)d && path_last == d, "C02.chain the path runs from a root to the reported motion");
        REACH("path built");
    }
    else { __CPROVER_assert(sol_added == 0 && path_states == 0 && lastGoalMotion_ == NIL, "no path without a solution"); REACH("no solution"); }
    __CPROVER_assert(st == ((exact || any) ? (exact ? 1 : 2) : 0), "C01.status solved/approximate flags agree with what was added");
}
