/* C02 -- the result-reporting epilogue of control::EST and control::KPIECE1 (control::RRT's is part of its own unit): the reported path is the parent chain of
 * the chosen motion (the one that satisfied the goal, otherwise the closest one), root first; the root contributes its state only, every other motion its OWN
 * state, its OWN control and steps x propagation step size; approximate exactly when no motion satisfied the goal, with the recorded difference.
 * Bounded: chains of <= 4 motions. */
#include <stdbool.h>
#include <stddef.h>
#define NM 6
#define NIL 0u
#define REACH(msg) __CPROVER_assert(0, "REACH " msg)
typedef unsigned MotionRef;
typedef struct { bool solved, approximate; } PStatus;
MotionRef M_parent[NM]; unsigned M_steps[NM]; MotionRef lastGoalMotion_; double approxdif, STEPSIZE; bool lgm_set;
MotionRef mpath[NM]; unsigned mpath_n; MotionRef p_state[NM], p_ctrl[NM]; unsigned p_steps[NM]; double p_stepsize[NM]; unsigned path_n; unsigned adds; bool add_approx; double add_dif;
unsigned dur_steps; double dur_stepsize; bool dur_fresh; double nondet_double(void);
static void MPATH_PUSH(MotionRef m) { __CPROVER_assert(mpath_n < NM, "model capacity"); mpath[mpath_n++] = m; }
static double DURATION(unsigned steps, double stepsize) { dur_steps = steps; dur_stepsize = stepsize; dur_fresh = true; return nondet_double(); }
static void PATH_APPEND3(MotionRef st, MotionRef ct, double dur) { __CPROVER_assert(path_n < NM, "model capacity"); p_state[path_n] = st; p_ctrl[path_n] = ct; p_steps[path_n] = dur_fresh ? dur_steps : 0u; p_stepsize[path_n] = dur_stepsize; dur_fresh = false; path_n++; }
static void PATH_APPEND1(MotionRef st) { __CPROVER_assert(path_n < NM, "model capacity"); p_state[path_n] = st; p_ctrl[path_n] = NIL; p_steps[path_n] = 0; path_n++; }
static void ADD_SOLUTION(bool approx, double dif) { adds++; add_approx = approx; add_dif = dif; }
PStatus ctrl_epilogue(MotionRef solution, MotionRef approxsol, bool solved)
{
/*@BODY ctrl_epilogue@*/
    { PStatus r_ = {solved, approximate}; return r_; }
}
void h_ctrl_epilogue(void)
{
    for (MotionRef m = 1; m < NM; m++) { M_parent[m] = m - 1; __CPROVER_assume(M_steps[m] >= 1 && M_steps[m] <= 1000); }
    MotionRef sol, apx; __CPROVER_assume(sol <= 4 && apx <= 4 && approxdif == approxdif && STEPSIZE > 0.0); adds = 0; path_n = 0; mpath_n = 0; lgm_set = false; dur_fresh = false;
    bool solved_in = (sol != NIL);                      /* the search loop sets `solved` from the goal's verdict for `solution` */
    PStatus st = ctrl_epilogue(sol, apx, solved_in);
    MotionRef chosen = sol != NIL ? sol : apx;
    __CPROVER_assert(adds == (chosen != NIL ? 1u : 0u) && !st.solved == !(chosen != NIL), "C02.status a path is added, and the status says solved, exactly when a motion was found");
    if (chosen != NIL)
    {
        __CPROVER_assert(!add_approx == !(sol == NIL) && !st.approximate == !(sol == NIL) && add_dif == approxdif, "C02.flag approximate exactly when no motion satisfied the goal; the reported difference is the recorded one");
        __CPROVER_assert(path_n == chosen && p_state[0] == 1 && p_ctrl[0] == NIL && (!lgm_set || lastGoalMotion_ == chosen), "the path starts at the root, with no control, and ends at the chosen motion");
        for (unsigned k = 1; k < NM; k++) if (k < path_n) __CPROVER_assert(p_state[k] == k + 1 && p_ctrl[k] == k + 1 && p_steps[k] == M_steps[k + 1] && p_stepsize[k] == STEPSIZE, "C02.triples every step is the motion's own state, its own control and its steps x the propagation step size");
        if (sol == NIL) REACH("approximate"); else REACH("exact");
    }
    else REACH("nothing found");
}
