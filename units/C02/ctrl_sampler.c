/* RealVectorStateSpace / RealVectorStateSampler: per-coordinate loops with loop contracts; universal statements are
 * Skolemised with the ghost coordinate G.  State values live in static arrays of MAXDIM doubles (dimension <= MAXDIM). */
#include "../spaces/fp_stubs.h"
#ifndef MAXDIM
#define MAXDIM 64
#endif
typedef struct { double *values; } RVState;
double VAL_A[MAXDIM], VAL_B[MAXDIM], VAL_C[MAXDIM], LOW[MAXDIM], HIGH[MAXDIM];
unsigned dimension_; unsigned G;
double V0, LO_G, HI_G;          /* ghosts: pre-state value, bounds at G */
typedef struct { double *low; double *high; } Bounds; Bounds bounds_ = { LOW, HIGH };
#define WF (bounds_.low == LOW && bounds_.high == HIGH && dimension_ >= 1 && dimension_ <= MAXDIM && G < dimension_ && LO_G == LOW[G] && HI_G == HIGH[G] && LO_G <= HI_G && IS_FINITE(LO_G) && IS_FINITE(HI_G))
/* uniformReal / gaussian / FMUL01 as contracts (DFCC replaces the calls) */
double c_uniformReal(double a, double b)
__CPROVER_requires(1)
__CPROVER_assigns()
/* with lower <= upper the value lies in [a,b) (a for a == b); called with lower > upper (C08.rng violated) the result is arbitrary,
 * so the in-bounds postcondition at the ghost coordinate fails */
__CPROVER_ensures(a < b ? (__CPROVER_return_value >= a && __CPROVER_return_value < b) : (a == b ==> __CPROVER_return_value == a));
double c_gaussian(double m, double s)
__CPROVER_requires(1) __CPROVER_assigns() __CPROVER_ensures(IS_FINITE(__CPROVER_return_value));
double c_FMUL01(double x, double t)
__CPROVER_requires(t >= 0.0 && t <= 1.0)
__CPROVER_assigns()
__CPROVER_ensures(x >= 0.0 ? (__CPROVER_return_value >= 0.0 && __CPROVER_return_value <= x) : (__CPROVER_return_value <= 0.0 && __CPROVER_return_value >= x))
__CPROVER_ensures((t != 1.0 || __CPROVER_return_value == x) && (t != 0.0 || __CPROVER_return_value == 0.0) && (x != 0.0 || __CPROVER_return_value == 0.0));
double c_FSQ(double d)          /* d*d: non-negative, zero iff d is zero (no underflow modelling: see assumptions) */
__CPROVER_requires(1) __CPROVER_assigns() __CPROVER_ensures(d == d ? (__CPROVER_return_value >= 0.0 && (d != 0.0 || __CPROVER_return_value == 0.0)) : __CPROVER_return_value != __CPROVER_return_value);
double c_SQRT(double x)
__CPROVER_requires(1) __CPROVER_assigns() __CPROVER_ensures(x >= 0.0 ? (__CPROVER_return_value >= 0.0 && (x != 0.0 || __CPROVER_return_value == 0.0)) : __CPROVER_return_value != __CPROVER_return_value);
bool sat_at_G; /* ghost */
#define SAT1(v) (!((v) - DBL_EPSILON > HI_G || (v) + DBL_EPSILON < LO_G))


void ctrl_sample(RVState *control)
__CPROVER_requires(WF && control->values == VAL_A)
__CPROVER_assigns(__CPROVER_object_whole(VAL_A))
__CPROVER_ensures(VAL_A[G] >= LO_G && VAL_A[G] <= HI_G)        /* C02.bounds every control coordinate lies within ITS OWN bounds */
/*@BODY ctrl_sample@*/
RVState SA;
void h_ctrl(void) { ctrl_sample(&SA); REACH("done"); }
