/* C02 -- control::PathControl::interpolate() and ::check(): a (state, control, duration) step is expanded into / replayed as the SAME number of
 * propagation steps: both functions obtain it from the same rounding of duration / stepSize (behind ROUND_STEPS, whose arithmetic is trusted), the
 * expansion of a k-step segment consists of k entries of duration stepSize with the segment's control, its intermediate states are the first k-1
 * states of propagate(start, control, k), and the path still ends at the original end state; check() replays every segment with exactly that count
 * and compares the result with the stored next state.  Bounded: <= 2 controls, <= 3 steps per control. */
#include <stdbool.h>
#include <stddef.h>
#define NC 2
#define KMAX 3
#define NOUT 8
#define REACH(msg) __CPROVER_assert(0, "REACH " msg)
typedef int StateRef; typedef int CtrlRef;
bool nondet_bool(void); double nondet_double(void); int nondet_int(void);
/* the path */
StateRef states_[NOUT]; unsigned states__size; CtrlRef controls_[NOUT]; unsigned controls__size; double controlDurations_[NOUT]; unsigned controlDurations__size;
double RES; int STEPS_OF[NC]; unsigned round_calls; double round_dur[NOUT], round_res[NOUT];
static int ROUND_STEPS(double dur, double res) { __CPROVER_assert(round_calls < NOUT, "model capacity"); round_dur[round_calls] = dur; round_res[round_calls] = res; unsigned k = round_calls++; return k < NC ? STEPS_OF[k] : 0; }
/* propagate(start, control, steps, out, alloc=true): out = steps fresh states tagged (start, control, j) */
typedef struct { StateRef v[KMAX + 1]; unsigned n; } SVec;
int PROP_start[32], PROP_ctrl[32], PROP_j[32]; bool S_alive[32]; int s_next;
static void PROPAGATE(StateRef st, CtrlRef c, int steps, SVec *out) { out->n = 0; for (int j = 1; j <= KMAX; j++) if (j <= steps) { __CPROVER_assert(s_next < 32, "model capacity"); int s = s_next++; S_alive[s] = true; PROP_start[s] = st; PROP_ctrl[s] = c; PROP_j[s] = j; out->v[out->n++] = s; } }
static void FREE_STATE(StateRef s) { __CPROVER_assert(s >= 0 && s < 32 && S_alive[s], "free of a live state"); S_alive[s] = false; }
int CLONE_of[64]; int c_next;
static CtrlRef CLONE_CONTROL(CtrlRef c) { __CPROVER_assert(c_next < 64, "model capacity"); int n = c_next++; CLONE_of[n] = (c >= 32 ? CLONE_of[c] : c); return n; }
typedef struct { StateRef v[NOUT]; unsigned n; } BigS; typedef struct { CtrlRef v[NOUT]; unsigned n; } BigC; typedef struct { double v[NOUT]; unsigned n; } BigD;
#define PUSH(vec, x) do { __CPROVER_assert((vec).n < NOUT, "model capacity"); (vec).v[(vec).n++] = (x); } while (0)
void pc_interpolate(void)
/*@BODY interpolate@*/
/* check() */
int pwv_steps[NC]; StateRef pwv_from[NC]; CtrlRef pwv_ctrl[NC]; unsigned pwv_calls; unsigned PWV_RET[NC]; bool VALID0; double DIST_RET[NC]; StateRef dist_to[NC]; int live_next;
static bool IS_VALID(StateRef s) { return nondet_bool(); }
static StateRef ALLOC_STATE(void) { live_next++; return 1000; }
static unsigned PWV(StateRef st, CtrlRef c, int steps, StateRef res) { __CPROVER_assert(pwv_calls < NC, "model capacity"); pwv_from[pwv_calls] = st; pwv_ctrl[pwv_calls] = c; pwv_steps[pwv_calls] = steps; return PWV_RET[pwv_calls++]; }
unsigned dist_calls;
static double DISTANCE(StateRef a, StateRef b) { __CPROVER_assert(dist_calls < NC, "model capacity"); dist_to[dist_calls] = b; return DIST_RET[dist_calls++]; }
bool pc_check(void)
/*@BODY check@*/

static void any_path(void)
{
    __CPROVER_assume(controls__size >= 1 && controls__size <= NC); states__size = controls__size + 1; controlDurations__size = controls__size;
    for (unsigned i = 0; i < NC + 1; i++) states_[i] = 100 + (int)i; for (unsigned i = 0; i < NC; i++) { controls_[i] = 10 + (int)i; __CPROVER_assume(controlDurations_[i] == controlDurations_[i] && STEPS_OF[i] >= 0 && STEPS_OF[i] <= KMAX); }
    __CPROVER_assume(RES > 0.0 && RES <= 1.0); round_calls = 0; s_next = 0; c_next = 32; for (int k = 0; k < 32; k++) S_alive[k] = false;
}
void h_pc_interpolate(void)
{
    any_path(); unsigned n0 = controls__size; double d0[NC]; for (unsigned i = 0; i < NC; i++) d0[i] = controlDurations_[i];
    pc_interpolate();
    __CPROVER_assert(round_calls == n0, "the step count of every segment comes from the shared rounding of duration / step size");
    for (unsigned i = 0; i < NC; i++) if (i < n0) __CPROVER_assert(round_dur[i] == d0[i] && round_res[i] == RES, "C02.steps ... of that segment's own duration and the propagation step size");
    unsigned total = 0; for (unsigned i = 0; i < NC; i++) if (i < n0) total += (STEPS_OF[i] <= 1 ? 1u : (unsigned)STEPS_OF[i]);
    __CPROVER_assert(controls__size == total && controlDurations__size == total && states__size == total + 1, "C02.sizes one more state than controls, as many durations as controls: a k-step segment becomes k entries");
    __CPROVER_assert(states_[0] == 100 && states_[states__size - 1] == 100 + (int)n0, "the path keeps its first and last state");
    /* walk the expansion */
    unsigned p = 0;
    for (unsigned i = 0; i < NC; i++) if (i < n0)
    {
        int k = STEPS_OF[i];
        __CPROVER_assert(states_[p] == 100 + (int)i, "each segment starts at its original state");
        if (k <= 1) { __CPROVER_assert(controls_[p] == 10 + (int)i && controlDurations_[p] == d0[i], "a segment of at most one step is kept as it is"); p += 1; }
        else
        {
            for (int j = 0; j < KMAX; j++) if (j < k)
            {
                CtrlRef c = controls_[p + j]; __CPROVER_assert((c >= 32 ? CLONE_of[c] : c) == 10 + (int)i && controlDurations_[p + j] == RES, "C02.triples every expanded step applies the segment's control for one step size");
                if (j >= 1) { StateRef s = states_[p + j]; __CPROVER_assert(s >= 0 && s < 32 && S_alive[s] && PROP_start[s] == 100 + (int)i && PROP_ctrl[s] == 10 + (int)i && PROP_j[s] == j, "C02.replay the j-th intermediate state is the state reached after j steps of the segment's control from its start state"); }
            }
            p += (unsigned)k;
        }
    }
    if (n0 == 2 && STEPS_OF[0] == 3 && STEPS_OF[1] == 1) REACH("a three-step and a one-step segment");
}
void h_pc_check(void)
{
    any_path(); pwv_calls = 0; dist_calls = 0; live_next = 0; unsigned n0 = controls__size; for (unsigned i = 0; i < NC; i++) __CPROVER_assume(DIST_RET[i] == DIST_RET[i]);
    bool r = pc_check();
    if (r) {
        __CPROVER_assert(round_calls == n0 && pwv_calls == n0, "every segment is replayed");
        for (unsigned i = 0; i < NC; i++) if (i < n0) { __CPROVER_assert(round_dur[i] == controlDurations_[i] && round_res[i] == RES && pwv_steps[i] == STEPS_OF[i] && pwv_from[i] == states_[i] && pwv_ctrl[i] == controls_[i], "C02.replay segment i is replayed from its own state with its own control for the rounded number of steps");
            __CPROVER_assert(PWV_RET[i] == (unsigned)STEPS_OF[i] && dist_to[i] == states_[i + 1] && DIST_RET[i] <= 1.1920929e-07, "C02.replay a valid path reaches every stored next state (all steps valid, distance within float epsilon)"); }
        REACH("valid"); }
    else REACH("invalid");
}
