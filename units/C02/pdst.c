/* C02/C01/C03: control::PDST::solve -- flag logic of a (possibly resumed) solve: the solution handed to the problem definition is the
 * branch of lastGoalMotion_, its 'approximate' flag is the negation of the goal's own verdict for that motion's end state, the reported
 * difference is the goal's distance for it, and the returned status agrees.  Tree growth, cell subdivision and the path vector are behind
 * stubs (dropped statements are listed in the rewrite table); the goal is a fixed but arbitrary verdict/distance per motion.
 * Bounded: <= 2 iterations of the planning loop (any previous history is covered by the arbitrary lastGoalMotion_ on entry). */
#include <stddef.h>
#include <stdbool.h>
#define NM 5
#define NIL 0u
#define REACH(tag) __CPROVER_assert(0, "REACH " tag)
typedef unsigned Motion;
enum { ST_TIMEOUT = 1, ST_APPROX, ST_EXACT, ST_INVALID_START };
bool SAT[NM]; double DIST[NM]; Motion lastGoalMotion_, next_m; int ptc_calls; bool pq_empty, starts_added;
int added; Motion added_m; bool added_approx; double added_dist;
bool nondet_bool(void);
static bool GOAL_SAT(Motion m, double *d) { __CPROVER_assert(m != NIL && m < NM, "goal evaluated on an existing motion"); *d = DIST[m]; return SAT[m]; }
static void ADD_STARTS(void) { starts_added = 1; if (nondet_bool()) pq_empty = 0; }
static bool PQ_EMPTY(void) { return pq_empty; }
static bool PTC(void) { return ++ptc_calls > 2 || nondet_bool(); }
#ifdef PROPAGATE_NEVER_FAILS      /* geometric::PDST::propagateFrom always returns a motion */
static Motion PROPAGATE(void) { __CPROVER_assume(next_m < NM); return next_m++; }
#else
static Motion PROPAGATE(void) { if (next_m >= NM || nondet_bool()) return NIL; return next_m++; }
#endif
static void ADD_SOLUTION(Motion m, bool approx, double diff) { added++; added_m = m; added_approx = approx; added_dist = diff; }
static int STATUS2(bool has, bool approx) { return has ? (approx ? ST_APPROX : ST_EXACT) : ST_TIMEOUT; }

int pdst_solve(void)
/*@BODY solve@*/

void h_pdst(void)
{
    lastGoalMotion_ = nondet_bool() ? 1 : NIL; next_m = 2; ptc_calls = 0; added = 0; starts_added = 0; pq_empty = nondet_bool();
    for (unsigned k = 0; k < NM; k++) __CPROVER_assume(DIST[k] >= 0.0 && (SAT[k] ? DIST[k] <= 1.0 : DIST[k] > 1.0));   /* a goal region: satisfied exactly within its threshold */
    Motion last0 = lastGoalMotion_;
    int st = pdst_solve();
    if (st == ST_INVALID_START) { __CPROVER_assert(added == 0, "no solution without a start"); REACH("no valid start"); return; }
    if (added)
    {
        __CPROVER_assert(added == 1 && added_m == lastGoalMotion_ && added_m != NIL, "one solution: the branch of the recorded motion");
        __CPROVER_assert(added_approx == !SAT[added_m], "C01.approx the approximate flag is the goal's own verdict for the path's last state");
        __CPROVER_assert(added_dist == DIST[added_m], "C01.difference the reported difference is the goal's distance for the path's last state");
        __CPROVER_assert(st == (added_approx ? ST_APPROX : ST_EXACT), "C01.status the status agrees with the flag");
        if (last0 != NIL && added_m == last0) REACH("resumed: the earlier approximate solution is reported again");
        if (added_m != last0 && !added_approx) REACH("exact"); if (added_m != last0 && added_approx) REACH("closer approximate");
    }
    else
    {
        __CPROVER_assert(st == ST_TIMEOUT ? lastGoalMotion_ == NIL : (st == ST_EXACT && last0 != NIL && SAT[last0] && lastGoalMotion_ == last0), "C03.resume without a new path: either nothing was ever found, or the earlier exact solution stands");
        if (st == ST_EXACT) REACH("resumed after an exact solution"); else REACH("timeout");
    }
    if (last0 != NIL && lastGoalMotion_ != last0) __CPROVER_assert(DIST[lastGoalMotion_] < DIST[last0] || SAT[lastGoalMotion_], "C03.resume an earlier result is replaced only by a closer or an exact one");
}
