/* C02 -- control::PDST::findDurationAndAncestor: PDST splits motions; the pieces of one original motion share the SAME control object.  The
 * (control, duration) pair reported for a solution step must describe one original motion: starting from the piece that contains the state, the
 * function walks up exactly the parents that are pieces of the same motion (identical control OBJECT -- motions that merely have equal control
 * VALUES are different motions) and adds up their durations.  Bounded: chains of <= 4 motions. */
#include <stdbool.h>
#include <stddef.h>
#define NM 5
#define NIL 0u
#define REACH(msg) __CPROVER_assert(0, "REACH " msg)
typedef unsigned MotionRef; typedef int StateRef;
bool nondet_bool(void);
MotionRef M_parent_[NM]; unsigned M_control_[NM]; unsigned M_controlDuration_[NM]; StateRef M_startState_[NM], M_endState_[NM]; int CTRL_VAL[8];
MotionRef found_; unsigned dlocal_; unsigned depth;
static bool NEAR(StateRef a, StateRef b) { return nondet_bool(); }
#define EQUAL_CONTROLS(p, q) (CTRL_VAL[(p) & 7u] == CTRL_VAL[(q) & 7u])
unsigned int pdst_fdaa(MotionRef motion, StateRef state, StateRef scratch, MotionRef *ancestor_p)
/*@BODY findDurationAndAncestor@*/
void h_pdst_fdaa(void)
{
    /* chain 1 <- 2 <- 3 <- 4 (1 is the root) */
    for (MotionRef m = 1; m < NM; m++) { M_parent_[m] = m - 1; __CPROVER_assume(M_control_[m] >= 1 && M_control_[m] <= 4 && M_controlDuration_[m] <= 4); M_startState_[m] = 10 + (int)m; M_endState_[m] = 20 + (int)m; }
    MotionRef start = 0; StateRef st; __CPROVER_assume(1); start = nondet_bool() ? 4u : 3u; found_ = NIL; MotionRef anc = NIL;
    /* the state lies on the chain: at the latest it is the end state of the root */
    bool at_root = nondet_bool(); st = at_root ? M_endState_[1] : M_endState_[start];
    unsigned d = pdst_fdaa(start, st, 99, &anc);
    __CPROVER_assert(found_ != NIL && found_ <= start && dlocal_ <= M_controlDuration_[found_], "the state is located inside one piece, at an offset within that piece's duration");
    MotionRef a = found_; unsigned dur = dlocal_;
    for (unsigned k = 0; k < NM; k++) if (M_parent_[a] != NIL && M_control_[a] == M_control_[M_parent_[a]]) { a = M_parent_[a]; dur += M_controlDuration_[a]; }
    __CPROVER_assert(anc == a, "C02.triples the ancestor is the first piece of the same original motion (same control object), not merely a motion with an equal control value");
    __CPROVER_assert(d == dur, "C02.duration the duration is the offset plus the durations of exactly those earlier pieces");
    if (a != found_) REACH("merged split pieces"); if (M_parent_[a] != NIL && CTRL_VAL[M_control_[a] & 7u] == CTRL_VAL[M_control_[M_parent_[a]] & 7u]) REACH("distinct motion with an equal control value above");
}
