/* C02: control::SpaceInformation::propagateWhileValid (single-result form) and SimpleDirectedControlSampler::getBestControl.
 * States/controls are abstract objects with ghost content; the user's propagator/validity checker are stubs:
 *   propagate(src, c, dt, dst): dst is src advanced by one step (K[dst] = K[src] + 1), dt must be +-stepSize with the sign of 'steps';
 *   isValid(x): the fixed but arbitrary validity VALID[K[x]] of the state reached after K[x] steps.
 * Bounded: |steps| <= 4, numControlSamples_ <= 3 (loop bodies are history-free beyond the ghost counters). */
#include <stdbool.h>
#include <stddef.h>
#include <stdlib.h>
#define REACH(tag) __CPROVER_assert(0, "REACH " tag)
#define SWAP(a, b) do { int t_ = (a); (a) = (b); (b) = t_; } while (0)
#define SMAX 4
enum { S_IN = 0, S_RES = 1, S_TMP = 2, S_BEST = 3, S_DEST = 4, NS = 5 };
bool alias_mode; int K[NS]; bool VALID[SMAX + 2]; bool live[NS]; int allocs, frees; double stepSize_; double dt_sign; bool dt_ok; int props;
static void propagate(int src, int control, double dt, int dst) { __CPROVER_assert(dst != S_IN || alias_mode, "the caller's start state is never a propagation target unless it aliases the result"); if (!(dt == (dt_sign > 0 ? stepSize_ : -stepSize_))) dt_ok = 0; K[dst] = K[src] + 1; props++; }
static bool isValid(int x) { __CPROVER_assert(K[x] >= 0 && K[x] <= SMAX + 1, "range"); return VALID[K[x]]; }
static void copyState(int dst, int src) { K[dst] = K[src]; }
static int allocState(void) { allocs++; for (int i = S_TMP; i < NS; i++) if (!live[i]) { live[i] = 1; K[i] = -100; return i; } __CPROVER_assert(0, "state pool"); return S_TMP; }
static void freeState(int s) { __CPROVER_assert(s >= S_TMP && live[s], "C02.mem free of a state that was allocated here and not yet freed (never the caller's state)"); live[s] = 0; frees++; }
unsigned int propagateWhileValid(const int state, const int control, int steps, int result)
/*@BODY pwv@*/
unsigned nondet_unsigned(void); int nondet_int(void); bool nondet_bool(void);
void h_pwv(void)
{
    int steps = nondet_int(); __CPROVER_assume(steps >= -SMAX && steps <= SMAX && stepSize_ > 0.0);
    bool alias = nondet_bool(); alias_mode = alias; int res = alias ? S_IN : S_RES;
    /* result == state is only meaningful when the first step is valid: the start state is overwritten by the first propagation and cannot be restored (undocumented use; stated as assumption) */
    if (alias) __CPROVER_assume(steps == 0 || VALID[1]);
    for (int i = 0; i < NS; i++) { live[i] = 0; K[i] = -50; } K[S_IN] = 0; allocs = frees = props = 0; dt_ok = 1; dt_sign = steps >= 0 ? 1.0 : -1.0;
    unsigned r = propagateWhileValid(S_IN, 7, steps, res);
    int n = steps < 0 ? -steps : steps;
    __CPROVER_assert((int)r <= n, "C02.count the number of steps reported never exceeds the number requested");
    __CPROVER_assert(K[res] == (int)r, "C02.replay the returned state is the start state advanced by exactly the reported number of steps");
    for (int k = 1; k <= SMAX; k++) if (k <= (int)r) __CPROVER_assert(VALID[k], "C02.valid every propagation step up to the reported count landed on a valid state");
    if ((int)r < n) __CPROVER_assert(!VALID[r + 1], "C02.valid propagation stopped only because the next step was invalid");
    __CPROVER_assert(dt_ok, "C02.duration every step uses +-stepSize with the sign of the requested step count (durations are whole numbers of steps)");
    __CPROVER_assert(allocs == frees, "C02.mem temporary states are freed exactly once");
    if (!alias) __CPROVER_assert(K[S_IN] == 0, "the start state is not modified");
    if ((int)r == n && n == SMAX) REACH("all steps valid"); if (r == 0 && n > 0) REACH("first step invalid"); if (r > 0 && (int)r < n) REACH("stopped midway"); if (alias) REACH("result aliases state");
}
/* ---- getBestControl ---- */
unsigned numControlSamples_; int CID[3]; int next_cid; int TAGC[NS], TAGR[NS]; unsigned minD, maxD; bool have_prev;
static void cs_sample(int c) { CID[c] = next_cid++; }
static unsigned sampleStepCount(unsigned a, unsigned b) { unsigned r = nondet_unsigned(); __CPROVER_assume(r >= a && r <= b); return r; }
static unsigned pwv_stub(int source, int c, unsigned steps, int out) { unsigned r = nondet_unsigned(); __CPROVER_assume(r <= steps); TAGC[out] = CID[c]; TAGR[out] = (int)r; return r; }
static double distance_stub(int a, int b) { double d; __CPROVER_assume(d >= 0.0); return d; }
static void copyStateT(int dst, int src) { TAGC[dst] = TAGC[src]; TAGR[dst] = TAGR[src]; }
static void copyControl(int dst, int src) { CID[dst] = CID[src]; }
static int allocControl(void) { return 1; }
static void freeControl(int c) { __CPROVER_assert(c == 1, "free of the temporary control"); }
unsigned int getBestControl(int control, const int source, int dest, const int previous)
/*@BODY gbc@*/
void h_gbc(void)
{
    __CPROVER_assume(numControlSamples_ >= 1 && numControlSamples_ <= 3 && minD >= 1 && minD <= maxD && maxD <= 10);
    for (int i = 0; i < NS; i++) { live[i] = 0; TAGC[i] = -1; TAGR[i] = -1; } allocs = frees = 0; next_cid = 1; CID[0] = CID[1] = CID[2] = 0;
    int prev = nondet_bool() ? 2 : -1;
    unsigned r = getBestControl(0, S_IN, S_DEST, prev);
    __CPROVER_assert(TAGC[S_DEST] == CID[0] && TAGR[S_DEST] == (int)r, "C02.replay the returned (control, step count, state) triple is consistent: the state was reached by applying exactly the returned control for exactly the returned number of steps");
    __CPROVER_assert(allocs == frees, "C02.mem temporary states freed");
    if (numControlSamples_ == 3) REACH("best of three"); if (numControlSamples_ == 1) REACH("single sample");
}
