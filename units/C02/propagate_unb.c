/* C02 -- control::SpaceInformation::propagateWhileValid (single-result form), UNBOUNDED in the number of steps (loop contract, ghost step G):
 * for every |steps| <= 10^6 the call returns r <= |steps|; the result state is the start state advanced by exactly r steps; every step 1..r landed on a valid
 * state (G arbitrary: 1 <= G <= r implies step G was validated and valid); if r < |steps| step r+1 was found invalid; every propagation uses +-stepSize with the
 * sign of `steps`; the scratch state is allocated and freed exactly once and the caller's start state is never a propagation target.
 * States are objects 0..3 (0 = start, 1 = result, 2 = the scratch state) with ghost content K = number of steps applied; propagate / isValid / allocState /
 * freeState / copyState are stubs with contracts (DFCC replaces the calls). */
#include <stdbool.h>
#include <stddef.h>
#include <stdlib.h>
#define REACH(tag) __CPROVER_assert(0, "REACH " tag)
#define SWAP(a, b) do { int t_ = (a); (a) = (b); (b) = t_; } while (0)
enum { S_IN = 0, S_RES = 1, S_TMP = 2, NS = 4 };
int K[NS]; int G; bool VG; bool checked_G; bool live_tmp; int allocs, frees; double stepSize_; double SIGNED_STEP; bool dt_ok; bool invalid_seen; int invalid_at;
void propagate(int src, int control, double dt, int dst)
__CPROVER_requires(src >= 0 && src < NS && dst >= 1 && dst < NS && K[src] >= 0 && K[src] < 2000000)        /* dst >= 1: never the caller's start state */
__CPROVER_assigns(K[dst], dt_ok)
__CPROVER_ensures(K[dst] == __CPROVER_old(K[src]) + 1 && dt_ok == (__CPROVER_old(dt_ok) && dt == SIGNED_STEP));
bool isValid(int x)
__CPROVER_requires(x >= 0 && x < NS)
__CPROVER_assigns(checked_G, invalid_seen, invalid_at)
__CPROVER_ensures(K[x] == G ? (checked_G && __CPROVER_return_value == VG) : checked_G == __CPROVER_old(checked_G))
__CPROVER_ensures(__CPROVER_return_value ? (invalid_seen == __CPROVER_old(invalid_seen) && invalid_at == __CPROVER_old(invalid_at)) : (invalid_seen && invalid_at == K[x]));
void copyState(int dst, int src)
__CPROVER_requires(dst >= 1 && dst < NS && src >= 0 && src < NS)
__CPROVER_assigns(K[dst]) __CPROVER_ensures(K[dst] == __CPROVER_old(K[src]));
int allocState(void)
__CPROVER_requires(!live_tmp && allocs == 0)
__CPROVER_assigns(live_tmp, allocs, K[S_TMP]) __CPROVER_ensures(__CPROVER_return_value == S_TMP && live_tmp && allocs == 1);
void freeState(int s)
__CPROVER_requires(s == S_TMP && live_tmp)                                                                    /* only the scratch state, once */
__CPROVER_assigns(live_tmp, frees) __CPROVER_ensures(!live_tmp && frees == __CPROVER_old(frees) + 1);

int STEPS0, N0;     /* N0 = |STEPS0| */
unsigned int propagateWhileValid(const int state, const int control, int steps, int result)
__CPROVER_requires(state == S_IN && result == S_RES && steps == STEPS0 && steps >= -1000000 && steps <= 1000000 && stepSize_ > 0.0 && SIGNED_STEP == (steps > 0 ? stepSize_ : -stepSize_) && N0 == (steps < 0 ? -steps : steps))
__CPROVER_requires(K[S_IN] == 0 && !checked_G && !live_tmp && allocs == 0 && frees == 0 && dt_ok && !invalid_seen && G >= 1)
__CPROVER_assigns(K[S_RES], K[S_TMP], checked_G, invalid_seen, invalid_at, live_tmp, allocs, frees, dt_ok)
__CPROVER_ensures((int)__CPROVER_return_value <= N0 && K[S_RES] == (int)__CPROVER_return_value)     /* C02.count / C02.replay */
__CPROVER_ensures(G <= (int)__CPROVER_return_value ==> (checked_G && VG))                                   /* C02.valid every step up to the reported count is valid */
__CPROVER_ensures((int)__CPROVER_return_value < N0 ==> (invalid_seen && invalid_at == (int)__CPROVER_return_value + 1))   /* stopped only at an invalid step */
__CPROVER_ensures(dt_ok && K[S_IN] == 0 && !live_tmp && allocs == frees)                                     /* C02.duration, start state untouched, C02.mem */
/*@BODY pwv@*/
void harness(void)
{
    int steps; unsigned r = propagateWhileValid(S_IN, 7, steps, S_RES);
    if (r > 2 && (int)r < N0) REACH("stopped midway"); if (r == 0 && STEPS0 != 0) REACH("first step invalid"); if (STEPS0 == 0) REACH("zero steps");
}
