/* C02 -- control::SpaceInformation::propagateWhileValid(state, control, steps, result vector, alloc): returns r <= |steps| (and <= the vector's size when it does
 * not allocate); result[k-1] is the start state advanced by exactly k steps for every k <= r and each of those is valid; if r < the number attempted, step r+1
 * was invalid; when allocating, the vector ends up with exactly r states, each allocated here, and the state of the first invalid step is freed (no leak, no
 * stale pointer left in the vector); every step uses +-stepSize with the sign of `steps`.  Bounded: |steps| <= 4. */
#include <stdbool.h>
#include <stddef.h>
#include <stdlib.h>
#define SMAX 4
#define NSV 12
#define REACH(tag) __CPROVER_assert(0, "REACH " tag)
bool nondet_bool(void); int nondet_int(void); unsigned nondet_unsigned(void);
int K[NSV]; bool live[NSV]; int s_next; bool VALID[SMAX + 2]; double stepSize_, SIGNED; bool dt_ok; unsigned allocs, frees;
typedef struct { int v[SMAX + 1]; unsigned n; } RVec;
#define MINI(a, b) ((a) < (b) ? (a) : (b))
static int allocState(void) { __CPROVER_assert(s_next < NSV, "model capacity"); int s = s_next++; live[s] = true; K[s] = -100; allocs++; return s; }
static void freeState(int s) { __CPROVER_assert(s >= 0 && s < NSV && live[s], "C02.mem free of a live state allocated here"); live[s] = false; frees++; }
static void propagate(int src, int control, double dt, int dst) { __CPROVER_assert(dst != 0 && dst >= 0 && dst < NSV && live[dst], "propagation into a live result state, never into the start state"); if (dt != SIGNED) dt_ok = false; K[dst] = K[src] + 1; }
static bool isValid(int s) { __CPROVER_assert(K[s] >= 0 && K[s] <= SMAX + 1, "range"); return VALID[K[s]]; }
static void RESIZE(RVec *r, unsigned n) { __CPROVER_assert(n <= SMAX, "model capacity"); for (unsigned k = r->n; k < SMAX + 1; k++) if (k < n) r->v[k] = -1; r->n = n; }
unsigned int pwv_vec(const int state, const int control, int steps, RVec *result_p, bool alloc)
/*@BODY pwv_vec@*/
void h_pwv_vec(void)
{
    int steps = nondet_int(); __CPROVER_assume(steps >= -SMAX && steps <= SMAX && stepSize_ > 0.0); SIGNED = steps > 0 ? stepSize_ : -stepSize_; dt_ok = true; allocs = frees = 0;
    for (int i = 0; i < NSV; i++) live[i] = false; live[0] = true; K[0] = 0; s_next = 1; bool alloc = nondet_bool();
    RVec res; res.n = 0; unsigned pre = 0;
    if (!alloc) { pre = nondet_unsigned(); __CPROVER_assume(pre <= SMAX); for (unsigned k = 0; k < pre; k++) { res.v[k] = s_next; live[s_next] = true; K[s_next] = -50; s_next++; } res.n = pre; allocs = 0; }
    else pre = 0;
    unsigned r = pwv_vec(0, 7, steps, &res, alloc);
    unsigned n = (unsigned)(steps < 0 ? -steps : steps); unsigned attempted = alloc ? n : (n < pre ? n : pre);
    __CPROVER_assert(r <= attempted, "C02.count never more steps than requested (or than the vector holds)");
    for (unsigned k = 1; k <= SMAX; k++) if (k <= r) { int s = res.v[k - 1]; __CPROVER_assert(s > 0 && s < NSV && live[s] && K[s] == (int)k && VALID[k], "C02.replay/valid result[k-1] is the start state advanced by k steps, and valid"); }
    if (r < attempted) __CPROVER_assert(!VALID[r + 1], "C02.valid propagation stopped only because the next step was invalid");
    __CPROVER_assert(dt_ok && K[0] == 0, "C02.duration every step uses +-stepSize with the sign of the request; the start state is untouched");
    if (alloc) __CPROVER_assert(res.n == r && allocs == frees + r, "C02.mem when allocating, the vector holds exactly the r valid states and the state of the invalid step is freed");
    else __CPROVER_assert(res.n == pre && allocs == 0 && frees == 0, "without allocation the vector and its states belong to the caller: nothing allocated, nothing freed, size unchanged");
    if (alloc && r > 0 && r < n) REACH("stopped midway while allocating"); if (!alloc && pre > 0 && pre < n) REACH("vector shorter than the request"); if (r == n && n == SMAX) REACH("all steps valid");
}
