/* C02: control::SST::solve -- the recorded best/closest solution (three parallel vectors: states, controls, step counts) and the PathControl
 * built from them at the end.  "Each state of a control path is what the propagator yields from its predecessor under the stored control and
 * duration": every (state, control, steps) triple appended to the path must come from ONE tree motion whose parent owns the previous state.
 * Motions are indices with a PARENT map; a stored element remembers (ghost) the motion it was cloned from.  Bounded: branches of <= MAXD motions. */
#include <stddef.h>
#include <stdbool.h>
#ifndef MAXD
#define MAXD 3
#endif
#define NM (MAXD + 2)
#define CAPV (2 * MAXD + 4)
#define NIL 0u
#define REACH(tag) __CPROVER_assert(0, "REACH " tag)
typedef unsigned Motion;
Motion PARENT[NM]; double ACC[NM];
Motion ps_src[CAPV], pc_src[CAPV], pt_src[CAPV]; size_t ps_n, pc_n, pt_n; bool ps_live[CAPV], pc_live[CAPV];
double prevSolutionCost_, approxdif; Motion solution, approxsol; bool sufficientlyShort, broke;
int state_frees, control_frees, state_clones, control_clones;
bool nondet_bool(void); unsigned nondet_unsigned(void); double nondet_double(void);
static bool GOAL_SAT(Motion m, double *dist) { double d = nondet_double(); __CPROVER_assume(d >= 0.0); *dist = d; return nondet_bool(); }
static bool better(double a, double b) { return a < b; }
static bool OBJ_SAT(double c) { return nondet_bool(); }
static void FREE_PREV_STATES(void) { for (size_t k = 0; k < CAPV; k++) if (k < ps_n) { __CPROVER_assert(ps_live[k], "C02.mem a recorded state is freed once"); ps_live[k] = 0; state_frees++; } }
static void FREE_PREV_CONTROLS(void) { for (size_t k = 0; k < CAPV; k++) if (k < pc_n) { __CPROVER_assert(pc_live[k], "C02.mem a recorded control is freed once"); pc_live[k] = 0; control_frees++; } }
static void PS_PUSH(Motion m) { __CPROVER_assert(ps_n < CAPV && m != NIL, "capacity"); ps_src[ps_n] = m; ps_live[ps_n] = 1; ps_n++; state_clones++; }
static void PC_PUSH(Motion m) { __CPROVER_assert(pc_n < CAPV && m != NIL, "capacity"); pc_src[pc_n] = m; pc_live[pc_n] = 1; pc_n++; control_clones++; }
static void PT_PUSH(Motion m) { __CPROVER_assert(pt_n < CAPV && m != NIL, "capacity"); pt_src[pt_n] = m; pt_n++; }
static Motion PS_AT(int i) { __CPROVER_assert(i >= 0 && (size_t)i < ps_n && ps_live[i], "C02.range recorded state index in range and live"); return ps_src[i]; }
static Motion PC_AT(int i) { __CPROVER_assert(i >= 0 && (size_t)i < pc_n && pc_live[i], "C02.range recorded control index in range and live"); return pc_src[i]; }
static Motion PT_AT(int i) { __CPROVER_assert(i >= 0 && (size_t)i < pt_n, "C02.range recorded step-count index in range"); return pt_src[i]; }
Motion path_last_child; size_t path_states; bool path_closed;
static void PATH_APPEND3(Motion s, Motion c, Motion t)
{
    __CPROVER_assert(c == t, "C02.triple the control and the step count appended together belong to the same tree motion");
    __CPROVER_assert(PARENT[c] == s, "C02.triple the control is the one the tree applied at the appended state");
    __CPROVER_assert(path_states == 0 ? PARENT[s] == NIL : path_last_child == s, "C02.chain the appended state is the one the previous control led to (the first one is a root)");
    path_last_child = c; path_states++;
}
static void PATH_APPEND1(Motion s) { __CPROVER_assert(path_states == 0 ? PARENT[s] == NIL : path_last_child == s, "C02.chain the final state is the one the last control led to"); path_last_child = s; path_states++; path_closed = 1; }

void sst_record(Motion motion)
/*@BODY record@*/
void sst_path(void)
/*@BODY path@*/

void h_sst(void)
{
    unsigned d = nondet_unsigned(); __CPROVER_assume(d >= 1 && d <= MAXD);
    for (unsigned k = 1; k < NM; k++) { PARENT[k] = k <= d ? k - 1 : NIL; }
    Motion motion = d;
    /* what an earlier iteration recorded: consistent vectors of any admissible length (cloned from some older branch) */
    unsigned old = nondet_unsigned(); __CPROVER_assume(old <= MAXD + 1);
    ps_n = old; pc_n = pt_n = old ? old - 1 : 0;
    for (size_t k = 0; k < CAPV; k++) { ps_live[k] = k < ps_n; pc_live[k] = k < pc_n; ps_src[k] = pc_src[k] = pt_src[k] = NM - 1; }
    solution = nondet_bool() ? NM - 1 : NIL; approxsol = (old && solution == NIL) ? NM - 1 : NIL; if (solution != NIL) __CPROVER_assume(old >= 1);
    Motion sol0 = solution, app0 = approxsol;
    state_frees = control_frees = state_clones = control_clones = 0; broke = 0; sufficientlyShort = 0; path_states = 0; path_closed = 0; path_last_child = NIL;
    __CPROVER_assume(prevSolutionCost_ == prevSolutionCost_ && approxdif == approxdif);
    sst_record(motion);
    bool updated = solution != sol0 || approxsol != app0;
    __CPROVER_assert(ps_n == pc_n + 1 || (ps_n == 0 && pc_n == 0), "C02.parallel one more recorded state than recorded controls");
    __CPROVER_assert(pc_n == pt_n, "C02.parallel as many recorded step counts as recorded controls");
    if (updated)
    {
        __CPROVER_assert(ps_n == (size_t)d && ps_src[0] == motion, "the recorded branch is the whole branch of the reported motion");
        __CPROVER_assert(state_frees == (int)old && control_frees == (int)(old ? old - 1 : 0), "C02.mem what the previous record owned is freed exactly once");
        if (solution == NIL) solution = approxsol;
        sst_path();
        __CPROVER_assert(path_closed && path_states == (size_t)d && path_last_child == motion, "C02.chain the path runs from the root to the reported motion");
        if (sol0 == NIL && solution == motion && approxsol == NIL) REACH("exact solution recorded"); else REACH("closest motion recorded");
        if (old > 1) REACH("replaces an older record");
    }
    else REACH("nothing better");
}
