/* C02 -- control::Syclop::solve: which motion is reported, with which flag and which triples.
 * (a) record: over the motions examined (<= 3, arbitrary goal verdicts and distances) the remembered `solution` is the motion the goal accepted
 *     (then the search stops and the report is exact), otherwise the motion closest to the goal so far; goalDist is that motion's distance;
 * (b) report: the path is the parent chain of that motion, root first; every non-root entry is the motion's own state, its own control and
 *     steps x propagation step size; the approximate flag is !solved and the reported difference is goalDist. */
#include <stdbool.h>
#include <stddef.h>
#define NM 6
#define NIL 0u
#define REACH(msg) __CPROVER_assert(0, "REACH " msg)
typedef unsigned MotionRef;
bool nondet_bool(void); double nondet_double(void);
MotionRef M_parent[NM]; unsigned M_steps[NM]; bool SAT[NM]; double DISTG[NM];
bool solved; double goalDist; MotionRef solution; double STEPSIZE;
static bool GOAL_SAT(MotionRef m, double *d) { __CPROVER_assert(m != NIL && m < NM, "goal test of a live motion"); *d = DISTG[m]; return SAT[m]; }
void syclop_record(MotionRef motion)
{
    double distance;
    for (int once_ = 0; once_ < 1; ++once_)
/*@BODY record@*/
}
unsigned dur_steps; double dur_stepsize; bool dur_fresh;
MotionRef mpath[NM]; unsigned mpath_n; MotionRef path_state[NM], path_ctrl[NM]; double path_dur[NM]; unsigned path_dur_steps[NM]; double path_dur_stepsize[NM]; unsigned path_n; bool rep_approx; double rep_dif; unsigned rep_calls;
static void MPATH_PUSH(MotionRef m) { __CPROVER_assert(mpath_n < NM, "model capacity"); mpath[mpath_n++] = m; }
static void PATH_APPEND3(MotionRef st, MotionRef ct, double dur) { __CPROVER_assert(path_n < NM, "model capacity"); path_state[path_n] = st; path_ctrl[path_n] = ct; path_dur[path_n] = dur; path_dur_steps[path_n] = dur_fresh ? dur_steps : 0u; path_dur_stepsize[path_n] = dur_stepsize; dur_fresh = false; path_n++; }
static void PATH_APPEND1(MotionRef st) { __CPROVER_assert(path_n < NM, "model capacity"); path_state[path_n] = st; path_ctrl[path_n] = NIL; path_dur[path_n] = 0.0; path_n++; }
static double FMULSTEP(unsigned steps, double stepsize) { dur_steps = steps; dur_stepsize = stepsize; dur_fresh = true; return nondet_double(); }   /* steps * stepsize: the factors are recorded, the product is not re-derived */
static void ADD_SOLUTION(bool approx, double dif) { rep_calls++; rep_approx = approx; rep_dif = dif; }
bool syclop_report(void)
{
    bool addedSolution;
/*@BODY report@*/
    return addedSolution;
}
void h_syclop(void)
{
    /* motions 1..4 form a chain 1 <- 2 <- 3 <- 4 (1 is the root); 2, 3, 4 are examined in this order */
    for (MotionRef m = 1; m < NM; m++) { M_parent[m] = m - 1; __CPROVER_assume(DISTG[m] == DISTG[m] && DISTG[m] >= 0.0 && DISTG[m] <= 1e300 && M_steps[m] >= 1 && M_steps[m] <= 100); }
    __CPROVER_assume(STEPSIZE > 0.0 && STEPSIZE <= 1.0);
    dur_fresh = false; solved = false; goalDist = __builtin_inf(); solution = NIL; rep_calls = 0; path_n = 0; mpath_n = 0;
    unsigned examined = 0; unsigned n; __CPROVER_assume(n <= 3);
    for (MotionRef m = 2; m <= 4; m++) if (m - 2 < n && !solved) { syclop_record(m); examined = m; }
    MotionRef final = solution;
    /* (a) */
    if (examined) {
        __CPROVER_assert(final >= 2 && final <= examined, "a motion that was examined is remembered");
        if (solved) __CPROVER_assert(final == examined && SAT[final], "C02.goal when the goal accepts a motion the search stops and THAT motion is the solution");
        else for (MotionRef m = 2; m <= 4; m++) if (m <= examined) __CPROVER_assert(!SAT[m] && DISTG[final] <= DISTG[m], "C02.approx otherwise the remembered motion is the closest one seen so far");
        __CPROVER_assert(goalDist == DISTG[final], "the remembered difference is the remembered motion's own goal distance");
    }
    /* (b) */
    bool added = syclop_report();
    __CPROVER_assert(added == (final != NIL) && rep_calls == (added ? 1u : 0u), "a solution is reported iff a motion was remembered");
    if (added) {
        __CPROVER_assert(rep_approx == !solved && rep_dif == goalDist, "C02.flag the approximate flag is the negation of the goal's verdict, the difference is the remembered one");
        __CPROVER_assert(path_n == final && path_state[0] == 1 && path_ctrl[0] == NIL, "the path starts at the root with no control");
        for (unsigned k = 1; k < NM; k++) if (k < path_n) __CPROVER_assert(path_state[k] == k + 1 && path_ctrl[k] == k + 1 && path_dur_steps[k] == M_steps[k + 1] && path_dur_stepsize[k] == STEPSIZE, "C02.triples every step is the motion's own state, control and steps x step size");
        if (!rep_approx) REACH("exact"); else REACH("approximate");
    }
    if (examined == 4 && !solved && final == 3) REACH("closest was not the last");
}
