"""C03 -- interrupting, resuming or clearing a planner never corrupts its result (reduced scope: ONE planner, geometric::RRT::solve, plus the
shared input-state cursors).  The RRT unit is the one of C01 (whole body of solve() under contract); the obligations that carry C03 are:
the status postconditions (status truthfully describes what was added to the problem definition, for EVERY evaluation at which the
termination condition may first report true, including before the first iteration), addSolutionPath's precondition 'path non-empty and a
complete root-to-node chain', 'no evaluation of the termination condition after it fired', the leak counter and the no-double-free /
never-free-a-tree-state preconditions of freeState / delete."""
import copy, importlib.util, os
_s = importlib.util.spec_from_file_location("c01", os.path.join(os.path.dirname(__file__), "C01.py")); C01 = importlib.util.module_from_spec(_s); _s.loader.exec_module(C01)
PROPERTY = "C03"
LEVEL = "proof"
UNITS = []
for u in C01.UNITS:
    if u["name"] in ("c01_rrt_solve_whole_body", "c01_inputstates_restart", "c01_inputstates_clear"):
        v = copy.deepcopy(u); v["name"] = v["name"].replace("c01_", "c03_"); UNITS.append(v)
for v in UNITS:
    if v["name"] == "c03_rrt_solve_whole_body":
        v["canaries"] = [dict(name="xstate_leaked", where="body:solve", rx=r"freeState\(xstate\);", repl=";"),
                         dict(name="reports_solution_without_path", where="body:solve", rx=r"addSolutionPathS\(approximate, approxdif\);", repl=";", thorough_only=True),
                         dict(name="scratch_state_freed_twice", where="body:solve", rx=r"DELETE_MOTION\(rmotion\);", repl="freeState(M_state[rmotion]); DELETE_MOTION(rmotion);", thorough_only=True)]
# resumed solve of control::PDST (the unit of C02; its C03.resume obligations: an earlier result is replaced only by a closer or an exact one,
# and without a new path the earlier exact solution stands)
_s2 = importlib.util.spec_from_file_location("c02", os.path.join(os.path.dirname(__file__), "C02.py")); C02 = importlib.util.module_from_spec(_s2); _s2.loader.exec_module(C02)
for u in C02.UNITS:
    if u["name"] == "c02_pdst_solve_flags":
        v = copy.deepcopy(u); v["name"] = "c03_pdst_resumed_solve"; UNITS.append(v)
for u in C01.UNITS:
    if u["name"] == "c01_pdst_solve_flags":
        v = copy.deepcopy(u); v["name"] = "c03_geometric_pdst_resumed_solve"; UNITS.append(v)
# clear() of the multilevel graph planners' common base
UNITS.append(dict(name="c03_bundlespacegraph_clear", template="C01/bundle_clear.c", mode="plain", entry="h_bundle_clear", flags=["--bounds-check", "--pointer-check"], level="proof", backend="minisat", timeout=300,
                  functions=["ompl::multilevel::BundleSpaceGraph::clear"],
                  sources=[dict(name="clear", file="src/ompl/multilevel/datastructures/src/BundleSpaceGraph.cpp", sig=r"void BundleSpaceGraph::clear\(\)", loops={},
                                rules=[(r"BaseT::clear\(\);", "BASE_CLEAR();", 0), (r"clearVertices\(\);", "n_vertices = 0;", 0), (r"pis_\.restart\(\);", "pis_restarted = 1;", 0),
                                       (r"bestCost_ = base::Cost\(base::dInf\);", "bestCost_ = __builtin_inf();", 0), (r"shortestVertexPath_\.clear\(\);", "svp_n = 0;", 0),
                                       (r"startConfigurations_\.clear\(\);", "sc_n = 0;", 0), (r"goalConfigurations_\.clear\(\);", "gc_n = 0;", 0), (r"!isDynamic\(\)", "!IS_DYNAMIC()", 0),
                                       (r"solutionPath_ != nullptr", "solutionPath_ != NIL", 0), (r"std::static_pointer_cast<geometric::PathGeometric>\(solutionPath_\)->clear\(\);", "sp_len = 0;", 0),
                                       (r"importanceCalculator_->clear\(\);", "ic_cleared = 1;", 0), (r"graphSampler_->clear\(\);", "gs_cleared = 1;", 0), (r"pathRestriction_ != nullptr", "pathRestriction_ != NIL", 0),
                                       (r"pathRestriction_->clear\(\);", "pr_cleared = 1;", 0)])],
                  canaries=[dict(name="start_index_kept", where="body:clear", rx=r"vStart_ = 0;", repl="")]))
# the evaluation of a termination condition (unit of C18): a zero-period condition evaluates its predicate
_s3 = importlib.util.spec_from_file_location("c18", os.path.join(os.path.dirname(__file__), "C18.py")); C18 = importlib.util.module_from_spec(_s3); _s3.loader.exec_module(C18)
for u in C18.UNITS:
    if u["name"] in ("c18_impl_eval",):
        v = copy.deepcopy(u); v["name"] = "c03_termination_eval"; UNITS.append(v)
    if u["name"] in ("c18_iteration_eval", "c18_iteration_reset"):      # anchor IterationTerminationCondition.cpp: an evaluation-count limit interrupts after exactly that many evaluations
        v = copy.deepcopy(u); v["name"] = u["name"].replace("c18_", "c03_"); UNITS.append(v)
EITF = "src/ompl/geometric/planners/informedtrees/src/EITstar.cpp"
PRMF3 = "src/ompl/geometric/planners/prm/src/PRM.cpp"
EA_RULES = [
    (r"assert\(trackApproximateSolutions_\);", "", 0), (r"state->hasForwardVertex\(\)", "HAS_FWD", 0), (r"graph_\.isStart\(state\)", "IS_START", 0), (r"graph_\.isGoal\(state\)", "IS_GOAL", 0),
    (r"const auto costToGoal = computeCostToGoToGoal\(state\);", "const double costToGoal = COST_TO_GOAL();", 0), (r"\bisBetter\(", "better(", 0), (r"problem_->hasSolution\(\)", "HAS_SOLUTION()", 0),
    (r"approximateSolutionCost_ = state->getCurrentCostToCome\(\);", "approximateSolutionCost_ = COST_TO_COME;", 0),
    (r"ompl::base::PlannerSolution solution\(getPathToState\(state\)\);", "Sol solution; solution.path = 1; solution.approx = 0; solution.dif = 0.0; solution.cost = 0.0; solution.optimized = 0;", 0),
    (r"solution\.setPlannerName\(name_\);", "", 0), (r"solution\.setApproximate\((\w+)\.value\(\)\);", r"solution.approx = 1; solution.dif = \1;", 0),
    (r"solution\.setOptimized\(objective_, approximateSolutionCost_, false\);", "solution.cost = approximateSolutionCost_; solution.optimized = 0;", 0), (r"pdef_->addSolutionPath\(solution\);", "ADD_SOLUTION(&solution);", 0),
    (r"Planner::setProblemDefinition\(pdef\);", "BASE_SET(pdef);", 0), (r"clearQuery\(\);", "prm_clearQuery();", 0), (r"startM_\.clear\(\);", "startM_n = 0;", 0), (r"goalM_\.clear\(\);", "goalM_n = 0;", 0), (r"pis_\.restart\(\);", "pis_restarted = 1;", 0),
]
EA_SRC = [dict(name="eit_approx", file=EITF, sig=r"void EITstar::updateApproximateSolution\(const std::shared_ptr<eitstar::State> &state\)", rules=EA_RULES, loops={}),
          dict(name="clearQuery", file=PRMF3, sig=r"void ompl::geometric::PRM::clearQuery\(\)", rules=EA_RULES, loops={}),
          dict(name="setProblemDefinition", file=PRMF3, sig=r"void ompl::geometric::PRM::setProblemDefinition\(const base::ProblemDefinitionPtr &pdef\)", rules=EA_RULES, loops={})]
UNITS.append(dict(name="c03_eitstar_updateApproximateSolution", template="C01/eit_approx.c", mode="plain", entry="h_eit_approx", flags=["--bounds-check", "--pointer-check"], level="proof", backend="minisat", timeout=300, sources=EA_SRC,
                  functions=["ompl::geometric::EITstar::updateApproximateSolution(state)"], canaries=[dict(name="cost_to_goal_of_the_old_state", where="body:eit_approx", rx=r"approximateSolutionCostToGoal_ = costToGoal;", repl="")]))
UNITS.append(dict(name="c03_prm_setProblemDefinition", template="C01/eit_approx.c", mode="plain", entry="h_prm_setpdef", flags=["--bounds-check", "--pointer-check"], level="proof", backend="minisat", timeout=300, sources=EA_SRC,
                  functions=["ompl::geometric::PRM::setProblemDefinition", "ompl::geometric::PRM::clearQuery"], canaries=[dict(name="goal_milestones_kept", where="body:clearQuery", rx=r"goalM_n = 0;", repl="")]))
# the same forget-the-old-query contract for the other roadmap planners that override setProblemDefinition (LazyPRM, SPARS, SPARStwo)
QP_UNITS = []
for _cls, _file in (("LazyPRM", "src/ompl/geometric/planners/prm/src/LazyPRM.cpp"), ("SPARS", "src/ompl/geometric/planners/prm/src/SPARS.cpp"), ("SPARStwo", "src/ompl/geometric/planners/prm/src/SPARStwo.cpp")):
    _src = [EA_SRC[0],
            dict(name="clearQuery", file=_file, sig=r"void ompl::geometric::%s::clearQuery\(\)" % _cls, rules=[(r"if \(pdef_\)\s*pdef_->clearSolutionPaths\(\);", "solutions_cleared = 1;", 0)] + EA_RULES, loops={}),
            dict(name="setProblemDefinition", file=_file, sig=r"void ompl::geometric::%s::setProblemDefinition\(const base::ProblemDefinitionPtr &pdef\)" % _cls, rules=EA_RULES, loops={})]
    QP_UNITS.append(dict(name="c03_%s_setProblemDefinition" % _cls.lower(), template="C01/eit_approx.c", mode="plain", entry="h_prm_setpdef", flags=["--bounds-check", "--pointer-check"], level="proof", backend="minisat", timeout=300, sources=_src,
                         needs=["clearQuery", "setProblemDefinition"], functions=["ompl::geometric::%s::setProblemDefinition" % _cls, "ompl::geometric::%s::clearQuery" % _cls],
                         canaries=[dict(name="old_query_kept", where="body:setProblemDefinition", rx=r"prm_clearQuery\(\);", repl=";")]))
UNITS += QP_UNITS

BITF3 = "src/ompl/geometric/planners/informedtrees/src/BITstar.cpp"
CFF = "src/ompl/geometric/planners/cforest/src/CForest.cpp"
_S3 = __import__("re").S
BS_RULES = [
    (r"Planner::checkValidity\(\);", "", 0), (r"!Planner::setup_", "!setup_", 0), (r"throw ompl::Exception\((?:[^()]|\([^()]*\)|\((?:[^()]|\([^()]*\))*\))*\);", "{ thrown = 1; PStatus z_ = {0, 0}; return z_; }", 0),
    (r"graphPtr_->hasAGoal\(\)", "HAS_GOAL0", 0), (r"graphPtr_->hasAStart\(\)", "HAS_START", 0), (r"graphPtr_->updateStartAndGoalStates\(Planner::pis_, ptc\);", "goal_waits++;", 0),
    (r"queuePtr_->insertOutgoingEdgesOfStartVertices\(\);", "start_edges_inserted++;", 0),
    (r"!ptc\b", "!PTC()", 0), (r"costHelpPtr_->isSatisfied\(bestCost_\)", "IS_SATISFIED()", 0), (r"costHelpPtr_->isCostBetterThan\(graphPtr_->minCost\(\), bestCost_\)", "BETTER()", 0),
    (r"Planner::pis_\.haveMoreStartStates\(\)", "MORE_STARTS", 0), (r"Planner::pis_\.haveMoreGoalStates\(\)", "MORE_GOALS", 0), (r"this->iterate\(\);", "ITERATE();", 0),
    (r"this->end(?:Success|Failure)Message\(\);", ";", 0), (r"graphPtr_->getTrackApproximateSolutions\(\)", "TRACK_APPROX", 0), (r"this->publishSolution\(\);", "published++;", 0),
    (r"return \{(.*?),\s*(.*?)\};", r"{ PStatus r_ = {\1, \2}; return r_; }", 0, _S3),
]
CF_RULES = [
    (r"checkValidity\(\);", "", 0), (r"time::point start = time::now\(\);", "", 0), (r"std::vector<std::thread \*> threads\(planners_\.size\(\)\);", "", 0),
    (r"const base::ReportIntermediateSolutionFn prevSolutionCallback =\s*getProblemDefinition\(\)->getIntermediateSolutionCallback\(\);", "const int prevSolutionCallback = callback_now;", 0),
    (r"pdef_->setIntermediateSolutionCallback\(\s*\[this\]\(.*?\}\);", "callback_now = OWN_CALLBACK;", 0, _S3),
    (r"bestCost_ = opt_->infiniteCost\(\);", "bestCost_ = __builtin_inf();", 0),
    (r"for \(std::size_t i = 0; i < threads\.size\(\); \+\+i\)\s*\{.*?\n    \}", "for (unsigned i = 0; i < NPLANNERS; ++i) { RUN_PLANNER(); }", 0, _S3),
    (r"for \(auto &thread : threads\)\s*\{.*?\}", "", 0, _S3),
    (r"getProblemDefinition\(\)->setIntermediateSolutionCallback\(prevSolutionCallback\);", "callback_now = prevSolutionCallback;", 0),
    (r"return \{pdef_->hasSolution\(\), pdef_->hasApproximateSolution\(\)\};", "{ PStatus r_ = {HAS_SOL, HAS_APPROX}; return r_; }", 0),
]
SH_SRC = [dict(name="bit_solve", file=BITF3, sig=r"ompl::base::PlannerStatus BITstar::solve\(const ompl::base::PlannerTerminationCondition &ptc\)", rules=BS_RULES, loops={"allow_uncontracted": True}),
          dict(name="cf_solve", file=CFF, sig=r"ompl::base::PlannerStatus ompl::geometric::CForest::solve\(const base::PlannerTerminationCondition &ptc\)", rules=CF_RULES, loops={"allow_uncontracted": True})]
UNITS.append(dict(name="c03_bitstar_solve_shell", template="C03/bit_solve.c", mode="plain", entry="h_bit_solve", sources=SH_SRC, needs=["bit_solve"], flags=["--bounds-check", "--pointer-check", "--unsigned-overflow-check"], unwind=6, level="bounded",
                  bound="<= 3 iterations of the search loop", backend="minisat", timeout=300, functions=["ompl::geometric::BITstar::solve (everything around iterate())"],
                  canaries=[dict(name="stop_flag_of_the_previous_call_kept", where="body:bit_solve", rx=r"stopLoop_ = false;", repl=";")]))
UNITS.append(dict(name="c03_cforest_solve_shell", template="C03/bit_solve.c", mode="plain", entry="h_cf_solve", sources=SH_SRC, needs=["cf_solve"], flags=["--bounds-check", "--pointer-check", "--unsigned-overflow-check"], unwind=6, level="bounded",
                  bound="<= 3 planner instances, run one after the other (the threads are not modelled)", backend="minisat", timeout=300, functions=["ompl::geometric::CForest::solve (everything around the planner threads)"],
                  canaries=[dict(name="best_cost_not_reinitialised", where="body:cf_solve", rx=r"bestCost_ = __builtin_inf\(\);", repl=";")]))

CL_RULES = [(r"curGoalVertex_\.reset\(\);", "goal_vertex_set = 0;", 0), (r"Planner::clear\(\);", "BASE_CLEAR();", 0), (r"\b\w+_\.reset\(\);", "resets++;", 0), (r"\bfreeMemory\(\);", "FREE_MEMORY();", 0), (r"if \(nn_\)\s*nn_->clear\(\);", "nn_nonempty = 0;", 0),
            (r"if \(tStart_\)\s*tStart_->clear\(\);", "tstart_nonempty = 0;", 0), (r"if \(tGoal_\)\s*tGoal_->clear\(\);", "tgoal_nonempty = 0;", 0), (r"motions_\.clear\(\);", "motions_nonempty = 0;", 0), (r"pdf_\.clear\(\);", "pdf_nonempty = 0;", 0),
            (r"disc_\.clear\(\);", "disc_nonempty = 0;", 0), (r"connectionPoint_ = std::make_pair<base::State \*, base::State \*>\(nullptr, nullptr\);", "connection_set = 0;", 0),
            (r"std::numeric_limits<double>::infinity\(\)", "__builtin_inf()", 0), (r"if \(projectionEvaluator_ && projectionEvaluator_->hasBounds\(\)\)\s*bsp_ = new Cell\(1\., projectionEvaluator_->getBounds\(\), 0\);", "if (HAS_BOUNDS) bsp_fresh = 1;", 0),
            (r"setupTree\(\);", "tree_rebuilt = 1;", 0), (r"Open_\.clear\(\);", "open_nonempty = 0;", 0), (r"neighborhoods_\.clear\(\);", "nbh_nonempty = 0;", 0), (r"graphLb_\.clear\(\);", "graphlb_nonempty = 0;", 0), (r"graphApx_\.clear\(\);", "graphapx_nonempty = 0;", 0),
            (r"(?:costHelpPtr_|graphPtr_|queuePtr_)->reset\(\);", "helper_resets++;", 0), (r"curGoalVertex_\.reset\(\);", "goal_vertex_set = 0;", 0), (r"ompl::base::Cost\(__builtin_inf\(\)\)", "__builtin_inf()", 0), (r"Planner::setup_", "setup_", 0)]
for _pl, _f, _cls, _has, _can in (
        ("ctrl_rrt", "src/ompl/control/planners/rrt/src/RRT.cpp", "ompl::control::RRT", ["HAS_FREE", "HAS_NN", "HAS_LGM"], dict(name="goal_motion_pointer_kept", rx=r"lastGoalMotion_ = NULL;", repl=";")),
        ("kpiece1", "src/ompl/geometric/planners/kpiece/src/KPIECE1.cpp", "ompl::geometric::KPIECE1", ["HAS_DISC", "HAS_LGM"], dict(name="discretization_kept", rx=r"disc_nonempty = 0;", repl=";")),
        ("est", "src/ompl/geometric/planners/est/src/EST.cpp", "ompl::geometric::EST", ["HAS_FREE", "HAS_NN", "HAS_MOTIONS", "HAS_PDF", "HAS_LGM"], dict(name="pdf_keeps_the_old_elements", rx=r"pdf_nonempty = 0;", repl=";")),
        ("rrtconnect", "src/ompl/geometric/planners/rrt/src/RRTConnect.cpp", "ompl::geometric::RRTConnect", ["HAS_FREE", "HAS_TREES"], dict(name="goal_tree_kept", rx=r"tgoal_nonempty = 0;", repl=";")),
        ("pdst", "src/ompl/geometric/planners/pdst/src/PDST.cpp", "ompl::geometric::PDST", ["HAS_FREE", "HAS_LGM", "HAS_BSP"], dict(name="iteration_counter_not_restarted", rx=r"iteration_ = 1;", repl=";")),
        ("fmt", "src/ompl/geometric/planners/fmt/src/FMT.cpp", "ompl::geometric::FMT", ["HAS_FREE", "HAS_NN", "HAS_LGM", "HAS_FMT"], dict(name="open_set_kept", rx=r"open_nonempty = 0;", repl=";")),
        ("lazylbtrrt", "src/ompl/geometric/planners/rrt/src/LazyLBTRRT.cpp", "ompl::geometric::LazyLBTRRT", ["HAS_FREE", "HAS_NN", "HAS_LGM", "HAS_LBT"], dict(name="approximation_graph_kept", rx=r"graphapx_nonempty = 0;", repl=";")),
        ("bitstar", "src/ompl/geometric/planners/informedtrees/src/BITstar.cpp", "BITstar", ["HAS_BIT"], dict(name="exact_solution_flag_kept", rx=r"hasExactSolution_ = false;", repl=";"))):
    _c = dict(_can); _c["where"] = "body:pl_clear"
    UNITS.append(dict(name="c03_%s_clear" % _pl, template="C03/clear_generic.c", mode="plain", entry="h_pl_clear", flags=["--bounds-check", "--pointer-check", "--unsigned-overflow-check"], level="proof", backend="minisat", timeout=300,
                      defines={h: 1 for h in _has}, functions=[_cls + "::clear"], sources=[dict(name="pl_clear", file=_f, sig=r"void %s::clear\(\)" % _cls, rules=CL_RULES, loops={})], canaries=[_c]))

_v = copy.deepcopy(C01.NG_UNIT); _v["name"] = "c03_inputstates_nextGoal_ptc"; UNITS.append(_v)
ASSUMPTIONS = C01.ASSUMPTIONS + ["the termination condition returns an arbitrary value at every evaluation (so every interruption point is covered); executions that create fewer than 8 motions"]
TRUSTED = C01.TRUSTED
NOT_COVERED = ["every planner other than geometric::RRT (whole solve), control::PDST (flag logic of a resumed solve), EIT*'s approximate-solution update, PRM::setProblemDefinition/clearQuery and BundleSpaceGraph::clear (each solve()/clear() body would need its own contracts)",
               "resuming: that a second solve() continues the preserved search and only keeps or improves the reported solution; clear()/setProblemDefinition() forgetting the old query inside the planners (freeMemory, nn_->clear) -- only the PlannerInputStates cursors are verified",
               "crash-freedom beyond the memory-safety obligations of the modelled calls"]
