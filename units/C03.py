"""C03 -- interrupting, resuming or clearing a planner never corrupts its result (reduced scope: ONE planner, geometric::RRT::solve, plus the
shared input-state cursors).  The RRT unit is the one of C01 (whole body of solve() under contract); the obligations that carry C03 are:
the status postconditions (status truthfully describes what was added to the problem definition, for EVERY evaluation at which the
termination condition may first report true, including before the first iteration), addSolutionPath's precondition 'path non-empty and a
complete root-to-node chain', 'no evaluation of the termination condition after it fired', the leak counter and the no-double-free /
never-free-a-tree-state preconditions of freeState / delete."""
import copy, importlib.util, os
_s = importlib.util.spec_from_file_location("c01", os.path.join(os.path.dirname(__file__), "C01.py")); C01 = importlib.util.module_from_spec(_s); _s.loader.exec_module(C01)
PROPERTY = "C03"
LEVEL = "proof"
UNITS = []
for u in C01.UNITS:
    if u["name"] in ("c01_rrt_solve_whole_body", "c01_inputstates_restart", "c01_inputstates_clear"):
        v = copy.deepcopy(u); v["name"] = v["name"].replace("c01_", "c03_"); UNITS.append(v)
for v in UNITS:
    if v["name"] == "c03_rrt_solve_whole_body":
        v["canaries"] = [dict(name="xstate_leaked", where="body:solve", rx=r"freeState\(xstate\);", repl=";"),
                         dict(name="reports_solution_without_path", where="body:solve", rx=r"addSolutionPathS\(approximate, approxdif\);", repl=";", thorough_only=True),
                         dict(name="scratch_state_freed_twice", where="body:solve", rx=r"DELETE_MOTION\(rmotion\);", repl="freeState(M_state[rmotion]); DELETE_MOTION(rmotion);", thorough_only=True)]
# resumed solve of control::PDST (the unit of C02; its C03.resume obligations: an earlier result is replaced only by a closer or an exact one,
# and without a new path the earlier exact solution stands)
_s2 = importlib.util.spec_from_file_location("c02", os.path.join(os.path.dirname(__file__), "C02.py")); C02 = importlib.util.module_from_spec(_s2); _s2.loader.exec_module(C02)
for u in C02.UNITS:
    if u["name"] == "c02_pdst_solve_flags":
        v = copy.deepcopy(u); v["name"] = "c03_pdst_resumed_solve"; UNITS.append(v)
# clear() of the multilevel graph planners' common base
UNITS.append(dict(name="c03_bundlespacegraph_clear", template="C01/bundle_clear.c", mode="plain", entry="h_bundle_clear", flags=["--bounds-check", "--pointer-check"], level="proof", backend="minisat", timeout=300,
                  functions=["ompl::multilevel::BundleSpaceGraph::clear"],
                  sources=[dict(name="clear", file="src/ompl/multilevel/datastructures/src/BundleSpaceGraph.cpp", sig=r"void BundleSpaceGraph::clear\(\)", loops={},
                                rules=[(r"BaseT::clear\(\);", "BASE_CLEAR();", 0), (r"clearVertices\(\);", "n_vertices = 0;", 0), (r"pis_\.restart\(\);", "pis_restarted = 1;", 0),
                                       (r"bestCost_ = base::Cost\(base::dInf\);", "bestCost_ = __builtin_inf();", 0), (r"shortestVertexPath_\.clear\(\);", "svp_n = 0;", 0),
                                       (r"startConfigurations_\.clear\(\);", "sc_n = 0;", 0), (r"goalConfigurations_\.clear\(\);", "gc_n = 0;", 0), (r"!isDynamic\(\)", "!IS_DYNAMIC()", 0),
                                       (r"solutionPath_ != nullptr", "solutionPath_ != NIL", 0), (r"std::static_pointer_cast<geometric::PathGeometric>\(solutionPath_\)->clear\(\);", "sp_len = 0;", 0),
                                       (r"importanceCalculator_->clear\(\);", "ic_cleared = 1;", 0), (r"graphSampler_->clear\(\);", "gs_cleared = 1;", 0), (r"pathRestriction_ != nullptr", "pathRestriction_ != NIL", 0),
                                       (r"pathRestriction_->clear\(\);", "pr_cleared = 1;", 0)])],
                  canaries=[dict(name="start_index_kept", where="body:clear", rx=r"vStart_ = 0;", repl="")]))
ASSUMPTIONS = C01.ASSUMPTIONS + ["the termination condition returns an arbitrary value at every evaluation (so every interruption point is covered); executions that create fewer than 8 motions"]
TRUSTED = C01.TRUSTED
NOT_COVERED = ["every planner other than geometric::RRT (whole solve), control::PDST (flag logic of a resumed solve) and BundleSpaceGraph::clear (each solve()/clear() body would need its own contracts)",
               "resuming: that a second solve() continues the preserved search and only keeps or improves the reported solution; clear()/setProblemDefinition() forgetting the old query inside the planners (freeMemory, nn_->clear) -- only the PlannerInputStates cursors are verified",
               "crash-freedom beyond the memory-safety obligations of the modelled calls"]
