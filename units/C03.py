"""C03 -- interrupting, resuming or clearing a planner never corrupts its result (reduced scope: ONE planner, geometric::RRT::solve, plus the
shared input-state cursors).  The RRT unit is the one of C01 (whole body of solve() under contract); the obligations that carry C03 are:
the status postconditions (status truthfully describes what was added to the problem definition, for EVERY evaluation at which the
termination condition may first report true, including before the first iteration), addSolutionPath's precondition 'path non-empty and a
complete root-to-node chain', 'no evaluation of the termination condition after it fired', the leak counter and the no-double-free /
never-free-a-tree-state preconditions of freeState / delete."""
import copy, importlib.util, os
_s = importlib.util.spec_from_file_location("c01", os.path.join(os.path.dirname(__file__), "C01.py")); C01 = importlib.util.module_from_spec(_s); _s.loader.exec_module(C01)
PROPERTY = "C03"
LEVEL = "proof"
UNITS = []
for u in C01.UNITS:
    if u["name"] in ("c01_rrt_solve_whole_body", "c01_inputstates_restart", "c01_inputstates_clear"):
        v = copy.deepcopy(u); v["name"] = v["name"].replace("c01_", "c03_"); UNITS.append(v)
for v in UNITS:
    if v["name"] == "c03_rrt_solve_whole_body":
        v["canaries"] = [dict(name="xstate_leaked", where="body:solve", rx=r"freeState\(xstate\);", repl=";"),
                         dict(name="reports_solution_without_path", where="body:solve", rx=r"addSolutionPathS\(approximate, approxdif\);", repl=";", thorough_only=True),
                         dict(name="scratch_state_freed_twice", where="body:solve", rx=r"DELETE_MOTION\(rmotion\);", repl="freeState(M_state[rmotion]); DELETE_MOTION(rmotion);", thorough_only=True)]
ASSUMPTIONS = C01.ASSUMPTIONS + ["the termination condition returns an arbitrary value at every evaluation (so every interruption point is covered); executions that create fewer than 8 motions"]
TRUSTED = C01.TRUSTED
NOT_COVERED = ["every planner other than geometric::RRT (each solve()/clear() body would need its own contracts)",
               "resuming: that a second solve() continues the preserved search and only keeps or improves the reported solution; clear()/setProblemDefinition() forgetting the old query inside the planners (freeMemory, nn_->clear) -- only the PlannerInputStates cursors are verified",
               "crash-freedom beyond the memory-safety obligations of the modelled calls"]
