/* C03 -- the shells of BITstar::solve and CForest::solve around their search loops.
 * BIT*: a (resumed) solve() starts with the manual stop flag cleared, so the search continues whenever the termination condition allows it, the
 * incumbent is not yet good enough and a better solution is still possible; the status describes what was published
 * (solution <=> exact or tracking approximate ones; approximate <=> not exact); nothing is published without a solution.
 * CForest: every solve() starts from "no shared solution yet" (bestCost_ = infinite cost), also after clear() left bestCost_ = NaN, installs its
 * own intermediate-solution callback for the duration of the call and restores the previous one. */
#include <stdbool.h>
#include <stddef.h>
#define REACH(msg) __CPROVER_assert(0, "REACH " msg)
bool nondet_bool(void); double nondet_double(void);
typedef struct { bool solution, approximate; } PStatus;
bool setup_, stopLoop_, hasExactSolution_, stopOnSolutionChange_, TRACK_APPROX, HAS_GOAL0, HAS_START; unsigned numIterations_, iterations, published, start_edges_inserted, goal_waits; bool thrown;
bool PTC0, SATISFIED, BETTER_POSSIBLE, MORE_STARTS, MORE_GOALS; unsigned ptc_evals;
static bool PTC(void) { ptc_evals++; return ptc_evals == 1 ? PTC0 : nondet_bool(); }
static void ITERATE(void) { iterations++; __CPROVER_assume(iterations <= 3); numIterations_++; if (nondet_bool()) { hasExactSolution_ = true; stopLoop_ = stopOnSolutionChange_; } }
static bool IS_SATISFIED(void) { return iterations == 0 ? SATISFIED : nondet_bool(); }
static bool BETTER(void) { return iterations == 0 ? BETTER_POSSIBLE : nondet_bool(); }
PStatus bit_solve(void)
/*@BODY bit_solve@*/
void h_bit_solve(void)
{
    setup_ = true; iterations = 0; published = 0; ptc_evals = 0; thrown = false; start_edges_inserted = 0; goal_waits = 0; __CPROVER_assume(numIterations_ < 1000);
    bool had = hasExactSolution_; unsigned it0 = numIterations_;
    PStatus st = bit_solve();
    __CPROVER_assert(!thrown, "a set-up planner does not throw");
    if (!PTC0 && !SATISFIED && (BETTER_POSSIBLE || MORE_STARTS || MORE_GOALS)) __CPROVER_assert(iterations >= 1, "C03.resume a (resumed) solve continues the search: the stop flag of an earlier call does not carry over");
    __CPROVER_assert(!st.solution == !(hasExactSolution_ || TRACK_APPROX) && !st.approximate == !(!hasExactSolution_ && TRACK_APPROX), "C03.status the status tells whether a solution was published and whether it is only approximate");
    __CPROVER_assert(published == ((hasExactSolution_ || TRACK_APPROX) ? 1u : 0u), "a path is published exactly when there is one to publish");
    __CPROVER_assert(!had || hasExactSolution_, "C03.keep an exact solution found by an earlier call is kept");
    __CPROVER_assert(start_edges_inserted == (it0 == 0 ? 1u : 0u), "the start vertices are expanded once, by the first call only");
    if (had && iterations >= 1) REACH("resumed with a solution and kept searching"); if (iterations == 0) REACH("no iteration");
}
/* ---- CForest ---- */
double bestCost_; int callback_now, PREV_CALLBACK; unsigned planner_runs, NPLANNERS; double best_at_first_run; bool HAS_SOL, HAS_APPROX;
#define OWN_CALLBACK 77
static void RUN_PLANNER(void) { if (planner_runs == 0) best_at_first_run = bestCost_; __CPROVER_assert(callback_now == OWN_CALLBACK, "the planners run with CForest's own solution callback installed"); planner_runs++; }
PStatus cf_solve(void)
/*@BODY cf_solve@*/
void h_cf_solve(void)
{
    __CPROVER_assume(NPLANNERS >= 1 && NPLANNERS <= 3 && PREV_CALLBACK != OWN_CALLBACK); callback_now = PREV_CALLBACK; planner_runs = 0;      /* bestCost_ arbitrary: e.g. NaN after clear(), or the previous query's best cost */
    PStatus st = cf_solve();
    __CPROVER_assert(planner_runs == NPLANNERS, "every planner instance is run");
    __CPROVER_assert(best_at_first_run == __builtin_inf(), "C03.clear every solve() starts from 'no shared solution yet' (infinite best cost), whatever an earlier call or clear() left behind");
    __CPROVER_assert(callback_now == PREV_CALLBACK, "the previous intermediate-solution callback is restored");
    __CPROVER_assert(!st.solution == !HAS_SOL && !st.approximate == !HAS_APPROX, "C03.status the status is what the problem definition holds");
    REACH("solved");
}
