/* C03 -- clear() of tree planners (control::RRT, geometric KPIECE1, EST, RRTConnect, PDST): after clear() the planner has forgotten the old search: the base class
 * state is cleared, the motions are freed, and NOTHING the planner keeps still refers to a freed motion -- the nearest-neighbour structures / motion lists /
 * PDF / discretization this planner has are empty, lastGoalMotion_ is null, RRTConnect's connection point is null.  Which members a planner has is given per
 * unit (-DHAS_...); a member that exists but is not emptied keeps dangling pointers. */
#include <stdbool.h>
#include <stddef.h>
#define REACH(msg) __CPROVER_assert(0, "REACH " msg)
unsigned base_clears, frees, resets; bool nn_nonempty, motions_nonempty, pdf_nonempty, disc_nonempty, tstart_nonempty, tgoal_nonempty, connection_set, bsp_fresh, HAS_BOUNDS, tree_rebuilt;
void *lastGoalMotion_; double distanceBetweenTrees_; int iteration_;
bool open_nonempty, nbh_nonempty, graphlb_nonempty, graphapx_nonempty; unsigned collisionChecks_, iterations_; double bestCost_;
/* BIT* */
unsigned helper_resets; bool goal_vertex_set, hasExactSolution_, stopLoop_, setup_; unsigned bestLength_, numBatches_, numPrunings_, numIterations_, numEdgeCollisionChecks_, numRewirings_; double prunedCost_, prunedMeasure_;
static void BASE_CLEAR(void) { base_clears++; }
static void FREE_MEMORY(void) { frees++; }
void pl_clear(void)
/*@BODY pl_clear@*/
void h_pl_clear(void)
{
    int dummy; base_clears = frees = resets = 0; nn_nonempty = motions_nonempty = pdf_nonempty = disc_nonempty = tstart_nonempty = tgoal_nonempty = connection_set = true; lastGoalMotion_ = &dummy; bsp_fresh = false; tree_rebuilt = false; open_nonempty = nbh_nonempty = graphlb_nonempty = graphapx_nonempty = true; helper_resets = 0; goal_vertex_set = true; setup_ = true;
    pl_clear();
    __CPROVER_assert(base_clears == 1, "C03.clear the base planner state (input-state cursors, setup flag) is cleared");
#ifdef HAS_FREE
    __CPROVER_assert(frees == 1, "C03.clear the motions of the old search are freed, once");
#endif
#ifdef HAS_NN
    __CPROVER_assert(!nn_nonempty, "C03.clear the nearest-neighbour structure keeps no pointer to a freed motion");
#endif
#ifdef HAS_MOTIONS
    __CPROVER_assert(!motions_nonempty, "C03.clear the motion list keeps no pointer to a freed motion");
#endif
#ifdef HAS_PDF
    __CPROVER_assert(!pdf_nonempty, "C03.clear the sampling PDF keeps no element of the old search");
#endif
#ifdef HAS_DISC
    __CPROVER_assert(!disc_nonempty, "C03.clear the discretization (which owns the motions) is emptied");
#endif
#ifdef HAS_TREES
    __CPROVER_assert(!tstart_nonempty && !tgoal_nonempty && !connection_set && distanceBetweenTrees_ == __builtin_inf(), "C03.clear both trees are emptied, the connection point and the tree distance forgotten");
#endif
#ifdef HAS_LGM
    __CPROVER_assert(lastGoalMotion_ == NULL, "C03.clear the last goal motion (a pointer into the freed tree) is forgotten");
#endif
#ifdef HAS_BSP
    __CPROVER_assert(iteration_ == 1 && (!HAS_BOUNDS || bsp_fresh), "C03.clear the iteration counter restarts and a fresh root cell is created");
#endif
#ifdef HAS_FMT
    __CPROVER_assert(!open_nonempty && !nbh_nonempty && collisionChecks_ == 0, "C03.clear the open set and the cached neighbourhoods (pointers to freed motions) are emptied, the check counter restarts");
#endif
#ifdef HAS_LBT
    __CPROVER_assert(!graphlb_nonempty && !graphapx_nonempty && iterations_ == 0 && bestCost_ == __builtin_inf(), "C03.clear both graphs are emptied, iteration counter and best cost restart");
#endif
#ifdef HAS_BIT
    __CPROVER_assert(helper_resets == 3 && !goal_vertex_set && !hasExactSolution_ && !stopLoop_ && !setup_, "C03.clear the graph, queue and cost helper are reset, no incumbent and no stop request survive, the planner must be set up again");
    __CPROVER_assert(bestCost_ == __builtin_inf() && prunedCost_ == __builtin_inf() && bestLength_ == 0 && numIterations_ == 0 && numBatches_ == 0 && numPrunings_ == 0 && numRewirings_ == 0 && numEdgeCollisionChecks_ == 0 && prunedMeasure_ == 0.0, "C03.clear the incumbent cost is infinite again and every progress counter restarts (the first solve() after clear() behaves like a first call)");
#endif
    REACH("cleared");
}
