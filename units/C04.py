"""C04 -- reported solution costs are truthful, admissible-bounded and only improve (ranking / cost algebra / cost fold)."""
PROPERTY = "C04"
LEVEL = "proof"
PD = "src/ompl/base/src/ProblemDefinition.cpp"
OO = "src/ompl/base/src/OptimizationObjective.cpp"
MC = "src/ompl/base/objectives/src/MaximizeMinClearanceObjective.cpp"
MM = "src/ompl/base/objectives/src/MinimaxObjective.cpp"
PG = "src/ompl/geometric/src/PathGeometric.cpp"
PFLAGS = ["--bounds-check", "--pointer-check", "--signed-overflow-check", "--conversion-check", "--div-by-zero-check"]
FLAGS = PFLAGS + ["--no-malloc-may-fail", "--object-bits", "12"]

LESS = dict(name="less", file=PD, sig=r"bool ompl::base::PlannerSolution::operator<\(const PlannerSolution &b\) const",
            rules=[(r"\bb\.(\w+)", r"b->\1", 0),
                   (r"(?<![\w>.])(approximate_|difference_|optimized_|cost_|length_|opt_)\b", r"a->\1", 0),
                   (r"a->opt_->isCostBetterThan\(", "isCostBetterThan(", 0)], loops={})
COST_RULES = [(r"\bCost\(([^;]*)\);", r"(\1);", 0), (r"(\w+)\.value\(\)", r"\1", 0), (r"std::numeric_limits<double>::infinity\(\)", "INF_D", 0), (r"this->", "", 0)]


def O(name, file, sig):
    return dict(name=name, file=file, sig=sig, rules=COST_RULES, loops={})


OBJ_SOURCES = [
    O("better", OO, r"bool ompl::base::OptimizationObjective::isCostBetterThan\(Cost c1, Cost c2\) const"),
    O("infinite", OO, r"ompl::base::Cost ompl::base::OptimizationObjective::infiniteCost\(\) const"),
    O("identity", OO, r"ompl::base::Cost ompl::base::OptimizationObjective::identityCost\(\) const"),
    O("better_maxclear", MC, r"bool ompl::base::MaximizeMinClearanceObjective::isCostBetterThan\(Cost c1, Cost c2\) const"),
    O("infinite_maxclear", MC, r"ompl::base::Cost ompl::base::MaximizeMinClearanceObjective::infiniteCost\(\) const"),
    O("identity_maxclear", MC, r"ompl::base::Cost ompl::base::MaximizeMinClearanceObjective::identityCost\(\) const"),
    O("isSatisfied", OO, r"bool ompl::base::OptimizationObjective::isSatisfied\(Cost c\) const"),
    O("equivalent", OO, r"bool ompl::base::OptimizationObjective::isCostEquivalentTo\(Cost c1, Cost c2\) const"),
    O("isFinite", OO, r"bool ompl::base::OptimizationObjective::isFinite\(Cost cost\) const"),
    O("betterCost", OO, r"ompl::base::Cost ompl::base::OptimizationObjective::betterCost\(Cost c1, Cost c2\) const"),
    O("combine", OO, r"ompl::base::Cost ompl::base::OptimizationObjective::combineCosts\(Cost c1, Cost c2\) const"),
    O("minimax_combine", MM, r"ompl::base::Cost ompl::base::MinimaxObjective::combineCosts\(Cost c1, Cost c2\) const"),
]
SET_RULES = [(r"std::lock_guard<std::mutex> slock\(lock_\);", "", 0),
             (r"solutions_\.size\(\)", "solutions__size", 0), (r"solutions_\.empty\(\)", "(solutions__size == 0)", 0),
             (r"solutions_\.push_back\(s\);", "VEC_PUSH_PS(s);", 0), (r"solutions_\.back\(\)", "solutions_[solutions__size - 1]", 0),
             (r"std::sort\(solutions_\.begin\(\), solutions_\.end\(\)\);", "SORT_SOLUTIONS();", 0),
             (r"PathPtr copy;", "int copy = 0;", 0)]


def SS(name, sig, which=None):
    d = dict(name=name, file=PD, sig=sig, rules=SET_RULES, loops={})
    if which is not None:
        d["which"] = which
    return d


SET_SOURCES = [LESS,
               SS("add", r"void add\(const PlannerSolution &s\)"), SS("isApproximate", r"bool isApproximate\(\)"),
               SS("isOptimized", r"bool isOptimized\(\)"), SS("getDifference", r"double getDifference\(\)"),
               SS("getTopSolution", r"PathPtr getTopSolution\(\)")]

UNITS = [
    dict(name="c04_solution_order", template="C04/order.c", mode="plain", sources=[LESS], flags=PFLAGS, level="proof",
         functions=["ompl::base::PlannerSolution::operator<"],
         canaries=[dict(name="optimized_rule_dropped", where="body:less", rx=r"if \(!a->optimized_ && b->optimized_\)\s*return false;", repl=""),
                   dict(name="difference_flipped", where="body:less", rx=r"a->difference_ < b->difference_", repl="a->difference_ > b->difference_")]),
    dict(name="c04_objective_base", template="C04/objective.c", mode="plain", sources=OBJ_SOURCES, flags=PFLAGS, level="proof", backend="cadical",
         functions=["ompl::base::OptimizationObjective::" + f for f in ("isCostBetterThan", "isSatisfied", "isCostEquivalentTo", "isFinite", "betterCost", "combineCosts", "infiniteCost", "identityCost")] + ["ompl::base::MinimaxObjective::combineCosts"],
         canaries=[dict(name="satisfied_not_strict", where="body:isSatisfied", rx=r"isCostBetterThan\(c, threshold_\)", repl="!isCostBetterThan(threshold_, c)"),
                   dict(name="bettercost_swapped", where="body:betterCost", rx=r"\? c1 : c2", repl="? c2 : c1")]),
    dict(name="c04_objective_maxclearance", template="C04/objective.c", mode="plain", sources=OBJ_SOURCES, flags=PFLAGS, level="proof", backend="cadical",
         defines={"MAXCLEAR": 1}, functions=["ompl::base::MaximizeMinClearanceObjective::" + f for f in ("isCostBetterThan", "infiniteCost", "identityCost")]),
    dict(name="c04_solution_set", template="C04/solset.c", mode="plain", sources=SET_SOURCES, flags=PFLAGS, level="bounded", unwind=7,
         bound="<= 4 solutions added in any order, all field values", defines={"NS": 4}, backend="kissat", timeout=900,
         tiers=dict(thorough=dict(defines={"NS": 6}, unwind=9, bound="<= 6 solutions")),
         functions=["ProblemDefinition::PlannerSolutionSet::" + f for f in ("add", "isApproximate", "isOptimized", "getDifference", "getTopSolution")],
         canaries=[dict(name="no_sort", where="body:add", rx=r"SORT_SOLUTIONS\(\);", repl="")]),
    dict(name="c04_path_cost_fold", template="C04/pathcost.c", enforce=["path_cost"], flags=FLAGS, level="proof",
         replace=["identityCost", "initialCost", "terminalCost", "motionCost", "combineCosts"],
         functions=["ompl::geometric::PathGeometric::cost"],
         sources=[dict(name="cost", file=PG, sig=r"ompl::base::Cost ompl::geometric::PathGeometric::cost\(const base::OptimizationObjectivePtr &opt\) const",
                       rules=[(r"states_\.empty\(\)", "(states__size == 0)", 0), (r"states_\.size\(\)", "states__size", 0), (r"std::size_t", "size_t", 0),
                              (r"opt->identityCost\(\)", "identityCost()", 0), (r"opt->initialCost\(states_\.front\(\)\)", "initialCost(0)", 0),
                              (r"opt->motionCost\(states_\[([^\]]+)\], states_\[([^\]]+)\]\)", r"motionCost(\1, \2)", 0),
                              (r"opt->terminalCost\(states_\.back\(\)\)", "terminalCost(states__size - 1)", 0),
                              (r"opt->combineCosts\(", "combineCosts(", 0), (r"base::Cost cost\(([^;]+)\);", r"Cost cost = (\1);", 0)],
                       loops={1: """
__CPROVER_assigns(i, cost, ACC, order_ok, chain_ok, motions_at_G, next_motion, last_is_motion, LAST_MOTION_RES)
__CPROVER_loop_invariant(1 <= i && i <= states__size && next_motion == i && order_ok && chain_ok && init_done && !term_done && cost == ACC && cost == cost)
__CPROVER_loop_invariant(motions_at_G == ((G < i) ? 1 : 0))
__CPROVER_decreases(states__size - i)
"""})],
         confirm=dict(unwind=6, defines={}),
         canaries=[dict(name="skips_last_motion", where="body:cost", rx=r"i < states__size;", repl="i + 1 < states__size;"),
                   dict(name="terminal_dropped", where="body:cost", rx=r"cost = combineCosts\(cost, terminalCost\(states__size - 1\)\);", repl="")]),
]

ASSUMPTIONS = [
    "solution fields are not NaN; the solutions compared carry the same objective (or all none)",
    "the objective's isCostBetterThan is the base '<' or MaximizeMinClearance's '>' (the two implementations in the tree); user-defined objectives must themselves be strict weak orders",
    "std::sort is modelled by an insertion sort over the extracted comparator (bounded unit c04_solution_set); mutex deleted (sequential semantics)",
    "PathGeometric::cost: objective callbacks return non-NaN costs; the vector of states is modelled as the identity sequence",
]
TRUSTED = ["extraction rewrite tables of units/C04.py (Cost wrapper erased: Cost(x) -> x, c.value() -> c)", "stubs and harness code in units/C04/*.c", "CBMC 6.11 (minisat/kissat; DFCC for the fold)"]
NOT_COVERED = [
    "stored cost >= true recomputed cost and true cost >= admissible lower bound for each optimizing planner (needs per-planner tree invariants: planner solve() bodies are not under contract)",
    "monotonicity of the best stored cost across solve() calls inside each planner",
    "setOptimized(...) call sites of the individual planners (listed in DESIGN.md; not verified)",
    "MultiOptimizationObjective / StateCostIntegralObjective arithmetic",
]
