"""C04 -- reported solution costs are truthful, admissible-bounded and only improve (ranking / cost algebra / cost fold)."""
PROPERTY = "C04"
LEVEL = "proof"
PD = "src/ompl/base/src/ProblemDefinition.cpp"
OO = "src/ompl/base/src/OptimizationObjective.cpp"
MC = "src/ompl/base/objectives/src/MaximizeMinClearanceObjective.cpp"
MM = "src/ompl/base/objectives/src/MinimaxObjective.cpp"
PG = "src/ompl/geometric/src/PathGeometric.cpp"
PFLAGS = ["--bounds-check", "--pointer-check", "--signed-overflow-check", "--conversion-check", "--div-by-zero-check"]
FLAGS = PFLAGS + ["--no-malloc-may-fail", "--object-bits", "12"]

LESS = dict(name="less", file=PD, sig=r"bool ompl::base::PlannerSolution::operator<\(const PlannerSolution &b\) const",
            rules=[(r"\bb\.(\w+)", r"b->\1", 0),
                   (r"(?<![\w>.])(approximate_|difference_|optimized_|cost_|length_|opt_)\b", r"a->\1", 0),
                   (r"a->opt_->isCostBetterThan\(", "isCostBetterThan(", 0)], loops={})
COST_RULES = [(r"\bCost\(([^;]*)\);", r"(\1);", 0), (r"(\w+)\.value\(\)", r"\1", 0), (r"std::numeric_limits<double>::infinity\(\)", "INF_D", 0), (r"this->", "", 0)]


def O(name, file, sig):
    return dict(name=name, file=file, sig=sig, rules=COST_RULES, loops={})


OBJ_SOURCES = [
    O("better", OO, r"bool ompl::base::OptimizationObjective::isCostBetterThan\(Cost c1, Cost c2\) const"),
    O("infinite", OO, r"ompl::base::Cost ompl::base::OptimizationObjective::infiniteCost\(\) const"),
    O("identity", OO, r"ompl::base::Cost ompl::base::OptimizationObjective::identityCost\(\) const"),
    O("better_maxclear", MC, r"bool ompl::base::MaximizeMinClearanceObjective::isCostBetterThan\(Cost c1, Cost c2\) const"),
    O("infinite_maxclear", MC, r"ompl::base::Cost ompl::base::MaximizeMinClearanceObjective::infiniteCost\(\) const"),
    O("identity_maxclear", MC, r"ompl::base::Cost ompl::base::MaximizeMinClearanceObjective::identityCost\(\) const"),
    O("isSatisfied", OO, r"bool ompl::base::OptimizationObjective::isSatisfied\(Cost c\) const"),
    O("equivalent", OO, r"bool ompl::base::OptimizationObjective::isCostEquivalentTo\(Cost c1, Cost c2\) const"),
    O("isFinite", OO, r"bool ompl::base::OptimizationObjective::isFinite\(Cost cost\) const"),
    O("betterCost", OO, r"ompl::base::Cost ompl::base::OptimizationObjective::betterCost\(Cost c1, Cost c2\) const"),
    O("combine", OO, r"ompl::base::Cost ompl::base::OptimizationObjective::combineCosts\(Cost c1, Cost c2\) const"),
    O("minimax_combine", MM, r"ompl::base::Cost ompl::base::MinimaxObjective::combineCosts\(Cost c1, Cost c2\) const"),
]
SET_RULES = [(r"std::lock_guard<std::mutex> slock\(lock_\);", "", 0),
             (r"solutions_\.size\(\)", "solutions__size", 0), (r"solutions_\.empty\(\)", "(solutions__size == 0)", 0),
             (r"solutions_\.push_back\(s\);", "VEC_PUSH_PS(s);", 0), (r"solutions_\.back\(\)", "solutions_[solutions__size - 1]", 0),
             (r"std::sort\(solutions_\.begin\(\), solutions_\.end\(\)\);", "SORT_SOLUTIONS();", 0),
             (r"PathPtr copy;", "int copy = 0;", 0)]


def SS(name, sig, which=None):
    d = dict(name=name, file=PD, sig=sig, rules=SET_RULES, loops={})
    if which is not None:
        d["which"] = which
    return d


SET_SOURCES = [LESS,
               SS("add", r"void add\(const PlannerSolution &s\)"), SS("isApproximate", r"bool isApproximate\(\)"),
               SS("isOptimized", r"bool isOptimized\(\)"), SS("getDifference", r"double getDifference\(\)"),
               SS("getTopSolution", r"PathPtr getTopSolution\(\)")]

UNITS = [
    dict(name="c04_solution_order", template="C04/order.c", mode="plain", sources=[LESS], flags=PFLAGS, level="proof",
         functions=["ompl::base::PlannerSolution::operator<"],
         canaries=[dict(name="optimized_rule_dropped", where="body:less", rx=r"if \(!a->optimized_ && b->optimized_\)\s*return false;", repl=""),
                   dict(name="difference_flipped", where="body:less", rx=r"a->difference_ < b->difference_", repl="a->difference_ > b->difference_")]),
    dict(name="c04_objective_base", template="C04/objective.c", mode="plain", sources=OBJ_SOURCES, flags=PFLAGS, level="proof", backend="cadical",
         functions=["ompl::base::OptimizationObjective::" + f for f in ("isCostBetterThan", "isSatisfied", "isCostEquivalentTo", "isFinite", "betterCost", "combineCosts", "infiniteCost", "identityCost")] + ["ompl::base::MinimaxObjective::combineCosts"],
         canaries=[dict(name="satisfied_not_strict", where="body:isSatisfied", rx=r"isCostBetterThan\(c, threshold_\)", repl="!isCostBetterThan(threshold_, c)"),
                   dict(name="bettercost_swapped", where="body:betterCost", rx=r"\? c1 : c2", repl="? c2 : c1")]),
    dict(name="c04_objective_maxclearance", template="C04/objective.c", mode="plain", sources=OBJ_SOURCES, flags=PFLAGS, level="proof", backend="cadical",
         defines={"MAXCLEAR": 1}, functions=["ompl::base::MaximizeMinClearanceObjective::" + f for f in ("isCostBetterThan", "infiniteCost", "identityCost")]),
    dict(name="c04_solution_set", template="C04/solset.c", mode="plain", sources=SET_SOURCES, flags=PFLAGS, level="bounded", unwind=7,
         bound="<= 4 solutions added in any order, all field values", defines={"NS": 4}, backend="kissat", timeout=900,
         tiers=dict(thorough=dict(defines={"NS": 6}, unwind=9, bound="<= 6 solutions")),
         functions=["ProblemDefinition::PlannerSolutionSet::" + f for f in ("add", "isApproximate", "isOptimized", "getDifference", "getTopSolution")],
         canaries=[dict(name="no_sort", where="body:add", rx=r"SORT_SOLUTIONS\(\);", repl="")]),
    dict(name="c04_path_cost_fold", template="C04/pathcost.c", enforce=["path_cost"], flags=FLAGS, level="proof",
         replace=["identityCost", "initialCost", "terminalCost", "motionCost", "combineCosts"],
         functions=["ompl::geometric::PathGeometric::cost"],
         sources=[dict(name="cost", file=PG, sig=r"ompl::base::Cost ompl::geometric::PathGeometric::cost\(const base::OptimizationObjectivePtr &opt\) const",
                       rules=[(r"states_\.empty\(\)", "(states__size == 0)", 0), (r"states_\.size\(\)", "states__size", 0), (r"std::size_t", "size_t", 0),
                              (r"opt->identityCost\(\)", "identityCost()", 0), (r"opt->initialCost\(states_\.front\(\)\)", "initialCost(0)", 0),
                              (r"opt->motionCost\(states_\[([^\]]+)\], states_\[([^\]]+)\]\)", r"motionCost(\1, \2)", 0),
                              (r"opt->terminalCost\(states_\.back\(\)\)", "terminalCost(states__size - 1)", 0),
                              (r"opt->combineCosts\(", "combineCosts(", 0), (r"base::Cost cost\(([^;]+)\);", r"Cost cost = (\1);", 0)],
                       loops={1: """
__CPROVER_assigns(i, cost, ACC, order_ok, chain_ok, motions_at_G, next_motion, last_is_motion, LAST_MOTION_RES)
__CPROVER_loop_invariant(1 <= i && i <= states__size && next_motion == i && order_ok && chain_ok && init_done && !term_done && cost == ACC && cost == cost)
__CPROVER_loop_invariant(motions_at_G == ((G < i) ? 1 : 0))
__CPROVER_decreases(states__size - i)
"""})],
         confirm=dict(unwind=6, defines={}),
         canaries=[dict(name="skips_last_motion", where="body:cost", rx=r"i < states__size;", repl="i + 1 < states__size;"),
                   dict(name="terminal_dropped", where="body:cost", rx=r"cost = combineCosts\(cost, terminalCost\(states__size - 1\)\);", repl="")]),
]

# ---------------------------------------------------------------- planner incumbent / registration blocks
AIT = "src/ompl/geometric/planners/informedtrees/src/AITstar.cpp"
EIT = "src/ompl/geometric/planners/informedtrees/src/EITstar.cpp"
PRM = "src/ompl/geometric/planners/prm/src/PRM.cpp"
INC_RULES = [
    (r"for \(const auto &goal : graph_\.getGoalVertices\(\)\)", "for (unsigned goal = 0; goal < NGOALS; ++goal)", 0),
    (r"goal->getCostToComeFromStart\(\)", "COSTOF(goal)", 0), (r"goal->getCurrentCostToCome\(\)", "COSTOF(goal)", 0),
    (r"objective_->isCostBetterThan\(", "better(", 0), (r"\bisBetter\(", "better(", 0), (r"objective_->isFinite\(", "isFiniteC(", 0), (r"objective_->isSatisfied\(", "isSatisfiedC(", 0),
    (r"objective_->betterCost\(([^,]+), ([^;]+)\);", r"(better(\1, \2) ? (\1) : (\2));", 0),
    (r"(?:pdef_|problem_)->hasExactSolution\(\)", "hasExact()", 0),
    (r"ompl::base::PlannerSolution solution\((?:getPathToVertex|getPathToState)\(goal\)\);", "Sol solution; solution.path = (int)goal; solution.has_opt = 0; solution.cost = 0.0; solution.optimized = 0;", 0),
    (r"solution\.setPlannerName\(name_\);", "", 0),
    (r"solution\.setOptimized\(objective_, ([^,]+), ([^;]+)\);", r"solution.has_opt = 1; solution.cost = (\1); solution.optimized = (\2);", 0),
    (r"(?:pdef_|problem_)->addSolutionPath\(solution\);", "addSolutionPath(&solution);", 0),
    (r"if \(static_cast<bool>\(pdef_->getIntermediateSolutionCallback\(\)\)\)\s*\{[^{}]*getIntermediateSolutionCallback\(\)\(this, const_path, (\w+)\);\s*\}", r"if (HAS_CB) callback(\1);", 0),
    (r"informAboutNewSolution\(\);", ";", 0),
]
INC_SOURCES = [
    dict(name="aitstar", file=AIT, sig=r"void AITstar::updateExactSolution\(\)", rules=INC_RULES, loops={1: """
__CPROVER_assigns(goal, solutionCost_, HAS, n_reg, last_reg_cost, last_reg_path)
__CPROVER_loop_invariant(goal <= NGOALS && solutionCost_ == solutionCost_ && n_reg >= 0 && n_reg <= (int)goal)
__CPROVER_loop_invariant(__CPROVER_loop_entry(HAS) ==> (HAS && solutionCost_ <= __CPROVER_loop_entry(solutionCost_) && (G < goal ==> solutionCost_ <= COST[G])))
__CPROVER_loop_invariant(n_reg > 0 ? (solutionCost_ == last_reg_cost && HAS) : (solutionCost_ == __CPROVER_loop_entry(solutionCost_) && HAS == __CPROVER_loop_entry(HAS)))
__CPROVER_decreases(NGOALS - goal)
"""}),
    dict(name="eitstar", file=EIT, begin=r"void EITstar::updateExactSolution\(const std::shared_ptr<eitstar::State> &goal\)\s*\{", end=r"if \(!std::isfinite\(suboptimalityFactor_\)\)",
         wrap_braces=False, rules=[(r"void EITstar::updateExactSolution\(const std::shared_ptr<eitstar::State> &goal\)\s*\{", "{", 0), (r"$", " } }", 0)] + INC_RULES, loops={}),
]
INC_STUBS = ["better", "isFiniteC", "isSatisfiedC", "COSTOF", "hasExact", "addSolutionPath", "callback"]
UNITS.append(dict(name="c04_aitstar_updateExactSolution", template="C04/incumbent.c", entry="h_aitstar", sources=INC_SOURCES, enforce=["aitstar_updateExactSolution"], replace=INC_STUBS, flags=FLAGS,
                  level="proof", bound="<= 64 goal vertices", functions=["ompl::geometric::AITstar::updateExactSolution"], backend="cadical", timeout=900, expect_loops=1, confirm=dict(unwind=5, defines={"MAXG": 3}),
                  canaries=[dict(name="incumbent_safeguard", where="body:aitstar", rx=r"solutionCost_ = COSTOF\(goal\);", repl="solutionCost_ = (better(solutionCost_, COSTOF(goal)) ? solutionCost_ : COSTOF(goal));"),
                            dict(name="flag_from_old_cost", where="body:aitstar", rx=r"isSatisfiedC\(solutionCost_\)", repl="isSatisfiedC(INFC)")]))
UNITS.append(dict(name="c04_eitstar_updateExactSolution", template="C04/incumbent.c", entry="h_eitstar", sources=INC_SOURCES, enforce=["eitstar_updateExactSolution"], replace=INC_STUBS, flags=FLAGS,
                  level="proof", functions=["ompl::geometric::EITstar::updateExactSolution (registration block)"], backend="cadical", timeout=900, expect_loops=0,
                  canaries=[dict(name="registers_old_cost", where="body:eitstar", rx=r"solutionCost_ = COSTOF\(goal\);", repl="")]))
PRM_RULES = [
    (r"base::Goal \*g = pdef_->getGoal\(\)\.get\(\);", "", 0), (r"base::Cost sol_cost\(opt_->infiniteCost\(\)\);", "double sol_cost = infiniteCost();", 0),
    (r"foreach \(Vertex start, starts\)", "for (unsigned start = 0; start < NS_; ++start)", 0), (r"foreach \(Vertex goal, goals\)", "for (unsigned goal = 0; goal < NG_; ++goal)", 0),
    (r"graphMutex_\.(?:un)?lock\(\);", "", 0), (r"g->isStartGoalPairValid\(stateProperty_\[goal\], stateProperty_\[start\]\)", "isStartGoalPairValid(goal, start)", 0),
    (r"base::PathPtr p = constructSolution\(start, goal\);", "int p = constructSolution(start, goal);", 0), (r"base::Cost pathCost = p->cost\(opt_\);", "double pathCost_ = pathCost(p);", 0),
    (r"\bpathCost\b(?!\()", "pathCost_", 0), (r"double pathCost__ = ", "double pathCost_ = ", 0),
    (r"opt_->isCostBetterThan\(", "better(", 0), (r"opt_->isSatisfied\(", "isSatisfiedC(", 0), (r"\bsolution = p;", "*solution = p;", 0),
]
UNITS.append(dict(name="c04_prm_maybeConstructSolution", template="C04/prm.c", entry="h_prm", enforce=["prm_maybeConstructSolution"], flags=FLAGS, level="proof", bound="<= 4 start and <= 4 goal vertices",
                  replace=["better", "isSatisfiedC", "infiniteCost", "sameComponent", "isStartGoalPairValid", "constructSolution", "pathCost"],
                  functions=["ompl::geometric::PRM::maybeConstructSolution"], backend="cadical", timeout=900, expect_loops=2, confirm=dict(unwind=4, defines={"MAXV": 2}), defines={"MAXV": 4},
                  sources=[dict(name="prm", file=PRM, sig=r"bool ompl::geometric::PRM::maybeConstructSolution\(const std::vector<Vertex> &starts, const std::vector<Vertex> &goals,\s*base::PathPtr &solution\)",
                                rules=PRM_RULES, loops={1: """
__CPROVER_assigns(start, sol_cost, SOL, bestCost_)
__CPROVER_loop_invariant(start <= NS_ && sol_cost == sol_cost && bestCost_ == bestCost_ && bestCost_ <= __CPROVER_loop_entry(bestCost_) && sol_cost <= INFC && bestCost_ <= sol_cost || bestCost_ <= __CPROVER_loop_entry(bestCost_) && start <= NS_ && sol_cost == sol_cost && bestCost_ == bestCost_ && sol_cost <= INFC)
__CPROVER_loop_invariant(SOL == 0 ? sol_cost == INFC : (SOL > 0 && SOL <= MAXV * MAXV && COSTP(SOL) == sol_cost && sol_cost >= THRESH && sol_cost < INFC))
__CPROVER_loop_invariant((GS < start && ELIG) ==> (bestCost_ <= PC[GS][GG] && (PC[GS][GG] < INFC ==> sol_cost <= PC[GS][GG])))
__CPROVER_decreases(NS_ - start)
""", 2: """
__CPROVER_assigns(goal, sol_cost, SOL, bestCost_)
__CPROVER_loop_invariant(goal <= NG_ && start < NS_ && sol_cost == sol_cost && bestCost_ == bestCost_ && bestCost_ <= __CPROVER_loop_entry(bestCost_) && sol_cost <= INFC)
__CPROVER_loop_invariant(SOL == 0 ? sol_cost == INFC : (SOL > 0 && SOL <= MAXV * MAXV && COSTP(SOL) == sol_cost && sol_cost >= THRESH && sol_cost < INFC))
__CPROVER_loop_invariant(((GS < start || (GS == start && GG < goal)) && ELIG) ==> (bestCost_ <= PC[GS][GG] && (PC[GS][GG] < INFC ==> sol_cost <= PC[GS][GG])))
__CPROVER_decreases(NG_ - goal)
"""})],
                  canaries=[dict(name="best_per_start_only", where="body:prm", rx=r"double sol_cost = infiniteCost\(\);(\s*for \(unsigned start = 0; start < NS_; \+\+start\)[^{]*\{)", repl=r"double sol_cost; \1 sol_cost = infiniteCost();")]))


RRTS = "src/ompl/geometric/planners/rrt/src/RRTstar.cpp"
RW_RULES = [
    (r"bool checkForSolution = false;", "{ bool checkForSolution = false;", 0), (r"$", " return checkForSolution; }", 0),
    (r"std::size_t", "size_t", 0), (r"nbh\.size\(\)", "NB", 0),
    (r"nbh\[i\] != motion->parent", "(int)i != PARENT[NEWM]", 0),
    (r"base::Cost (\w+);", r"double \1;", 0), (r"base::Cost (\w+) = ", r"double \1 = ", 0),
    (r"opt_->motionCost\(motion->state, nbh\[i\]->state\)", "motionCostIdx(NEWM, i)", 0), (r"opt_->motionCost\(nbh\[i\]->state, motion->state\)", "motionCostIdx(i, NEWM)", 0),
    (r"opt_->combineCosts\(", "combine(", 0), (r"opt_->isCostBetterThan\(", "better(", 0),
    (r"si_->distance\(nbh\[i\]->state, motion->state\)", "distanceIdx(i, NEWM)", 0),
    (r"si_->checkMotion\(motion->state, nbh\[i\]->state\)", "checkMotionIdx(NEWM, i)", 0), (r"si_->checkMotion\(nbh\[i\]->state, motion->state\)", "checkMotionIdx(i, NEWM)", 0),
    (r"removeFromParent\(nbh\[i\]\);", "removeFromParent(i);", 0), (r"nbh\[i\]->parent->children\.push_back\(nbh\[i\]\);", "pushChild((size_t)PARENT[i], i);", 0),
    (r"updateChildCosts\(nbh\[i\]\);", "updateChildCosts(i);", 0),
    (r"nbh\[i\]->parent = motion;", "PARENT[i] = NEWM;", 0), (r"nbh\[i\]->incCost\b", "INC[i]", 0), (r"nbh\[i\]->cost\b", "COSTM[i]", 0), (r"motion->cost\b", "COSTM[NEWM]", 0),
]
UNITS.append(dict(name="c04_rrtstar_rewire", template="C04/rrtstar_rewire.c", entry="h_rewire", enforce=["rrtstar_rewire"], flags=FLAGS, level="proof", bound="<= 4 neighbours",
                  replace=["motionCostIdx", "combine", "better", "distanceIdx", "checkMotionIdx", "removeFromParent", "pushChild", "updateChildCosts"],
                  functions=["ompl::geometric::RRTstar::solve (rewiring step)"], backend="kissat", timeout=2400, in_tiers=("thorough",), expect_loops=1, confirm=dict(unwind=4, defines={"MAXNB": 2}),
                  sources=[dict(name="rewire", file=RRTS, begin=r"bool checkForSolution = false;\s*for \(std::size_t i = 0; i < nbh\.size\(\); \+\+i\)\s*\{\s*if \(nbh\[i\] != motion->parent\)",
                                end=r"double distanceFromGoal;", wrap_braces=False, rules=RW_RULES, loops={1: """
__CPROVER_assigns(i, checkForSolution, __CPROVER_object_whole(PARENT), __CPROVER_object_whole(INC), __CPROVER_object_whole(COSTM), checkedG, removedG, pushedG, updatedG)
__CPROVER_loop_invariant(i <= NB && PARENT[NEWM] == __CPROVER_loop_entry(PARENT[NEWM]) && COSTM[NEWM] == __CPROVER_loop_entry(COSTM[NEWM]))
__CPROVER_loop_invariant(G >= i ==> (PARENT[G] == PARENT0 && INC[G] == INC0 && COSTM[G] == COST0 && !checkedG && removedG == 0 && pushedG == 0 && updatedG == 0))
__CPROVER_loop_invariant((G < i && PARENT[G] == NEWM && PARENT0 != NEWM) ==> (INC[G] == MC[NEWM][G] && COSTM[G] == COSTM[NEWM] + MC[NEWM][G] && COSTM[G] < COST0 && ((checkedG && MVG) || valid[G] == 1) && removedG == 1 && pushedG == 1 && updatedG == 1))
__CPROVER_loop_invariant((G < i && !(PARENT[G] == NEWM && PARENT0 != NEWM)) ==> (removedG == 0 && pushedG == 0 && updatedG == 0 && PARENT[G] == PARENT0 && INC[G] == INC0 && COSTM[G] == COST0))
__CPROVER_decreases(NB - i)
"""})],
                  canaries=[dict(name="reverse_edge_cost", where="body:rewire", rx=r"nbhIncCost = motionCostIdx\(NEWM, i\);", repl="nbhIncCost = motionCostIdx(i, NEWM);"),
                            dict(name="no_motion_check", where="body:rewire", rx=r"&&\s*checkMotionIdx\(NEWM, i\)", repl="")]))

# small delegating functions (anchors PathLengthOptimizationObjective.cpp; GoalState.cpp for C01)
TINY_RULES = [(r"si_->distance\(", "SI_DISTANCE(", 0), (r"si_->copyState\(", "SI_COPY(", 0), (r"\bCost\(", "COST(", 0), (r"identityCost\(\)", "IDENTITY_COST()", 0), (r"\bmotionCost\(", "pl_motionCost(", 0)]
GSF = "src/ompl/base/goals/src/GoalState.cpp"
PLF = "src/ompl/base/objectives/src/PathLengthOptimizationObjective.cpp"
TINY_SRC = [dict(name="gs_distanceGoal", file=GSF, sig=r"double ompl::base::GoalState::distanceGoal\(const State \*st\) const", rules=TINY_RULES, loops={}),
            dict(name="gs_sampleGoal", file=GSF, sig=r"void ompl::base::GoalState::sampleGoal\(base::State \*st\) const", rules=TINY_RULES, loops={}),
            dict(name="pl_stateCost", file=PLF, sig=r"ompl::base::Cost ompl::base::PathLengthOptimizationObjective::stateCost\(const State \*\) const", rules=TINY_RULES, loops={}),
            dict(name="pl_motionCost", file=PLF, sig=r"ompl::base::Cost ompl::base::PathLengthOptimizationObjective::motionCost\(const State \*s1, const State \*s2\) const", rules=TINY_RULES, loops={}),
            dict(name="pl_motionCostHeuristic", file=PLF, sig=r"ompl::base::Cost ompl::base::PathLengthOptimizationObjective::motionCostHeuristic\(const State \*s1,\s*const State \*s2\) const", rules=TINY_RULES, loops={}),
            dict(name="pl_motionCostBestEstimate", file=PLF, sig=r"ompl::base::Cost ompl::base::PathLengthOptimizationObjective::motionCostBestEstimate\(const State \*s1,\s*const State \*s2\) const", rules=TINY_RULES, loops={})]
TINY_PL = dict(name="c04_pathlength_objective", template="C04/tiny.c", mode="plain", entry="h_pathlength", sources=TINY_SRC, needs=["pl_stateCost", "pl_motionCost", "pl_motionCostHeuristic", "pl_motionCostBestEstimate"], flags=PFLAGS, level="proof", backend="minisat", timeout=300,
               functions=["PathLengthOptimizationObjective::motionCost / motionCostHeuristic / motionCostBestEstimate / stateCost"], canaries=[dict(name="heuristic_of_the_reverse_motion", where="body:pl_motionCostHeuristic", rx=r"pl_motionCost\(s1, s2\)", repl="pl_motionCost(s2, s1)")])
TINY_GS = dict(name="c01_goalstate", template="C04/tiny.c", mode="plain", entry="h_goalstate", sources=TINY_SRC, needs=["gs_distanceGoal", "gs_sampleGoal"], flags=PFLAGS, level="proof", backend="minisat", timeout=300,
               functions=["GoalState::distanceGoal", "GoalState::sampleGoal"], canaries=[dict(name="goal_overwritten_by_the_argument", where="body:gs_sampleGoal", rx=r"SI_COPY\(st, state_\)", repl="SI_COPY(state_, st)")])
UNITS.append(TINY_PL)

SCIF = "src/ompl/base/objectives/src/StateCostIntegralObjective.cpp"
SCI_RULES = [
    (r"Cost totalCost = this->identityCost\(\);", "double totalCost = IDENT();", 0), (r"int nd = si_->getStateSpace\(\)->validSegmentCount\(s1, s2\);", "int nd = ND;", 0),
    (r"State \*test1 = si_->cloneState\(s1\);", "SRef test1 = CLONE(s1);", 0), (r"State \*test2 = si_->allocState\(\);", "SRef test2 = ALLOC();", 0),
    (r"si_->getStateSpace\(\)->interpolate\(s1, s2, \(double\)j / \(double\)nd, test2\);", "INTERP(j, nd, test2);", 0),
    (r"Cost\(totalCost\.value\(\) \+\s*this->trapezoid\(((?:[^()]|\([^()]*\))*)\)\.value\(\)\)", r"ADD(totalCost, TRAP(\1))", 0),
    (r"this->trapezoid\(", "TRAP(", 0), (r"this->stateCost\(", "SC(", 0), (r"\bCost (\w+) =", r"double \1 =", 0), (r"si_->distance\(", "DISTS(", 0), (r"std::swap\(test1, test2\);", "SWAPS(test1, test2);", 0), (r"si_->freeState\(", "FREE(", 0),
]
UNITS.append(dict(name="c04_statecostintegral_motionCost", template="C04/sci_motioncost.c", mode="plain", entry="h_sci_motionCost", flags=["--bounds-check", "--pointer-check", "--signed-overflow-check"], unwind=9, level="bounded", bound="<= 4 segments",
                  backend="cadical", timeout=300, functions=["StateCostIntegralObjective::motionCost"],
                  sources=[dict(name="sci_motionCost", file=SCIF, sig=r"ompl::base::Cost ompl::base::StateCostIntegralObjective::motionCost\(const State \*s1, const State \*s2\) const", rules=SCI_RULES, loops={"allow_uncontracted": True})],
                  canaries=[dict(name="last_trapezoid_from_the_start_state", where="body:sci_motionCost", rx=r"DISTS\(test1, s2\)", repl="DISTS(s1, s2)"),
                            dict(name="previous_cost_not_advanced", where="body:sci_motionCost", rx=r"prevStateCost = nextStateCost;", repl=";")]))

RSF = "src/ompl/geometric/planners/rrt/src/RRTstar.cpp"
RR_RULES = [(r"Motion \*newSolution = nullptr;", "MotionRef newSolution = NIL;", 0), (r"ptc\.terminate\(\);", "terminates++;", 0), (r"std::vector<Motion \*> mpath;", "mpath_n = 0;", 0), (r"Motion \*iterMotion = newSolution;", "MotionRef iterMotion = newSolution;", 0),
            (r"mpath\.push_back\(iterMotion\);", "MPATH_PUSH(iterMotion);", 0), (r"iterMotion = iterMotion->parent;", "iterMotion = M_parent[iterMotion];", 0), (r"auto path\(std::make_shared<PathGeometric>\(si_\)\);", "path_n = 0;", 0),
            (r"mpath\.size\(\)", "(int)mpath_n", 0), (r"path->append\(mpath\[i\]->state\);", "PATH_APPEND(mpath[i]);", 0), (r"base::PlannerSolution psol\(path\);", "", 0), (r"psol\.setPlannerName\(getName\(\)\);", "", 0),
            (r"psol\.setApproximate\((\w+)\);", r"{ sol_approx = true; sol_dif = \1; }", 0), (r"psol\.setOptimized\(opt_, (\w+)->cost, opt_->isSatisfied\((\w+)\)\);", r"SET_OPTIMIZED(M_cost[\1], OBJ_SATISFIED(\2));", 0),
            (r"pdef_->addSolutionPath\(psol\);", "adds++;", 0), (r"si_->freeState\(xstate\);", "frees++;", 0), (r"if \(rmotion->state\)\s*si_->freeState\(rmotion->state\);", "frees++;", 0), (r"delete rmotion;", "", 0),
            (r"return \{newSolution != nullptr, bestGoalMotion_ == nullptr\};", "{ PStatus r_ = {newSolution != NIL, bestGoalMotion_ == NIL}; return r_; }", 0), (r"\bnullptr\b", "NIL", 0)]
RR_UNIT = dict(name="c04_rrtstar_report", template="C04/rrtstar_report.c", mode="plain", entry="h_rrtstar_report", flags=["--bounds-check", "--pointer-check", "--signed-overflow-check"], unwind=8, level="bounded", bound="chains of <= 4 motions", backend="cadical", timeout=300,
               functions=["ompl::geometric::RRTstar::solve (reporting block)"],
               sources=[dict(name="rrtstar_report", file=RSF, begin=r"Motion \*newSolution = nullptr;\s*if \(bestGoalMotion_\)", end=r"return \{newSolution != nullptr, bestGoalMotion_ == nullptr\};", end_inclusive=True, rules=RR_RULES, loops={"allow_uncontracted": True}, wrap_braces=False)],
               canaries=[dict(name="cost_of_the_incumbent_for_an_approximate_path", where="body:rrtstar_report", rx=r"SET_OPTIMIZED\(M_cost\[newSolution\],", repl="SET_OPTIMIZED(bestCost_,")])
UNITS.append(RR_UNIT)

# BIT*'s incumbent update
BITF = "src/ompl/geometric/planners/informedtrees/src/BITstar.cpp"
BG_RULES = [
    (r"VertexConstPtr newBestGoal = curGoalVertex_;", "GoalRef newBestGoal = curGoalVertex_;", 0), (r"ompl::base::Cost newCost = bestCost_;", "double newCost = bestCost_;", 0),
    (r"for \(auto it = graphPtr_->goalVerticesBeginConst\(\); it != graphPtr_->goalVerticesEndConst\(\); \+\+it\)", "for (GoalRef it = 1; it <= NGOALS; ++it)", 0),
    (r"\(\*it\)->isInTree\(\)", "G_inTree[it]", 0), (r"static_cast<bool>\(newBestGoal\)", "(newBestGoal != NULLREF)", 0), (r"\(\*it\)->getId\(\) == newBestGoal->getId\(\)", "(it == newBestGoal)", 0),
    (r"costHelpPtr_->isCostEquivalentTo\(\(\*it\)->getCost\(\), newCost\)", "EQUIV(G_cost[it], newCost)", 0), (r"costHelpPtr_->isCostBetterThan\(\(\*it\)->getCost\(\), newCost\)", "BETTER(G_cost[it], newCost)", 0),
    (r"\(\*it\)->getDepth\(\)", "G_depth[it]", 0), (r"\(\*it\)->getCost\(\)", "G_cost[it]", 0), (r"newBestGoal->getDepth\(\)", "G_depth[newBestGoal]", 0), (r"curGoalVertex_->getCost\(\)", "G_cost[curGoalVertex_]", 0), (r"newBestGoal = \*it;", "newBestGoal = it;", 0), (r"newBestGoal->getCost\(\)", "G_cost[newBestGoal]", 0), (r"curGoalVertex_->getDepth\(\)", "G_depth[curGoalVertex_]", 0),
    (r"queuePtr_->registerSolutionCost\(bestCost_\);", "queue_registered = bestCost_;", 0), (r"graphPtr_->registerSolutionCost\(bestCost_\);", "graph_registered = bestCost_;", 0), (r"this->goalMessage\(\);", "", 0),
    (r"Planner::pdef_->getIntermediateSolutionCallback\(\)\(this, this->bestPathFromGoalToStart\(\), bestCost_\);", "CALLBACK(curGoalVertex_, bestCost_);", 0),
    (r"static_cast<bool>\(Planner::pdef_->getIntermediateSolutionCallback\(\)\)", "HAS_CALLBACK", 0),
]
UNITS.append(dict(name="c04_bitstar_updateGoalVertex", template="C04/bit_goal.c", mode="plain", entry="h_bit_updateGoalVertex", flags=["--bounds-check", "--pointer-check"], unwind=6, level="bounded", bound="<= 3 goal vertices",
                  backend="cadical", timeout=300, functions=["ompl::geometric::BITstar::updateGoalVertex"],
                  sources=[dict(name="updateGoalVertex", file=BITF, sig=r"void BITstar::updateGoalVertex\(\)", rules=BG_RULES, loops={"allow_uncontracted": True})],
                  canaries=[dict(name="cost_of_another_goal", where="body:updateGoalVertex", rx=r"newBestGoal = it;\s*newCost = G_cost\[newBestGoal\];\s*\}\s*\}\s*\}\s*else", repl="newCost = G_cost[it]; } } } else", count=1)]))

# EIT*'s approximate-solution record (unit of C03): the difference stored with an approximate solution is the state's cost-to-goal (C04: "among approximate ones
# the smaller goal difference first" is only meaningful if the recorded difference is the true one), its cost is the cost-to-come, never marked optimized
import copy as _copy, importlib.util as _ilu, os as _os
_s3 = _ilu.spec_from_file_location("c03", _os.path.join(_os.path.dirname(__file__), "C03.py")); _C03 = _ilu.module_from_spec(_s3); _s3.loader.exec_module(_C03)
for _u in _C03.UNITS:
    if _u["name"] == "c03_eitstar_updateApproximateSolution":
        _v = _copy.deepcopy(_u); _v["name"] = "c04_eitstar_updateApproximateSolution"; _v["needs"] = ["eit_approx"]; UNITS.append(_v)
# BIT*'s publication of the incumbent (unit of C01): the cost stored with the published solution is bestCost_, the objective flag is the objective's verdict for it
_v = _copy.deepcopy(_C03.C01.BP_UNIT); _v["name"] = "c04_bitstar_publishSolution"; UNITS.append(_v)
ASSUMPTIONS = [
    "solution fields are not NaN; the solutions compared carry the same objective (or all none)",
    "the objective's isCostBetterThan is the base '<' or MaximizeMinClearance's '>' (the two implementations in the tree); user-defined objectives must themselves be strict weak orders",
    "std::sort is modelled by an insertion sort over the extracted comparator (bounded unit c04_solution_set); mutex deleted (sequential semantics)",
    "PathGeometric::cost: objective callbacks return non-NaN costs; the vector of states is modelled as the identity sequence",
]
TRUSTED = ["extraction rewrite tables of units/C04.py (Cost wrapper erased: Cost(x) -> x, c.value() -> c)", "stubs and harness code in units/C04/*.c", "CBMC 6.11 (minisat/kissat; DFCC for the fold)"]
NOT_COVERED = [
    "stored cost >= true recomputed cost and true cost >= admissible lower bound for each optimizing planner (needs per-planner tree invariants: planner solve() bodies are not under contract)",
    "monotonicity of the best stored cost across solve() calls inside each planner",
    "setOptimized(...) call sites and incumbent updates of the optimizing planners other than AIT*, EIT*, PRM and BIT* (updateGoalVertex): RRT* beyond the rewiring block, RRTX, LazyPRM, STRRT*, FMT, ...: not verified",
    "MultiOptimizationObjective; in StateCostIntegralObjective::motionCost the trapezoid / state-cost / distance arithmetic is behind recording stubs (which states are combined is proved, the IEEE value is not)",
]

MISC_CPPS = ['src/ompl/base/src/ProblemDefinition.cpp', 'src/ompl/base/src/OptimizationObjective.cpp', 'src/ompl/base/objectives/src/MaximizeMinClearanceObjective.cpp', 'src/ompl/base/objectives/src/MinimaxObjective.cpp']
NATIVE = [
    dict(name="c04_native_search", driver="native/misc_native.cpp", link_ompl=True, unit_cpps=MISC_CPPS, args=lambda tier, seed: ["c04", seed, 3000 if tier == "quick" else 300000], timeout=900),
]


def replay(ur, scratch, seed):
    """Search the real classes for a failing input (native/misc_native.cpp, mode c04)."""
    from vf import native as N, cbmc as C
    exe = N.build_driver("native/misc_native.cpp", scratch, link_ompl=True, unit_cpps=MISC_CPPS)
    r = C.run_cmd([exe, "c04", str(seed), "75000"], 600, env=N.run_env())
    return dict(found=(r["rc"] == 1), driver="native/misc_native.cpp", args=["c04", seed, 75000], link_ompl=True, unit_cpps=MISC_CPPS, output=r["out"][-2500:])
