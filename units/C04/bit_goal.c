/* C04 -- BITstar::updateGoalVertex: the incumbent (curGoalVertex_, bestCost_, bestLength_) always describes ONE goal vertex of the tree:
 * the stored cost is that vertex's cost-to-come, the stored length its depth + 1, the cost registered with queue and graph and handed to the
 * intermediate-solution callback is the same cost, and afterwards no goal vertex in the tree is better than the incumbent.
 * Bounded: <= 3 goal vertices; costs are non-NaN doubles compared by the objective's own order (minimisation, bit-precise compares). */
#include <stdbool.h>
#include <stddef.h>
#define NG 3
#define NULLREF 0u
#define REACH(msg) __CPROVER_assert(0, "REACH " msg)
typedef unsigned GoalRef;
unsigned NGOALS; bool G_inTree[NG + 1]; double G_cost[NG + 1]; unsigned G_depth[NG + 1];
GoalRef curGoalVertex_; double bestCost_; unsigned bestLength_; bool hasExactSolution_, stopLoop_, stopOnSolutionChange_, HAS_CALLBACK;
double queue_registered, graph_registered, cb_cost; GoalRef cb_goal; unsigned cb_calls;
#define BETTER(a, b) ((a) < (b))
#define EQUIV(a, b) (!BETTER(a, b) && !BETTER(b, a))
static void CALLBACK(GoalRef g, double c) { cb_calls++; cb_goal = g; cb_cost = c; }
void bit_updateGoalVertex(void)
/*@BODY updateGoalVertex@*/
void h_bit_updateGoalVertex(void)
{
    __CPROVER_assume(NGOALS <= NG && curGoalVertex_ <= NGOALS && bestLength_ < 100000); cb_calls = 0;
    for (GoalRef g = 1; g <= NG; g++) __CPROVER_assume(G_cost[g] == G_cost[g] && G_cost[g] >= 0.0 && G_depth[g] < 100000);
    __CPROVER_assume(bestCost_ == bestCost_ && bestCost_ >= 0.0 && queue_registered == queue_registered && graph_registered == graph_registered);
    /* pre-state: with an incumbent, its vertex is in the tree (an incumbent is a goal that was reached); without one the cost is the worst possible */
    if (curGoalVertex_ != NULLREF) __CPROVER_assume(G_inTree[curGoalVertex_] && !BETTER(bestCost_, G_cost[curGoalVertex_]));   /* the cost-to-come of a tree vertex only improves after it was recorded */ else __CPROVER_assume(bestCost_ == __builtin_inf());
    GoalRef g0 = curGoalVertex_; double c0 = bestCost_; unsigned l0 = bestLength_; bool h0 = hasExactSolution_;
    double q0 = queue_registered, gr0 = graph_registered;
    bit_updateGoalVertex();
    bool changed = (curGoalVertex_ != g0) || bestCost_ != c0 || bestLength_ != l0;
    if (curGoalVertex_ != NULLREF && (changed || hasExactSolution_ != h0))
    {
        __CPROVER_assert(curGoalVertex_ <= NGOALS && G_inTree[curGoalVertex_], "C04.incumbent the incumbent is a goal vertex of the tree");
        __CPROVER_assert(bestCost_ == G_cost[curGoalVertex_], "C04.truthful the stored best cost is the cost of the goal vertex reported as the solution");
        __CPROVER_assert(bestLength_ == G_depth[curGoalVertex_] + 1u, "the stored length is that vertex's depth + 1");
        __CPROVER_assert(hasExactSolution_ && queue_registered == bestCost_ && graph_registered == bestCost_, "the same cost is registered with queue and graph");
        if (HAS_CALLBACK) __CPROVER_assert(cb_calls == 1 && cb_goal == curGoalVertex_ && cb_cost == bestCost_, "the intermediate-solution callback gets the incumbent's path and cost");
        REACH("incumbent changed");
    }
    else __CPROVER_assert(!changed && queue_registered == q0 && graph_registered == gr0 && cb_calls == 0, "without a change nothing is re-registered");
    for (GoalRef g = 1; g <= NG; g++) if (g <= NGOALS && G_inTree[g])
        __CPROVER_assert(curGoalVertex_ != NULLREF && !BETTER(G_cost[g], bestCost_), "C04.best no goal vertex in the tree is better than the incumbent");
    if (g0 != NULLREF && curGoalVertex_ != g0) REACH("switched to another goal");
    if (g0 == NULLREF && curGoalVertex_ != NULLREF) REACH("first solution");
}
