/* C04: incumbent / solution-registration blocks of optimizing planners (AIT*::updateExactSolution, EIT*::updateExactSolution,
 * PRM::maybeConstructSolution).  Goals / paths are addressed by index; COST[i] is the fixed, arbitrary non-NaN true cost (cost-to-come
 * of goal i = cost of the path getPathTo(i) returns).  Every registration goes through addSolutionPath(), whose PRECONDITION carries
 * the property: the cost stored with a solution is the true cost of the registered path, and the 'meets the objective' flag is exactly
 * isSatisfied(stored cost).  The callee contract is therefore a call-site obligation for EVERY registration (no ghost index needed). */
#include <stddef.h>
#include <stdbool.h>
#ifndef MAXG
#define MAXG 64
#endif
#define REACH(tag) __CPROVER_assert(0, "REACH " tag)
typedef struct { int path; bool has_opt; double cost; bool optimized; } Sol;
unsigned NGOALS; double COST[MAXG]; double THRESH, INFC; double solutionCost_; bool HAS; int n_reg; double last_reg_cost; int last_reg_path; unsigned G;
bool MAXIMIZE;
bool better(double a, double b) __CPROVER_requires(a == a && b == b) __CPROVER_assigns() __CPROVER_ensures(__CPROVER_return_value == (a < b));
bool isFiniteC(double c) __CPROVER_requires(c == c) __CPROVER_assigns() __CPROVER_ensures(__CPROVER_return_value == (c < INFC));
bool isSatisfiedC(double c) __CPROVER_requires(c == c) __CPROVER_assigns() __CPROVER_ensures(__CPROVER_return_value == (c < THRESH));
double COSTOF(unsigned g) __CPROVER_requires(g < NGOALS) __CPROVER_assigns() __CPROVER_ensures(__CPROVER_return_value == COST[g] && COST[g] == COST[g]);
bool hasExact(void) __CPROVER_requires(1) __CPROVER_assigns() __CPROVER_ensures(__CPROVER_return_value == HAS);
void addSolutionPath(const Sol *s)
__CPROVER_requires(s != NULL && n_reg < 1000000)
__CPROVER_requires(s->path >= 0 && (unsigned)s->path < NGOALS && s->has_opt)
__CPROVER_requires(s->cost == COST[s->path])                  /* C04.truth the stored cost is the true cost of the registered path */
__CPROVER_requires(s->optimized == (s->cost < THRESH))        /* C04.flag marked as meeting the objective exactly when the stored cost satisfies the threshold */
__CPROVER_assigns(HAS, n_reg, last_reg_cost, last_reg_path)
__CPROVER_ensures(HAS && n_reg == __CPROVER_old(n_reg) + 1 && last_reg_cost == s->cost && last_reg_path == s->path);
void callback(double c)
__CPROVER_requires(n_reg > 0 && c == last_reg_cost)           /* the intermediate-solution callback receives the cost just registered */
__CPROVER_assigns() __CPROVER_ensures(1);
bool HAS_CB;

void aitstar_updateExactSolution(void)
__CPROVER_requires(NGOALS <= MAXG && G < NGOALS && solutionCost_ == solutionCost_ && INFC == INFC && THRESH == THRESH && n_reg == 0 && COST[G] == COST[G])
__CPROVER_assigns(solutionCost_, HAS, n_reg, last_reg_cost, last_reg_path)
/* C04.mono with an exact solution registered, the incumbent cost only improves and ends no worse than any goal's cost */
__CPROVER_ensures(__CPROVER_old(HAS) ==> (solutionCost_ <= __CPROVER_old(solutionCost_) && solutionCost_ <= COST[G]))
/* the incumbent is the cost of the solution registered last, if any was registered */
__CPROVER_ensures(n_reg > 0 ==> (solutionCost_ == last_reg_cost && HAS))
__CPROVER_ensures(n_reg == 0 ==> solutionCost_ == __CPROVER_old(solutionCost_))
/*@BODY aitstar@*/
void eitstar_updateExactSolution(unsigned goal)
__CPROVER_requires(NGOALS <= MAXG && goal < NGOALS && solutionCost_ == solutionCost_ && THRESH == THRESH && n_reg == 0 && COST[goal] == COST[goal])
__CPROVER_assigns(solutionCost_, HAS, n_reg, last_reg_cost, last_reg_path)
__CPROVER_ensures(__CPROVER_old(HAS) ==> solutionCost_ <= __CPROVER_old(solutionCost_))
__CPROVER_ensures((COST[goal] < __CPROVER_old(solutionCost_) || !__CPROVER_old(HAS)) ? (n_reg == 1 && solutionCost_ == COST[goal] && last_reg_path == (int)goal) : (n_reg == 0 && solutionCost_ == __CPROVER_old(solutionCost_)))
/*@BODY eitstar@*/

void h_aitstar(void) { bool has0 = HAS; aitstar_updateExactSolution(); if (n_reg > 1) REACH("several registrations"); if (!has0 && n_reg > 0) REACH("re-registered after clear"); if (n_reg == 0) REACH("nothing better"); }
void h_eitstar(void) { unsigned g; eitstar_updateExactSolution(g); if (n_reg) REACH("registered"); else REACH("kept"); }
