/* C04: OptimizationObjective cost algebra (base class; MaximizeMinClearance override with -DMAXCLEAR; Minimax combine).
 * Cost is a wrapper around double: Cost(x) -> (x), c.value() -> c. */
#include <stdbool.h>
#include <stddef.h>
typedef double Cost;
Cost threshold_;
#define INF_D (__builtin_inf())
#define REACH(tag) __CPROVER_assert(0, "REACH " tag)
#ifdef MAXCLEAR
bool isCostBetterThan(Cost c1, Cost c2)
/*@BODY better_maxclear@*/
Cost infiniteCost(void)
/*@BODY infinite_maxclear@*/
Cost identityCost(void)
/*@BODY identity_maxclear@*/
#else
bool isCostBetterThan(Cost c1, Cost c2)
/*@BODY better@*/
Cost infiniteCost(void)
/*@BODY infinite@*/
Cost identityCost(void)
/*@BODY identity@*/
#endif
bool isSatisfied(Cost c)
/*@BODY isSatisfied@*/
bool isCostEquivalentTo(Cost c1, Cost c2)
/*@BODY equivalent@*/
bool isFinite(Cost cost)
/*@BODY isFinite@*/
Cost betterCost(Cost c1, Cost c2)
/*@BODY betterCost@*/
Cost combineCosts(Cost c1, Cost c2)
/*@BODY combine@*/
Cost minimax_combineCosts(Cost c1, Cost c2)
/*@BODY minimax_combine@*/

double nondet_double(void);
void harness(void)
{
    Cost a = nondet_double(), b = nondet_double(), c = nondet_double();
    __CPROVER_assume(a == a && b == b && c == c && threshold_ == threshold_);
    bool ab = isCostBetterThan(a, b), ba = isCostBetterThan(b, a), bc = isCostBetterThan(b, c), cb = isCostBetterThan(c, b), ac = isCostBetterThan(a, c), ca = isCostBetterThan(c, a);
    __CPROVER_assert(!isCostBetterThan(a, a) && !(ab && ba) && (!(ab && bc) || ac) && (!(!ab && !ba && !bc && !cb) || (!ac && !ca)), "C04.swo 'better than' is a strict weak order on costs");
    __CPROVER_assert(isCostEquivalentTo(a, b) == (!ab && !ba), "C04.equiv equivalent = neither is better");
    Cost m = betterCost(a, b);
    __CPROVER_assert((m == a || m == b) && !isCostBetterThan(a, m) && !isCostBetterThan(b, m), "C04.better betterCost returns one of its arguments and nothing is better than it");
    /* C04.flag: 'meets the objective' is exactly 'better than the threshold' */
    __CPROVER_assert(isSatisfied(a) == isCostBetterThan(a, threshold_), "C04.flag isSatisfied(c) == isCostBetterThan(c, threshold)");
    __CPROVER_assert(isFinite(a) == isCostBetterThan(a, infiniteCost()), "isFinite(c) == better than the infinite cost");
    __CPROVER_assert(!isCostBetterThan(infiniteCost(), a), "nothing is worse than the infinite cost");
#ifndef MAXCLEAR
    if (a - a == 0.0 && b - b == 0.0) __CPROVER_assert(combineCosts(a, b) == a + b, "additive objectives combine by addition");
    /* only improve: combining with a non-negative cost is never better (monotone accumulation, non-NaN) */
    if (b >= 0 && a - a == 0.0 && b - b == 0.0) __CPROVER_assert(!isCostBetterThan(combineCosts(a, b), a), "C04.mono accumulated cost never gets better by adding a non-negative motion cost");
#endif
    Cost w = minimax_combineCosts(a, b);
    __CPROVER_assert((w == a || w == b) && !isCostBetterThan(w, a) && !isCostBetterThan(w, b), "minimax combination is the worse of the two");
    if (ab) REACH("a better"); if (!ab && !ba) REACH("equivalent");
}
