/* C04: PlannerSolution::operator< -- strict weak order + the ranking stated in the property, for ALL
 * triples of solutions with non-NaN fields carrying the same objective (loop-free: complete proof). */
#include <stdbool.h>
#include <stddef.h>
typedef struct PS { int index_; double length_; bool approximate_; double difference_; bool optimized_; bool opt_; double cost_; } PS;
bool MAXIMIZE;   /* the objective's direction: arbitrary (path length minimises, clearance maximises) */
static bool isCostBetterThan(double c1, double c2) { return MAXIMIZE ? c1 > c2 : c1 < c2; }
#define REACH(tag) __CPROVER_assert(0, "REACH " tag)
bool ps_less(const PS *a, const PS *b)
/*@BODY less@*/

PS nondet_PS(void);
static PS any_ps(bool opt)
{
    PS s = nondet_PS();
    __CPROVER_assume(s.length_ == s.length_ && s.difference_ == s.difference_ && s.cost_ == s.cost_);
    s.opt_ = opt;
    return s;
}
void harness(void)
{
    bool opt; PS a = any_ps(opt), b = any_ps(opt), c = any_ps(opt);
    bool ab = ps_less(&a, &b), ba = ps_less(&b, &a), bc = ps_less(&b, &c), cb = ps_less(&c, &b), ac = ps_less(&a, &c), ca = ps_less(&c, &a);
    /* C04.swo */
    __CPROVER_assert(!ps_less(&a, &a), "C04.swo irreflexive");
    __CPROVER_assert(!(ab && ba), "C04.swo asymmetric");
    __CPROVER_assert(!(ab && bc) || ac, "C04.swo transitive");
    __CPROVER_assert(!(!ab && !ba && !bc && !cb) || (!ac && !ca), "C04.swo incomparability is transitive");
    /* C04.rank: exact before approximate */
    __CPROVER_assert(!(!a.approximate_ && b.approximate_) || (ab && !ba), "C04.rank exact before approximate");
    /* among approximate: smaller goal difference first */
    __CPROVER_assert(!(a.approximate_ && b.approximate_) || (ab == (a.difference_ < b.difference_)), "C04.rank approximate solutions ordered by smaller goal difference");
    /* among exact: objective-satisfying first */
    __CPROVER_assert(!(!a.approximate_ && !b.approximate_ && a.optimized_ && !b.optimized_) || (ab && !ba), "C04.rank objective-satisfying before non-satisfying");
    /* then better cost (objective set) or shorter length (none) */
    __CPROVER_assert(!(!a.approximate_ && !b.approximate_ && a.optimized_ == b.optimized_ && opt) || (ab == isCostBetterThan(a.cost_, b.cost_)), "C04.rank then better cost");
    __CPROVER_assert(!(!a.approximate_ && !b.approximate_ && a.optimized_ == b.optimized_ && !opt) || (ab == (a.length_ < b.length_)), "C04.rank then shorter length when no objective is set");
    if (ab && bc) REACH("chain"); if (!ab && !ba && a.cost_ != b.cost_) REACH("incomparable with different costs");
}
