/* C04: PathGeometric::cost -- the reported cost is the left fold of the objective's combineCosts over
 * initialCost(s0), motionCost(s_{i-1}, s_i), terminalCost(s_last).  Stub results are arbitrary doubles;
 * the fold is tracked by a ghost accumulator (FOLD) maintained by the combine stub itself, and the
 * ghost index G checks that motion G was folded exactly once, in order. */
#include <stdbool.h>
#include <stddef.h>
typedef double Cost;
size_t states__size;
size_t G; int motions_at_G; size_t next_motion; bool order_ok; bool init_done, term_done;
size_t LAST_FROM, LAST_TO; Cost LAST_MOTION_RES; bool last_is_motion;
Cost ACC;        /* ghost: value of the fold so far (the last combine result) */
bool chain_ok;   /* ghost: every combine's first argument was the previous fold value */
Cost nondet_cost(void);
Cost identityCost(void)
__CPROVER_requires(1) __CPROVER_assigns() __CPROVER_ensures(__CPROVER_return_value == 0.0);
Cost initialCost(size_t s)
__CPROVER_requires(s < states__size)
__CPROVER_assigns(init_done, ACC, order_ok)
__CPROVER_ensures(init_done && ACC == __CPROVER_return_value && __CPROVER_return_value == __CPROVER_return_value)
__CPROVER_ensures(order_ok == (__CPROVER_old(order_ok) && s == 0 && !__CPROVER_old(init_done)));
Cost terminalCost(size_t s)
__CPROVER_requires(s < states__size)
__CPROVER_assigns(term_done, order_ok, last_is_motion, LAST_MOTION_RES)
__CPROVER_ensures(term_done && !last_is_motion && LAST_MOTION_RES == __CPROVER_return_value && __CPROVER_return_value == __CPROVER_return_value)
__CPROVER_ensures(order_ok == (__CPROVER_old(order_ok) && s + 1 == states__size && !__CPROVER_old(term_done) && next_motion == states__size));
Cost motionCost(size_t a, size_t b)
__CPROVER_requires(a < states__size && b < states__size)
__CPROVER_assigns(motions_at_G, next_motion, order_ok, last_is_motion, LAST_MOTION_RES)
__CPROVER_ensures(__CPROVER_return_value == __CPROVER_return_value && last_is_motion && LAST_MOTION_RES == __CPROVER_return_value)
__CPROVER_ensures(order_ok == (__CPROVER_old(order_ok) && a + 1 == b && b == __CPROVER_old(next_motion)))
__CPROVER_ensures(next_motion == __CPROVER_old(next_motion) + 1)
__CPROVER_ensures(motions_at_G == __CPROVER_old(motions_at_G) + (b == G ? 1 : 0));
Cost combineCosts(Cost c1, Cost c2)
__CPROVER_requires(c1 == c1 && c2 == c2)
__CPROVER_assigns(ACC, chain_ok)
__CPROVER_ensures(chain_ok == (__CPROVER_old(chain_ok) && c1 == __CPROVER_old(ACC) && c2 == LAST_MOTION_RES))
__CPROVER_ensures(ACC == __CPROVER_return_value && __CPROVER_return_value == __CPROVER_return_value);
#define REACH(tag) __CPROVER_assert(0, "REACH " tag)

Cost path_cost(void)
__CPROVER_requires(states__size <= 1000000000ul && order_ok && chain_ok && !init_done && !term_done && motions_at_G == 0 && next_motion == 1 && G >= 1)
__CPROVER_assigns(init_done, term_done, ACC, order_ok, chain_ok, motions_at_G, next_motion, last_is_motion, LAST_MOTION_RES)
/* empty path: the identity cost */
__CPROVER_ensures(states__size == 0 ==> (__CPROVER_return_value == 0.0 && !init_done && !term_done))
/* C04.fold the reported cost is the fold: initial cost first, every motion (i-1,i) exactly once in order, terminal cost last,
 * each combine taking the previous accumulated value and the cost just computed */
__CPROVER_ensures(states__size > 0 ==> (init_done && term_done && order_ok && chain_ok && __CPROVER_return_value == ACC))
__CPROVER_ensures((states__size > 0 && G < states__size) ==> motions_at_G == 1)
__CPROVER_ensures(states__size > 0 ==> next_motion == states__size)
/*@BODY cost@*/

void harness(void)
{
    Cost c = path_cost();
    if (states__size == 0) REACH("empty"); if (states__size == 1) REACH("single state"); if (states__size > 5) REACH("long path");
}
