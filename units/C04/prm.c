/* C04: PRM::maybeConstructSolution -- over all (start, goal) pairs that are connected and admissible, the path handed back is the
 * cheapest one constructed, bestCost_ is never worse than it, and the early 'objective satisfied' exit returns a satisfying path.
 * Pairs are addressed by index; PC[s][g] is the fixed true cost of the path constructSolution(s,g) returns (0 = no path). */
#include <stddef.h>
#include <stdbool.h>
#ifndef MAXV
#define MAXV 8
#endif
#define REACH(tag) __CPROVER_assert(0, "REACH " tag)
unsigned NS_, NG_; bool SAME[MAXV][MAXV], PAIROK[MAXV][MAXV], HASPATH[MAXV][MAXV]; double PC[MAXV][MAXV]; double THRESH, INFC, bestCost_;
unsigned GS, GG;     /* ghost pair */
bool better(double a, double b) __CPROVER_requires(a == a && b == b) __CPROVER_assigns() __CPROVER_ensures(__CPROVER_return_value == (a < b));
bool isSatisfiedC(double c) __CPROVER_requires(c == c) __CPROVER_assigns() __CPROVER_ensures(__CPROVER_return_value == (c < THRESH));
double infiniteCost(void) __CPROVER_requires(1) __CPROVER_assigns() __CPROVER_ensures(__CPROVER_return_value == INFC);
bool sameComponent(unsigned s, unsigned g) __CPROVER_requires(s < NS_ && g < NG_) __CPROVER_assigns() __CPROVER_ensures(__CPROVER_return_value == SAME[s][g]);
bool isStartGoalPairValid(unsigned g, unsigned s) __CPROVER_requires(s < NS_ && g < NG_) __CPROVER_assigns() __CPROVER_ensures(__CPROVER_return_value == PAIROK[s][g]);
int constructSolution(unsigned s, unsigned g) __CPROVER_requires(s < NS_ && g < NG_) __CPROVER_assigns() __CPROVER_ensures(__CPROVER_return_value == (HASPATH[s][g] ? (int)(s * MAXV + g) + 1 : 0));
double pathCost(int p) __CPROVER_requires(p > 0 && p <= MAXV * MAXV) __CPROVER_assigns() __CPROVER_ensures(__CPROVER_return_value == PC[(p - 1) / MAXV][(p - 1) % MAXV] && __CPROVER_return_value == __CPROVER_return_value);
#define ELIG (SAME[GS][GG] && PAIROK[GS][GG] && HASPATH[GS][GG])
#define COSTP(p) (PC[((p) - 1) / MAXV][((p) - 1) % MAXV])
int SOL;
bool prm_maybeConstructSolution(int *solution)
__CPROVER_requires(NS_ <= MAXV && NG_ <= MAXV && GS < NS_ && GG < NG_ && solution == &SOL && SOL == 0 && bestCost_ == bestCost_ && INFC == INFC && THRESH == THRESH && PC[GS][GG] == PC[GS][GG] && THRESH <= INFC)
__CPROVER_assigns(SOL, bestCost_)
/* early exit: the path handed back satisfies the objective */
__CPROVER_ensures(__CPROVER_return_value ==> (SOL > 0 && SOL <= MAXV * MAXV && COSTP(SOL) < THRESH))
/* C04.best otherwise the path handed back is the cheapest among all admissible connected pairs (ghost pair), if any has a finite-cost path */
__CPROVER_ensures((!__CPROVER_return_value && ELIG && PC[GS][GG] < INFC) ==> (SOL > 0 && SOL <= MAXV * MAXV && COSTP(SOL) <= PC[GS][GG]))
/* C04.mono the stored best cost only improves and is never worse than any constructed path */
__CPROVER_ensures(bestCost_ <= __CPROVER_old(bestCost_) && ((!__CPROVER_return_value && ELIG) ==> bestCost_ <= PC[GS][GG]))
/*@BODY prm@*/
void h_prm(void) { bool r = prm_maybeConstructSolution(&SOL); if (r) REACH("objective satisfied"); if (!r && SOL > 0) REACH("best unsatisfying path"); if (!r && SOL == 0) REACH("no path"); }
