/* C01 / C04 -- the reporting block of RRTstar::solve: the reported path is the parent chain, root first, of the best goal motion if there is one, otherwise of the
 * motion closest to the goal; it is approximate exactly in the second case (with approxDist); the cost stored with the solution is THAT motion's cost and, for an
 * exact solution, the "meets the objective" flag is the objective's verdict for that same cost (bestCost_ is the best goal motion's cost: invariant of the search
 * loop, assumed here); the status says (solution added, approximate) accordingly.  Bounded: chains of <= 4 motions. */
#include <stdbool.h>
#include <stddef.h>
#define NM 6
#define NIL 0u
#define REACH(msg) __CPROVER_assert(0, "REACH " msg)
typedef unsigned MotionRef; typedef struct { bool solved, approximate; } PStatus;
MotionRef M_parent[NM]; double M_cost[NM]; MotionRef bestGoalMotion_; double bestCost_, approxDist; unsigned terminates;
MotionRef mpath[NM]; unsigned mpath_n; MotionRef path[NM]; unsigned path_n; unsigned adds; bool sol_approx; double sol_dif, sol_cost; bool sol_flag; double sat_arg; bool SAT_RET; unsigned frees;
static void MPATH_PUSH(MotionRef m) { __CPROVER_assert(mpath_n < NM, "model capacity"); mpath[mpath_n++] = m; }
static void PATH_APPEND(MotionRef m) { __CPROVER_assert(path_n < NM, "model capacity"); path[path_n++] = m; }
static bool OBJ_SATISFIED(double c) { sat_arg = c; return SAT_RET; }
static void SET_OPTIMIZED(double cost, bool flag) { sol_cost = cost; sol_flag = flag; }
PStatus rrtstar_report(MotionRef approxGoalMotion)
{
/*@BODY rrtstar_report@*/
}
void h_rrtstar_report(void)
{
    for (MotionRef m = 1; m < NM; m++) { M_parent[m] = m - 1; __CPROVER_assume(M_cost[m] == M_cost[m]); }
    MotionRef apx; __CPROVER_assume(bestGoalMotion_ <= 4 && apx <= 4 && approxDist == approxDist && bestCost_ == bestCost_);
    if (bestGoalMotion_ != NIL) __CPROVER_assume(bestCost_ == M_cost[bestGoalMotion_]);
    adds = 0; path_n = 0; mpath_n = 0; sol_approx = false; terminates = 0;
    PStatus st = rrtstar_report(apx);
    MotionRef chosen = bestGoalMotion_ != NIL ? bestGoalMotion_ : apx;
    __CPROVER_assert(adds == (chosen != NIL ? 1u : 0u) && !st.solved == !(chosen != NIL) && !st.approximate == !(bestGoalMotion_ == NIL), "C01.status a solution is added exactly when a motion exists; the status is approximate exactly without a goal motion");
    if (chosen != NIL)
    {
        __CPROVER_assert(path_n == chosen, "the path is the chain of the chosen motion"); for (unsigned k = 0; k < NM; k++) if (k < path_n) __CPROVER_assert(path[k] == k + 1, "C01.start the path runs from the root along parent links to the chosen motion");
        __CPROVER_assert(!sol_approx == !(bestGoalMotion_ == NIL) && (!sol_approx || sol_dif == approxDist), "C01.approx approximate exactly without a goal motion, with the recorded distance");
        __CPROVER_assert(sol_cost == M_cost[chosen], "C04.truthful the cost stored with the solution is the reported motion's cost");
        if (bestGoalMotion_ != NIL) { __CPROVER_assert(sat_arg == sol_cost && !sol_flag == !SAT_RET, "C04.flag an exact solution is flagged as meeting the objective exactly when the objective accepts its stored cost"); REACH("exact"); } else REACH("approximate");
    }
    else REACH("nothing");
}
