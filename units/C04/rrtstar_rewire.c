/* C04 (+C01): RRT*::solve, the rewiring step (region between 'bool checkForSolution = false;' and the goal test).
 * Motions are indices: neighbours 0..NB-1, the new motion NEWM = NB.  MC[a][b] is the fixed true cost of the motion a->b
 * (NOT symmetric unless symCost), combineCosts is addition (additive objectives).  Ghost neighbour G.
 * Obligation: a neighbour re-parented to the new motion stores exactly the true cost of the edge new->neighbour and the
 * cost-to-come through the new motion, and is re-parented only if that motion (in that direction) passed the motion check
 * (or the validity cache says so) and only if the new cost is better. */
#include <stddef.h>
#include <stdbool.h>
#ifndef MAXNB
#define MAXNB 4
#endif
#define REACH(tag) __CPROVER_assert(0, "REACH " tag)
#define NEWM (MAXNB)
size_t NB; double MC[MAXNB + 1][MAXNB + 1]; int PARENT[MAXNB + 1]; double INC[MAXNB + 1], COSTM[MAXNB + 1]; double incCosts[MAXNB]; int valid[MAXNB];
bool symCost, useKNearest_; double maxDistance_; size_t G; bool MVG; bool checkedG; int removedG, pushedG, updatedG;
double INC0, COST0; int PARENT0;
double motionCostIdx(size_t a, size_t b) __CPROVER_requires(a <= MAXNB && b <= MAXNB) __CPROVER_assigns() __CPROVER_ensures(__CPROVER_return_value == MC[a][b] && MC[a][b] == MC[a][b]);
double combine(double a, double b) __CPROVER_requires(1) __CPROVER_assigns() __CPROVER_ensures(__CPROVER_return_value == a + b);
bool better(double a, double b) __CPROVER_requires(1) __CPROVER_assigns() __CPROVER_ensures(__CPROVER_return_value == (a < b));
double distanceIdx(size_t a, size_t b) __CPROVER_requires(1) __CPROVER_assigns() __CPROVER_ensures(1);
bool checkMotionIdx(size_t a, size_t b)
__CPROVER_requires(a == NEWM && b < NB)      /* the motion that is about to become an edge, in its direction of travel (new -> neighbour) */
__CPROVER_assigns(checkedG) __CPROVER_ensures(b == G ? (checkedG && __CPROVER_return_value == MVG) : checkedG == __CPROVER_old(checkedG));
void removeFromParent(size_t m) __CPROVER_requires(m < NB && removedG < 10) __CPROVER_assigns(removedG) __CPROVER_ensures(removedG == __CPROVER_old(removedG) + (m == G ? 1 : 0));
void pushChild(size_t parent, size_t child) __CPROVER_requires(child < NB && pushedG < 10 && parent == NEWM) __CPROVER_assigns(pushedG) __CPROVER_ensures(pushedG == __CPROVER_old(pushedG) + (child == G ? 1 : 0));
void updateChildCosts(size_t m) __CPROVER_requires(m < NB && updatedG < 10) __CPROVER_assigns(updatedG) __CPROVER_ensures(updatedG == __CPROVER_old(updatedG) + (m == G ? 1 : 0));

bool rrtstar_rewire(void)
__CPROVER_requires(NB <= MAXNB && G < NB && !checkedG && removedG == 0 && pushedG == 0 && updatedG == 0)
__CPROVER_requires(INC0 == INC[G] && COST0 == COSTM[G] && PARENT0 == PARENT[G] && INC0 == INC0 && COST0 == COST0 && COSTM[NEWM] == COSTM[NEWM])
__CPROVER_requires(PARENT0 != NEWM)       /* the new motion has no children yet */
__CPROVER_requires(PARENT[NEWM] >= 0 && PARENT[NEWM] < (int)NB && (valid[G] == 0 || valid[G] == 1 || valid[G] == -1))
__CPROVER_requires(symCost ==> (incCosts[G] == MC[G][NEWM] && MC[G][NEWM] == MC[NEWM][G]))    /* the cache filled by the parent-selection phase */
__CPROVER_assigns(__CPROVER_object_whole(PARENT), __CPROVER_object_whole(INC), __CPROVER_object_whole(COSTM), checkedG, removedG, pushedG, updatedG)
/* C04.truth a re-parented neighbour stores the true cost of its new edge (new -> neighbour) and the cost-to-come through the new motion */
__CPROVER_ensures((PARENT[G] == NEWM && PARENT0 != NEWM) ==> (INC[G] == MC[NEWM][G] && COSTM[G] == COSTM[NEWM] + MC[NEWM][G]))
/* C04.mono re-parenting only improves the neighbour's stored cost */
__CPROVER_ensures((PARENT[G] == NEWM && PARENT0 != NEWM) ==> COSTM[G] < COST0)
/* C01.edge the new edge was validated (motion check new -> neighbour passed now, or the validity cache recorded it) */
__CPROVER_ensures((PARENT[G] == NEWM && PARENT0 != NEWM) ==> ((checkedG && MVG) || valid[G] == 1))
/* bookkeeping: removed from the old parent's child list, added to the new one, descendants' costs updated -- exactly when re-parented */
__CPROVER_ensures((PARENT[G] == NEWM && PARENT0 != NEWM) ? (removedG == 1 && pushedG == 1 && updatedG == 1) : (removedG == 0 && pushedG == 0 && updatedG == 0 && PARENT[G] == PARENT0 && INC[G] == INC0 && COSTM[G] == COST0))
/*@BODY rewire@*/
void h_rewire(void) { bool r = rrtstar_rewire(); if (PARENT[G] == NEWM && PARENT0 != NEWM) REACH("rewired"); else REACH("kept"); if (!symCost && PARENT[G] == NEWM && PARENT0 != NEWM) REACH("rewired, asymmetric cost"); }
