/* C04 -- StateCostIntegralObjective::motionCost: the cost of a motion is the trapezoid sum of the state cost along it: with nd = validSegmentCount(s1, s2)
 * there are max(nd, 1) trapezoids, the k-th between the states at parameters (k-1)/nd and k/nd (the last one ending in s2 itself), each taken with the
 * state costs of ITS two end states and the distance between THEM, added up in order starting from the identity cost; without interpolation it is the single
 * trapezoid between s1 and s2.  Both scratch states are released.  States carry the ghost index of the parameter they were interpolated at; stateCost,
 * distance and trapezoid record their arguments (their arithmetic is trusted).  Bounded: nd <= 4. */
#include <stdbool.h>
#include <stddef.h>
#define NS 8
#define KMAX 5
#define REACH(msg) __CPROVER_assert(0, "REACH " msg)
typedef int SRef;
bool nondet_bool(void); double nondet_double(void);
int ND; bool interpolateMotionCost_;
int S_idx[NS]; bool S_alive[NS]; int s_next;          /* 0 = s1, 1 = s2, scratch states from 2 */
double SCOST[KMAX + 1]; double DISTV[KMAX + 1]; double TRV[KMAX + 1]; double ACC[KMAX + 1];
unsigned traps; int tr_a[KMAX + 1], tr_b[KMAX + 1], tr_d[KMAX + 1]; unsigned adds; bool chain_ok; int last_sc_idx, last_d_idx;
static int IDX(SRef s) { return S_idx[s]; }
static SRef CLONE(SRef s) { __CPROVER_assert(s_next < NS, "model capacity"); SRef n = s_next++; S_alive[n] = true; S_idx[n] = S_idx[s]; return n; }
static SRef ALLOC(void) { __CPROVER_assert(s_next < NS, "model capacity"); SRef n = s_next++; S_alive[n] = true; S_idx[n] = -7; return n; }
static void FREE(SRef s) { __CPROVER_assert(s >= 2 && s < NS && S_alive[s], "C04.mem a scratch state is freed once"); S_alive[s] = false; }
static void INTERP(int j, int nd, SRef out) { __CPROVER_assert(out >= 2 && S_alive[out] && nd == ND && j >= 1 && j < nd, "interpolation at an interior parameter into a live scratch state"); S_idx[out] = j; }
/* state costs and distances are looked up by ghost index; encoded as index-carrying tokens: cost token = 100 + idx, distance token = 200 + lower idx (only between neighbours) */
static double SC(SRef s) { __CPROVER_assert(s >= 0 && s < NS && (s < 2 || S_alive[s]), "state cost of a live state"); int i = IDX(s); return 100.0 + (double)i; }
static double DISTS(SRef a, SRef b) { int i = IDX(a), j = IDX(b); return (j == i + 1 && i >= 0) ? 200.0 + (double)i : -1.0; }
static double TRAP(double c1, double c2, double d)
{
    __CPROVER_assert(traps <= KMAX, "model capacity"); unsigned k = traps++;
    tr_a[k] = (int)(c1 - 100.0); tr_b[k] = (int)(c2 - 100.0); tr_d[k] = (d >= 200.0) ? (int)(d - 200.0) : -1;
    return 1000.0 + (double)k;          /* token of the k-th trapezoid */
}
static double IDENT(void) { return 0.0; }
static double ADD(double acc, double t)
{   /* running sum: the k-th addition must add the k-th trapezoid to the result of the previous addition (token 5000 + k) */
    unsigned k = adds++; if (!(t == 1000.0 + (double)k && acc == (k == 0 ? 0.0 : 5000.0 + (double)(k - 1)))) chain_ok = false; return 5000.0 + (double)k;
}
#define SWAPS(a, b) do { SRef t_ = (a); (a) = (b); (b) = t_; } while (0)
double sci_motionCost(SRef s1, SRef s2)
/*@BODY sci_motionCost@*/
void h_sci_motionCost(void)
{
    __CPROVER_assume(ND >= 0 && ND <= 4); int last = ND >= 1 ? ND : 1;
    for (int k = 0; k < NS; k++) S_alive[k] = false; S_idx[0] = 0; S_idx[1] = last; s_next = 2; traps = 0; adds = 0; chain_ok = true;
    double r = sci_motionCost(0, 1);
    if (!interpolateMotionCost_) { __CPROVER_assert(traps == 1 && tr_a[0] == 0 && tr_b[0] == last && r == 1000.0, "without interpolation: the single trapezoid between the two end states"); REACH("not interpolated"); }
    else
    {
        __CPROVER_assert(traps == (unsigned)last && adds == traps && chain_ok && r == 5000.0 + (double)(traps - 1), "C04.truthful one trapezoid per segment, added up in order from the identity cost");
        for (int k = 0; k < KMAX; k++) if (k < last)
            __CPROVER_assert(tr_a[k] == k && tr_b[k] == k + 1 && tr_d[k] == k, "C04.truthful the k-th trapezoid uses the state costs of the k-th segment's own end states and the distance between them");
        if (ND == 4) REACH("four segments"); if (ND == 0) REACH("zero segments");
    }
    for (int k = 2; k < NS; k++) __CPROVER_assert(!S_alive[k], "C04.mem both scratch states are released");
}
