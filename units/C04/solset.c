/* C04: ProblemDefinition::PlannerSolutionSet -- add / isApproximate / isOptimized / getDifference / getTopSolution,
 * with the real operator< (extracted) as comparator.  std::sort is modelled by an insertion sort over the
 * same comparator (trusted helper): bounded, <= NS solutions, all field values. */
#include <stdbool.h>
#include <stddef.h>
#ifndef NS
#define NS 4
#endif
/* the comparator only compares: rank keys (8-bit) are order-isomorphic to any finite set of non-NaN doubles */
typedef signed char Rank;
typedef struct PS { int index_; Rank length_; bool approximate_; Rank difference_; bool optimized_; bool opt_; Rank cost_; int path_; } PS;
bool MAXIMIZE;
static bool isCostBetterThan(Rank c1, Rank c2) { return MAXIMIZE ? c1 > c2 : c1 < c2; }
PS solutions_[NS + 1]; size_t solutions__size;
#define REACH(tag) __CPROVER_assert(0, "REACH " tag)
bool ps_less(const PS *a, const PS *b)
/*@BODY less@*/
static void SORT_SOLUTIONS(void)
{
    for (size_t i = 1; i < NS + 1; i++) if (i < solutions__size)
    {
        PS key = solutions_[i]; size_t j = i;
        for (size_t t = 0; t < NS + 1; t++) if (j > 0 && ps_less(&key, &solutions_[j - 1])) { solutions_[j] = solutions_[j - 1]; j--; }
        solutions_[j] = key;
    }
}
#define VEC_PUSH_PS(s) do { __CPROVER_assert(solutions__size < NS + 1, "capacity"); solutions_[solutions__size++] = *(s); } while (0)
void set_add(const PS *s)
/*@BODY add@*/
bool set_isApproximate(void)
/*@BODY isApproximate@*/
bool set_isOptimized(void)
/*@BODY isOptimized@*/
double set_getDifference(void)
/*@BODY getDifference@*/
int set_getTopSolution(void)
/*@BODY getTopSolution@*/

PS nondet_PS(void); size_t nondet_size(void);
void harness(void)
{
    bool opt; size_t n = nondet_size(); __CPROVER_assume(n <= NS);
    solutions__size = 0;
    /* history: n+... solutions added one by one through the real add() */
    for (size_t i = 0; i < NS; i++) if (i < n)
    {
        PS s = nondet_PS(); __CPROVER_assume(s.path_ > 0); s.opt_ = opt;
        set_add(&s);
    }
    __CPROVER_assert(solutions__size == n, "every added solution is stored");
    size_t g = nondet_size();
    if (n > 0)
    {
        __CPROVER_assume(g < n);
        /* C04.best: the problem definition hands out the best solution first */
        __CPROVER_assert(!ps_less(&solutions_[g], &solutions_[0]), "C04.best no stored solution ranks before the one handed out first");
        __CPROVER_assert(set_getTopSolution() == solutions_[0].path_ && set_isApproximate() == solutions_[0].approximate_ && set_isOptimized() == solutions_[0].optimized_ && set_getDifference() == solutions_[0].difference_, "C04.best reported flags are those of the best-ranked solution");
        /* consequences spelled out from the property text */
        __CPROVER_assert(!(set_isApproximate() && !solutions_[g].approximate_), "C04.rank an exact solution is never hidden behind an approximate one");
        __CPROVER_assert(!(!solutions_[0].approximate_ && !solutions_[g].approximate_ && !solutions_[0].optimized_ && solutions_[g].optimized_), "C04.rank objective-satisfying exact solutions come first");
        bool seen = 0; for (size_t i = 0; i < NS + 1; i++) if (i < n && solutions_[i].index_ == (int)g) seen = 1;
        __CPROVER_assert(seen, "index_ records the insertion order of every solution");
    }
    else __CPROVER_assert(set_getTopSolution() == 0 && !set_isApproximate() && !set_isOptimized() && set_getDifference() == -1.0, "empty set: no solution, not approximate, difference -1");
    if (n == NS && solutions_[0].index_ == NS - 1) REACH("last added is best"); if (n == 0) REACH("empty");
}
