/* Small delegating functions the cost / goal claims rest on:
 * GoalState::distanceGoal(st) = si->distance(st, goal state) and GoalState::sampleGoal copies the goal state INTO the argument;
 * PathLengthOptimizationObjective: motionCost(s1, s2) = Cost(si->distance(s1, s2)), the heuristic and the best estimate are that same cost (so they
 * can never exceed the true motion cost), stateCost is the identity cost. */
#include <stdbool.h>
#include <stddef.h>
#define REACH(msg) __CPROVER_assert(0, "REACH " msg)
typedef struct { int id; } State;
const State *d_a, *d_b; unsigned d_calls; double D_RET; const State *state_; State *cp_dst; const State *cp_src; unsigned cp_calls;
static double SI_DISTANCE(const State *a, const State *b) { d_calls++; d_a = a; d_b = b; return D_RET; }
static void SI_COPY(State *dst, const State *src) { cp_calls++; cp_dst = dst; cp_src = src; }
#define COST(x) (x)
#define IDENTITY_COST() 0.0
double gs_distanceGoal(const State *st)
/*@BODY gs_distanceGoal@*/
void gs_sampleGoal(State *st)
/*@BODY gs_sampleGoal@*/
double pl_stateCost(const State *s_unused)
/*@BODY pl_stateCost@*/
double pl_motionCost(const State *s1, const State *s2)
/*@BODY pl_motionCost@*/
double pl_motionCostHeuristic(const State *s1, const State *s2)
/*@BODY pl_motionCostHeuristic@*/
double pl_motionCostBestEstimate(const State *s1, const State *s2)
/*@BODY pl_motionCostBestEstimate@*/
void h_goalstate(void)
{
    State g, s; state_ = &g; d_calls = 0; cp_calls = 0; __CPROVER_assume(D_RET == D_RET);
    double d = gs_distanceGoal(&s);
    __CPROVER_assert(d_calls == 1 && d == D_RET && ((d_a == &s && d_b == &g) || (d_a == &g && d_b == &s)), "C01.goal the goal distance of a state is its distance to the goal state");
    gs_sampleGoal(&s);
    __CPROVER_assert(cp_calls == 1 && cp_dst == &s && cp_src == &g, "sampleGoal copies the goal state into the argument (not the other way round)");
    REACH("goal state");
}
void h_pathlength(void)
{
    State a, b; __CPROVER_assume(D_RET == D_RET && D_RET >= 0.0);
    d_calls = 0; double c = pl_motionCost(&a, &b); __CPROVER_assert(d_calls == 1 && c == D_RET && d_a == &a && d_b == &b, "C04.truthful the path-length cost of a motion is the distance between its end states");
    d_calls = 0; double h = pl_motionCostHeuristic(&a, &b); __CPROVER_assert(d_calls == 1 && h == D_RET && d_a == &a && d_b == &b, "C04.admissible the motion-cost heuristic is the motion cost itself (never more)");
    d_calls = 0; double e = pl_motionCostBestEstimate(&a, &b); __CPROVER_assert(d_calls == 1 && e == D_RET && d_a == &a && d_b == &b, "the best estimate is the motion cost itself");
    __CPROVER_assert(pl_stateCost(&a) == 0.0, "states cost nothing under path length");
    REACH("path length");
}
