"""C05 -- a motion is valid exactly when every resolution step along it is valid."""
PROPERTY = "C05"
LEVEL = "proof"

DMV = "src/ompl/base/src/DiscreteMotionValidator.cpp"
MV_RULES = [
    (r"stateSpace_->validSegmentCount\(", "validSegmentCount(", 1),
    (r"stateSpace_->interpolate\(", "interpolate(", 1),
    (r"si_->isValid\(", "isValid(", 1),
    (r"si_->allocState\(\)", "allocState()", 1),
    (r"si_->freeState\(", "freeState(", 1),
    (r"\(double\)\s*(\((?:[^()]|\([^()]*\))*\)|\w+)\s*/\s*\(double\)\s*(\w+)", r"FDIV(\1, \2)", 1),
    (r"\blastValid\.", "lastValid->", 0),
]

UNITS = [
    dict(
        name="c05_checkMotion_lastvalid",
        template="C05/checkMotion_lv.c",
        functions=["ompl::base::DiscreteMotionValidator::checkMotion(const State*, const State*, std::pair<State*,double>&)"],
        sources=[dict(
            name="checkMotion_lv", file=DMV,
            sig=r"bool\s+ompl::base::DiscreteMotionValidator::checkMotion\s*\(\s*const State \*s1,\s*const State \*s2,\s*std::pair<State \*, double> &lastValid\)\s*const",
            rules=MV_RULES,
            loops={1: """
__CPROVER_assigns(j, result, checked_G, checks_at_G, any_invalid, last_invalid_idx, frac_num, frac_den, frac_val, lastValid->second, *test; lastValid->first != NULL: *(lastValid->first))
__CPROVER_loop_invariant(1 <= j && j <= nd && nd == ND && result && !any_invalid && live_tmp == 1 && tmp_ptr == test)
__CPROVER_loop_invariant((G < j) ==> (checked_G && VG && checks_at_G == 1))
__CPROVER_loop_invariant((G >= j) ==> (!checked_G && checks_at_G == 0))
__CPROVER_loop_invariant(lastValid->second == old_second && lastValid->first == old_first)
__CPROVER_loop_invariant(old_first != NULL ==> (lastValid->first->num == old_first_val.num && lastValid->first->den == old_first_val.den))
__CPROVER_decreases(nd - j)
"""})],
        enforce=["checkMotion_lv"],
        replace=["validSegmentCount", "interpolate", "isValid", "allocState", "freeState", "FDIV"],
        backend="minisat", timeout=600,
        confirm=dict(unwind=7, defines={"ND_MAX": 5}),
        canaries=[
            dict(name="loop_stops_early", where="body:checkMotion_lv", rx=r"j < nd;", repl="j < nd - 1;"),
            dict(name="wrong_fraction", where="body:checkMotion_lv", rx=r"FDIV\(\(j - 1\), nd\)", repl="FDIV(j, nd)"),
            dict(name="counter_swapped", where="body:checkMotion_lv", rx=r"valid_\+\+;\s*else\s*invalid_\+\+;", repl="invalid_++; else valid_++;"),
        ],
    ),
]

ASSUMPTIONS = [
    "s1 is valid (documented precondition of checkMotion); validity checker and interpolate are deterministic user callbacks",
    "0 <= validSegmentCount <= 1e9 (so that int arithmetic on indices cannot overflow)",
    "FDIV(a,b) = (double)a/(double)b is modelled by IEEE facts only: in [0,1) for 0<=a<b, ==0 for a==0, ==1 for a==b, not NaN for b!=0",
    "valid_/invalid_ counters below 4e9 (no unsigned wrap-around)",
]
TRUSTED = [
    "extraction rewrite table of units/C05.py (regex rules, must-fire counts)",
    "stub contracts in units/C05/prelude.h: validSegmentCount, interpolate, isValid, allocState, freeState, FDIV",
    "CBMC 6.11 goto-instrument DFCC + kissat",
]
NOT_COVERED = []
