"""C05 -- a motion is valid exactly when every resolution step along it is valid."""
import copy
PROPERTY = "C05"
LEVEL = "proof"

DMV = "src/ompl/base/src/DiscreteMotionValidator.cpp"
MV_RULES = [
    (r"stateSpace_->validSegmentCount\(", "validSegmentCount(", 0),
    (r"stateSpace_->interpolate\(", "interpolate(", 0),
    (r"si_->isValid\(", "isValid(", 0),
    (r"si_->allocState\(\)", "allocState()", 0),
    (r"si_->freeState\(", "freeState(", 0),
    (r"\(double\)\s*(\((?:[^()]|\([^()]*\))*\)|\w+)\s*/\s*\(double\)\s*(\w+)", r"FDIV(\1, \2)", 0),
    (r"\blastValid\.", "lastValid->", 0),
]

UNITS = [
    dict(
        name="c05_checkMotion_lastvalid",
        template="C05/checkMotion_lv.c",
        functions=["ompl::base::DiscreteMotionValidator::checkMotion(const State*, const State*, std::pair<State*,double>&)"],
        sources=[dict(
            name="checkMotion_lv", file=DMV,
            sig=r"bool\s+ompl::base::DiscreteMotionValidator::checkMotion\s*\(\s*const State \*s1,\s*const State \*s2,\s*std::pair<State \*, double> &lastValid\)\s*const",
            rules=MV_RULES,
            loops={1: """
__CPROVER_assigns(j, result, checked_G, checks_at_G, any_invalid, last_invalid_idx, frac_num, frac_den, frac_val, lastValid->second, *test; lastValid->first != NULL: *(lastValid->first))
__CPROVER_loop_invariant(1 <= j && j <= nd && nd == ND && result && !any_invalid && live_tmp == 1 && tmp_ptr == test)
__CPROVER_loop_invariant((G < j) ==> (checked_G && VG && checks_at_G == 1))
__CPROVER_loop_invariant((G >= j) ==> (!checked_G && checks_at_G == 0))
__CPROVER_loop_invariant(lastValid->second == old_second && lastValid->first == old_first)
__CPROVER_loop_invariant(old_first != NULL ==> (lastValid->first->num == old_first_val.num && lastValid->first->den == old_first_val.den))
__CPROVER_decreases(nd - j)
"""})],
        enforce=["checkMotion_lv"],
        replace=["validSegmentCount", "interpolate", "isValid", "allocState", "freeState", "FDIV"],
        backend="minisat", timeout=600,
        confirm=dict(unwind=7, defines={"ND_MAX": 5}),
        canaries=[
            dict(name="loop_stops_early", where="body:checkMotion_lv", rx=r"j < nd;", repl="j < nd - 1;"),
            dict(name="wrong_fraction", where="body:checkMotion_lv", rx=r"FDIV\(\(j - 1\), nd\)", repl="FDIV(j, nd)"),
            dict(name="counter_swapped", where="body:checkMotion_lv", rx=r"valid_\+\+;\s*else\s*invalid_\+\+;", repl="invalid_++; else valid_++;"),
        ],
    ),
]

BISECT_RULES = MV_RULES + [
    (r"std::queue<std::pair<int, int>> pos;", "", 0),
    (r"\bpos\.emplace\(", "pos_emplace(", 0),
    (r"\bpos\.empty\(\)", "pos_empty()", 0),
    (r"\bpos\.front\(\)", "pos_front()", 0),
    (r"\bpos\.pop\(\)", "pos_pop()", 0),
    (r"std::pair<int, int> x", "pair_int_int x", 0),
]
BISECT_LOOP = """
__CPROVER_assigns(result, checked_G, checks_at_G, any_invalid, last_invalid_idx, frac_num, frac_den, frac_val, Q_n, Q_cov, Q_wf, Q_len, Q_front_covers, Q_front_val, *test)
__CPROVER_loop_invariant(result && !any_invalid && nd == ND && Q_wf && 0 <= Q_cov && Q_cov <= Q_n && Q_n <= Q_len && Q_len <= ND - 1 && live_tmp == 1 && tmp_ptr == test)
__CPROVER_loop_invariant(G == IDX_S2 || ((checked_G && VG && checks_at_G == 1 && Q_cov == 0) || (!checked_G && checks_at_G == 0 && Q_cov == 1)))
__CPROVER_loop_invariant(G == IDX_S2 ==> (checked_G && VG && checks_at_G == 1 && Q_cov == 0))
__CPROVER_decreases(Q_len)
"""
UNITS.append(dict(
    name="c05_checkMotion_bisection",
    template="C05/checkMotion_bisect.c",
    functions=["ompl::base::DiscreteMotionValidator::checkMotion(const State*, const State*)"],
    sources=[dict(
        name="checkMotion", file=DMV,
        sig=r"bool\s+ompl::base::DiscreteMotionValidator::checkMotion\s*\(\s*const State \*s1,\s*const State \*s2\)\s*const",
        rules=BISECT_RULES, loops={1: BISECT_LOOP})],
    enforce=["checkMotion"],
    replace=["validSegmentCount", "interpolate", "isValid", "allocState", "freeState", "FDIV", "pos_empty", "pos_emplace", "pos_front", "pos_pop"],
    backend="cadical", timeout=900,
    tiers=dict(quick=dict(defines={"ND_MAX": 1048576})),
    confirm=dict(unwind=9, defines={"ND_MAX": 8}),
    canaries=[
        dict(name="skips_left_half_end", where="body:checkMotion", rx=r"x\.first < mid\)", repl="x.first < mid - 1)"),
        dict(name="s2_not_counted", where="body:checkMotion", rx=r"invalid_\+\+;\s*return false;", repl="return false;", count=1),
    ],
))

# ---- Dubins / Reeds-Shepp / Dubins3D validators: same loop shapes, cached-curve interpolate ----
def _curve_rules(base):
    return [
        # interpolate(s1, s2, t, firstTime, path, out) -> interpolate(s1, s2, t, out): the cached curve is an
        # optimisation of interpolate(s1,s2,t,out) (abstraction, stated in evidence)
        (r"stateSpace_->interpolate\(s1, s2, ([^,;]+), firstTime, path, ", r"stateSpace_->interpolate(s1, s2, \1, ", 0),
        (r"(?:DubinsStateSpace::DubinsPath|ReedsSheppStateSpace::ReedsSheppPath) path;", "", 0),
    ] + base

def _d3_rules(base):
    return [
        (r"stateSpace_->interpolate\(s1, s2, ([^,;]+), \*path, ", r"stateSpace_->interpolate(s1, s2, \1, ", 0),
        (r"auto path = stateSpace_->getPath\(s1, s2\);", "bool path = getPath(s1, s2);", 0),
    ] + base

CURVES = [
    ("dubins", "src/ompl/base/spaces/src/DubinsStateSpace.cpp", r"bool\s+DubinsMotionValidator::checkMotion", _curve_rules, {}, "ompl::base::DubinsMotionValidator"),
    ("reedsshepp", "src/ompl/base/spaces/src/ReedsSheppStateSpace.cpp", r"bool\s+ompl::base::ReedsSheppMotionValidator::checkMotion", _curve_rules, {}, "ompl::base::ReedsSheppMotionValidator"),
    ("dubins3d", "src/ompl/base/spaces/Dubins3DMotionValidator.h", r"bool\s+checkMotion", _d3_rules, {"WITH_PATH": 1}, "ompl::base::Dubins3DMotionValidator"),
]
for cname, cfile, csig, crules, cdef, cls in CURVES:
    lv = copy.deepcopy(UNITS[0])
    lv["name"] = "c05_%s_checkMotion_lastvalid" % cname
    lv["functions"] = [cls + "::checkMotion(s1, s2, lastValid)"]
    lv["sources"][0].update(file=cfile, rules=crules(MV_RULES),
                            sig=csig + r"\s*\(\s*const State \*s1,\s*const State \*s2,\s*std::pair<State \*, double> &lastValid\)\s*const")
    lv["defines"] = dict(cdef)
    lv["replace"] = lv["replace"] + ["getPath"]
    lv["canaries"] = lv["canaries"][:1]
    UNITS.append(lv)
    bi = copy.deepcopy(UNITS[1])
    bi["name"] = "c05_%s_checkMotion_bisection" % cname
    bi["functions"] = [cls + "::checkMotion(s1, s2)"]
    bi["sources"][0].update(file=cfile, rules=crules(BISECT_RULES),
                            sig=csig + r"\s*\(\s*const State \*s1,\s*const State \*s2\)\s*const")
    bi["defines"] = dict(cdef)
    bi["replace"] = bi["replace"] + ["getPath"]
    bi["canaries"] = bi["canaries"][1:]
    bi["tiers"] = dict(quick=dict(defines={"ND_MAX": 1048576}))
    UNITS.append(bi)

SI = "src/ompl/base/src/SpaceInformation.cpp"
SI_RULES = [
    (r"assert\(states\.size\(\) >= count\);", "__CPROVER_assert(states_size >= count, \"states.size() >= count\");", 0),
    (r"isValid\(states\.front\(\)\)", "isValidIdx(0)", 0),
    (r"isValid\(states\[([^\]]+)\]\)", r"isValidIdx(\1)", 0),
    (r"\bfirstInvalidStateIndex\b", "(*firstInvalidStateIndex)", 0),
]
UNITS.append(dict(
    name="c05_si_checkMotion_firstInvalid",
    template="C05/si_checkMotion_idx.c",
    functions=["ompl::base::SpaceInformation::checkMotion(const std::vector<State*>&, unsigned, unsigned&)"],
    sources=[dict(name="si_checkMotion_idx", file=SI,
                  sig=r"bool\s+ompl::base::SpaceInformation::checkMotion\s*\(const std::vector<State \*> &states, unsigned int count,\s*unsigned int &firstInvalidStateIndex\)\s*const",
                  rules=SI_RULES,
                  loops={1: """
__CPROVER_assigns(i, checked_G, any_invalid, checks_at_G, last_invalid_idx)
__CPROVER_loop_invariant(i <= count && !any_invalid && *firstInvalidStateIndex == old_idx)
__CPROVER_loop_invariant(((unsigned)G < i) ==> (checked_G && VG && checks_at_G == 1))
__CPROVER_loop_invariant(((unsigned)G >= i) ==> (!checked_G && checks_at_G == 0))
__CPROVER_decreases(count - i)
"""})],
    enforce=["si_checkMotion_idx"], replace=["isValidIdx"], backend="minisat",
    confirm=dict(unwind=7, defines={}),
    canaries=[dict(name="reports_next_index", where="body:si_checkMotion_idx", rx=r"= i;", repl="= i + 1;")],
))
UNITS.append(dict(
    name="c05_si_checkMotion_bisection",
    template="C05/si_checkMotion_bisect.c",
    functions=["ompl::base::SpaceInformation::checkMotion(const std::vector<State*>&, unsigned)"],
    sources=[dict(name="si_checkMotion", file=SI,
                  sig=r"bool\s+ompl::base::SpaceInformation::checkMotion\s*\(const std::vector<State \*> &states, unsigned int count\)\s*const",
                  rules=SI_RULES + [
                      (r"std::queue<std::pair<int, int>> pos;", "", 0),
                      (r"\bpos\.emplace\(", "pos_emplace(", 0),
                      (r"\bpos\.empty\(\)", "pos_empty()", 0),
                      (r"\bpos\.front\(\)", "pos_front()", 0),
                      (r"\bpos\.pop\(\)", "pos_pop()", 0),
                      (r"std::pair<int, int> x", "pair_int_int x", 0),
                      (r"pos_emplace\(0, count - 1\)", "pos_emplace(0, (int)(count - 1))", 0),
                  ],
                  loops={1: """
__CPROVER_assigns(checked_G, checks_at_G, any_invalid, last_invalid_idx, Q_n, Q_cov, Q_wf, Q_len, Q_front_covers, Q_front_val)
__CPROVER_loop_invariant(!any_invalid && Q_wf && 0 <= Q_cov && Q_cov <= Q_n && Q_n <= Q_len && Q_len <= ND - 2)
__CPROVER_loop_invariant((checked_G && VG && checks_at_G == 1 && Q_cov == 0) || (!checked_G && checks_at_G == 0 && Q_cov == 1))
__CPROVER_decreases(Q_len)
"""})],
    enforce=["si_checkMotion"], replace=["isValidIdx", "pos_empty", "pos_emplace", "pos_front", "pos_pop"],
    backend="cadical", timeout=900,
    tiers=dict(quick=dict(defines={"COUNT_MAX": "1048576u"})),
    confirm=dict(unwind=9, defines={"COUNT_MAX": "8u"}),
    canaries=[dict(name="skips_right_neighbour", where="body:si_checkMotion", rx=r"x\.second > mid \+ 1", repl="x.second > mid + 2")],
))

# ---- the segment count itself (StateSpace.cpp) ----
SSF = "src/ompl/base/src/StateSpace.cpp"
VSC_SRC = [
    dict(name="vsc", file=SSF, sig=r"unsigned int ompl::base::StateSpace::validSegmentCount\(const State \*state1, const State \*state2\) const",
         rules=[(r"\(unsigned int\)\s*ceil\(distance\(state1, state2\) / longestValidSegment_\)", "CEILU(FDIVD(distance(state1, state2), longestValidSegment_))", 0)], loops={}),
    dict(name="compound_vsc", file=SSF, sig=r"unsigned int ompl::base::CompoundStateSpace::validSegmentCount\(const State \*state1, const State \*state2\) const",
         rules=[(r"const auto \*cstate(\d) = static_cast<const CompoundState \*>\(state\1\);", r"const CompoundState *cstate\1 = state\1;", 0),
                (r"components_\[i\]->validSegmentCount\(", "comp_vsc(i, ", 0)],
         loops={1: """
__CPROVER_assigns(i, sc, comp_calls_G, seen_V)
__CPROVER_loop_invariant(i <= componentCount_ && comp_calls_G == ((G < i) ? 1 : 0))
__CPROVER_loop_invariant((G < i) ==> sc >= SC[G])
__CPROVER_loop_invariant(sc == V ==> (seen_V || V == 0))
__CPROVER_decreases(componentCount_ - i)
"""}),
]
UNITS.append(dict(name="c05_validSegmentCount", template="C05/vsc.c", entry="h_vsc", sources=VSC_SRC, enforce=["vsc"], replace=["distance", "FDIVD", "CEILU"], backend="cadical", timeout=300,
                  loop_contracts=False, functions=["ompl::base::StateSpace::validSegmentCount"],
                  canaries=[dict(name="rounds_down", where="body:vsc", rx=r"CEILU\(", repl="(unsigned)("), dict(name="factor_dropped", where="body:vsc", rx=r"longestValidSegmentCountFactor_ \*", repl="")]))
UNITS.append(dict(name="c05_compound_validSegmentCount", template="C05/vsc.c", entry="h_compound_vsc", sources=VSC_SRC, enforce=["compound_vsc"], replace=["comp_vsc"], backend="minisat", timeout=300,
                  expect_loops=1, functions=["ompl::base::CompoundStateSpace::validSegmentCount"], confirm=dict(unwind=10, defines={}),
                  canaries=[dict(name="keeps_the_minimum", where="body:compound_vsc", rx=r"sci > sc", repl="sci < sc"), dict(name="skips_last_component", where="body:compound_vsc", rx=r"i < componentCount_", repl="i + 1 < componentCount_")]))

ASSUMPTIONS = [
    "s1 is valid (documented precondition of checkMotion); validity checker and interpolate are deterministic user callbacks",
    "0 <= validSegmentCount <= 1e9 (so that int arithmetic on indices cannot overflow)",
    "FDIV(a,b) = (double)a/(double)b is modelled by IEEE facts only: in [0,1) for 0<=a<b, ==0 for a==0, ==1 for a==b, not NaN for b!=0",
    "SpaceInformation::checkMotion(states,count): the state vector is modelled as the identity sequence (isValid(states[i]) -> validity of index i); count <= 1e9",
    "valid_/invalid_ counters below 4e9 (no unsigned wrap-around)",
    "Dubins/ReedsShepp/Dubins3D: interpolate(s1,s2,t,firstTime,path,out) / (…,*path,out) is treated as interpolate(s1,s2,t,out) (cached curve = optimisation); Dubins3D: last-valid clauses (C05.c/d) are stated only when a connecting path exists, the counter clause (C05.e) unconditionally",
]
TRUSTED = [
    "extraction rewrite table of units/C05.py (regex rules, must-fire counts)",
    "stub contracts in units/C05/prelude.h: validSegmentCount, interpolate, isValid, allocState, freeState, FDIV",
    "assumed contract on std::queue<std::pair<int,int>> (units/C05/queue.h): multiset-of-intervals abstraction relative to the ghost index, FIFO order forgotten",
    "CBMC 6.11 goto-instrument DFCC + kissat",
]
NOT_COVERED = ["StateSpace::validSegmentCount: the arithmetic of distance / longestValidSegment_ and ceil is behind recording stubs (the expression tree is what is proved, not its IEEE value)"]

C05_CPPS = ["src/ompl/base/src/DiscreteMotionValidator.cpp", "src/ompl/base/spaces/src/DubinsStateSpace.cpp",
            "src/ompl/base/spaces/src/ReedsSheppStateSpace.cpp", "src/ompl/base/src/SpaceInformation.cpp"]
NATIVE = [
    dict(name="c05_native_exhaustive", driver="native/c05_native.cpp", link_ompl=True, unit_cpps=C05_CPPS,
         args=lambda tier, seed: ["exhaust", 14 if tier == "quick" else 40], timeout=900),
]


def replay(ur, scratch, seed):
    """Search the real classes for a failing input (all segment counts <= 24, all one/two-invalid patterns)."""
    from vf import native as N, cbmc as C
    exe = N.build_driver("native/c05_native.cpp", scratch, link_ompl=True, unit_cpps=C05_CPPS)
    r = C.run_cmd([exe, "exhaust", "24"], 600, env=N.run_env())
    return dict(found=(r["rc"] == 1), driver="native/c05_native.cpp", args=["exhaust", 24], link_ompl=True, unit_cpps=C05_CPPS,
                output=r["out"][-2000:])
