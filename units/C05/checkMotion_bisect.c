/* unit: DiscreteMotionValidator::checkMotion(s1, s2) -- breadth-first bisection (C05.a,b,e) */
#include "prelude.h"
#include "queue.h"
#ifndef ND_MAX
#define ND_MAX 1000000000
#endif
bool checkMotion(const State *s1, const State *s2)
__CPROVER_requires(ND >= 0 && ND <= ND_MAX && G >= 1 && G <= IDX_S2)
__CPROVER_requires(__CPROVER_is_fresh(s1, sizeof(State)) && __CPROVER_is_fresh(s2, sizeof(State)))
__CPROVER_requires(g_s2 == s2)
__CPROVER_requires(!checked_G && checks_at_G == 0 && !any_invalid && live_tmp == 0 && valid_ < 4000000000u && invalid_ < 4000000000u)
__CPROVER_requires(Q_n == 0 && Q_cov == 0 && Q_wf && Q_len == 0)
__CPROVER_assigns(checked_G, checks_at_G, any_invalid, last_invalid_idx, frac_num, frac_den, frac_val, live_tmp, tmp_ptr, valid_, invalid_, Q_n, Q_cov, Q_wf, Q_len, Q_front_covers, Q_front_val)
/* C05.a */
__CPROVER_ensures(__CPROVER_return_value ==> (checked_G && VG && PE))
/* C05.b */
__CPROVER_ensures(!__CPROVER_return_value ==> (any_invalid || !PE))
/* C05.e */
__CPROVER_ensures(__CPROVER_return_value ==> (valid_ == __CPROVER_old(valid_) + 1 && invalid_ == __CPROVER_old(invalid_)))
__CPROVER_ensures(!__CPROVER_return_value ==> (invalid_ == __CPROVER_old(invalid_) + 1 && valid_ == __CPROVER_old(valid_)))
/* every subdivision point evaluated at most once; temp state freed */
__CPROVER_ensures(checks_at_G <= 1 && live_tmp == 0)
/*@BODY checkMotion@*/

void harness(void)
{
    State *a, *b;
    bool r = checkMotion(a, b);
    if (r) REACH("returns true"); else REACH("returns false");
    if (r && ND > 100) REACH("long valid motion");
    if (!r && ND > 5 && last_invalid_idx == 3) REACH("fails at interior index");
}
