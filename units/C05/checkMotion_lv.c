/* unit: DiscreteMotionValidator::checkMotion(s1, s2, lastValid) -- linear scan (C05.a-e) */
#include "prelude.h"
#ifndef ND_MAX
#define ND_MAX 1000000000
#endif
/* index the reported fraction stands for */
#define M (ND == 0 ? 0 : frac_num)
double old_second; State old_first_val; State *old_first;

bool checkMotion_lv(const State *s1, const State *s2, pair_State_double *lastValid)
__CPROVER_requires(ND >= 0 && ND <= ND_MAX && G >= 1 && G <= IDX_S2)
__CPROVER_requires(__CPROVER_is_fresh(s1, sizeof(State)) && __CPROVER_is_fresh(s2, sizeof(State)) && __CPROVER_is_fresh(lastValid, sizeof(*lastValid)))
__CPROVER_requires(lastValid->first == NULL || __CPROVER_is_fresh(lastValid->first, sizeof(State)))
__CPROVER_requires(g_s2 == s2 && lastValid->second == lastValid->second)
__CPROVER_requires(old_second == lastValid->second && old_first == lastValid->first)
__CPROVER_requires(lastValid->first != NULL ==> (old_first_val.num == lastValid->first->num && old_first_val.den == lastValid->first->den))
__CPROVER_requires(!checked_G && checks_at_G == 0 && !any_invalid && live_tmp == 0 && valid_ < 4000000000u && invalid_ < 4000000000u)
__CPROVER_assigns(checked_G, checks_at_G, any_invalid, last_invalid_idx, frac_num, frac_den, frac_val, live_tmp, tmp_ptr, valid_, invalid_, lastValid->second)
__CPROVER_assigns(lastValid->first != NULL: *(lastValid->first))
/* C05.a valid => end state and every subdivision point checked and valid */
__CPROVER_ensures(__CPROVER_return_value ==> (checked_G && VG && PE))
/* C05.b invalid => some check failed */
__CPROVER_ensures(!__CPROVER_return_value ==> (any_invalid || !PE))
/* C05.c fraction is m/n, everything up to m valid, m+1 is the failed check */
__CPROVER_ensures((!__CPROVER_return_value && PE) ==> (ND == 0 ? lastValid->second == 0.0 : (lastValid->second == frac_val && frac_den == ND)))
__CPROVER_ensures((!__CPROVER_return_value && PE) ==> (0 <= M && M < IDX_S2))
__CPROVER_ensures((!__CPROVER_return_value && PE && G <= M) ==> (checked_G && VG))
__CPROVER_ensures((!__CPROVER_return_value && PE && G == M + 1) ==> (checked_G && !VG))
__CPROVER_ensures((!__CPROVER_return_value && PE) ==> last_invalid_idx == M + 1)
/* C05.c last-valid state is the interpolation at that fraction */
__CPROVER_ensures((!__CPROVER_return_value && PE && old_first != NULL) ==> (lastValid->first == old_first && lastValid->first->num == M && lastValid->first->den == ND))
/* C05.d fraction in [0,1) */
__CPROVER_ensures((!__CPROVER_return_value && PE) ==> (lastValid->second >= 0.0 && lastValid->second < 1.0))
/* C05.f success leaves lastValid untouched */
__CPROVER_ensures(__CPROVER_return_value ==> (lastValid->second == old_second && lastValid->first == old_first))
__CPROVER_ensures((__CPROVER_return_value && old_first != NULL) ==> (lastValid->first->num == old_first_val.num && lastValid->first->den == old_first_val.den))
/* C05.e exactly one counter advances by one, the right one */
__CPROVER_ensures(__CPROVER_return_value ==> (valid_ == __CPROVER_old(valid_) + 1 && invalid_ == __CPROVER_old(invalid_)))
__CPROVER_ensures(!__CPROVER_return_value ==> (invalid_ == __CPROVER_old(invalid_) + 1 && valid_ == __CPROVER_old(valid_)))
/* no index evaluated twice; temp state freed */
__CPROVER_ensures(checks_at_G <= 1 && live_tmp == 0)
/*@BODY checkMotion_lv@*/

void harness(void)
{
    State *a, *b; pair_State_double *lv;
    bool r = checkMotion_lv(a, b, lv);
    if (r) REACH("returns true"); else REACH("returns false");
    if (!r && PE && ND == 0) REACH("nd==0 invalid");
    if (!r && ND > 5 && frac_num == 3) REACH("fails mid-way");
}
