/* C05 prelude: state model and stubs with assumed contracts (trusted base, listed in evidence).
 * A State carries, as ghost content, the fraction index (num/den) it was interpolated at.
 * FDIV(a,b) stands for the source text "(double)a / (double)b": it records the index pair and
 * returns an arbitrary double constrained only by true IEEE-754 facts about a/b. */
#include <stddef.h>
#include <stdbool.h>
typedef struct State { int num; int den; } State;
typedef struct { State *first; double second; } pair_State_double;
typedef struct { int first; int second; } pair_int_int;

int  ND;            /* what validSegmentCount returns for (s1,s2): arbitrary, fixed */
int  G;             /* ghost index, arbitrary in [1, IDX_S2] */
bool VG;            /* validity of the state at index G: arbitrary, fixed */
bool checked_G;     /* ghost: isValid was evaluated at index G */
int  checks_at_G;   /* ghost: how often */
bool any_invalid;   /* ghost: some isValid call returned false */
int  last_invalid_idx; /* ghost: index of the last check that returned false */
int  frac_num, frac_den; double frac_val;   /* ghost: last FDIV */
int  live_tmp;      /* ghost: allocState - freeState balance */
State *tmp_ptr;     /* ghost: the state handed out by allocState */
const State *g_s2;  /* ghost: identity of the end state */
unsigned valid_, invalid_;
#define IDX_S2 (ND >= 1 ? ND : 1)
#define IDX_OF(s) ((s) == g_s2 ? IDX_S2 : (((s)->den == ND && (s)->num >= 0 && (s)->num < ND) ? (s)->num : -1))

double FDIV(int a, int b)
__CPROVER_requires(1)
__CPROVER_assigns(frac_num, frac_den, frac_val)
__CPROVER_ensures(frac_num == a && frac_den == b)
__CPROVER_ensures((b > 0 && a >= 0 && a < b) ==> (__CPROVER_return_value >= 0.0 && __CPROVER_return_value < 1.0))
__CPROVER_ensures((b > 0 && a == 0) ==> __CPROVER_return_value == 0.0)
__CPROVER_ensures((b != 0 && a != 0) ==> __CPROVER_return_value != 0.0)
__CPROVER_ensures((b > 0 && a == b) ==> __CPROVER_return_value == 1.0)
__CPROVER_ensures(b != 0 ==> __CPROVER_return_value == __CPROVER_return_value)
__CPROVER_ensures(frac_val == __CPROVER_return_value || (frac_val != frac_val && __CPROVER_return_value != __CPROVER_return_value))
;
int validSegmentCount(const State *s1, const State *s2)
__CPROVER_requires(s1 != NULL && s2 != NULL)
__CPROVER_assigns()
__CPROVER_ensures(__CPROVER_return_value == ND)
;
/* interpolate(from,to,t,out): t must be the fraction just computed by FDIV (or literally 0) */
void interpolate(const State *s1, const State *s2, double t, State *out)
__CPROVER_requires(out != NULL && s1 != NULL && s2 != NULL)
__CPROVER_requires(t == frac_val || t == 0.0)
__CPROVER_assigns(*out)
__CPROVER_ensures(out->num == (t == 0.0 ? 0 : frac_num))
__CPROVER_ensures(out->den == (t == 0.0 ? ND : frac_den))
;
bool isValid(const State *s)
__CPROVER_requires(s != NULL)
__CPROVER_assigns(checked_G, any_invalid, checks_at_G, last_invalid_idx)
__CPROVER_ensures((IDX_OF(s) == G) ==> (checked_G && __CPROVER_return_value == VG && checks_at_G == __CPROVER_old(checks_at_G) + 1))
__CPROVER_ensures((IDX_OF(s) != G) ==> (checked_G == __CPROVER_old(checked_G) && checks_at_G == __CPROVER_old(checks_at_G)))
__CPROVER_ensures(any_invalid == (__CPROVER_old(any_invalid) || !__CPROVER_return_value))
__CPROVER_ensures(__CPROVER_return_value ==> last_invalid_idx == __CPROVER_old(last_invalid_idx))
__CPROVER_ensures(!__CPROVER_return_value ==> last_invalid_idx == IDX_OF(s))
;
State *allocState(void)
__CPROVER_requires(live_tmp == 0)
__CPROVER_assigns(live_tmp, tmp_ptr)
__CPROVER_ensures(__CPROVER_is_fresh(__CPROVER_return_value, sizeof(State)))
__CPROVER_ensures(live_tmp == 1 && tmp_ptr == __CPROVER_return_value)
;
void freeState(State *s)
__CPROVER_requires(s != NULL && s == tmp_ptr && live_tmp == 1)
__CPROVER_assigns(live_tmp)
__CPROVER_ensures(live_tmp == 0)
;
/* Dubins3D only: getPath() may report that no connecting path exists (arbitrary, fixed) */
bool path_exists;
bool getPath(const State *s1, const State *s2)
__CPROVER_requires(s1 != NULL && s2 != NULL)
__CPROVER_assigns()
__CPROVER_ensures(__CPROVER_return_value == path_exists)
;
#ifdef WITH_PATH
#define PE path_exists
#else
#define PE 1
#endif
#define REACH(tag) __CPROVER_assert(0, "REACH " tag)
