/* Ghost-indexed multiset abstraction of std::queue<std::pair<int,int>> (DESIGN.md 4.3): the queue
 * is summarised, relative to the ghost index G, by: Q_n entries, Q_cov of them contain G, all are
 * well-formed sub-intervals of [1,ND-1] (Q_wf), Q_len = total length.  FIFO order is forgotten
 * (sound over-approximation: coverage of G does not depend on the order). */
int Q_n, Q_cov; long Q_len; bool Q_wf; bool Q_front_covers; pair_int_int Q_front_val;

bool pos_empty(void)
__CPROVER_requires(1) __CPROVER_assigns() __CPROVER_ensures(__CPROVER_return_value == (Q_n == 0));

void pos_emplace(int a, int b)
__CPROVER_requires(Q_n < 2000000000)
__CPROVER_assigns(Q_n, Q_cov, Q_wf, Q_len)
__CPROVER_ensures(Q_len == __CPROVER_old(Q_len) + ((long)b - (long)a + 1))
__CPROVER_ensures(Q_n == __CPROVER_old(Q_n) + 1)
__CPROVER_ensures(Q_cov == __CPROVER_old(Q_cov) + ((a <= G && G <= b) ? 1 : 0))
__CPROVER_ensures(Q_wf == (__CPROVER_old(Q_wf) && 1 <= a && a <= b && b <= ND - 1));

pair_int_int pos_front(void)
__CPROVER_requires(Q_n > 0)
__CPROVER_assigns(Q_front_covers, Q_front_val)
__CPROVER_ensures(Q_front_covers ==> Q_cov >= 1)
__CPROVER_ensures(!Q_front_covers ==> Q_n > Q_cov)
__CPROVER_ensures(Q_wf ==> (1 <= __CPROVER_return_value.first && __CPROVER_return_value.first <= __CPROVER_return_value.second && __CPROVER_return_value.second <= ND - 1))
__CPROVER_ensures(Q_wf ==> ((long)__CPROVER_return_value.second - (long)__CPROVER_return_value.first + 1 <= Q_len - (Q_n - 1)))
__CPROVER_ensures(Q_front_covers == (__CPROVER_return_value.first <= G && G <= __CPROVER_return_value.second))
__CPROVER_ensures(Q_front_val.first == __CPROVER_return_value.first && Q_front_val.second == __CPROVER_return_value.second);

void pos_pop(void)
__CPROVER_requires(Q_n > 0)
__CPROVER_assigns(Q_n, Q_cov, Q_len)
__CPROVER_ensures(Q_len == __CPROVER_old(Q_len) - ((long)Q_front_val.second - (long)Q_front_val.first + 1))
__CPROVER_ensures(Q_n == __CPROVER_old(Q_n) - 1)
__CPROVER_ensures(Q_cov == __CPROVER_old(Q_cov) - (Q_front_covers ? 1 : 0));
