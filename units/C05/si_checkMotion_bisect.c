/* unit: SpaceInformation::checkMotion(states, count): endpoints first, then bisection over OPEN intervals */
#include "si_prelude.h"
/* queue of open intervals (a,b): both endpoints already checked; covers G iff a < G < b */
int Q_n, Q_cov; long Q_len; bool Q_wf; bool Q_front_covers; pair_int_int Q_front_val;
bool pos_empty(void)
__CPROVER_requires(1) __CPROVER_assigns() __CPROVER_ensures(__CPROVER_return_value == (Q_n == 0));
void pos_emplace(int a, int b)
__CPROVER_requires(Q_n < 2000000000)
__CPROVER_assigns(Q_n, Q_cov, Q_wf, Q_len)
__CPROVER_ensures(Q_len == __CPROVER_old(Q_len) + ((long)b - (long)a - 1))
__CPROVER_ensures(Q_n == __CPROVER_old(Q_n) + 1)
__CPROVER_ensures(Q_cov == __CPROVER_old(Q_cov) + ((a < G && G < b) ? 1 : 0))
__CPROVER_ensures(Q_wf == (__CPROVER_old(Q_wf) && 0 <= a && (long)a + 1 < (long)b && b <= ND - 1));
pair_int_int pos_front(void)
__CPROVER_requires(Q_n > 0)
__CPROVER_assigns(Q_front_covers, Q_front_val)
__CPROVER_ensures(Q_front_covers ==> Q_cov >= 1)
__CPROVER_ensures(!Q_front_covers ==> Q_n > Q_cov)
__CPROVER_ensures(Q_wf ==> (0 <= __CPROVER_return_value.first && (long)__CPROVER_return_value.first + 1 < (long)__CPROVER_return_value.second && __CPROVER_return_value.second <= ND - 1))
__CPROVER_ensures(Q_wf ==> ((long)__CPROVER_return_value.second - (long)__CPROVER_return_value.first - 1 <= Q_len - (Q_n - 1)))
__CPROVER_ensures(Q_front_covers == (__CPROVER_return_value.first < G && G < __CPROVER_return_value.second))
__CPROVER_ensures(Q_front_val.first == __CPROVER_return_value.first && Q_front_val.second == __CPROVER_return_value.second);
void pos_pop(void)
__CPROVER_requires(Q_n > 0)
__CPROVER_assigns(Q_n, Q_cov, Q_len)
__CPROVER_ensures(Q_len == __CPROVER_old(Q_len) - ((long)Q_front_val.second - (long)Q_front_val.first - 1))
__CPROVER_ensures(Q_n == __CPROVER_old(Q_n) - 1)
__CPROVER_ensures(Q_cov == __CPROVER_old(Q_cov) - (Q_front_covers ? 1 : 0));

#ifndef COUNT_MAX
#define COUNT_MAX 1000000000u
#endif
bool si_checkMotion(unsigned int count)
__CPROVER_requires(count <= COUNT_MAX && count == COUNT && ND >= 0 && (unsigned)ND == count && states_size >= count && G >= 0 && (unsigned)G < count)
__CPROVER_requires(!checked_G && checks_at_G == 0 && !any_invalid)
__CPROVER_requires(Q_n == 0 && Q_cov == 0 && Q_wf && Q_len == 0)
__CPROVER_assigns(checked_G, any_invalid, checks_at_G, last_invalid_idx, Q_n, Q_cov, Q_wf, Q_len, Q_front_covers, Q_front_val)
__CPROVER_ensures(__CPROVER_return_value ==> (checked_G && VG))
__CPROVER_ensures(!__CPROVER_return_value ==> any_invalid)
__CPROVER_ensures(checks_at_G <= 1)
/*@BODY si_checkMotion@*/

void harness(void)
{
    unsigned c;
    bool r = si_checkMotion(c);
    if (r) REACH("true"); else REACH("false");
    if (r && c > 100) REACH("long true");
    if (COUNT == 1) REACH("count 1");
    if (COUNT == 2) REACH("count 2");
}
