/* unit: SpaceInformation::checkMotion(states, count, firstInvalidStateIndex) */
#include "si_prelude.h"
unsigned old_idx;
bool si_checkMotion_idx(unsigned int count, unsigned int *firstInvalidStateIndex)
__CPROVER_requires(count <= 1000000000u && count == COUNT && states_size >= count && G >= 0 && (unsigned)G < count)
__CPROVER_requires(__CPROVER_is_fresh(firstInvalidStateIndex, sizeof(unsigned)) && *firstInvalidStateIndex == old_idx)
__CPROVER_requires(!checked_G && checks_at_G == 0 && !any_invalid)
__CPROVER_assigns(checked_G, any_invalid, checks_at_G, last_invalid_idx, *firstInvalidStateIndex)
/* C05.a: valid => every state checked and valid */
__CPROVER_ensures(__CPROVER_return_value ==> (checked_G && VG))
/* C05.b/c: invalid => the reported index is the first invalid one */
__CPROVER_ensures(!__CPROVER_return_value ==> (any_invalid && *firstInvalidStateIndex < count && last_invalid_idx == (int)*firstInvalidStateIndex))
__CPROVER_ensures((!__CPROVER_return_value && (unsigned)G < *firstInvalidStateIndex) ==> (checked_G && VG))
__CPROVER_ensures((!__CPROVER_return_value && (unsigned)G == *firstInvalidStateIndex) ==> (checked_G && !VG))
/* success leaves the index storage untouched */
__CPROVER_ensures(__CPROVER_return_value ==> *firstInvalidStateIndex == old_idx)
__CPROVER_ensures(checks_at_G <= 1)
/*@BODY si_checkMotion_idx@*/

void harness(void)
{
    unsigned c; unsigned *p;
    bool r = si_checkMotion_idx(c, p);
    if (r) REACH("true"); else REACH("false");
    if (!r && last_invalid_idx == 7) REACH("fails at 7");
}
