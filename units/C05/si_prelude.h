/* SpaceInformation::checkMotion(states, count[, firstInvalidStateIndex]): the vector of states is
 * modelled as the identity sequence (states[i] is "the i-th state"): the rewrite maps
 * isValid(states[E]) / isValid(states.front()) to isValidIdx(E) / isValidIdx(0). */
#include <stddef.h>
#include <stdbool.h>
typedef struct { int first; int second; } pair_int_int;
unsigned COUNT;     /* the count argument */
size_t states_size;
int  ND;            /* = COUNT, for the queue abstraction's well-formedness bound */
int  G; bool VG; bool checked_G; int checks_at_G; bool any_invalid; int last_invalid_idx;
bool isValidIdx(unsigned i)
__CPROVER_requires(i < states_size && i <= 2000000000u)
__CPROVER_assigns(checked_G, any_invalid, checks_at_G, last_invalid_idx)
__CPROVER_ensures(((int)i == G) ==> (checked_G && __CPROVER_return_value == VG && checks_at_G == __CPROVER_old(checks_at_G) + 1))
__CPROVER_ensures(((int)i != G) ==> (checked_G == __CPROVER_old(checked_G) && checks_at_G == __CPROVER_old(checks_at_G)))
__CPROVER_ensures(any_invalid == (__CPROVER_old(any_invalid) || !__CPROVER_return_value))
__CPROVER_ensures(__CPROVER_return_value ==> last_invalid_idx == __CPROVER_old(last_invalid_idx))
__CPROVER_ensures(!__CPROVER_return_value ==> last_invalid_idx == (int)i)
;
#define REACH(tag) __CPROVER_assert(0, "REACH " tag)
