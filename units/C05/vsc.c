/* C05 -- the segment count a motion is subdivided into (StateSpace.cpp).
 * Expression-tree contract: the count is  factor * (unsigned) ceil( distance(state1, state2) / longestValidSegment_ ),
 * with distance / division / ceil behind stubs that record their arguments (the arithmetic itself is trusted IEEE);
 * the compound count is the maximum of the component counts (loop contract, ghost component G). */
#include <stddef.h>
#include <stdbool.h>
typedef struct State { int id; } State;
typedef struct { const State *components[8]; } CompoundState;
unsigned longestValidSegmentCountFactor_;
double longestValidSegment_;
/* ghosts */
const State *d_a, *d_b; int d_calls; double d_ret;
double q_a, q_b, q_ret; int q_calls;
double c_arg; unsigned c_ret; int c_calls;
double distance(const State *a, const State *b)
__CPROVER_requires(a != NULL && b != NULL)
__CPROVER_assigns(d_a, d_b, d_calls)
__CPROVER_ensures(d_a == a && d_b == b && d_calls == __CPROVER_old(d_calls) + 1 && __CPROVER_return_value == d_ret)
;
double FDIVD(double a, double b)
__CPROVER_requires(b > 0.0)
__CPROVER_assigns(q_a, q_b, q_calls)
__CPROVER_ensures(q_a == a && q_b == b && q_calls == __CPROVER_old(q_calls) + 1 && __CPROVER_return_value == q_ret)
;
unsigned CEILU(double x)    /* stands for the source text "(unsigned int)ceil(x)" */
__CPROVER_requires(x == x)
__CPROVER_assigns(c_arg, c_calls)
__CPROVER_ensures(c_arg == x && c_calls == __CPROVER_old(c_calls) + 1 && __CPROVER_return_value == c_ret)
;
#define REACH(msg) __CPROVER_assert(0, "REACH " msg)

unsigned int vsc(const State *state1, const State *state2)
__CPROVER_requires(state1 != NULL && state2 != NULL && longestValidSegment_ > 0.0 && longestValidSegmentCountFactor_ >= 1 && longestValidSegmentCountFactor_ <= 1000)
__CPROVER_requires(d_ret >= 0.0 && q_ret >= 0.0 && q_ret == q_ret && c_ret <= 4000000u && d_calls == 0 && q_calls == 0 && c_calls == 0)
__CPROVER_assigns(d_a, d_b, d_calls, q_a, q_b, q_calls, c_arg, c_calls)
__CPROVER_ensures(d_calls == 1 && d_a == state1 && d_b == state2)                       /* C05.count the distance of exactly this pair */
__CPROVER_ensures(q_calls == 1 && q_a == d_ret && q_b == longestValidSegment_)          /* divided by the longest valid segment */
__CPROVER_ensures(c_calls == 1 && c_arg == q_ret)                                       /* rounded UP */
__CPROVER_ensures(__CPROVER_return_value == longestValidSegmentCountFactor_ * c_ret)   /* times the factor */
/*@BODY vsc@*/
void h_vsc(void)
{
    State a, b; vsc(&a, &b); REACH("vsc returns");
}

/* ---- compound: maximum over the components ---- */
unsigned componentCount_;
unsigned SC[8];           /* what component i reports: arbitrary, fixed */
unsigned G;               /* ghost component */
unsigned V;               /* ghost value: arbitrary, fixed */
unsigned comp_calls_G; bool seen_V;
const CompoundState *S1, *S2;
unsigned comp_vsc(unsigned i, const State *a, const State *b)
__CPROVER_requires(i < componentCount_ && a == S1->components[i] && b == S2->components[i])       /* component i is asked about ITS sub-states of this pair */
__CPROVER_assigns(comp_calls_G, seen_V)
__CPROVER_ensures(__CPROVER_return_value == SC[i] && comp_calls_G == __CPROVER_old(comp_calls_G) + (i == G ? 1 : 0))
__CPROVER_ensures(seen_V == (__CPROVER_old(seen_V) || SC[i] == V))
;
unsigned int compound_vsc(const CompoundState *state1, const CompoundState *state2)
__CPROVER_requires(componentCount_ <= 8 && comp_calls_G == 0 && !seen_V)
__CPROVER_requires(__CPROVER_is_fresh(state1, sizeof(CompoundState)) && __CPROVER_is_fresh(state2, sizeof(CompoundState)))
__CPROVER_requires(S1 == state1 && S2 == state2)
__CPROVER_assigns(comp_calls_G, seen_V)
__CPROVER_ensures(G < componentCount_ ==> __CPROVER_return_value >= SC[G])            /* C05.count no component needs more segments than the compound uses */
__CPROVER_ensures(G < componentCount_ ==> comp_calls_G == 1)                            /* every component is asked once */
__CPROVER_ensures(__CPROVER_return_value == V ==> (seen_V || V == 0))                   /* C05.count the result is attained by a component (V arbitrary) */
/*@BODY compound_vsc@*/
void h_compound_vsc(void)
{
    CompoundState *s1, *s2;
    unsigned r = compound_vsc(s1, s2);
    REACH("compound returns"); if (r > 0 && r == V) REACH("attained");
}
