"""C06 -- state-space distances obey the metric laws each space claims (reduced scope: order/sign/identity/extent/symmetry facts)."""
import importlib.util, os
_s = importlib.util.spec_from_file_location("spaces_defs", os.path.join(os.path.dirname(__file__), "spaces_defs.py")); D = importlib.util.module_from_spec(_s); _s.loader.exec_module(D)
PROPERTY = "C06"
LEVEL = "proof"
UNITS = [
    D.scalar_unit("c06_so2_distance", "h_c06_so2", ["SO2StateSpace::distance", "SO2StateSpace::equalStates", "SO2StateSpace::getMaximumExtent"],
                  [dict(name="no_wrap", where="body:so2_distance", rx=r"\(d > pi\) \? 2\.0 \* pi - d : d", repl="d")], backend="kissat", timeout=1200),
    D.scalar_unit("c06_time_distance", "h_c06_time", ["TimeStateSpace::distance", "TimeStateSpace::equalStates", "TimeStateSpace::getMaximumExtent"],
                  [dict(name="signed_distance", where="body:time_distance", rx=r"fabs\(", repl="(", count=1)], backend="kissat"),
    D.scalar_unit("c06_discrete_distance", "h_c06_disc", ["DiscreteStateSpace::distance", "DiscreteStateSpace::equalStates", "DiscreteStateSpace::getMaximumExtent"],
                  [dict(name="extent_off_by_one", where="body:disc_extent", rx=r"upperBound_ - lowerBound_", repl="upperBound_ - lowerBound_ - 1")]),
]
ASSUMPTIONS = D.FP_ASSUMPTIONS + ["states are in bounds (SO2, Discrete) / finite (Time)"]
TRUSTED = ["extraction rewrite table units/spaces_defs.py", "stubs units/spaces/fp_stubs.h", "CBMC 6.11 + kissat/cadical"]
NOT_COVERED = ["Time: distance <= maximum extent (monotonicity of rounded subtraction; the solver did not finish in 15 min)", "triangle inequality for continuous spaces (true only in exact arithmetic; bit-precise multiplication is out of the solver's reach)",
               "SO3 / SE2 / SE3 / torus / sphere / Moebius / Klein / Dubins-family distances (trigonometry)"]
UNITS.append(D.rv_unit("c06_realvector_distance", "h_distance", "rv_distance", ["RealVectorStateSpace::distance"], []))
UNITS.append(D.rv_unit("c06_realvector_equalStates", "h_equalStates", "rv_equalStates", ["RealVectorStateSpace::equalStates"],
                      [dict(name="tolerance_blown_up", where="body:rv_equalStates", rx=r"DBL_EPSILON \* 2\.0", repl="DBL_EPSILON * 2.0e9")]))
UNITS.append(D.compound_unit("c06_compound_distance", "h_distance", "compound_distance", ["CompoundStateSpace::distance"],
                             [dict(name="skips_first_component", where="body:c_distance", rx=r"unsigned int i = 0;", repl="unsigned int i = 1;")], backend="cadical"))
ASSUMPTIONS.append("compound distance: each term weights_[i]*d_i is a non-negative trusted product (non-negative weights and component distances); 'is the weighted sum' = every term added exactly once in order to the accumulator")

SP_CPPS = ["src/ompl/base/spaces/src/SO2StateSpace.cpp", "src/ompl/base/spaces/src/RealVectorStateSpace.cpp", "src/ompl/base/spaces/src/TimeStateSpace.cpp",
           "src/ompl/base/spaces/src/DiscreteStateSpace.cpp", "src/ompl/base/src/StateSpace.cpp"]
NATIVE = [
    dict(name="kf_so2_seam_witness", driver="native/spaces_native.cpp", link_ompl=True, unit_cpps=SP_CPPS, args=["so2seam"], known_id="so2-seam"),
    dict(name="c06_native_search", driver="native/spaces_native.cpp", link_ompl=True, unit_cpps=SP_CPPS, args=lambda tier, seed: ["search", seed, 20000 if tier == "quick" else 2000000, "c06"], timeout=900),
]


def replay(ur, scratch, seed):
    from vf import native as N, cbmc as C
    exe = N.build_driver("native/spaces_native.cpp", scratch, link_ompl=True, unit_cpps=SP_CPPS)
    r = C.run_cmd([exe, "search", str(seed), "400000", "c06"], 600, env=N.run_env())
    return dict(found=(r["rc"] == 1), driver="native/spaces_native.cpp", args=["search", seed, 400000, "c06"], link_ompl=True, unit_cpps=SP_CPPS, output=r["out"][-2500:])
