"""C06 -- state-space distances obey the metric laws each space claims (reduced scope: order/sign/identity/extent/symmetry facts)."""
import importlib.util, os
_s = importlib.util.spec_from_file_location("spaces_defs", os.path.join(os.path.dirname(__file__), "spaces_defs.py")); D = importlib.util.module_from_spec(_s); _s.loader.exec_module(D)
PROPERTY = "C06"
LEVEL = "proof"
UNITS = [
    D.scalar_unit("c06_so2_distance", "h_c06_so2", ["SO2StateSpace::distance", "SO2StateSpace::equalStates", "SO2StateSpace::getMaximumExtent"],
                  [dict(name="no_wrap", where="body:so2_distance", rx=r"\(d > pi\) \? 2\.0 \* pi - d : d", repl="d")], backend="kissat", timeout=1200),
    D.scalar_unit("c06_time_distance", "h_c06_time", ["TimeStateSpace::distance", "TimeStateSpace::equalStates", "TimeStateSpace::getMaximumExtent"],
                  [dict(name="signed_distance", where="body:time_distance", rx=r"fabs\(", repl="(", count=1)], backend="kissat"),
    D.scalar_unit("c06_discrete_distance", "h_c06_disc", ["DiscreteStateSpace::distance", "DiscreteStateSpace::equalStates", "DiscreteStateSpace::getMaximumExtent"],
                  [dict(name="extent_off_by_one", where="body:disc_extent", rx=r"upperBound_ - lowerBound_", repl="upperBound_ - lowerBound_ - 1")]),
]
UNITS.append(D.wrapper_unit("c06_wrapper_forwarders"))
ASSUMPTIONS = D.FP_ASSUMPTIONS + ["states are in bounds (SO2, Discrete) / finite (Time)"]
TRUSTED = ["extraction rewrite table units/spaces_defs.py", "stubs units/spaces/fp_stubs.h", "CBMC 6.11 + kissat/cadical"]
NOT_COVERED = ["Time: distance <= maximum extent (monotonicity of rounded subtraction; the solver did not finish in 15 min)", "triangle inequality for continuous spaces (true only in exact arithmetic; bit-precise multiplication is out of the solver's reach)",
               "SO3 / SE2 / SE3 / torus / sphere / Moebius / Klein / Dubins-family distances (trigonometry)"]
UNITS.append(D.rv_unit("c06_realvector_distance", "h_distance", "rv_distance", ["RealVectorStateSpace::distance"], []))
UNITS.append(D.rv_unit("c06_realvector_equalStates", "h_equalStates", "rv_equalStates", ["RealVectorStateSpace::equalStates"],
                      [dict(name="tolerance_blown_up", where="body:rv_equalStates", rx=r"DBL_EPSILON \* 2\.0", repl="DBL_EPSILON * 2.0e9")]))
UNITS.append(D.compound_unit("c06_compound_distance", "h_distance", "compound_distance", ["CompoundStateSpace::distance"],
                             [dict(name="skips_first_component", where="body:c_distance", rx=r"unsigned int i = 0;", repl="unsigned int i = 1;")], backend="cadical"))
ASSUMPTIONS.append("compound distance: each term weights_[i]*d_i is a non-negative trusted product (non-negative weights and component distances); 'is the weighted sum' = every term added exactly once in order to the accumulator")

SP_CPPS = ["src/ompl/base/spaces/src/SO2StateSpace.cpp", "src/ompl/base/spaces/src/RealVectorStateSpace.cpp", "src/ompl/base/spaces/src/TimeStateSpace.cpp",
           "src/ompl/base/spaces/src/DiscreteStateSpace.cpp", "src/ompl/base/src/StateSpace.cpp"]
NATIVE = [
    dict(name="kf_so2_seam_witness", driver="native/spaces_native.cpp", link_ompl=True, unit_cpps=SP_CPPS, args=["so2seam"], known_id="so2-seam"),
    dict(name="c06_native_search", driver="native/spaces_native.cpp", link_ompl=True, unit_cpps=SP_CPPS, args=lambda tier, seed: ["search", seed, 20000 if tier == "quick" else 2000000, "c06"], timeout=900),
]


def replay(ur, scratch, seed):
    from vf import native as N, cbmc as C
    exe = N.build_driver("native/spaces_native.cpp", scratch, link_ompl=True, unit_cpps=SP_CPPS)
    r = C.run_cmd([exe, "search", str(seed), "400000", "c06"], 600, env=N.run_env())
    return dict(found=(r["rc"] == 1), driver="native/spaces_native.cpp", args=["search", seed, 400000, "c06"], link_ompl=True, unit_cpps=SP_CPPS, output=r["out"][-2500:])

# ---------------------------------------------------------------- small functions the metric laws of composite spaces rest on
SSF = "src/ompl/base/src/StateSpace.cpp"
M_RULES = [
    (r"throw Exception\(\"[^\"]*\"\);", "{ thrown = 1; return; }", 0), (r"space_->getMaximumExtent\(\)", "WRAPPED_EXTENT()", 0),
    (r"BOOST_ASSERT_MSG\(.*?\);", "", 0, __import__("re").S), (r"\barcLength\(", "so3_arcLength(", 0), (r"const auto \*(qs\d) = static_cast<const (?:SO3StateSpace::)?StateType \*>\((\w+)\);", r"const SO3State *\1 = \2;", 0),
    (r"qs1->x \* qs2->x \+ qs1->y \* qs2->y \+ qs1->z \* qs2->z \+ qs1->w \* qs2->w", "DOT4(qs1, qs2)", 0), (r"(?<![\w.])acos\(", "ACOS_(", 0), (r"std::numeric_limits<double>::epsilon\(\)", "DBL_EPSILON", 0),
]
M_SRC = [
    dict(name="setSubspaceWeight", file=SSF, sig=r"void ompl::base::CompoundStateSpace::setSubspaceWeight\(const unsigned int index, double weight\)", rules=M_RULES, loops={}),
    dict(name="wrapper_extent", file="src/ompl/base/spaces/WrapperStateSpace.h", sig=r"double getMaximumExtent\(\) const override", rules=M_RULES, loops={}),
    dict(name="so3_arcLength", file="src/ompl/base/spaces/src/SO3StateSpace.cpp", sig=r"static inline double arcLength\(const State \*state1, const State \*state2\)", rules=M_RULES, loops={}),
    dict(name="so3_distance", file="src/ompl/base/spaces/src/SO3StateSpace.cpp", sig=r"double ompl::base::SO3StateSpace::distance\(const State \*state1, const State \*state2\) const", rules=M_RULES, loops={}),
    dict(name="so3_equalStates", file="src/ompl/base/spaces/src/SO3StateSpace.cpp", sig=r"bool ompl::base::SO3StateSpace::equalStates\(const State \*state1, const State \*state2\) const", rules=M_RULES, loops={}),
]
for nm, ent, fn, needs, can in (("c06_compound_setSubspaceWeight", "h_setSubspaceWeight", ["CompoundStateSpace::setSubspaceWeight"], ["setSubspaceWeight"], [dict(name="tests_the_old_weight", where="body:setSubspaceWeight", rx=r"if \(weight < 0\.0\)", repl="if (index < NW && weights_[index] < 0.0)")]),
                         ("c06_wrapper_getMaximumExtent", "h_wrapper_extent", ["WrapperStateSpace::getMaximumExtent"], ["wrapper_extent"], [dict(name="returns_a_cached_value", where="body:wrapper_extent", rx=r"return WRAPPED_EXTENT\(\);", repl="static double cached_; return cached_;")]),
                         ("c06_so3_equal_vs_distance", "h_so3_equal", ["SO3StateSpace::distance", "SO3StateSpace::equalStates"], ["so3_arcLength", "so3_distance", "so3_equalStates"], [dict(name="sign_of_the_dot_product_matters", where="body:so3_arcLength", rx=r"fabs\(DOT4\(qs1, qs2\)\)", repl="DOT4(qs1, qs2)")])):
    UNITS.append(dict(name=nm, template="spaces/c06_misc.c", mode="plain", entry=ent, flags=["--bounds-check", "--pointer-check"], level="proof", backend="cadical", timeout=300, functions=fn, sources=M_SRC, needs=needs, canaries=can))
# ---------------------------------------------------------------- RealVector extent / distance, term by term (recording stubs for d*d and sqrt)
RVF = "src/ompl/base/spaces/src/RealVectorStateSpace.cpp"
RVX_RULES = [(r"const double \*(s\d) = static_cast<const StateType \*>\((\w+)\)->values;", r"const double *\1 = \2->values;", 0), (r"\bdiff \* diff\b", "c_FSQR(diff)", 0), (r"\bd \* d\b", "c_FSQR(d)", 0), (r"(?<![\w.])sqrt\(", "c_SQRTR(", 0)]
RVX_SRC = [
    dict(name="rv_extent", file=RVF, sig=r"double ompl::base::RealVectorStateSpace::getMaximumExtent\(\) const", rules=RVX_RULES, loops={1: """
__CPROVER_assigns(i, e, sq_calls, sq_arg_G, sq_ret_G)
__CPROVER_loop_invariant(i <= dimension_ && sq_calls == i && (e >= 0.0 || e != e))
__CPROVER_loop_invariant(G < i ==> (sq_arg_G == HIGH[G] - LOW[G] && (e >= sq_ret_G || e != e)))
__CPROVER_decreases(dimension_ - i)
"""}),
    dict(name="rv_distance_terms", file=RVF, sig=r"double ompl::base::RealVectorStateSpace::distance\(const State \*state1, const State \*state2\) const", rules=RVX_RULES, loops={1: """
__CPROVER_assigns(i, dist, s1, s2, sq_calls, sq_arg_G, sq_ret_G)
__CPROVER_loop_invariant(i <= dimension_ && sq_calls == i && (dist >= 0.0 || dist != dist) && s1 == VAL_A + i && s2 == VAL_B + i)
__CPROVER_loop_invariant(G < i ==> (sq_arg_G == VAL_A[G] - VAL_B[G] && (dist >= sq_ret_G || dist != dist)))
__CPROVER_decreases(dimension_ - i)
"""}),
]
for nm, ent, enf, fn, can in (("c06_realvector_extent_terms", "h_extent", "rv_extent", ["RealVectorStateSpace::getMaximumExtent"], [dict(name="first_lower_bound_for_all", where="body:rv_extent", rx=r"bounds_\.low\[i\]", repl="bounds_.low[0]")]),
                          ("c06_realvector_distance_terms", "h_distance_terms", "rv_distance_terms", ["RealVectorStateSpace::distance"], [dict(name="skips_last_coordinate", where="body:rv_distance_terms", rx=r"i < dimension_", repl="i + 1 < dimension_")])):
    UNITS.append(dict(name=nm, template="spaces/rv_extent.c", entry=ent, sources=RVX_SRC, needs=[enf], enforce=[enf], replace=["c_FSQR", "c_SQRTR"], flags=D.DFLAGS, level="proof", bound="dimension <= 64", expect_loops=1,
                      functions=fn, canaries=can, backend="cadical", timeout=900, confirm=dict(unwind=4, defines={"MAXDIM": 3})))

# Mobius: the unit of C07 (distance and interpolate agree on the branch) plus symmetry of the branch choice
import importlib.util as _iu, os as _os, copy as _copy
_s7 = _iu.spec_from_file_location("c07", _os.path.join(_os.path.dirname(__file__), "C07.py")); _C07 = _iu.module_from_spec(_s7); _s7.loader.exec_module(_C07)
for u in _C07.UNITS:
    if u["name"] == "c07_mobius_seam_branch":
        v = _copy.deepcopy(u); v["name"] = "c06_mobius_seam_branch"; UNITS.append(v)
