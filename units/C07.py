"""C07 -- interpolation traces one consistent, bounded curve between its endpoints (reduced scope)."""
import importlib.util, os
_s = importlib.util.spec_from_file_location("spaces_defs", os.path.join(os.path.dirname(__file__), "spaces_defs.py")); D = importlib.util.module_from_spec(_s); _s.loader.exec_module(D)
PROPERTY = "C07"
LEVEL = "proof"
UNITS = [
    D.scalar_unit("c07_so2_interpolate", "h_c07_so2", ["SO2StateSpace::interpolate"],
                  [dict(name="no_wrap_at_pi", where="body:so2_interpolate", rx=r"if \(\(\*v_\) >= pi\)\s*\(\*v_\) -= 2\.0 \* pi;\s*else", repl="if ((*v_) > pi) (*v_) -= 2.0 * pi; else")], backend="kissat", timeout=1200),
    D.scalar_unit("c07_time_interpolate", "h_c07_time", ["TimeStateSpace::interpolate"],
                  [dict(name="swapped_endpoints", where="body:time_interpolate", rx=r"from->position \+ FMUL01\(\(double\)\(to->position - from->position\), t\)", repl="to->position + FMUL01((double)(from->position - to->position), t)")], backend="kissat"),
    D.scalar_unit("c07_discrete_interpolate", "h_c07_disc", ["DiscreteStateSpace::interpolate"],
                  [dict(name="no_rounding_offset", where="body:disc_interpolate", rx=r" \+ 0\.5\)", repl=" + 1.5)")]),
]
UNITS.append(D.wrapper_unit("c07_wrapper_forwarders"))
UNITS.append(D.scalar_unit("c07_time_interpolate_alias", "h_c07_time_alias", ["TimeStateSpace::interpolate (output aliasing an input)"],
                           [dict(name="output_used_as_scratch", where="body:time_interpolate", rx=r"state->position =\s*from->position \+ FMUL01\(\(double\)\(to->position - from->position\), t\);", repl="state->position = to->position - from->position; state->position = from->position + FMUL01(state->position, t);")]))

SO3I_RULES = [(r"assert\(fabs\(norm\(static_cast<const StateType \*>\((?:from|to)\)\) - 1\.0\) < MAX_QUATERNION_NORM_ERROR\);", "", 0), (r"\barcLength\(", "ARCLEN(", 0),
              (r"std::numeric_limits<double>::epsilon\(\)", "DBL_EPSILON", 0), (r"1\.0 / sin\(theta\)", "RECIP_SIN(theta)", 0), (r"(?<![\w.])sin\(", "SIN_(", 0),
              (r"const auto \*(qs\d) = static_cast<const StateType \*>\((\w+)\);", r"const SO3State *\1 = \2;", 0), (r"auto \*qr = static_cast<StateType \*>\(state\);", "SO3State *qr = state;", 0),
              (r"qs1->x \* qs2->x \+ qs1->y \* qs2->y \+ qs1->z \* qs2->z \+ qs1->w \* qs2->w", "DOT4(qs1, qs2)", 0),
              (r"\(qs1->(\w) \* s0 \+ qs2->\1 \* s1\) \* d", r"MIX(qs1->\1, s0, qs2->\1, s1, d)", 0), (r"\bcopyState\(state, from\);", "COPY_STATE(state, from);", 0)]
SO3I_SRC = [dict(name="so3_interpolate", file="src/ompl/base/spaces/src/SO3StateSpace.cpp", sig=r"void ompl::base::SO3StateSpace::interpolate\(const State \*from, const State \*to, const double t, State \*state\) const", rules=SO3I_RULES, loops={})]
UNITS.append(dict(name="c07_so3_interpolate_paths", template="spaces/so3_interp.c", mode="plain", entry="h_so3_interpolate", sources=SO3I_SRC, flags=D.PFLAGS, level="proof", backend="cadical", timeout=300,
                  functions=["SO3StateSpace::interpolate (path selection)"], canaries=[dict(name="guarded_by_t_instead_of_theta", where="body:so3_interpolate", rx=r"if \(theta > DBL_EPSILON\)", repl="if (t > DBL_EPSILON)")]))
UNITS.append(dict(name="c07_so3_interpolate_alias", template="spaces/so3_interp.c", mode="plain", entry="h_so3_interpolate_alias", sources=SO3I_SRC, flags=D.PFLAGS, level="proof", backend="cadical", timeout=300,
                  functions=["SO3StateSpace::interpolate (output aliasing from)"], canaries=[dict(name="copies_onto_itself", where="body:so3_interpolate", rx=r"if \(state != from\)", repl="if (1)")]))

ASSUMPTIONS = D.FP_ASSUMPTIONS + ["input states in bounds / finite, 0 <= t <= 1"]
TRUSTED = ["extraction rewrite table units/spaces_defs.py", "stubs units/spaces/fp_stubs.h", "CBMC 6.11 + kissat/cadical"]
NOT_COVERED = ["alias safety of SO2/RealVector/Time interpolate as a solver obligation (comparing two bit-precise float evaluations did not finish in 20 min; checked by the native oracle only; Compound: each component called once with its own slots)", "t = 1 endpoint, re-parameterisation consistency and geodesic proportionality (exact-arithmetic laws; see known finding rv-overshoot for what rounding does at t = 1)",
               "SO3 / SE2 / SE3 / torus / sphere / Moebius / Klein / Dubins-family interpolation (trigonometry)"]
UNITS.append(D.rv_unit("c07_realvector_interpolate", "h_interpolate", "rv_interpolate", ["RealVectorStateSpace::interpolate"],
                      [dict(name="starts_from_to", where="body:rv_interpolate", rx=r"rfrom->values\[i\] \+ c_FMUL01", repl="rto->values[i] + c_FMUL01")], timeout=1200))
UNITS.append(D.compound_unit("c07_compound_interpolate", "h_interpolate", "compound_interpolate", ["CompoundStateSpace::interpolate"],
                             [dict(name="skips_last_component", where="body:c_interpolate", rx=r"i < componentCount_;", repl="i + 1 < componentCount_;")]))

SP_CPPS = ["src/ompl/base/spaces/src/SO2StateSpace.cpp", "src/ompl/base/spaces/src/RealVectorStateSpace.cpp", "src/ompl/base/spaces/src/TimeStateSpace.cpp",
           "src/ompl/base/spaces/src/DiscreteStateSpace.cpp", "src/ompl/base/src/StateSpace.cpp"]
NATIVE = [
    dict(name="kf_rv_overshoot_witness", driver="native/spaces_native.cpp", link_ompl=True, unit_cpps=SP_CPPS, args=["rvovershoot"], known_id="rv-overshoot"),
    dict(name="c07_native_search", driver="native/spaces_native.cpp", link_ompl=True, unit_cpps=SP_CPPS, args=lambda tier, seed: ["search", seed, 20000 if tier == "quick" else 2000000, "c07"], timeout=900),
]


def replay(ur, scratch, seed):
    from vf import native as N, cbmc as C
    exe = N.build_driver("native/spaces_native.cpp", scratch, link_ompl=True, unit_cpps=SP_CPPS)
    r = C.run_cmd([exe, "search", str(seed), "400000", "c07"], 600, env=N.run_env())
    return dict(found=(r["rc"] == 1), driver="native/spaces_native.cpp", args=["search", seed, 400000, "c07"], link_ompl=True, unit_cpps=SP_CPPS, output=r["out"][-2500:])

# ---------------------------------------------------------------- Mobius strip: distance and interpolate agree on the seam branch
MOB = "src/ompl/base/spaces/special/src/MobiusStateSpace.cpp"
MOB_RULES = [
    (r"(?:state1|from)->as<MobiusStateSpace::StateType>\(\)->getU\(\)", "U1", 0), (r"(?:state2|to)->as<MobiusStateSpace::StateType>\(\)->getU\(\)", "U2", 0),
    (r"(?:state1|from)->as<MobiusStateSpace::StateType>\(\)->getV\(\)", "V1", 0), (r"(?:state2|to)->as<MobiusStateSpace::StateType>\(\)->getV\(\)", "V2", 0),
    (r"state->as<MobiusStateSpace::StateType>\(\)->getU\(\)", "U_OUT", 0), (r"state->as<MobiusStateSpace::StateType>\(\)->setV\(r\);", "SET_V(r);", 0),
    (r"CompoundStateSpace::distance\(state1, state2\)", "COMPOUND_DISTANCE()", 0), (r"CompoundStateSpace::interpolate\(from, to, t, state\);", "COMPOUND_INTERPOLATE(t);", 0),
    (r"(?:const )?auto \*c\w+ = static_cast<(?:const )?CompoundState \*>\(\w+\);", "", 0),
    (r"weights_\[0\] \* components_\[0\]->distance\(cstate1->components\[0\], cstate2->components\[0\]\)", "SO2_WEIGHTED_DISTANCE()", 0),
    (r"components_\[0\]->interpolate\(cfrom->components\[0\], cto->components\[0\], t, cstate->components\[0\]\);", "SO2_INTERPOLATE(t);", 0),
    (r"std::abs\(", "fabs(", 0), (r"std::sqrt\(", "sqrt(", 0),
]
UNITS.append(dict(name="c07_mobius_seam_branch", template="spaces/mobius.c", mode="plain", entry="h_mobius", flags=["--bounds-check", "--pointer-check"], level="proof", backend="cadical", timeout=600,
                  functions=["MobiusStateSpace::distance", "MobiusStateSpace::interpolate"],
                  sources=[dict(name="m_distance", file=MOB, sig=r"double MobiusStateSpace::distance\(const State \*state1, const State \*state2\) const", rules=MOB_RULES, loops={}),
                           dict(name="m_interpolate", file=MOB, sig=r"void MobiusStateSpace::interpolate\(const State \*from, const State \*to, double t, State \*state\) const", rules=MOB_RULES, loops={})],
                  canaries=[dict(name="strict_seam_test_in_interpolate_only", where="body:m_interpolate", rx=r"if \(fabs\(diff\) <= pi\)", repl="if (fabs(diff) < pi)")]))
