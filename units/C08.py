"""C08 -- bound enforcement and every sampler keep states inside the space."""
import importlib.util, os
_s = importlib.util.spec_from_file_location("spaces_defs", os.path.join(os.path.dirname(__file__), "spaces_defs.py")); D = importlib.util.module_from_spec(_s); _s.loader.exec_module(D)
PROPERTY = "C08"
LEVEL = "proof"
UNITS = [
    D.scalar_unit("c08_so2_enforceBounds", "h_c08_so2_enforce", ["SO2StateSpace::enforceBounds", "SO2StateSpace::satisfiesBounds"],
                  [dict(name="wraps_minus_pi", where="body:so2_enforceBounds", rx=r"if \(v < -pi\)", repl="if (v <= -pi)")]),
    D.scalar_unit("c08_so2_samplers", "h_c08_so2_samplers", ["SO2StateSampler::sampleUniform", "SO2StateSampler::sampleUniformNear", "SO2StateSampler::sampleGaussian"],
                  [dict(name="near_without_enforce", where="body:so2_sampleUniformNear", rx=r"so2_enforceBounds\(state\);", repl="")]),
    D.scalar_unit("c08_time_enforceBounds", "h_c08_time_enforce", ["TimeStateSpace::enforceBounds", "TimeStateSpace::satisfiesBounds"],
                  [dict(name="clamps_to_wrong_bound", where="body:time_enforceBounds", rx=r"position = minTime_;", repl="position = maxTime_ + 1.0;")]),
    D.scalar_unit("c08_time_samplers", "h_c08_time_samplers", ["TimeStateSampler::sampleUniform", "TimeStateSampler::sampleUniformNear", "TimeStateSampler::sampleGaussian"],
                  [dict(name="gaussian_without_enforce", where="body:time_sampleGaussian", rx=r"time_enforceBounds\(state\);", repl="")]),
    D.scalar_unit("c08_discrete_enforceBounds", "h_c08_disc_enforce", ["DiscreteStateSpace::enforceBounds", "DiscreteStateSpace::satisfiesBounds"],
                  [dict(name="upper_off_by_one", where="body:disc_enforceBounds", rx=r"value = upperBound_;", repl="value = upperBound_ + 1;")]),
    D.scalar_unit("c08_discrete_samplers", "h_c08_disc_samplers", ["DiscreteStateSampler::sampleUniform", "DiscreteStateSampler::sampleUniformNear", "DiscreteStateSampler::sampleGaussian"],
                  [dict(name="near_without_enforce", where="body:disc_sampleUniformNear", rx=r"disc_enforceBounds\(state\);", repl="")]),
]
UNITS += [
    D.compound_unit("c08_compound_enforceBounds", "h_enforce", "compound_enforceBounds", ["CompoundStateSpace::enforceBounds"],
                    [dict(name="skips_last_component", where="body:c_enforceBounds", rx=r"i < componentCount_;", repl="i + 1 < componentCount_;")]),
    D.compound_unit("c08_compound_satisfiesBounds", "h_satisfies", "compound_satisfiesBounds", ["CompoundStateSpace::satisfiesBounds"],
                    [dict(name="skips_first_component", where="body:c_satisfiesBounds", rx=r"unsigned int i = 0;", repl="unsigned int i = 1;")]),
    D.compound_unit("c08_compound_sampleUniform", "h_sampleUniform", "compound_sampleUniform", ["CompoundStateSampler::sampleUniform"]),
    D.compound_unit("c08_compound_sampleUniformNear", "h_sampleUniformNear", "compound_sampleUniformNear", ["CompoundStateSampler::sampleUniformNear"],
                    [dict(name="zero_weight_fallback_dropped", where="body:cs_sampleUniformNear", rx=r"else\s*samp_sampleUniform\(i\);", repl="")]),
    D.compound_unit("c08_compound_sampleGaussian", "h_sampleGaussian", "compound_sampleGaussian", ["CompoundStateSampler::sampleGaussian"]),
]
# ---------------------------------------------------------------- valid-state samplers (bounded in the number of attempts)
VS_RULES = [
    (r"std::pair<State \*, double> fail\(state, 0\.0\);\s*si_->checkMotion\(temp, state, fail\);", "S_checkMotion_lastvalid(temp, state);", 0),
    (r"sampler_->sampleUniformNear\((\w+), near, distance\)", r"S_sampleUniformNear(\1, near)", 0),
    (r"sampler_->sampleUniform\((\w+)\)", r"S_sampleUniform(\1)", 0),
    (r"sampler_->sampleGaussian\((\w+), (\w+), \w+\)", r"S_sampleGaussian(\1, \2)", 0),
    (r"si_->getStateValidityChecker\(\)->isValid\((\w+), (\w+)\)", r"S_isValidD(\1, &\2)", 0),
    (r"si_->isValid\((\w+)\)", r"S_isValid(\1)", 0),
    (r"si_->allocState\(\)", "S_alloc()", 0), (r"si_->freeState\((\w+)\)", r"S_free(\1)", 0),
    (r"si_->copyState\((\w+), (\w+)\)", r"S_copy(\1, \2)", 0),
    (r"si_->getStateSpace\(\)->interpolate\((\w+), (\w+), 0\.5, (\w+)\)", r"S_interp(\1, \2, \3)", 0),
    (r"State \*(\w+) = ", r"int \1 = ", 0),
    (r"\bwork_\b", "S_TEMP", 0),
]
VS = [("uniform", "UniformValidStateSampler"), ("gaussian", "GaussianValidStateSampler"), ("obstacle", "ObstacleBasedValidStateSampler"),
      ("bridge", "BridgeTestValidStateSampler"), ("maxclear", "MaximizeClearanceValidStateSampler"), ("minclear", "MinimumClearanceValidStateSampler")]
VS_SOURCES = []
for short, cls in VS:
    f = "src/ompl/base/samplers/src/%s.cpp" % cls
    VS_SOURCES.append(dict(name=short + "_sample", file=f, sig=r"bool ompl::base::%s::sample\(State \*state\)" % cls, rules=VS_RULES, loops={"allow_uncontracted": True}))
    VS_SOURCES.append(dict(name=short + "_sampleNear", file=f, sig=r"bool ompl::base::%s::sampleNear\(State \*state, const State \*near, const double distance\)" % cls, rules=VS_RULES, loops={"allow_uncontracted": True}))
VS_CAN = {
    "maxclear_sample": [dict(name="wrong_valid_flag", where="body:maxclear_sample", rx=r"if \(validW && distW > dist\)", repl="if (valid && distW > dist)")],
    "gaussian_sample": [dict(name="copies_invalid", where="body:gaussian_sample", rx=r"if \(v2\)", repl="if (v1)")],
    "bridge_sample": [dict(name="no_recheck_after_interpolate", where="body:bridge_sample", rx=r"valid = S_isValid\(state\);", repl="valid = true;")],
    "obstacle_sampleNear": [dict(name="returns_before_lastvalid", where="body:obstacle_sampleNear", rx=r"S_checkMotion_lastvalid\(temp, state\);", repl="")],
}
for short, cls in VS:
    for fn in ("sample", "sampleNear"):
        UNITS.append(dict(name="c08_valid_%s_%s" % (short, fn), template="spaces/validsamplers.c", mode="plain", entry="h_%s_%s" % (short, fn), sources=VS_SOURCES,
                          flags=D.PFLAGS, unwind=5, level="bounded", bound="attempts_ <= 3, improveAttempts_ <= 3", functions=["ompl::base::%s::%s" % (cls, fn)],
                          canaries=VS_CAN.get("%s_%s" % (short, fn), []), backend="minisat"))

UNITS.append(dict(name="c08_so3_enforceBounds_paths", template="spaces/so3.c", mode="plain", flags=D.PFLAGS, level="proof", functions=["SO3StateSpace::enforceBounds (path selection only)"],
    sources=[dict(name="so3_enforceBounds", file="src/ompl/base/spaces/src/SO3StateSpace.cpp", sig=r"void ompl::base::SO3StateSpace::enforceBounds\(State \*state\) const", loops={},
                  rules=[(r"auto \*qstate = static_cast<StateType \*>\(state\);", "", 0), (r"quaternionNormSquared\(\*qstate\)", "NRMSQ()", 0),
                         (r"std::abs\(", "fabs(", 0), (r"2\.0 / \(1\.0 \+ nrmsq\)", "FAST_SCALE(nrmsq)", 0), (r"1\.0 / std::sqrt\(nrmsq\)", "EXACT_SCALE(nrmsq)", 0),
                         (r"qstate->[xyzw] \*= scale;", "SCALE_Q(scale);", 0), (r"qstate->setIdentity\(\);", "SET_IDENTITY();", 0)])],
    canaries=[dict(name="abs_dropped", where="body:so3_enforceBounds", rx=r"fabs\(1\.0 - nrmsq\)", repl="(1.0 - nrmsq)")], backend="cadical"))

UNITS += [
    D.rv_unit("c08_realvector_enforceBounds", "h_enforce", "rv_enforceBounds", ["RealVectorStateSpace::enforceBounds"],
              [dict(name="clamps_low_to_high", where="body:rv_enforceBounds", rx=r"rstate->values\[i\] = bounds_\.low\[i\];", repl="rstate->values[i] = bounds_.high[i] + 1.0;")]),
    D.rv_unit("c08_realvector_satisfiesBounds", "h_satisfies", "rv_satisfiesBounds", ["RealVectorStateSpace::satisfiesBounds"],
              [dict(name="ignores_low", where="body:rv_satisfiesBounds", rx=r"\|\|\s*rstate->values\[i\] \+ DBL_EPSILON < bounds_\.low\[i\]", repl="")]),
    D.rv_unit("c08_realvector_sampleUniform", "h_sampleUniform", "rv_sampleUniform", ["RealVectorStateSampler::sampleUniform"],
              [dict(name="wrong_dimension_bound", where="body:rv_sampleUniform", rx=r"bounds_\.high\[i\]", repl="(bounds_.high[i] + 1.0)")]),
    D.rv_unit("c08_realvector_sampleUniformNear", "h_sampleUniformNear", "rv_sampleUniformNear", ["RealVectorStateSampler::sampleUniformNear"],
              [dict(name="no_clipping", where="body:rv_sampleUniformNear", rx=r"MIND\(bounds_\.high\[i\], rnear->values\[i\] \+ distance\)", repl="(rnear->values[i] + distance)")], backend="kissat"),
    D.rv_unit("c08_realvector_sampleGaussian", "h_sampleGaussian", "rv_sampleGaussian", ["RealVectorStateSampler::sampleGaussian"],
              [dict(name="no_upper_clamp", where="body:rv_sampleGaussian", rx=r"else if \(v > bounds_\.high\[i\]\)\s*v = bounds_\.high\[i\];", repl="")]),
]

SSF8 = "src/ompl/base/src/StateSampler.cpp"
SSS_RULES = [(r"subspaceSampler_->(sampleUniform|sampleUniformNear|sampleGaussian)\(", r"SUB_\1(", 0), (r"copyStateData\((space_|subspace_), (\w+), (space_|subspace_), (\w+)(?:, subspaces_)?\);", r"COPY_DATA(\1, \2, \3, \4);", 0),
             (r"\bsubspace_\b", "SUBSPACE_", 0), (r"\bspace_\b", "SPACE_", 0), (r"(distance|stdDev) \* weight_", r"SCALED(\1, weight_)", 0)]
SSS_SRC = [dict(name="sss_" + m, file=SSF8, sig=sg, rules=SSS_RULES, loops={}) for m, sg in (
    ("sampleUniform", r"void ompl::base::SubspaceStateSampler::sampleUniform\(State \*state\)"),
    ("sampleUniformNear", r"void ompl::base::SubspaceStateSampler::sampleUniformNear\(State \*state, const State \*near, const double distance\)"),
    ("sampleGaussian", r"void ompl::base::SubspaceStateSampler::sampleGaussian\(State \*state, const State \*mean, const double stdDev\)"))]
for _h, _needs, _can in (("uniform", ["sss_sampleUniform"], []), ("near", ["sss_sampleUniformNear"], [dict(name="distance_not_scaled", where="body:sss_sampleUniformNear", rx=r"SCALED\(distance, weight_\)", repl="distance")]),
                         ("gaussian", ["sss_sampleGaussian"], [dict(name="one_work_state_for_mean_and_output", where="body:sss_sampleGaussian", rx=r"work2_", repl="work_")])):
    UNITS.append(dict(name="c08_subspace_sampler_" + _h, template="spaces/subspace_sampler.c", mode="plain", entry="h_sss_" + _h, sources=SSS_SRC, needs=_needs, flags=D.PFLAGS, level="proof", backend="minisat", timeout=300,
                      functions=["SubspaceStateSampler::" + _needs[0][4:]], canaries=_can))

UNITS.append(D.wrapper_unit("c08_wrapper_forwarders"))
ASSUMPTIONS = D.FP_ASSUMPTIONS + ["valid-state samplers: states are abstract objects with ghost (version, approved-version, in-bounds); component contracts assumed: state samplers yield in-bounds states, interpolate of in-bounds states is in bounds (C07), checkMotion from a valid s1 leaves a valid in-bounds last-valid state (C05.c); the validity checker is deterministic",
    "compound: components are addressed by index; each component space/sampler is assumed to satisfy its own contract (enforce => satisfies, sampled => in bounds); <= 1e6 components",
    "Time: 'unchanged' (C08.a) is stated for states inside [min,max]; satisfiesBounds' epsilon slack lets enforceBounds clamp a state that exceeds a bound by <= epsilon"]
TRUSTED = ["extraction rewrite table units/spaces_defs.py", "stubs units/spaces/fp_stubs.h", "CBMC 6.11 + cadical"]
NOT_COVERED = ["SO3 (quaternion normalisation: multiplications, sqrt), SE2/SE3 and special spaces", "wrapped and subspace samplers"]

SP_CPPS = ["src/ompl/base/spaces/src/SO2StateSpace.cpp", "src/ompl/base/spaces/src/SO3StateSpace.cpp", "src/ompl/base/spaces/src/RealVectorStateSpace.cpp",
           "src/ompl/base/spaces/src/TimeStateSpace.cpp", "src/ompl/base/spaces/src/DiscreteStateSpace.cpp", "src/ompl/base/src/StateSampler.cpp", "src/ompl/base/src/StateSpace.cpp",
           "src/ompl/base/samplers/src/UniformValidStateSampler.cpp", "src/ompl/base/samplers/src/GaussianValidStateSampler.cpp", "src/ompl/base/samplers/src/ObstacleBasedValidStateSampler.cpp",
           "src/ompl/base/samplers/src/BridgeTestValidStateSampler.cpp", "src/ompl/base/samplers/src/MaximizeClearanceValidStateSampler.cpp", "src/ompl/base/samplers/src/MinimumClearanceValidStateSampler.cpp"]
NATIVE = [dict(name="c08_native_search", driver="native/spaces_native.cpp", link_ompl=True, unit_cpps=SP_CPPS, args=lambda tier, seed: ["search", seed, 20000 if tier == "quick" else 2000000, "c08"], timeout=900)]


def replay(ur, scratch, seed):
    from vf import native as N, cbmc as C
    exe = N.build_driver("native/spaces_native.cpp", scratch, link_ompl=True, unit_cpps=SP_CPPS)
    r = C.run_cmd([exe, "search", str(seed), "400000", "c08"], 600, env=N.run_env())
    return dict(found=(r["rc"] == 1), driver="native/spaces_native.cpp", args=["search", seed, 400000, "c08"], link_ompl=True, unit_cpps=SP_CPPS, output=r["out"][-2500:])
