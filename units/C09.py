"""C09 -- copies and persisted data reproduce states and planner graphs exactly (reduced scope)."""
import importlib.util, os
_s = importlib.util.spec_from_file_location("spaces_defs", os.path.join(os.path.dirname(__file__), "spaces_defs.py")); D = importlib.util.module_from_spec(_s); _s.loader.exec_module(D)
PROPERTY = "C09"
LEVEL = "proof"
SS = D.SS
PDC = "src/ompl/base/src/PlannerData.cpp"
CR = [
    (r"(?:const )?auto \*c\w+ = static_cast<(?:const )?CompoundState \*>\(\w+\);", "", 0),
    (r"for \(const auto &component : components_\)\s*l \+= component->getSerializationLength\(\);", "for (unsigned int ci_ = 0; ci_ < componentCount_; ++ci_) l += comp_len(ci_);", 0),
    (r"components_\[i\]->serialize\(reinterpret_cast<char \*>\(serialization\) \+ l, cstate->components\[i\]\);", "comp_serialize(i, (char *)(serialization) + l);", 0),
    (r"components_\[i\]->deserialize\(cstate->components\[i\], reinterpret_cast<const char \*>\(serialization\) \+ l\);", "comp_deserialize(i, (const char *)(serialization) + l);", 0),
    # tolerant variants: any offset expression is passed on (and must equal the prefix sum)
    (r"components_\[i\]->deserialize\(cstate->components\[i\], reinterpret_cast<const char \*>\(serialization\) \+ ([^;]+)\);", r"comp_deserialize(i, (const char *)(serialization) + \1);", 0),
    (r"components_\[i\]->serialize\(reinterpret_cast<char \*>\(serialization\) \+ ([^;,]+), cstate->components\[i\]\);", r"comp_serialize(i, (char *)(serialization) + \1);", 0),
    # most general form: whatever address expression is handed to the component (it must equal the prefix-sum offset)
    (r"components_\[i\]->deserialize\(cstate->components\[i\], ([^;]+)\);", r"comp_deserialize(i, (const char *)(\1));", 0),
    (r"components_\[i\]->serialize\(([^;]+), cstate->components\[i\]\);", r"comp_serialize(i, (char *)(\1));", 0),
    (r"components_\[i\]->getSerializationLength\(\)", "comp_len(i)", 0),
    (r"components_\[i\]->copyState\(cdest->components\[i\], csrc->components\[i\]\);", "comp_copyState(i);", 0),
]
LI = lambda assigns, inv, n="componentCount_", v="i": "\n__CPROVER_assigns(%s%s)\n__CPROVER_loop_invariant(%s <= %s && %s)\n__CPROVER_decreases(%s - %s)\n" % (v, assigns, v, n, inv, n, v)
CS = [
    dict(name="getSerializationLength", file=SS, sig=r"unsigned int ompl::base::CompoundStateSpace::getSerializationLength\(\) const", rules=CR, loops={1: LI(", l", "l == PRE[ci_] && l <= 4096 * ci_", v="ci_")}),
    dict(name="serialize", file=SS, sig=r"void ompl::base::CompoundStateSpace::serialize\(void \*serialization, const State \*state\) const", rules=CR, loops={1: LI(", l, serG", "l == PRE[i] && l <= 4096 * i && serG == (G < i ? 1 : 0)")}),
    dict(name="deserialize", file=SS, sig=r"void ompl::base::CompoundStateSpace::deserialize\(State \*state, const void \*serialization\) const", rules=CR, loops={1: LI(", l, deserG", "l == PRE[i] && l <= 4096 * i && deserG == (G < i ? 1 : 0)")}),
    dict(name="copyState", file=SS, sig=r"void ompl::base::CompoundStateSpace::copyState\(State \*destination, const State \*source\) const", rules=CR, loops={1: LI(", copyG", "copyG == (G < i ? 1 : 0)")}),
]
STUBS = ["comp_len", "comp_serialize", "comp_deserialize", "comp_copyState"]


def CU(name, entry, enforce, fn, can=()):
    return dict(name=name, template="C09/compound_ser.c", entry=entry, sources=CS, enforce=[enforce], replace=STUBS, flags=D.DFLAGS, level="proof", bound="<= 64 components of <= 4096 bytes",
                functions=[fn], canaries=list(can), backend="minisat", confirm=dict(unwind=5, defines={"MAXC": 3}))


LEAF = []
for prefix, cls, f in (("so2", "SO2StateSpace", D.SO2), ("time", "TimeStateSpace", D.TIME), ("disc", "DiscreteStateSpace", D.DISC)):
    R = [(r"->as<(?:\w+::)?StateType>\(\)", "", 0)]
    LEAF += [dict(name=prefix + "_copyState", file=f, sig=r"void ompl::base::%s::copyState\(State \*destination, const State \*source\) const" % cls, rules=R, loops={}),
             dict(name=prefix + "_len", file=f, sig=r"unsigned int ompl::base::%s::getSerializationLength\(\) const" % cls, rules=R, loops={}),
             dict(name=prefix + "_serialize", file=f, sig=r"void ompl::base::%s::serialize\(void \*serialization, const State \*state\) const" % cls, rules=R, loops={}),
             dict(name=prefix + "_deserialize", file=f, sig=r"void ompl::base::%s::deserialize\(State \*state, const void \*serialization\) const" % cls, rules=R, loops={})]
PD_RULES = [
    (r"std::map<const State \*, unsigned int>::const_iterator it = stateIndexMap_\.find\(st\);", "int it = MAP_FIND(st);", 0),
    (r"it != stateIndexMap_\.end\(\)", "it >= 0", 0), (r"it->second", "(unsigned)it", 0),
    (r"(\w+VertexIndices_)\.push_back\(([^;]+)\);", r"PUSH(\1, \2);", 0),
    (r"(\w+VertexIndices_)\.empty\(\)", r"(\1_size == 0)", 0), (r"(\w+VertexIndices_)\.back\(\)", r"\1[\1_size - 1]", 0), (r"(\w+VertexIndices_)\.size\(\)", r"\1_size", 0),
    (r"std::sort\((\w+VertexIndices_)\.begin\(\), (\w+VertexIndices_)\.end\(\)\);", r"SORT(\1, \2_size);", 0),
    (r"std::binary_search\((\w+VertexIndices_)\.begin\(\), (\w+VertexIndices_)\.end\(\), index\)", r"BSEARCH(\1, \2_size, index)", 0),
    (r"isStartVertex\(", "pd_isStartVertex(", 0), (r"isGoalVertex\(", "pd_isGoalVertex(", 0),
]
PD = [dict(name=n, file=PDC, sig=s, rules=PD_RULES, loops={"allow_uncontracted": True}) for n, s in (
    ("isStartVertex", r"bool ompl::base::PlannerData::isStartVertex\(unsigned int index\) const"), ("isGoalVertex", r"bool ompl::base::PlannerData::isGoalVertex\(unsigned int index\) const"),
    ("markStartState", r"bool ompl::base::PlannerData::markStartState\(const base::State \*st\)"), ("markGoalState", r"bool ompl::base::PlannerData::markGoalState\(const base::State \*st\)"))]
SIG = [
    dict(name="sighelper", file=SS, sig=r"static void computeStateSpaceSignatureHelper\(const StateSpace \*space, std::vector<int> &signature\)", loops={"allow_uncontracted": True},
         rules=[(r"signature\.push_back\(space->getType\(\)\);", "SIG_PUSH(S_type[space]);", 0), (r"signature\.push_back\(space->getDimension\(\)\);", "SIG_PUSH(S_dim[space]);", 0),
                (r"space->isCompound\(\)", "S_compound[space]", 0), (r"space->as<CompoundStateSpace>\(\)->getSubspaceCount\(\)", "S_nsub[space]", 0),
                (r"computeStateSpaceSignatureHelper\(space->as<CompoundStateSpace>\(\)->getSubspace\(i\)\.get\(\), signature\);", "sig_helper(S_sub[space][i]);", 0)]),
    dict(name="compare", file=SS, sig=r"bool operator\(\)\(const StateSpace::SubstateLocation &a, const StateSpace::SubstateLocation &b\) const", loops={},
         rules=[(r"(\w)\.space->getDimension\(\)", r"\1->dim", 0), (r"(\w)\.space->getName\(\)", r"\1->name", 0)]),
]
UNITS = [
    CU("c09_compound_serializationLength", "h_len", "compound_getSerializationLength", "CompoundStateSpace::getSerializationLength"),
    CU("c09_compound_serialize", "h_ser", "compound_serialize", "CompoundStateSpace::serialize", [dict(name="length_before_write", where="body:serialize", rx=r"(comp_serialize\(i, \(char \*\)\(serialization\) \+ l\);)\s*(l \+= comp_len\(i\);)", repl=r"\2 \1")]),
    CU("c09_compound_deserialize", "h_deser", "compound_deserialize", "CompoundStateSpace::deserialize", [dict(name="aligned_offsets", where="body:deserialize", rx=r"\(serialization\) \+ l\)", repl="(serialization) + (l & ~7u))")]),
    CU("c09_compound_copyState", "h_copy", "compound_copyState", "CompoundStateSpace::copyState", [dict(name="skips_last", where="body:copyState", rx=r"i < componentCount_;", repl="i + 1 < componentCount_;")]),
    dict(name="c09_leaf_roundtrip", template="C09/leaf.c", mode="plain", sources=LEAF, flags=D.PFLAGS, level="proof", functions=["SO2/Time/Discrete StateSpace::serialize, deserialize, copyState, getSerializationLength"],
         canaries=[dict(name="discrete_short_copy", where="body:disc_serialize", rx=r"sizeof\(int\)", repl="2")], backend="minisat"),
    dict(name="c09_plannerdata_marks", template="C09/plannerdata_marks.c", mode="plain", sources=PD, flags=D.PFLAGS, unwind=7, level="bounded", bound="<= 4 marks over <= 6 vertices, any order",
         functions=["PlannerData::markStartState", "PlannerData::markGoalState", "PlannerData::isStartVertex", "PlannerData::isGoalVertex"], backend="cadical", timeout=900,
         canaries=[dict(name="goal_sorts_start_list", where="body:markGoalState", rx=r"SORT\(goalVertexIndices_, goalVertexIndices__size\);", repl="SORT(startVertexIndices_, startVertexIndices__size);")]),
    dict(name="c09_signature_tree", template="C09/signature.c", mode="plain", entry="h_signature", sources=SIG, flags=D.PFLAGS, unwind=4, unwindset={"h_signature.0": 8, "h_signature.1": 8, "h_signature.2": 8, "h_signature.3": 8}, level="bounded", bound="space trees of <= 7 nodes, depth <= 2",
         functions=["computeStateSpaceSignatureHelper (StateSpace::computeSignature)"], backend="cadical",
         canaries=[dict(name="first_subspace_skipped", where="body:sighelper", rx=r"unsigned int i = 0;", repl="unsigned int i = 1;")]),
    dict(name="c09_substate_comparator", template="C09/signature.c", mode="plain", entry="h_compare", sources=SIG, flags=D.PFLAGS, level="proof",
         functions=["CompareSubstateLocation::operator() (StateSpace::getCommonSubspaces)"], backend="minisat",
         canaries=[dict(name="name_compared_with_itself", where="body:compare", rx=r"a->name > b->name", repl="a->name > a->name")]),
]
# ---------------------------------------------------------------- planner-data archives: store / load round trip and rejection (base and control storage)
PDSH = "src/ompl/base/PlannerDataStorage.h"
PDSC = "src/ompl/base/src/PlannerDataStorage.cpp"
CPDSH = "src/ompl/control/PlannerDataStorage.h"
CPDSC = "src/ompl/control/src/PlannerDataStorage.cpp"
_S = __import__("re").S
PDS_RULES = [
    (r"OMPL_DEBUG\([^;]*\);", "", 0),
    (r"const (?:base::)?StateSpacePtr &space = pd\.getSpaceInformation\(\)->getStateSpace\(\);", "", 0),
    (r"const ControlSpacePtr &space =\s*static_cast<(?:const )?control::PlannerData &>\(pd\)\.getSpaceInformation\(\)->getControlSpace\(\);", "", 0),
    (r"std::vector<unsigned char> (state|ctrl)\(space->getSerializationLength\(\)\);", r"int \1;", 0),
    (r"std::vector<unsigned char> ctrlBuf\(space->getSerializationLength\(\)\);", "", 0),
    (r"std::vector<(?:State|Control) \*> (states|controls);", r"int \1[8]; unsigned \1_n = 0;", 0),
    (r"PlannerDataVertexData vertexData;", "VData vertexData;", 0), (r"PlannerDataEdge(?:Control)?Data edgeData;", "EData edgeData;", 0),
    (r"ia >> vertexData;", "if (!AR_GET_V(&vertexData)) { EXC_ = 1; return; }", 0), (r"ia >> edgeData;", "if (!AR_GET_E(&edgeData)) { EXC_ = 1; return; }", 0),
    (r"oa << vertexData;", "AR_PUT_V(&vertexData);", 0), (r"oa << edgeData;", "AR_PUT_E(&edgeData);", 0),
    (r"const PlannerDataVertex \*v = vertexData\.v_;", "int v = vertexData.v_;", 0),
    (r"State \*state = space->allocState\(\);", "int state = ALLOC_STATE();", 0), (r"Control \*ctrl = space->allocControl\(\);", "int ctrl = ALLOC_STATE();", 0),
    (r"(states|controls)\.push_back\((\w+)\);", r"\1[\1_n++] = \2;", 0),
    (r"space->deserialize\(state, &vertexData\.state_\[0\]\);", "DESERIALIZE(state, vertexData.state_);", 0),
    (r"space->deserialize\(ctrl, &edgeData\.control_\[0\]\);", "DESERIALIZE(ctrl, edgeData.control_);", 0),
    (r"const_cast<PlannerDataVertex \*>\(v\)->state_ = state;", "VO_state[v] = state;", 0),
    (r"const_cast<PlannerDataEdgeControl \*>\(static_cast<const PlannerDataEdgeControl \*>\(edgeData\.e_\)\)->c_ =\s*ctrl;", "EO_ctrl[edgeData.e_] = ctrl;", 0),
    (r"PlannerDataVertexData::(START|GOAL|STANDARD)", r"T_\1", 0),
    (r"pd\.addStartVertex\(\*v\)", "PD_addStartVertex(pd, v)", 0), (r"pd\.addGoalVertex\(\*v\)", "PD_addGoalVertex(pd, v)", 0), (r"pd\.addVertex\(\*v\)", "PD_addVertex(pd, v)", 0),
    (r"delete vertexData\.v_;", "VO_DELETE(vertexData.v_);", 0), (r"delete edgeData\.e_;", "EO_DELETE(edgeData.e_);", 0),
    (r"pd\.decoupleFromPlanner\(\);", "PD_decouple(pd);", 0),
    (r"for \(auto &state : states\)\s*space->freeState\(state\);", "for (unsigned k_ = 0; k_ < states_n; ++k_) FREE_STATE(states[k_]);", 0),
    (r"for \(auto &control : controls\)\s*space->freeControl\(control\);", "for (unsigned k_ = 0; k_ < controls_n; ++k_) FREE_STATE(controls[k_]);", 0),
    (r"const PlannerDataVertex &v = pd\.getVertex\(i\);", "int v = PD_getVertex(pd, i);", 0), (r"vertexData\.v_ = &v;", "vertexData.v_ = v;", 0),
    (r"space->serialize\(&state\[0\], v\.getState\(\)\);", "state = SERIALIZE(VO_state[v]);", 0),
    (r"space->serialize\(&ctrl\[0\],\s*static_cast<const PlannerDataEdgeControl \*>\(edgeData\.e_\)->getControl\(\)\);", "ctrl = SERIALIZE(EO_ctrl[edgeData.e_]);", 0),
    (r"std::vector<unsigned int> edgeList;", "unsigned edgeList[8]; unsigned edgeList_n = 0;", 0), (r"edgeList\.clear\(\);", "edgeList_n = 0;", 0),
    (r"pd\.getEdges\(fromVertex, edgeList\);", "edgeList_n = PD_getEdges(pd, fromVertex, edgeList);", 0),
    (r"for \(unsigned int toVertex : edgeList\)\s*\{", "for (unsigned k_ = 0; k_ < edgeList_n; ++k_) { unsigned int toVertex = edgeList[k_];", 0),
    (r"(?:base::)?Cost weight;", "double weight;", 0), (r"weight\.value\(\)", "weight", 0),
    (r"&pd\.getEdge\(", "PD_getEdge(pd, ", 0), (r"edgeData\.endpoints_\.(first|second)", r"edgeData.\1", 0),
    (r"\*edgeData\.e_", "edgeData.e_", 0), (r"(?:base::)?Cost\(edgeData\.weight_\)", "edgeData.weight_", 0),
    (r"pd\.(numVertices|numEdges|isStartVertex|isGoalVertex|getEdgeWeight|addEdge|clear)\(", r"PD_\1(pd, ", 0), (r"PD_(\w+)\(pd, \)", r"PD_\1(pd)", 0),
    # store / load
    (r"const (?:base::)?SpaceInformationPtr &si = pd\.getSpaceInformation\(\);", "bool si = PD_hasSI(pd);", 0),
    (r"const SpaceInformationPtr &si = static_cast<(?:const )?control::PlannerData &>\(pd\)\.getSpaceInformation\(\);", "bool si = PD_hasSI(pd);", 0),
    (r"!(?:out|in)\.good\(\)", "!stream_good", 0),
    (r"\btry\s*\{", "{", 0), (r"catch \(boost::archive::archive_exception &ae\)\s*\{", "if (0) { CATCH: ;", 0),
    (r"boost::archive::binary_[io]archive [io]a\((?:out|in)\);", "", 0),
    (r"si->getStateSpace\(\)->computeSignature\(h\.signature\);", "h.signature = SPACE_SIG;", 0), (r"si->getControlSpace\(\)->computeSignature\(h\.control_signature\);", "h.control_signature = CONTROL_SIG;", 0),
    (r"oa << h;", "AR_PUT_H(&h);", 0), (r"ia >> h;", "if (!AR_GET_H(&h)) goto CATCH;", 0),
    (r"std::vector<int> sig;\s*si->getStateSpace\(\)->computeSignature\(sig\);", "int sig = SPACE_SIG;", 0),
    (r"sig\.clear\(\);\s*si->getControlSpace\(\)->computeSignature\(sig\);", "sig = CONTROL_SIG;", 0),
    (r"storeVertices\(pd, oa\);", "pds_storeVertices(pd);", 0), (r"storeEdges\(pd, oa\);", "pds_storeEdges(pd);", 0),
    (r"loadVertices\(pd, h\.vertex_count, ia\);", "pds_loadVertices(pd, h.vertex_count); if (EXC_) goto CATCH;", 0), (r"loadEdges\(pd, h\.edge_count, ia\);", "pds_loadEdges(pd, h.edge_count); if (EXC_) goto CATCH;", 0),
    (r"if \(!pd\.hasControls\(\)\)\s*\{.*?\}", "", 0, _S), (r"if \(pdc == nullptr\)\s*\{.*?\}", "", 0, _S),
    (r"const auto \*pdc = static_cast<const control::PlannerData \*>\(&pd\);", "const PData *pdc = pd;", 0), (r"auto \*pdc = static_cast<control::PlannerData \*>\(&pd\);", "PData *pdc = pd;", 0),
    (r"const SpaceInformationPtr &si = pdc->getSpaceInformation\(\);", "bool si = PD_hasSI(pdc);", 0), (r"pdc->(clear|numVertices|numEdges)\(\)", r"PD_\1(pdc)", 0),
]
def _pds(name, file, sig, which=None):
    d = dict(name=name, file=file, sig=sig, rules=PDS_RULES, loops={"allow_uncontracted": True})
    if which is not None:
        d["which"] = which
    return d
PDS_BASE = [
    _pds("storeVertices", PDSH, r"virtual void storeVertices\(const PlannerData &pd, boost::archive::binary_oarchive &oa\)"),
    _pds("loadVertices", PDSH, r"virtual void loadVertices\(PlannerData &pd, unsigned int numVertices, boost::archive::binary_iarchive &ia\)"),
    _pds("storeEdges", PDSH, r"virtual void storeEdges\(const PlannerData &pd, boost::archive::binary_oarchive &oa\)"),
    _pds("loadEdges", PDSH, r"virtual void loadEdges\(PlannerData &pd, unsigned int numEdges, boost::archive::binary_iarchive &ia\)"),
    _pds("store", PDSC, r"bool ompl::base::PlannerDataStorage::store\(const PlannerData &pd, std::ostream &out\)"),
    _pds("load", PDSC, r"bool ompl::base::PlannerDataStorage::load\(std::istream &in, PlannerData &pd\)"),
]
PDS_CTRL = PDS_BASE[:2] + [
    _pds("storeEdges", CPDSH, r"void storeEdges\(const base::PlannerData &pd, boost::archive::binary_oarchive &oa\) override"),
    _pds("loadEdges", CPDSH, r"void loadEdges\(base::PlannerData &pd, unsigned int numEdges, boost::archive::binary_iarchive &ia\) override"),
    _pds("store", CPDSC, r"bool ompl::control::PlannerDataStorage::store\(const base::PlannerData &pd, std::ostream &out\)"),
    _pds("load", CPDSC, r"bool ompl::control::PlannerDataStorage::load\(std::istream &in, base::PlannerData &pd\)"),
]
for _tag, _src, _def, _fn in (("base", PDS_BASE, {}, "ompl::base::PlannerDataStorage"), ("control", PDS_CTRL, {"CONTROL": 1}, "ompl::control::PlannerDataStorage")):
    for _h, _can in (("roundtrip", [dict(name="weights_not_restored", where="body:loadEdges", rx=r",\s*edgeData\.weight_\)", repl=")"),
                                    dict(name="states_freed_before_decoupling", where="body:loadVertices", rx=r"PD_decouple\(pd\);", repl=";")]),
                     ("reject", [dict(name="marker_not_checked", where="body:load", rx=r"h\.marker != OMPL_PLANNER_DATA_(CONTROL_)?ARCHIVE_MARKER", repl="0")])):
        UNITS.append(dict(name="c09_pdstorage_%s_%s" % (_tag, _h), template="C09/pd_storage.c", mode="plain", entry="h_" + _h, sources=_src, defines=dict(_def), flags=D.PFLAGS, unwind=7, unwindset={"fresh_world.0": 22, "h_roundtrip.0": 22, "h_roundtrip.3": 22, "h_roundtrip.4": 22}, level="bounded",
                          bound="graphs of <= 3 vertices and <= 3 edges (distinct endpoint pairs), all tags / marks / weights / contents", backend="cadical", timeout=900,
                          functions=[_fn + "::" + f for f in ("store(pd, ostream)", "load(istream, pd)", "storeVertices", "loadVertices", "storeEdges", "loadEdges")], canaries=_can))

# ---------------------------------------------------------------- ScopedState reals() / operator=(vector<double>) and PlannerData::extractStateStorage
SSH = "src/ompl/base/ScopedState.h"
SR_RULES = [(r"std::vector<double> r;", "Vec r; r.n = 0;", 0), (r"r\.push_back\(([^;]+)\);", r"VEC_PUSH(&r, \1);", 0),
            (r"\A\{", "{ double *va;", 0), (r"while \(double \*va = ([^;{]+?index\+\+\))\)", r"while ((va = \1))", 0), (r"if \(double \*va = ([^;{]+?, i\))\)", r"if ((va = \1))", 0),
            (r"reals\.size\(\)", "reals_p->n", 0), (r"reals\[i\]", "reals_p->d[i]", 0), (r"return \*this;", "return;", 0),
            (r"space_->copyToReals\(r, state_\)", "space_->copyToReals(&r, state_)", 0), (r"space_->copyFromReals\(state_, reals\)", "space_->copyFromReals(state_, reals_p)", 0)]
UNITS.append(dict(name="c09_scopedstate_reals", template="C09/scoped_reals.c", mode="plain", entry="h_scoped_reals", flags=D.PFLAGS, unwind=7, level="bounded", bound="states of <= 4 doubles", backend="minisat", timeout=300,
                  functions=["ScopedState::reals", "ScopedState::operator=(const std::vector<double>&)"],
                  sources=[dict(name="reals", file=SSH, sig=r"std::vector<double> reals\(\) const", rules=SR_RULES, loops={"allow_uncontracted": True}),
                           dict(name="assign_reals", file=SSH, sig=r"ScopedState<T> &operator=\(const std::vector<double> &reals\)", rules=SR_RULES, loops={"allow_uncontracted": True})],
                  canaries=[dict(name="through_the_value_location_table", where="body:reals", rx=r"unsigned int index = 0;.*?VEC_PUSH\(&r, \*va\);", repl="space_->copyToReals(&r, state_);")]))
def _split_second_loop(text):
    i = text.find("for (const auto &it : indexMap)")
    return text if i < 0 else text[:i] + text[i:].replace("it.", "jt.").replace("&it :", "&jt :")
XS_RULES = [(_split_second_loop, None, 0),
            (r"auto store\(std::make_shared<GraphStateStorage>\(si_->getStateSpace\(\)\)\);", "STORE_INIT();", 0), (r"if \(graph_\)", "if (HAS_GRAPH)", 0),
            (r"std::map<unsigned int, unsigned int> indexMap;", "unsigned indexMap[NV];", 0),
            (r"for \(const auto &it : stateIndexMap_\)\s*\{", "for (unsigned o_ = 0; o_ < nv; ++o_) { unsigned it_second = ORDER[o_];", 0), (r"it\.second", "it_second", 0), (r"it\.first", "STATE_OF[it_second]", 0),
            (r"store->size\(\)", "store_size", 0), (r"store->addState\(", "STORE_ADD(", 0),
            (r"for \(const auto &jt : indexMap\)\s*\{", "for (unsigned v_ = 0; v_ < nv; ++v_) { unsigned jt_first = v_, jt_second = indexMap[v_];", 0), (r"jt\.first", "jt_first", 0), (r"jt\.second", "jt_second", 0),
            (r"std::vector<unsigned int> edgeList;", "unsigned edgeList[NV]; unsigned edgeList_n = 0;", 0), (r"getEdges\(jt_first, edgeList\);", "edgeList_n = GET_EDGES(jt_first, edgeList);", 0),
            (r"GraphStateStorage::MetadataType &md = store->getMetadata\(jt_second\);", "unsigned *md = MD[jt_second]; unsigned *md_n = &MD_n[jt_second];", 0), (r"md\.resize\(edgeList\.size\(\)\);", "*md_n = edgeList_n;", 0),
            (r"edgeList\.size\(\)", "edgeList_n", 0), (r"std::size_t", "size_t", 0), (r"return store;", "return;", 0)]
UNITS.append(dict(name="c09_plannerdata_extractStateStorage", template="C09/extract_storage.c", mode="plain", entry="h_extractStateStorage", flags=D.PFLAGS, unwind=6, level="bounded", bound="graphs of <= 3 vertices, every address order",
                  backend="minisat", timeout=300, functions=["PlannerData::extractStateStorage"],
                  sources=[dict(name="extractStateStorage", file=PDC, sig=r"ompl::base::StateStoragePtr ompl::base::PlannerData::extractStateStorage\(\) const", rules=XS_RULES, loops={"allow_uncontracted": True})],
                  canaries=[dict(name="raw_vertex_indices_in_metadata", where="body:extractStateStorage", rx=r"md\[k\] = indexMap\[edgeList\[k\]\];", repl="md[k] = edgeList[k];")]))

STF = "src/ompl/base/src/StateStorage.cpp"
ST_RULES = [
    (r"OMPL_DEBUG\([^;]*\);", "", 0), (r"\bclear\(\);", "SS_CLEAR();", 0), (r"!in\.good\(\) \|\| in\.eof\(\)", "!stream_good || stream_eof", 0), (r"!out\.good\(\)", "!stream_good", 0),
    (r"\btry\s*\{", "{", 0), (r"catch \(boost::archive::archive_exception &ae\)\s*\{", "if (0) { CATCH: ;", 0), (r"boost::archive::binary_[io]archive [io]a\((?:in|out)\);", "", 0),
    (r"ia >> h;", "if (!AR_GET_H(&h)) goto CATCH;", 0), (r"oa << h;", "AR_PUT_H(&h);", 0),
    (r"std::vector<int> sig;\s*space_->computeSignature\(sig\);", "int sig = SPACE_SIG;", 0), (r"space_->computeSignature\(h\.signature\);", "h.signature = SPACE_SIG;", 0),
    (r"loadStates\(h, ia\);", "ss_loadStates(&h); if (EXC_) goto CATCH;", 0), (r"loadMetadata\(h, ia\);", "meta_loaded++;", 0), (r"storeStates\(h, oa\);", "ss_storeStates();", 0), (r"storeMetadata\(h, oa\);", "meta_stored++;", 0),
    (r"states_\.size\(\)", "states__size", 0),
    (r"unsigned int l = space_->getSerializationLength\(\);", "", 0), (r"auto \*buffer = new char\[l\];", "buffer_live = true;", 0), (r"delete\[\] buffer;", "buffer_live = false;", 0),
    (r"State \*s = space_->allocState\(\);", "int s = ALLOC_STATE();", 0), (r"h\.state_count", "h_p->state_count", 0), (r"std::size_t", "size_t", 0),
    (r"ia >> boost::serialization::make_binary_object\(buffer, l\);", "if (!AR_GET_REC(&buf_)) { EXC_ = 1; return; }", 0), (r"space_->deserialize\(s, buffer\);", "scratch_content = buf_;", 0), (r"addState\(s\);", "ADD_STATE(scratch_content);", 0),
    (r"space_->freeState\(s\);", "FREE_STATE(s);", 0),
    (r"for \(auto &state : states_\)\s*\{", "for (size_t k_ = 0; k_ < states__size; ++k_) { int state = states_[k_];", 0), (r"space_->serialize\(buffer, state\);", "buf_ = state;", 0),
    (r"oa << boost::serialization::make_binary_object\(buffer, l\);", "AR_PUT_REC(buf_);", 0),
]
ST_SRC = [dict(name="storeStates", file=STF, sig=r"void ompl::base::StateStorage::storeStates\(const Header & /\*h\*/, boost::archive::binary_oarchive &oa\)|void ompl::base::StateStorage::storeStates\(const Header &\s*, boost::archive::binary_oarchive &oa\)", rules=ST_RULES, loops={"allow_uncontracted": True}),
          dict(name="loadStates", file=STF, sig=r"void ompl::base::StateStorage::loadStates\(const Header &h, boost::archive::binary_iarchive &ia\)", rules=[(r"\bh\.state_count", "h_p->state_count", 0)] + ST_RULES, loops={"allow_uncontracted": True}),
          dict(name="store", file=STF, sig=r"void ompl::base::StateStorage::store\(std::ostream &out\)", rules=[r for r in ST_RULES if "h_p->state_count" not in r[1]], loops={}),
          dict(name="load", file=STF, sig=r"void ompl::base::StateStorage::load\(std::istream &in\)", rules=[r for r in ST_RULES if "h_p->state_count" not in r[1]], loops={})]
for _h, _can in (("roundtrip", [dict(name="count_of_the_wrong_container", where="body:store", rx=r"h\.state_count = states__size;", repl="h.state_count = states__size + 1;")]),
                 ("reject", [dict(name="signature_not_compared", where="body:load", rx=r"h\.signature != sig", repl="0")])):
    UNITS.append(dict(name="c09_statestorage_" + _h, template="C09/state_storage.c", mode="plain", entry="h_ss_" + _h, sources=ST_SRC, flags=D.PFLAGS, unwind=6, level="bounded", bound="sets of <= 3 states", backend="minisat", timeout=300,
                      functions=["StateStorage::store(ostream)", "StateStorage::load(istream)", "StateStorage::storeStates", "StateStorage::loadStates"], canaries=_can))

CPDC = "src/ompl/control/src/PlannerData.cpp"
DC_RULES = [
    (r"numVertices\(\)", "NUM_VERTICES()", 0), (r"PlannerDataVertex &vtx = getVertex\(i\);", "", 0),
    (r"decoupledStates_\.find\(const_cast<State \*>\(vtx\.getState\(\)\)\) == decoupledStates_\.end\(\)", "!DEC_STATES_HAS(V_state[i])", 0),
    (r"const State \*oldState = vtx\.getState\(\);", "int oldState = V_state[i];", 0), (r"State \*clone = si_->cloneState\(oldState\);", "int clone = CLONE_STATE(oldState);", 0),
    (r"decoupledStates_\.insert\(clone\);", "DEC_STATES_INSERT(clone);", 0), (r"vtx\.state_ = clone;", "V_state[i] = clone;", 0), (r"stateIndexMap_\.erase\(oldState\);", "MAP_ERASE(oldState);", 0), (r"stateIndexMap_\[clone\] = i;", "MAP_SET(clone, i);", 0),
    (r"ompl::base::PlannerData::decoupleFromPlanner\(\);", "BASE_DECOUPLE();", 0), (r"edgeExists\(i, j\)", "EDGE_exists[i][j]", 0),
    (r"auto &edge = static_cast<PlannerDataEdgeControl &>\(getEdge\(i, j\)\);", "", 0), (r"auto \*ctrl = const_cast<Control \*>\(edge\.getControl\(\)\);", "int ctrl = E_ctrl[i][j];", 0),
    (r"decoupledControls_\.find\(ctrl\) == decoupledControls_\.end\(\)", "!DEC_CTRLS_HAS(ctrl)", 0), (r"Control \*clone = siC_->cloneControl\(ctrl\);", "int clone = CLONE_CONTROL(ctrl);", 0),
    (r"decoupledControls_\.insert\(clone\);", "DEC_CTRLS_INSERT(clone);", 0), (r"edge\.c_ = clone;", "E_ctrl[i][j] = clone;", 0),
]
DC_SRC = [dict(name="pd_decouple", file=PDC, sig=r"void ompl::base::PlannerData::decoupleFromPlanner\(\)", rules=DC_RULES, loops={"allow_uncontracted": True}),
          dict(name="cpd_decouple", file=CPDC, sig=r"void ompl::control::PlannerData::decoupleFromPlanner\(\)", rules=DC_RULES, loops={"allow_uncontracted": True})]
for _h, _fn, _can in (("pd_decouple", "ompl::base::PlannerData::decoupleFromPlanner", [dict(name="old_pointer_still_mapped", where="body:pd_decouple", rx=r"MAP_ERASE\(oldState\);", repl=";")]),
                      ("cpd_decouple", "ompl::control::PlannerData::decoupleFromPlanner", [dict(name="clone_not_installed_in_the_edge", where="body:cpd_decouple", rx=r"E_ctrl\[i\]\[j\] = clone;", repl=";")])):
    UNITS.append(dict(name="c09_plannerdata_" + _h, template="C09/decouple.c", mode="plain", entry="h_" + _h, sources=DC_SRC, flags=D.PFLAGS, unwind=6, level="bounded", bound="<= 3 vertices, <= 9 edges", backend="minisat", timeout=300,
                      functions=[_fn], canaries=_can))

UNITS.append(D.wrapper_unit("c09_wrapper_forwarders"))
ASSUMPTIONS = ["compound: component (de)serializers are addressed by index and touch exactly len_i bytes at the address they are given (leaf contract); <= 64 components, each <= 4096 bytes",
               "std::sort / std::binary_search / std::map::find are modelled by an insertion sort, a real binary search and the identity map (trusted helpers)",
               "space names are compared as ranks (only the order is used)"]
TRUSTED = ["extraction rewrite tables of units/C09.py", "stubs/harness code in units/C09/*.c", "CBMC 6.11 (DFCC + minisat/cadical)"]
NOT_COVERED = ["boost::serialization archives, StateStorage::load / PlannerDataStorage::load header checks (marker, truncated stream) and the graph isomorphism of stored PlannerData (boost graph)",
               "RealVector memcpy of stateBytes_ (symbolic length), SO3/SE2/SE3 leaf serialization, ScopedState conversions, copyToReals/copyFromReals, partial copies via advancedStateCopy beyond the comparator",
               "PlannerData::clear() not resetting its index maps and a vertex that is both start and goal being stored as start only (observed by a seeding agent; not triaged)"]

MISC_CPPS = ['src/ompl/base/src/StateSpace.cpp', 'src/ompl/base/src/PlannerData.cpp', 'src/ompl/base/src/PlannerDataStorage.cpp', 'src/ompl/base/spaces/src/SO2StateSpace.cpp', 'src/ompl/base/spaces/src/DiscreteStateSpace.cpp', 'src/ompl/base/spaces/src/TimeStateSpace.cpp', 'src/ompl/base/spaces/src/RealVectorStateSpace.cpp']
NATIVE = [
    dict(name="kf_discrete_reals_witness", driver="native/misc_native.cpp", link_ompl=True, unit_cpps=MISC_CPPS, args=["c09kf", 1, 1], known_id="discrete-reals"),
    dict(name="c09_native_search", driver="native/misc_native.cpp", link_ompl=True, unit_cpps=MISC_CPPS, args=lambda tier, seed: ["c09", seed, 400 if tier == "quick" else 40000], timeout=900),
]


def replay(ur, scratch, seed):
    """Search the real classes for a failing input (native/misc_native.cpp, mode c09)."""
    from vf import native as N, cbmc as C
    exe = N.build_driver("native/misc_native.cpp", scratch, link_ompl=True, unit_cpps=MISC_CPPS)
    r = C.run_cmd([exe, "c09", str(seed), "10000"], 600, env=N.run_env())
    return dict(found=(r["rc"] == 1), driver="native/misc_native.cpp", args=["c09", seed, 10000], link_ompl=True, unit_cpps=MISC_CPPS, output=r["out"][-2500:])
