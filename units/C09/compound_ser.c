/* C09: CompoundStateSpace getSerializationLength / serialize / deserialize / copyState.
 * PRE[] is a ghost prefix-sum array: its defining equation PRE[i+1] == PRE[i] + len_i is supplied pointwise by the
 * length stub (assumed, i.e. PRE is DEFINED as the prefix sums); the obligation at every call site is that component i
 * is (de)serialized exactly at byte offset PRE[i] of the caller's buffer -- so both directions use the same layout and the
 * round trip of every component follows from the leaf round trips.  <= MAXC components, component length <= 4096. */
#include <stddef.h>
#include <stdbool.h>
#ifndef MAXC
#define MAXC 64
#endif
unsigned componentCount_; unsigned LEN[MAXC]; unsigned PRE[MAXC + 1];
char BUF[MAXC * 4096 + 8];
unsigned G; int serG, deserG, copyG;
#define REACH(tag) __CPROVER_assert(0, "REACH " tag)
unsigned comp_len(unsigned i)
__CPROVER_requires(i < componentCount_)
__CPROVER_assigns()
__CPROVER_ensures(__CPROVER_return_value == LEN[i] && LEN[i] <= 4096 && PRE[i + 1] == PRE[i] + LEN[i] && PRE[i] <= 4096 * i);
void comp_serialize(unsigned i, char *dst)
__CPROVER_requires(i < componentCount_ && serG < 1000)
__CPROVER_requires(dst == BUF + PRE[i])          /* C09.layout component i is written at its prefix-sum offset */
__CPROVER_assigns(serG)
__CPROVER_ensures(serG == __CPROVER_old(serG) + (i == G ? 1 : 0));
void comp_deserialize(unsigned i, const char *src)
__CPROVER_requires(i < componentCount_ && deserG < 1000)
__CPROVER_requires(src == BUF + PRE[i])          /* C09.layout component i is read from the same offset it was written at */
__CPROVER_assigns(deserG)
__CPROVER_ensures(deserG == __CPROVER_old(deserG) + (i == G ? 1 : 0));
void comp_copyState(unsigned i)
__CPROVER_requires(i < componentCount_ && copyG < 1000)
__CPROVER_assigns(copyG)
__CPROVER_ensures(copyG == __CPROVER_old(copyG) + (i == G ? 1 : 0));
#define WF (componentCount_ <= MAXC && G < componentCount_ && PRE[0] == 0)

unsigned compound_getSerializationLength(void)
__CPROVER_requires(componentCount_ <= MAXC && PRE[0] == 0)
__CPROVER_assigns()
__CPROVER_ensures(__CPROVER_return_value == PRE[componentCount_])     /* the length is the sum of the components' lengths */
/*@BODY getSerializationLength@*/
void compound_serialize(void *serialization)
__CPROVER_requires(WF && serialization == (void *)BUF && serG == 0)
__CPROVER_assigns(serG)
__CPROVER_ensures(serG == 1)      /* every component serialized exactly once (at its offset: call-site obligation) */
/*@BODY serialize@*/
void compound_deserialize(const void *serialization)
__CPROVER_requires(WF && serialization == (const void *)BUF && deserG == 0)
__CPROVER_assigns(deserG)
__CPROVER_ensures(deserG == 1)
/*@BODY deserialize@*/
void compound_copyState(void)
__CPROVER_requires(WF && copyG == 0)
__CPROVER_assigns(copyG)
__CPROVER_ensures(copyG == 1)     /* every component copied exactly once, slot i to slot i */
/*@BODY copyState@*/
void h_len(void) { unsigned l = compound_getSerializationLength(); if (componentCount_ > 2) REACH("several"); if (componentCount_ == 0) REACH("none"); }
void h_ser(void) { compound_serialize(BUF); REACH("done"); }
void h_deser(void) { compound_deserialize(BUF); REACH("done"); }
void h_copy(void) { compound_copyState(); REACH("done"); }
