/* C09 -- PlannerData::decoupleFromPlanner (base and control): after the call every vertex state (control::PlannerData: and every edge control) is a clone OWNED by
 * the planner data with the same content; a state / control that was already owned is not cloned again (idempotent); the state-to-index map follows: the old
 * state pointer no longer maps to the vertex, the clone maps to the same vertex index.  Bounded: <= 3 vertices, <= 3 edges. */
#include <stdbool.h>
#include <stddef.h>
#define NV 3
#define NOBJ 32
#define REACH(msg) __CPROVER_assert(0, "REACH " msg)
int nondet_int(void); bool nondet_bool(void);
unsigned nv; int V_state[NV];                 /* state object of vertex i */
int OBJ_content[NOBJ]; bool OBJ_owned[NOBJ]; unsigned obj_next; int MAP_index[NOBJ]; /* stateIndexMap_: object -> vertex index or -1 */
bool EDGE_exists[NV][NV]; int E_ctrl[NV][NV]; bool CTRL_owned[NOBJ];
static unsigned NUM_VERTICES(void) { return nv; }
static bool DEC_STATES_HAS(int s) { return OBJ_owned[s]; }
static int CLONE_STATE(int s) { __CPROVER_assert(obj_next < NOBJ, "model capacity"); int n = (int)obj_next++; OBJ_content[n] = OBJ_content[s]; OBJ_owned[n] = false; MAP_index[n] = -1; return n; }
static void DEC_STATES_INSERT(int s) { OBJ_owned[s] = true; }
static void MAP_ERASE(int s) { MAP_index[s] = -1; }
static void MAP_SET(int s, unsigned i) { MAP_index[s] = (int)i; }
static bool DEC_CTRLS_HAS(int c) { return CTRL_owned[c]; }
static int CLONE_CONTROL(int c) { __CPROVER_assert(obj_next < NOBJ, "model capacity"); int n = (int)obj_next++; OBJ_content[n] = OBJ_content[c]; CTRL_owned[n] = false; return n; }
static void DEC_CTRLS_INSERT(int c) { CTRL_owned[c] = true; }
unsigned base_calls;
void pd_decouple(void)
/*@BODY pd_decouple@*/
static void BASE_DECOUPLE(void) { base_calls++; pd_decouple(); }
void cpd_decouple(void)
/*@BODY cpd_decouple@*/
int st0[NV], ct0[NV][NV]; bool owned0[NV], cowned0[NV][NV];
static void any_world(void)
{
    __CPROVER_assume(nv <= NV); obj_next = 0; base_calls = 0;
    for (unsigned i = 0; i < NV; i++) { int s = (int)obj_next++; V_state[i] = s; OBJ_owned[s] = nondet_bool(); MAP_index[s] = (int)i; st0[i] = OBJ_content[s]; owned0[i] = OBJ_owned[s]; }
    for (unsigned i = 0; i < NV; i++) for (unsigned j = 0; j < NV; j++) { int c = (int)obj_next++; E_ctrl[i][j] = c; CTRL_owned[c] = nondet_bool(); ct0[i][j] = OBJ_content[c]; cowned0[i][j] = CTRL_owned[c]; }
}
static void check_states(void)
{
    for (unsigned i = 0; i < NV; i++) if (i < nv)
    {
        int s = V_state[i];
        __CPROVER_assert(s >= 0 && s < NOBJ && OBJ_owned[s] && OBJ_content[s] == st0[i], "C09.copy every vertex state is owned by the planner data and has the content it had");
        __CPROVER_assert(MAP_index[s] == (int)i, "the state-to-index map finds the vertex under its (possibly new) state");
        if (owned0[i]) __CPROVER_assert(s == (int)i, "a state that was already owned is not cloned again"); else __CPROVER_assert(s != (int)i && MAP_index[i] == -1, "a planner's state is replaced by a clone and no longer maps to the vertex");
    }
}
void h_pd_decouple(void) { any_world(); pd_decouple(); check_states(); if (nv == 3 && !owned0[0] && owned0[1]) REACH("mixed ownership"); }
void h_cpd_decouple(void)
{
    any_world(); cpd_decouple(); __CPROVER_assert(base_calls == 1, "the states are handled by the base class, once"); check_states();
    for (unsigned i = 0; i < NV; i++) for (unsigned j = 0; j < NV; j++) if (i < nv && j < nv && EDGE_exists[i][j])
    {
        int c = E_ctrl[i][j];
        __CPROVER_assert(c >= 0 && c < NOBJ && CTRL_owned[c] && OBJ_content[c] == ct0[i][j], "C09.copy every edge control is owned by the planner data and has the content it had");
        if (cowned0[i][j]) __CPROVER_assert(c == (int)(NV + i * NV + j), "a control that was already owned is not cloned again");
    }
    if (nv == 3 && EDGE_exists[0][1] && !cowned0[0][1]) REACH("a planner-owned control was cloned");
}
