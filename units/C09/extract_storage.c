/* C09 -- PlannerData::extractStateStorage(): the extracted GraphStateStorage is isomorphic to the planner-data graph: vertex v becomes the stored
 * state indexMap[v] (states are stored in the order of stateIndexMap_, i.e. by state ADDRESS, an arbitrary permutation of the vertex order), and the
 * metadata of stored state indexMap[v] lists exactly indexMap[w] for the edges v -> w, in order.  Bounded: <= 3 vertices. */
#include <stdbool.h>
#include <stddef.h>
#define NV 3
#define REACH(msg) __CPROVER_assert(0, "REACH " msg)
unsigned nv; unsigned ORDER[NV];            /* ORDER[o] = vertex index of the o-th entry of stateIndexMap_ (address order) */
int STATE_OF[NV];                           /* state (token) of vertex v */
bool EDGE[NV][NV];                          /* adjacency */
bool HAS_GRAPH;
int store_state[NV]; unsigned store_size; unsigned MD[NV][NV]; unsigned MD_n[NV];
static void STORE_INIT(void) { store_size = 0; for (unsigned i = 0; i < NV; i++) MD_n[i] = 0; }
static void STORE_ADD(int st) { __CPROVER_assert(store_size < NV, "model capacity"); store_state[store_size++] = st; }
static unsigned GET_EDGES(unsigned v, unsigned *out) { unsigned n = 0; __CPROVER_assert(v < nv, "getEdges of a vertex of the graph"); for (unsigned w = 0; w < NV; w++) if (w < nv && EDGE[v][w]) out[n++] = w; return n; }
void pd_extractStateStorage(void)
/*@BODY extractStateStorage@*/
void h_extractStateStorage(void)
{
    __CPROVER_assume(nv <= NV); HAS_GRAPH = true;
    for (unsigned o = 0; o < NV; o++) if (o < nv) { __CPROVER_assume(ORDER[o] < nv); for (unsigned p = 0; p < o; p++) __CPROVER_assume(ORDER[p] != ORDER[o]); }
    pd_extractStateStorage();
    __CPROVER_assert(store_size == nv, "C09.iso one stored state per vertex");
    unsigned pos[NV]; for (unsigned o = 0; o < NV; o++) if (o < nv) pos[ORDER[o]] = o;          /* the isomorphism: vertex v <-> stored state pos[v] */
    for (unsigned v = 0; v < NV; v++) if (v < nv)
    {
        __CPROVER_assert(store_state[pos[v]] == STATE_OF[v], "C09.iso the stored state of a vertex is that vertex's state");
        unsigned deg = 0; for (unsigned w = 0; w < NV; w++) if (w < nv && EDGE[v][w]) deg++;
        __CPROVER_assert(MD_n[pos[v]] == deg, "C09.iso as many metadata entries as outgoing edges");
        for (unsigned w = 0; w < NV; w++) if (w < nv)
        {
            bool listed = false; for (unsigned k = 0; k < NV; k++) if (k < MD_n[pos[v]] && MD[pos[v]][k] == pos[w]) listed = true;
            __CPROVER_assert(!listed == !EDGE[v][w], "C09.iso the metadata of a stored state lists exactly the STORED indices of the vertex's neighbours");
        }
    }
    if (nv == 3 && ORDER[0] == 2 && EDGE[2][0]) REACH("address order differs from vertex order");
}
