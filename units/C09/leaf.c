/* C09: leaf spaces (SO2, Time, Discrete): serialize / deserialize / copyState are byte-exact; loop-free complete proofs. */
#include <string.h>
#include <stdbool.h>
#include <stddef.h>
typedef struct { double value; } SO2State; typedef struct { double position; } TimeState; typedef struct { int value; } DiscState;
#define REACH(tag) __CPROVER_assert(0, "REACH " tag)
void so2_copyState(SO2State *destination, const SO2State *source)
/*@BODY so2_copyState@*/
unsigned so2_len(void)
/*@BODY so2_len@*/
void so2_serialize(void *serialization, const SO2State *state)
/*@BODY so2_serialize@*/
void so2_deserialize(SO2State *state, const void *serialization)
/*@BODY so2_deserialize@*/
void time_copyState(TimeState *destination, const TimeState *source)
/*@BODY time_copyState@*/
unsigned time_len(void)
/*@BODY time_len@*/
void time_serialize(void *serialization, const TimeState *state)
/*@BODY time_serialize@*/
void time_deserialize(TimeState *state, const void *serialization)
/*@BODY time_deserialize@*/
void disc_copyState(DiscState *destination, const DiscState *source)
/*@BODY disc_copyState@*/
unsigned disc_len(void)
/*@BODY disc_len@*/
void disc_serialize(void *serialization, const DiscState *state)
/*@BODY disc_serialize@*/
void disc_deserialize(DiscState *state, const void *serialization)
/*@BODY disc_deserialize@*/
double nondet_double(void); int nondet_int(void);
#define SAMEBITS(a, b) (memcmp(&(a), &(b), sizeof(a)) == 0)
void harness(void)
{
    { SO2State s, c, d; s.value = nondet_double(); char buf[8]; __CPROVER_assert(so2_len() == 8, "SO2 serialization length is sizeof(double)");
      so2_serialize(buf, &s); so2_deserialize(&d, buf); so2_copyState(&c, &s);
      __CPROVER_assert(SAMEBITS(d.value, s.value), "C09.roundtrip SO2 serialize then deserialize reproduces the state bit for bit");
      __CPROVER_assert(SAMEBITS(c.value, s.value), "C09.copy SO2 copyState reproduces the state bit for bit"); }
    { TimeState s, c, d; s.position = nondet_double(); char buf[8]; __CPROVER_assert(time_len() == 8, "Time serialization length");
      time_serialize(buf, &s); time_deserialize(&d, buf); time_copyState(&c, &s);
      __CPROVER_assert(SAMEBITS(d.position, s.position) && SAMEBITS(c.position, s.position), "C09.roundtrip Time state reproduced bit for bit by serialize/deserialize and copyState"); }
    { DiscState s, c, d; s.value = nondet_int(); char buf[4]; __CPROVER_assert(disc_len() == 4, "Discrete serialization length is sizeof(int)");
      disc_serialize(buf, &s); disc_deserialize(&d, buf); disc_copyState(&c, &s);
      __CPROVER_assert(d.value == s.value && c.value == s.value, "C09.roundtrip Discrete state reproduced exactly"); }
    REACH("done");
}
