/* C09 -- storing a planner-data graph and loading it back gives an isomorphic graph; a wrong marker, a different
 * space signature or a truncated stream is rejected (base/PlannerDataStorage.{h,cpp}, control/PlannerDataStorage.h).
 *
 * Model (trusted base): the boost archive is a tape of typed records (header, vertex records, edge records) with a
 * read budget `avail` -- a read beyond the budget or beyond what was written raises the archive exception (EXC_);
 * PlannerData is a small graph (<= NV vertices, <= NE edges with distinct endpoint pairs) whose vertex / edge
 * objects carry an opaque tag ("everything the user's serialize() writes"), states and controls are references
 * into content maps (serialize = content token of the reference, deserialize = set the content of the reference),
 * decoupleFromPlanner() clones the state of every vertex (and the control of every edge).
 * Bounded: NV = 3, NE = 3. */
#include <stdbool.h>
#include <stddef.h>
#define NV 3
#define NE 3
#define NOBJ 20
#define REACH(msg) __CPROVER_assert(0, "REACH " msg)
#define T_STANDARD 0
#define T_START 1
#define T_GOAL 2
#define OMPL_PLANNER_DATA_ARCHIVE_MARKER 0x5044414Du
#define OMPL_PLANNER_DATA_CONTROL_ARCHIVE_MARKER 0x5044434Du
int nondet_int(void); unsigned nondet_unsigned(void); bool nondet_bool(void); double nondet_double(void);

/* ---- states / controls: references with content, allocation ghosts ---- */
int ST_content[NOBJ]; bool ST_alive[NOBJ]; bool ST_decoupled[NOBJ]; unsigned ST_next;
static int ALLOC_STATE(void) { __CPROVER_assert(ST_next < NOBJ, "model capacity (states)"); int r = (int)ST_next++; ST_alive[r] = true; ST_decoupled[r] = false; ST_content[r] = nondet_int(); return r; }
static void FREE_STATE(int s) { __CPROVER_assert(s >= 0 && s < NOBJ && ST_alive[s], "C09.mem a state is freed once, and only a live one"); ST_alive[s] = false; }
static int SERIALIZE(int s) { __CPROVER_assert(s >= 0 && s < NOBJ && ST_alive[s], "C09.mem serialize reads a live state"); return ST_content[s]; }
static void DESERIALIZE(int s, int token) { __CPROVER_assert(s >= 0 && s < NOBJ && ST_alive[s], "C09.mem deserialize writes a live state"); ST_content[s] = token; }
/* ---- vertex / edge objects (what the archive (de)serializes through the object pointer) ---- */
int VO_tag[NOBJ]; int VO_state[NOBJ]; bool VO_alive[NOBJ]; unsigned VO_next;
int EO_tag[NOBJ]; int EO_ctrl[NOBJ]; bool EO_alive[NOBJ]; unsigned EO_next;
static int VO_NEW(int tag, int state) { __CPROVER_assert(VO_next < NOBJ, "model capacity (vertex objects)"); int r = (int)VO_next++; VO_alive[r] = true; VO_tag[r] = tag; VO_state[r] = state; return r; }
static int EO_NEW(int tag, int ctrl) { __CPROVER_assert(EO_next < NOBJ, "model capacity (edge objects)"); int r = (int)EO_next++; EO_alive[r] = true; EO_tag[r] = tag; EO_ctrl[r] = ctrl; return r; }
static void VO_DELETE(int v) { __CPROVER_assert(v >= 0 && v < NOBJ && VO_alive[v], "C09.mem a deserialized vertex object is deleted once"); VO_alive[v] = false; }
static void EO_DELETE(int e) { __CPROVER_assert(e >= 0 && e < NOBJ && EO_alive[e], "C09.mem a deserialized edge object is deleted once"); EO_alive[e] = false; }

/* ---- PlannerData ---- */
typedef struct { bool has_si; unsigned nv; int vobj[NV]; int kind[NV]; unsigned ne; unsigned efrom[NE], eto[NE]; double ew[NE]; int eobj[NE]; bool overflow; } PData;
static bool PD_hasSI(const PData *pd) { return pd->has_si; }
static unsigned PD_numVertices(const PData *pd) { return pd->nv; }
static unsigned PD_numEdges(const PData *pd) { return pd->ne; }
static int PD_getVertex(const PData *pd, unsigned i) { __CPROVER_assert(i < pd->nv, "getVertex index in range"); return pd->vobj[i]; }
static bool PD_isStartVertex(const PData *pd, unsigned i) { return i < pd->nv && pd->kind[i] == T_START; }
static bool PD_isGoalVertex(const PData *pd, unsigned i) { return i < pd->nv && pd->kind[i] == T_GOAL; }
static void PD_clear(PData *pd) { pd->nv = 0; pd->ne = 0; }
static void PD_addVertexKind(PData *pd, int v, int kind)
{   /* addVertex clones the vertex object (same tag, same state pointer) */
    __CPROVER_assert(v >= 0 && v < NOBJ && VO_alive[v], "addVertex is given a live vertex object");
    if (pd->nv >= NV) { pd->overflow = true; return; }
    pd->vobj[pd->nv] = VO_NEW(VO_tag[v], VO_state[v]); pd->kind[pd->nv] = kind; pd->nv++;
}
#define PD_addStartVertex(pd, v) PD_addVertexKind(pd, v, T_START)
#define PD_addGoalVertex(pd, v) PD_addVertexKind(pd, v, T_GOAL)
#define PD_addVertex(pd, v) PD_addVertexKind(pd, v, T_STANDARD)
static unsigned PD_getEdges(const PData *pd, unsigned from, unsigned *list)
{
    unsigned n = 0;
    for (unsigned k = 0; k < NE; k++) if (k < pd->ne && pd->efrom[k] == from) list[n++] = pd->eto[k];
    return n;
}
static int edge_slot(const PData *pd, unsigned a, unsigned b) { for (unsigned k = 0; k < NE; k++) if (k < pd->ne && pd->efrom[k] == a && pd->eto[k] == b) return (int)k; return -1; }
static bool PD_getEdgeWeight(const PData *pd, unsigned a, unsigned b, double *w) { int k = edge_slot(pd, a, b); if (k < 0) return false; *w = pd->ew[k]; return true; }
static int PD_getEdge(const PData *pd, unsigned a, unsigned b) { int k = edge_slot(pd, a, b); __CPROVER_assert(k >= 0, "getEdge of an existing edge"); return k < 0 ? 0 : pd->eobj[k]; }
/* addEdge(v1, v2, edgeObject, weight = Cost(1.0)): the default weight of the C++ signature is the variadic tail */
static void PD_addEdge_(PData *pd, unsigned a, unsigned b, int e, double w, ...)
{
    __CPROVER_assert(e >= 0 && e < NOBJ && EO_alive[e], "addEdge is given a live edge object");
    if (a >= pd->nv || b >= pd->nv || edge_slot(pd, a, b) >= 0) return;            /* addEdge refuses unknown vertices / duplicates */
    if (pd->ne >= NE) { pd->overflow = true; return; }
    pd->efrom[pd->ne] = a; pd->eto[pd->ne] = b; pd->ew[pd->ne] = w; pd->eobj[pd->ne] = EO_NEW(EO_tag[e], EO_ctrl[e]); pd->ne++;
}
#define PD_addEdge(...) PD_addEdge_(__VA_ARGS__, 1.0)
unsigned decouples;
static void PD_decouple(PData *pd)
{   /* clones the state of every vertex (control::PlannerData: and the control of every edge) that the graph does not own yet (idempotent) */
    decouples++;
    for (unsigned i = 0; i < NV; i++) if (i < pd->nv)
    { int s = VO_state[pd->vobj[i]]; if (s >= 0 && s < NOBJ && ST_decoupled[s]) continue; int c = SERIALIZE(s); int n = ALLOC_STATE(); ST_content[n] = c; ST_decoupled[n] = true; VO_state[pd->vobj[i]] = n; }
#ifdef CONTROL
    for (unsigned k = 0; k < NE; k++) if (k < pd->ne)
    { int s = EO_ctrl[pd->eobj[k]]; if (s >= 0 && s < NOBJ && ST_decoupled[s]) continue; int c = SERIALIZE(s); int n = ALLOC_STATE(); ST_content[n] = c; ST_decoupled[n] = true; EO_ctrl[pd->eobj[k]] = n; }
#endif
}

/* ---- archive ---- */
typedef struct { unsigned marker; unsigned vertex_count, edge_count; int signature; int control_signature; } Header;
typedef struct { int v_; int state_; int type_; } VData;
typedef struct { int e_; unsigned first, second; double weight_; int control_; } EData;
struct { bool has_h; Header h; unsigned nvr; int v_tag[NV]; int v_state[NV]; int v_type[NV]; unsigned ner; int e_tag[NE]; int e_ctrl[NE]; unsigned e_first[NE], e_second[NE]; double e_w[NE]; int e_control[NE];
         unsigned rv, re; unsigned avail; } AR;
bool EXC_; bool stream_good; int SPACE_SIG, CONTROL_SIG;
static void AR_PUT_H(const Header *h) { AR.has_h = true; AR.h = *h; }
static void AR_PUT_V(const VData *d)
{   /* the archive follows the object pointer: it stores the vertex object's own data (tag), the state buffer and the type */
    __CPROVER_assert(AR.nvr < NV, "model capacity (vertex records)"); unsigned k = AR.nvr++;
    AR.v_tag[k] = VO_tag[d->v_]; AR.v_state[k] = d->state_; AR.v_type[k] = d->type_;
}
static void AR_PUT_E(const EData *d)
{
    __CPROVER_assert(AR.ner < NE, "model capacity (edge records)"); unsigned k = AR.ner++;
    AR.e_tag[k] = EO_tag[d->e_]; AR.e_first[k] = d->first; AR.e_second[k] = d->second; AR.e_w[k] = d->weight_; AR.e_control[k] = d->control_;
}
static bool budget(void) { if (AR.avail == 0) return false; AR.avail--; return true; }
static bool AR_GET_H(Header *h) { if (!AR.has_h || !budget()) return false; *h = AR.h; return true; }
static bool AR_GET_V(VData *d)
{   /* deserializing through the pointer creates a NEW vertex object owned by the caller; its state pointer is not part of the record */
    if (AR.rv >= AR.nvr || !budget()) return false; unsigned k = AR.rv++;
    d->v_ = VO_NEW(AR.v_tag[k], -1); d->state_ = AR.v_state[k]; d->type_ = AR.v_type[k]; return true;
}
static bool AR_GET_E(EData *d)
{
    if (AR.re >= AR.ner || !budget()) return false; unsigned k = AR.re++;
    d->e_ = EO_NEW(AR.e_tag[k], -1); d->first = AR.e_first[k]; d->second = AR.e_second[k]; d->weight_ = AR.e_w[k]; d->control_ = AR.e_control[k]; return true;
}

void pds_storeVertices(const PData *pd)
/*@BODY storeVertices@*/
void pds_loadVertices(PData *pd, unsigned int numVertices)
/*@BODY loadVertices@*/
void pds_storeEdges(const PData *pd)
/*@BODY storeEdges@*/
void pds_loadEdges(PData *pd, unsigned int numEdges)
/*@BODY loadEdges@*/
bool pds_store(const PData *pd)
/*@BODY store@*/
bool pds_load(PData *pd)
/*@BODY load@*/

/* ---------------------------------------------------------------- harnesses */
PData P0, P1;
static void any_graph(PData *pd)
{
    pd->has_si = true; pd->overflow = false;
    __CPROVER_assume(pd->nv <= NV && pd->ne <= NE);
    for (unsigned i = 0; i < NV; i++) if (i < pd->nv)
    { int s = ALLOC_STATE(); pd->vobj[i] = VO_NEW(nondet_int(), s); __CPROVER_assume(pd->kind[i] >= 0 && pd->kind[i] <= 2); }
    for (unsigned k = 0; k < NE; k++) if (k < pd->ne)
    {
        __CPROVER_assume(pd->efrom[k] < pd->nv && pd->eto[k] < pd->nv && pd->ew[k] == pd->ew[k]);
        for (unsigned j = 0; j < k; j++) __CPROVER_assume(!(pd->efrom[j] == pd->efrom[k] && pd->eto[j] == pd->eto[k]));
        int c = -1;
#ifdef CONTROL
        c = ALLOC_STATE();
#endif
        pd->eobj[k] = EO_NEW(nondet_int(), c);
    }
}
static void fresh_world(void)
{
    ST_next = 0; VO_next = 0; EO_next = 0; decouples = 0; EXC_ = false; stream_good = true;
    for (unsigned i = 0; i < NOBJ; i++) { ST_alive[i] = false; VO_alive[i] = false; EO_alive[i] = false; }
    AR.has_h = false; AR.nvr = 0; AR.ner = 0; AR.rv = 0; AR.re = 0;
}
void h_roundtrip(void)
{
    fresh_world(); any_graph(&P0);
    bool ok = pds_store(&P0);
    __CPROVER_assert(ok, "C09.store storing a graph with a valid space information succeeds");
    __CPROVER_assert(AR.has_h && AR.h.vertex_count == P0.nv && AR.h.edge_count == P0.ne && AR.nvr == P0.nv && AR.ner == P0.ne, "C09.store the header counts are the numbers of records written");
    unsigned live_before = 0; for (unsigned i = 0; i < NOBJ; i++) if (ST_alive[i]) live_before++;
    /* load into another (dirty) PlannerData over the same spaces, nothing truncated */
    P1.has_si = true; P1.overflow = false; __CPROVER_assume(P1.nv <= NV && P1.ne <= NE); AR.avail = 100;
    unsigned vo0 = VO_next, eo0 = EO_next;
    bool ld = pds_load(&P1);
    __CPROVER_assert(ld && !P1.overflow, "C09.load a stored graph loads");
    __CPROVER_assert(P1.nv == P0.nv && P1.ne == P0.ne, "C09.iso same number of vertices and edges");
    for (unsigned i = 0; i < NV; i++) if (i < P0.nv)
    {
        __CPROVER_assert(P1.kind[i] == P0.kind[i], "C09.iso start/goal marks survive");
        __CPROVER_assert(VO_tag[P1.vobj[i]] == VO_tag[P0.vobj[i]], "C09.iso vertex tags survive");
        int s = VO_state[P1.vobj[i]];
        __CPROVER_assert(s >= 0 && s < NOBJ && ST_alive[s] && ST_content[s] == ST_content[VO_state[P0.vobj[i]]], "C09.iso vertex states survive and are owned (alive) after the loader freed its scratch states");
    }
    for (unsigned k = 0; k < NE; k++) if (k < P0.ne)
    {
        int j = edge_slot(&P1, P0.efrom[k], P0.eto[k]);
        __CPROVER_assert(j >= 0, "C09.iso every stored edge is loaded between the same vertices");
        if (j >= 0)
        {
            __CPROVER_assert(P1.ew[j] == P0.ew[k], "C09.iso edge weights survive");
            __CPROVER_assert(EO_tag[P1.eobj[j]] == EO_tag[P0.eobj[k]], "C09.iso edge tags survive");
#ifdef CONTROL
            int c = EO_ctrl[P1.eobj[j]];
            __CPROVER_assert(c >= 0 && c < NOBJ && ST_alive[c] && ST_content[c] == ST_content[EO_ctrl[P0.eobj[k]]], "C09.iso edge controls survive and are owned (alive)");
#endif
        }
    }
    /* the loader's own objects: every deserialized vertex/edge object deleted, every scratch state freed */
    unsigned live_after = 0; for (unsigned i = 0; i < NOBJ; i++) if (ST_alive[i]) live_after++;
#ifdef CONTROL
    __CPROVER_assert(live_after == live_before + P0.nv + P0.ne, "C09.mem only the graph's own clones of states and controls stay allocated");
#else
    __CPROVER_assert(live_after == live_before + P0.nv, "C09.mem only the graph's own clones of the states stay allocated");
#endif
    if (P0.nv == 3 && P0.ne == NE) REACH("full graph"); if (P0.nv == 0) REACH("empty graph");
    if (P0.nv > 0 && P0.kind[0] == T_GOAL) REACH("goal vertex");
}
void h_reject(void)
{   /* an arbitrary tape: wrong marker, foreign signature or truncation => load reports false */
    fresh_world();
    AR.has_h = nondet_bool(); __CPROVER_assume(AR.nvr <= NV && AR.ner <= NE);
    for (unsigned k = 0; k < NV; k++) __CPROVER_assume(AR.v_type[k] >= 0 && AR.v_type[k] <= 2);
    P1.has_si = nondet_bool(); P1.overflow = false; __CPROVER_assume(P1.nv <= NV && P1.ne <= NE);
    stream_good = nondet_bool();
    unsigned avail0 = AR.avail;
    bool ld = pds_load(&P1);
#ifdef CONTROL
    bool marker_ok = AR.h.marker == OMPL_PLANNER_DATA_CONTROL_ARCHIVE_MARKER, sig_ok = AR.h.signature == SPACE_SIG && AR.h.control_signature == CONTROL_SIG;
#else
    bool marker_ok = AR.h.marker == OMPL_PLANNER_DATA_ARCHIVE_MARKER, sig_ok = AR.h.signature == SPACE_SIG;
#endif
    if (!stream_good || !P1.has_si) __CPROVER_assert(!ld, "C09.reject an invalid stream or missing space information is reported");
    if (!AR.has_h || avail0 == 0) __CPROVER_assert(!ld, "C09.reject an empty / unreadable archive is reported");
    if (AR.has_h && !marker_ok) __CPROVER_assert(!ld && P1.nv == 0 && P1.ne == 0, "C09.reject a wrong marker is rejected and nothing is loaded");
    if (AR.has_h && !sig_ok) __CPROVER_assert(!ld && P1.nv == 0 && P1.ne == 0, "C09.reject a different space signature is rejected and nothing is loaded");
    if (AR.has_h && (AR.h.vertex_count > AR.nvr || AR.h.edge_count > AR.ner)) __CPROVER_assert(!ld, "C09.reject a stream shorter than its header announces is rejected");
    if (AR.has_h && avail0 < 1 + AR.h.vertex_count + AR.h.edge_count) __CPROVER_assert(!ld, "C09.reject a truncated stream is rejected");
    if (ld) { __CPROVER_assert(P1.nv <= AR.h.vertex_count, "C09.load never more vertices than announced"); REACH("accepted"); }
    if (!ld && AR.has_h && marker_ok && sig_ok && stream_good && P1.has_si) REACH("truncated");
}
