/* C09 (planner-data graphs): start/goal marks.  PlannerData::markStartState / markGoalState / isStartVertex / isGoalVertex with
 * std::sort modelled by insertion sort and std::binary_search by a real binary search (wrong on unsorted input, as the real one);
 * stateIndexMap_ is the identity (state k is vertex k).  Bounded: <= 4 marks of each kind over <= 6 vertices, any order. */
#include <stdbool.h>
#include <stddef.h>
#define NV 6
#define NM 4
unsigned startVertexIndices_[NM + 1], goalVertexIndices_[NM + 1]; size_t startVertexIndices__size, goalVertexIndices__size;
#define REACH(tag) __CPROVER_assert(0, "REACH " tag)
#define MAP_FIND(st) ((st) < NV ? (int)(st) : -1)
static void SORT(unsigned *v, size_t n) { for (size_t i = 1; i < NM + 1; i++) if (i < n) { unsigned k = v[i]; size_t j = i; for (size_t t = 0; t < NM + 1; t++) if (j > 0 && v[j - 1] > k) { v[j] = v[j - 1]; j--; } v[j] = k; } }
static bool BSEARCH(const unsigned *v, size_t n, unsigned x) { size_t lo = 0, hi = n; for (int t = 0; t < 4; t++) if (lo < hi) { size_t mid = lo + (hi - lo) / 2; if (v[mid] < x) lo = mid + 1; else hi = mid; } return lo < n && v[lo] == x; }
#define PUSH(v, x) do { __CPROVER_assert(v##_size < NM + 1, "capacity"); v[v##_size++] = (x); } while (0)
bool pd_isStartVertex(unsigned int index)
/*@BODY isStartVertex@*/
bool pd_isGoalVertex(unsigned int index)
/*@BODY isGoalVertex@*/
bool pd_markStartState(unsigned st)
/*@BODY markStartState@*/
bool pd_markGoalState(unsigned st)
/*@BODY markGoalState@*/
unsigned nondet_unsigned(void); bool nondet_bool(void);
void harness(void)
{
    bool sm[NV], gm[NV]; for (int i = 0; i < NV; i++) sm[i] = gm[i] = 0;
    startVertexIndices__size = goalVertexIndices__size = 0;
    for (int k = 0; k < NM; k++)
    {
        unsigned v = nondet_unsigned(); __CPROVER_assume(v < NV + 1); bool goal = nondet_bool();
        /* keep within NM marks of each kind */
        bool r = goal ? pd_markGoalState(v) : pd_markStartState(v);
        __CPROVER_assert(r == (v < NV), "marking reports whether the state is a vertex of the graph");
        if (v < NV) { if (goal) gm[v] = 1; else sm[v] = 1; }
        unsigned q = nondet_unsigned(); __CPROVER_assume(q < NV);
        __CPROVER_assert(pd_isStartVertex(q) == sm[q], "C09.marks a vertex is reported as start exactly when it was marked as start (whatever the marking order)");
        __CPROVER_assert(pd_isGoalVertex(q) == gm[q], "C09.marks a vertex is reported as goal exactly when it was marked as goal (whatever the marking order)");
    }
    if (goalVertexIndices__size == 3 && goalVertexIndices_[0] < goalVertexIndices_[1]) REACH("three goals");
    if (startVertexIndices__size >= 2) REACH("several starts");
}
