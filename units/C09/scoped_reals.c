/* C09 -- ScopedState<T>::reals() and ScopedState<T>::operator=(const std::vector<double>&): a state converted to its vector of reals and back
 * is the same state, for EVERY state space the library can build -- including one that was never setup() (the value-location tables that
 * copyToReals/copyFromReals use are filled by setup(); getValueAddressAtIndex works without them).
 * The C++ member-call syntax is kept: space_ is a struct of function pointers (getValueAddressAtIndex walks the state's NV doubles; copyToReals /
 * copyFromReals walk the value-location table, which holds NLOC <= NV entries: NLOC == NV only after setup()).  Bounded: <= 4 doubles. */
#include <stdbool.h>
#include <stddef.h>
#define NVMAX 4
#define REACH(msg) __CPROVER_assert(0, "REACH " msg)
typedef struct { double v[NVMAX]; } State;
typedef struct { double d[NVMAX + 1]; unsigned n; } Vec;
unsigned NV, NLOC;
static double *sp_getValueAddressAtIndex(State *s, unsigned i) { return i < NV ? &s->v[i] : (double *)0; }
static void sp_copyToReals(Vec *r, const State *s) { r->n = NLOC; for (unsigned i = 0; i < NVMAX; i++) if (i < NLOC) r->d[i] = s->v[i]; }
static void sp_copyFromReals(State *s, const Vec *r) { for (unsigned i = 0; i < NVMAX; i++) if (i < NLOC && i < r->n) s->v[i] = r->d[i]; }
struct Space { double *(*getValueAddressAtIndex)(State *, unsigned); void (*copyToReals)(Vec *, const State *); void (*copyFromReals)(State *, const Vec *); };
struct Space SPACE = { sp_getValueAddressAtIndex, sp_copyToReals, sp_copyFromReals }; struct Space *space_ = &SPACE;
State *state_;
static void VEC_PUSH(Vec *r, double x) { __CPROVER_assert(r->n <= NVMAX, "model capacity"); r->d[r->n++] = x; }
Vec ss_reals(void)
/*@BODY reals@*/
void ss_assign_reals(const Vec *reals_p)
/*@BODY assign_reals@*/
void h_scoped_reals(void)
{
    State a, b; __CPROVER_assume(NV <= NVMAX && NLOC <= NV);
    space_ = &SPACE; SPACE.getValueAddressAtIndex = sp_getValueAddressAtIndex; SPACE.copyToReals = sp_copyToReals; SPACE.copyFromReals = sp_copyFromReals;   /* statics are havocked in plain mode */      /* NLOC < NV: the space (or a subspace added later) was not set up */
    for (unsigned i = 0; i < NVMAX; i++) __CPROVER_assume(a.v[i] == a.v[i]);
    state_ = &a; Vec r = ss_reals();
    __CPROVER_assert(r.n == NV, "C09.reals the vector of reals has one entry per double of the state");
    for (unsigned i = 0; i < NVMAX; i++) if (i < NV) __CPROVER_assert(r.d[i] == a.v[i], "C09.reals entry i is the i-th double of the state");
    state_ = &b; ss_assign_reals(&r);
    for (unsigned i = 0; i < NVMAX; i++) if (i < NV) __CPROVER_assert(b.v[i] == a.v[i], "C09.reals state -> reals -> state gives the same state");
    if (NV == 4 && NLOC == 0) REACH("four doubles, space not set up"); if (NV == 0) REACH("no doubles");
}
