/* C09 (signature used to reject data of a different space): computeStateSpaceSignatureHelper lists (type, dimension) of EVERY
 * node of the space tree in pre-order; the subspace comparator used for common-subspace detection is a strict weak order that
 * separates spaces of equal dimension and different name.  Space trees: <= 7 nodes, arbitrary shape of depth <= 2. */
#include <stdbool.h>
#include <stddef.h>
#define NN 7
#define NCH 3
int S_type[NN], S_dim[NN]; unsigned S_nsub[NN]; unsigned S_sub[NN][NCH]; bool S_compound[NN];
int signature[4 * NN]; size_t signature_size;
#define SIG_PUSH(x) do { __CPROVER_assert(signature_size < 4 * NN, "capacity"); signature[signature_size++] = (x); } while (0)
#define REACH(tag) __CPROVER_assert(0, "REACH " tag)
void sig_helper(unsigned space)
/*@BODY sighelper@*/
typedef struct { int dim; int name; } Loc;    /* space->getDimension(), space->getName() (names as ranks: only compared) */
bool loc_less(const Loc *a, const Loc *b)
/*@BODY compare@*/
unsigned nondet_unsigned(void); int nondet_int(void); bool nondet_bool(void);
void h_signature(void)
{
    /* tree: node 0 root; children of 0 are 1..k; children of child c (if compound) are taken from 4..6 */
    unsigned k = nondet_unsigned(); __CPROVER_assume(k <= NCH);
    unsigned nodes = 1; S_compound[0] = nondet_bool(); S_nsub[0] = S_compound[0] ? k : 0;
    unsigned next = 4;
    for (unsigned c = 0; c < NCH; c++) if (c < S_nsub[0]) { unsigned id = 1 + c; S_sub[0][c] = id; nodes++; S_compound[id] = nondet_bool(); unsigned kk = nondet_unsigned(); __CPROVER_assume(kk <= 2 && next + kk <= NN); S_nsub[id] = S_compound[id] ? kk : 0;
        for (unsigned d = 0; d < 2; d++) if (d < S_nsub[id]) { S_sub[id][d] = next; S_compound[next] = 0; S_nsub[next] = 0; next++; nodes++; } }
    for (unsigned i = 0; i < NN; i++) { S_type[i] = nondet_int(); S_dim[i] = nondet_int(); }
    signature_size = 0;
    sig_helper(0);
    __CPROVER_assert(signature_size == 2 * nodes, "C09.signature every space of the tree contributes (type, dimension) exactly once");
    __CPROVER_assert(signature[0] == S_type[0] && signature[1] == S_dim[0], "the root comes first");
    if (S_nsub[0] >= 1) __CPROVER_assert(signature[2] == S_type[1] && signature[3] == S_dim[1], "C09.signature the FIRST subspace follows the root (pre-order)");
    unsigned g = nondet_unsigned(); __CPROVER_assume(g < NN); bool reachable = g == 0 || (g >= 1 && g <= S_nsub[0]) || (g >= 4 && g < next);
    if (reachable) { bool seen = 0; for (unsigned i = 0; i < 2 * NN; i += 2) if (i + 1 < signature_size && signature[i] == S_type[g] && signature[i + 1] == S_dim[g]) seen = 1; __CPROVER_assert(seen, "C09.signature every subspace appears in the signature"); }
    if (nodes == 7) REACH("full tree"); if (!S_compound[0]) REACH("leaf space");
}
void h_compare(void)
{
    Loc a, b, c; a.dim = nondet_int(); a.name = nondet_int(); b.dim = nondet_int(); b.name = nondet_int(); c.dim = nondet_int(); c.name = nondet_int();
    bool ab = loc_less(&a, &b), ba = loc_less(&b, &a), bc = loc_less(&b, &c), cb = loc_less(&c, &b), ac = loc_less(&a, &c), ca = loc_less(&c, &a);
    __CPROVER_assert(!loc_less(&a, &a) && !(ab && ba) && (!(ab && bc) || ac) && (!(!ab && !ba && !bc && !cb) || (!ac && !ca)), "the substate-location comparator is a strict weak order");
    __CPROVER_assert((a.dim == b.dim && a.name == b.name) || ab || ba, "C09.partial two different common subspaces are never equivalent for the ordered set (none is dropped from a partial copy)");
    if (a.dim == b.dim && ab) REACH("same dimension, ordered by name");
}
