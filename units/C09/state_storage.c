/* C09 -- StateStorage::store / load (StateStorage.cpp): storing a set of states and loading it back gives an equal set (same count, same contents, same order);
 * an archive with a wrong marker, a different space signature or fewer records than announced loads nothing it should not: after a rejected load the storage
 * is empty (wrong marker / signature) and a truncated stream never yields MORE states than were read successfully.
 * Model: the archive is a tape (header + state records) with a read budget; states are content tokens; addState() clones.  Bounded: <= 3 states. */
#include <stdbool.h>
#include <stddef.h>
#define NSM 3
#define REACH(msg) __CPROVER_assert(0, "REACH " msg)
#define OMPL_ARCHIVE_MARKER 0x4C504D4Fu
int nondet_int(void); bool nondet_bool(void);
typedef struct { unsigned marker; size_t state_count; int signature; } Header;
int states_[NSM + 1]; size_t states__size;                 /* contents of the stored states */
bool stream_good, stream_eof, EXC_; int SPACE_SIG;
struct { bool has_h; Header h; int rec[NSM + 1]; unsigned nrec, rd, avail; } AR;
int scratch_content; bool scratch_live; bool buffer_live; unsigned meta_stored, meta_loaded;
static void SS_CLEAR(void) { states__size = 0; }
static void AR_PUT_H(const Header *h) { AR.has_h = true; AR.h = *h; }
static bool AR_GET_H(Header *h) { if (!AR.has_h || AR.avail == 0) return false; AR.avail--; *h = AR.h; return true; }
static void AR_PUT_REC(int content) { __CPROVER_assert(AR.nrec <= NSM, "model capacity"); AR.rec[AR.nrec++] = content; }
static bool AR_GET_REC(int *content) { if (AR.rd >= AR.nrec || AR.avail == 0) return false; AR.avail--; *content = AR.rec[AR.rd++]; return true; }
static int ALLOC_STATE(void) { scratch_live = true; return 7; }
static void FREE_STATE(int s) { __CPROVER_assert(s == 7 && scratch_live, "the scratch state is freed once"); scratch_live = false; }
static void ADD_STATE(int content) { if (states__size <= NSM) states_[states__size] = content; states__size++; }
int buf_;
void ss_storeStates(void)
/*@BODY storeStates@*/
void ss_loadStates(const Header *h_p)
/*@BODY loadStates@*/
void ss_store(void)
/*@BODY store@*/
void ss_load(void)
/*@BODY load@*/
void h_ss_roundtrip(void)
{
    __CPROVER_assume(states__size <= NSM); stream_good = true; stream_eof = false; EXC_ = false; AR.has_h = false; AR.nrec = 0; AR.rd = 0; scratch_live = false; meta_stored = meta_loaded = 0;
    int orig[NSM]; size_t n0 = states__size; for (size_t k = 0; k < NSM; k++) orig[k] = states_[k];
    ss_store();
    __CPROVER_assert(AR.has_h && AR.h.marker == OMPL_ARCHIVE_MARKER && AR.h.state_count == n0 && AR.h.signature == SPACE_SIG && AR.nrec == n0 && meta_stored == 1, "C09.store the header announces exactly the records written, under this space's signature");
    for (size_t k = 0; k < NSM; k++) states_[k] = nondet_int(); states__size = nondet_bool() ? 2 : 0; AR.avail = 100;      /* load into a dirty storage */
    ss_load();
    __CPROVER_assert(states__size == n0 && meta_loaded == 1 && !scratch_live, "C09.set the same number of states comes back; the scratch state is released");
    for (size_t k = 0; k < NSM; k++) if (k < n0) __CPROVER_assert(states_[k] == orig[k], "C09.set every state comes back with its content, in order");
    if (n0 == 3) REACH("three states"); if (n0 == 0) REACH("empty set");
}
void h_ss_reject(void)
{
    stream_good = nondet_bool(); stream_eof = nondet_bool(); EXC_ = false; AR.has_h = nondet_bool(); __CPROVER_assume(AR.nrec <= NSM && AR.h.state_count <= NSM + 1); AR.rd = 0; scratch_live = false; meta_loaded = 0;
    __CPROVER_assume(states__size <= NSM); unsigned avail0 = AR.avail;
    ss_load();
    bool marker_ok = AR.h.marker == OMPL_ARCHIVE_MARKER, sig_ok = AR.h.signature == SPACE_SIG;
    if (!stream_good || stream_eof || !AR.has_h || avail0 == 0 || !marker_ok || !sig_ok) { __CPROVER_assert(states__size == 0 && meta_loaded == 0, "C09.reject a bad stream, a wrong marker or a different space signature loads nothing (and the old content is gone)"); REACH("rejected"); }
    __CPROVER_assert(states__size <= AR.nrec && states__size <= AR.h.state_count, "C09.reject a truncated stream never yields more states than records that exist");
    if (states__size < AR.h.state_count && AR.has_h && marker_ok && sig_ok && stream_good && !stream_eof) __CPROVER_assert(meta_loaded == 0, "after a failed state record no metadata is read as if the stream were intact");
}
