"""C10 -- nearest-neighbour structures answer exactly like exhaustive search (reduced scope: the linear structure)."""
PROPERTY = "C10"
LEVEL = "proof"
NL = "src/ompl/datastructures/NearestNeighborsLinear.h"
FLAGS = ["--bounds-check", "--pointer-check", "--signed-overflow-check", "--conversion-check", "--div-by-zero-check", "--no-malloc-may-fail", "--object-bits", "12"]
R = [(r"NearestNeighbors<_T>::distFun_\(data_\[i\], data\)", "distIdx(i)", 0), (r"std::size_t", "size_t", 0), (r"data_\.size\(\)", "data__size", 0), (r"data_\.empty\(\)", "(data__size == 0)", 0),
     (r"return data_\[pos\];", "return pos;", 0), (r'throw Exception\("[^"]*"\);', "{ EXC(); return 0; }", 0),
     (r"nbh\.clear\(\);", "nbh_size = 0;", 0),
     (r"for \(const auto &d : data_\)\s*if \(NearestNeighbors<_T>::distFun_\(d, data\) (<=|<|>=|>) radius\)\s*nbh\.push_back\(d\);", r"for (size_t di_ = 0; di_ < data__size; ++di_) if (distIdx(di_) \1 radius) NBH_PUSH(di_);", 0),
     (r"std::sort\(nbh\.begin\(\), nbh\.end\(\), ElemSort\(data, NearestNeighbors<_T>::distFun_\)\);", "NBH_SORT();", 0),
     (r"data_\[i\] == data", "EQ[i]", 0), (r"data_\.erase\(data_\.begin\(\) \+ i\);", "DATA_ERASE((size_t)i);", 0)]
SRC = [
    dict(name="nearest", file=NL, sig=r"_T nearest\(const _T &data\) const override", rules=R, loops={1: """
__CPROVER_assigns(i, pos, dmin)
__CPROVER_loop_invariant(i <= sz && sz == data__size && (pos == sz ? i == 0 : (pos < i && dmin == DIST[pos] && dmin == dmin)))
__CPROVER_loop_invariant((G < i && pos != sz) ==> dmin <= DIST[G])
__CPROVER_decreases(sz - i)
"""}),
    dict(name="nearestR", file=NL, sig=r"void nearestR\(const _T &data, double radius, std::vector<_T> &nbh\) const override", rules=R, loops={1: """
__CPROVER_assigns(di_, nbh_size, pushedG)
__CPROVER_loop_invariant(di_ <= data__size && nbh_size <= di_ && pushedG == ((G < di_ && DIST[G] <= radius) ? 1 : 0))
__CPROVER_decreases(data__size - di_)
"""}),
    dict(name="remove", file=NL, sig=r"bool remove\(const _T &data\) override", rules=R, loops={1: """
__CPROVER_assigns(i)
__CPROVER_loop_invariant(-1 <= i && i < (int)data__size && erases == 0 && ((int)G > i && G < data__size ==> !EQ[G]))
__CPROVER_decreases(i + 1)
"""}),
]
STUBS = ["distIdx", "NBH_PUSH", "NBH_SORT", "DATA_ERASE"]


def U(name, entry, enforce, fn, can=()):
    return dict(name=name, template="C10/linear.c", entry=entry, sources=SRC, needs=[enforce[3:]], enforce=[enforce], replace=STUBS, flags=FLAGS, level="proof", bound="<= 64 stored elements", expect_loops=1,
                functions=[fn], canaries=list(can), backend="minisat", confirm=dict(unwind=5, defines={"MAXN": 4}), timeout=900)


UNITS = [
    U("c10_linear_nearest", "h_nearest", "nn_nearest", "NearestNeighborsLinear::nearest", [dict(name="keeps_farthest", where="body:nearest", rx=r"dmin > distance", repl="dmin < distance")]),
    U("c10_linear_nearestR", "h_nearestR", "nn_nearestR", "NearestNeighborsLinear::nearestR", [dict(name="strict_radius", where="body:nearestR", rx=r"<= radius", repl="< radius")]),
    U("c10_linear_remove", "h_remove", "nn_remove", "NearestNeighborsLinear::remove", [dict(name="skips_first_slot", where="body:remove", rx=r"i >= 0;", repl="i > 0;")]),
]
# ---------------------------------------------------------------- GNAT node primitives and the radius-query pruning step
GN = "src/ompl/datastructures/NearestNeighborsGNAT.h"
PFLAGS = ["--bounds-check", "--pointer-check", "--signed-overflow-check", "--conversion-check", "--div-by-zero-check"]
GR = [
    (r"#ifndef GNAT_SAMPLER|#else.*?#endif|#endif", "", 0, __import__("re").S),
    (r"nbh\.size\(\)", "NBH_SIZE()", 0), (r"nbh\.top\(\)\.first", "NBH_TOP_FIRST()", 0), (r"nbh\.pop\(\);", "NBH_POP();", 0), (r"nbh\.emplace\(dist, &data\);", "NBH_EMPLACE(dist, data);", 0),
    (r"std::numeric_limits<double>::epsilon\(\)", "DBL_EPSILON", 0), (r"std::size_t", "size_t", 0),
    # nearestR, children part
    (r"double dist = r;", "D dist = r;", 0),
    (r"for \(const auto &d : data_\)\s*if \(!gnat\.isRemoved\(d\)\)\s*insertNeighborR\(nbh, r, d, gnat\.distFun_\(data, d\)\);", ";", 0),
    (r"!children_\.empty\(\)", "SZ != 0", 0), (r"Node \*child;", "unsigned child;", 0),
    (r"size_t sz = children_\.size\(\), offset = gnat\.offset_\+\+;", "size_t sz = SZ, offset = offset_++;", 0),
    (r"std::vector<double> distToPivot\(sz\);", "D distToPivot[MAXCH];", 0), (r"std::vector<int> permutation\(sz\);", "int permutation[MAXCH];", 0),
    (r"permutation\[i\] = \(i \+ offset\) % sz;", "permutation[i] = (int)((i + offset) % sz);", 0),
    (r"child = children_\[permutation\[i\]\];", "child = (unsigned)permutation[i];", 0), (r"child = children_\[p\];", "child = (unsigned)p;", 0),
    (r"gnat\.distFun_\(data, child->pivot_\)", "distToPivotIdx(child)", 0),
    (r"insertNeighborR\(nbh, r, child->pivot_, distToPivot\[permutation\[i\]\]\);", "INSERT_R_PIVOT(child, distToPivot[permutation[i]]);", 0),
    (r"child->maxRange_\[", "MAXR[child][", 0), (r"child->minRange_\[", "MINR[child][", 0), (r"child->maxRadius_", "MAXRAD[child]", 0), (r"child->minRadius_", "MINRAD[child]", 0),
    (r"for \(auto p : permutation\)\s*if \(p >= 0\)\s*\{", "for (size_t pi_ = 0; pi_ < sz; ++pi_) if (permutation[pi_] >= 0) { int p = permutation[pi_];", 0),
    (r"nodeQueue\.emplace\(child, distToPivot\[p\]\);", "NODEQ_EMPLACE(child, distToPivot[p]);", 0),
]
GSRC = [
    dict(name="updateRadius", file=GN, sig=r"void updateRadius\(double dist\)", rules=GR, loops={}),
    dict(name="updateRange", file=GN, sig=r"void updateRange\(unsigned int i, double dist\)", rules=GR, loops={}),
    dict(name="insertNeighborK", file=GN, sig=r"bool insertNeighborK\(NearQueue &nbh, std::size_t k, const _T &data, const _T &key, double dist\) const", rules=GR, loops={}),
    dict(name="insertNeighborR", file=GN, sig=r"void insertNeighborR\(NearQueue &nbh, double r, const _T &data, double dist\) const", rules=GR, loops={}),
    dict(name="nearestR_prune", file=GN, sig=r"void nearestR\(const GNAT &gnat, const _T &data, double r, NearQueue &nbh, NodeQueue &nodeQueue\) const", rules=GR, loops={"allow_uncontracted": True}),
]


def GU(name, entry, fn, can=(), level="proof", bound="", unwind=None, backend="cadical"):
    d = dict(name=name, template="C10/gnat_node.c", mode="plain", entry=entry, sources=GSRC, flags=PFLAGS, level=level, bound=bound, functions=[fn], canaries=list(can), backend=backend, timeout=900)
    if unwind:
        d["unwind"] = unwind
    return d


UNITS += [
    GU("c10_gnat_envelopes", "h_envelopes", "NearestNeighborsGNAT::Node::updateRadius / updateRange", [dict(name="range_never_lowered", where="body:updateRange", rx=r"if \(minRange_\[i\] > dist\)\s*minRange_\[i\] = dist;", repl="")]),
    GU("c10_gnat_insertNeighborK", "h_insertK", "NearestNeighborsGNAT::Node::insertNeighborK", [dict(name="ties_replace", where="body:insertNeighborK", rx=r"dist < NBH_TOP_FIRST\(\)", repl="dist <= NBH_TOP_FIRST()")]),
    GU("c10_gnat_insertNeighborR", "h_insertR", "NearestNeighborsGNAT::Node::insertNeighborR", [dict(name="strict_radius", where="body:insertNeighborR", rx=r"dist <= r", repl="dist < r")]),
    GU("c10_gnat_nearestR_pruning", "h_nearestR_prune", "NearestNeighborsGNAT::Node::nearestR (sibling pruning and radius test of one node)", level="bounded", bound="<= 4 children per node, integer distances below 2^40", unwind=6,
       can=[dict(name="prune_on_equality", where="body:nearestR_prune", rx=r"- dist > MAXR\[child\]", repl="- dist >= MAXR[child]"),
            dict(name="min_max_swapped", where="body:nearestR_prune", rx=r"\+ dist < MINR\[child\]", repl="+ dist < MAXR[child]")]),
]

# ---------------------------------------------------------------- GNATNoThreadSafety: the member result queue is drained by every public operation
NT = "src/ompl/datastructures/NearestNeighborsGNATNoThreadSafety.h"
NTR = [
    (r"nearestKInternal\(data, (\w+)\)", r"NKI(\1)", 0), (r"nearestRInternal\(data, radius\)", "NRI()", 0),
    (r"const _T \*d = nearQueue_\.top\(\)\.second;", "TP d = NQ_TOP();", 0), (r"_T result = \*nearQueue_\.top\(\)\.second;", "T result = NQ_TOP();", 0),
    (r"\*it = \*nearQueue_\.top\(\)\.second;", "nbh[it - 1] = NQ_TOP();", 0),
    (r"for \(auto it = nbh\.rbegin\(\); it != nbh\.rend\(\); it\+\+, nearQueue_\.pop\(\)\)", "for (size_t it = nbh_size; it != 0; it--, NQ_POP())", 0),
    (r"nbh\.resize\(nearQueue_\.size\(\)\);", "nbh_size = nq_size;", 0), (r"nbh\.clear\(\);", "nbh_size = 0;", 0), (r"postprocessNearest\(nbh\);", "postprocessNearest();", 0),
    (r"nearQueue_\.pop\(\);", "NQ_POP();", 0), (r"!nearQueue_\.empty\(\)", "(nq_size != 0)", 0), (r"nearQueue_\.empty\(\)", "(nq_size == 0)", 0), (r"nodeQueue_\.empty\(\)", "1", 0),
    (r"\*d != data", "DIFFERS(d)", 0), (r"removed_\.insert\(d\);", "REMOVED_INSERT(d);", 0), (r"removed_\.size\(\)", "removed_size", 0), (r"rebuildDataStructure\(\);", "REBUILD();", 0),
    (r"throw Exception\(\"[^\"]*\"\);", "thrown = 1; return 0;", 0), (r"\bassert\(([^;]*)\);", r'__CPROVER_assert(\1, "assert in the code");', 0),
]
NTS = [
    dict(name="remove", file=NT, sig=r"bool remove\(const _T &data\) override", rules=NTR, loops={"allow_uncontracted": True}),
    dict(name="nearest", file=NT, sig=r"_T nearest\(const _T &data\) const override", rules=NTR, loops={"allow_uncontracted": True}),
    dict(name="nearestK", file=NT, sig=r"void nearestK\(const _T &data, std::size_t k, std::vector<_T> &nbh\) const override", rules=NTR, loops={"allow_uncontracted": True}),
    dict(name="nearestR", file=NT, sig=r"void nearestR\(const _T &data, double radius, std::vector<_T> &nbh\) const override", rules=NTR, loops={"allow_uncontracted": True}),
    dict(name="postprocess", file=NT, sig=r"void postprocessNearest\(std::vector<_T> &nbh\) const", rules=NTR, loops={"allow_uncontracted": True}),
]
for fn, can in (("remove", [dict(name="pop_after_membership_test", where="body:remove", rx=r"NQ_POP\(\);\s*if \(DIFFERS\(d\)\)\s*return false;", repl="if (DIFFERS(d)) return false; NQ_POP();")]),
                ("nearest", [dict(name="answer_left_in_queue", where="body:nearest", rx=r"NQ_POP\(\);", repl="")]), ("nearestK", [dict(name="queue_not_drained", where="body:postprocess", rx=r"it--, NQ_POP\(\)", repl="it--")]), ("nearestR", [])):
    UNITS.append(dict(name="c10_gnatnts_" + fn + "_drains_queue", template="C10/gnat_nts.c", mode="plain", entry="h_nts_" + fn, sources=NTS, flags=PFLAGS, unwind=6, backend="minisat", timeout=600,
                      **(dict(level="bounded", bound="<= 4 elements in the result queue") if fn in ("nearestK", "nearestR") else dict(level="proof")),
                      functions=["NearestNeighborsGNATNoThreadSafety::" + fn] + (["NearestNeighborsGNATNoThreadSafety::postprocessNearest"] if fn in ("nearestK", "nearestR") else []), canaries=can))

# ---------------------------------------------------------------- GNAT Node::add: envelope maintenance (bounded degree)
GA_RULES = [
    (r"#ifdef GNAT_SAMPLER.*?#endif", "", 0, __import__("re").S), (r"children_\.empty\(\)", "(n_children == 0)", 0), (r"children_\.size\(\)", "n_children", 0),
    (r"data_\.push_back\(data\);", "LEAF_PUSH();", 0), (r"gnat\.size_", "gnat_size", 0), (r"needToSplit\(gnat\)", "NEED_SPLIT()", 0), (r"gnat\.removed_\.empty\(\)", "REMOVED_EMPTY()", 0),
    (r"gnat\.rebuildDataStructure\(\);", "REBUILD();", 0), (r"gnat\.rebuildSize_", "gnat_rebuildSize", 0), (r"std::size_t", "size_t", 0), (r"split\(gnat\);", "SPLIT();", 0),
    (r"std::vector<double> dist\(n_children\);", "double dist[MAXCH];", 0), (r"gnat\.distFun_\(data, children_\[(\w+)\]->pivot_\)", r"DISTP(\1)", 0),
    (r"children_\[i\]->updateRange\(minInd, dist\[i\]\);", "CHILD_UPDATE_RANGE(i, minInd, dist[i]);", 0), (r"children_\[minInd\]->updateRadius\(minDist\);", "CHILD_UPDATE_RADIUS(minInd, minDist);", 0),
    (r"children_\[minInd\]->add\(gnat, data\);", "CHILD_ADD(minInd);", 0),
]
UNITS.append(dict(name="c10_gnat_node_add", template="C10/gnat_add.c", mode="plain", entry="h_gnat_add", flags=PFLAGS, unwind=6, level="bounded", bound="<= 4 children per node", backend="minisat", timeout=600,
                  functions=["NearestNeighborsGNAT::Node::add"],
                  sources=[dict(name="add", file=GN, sig=r"void add\(GNAT &gnat, const _T &data\)", rules=GA_RULES, loops={"allow_uncontracted": True})],
                  canaries=[dict(name="range_of_the_wrong_child", where="body:add", rx=r"CHILD_UPDATE_RANGE\(i, minInd, dist\[i\]\);", repl="CHILD_UPDATE_RANGE(i, minInd, dist[minInd]);"),
                            dict(name="first_child_never_compared", where="body:add", rx=r"for \(unsigned int i = 1; i < n_children; \+\+i\)", repl="for (unsigned int i = 2; i < n_children; ++i)")]))

# ---------------------------------------------------------------- GNAT query drivers (both variants): the node queue is processed to the end, nodes are skipped only by the pruning rule
GD_RULES = [
    (r"bool isPivot;\s*double dist;\s*(?:NodeDist nodeDist;\s*NodeQueue nodeQueue;|Node \*node;)", "bool isPivot; D dist; unsigned node;", 0),
    (r"double dist = radius;", "D dist = radius;", 0), (r"NodeQueue nodeQueue;\s*NodeDist nodeDist;", "unsigned node;", 0), (r"Node \*node;", "unsigned node;", 0),
    (r"(?:dist|tree_->distToPivot_) = NearestNeighbors<_T>::distFun_\(data, tree_->pivot_\);", "", 0),
    (r"isPivot = tree_->insertNeighborK\([^;]*\);", "isPivot = nondet_bool(); nbh_size = 1; nbh_top = N_dist[1];", 0),
    (r"tree_->insertNeighborR\((?:[^;()]|\([^()]*\))*\);", "", 0),
    (r"tree_->nearestK\([^;]*\);", "queued_ever[1] = true; EXPAND_K(1);", 0), (r"tree_->nearestR\([^;]*\);", "queued_ever[1] = true; EXPAND_R(1);", 0),
    (r"!nodeQueue_?\.empty\(\)", "!NODEQ_EMPTY()", 0),
    (r"dist = (?:nbhQueue|nearQueue_)\.top\(\)\.first;", "dist = nbh_top;", 0),
    (r"(?:nodeDist|node) = nodeQueue_?\.top\(\);", "node = NODEQ_TOP(); last_top = node;", 0), (r"nodeQueue_?\.pop\(\);", "NODEQ_POP();", 0),
    (r"(?:nbhQueue|nearQueue_)\.size\(\)", "nbh_size", 0),
    (r"nodeDist\.second|node->distToPivot_", "N_dist[node]", 0), (r"(?:nodeDist\.first|node)->maxRadius_", "N_maxRadius[node]", 0), (r"(?:nodeDist\.first|node)->minRadius_", "N_minRadius[node]", 0),
    (r"(?:nodeDist\.first|node)->nearestK\([^;]*\);", "EXPAND_K(node);", 0), (r"(?:nodeDist\.first|node)->nearestR\([^;]*\);", "EXPAND_R(node);", 0),
]
for _var, _file, _ksig, _rsig in (("gnat", GN, r"bool nearestKInternal\(const _T &data, std::size_t k, NearQueue &nbhQueue\) const", r"void nearestRInternal\(const _T &data, double radius, NearQueue &nbhQueue\) const"),
                                  ("gnatnts", NT, r"bool nearestKInternal\(const _T &data, std::size_t k\) const", r"void nearestRInternal\(const _T &data, double radius\) const")):
    _src = [dict(name="nearestKInternal", file=_file, sig=_ksig, rules=[(r"\bcontinue;", "{ PRUNED(node, dist, nbh_size == k); continue; }", 0), (r"\bbreak;", "{ PRUNED(node, dist, nbh_size == k); break; }", 0)] + GD_RULES, loops={"allow_uncontracted": True}),
            dict(name="nearestRInternal", file=_file, sig=_rsig, rules=[(r"\bcontinue;", "{ PRUNED(node, dist, true); continue; }", 0), (r"\bbreak;", "{ PRUNED(node, dist, true); break; }", 0)] + GD_RULES, loops={"allow_uncontracted": True})]
    for _h, _can in (("nearestKInternal", [dict(name="stops_at_the_first_pruned_node", where="body:nearestKInternal", rx=r"continue; \}", repl="break; }"), dict(name="prunes_before_k_are_known", where="body:nearestKInternal", rx=r"nbh_size == k &&", repl="", count=1)]),
                     ("nearestRInternal", [dict(name="stops_at_the_first_pruned_node", where="body:nearestRInternal", rx=r"continue; \}", repl="break; }")])):
        UNITS.append(dict(name="c10_%s_%s" % (_var, _h), template="C10/gnat_driver.c", mode="plain", entry="h_" + _h, sources=_src, needs=[_h], flags=PFLAGS, unwind=8, level="bounded", bound="<= 5 tree nodes, exact integer distances",
                          backend="cadical", timeout=600, functions=[("NearestNeighborsGNAT::" if _var == "gnat" else "NearestNeighborsGNATNoThreadSafety::") + _h], canaries=_can))

SQF = "src/ompl/datastructures/NearestNeighborsSqrtApprox.h"
SQ_RULES = [(r"const std::size_t n = NearestNeighborsLinear<_T>::data_\.size\(\);", "const size_t n = data__size;", 0), (r"NearestNeighbors<_T>::distFun_\(NearestNeighborsLinear<_T>::data_\[i\], data\)", "distIdx(i)", 0),
            (r"return NearestNeighborsLinear<_T>::data_\[pos\];", "return pos;", 0), (r'throw Exception\("[^"]*"\);', "{ EXC(); return 0; }", 0), (r"std::size_t", "size_t", 0),
            (r"NearestNeighborsLinear<_T>::clear\(\);", "base_clears++; data__size = 0;", 0)]
SQ_SRC = [dict(name="sq_nearest", file=SQF, sig=r"_T nearest\(const _T &data\) const override", rules=SQ_RULES, loops={"allow_uncontracted": True}),
          dict(name="sq_clear", file=SQF, sig=r"void clear\(\) override", rules=SQ_RULES, loops={})]
UNITS.append(dict(name="c10_sqrtapprox_nearest", template="C10/sqrtapprox.c", mode="plain", entry="h_sq_nearest", sources=SQ_SRC, needs=["sq_nearest"], flags=PFLAGS + ["--unsigned-overflow-check"], unwind=8, level="bounded", bound="<= 6 stored elements, <= 4 checks",
                  backend="cadical", timeout=300, functions=["NearestNeighborsSqrtApprox::nearest"], canaries=[dict(name="keeps_the_farthest_inspected", where="body:sq_nearest", rx=r"dmin > distance", repl="dmin < distance")]))
UNITS.append(dict(name="c10_sqrtapprox_clear", template="C10/sqrtapprox.c", mode="plain", entry="h_sq_clear", sources=SQ_SRC, needs=["sq_clear"], flags=PFLAGS, level="proof", backend="minisat", timeout=300, functions=["NearestNeighborsSqrtApprox::clear"],
                  canaries=[dict(name="offset_survives_clear", where="body:sq_clear", rx=r"offset_ = 0;", repl=";")]))

SPL_RULES = [(r"data_\.size\(\)", "data_n", 0), (r"Node \*child = children_\[k\];", "unsigned child = k;", 0), (r"child->data_\.push_back\(data_\[j\]\);", "CHILD_PUSH(child, j);", 0),
             (r"child->updateRadius\(", "CHILD_UPDATE_RADIUS(child, ", 0), (r"children_\[i\]->updateRange\(", "CHILD_UPDATE_RANGE(i, ", 0),
             (r"data_\[(\w+)\]", r"VAL[\1]", 0), (r"child->pivot_", "VAL[pivots[child]]", 0)]
for _var, _file in (("gnat", GN), ("gnatnts", NT)):
    UNITS.append(dict(name="c10_%s_split_distribution" % _var, template="C10/gnat_split.c", mode="plain", entry="h_gnat_split", flags=PFLAGS, unwind=6, level="bounded", bound="leaves of <= 4 elements, <= 3 pivots", backend="cadical", timeout=600,
                      functions=[("NearestNeighborsGNAT" if _var == "gnat" else "NearestNeighborsGNATNoThreadSafety") + "::Node::split (distribution loop)"],
                      sources=[dict(name="split_distribute", file=_file, begin=r"for \(unsigned int j = 0; j < data_\.size\(\); \+\+j\)\s*\{\s*unsigned int k = 0;", end=r"for \(auto &child : children_\)\s*\{\s*// make sure|for \(auto &child : children_\)\s*\{\s*child->degree_", rules=SPL_RULES, loops={"allow_uncontracted": True})],
                      canaries=[dict(name="pivot_recognised_by_value", where="body:split_distribute", rx=r"if \(j != pivots\[k\]\)", repl="if (DISTS[j][k] != 0.0)")]))

KCF = "src/ompl/datastructures/GreedyKCenters.h"
KC_RULES = [(r"std::vector<double> minDist\(data\.size\(\), std::numeric_limits<double>::infinity\(\)\);", "double minDist[NP]; for (unsigned q_ = 0; q_ < NP; q_++) minDist[q_] = __builtin_inf();", 0),
            (r"centers\.clear\(\);", "centers_n = 0;", 0), (r"centers\.reserve\(k\);", "", 0), (r"\(std::size_t\)dists\.rows\(\)", "(size_t)rows", 0), (r"\(std::size_t\)dists\.cols\(\)", "(size_t)cols", 0),
            (r"dists\.resize\(std::max\(2u \* \(size_t\)rows \+ 1u, data\.size\(\)\), k\);", "RESIZE((unsigned)MAXU(2u * (size_t)rows + 1u, (size_t)data_n), k);", 0),
            (r"centers\.push_back\(rng_\.uniformInt\(0, data\.size\(\) - 1\)\);", "centers[centers_n++] = UNIFORM_INT(0, data_n - 1);", 0), (r"centers\.push_back\(ind\);", "centers[centers_n++] = ind;", 0),
            (r"const _T &center = data\[centers\[i - 1\]\];", "const unsigned center = centers[i - 1];", 0), (r"const _T &center = data\[centers\.back\(\)\];", "const unsigned center = centers[centers_n - 1];", 0),
            (r"distFun_\(data\[j\], center\)", "DISTF(j, center)", 0), (r"data\.size\(\)", "data_n", 0), (r"centers\.size\(\)", "centers_n", 0),
            (r"-std::numeric_limits<double>::infinity\(\)", "-__builtin_inf()", 0), (r"std::numeric_limits<double>::epsilon\(\)", "DBL_EPSILON", 0), (r"std::size_t", "size_t", 0)]
UNITS.append(dict(name="c10_greedykcenters", template="C10/kcenters.c", mode="plain", entry="h_kcenters", flags=PFLAGS, unwind=6, level="bounded", bound="<= 4 data points, k <= 3", backend="cadical", timeout=600, functions=["GreedyKCenters::kcenters"],
                  sources=[dict(name="kcenters", file=KCF, sig=r"void kcenters\(const std::vector<_T> &data, unsigned int k, std::vector<unsigned int> &centers, Matrix &dists\)", rules=KC_RULES, loops={"allow_uncontracted": True})],
                  canaries=[dict(name="last_column_not_filled", where="body:kcenters", rx=r"for \(unsigned j = 0; j < data_n; \+\+j\)\s*dists\(j, i\) = DISTF\(j, center\);", repl=";"),
                            dict(name="distance_to_the_last_centre_only", where="body:kcenters", rx=r"< minDist\[j\]\)\s*minDist\[j\] = dists\(j, i - 1\);", repl="< minDist[j] || 1) minDist[j] = dists(j, i - 1);")]))

ASSUMPTIONS = ["GNAT pruning: distances are exact integers standing for reals (linear rule: valid over the reals iff over the integers; rounding not modelled); the range/radius envelopes contain the true pivot-to-element distances (the structure invariant maintained by add/split, assumed here); the metric satisfies the triangle inequality",
               "elements are addressed by slot; the distance function returns a fixed non-NaN value per element; std::sort is an assumed contract (result ordered by the comparator)", "<= 64 stored elements"]
TRUSTED = ["extraction rewrite table of units/C10.py", "stubs in units/C10/linear.c", "CBMC 6.11 DFCC + cadical"]
NOT_COVERED = ["NearestNeighborsGNAT as a whole structure (recursion over the tree, Node::split (pivot selection) and the recursion of add below one node, nearestK pruning with the moving k-th best, rebuilds, removal cache), GNATNoThreadSafety beyond the draining of its member result queue, NearestNeighborsSqrtApprox: only the node primitives and the radius pruning step of one node are checked",
               "nearestK of the linear structure (std::partial_sort); of Node::split only the distribution loop (bounded), GreedyKCenters bounded (<= 4 points)"]

MISC_CPPS = []
NATIVE = [
    dict(name="c10_native_search", driver="native/misc_native.cpp", link_ompl=True, unit_cpps=MISC_CPPS, args=lambda tier, seed: ["c10", seed, 1500 if tier == "quick" else 60000], timeout=900),
]


def replay(ur, scratch, seed):
    """Search the real classes for a failing input (native/misc_native.cpp, mode c10)."""
    from vf import native as N, cbmc as C
    exe = N.build_driver("native/misc_native.cpp", scratch, link_ompl=True, unit_cpps=MISC_CPPS)
    r = C.run_cmd([exe, "c10", str(seed), "15000"], 600, env=N.run_env())
    return dict(found=(r["rc"] == 1), driver="native/misc_native.cpp", args=["c10", seed, 15000], link_ompl=True, unit_cpps=MISC_CPPS, output=r["out"][-2500:])
