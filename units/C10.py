"""C10 -- nearest-neighbour structures answer exactly like exhaustive search (reduced scope: the linear structure)."""
PROPERTY = "C10"
LEVEL = "proof"
NL = "src/ompl/datastructures/NearestNeighborsLinear.h"
FLAGS = ["--bounds-check", "--pointer-check", "--signed-overflow-check", "--conversion-check", "--div-by-zero-check", "--no-malloc-may-fail", "--object-bits", "12"]
R = [(r"NearestNeighbors<_T>::distFun_\(data_\[i\], data\)", "distIdx(i)", 0), (r"std::size_t", "size_t", 0), (r"data_\.size\(\)", "data__size", 0), (r"data_\.empty\(\)", "(data__size == 0)", 0),
     (r"return data_\[pos\];", "return pos;", 0), (r'throw Exception\("[^"]*"\);', "{ EXC(); return 0; }", 0),
     (r"nbh\.clear\(\);", "nbh_size = 0;", 0),
     (r"for \(const auto &d : data_\)\s*if \(NearestNeighbors<_T>::distFun_\(d, data\) <= radius\)\s*nbh\.push_back\(d\);", "for (size_t di_ = 0; di_ < data__size; ++di_) if (distIdx(di_) <= radius) NBH_PUSH(di_);", 0),
     (r"std::sort\(nbh\.begin\(\), nbh\.end\(\), ElemSort\(data, NearestNeighbors<_T>::distFun_\)\);", "NBH_SORT();", 0),
     (r"data_\[i\] == data", "EQ[i]", 0), (r"data_\.erase\(data_\.begin\(\) \+ i\);", "DATA_ERASE((size_t)i);", 0)]
SRC = [
    dict(name="nearest", file=NL, sig=r"_T nearest\(const _T &data\) const override", rules=R, loops={1: """
__CPROVER_assigns(i, pos, dmin)
__CPROVER_loop_invariant(i <= sz && sz == data__size && (pos == sz ? i == 0 : (pos < i && dmin == DIST[pos] && dmin == dmin)))
__CPROVER_loop_invariant((G < i && pos != sz) ==> dmin <= DIST[G])
__CPROVER_decreases(sz - i)
"""}),
    dict(name="nearestR", file=NL, sig=r"void nearestR\(const _T &data, double radius, std::vector<_T> &nbh\) const override", rules=R, loops={1: """
__CPROVER_assigns(di_, nbh_size, pushedG)
__CPROVER_loop_invariant(di_ <= data__size && nbh_size <= di_ && pushedG == ((G < di_ && DIST[G] <= radius) ? 1 : 0))
__CPROVER_decreases(data__size - di_)
"""}),
    dict(name="remove", file=NL, sig=r"bool remove\(const _T &data\) override", rules=R, loops={1: """
__CPROVER_assigns(i)
__CPROVER_loop_invariant(-1 <= i && i < (int)data__size && erases == 0 && ((int)G > i && G < data__size ==> !EQ[G]))
__CPROVER_decreases(i + 1)
"""}),
]
STUBS = ["distIdx", "NBH_PUSH", "NBH_SORT", "DATA_ERASE"]


def U(name, entry, enforce, fn, can=()):
    return dict(name=name, template="C10/linear.c", entry=entry, sources=SRC, enforce=[enforce], replace=STUBS, flags=FLAGS, level="proof", bound="<= 64 stored elements", expect_loops=1,
                functions=[fn], canaries=list(can), backend="minisat", confirm=dict(unwind=5, defines={"MAXN": 4}), timeout=900)


UNITS = [
    U("c10_linear_nearest", "h_nearest", "nn_nearest", "NearestNeighborsLinear::nearest", [dict(name="keeps_farthest", where="body:nearest", rx=r"dmin > distance", repl="dmin < distance")]),
    U("c10_linear_nearestR", "h_nearestR", "nn_nearestR", "NearestNeighborsLinear::nearestR", [dict(name="strict_radius", where="body:nearestR", rx=r"<= radius", repl="< radius")]),
    U("c10_linear_remove", "h_remove", "nn_remove", "NearestNeighborsLinear::remove", [dict(name="skips_first_slot", where="body:remove", rx=r"i >= 0;", repl="i > 0;")]),
]
ASSUMPTIONS = ["elements are addressed by slot; the distance function returns a fixed non-NaN value per element; std::sort is an assumed contract (result ordered by the comparator)", "<= 64 stored elements"]
TRUSTED = ["extraction rewrite table of units/C10.py", "stubs in units/C10/linear.c", "CBMC 6.11 DFCC + cadical"]
NOT_COVERED = ["NearestNeighborsGNAT / GNATNoThreadSafety (recursive tree, pivots, range envelopes, rebuilds, removal cache) and NearestNeighborsSqrtApprox: NOT checked by this family in this build",
               "nearestK of the linear structure (std::partial_sort), GreedyKCenters"]
