/* C10: GNAT Node::add -- the step that MAINTAINS the envelopes the pruning rules rely on (assumed in c10_gnat_nearestR_pruning):
 * a new element goes to a child whose pivot is nearest; for EVERY child i the range envelope for the receiving child is widened by
 * d(element, pivot_i); the receiving child's radius envelope is widened by d(element, its pivot); the element is handed to exactly that
 * child.  A leaf stores the element and counts it.  Bounded: <= MAXCH children per node (the degree). */
#include <stddef.h>
#include <stdbool.h>
#define REACH(tag) __CPROVER_assert(0, "REACH " tag)
#ifndef MAXCH
#define MAXCH 4
#endif
unsigned n_children; double DPIV[MAXCH]; size_t gnat_size, gnat_rebuildSize; bool need_split, removed_empty;
int range_calls[MAXCH]; unsigned range_for[MAXCH]; double range_val[MAXCH]; int radius_calls; unsigned radius_child; double radius_val; int child_adds; unsigned child_add_to;
int leaf_pushes, rebuilds, splits;
static double DISTP(unsigned i) { __CPROVER_assert(i < n_children, "C10.range child index in range"); return DPIV[i]; }
static void CHILD_UPDATE_RANGE(unsigned i, int j, double v) { __CPROVER_assert(i < n_children && j >= 0 && (unsigned)j < n_children, "C10.range child index in range"); range_calls[i]++; range_for[i] = (unsigned)j; range_val[i] = v; }
static void CHILD_UPDATE_RADIUS(int j, double v) { __CPROVER_assert(j >= 0 && (unsigned)j < n_children, "C10.range child index in range"); radius_calls++; radius_child = (unsigned)j; radius_val = v; }
static void CHILD_ADD(int j) { __CPROVER_assert(j >= 0 && (unsigned)j < n_children, "C10.range child index in range"); child_adds++; child_add_to = (unsigned)j; }
static void LEAF_PUSH(void) { leaf_pushes++; }
static bool NEED_SPLIT(void) { return need_split; }
static bool REMOVED_EMPTY(void) { return removed_empty; }
static void REBUILD(void) { rebuilds++; }
static void SPLIT(void) { splits++; }
void gn_add(int data)
/*@BODY add@*/
void h_gnat_add(void)
{
    __CPROVER_assume(n_children <= MAXCH && gnat_size < 1000000 && gnat_rebuildSize < 1000000);
    for (unsigned i = 0; i < MAXCH; i++) { __CPROVER_assume(DPIV[i] >= 0.0); range_calls[i] = 0; }
    radius_calls = child_adds = leaf_pushes = rebuilds = splits = 0; size_t s0 = gnat_size, r0 = gnat_rebuildSize;
    gn_add(7);
    if (n_children == 0)
    {
        __CPROVER_assert(leaf_pushes == 1 && gnat_size == s0 + 1 && child_adds == 0, "C10.add a leaf stores the element and counts it");
        __CPROVER_assert(rebuilds + splits == (need_split ? 1 : 0) && (need_split ? (rebuilds == 1) == (!removed_empty || s0 + 1 >= r0) : 1), "a leaf that must split is rebuilt when elements are marked removed or the rebuild size is reached, split otherwise");
        if (rebuilds && removed_empty) __CPROVER_assert(gnat_rebuildSize == (r0 << 1), "the rebuild size doubles");
        if (splits) REACH("split"); if (rebuilds) REACH("rebuild");
    }
    else
    {
        __CPROVER_assert(child_adds == 1 && leaf_pushes == 0 && gnat_size == s0, "C10.add an inner node hands the element to exactly one child");
        unsigned c = child_add_to;
        for (unsigned i = 0; i < MAXCH; i++) if (i < n_children)
        {
            __CPROVER_assert(DPIV[c] <= DPIV[i], "C10.add the receiving child has a nearest pivot");
            __CPROVER_assert(range_calls[i] == 1 && range_for[i] == c && range_val[i] == DPIV[i], "C10.envelope every child's range envelope for the receiving child is widened by the element's distance to that child's pivot");
        }
        __CPROVER_assert(radius_calls == 1 && radius_child == c && radius_val == DPIV[c], "C10.envelope the receiving child's radius envelope is widened by the element's distance to its pivot");
        if (c > 0) REACH("not the first child");
    }
}
