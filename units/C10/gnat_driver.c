/* C10 -- the query drivers of the GNAT (nearestKInternal / nearestRInternal, both variants): every node that is ever put on the node queue is
 * either expanded (its nearestK / nearestR is called) or pruned because, when it was popped, the triangle inequality excluded it:
 *   d(q, pivot) > maxRadius + bound   or   d(q, pivot) < minRadius - bound      (bound = current k-th best distance, only once k are known / the radius).
 * No queued node is dropped for any other reason, and the queue is empty on return.
 * Model: nodes 1..NN-1 with exact integer distances (the rule is linear: valid over the reals iff over the integers); Node::nearestK/R is a stub
 * that may push not-yet-queued nodes and may improve the k-th best distance; the neighbour queue is summarised by (size, top distance).
 * Bounded: <= 5 nodes. */
#include <stdbool.h>
#include <stddef.h>
#define NN 6
#define REACH(msg) __CPROVER_assert(0, "REACH " msg)
typedef long D;
unsigned nondet_unsigned(void); bool nondet_bool(void); long nondet_long(void);
D N_dist[NN], N_maxRadius[NN], N_minRadius[NN];        /* distance query-pivot, radius envelope of the node */
bool queued_ever[NN], expanded[NN], pruned_ok[NN], in_queue[NN]; unsigned q_n;
size_t nbh_size, K; D nbh_top; D RADIUS;
static bool prune_rule(unsigned n, D bound) { return N_dist[n] > N_maxRadius[n] + bound || N_dist[n] < N_minRadius[n] - bound; }
static void push_some(void) { for (unsigned n = 2; n < NN; n++) if (!queued_ever[n] && nondet_bool()) { queued_ever[n] = true; in_queue[n] = true; q_n++; } }
static bool NODEQ_EMPTY(void) { return q_n == 0; }
static unsigned NODEQ_TOP(void) { unsigned n = nondet_unsigned(); __CPROVER_assume(n >= 1 && n < NN && in_queue[n]); return n; }
unsigned last_top;
static void NODEQ_POP(void) { __CPROVER_assert(q_n > 0 && last_top >= 1 && last_top < NN && in_queue[last_top], "pop of the node just inspected"); in_queue[last_top] = false; q_n--; }
static void EXPAND_K(unsigned n)
{   /* Node::nearestK: looks at the node's data / children: may tighten the k-th best, may queue children */
    __CPROVER_assert(n >= 1 && n < NN && !expanded[n], "a node is expanded at most once"); expanded[n] = true;
    if (nondet_bool()) { D t = nondet_long(); __CPROVER_assume(t >= 0 && t < (1L << 40) && (nbh_size < K || t <= nbh_top)); nbh_top = t; if (nbh_size < K) nbh_size++; }
    push_some();
}
static void EXPAND_R(unsigned n) { __CPROVER_assert(n >= 1 && n < NN && !expanded[n], "a node is expanded at most once"); expanded[n] = true; push_some(); }
/* the code's own `continue` is bracketed by the rule text below through the rewrite table: PRUNED(node, bound) records that the code skipped the node */
static void PRUNED(unsigned n, D bound, bool k_known) { pruned_ok[n] = k_known && prune_rule(n, bound); __CPROVER_assert(pruned_ok[n], "C10.prune a queued node is skipped only when the triangle inequality excludes it"); }

bool gnat_nearestKInternal(size_t k)
/*@BODY nearestKInternal@*/
void gnat_nearestRInternal(D radius)
/*@BODY nearestRInternal@*/

static void any_world(void)
{
    for (unsigned n = 0; n < NN; n++) { queued_ever[n] = false; expanded[n] = false; pruned_ok[n] = false; in_queue[n] = false; __CPROVER_assume(N_dist[n] >= 0 && N_dist[n] < (1L << 40) && N_minRadius[n] >= 0 && N_minRadius[n] <= N_maxRadius[n] && N_maxRadius[n] < (1L << 40)); }
    q_n = 0; __CPROVER_assume(K >= 1 && K <= 3); nbh_size = 0; nbh_top = 0; last_top = 0;
}
static void check_resolved(void)
{
    __CPROVER_assert(q_n == 0, "C10.drain the node queue is empty on return");
    for (unsigned n = 1; n < NN; n++) if (queued_ever[n]) __CPROVER_assert(expanded[n] || pruned_ok[n], "C10.visit every queued node was expanded or legitimately pruned");
}
void h_nearestKInternal(void) { any_world(); gnat_nearestKInternal(K); check_resolved(); unsigned e = 0, p = 0; for (unsigned n = 1; n < NN; n++) { if (expanded[n]) e++; if (pruned_ok[n]) p++; } if (e >= 3 && p >= 1) REACH("three expansions and a pruned node"); }
void h_nearestRInternal(void) { any_world(); __CPROVER_assume(RADIUS >= 0 && RADIUS < (1L << 40)); gnat_nearestRInternal(RADIUS); check_resolved(); unsigned e = 0, p = 0; for (unsigned n = 1; n < NN; n++) { if (expanded[n]) e++; if (pruned_ok[n]) p++; } if (e >= 3 && p >= 1) REACH("three expansions and a pruned node"); }
