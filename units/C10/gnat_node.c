/* C10: GNAT Node primitives: updateRadius / updateRange (envelopes), insertNeighborK / insertNeighborR (result queue discipline)
 * and the pruning step of Node::nearestR for ONE node: a child subtree that contains an element within the radius is never pruned.
 * Distances are exact integers standing for reals (the pruning rule is linear in the distances, so it is valid over the reals iff it is
 * over the integers; rounding is NOT modelled).  Children are indices; X is a ghost element stored somewhere in the subtree of the ghost
 * child GJ, DX = d(query, X).  The distance stub supplies, for the child i it is called for, the triangle inequality on (query, pivot_i, X)
 * and the envelope facts minRange_i[GJ] <= d(pivot_i, X) <= maxRange_i[GJ] (the structure's own invariant, maintained by add/split). */
#include <stddef.h>
#include <stdbool.h>
#include <float.h>
#define REACH(tag) __CPROVER_assert(0, "REACH " tag)
#ifndef MAXCH
#define MAXCH 4
#endif
typedef long D;
/* ---- envelopes ---- */
double minRadius_, maxRadius_; double minRange_[MAXCH], maxRange_[MAXCH];
void gn_updateRadius(double dist)
/*@BODY updateRadius@*/
void gn_updateRange(unsigned int i, double dist)
/*@BODY updateRange@*/
/* ---- result queue (std::priority_queue<pair<double,const T*>>): size, top distance, ghost log of the last operations ---- */
size_t Q_size; double Q_top; int Q_pops, Q_emplaces; double Q_last_d; int Q_last_e;
#define NBH_SIZE() (Q_size)
#define NBH_TOP_FIRST() (Q_top)
static void NBH_POP(void) { __CPROVER_assert(Q_size > 0, "pop of a non-empty queue"); Q_size--; Q_pops++; }
static void NBH_EMPLACE(double d, int e) { Q_size++; Q_emplaces++; Q_last_d = d; Q_last_e = e; }
bool gn_insertNeighborK(size_t k, const int data, const int key, double dist)
/*@BODY insertNeighborK@*/
void gn_insertNeighborR(double r, const int data, double dist)
/*@BODY insertNeighborR@*/
double nondet_double(void); unsigned nondet_unsigned(void); int nondet_int(void);
void h_envelopes(void)
{
    double d = nondet_double(); __CPROVER_assume(d == d && minRadius_ == minRadius_ && maxRadius_ == maxRadius_);
    double lo0 = minRadius_, hi0 = maxRadius_;
    gn_updateRadius(d);
    __CPROVER_assert(minRadius_ <= d && d <= maxRadius_ && minRadius_ <= lo0 && maxRadius_ >= hi0 && (minRadius_ == lo0 || minRadius_ == d) && (maxRadius_ == hi0 || maxRadius_ == d), "C10.envelope the radius envelope only widens and contains the new distance");
    unsigned i = nondet_unsigned(); __CPROVER_assume(i < MAXCH && minRange_[i] == minRange_[i] && maxRange_[i] == maxRange_[i]); double a0 = minRange_[i], b0 = maxRange_[i];
    unsigned o = nondet_unsigned(); __CPROVER_assume(o < MAXCH && o != i); double oa = minRange_[o], ob = maxRange_[o];
    gn_updateRange(i, d);
    __CPROVER_assert(minRange_[i] <= d && d <= maxRange_[i] && minRange_[i] <= a0 && maxRange_[i] >= b0, "C10.envelope the range envelope of child i only widens and contains the new distance");
    __CPROVER_assert((minRange_[o] == oa || oa != oa) && (maxRange_[o] == ob || ob != ob), "other children's envelopes untouched");
    if (d < lo0) REACH("new minimum");
}
void h_insertK(void)
{
    size_t k = nondet_unsigned(); double dist = nondet_double(); int data = nondet_int(), key = nondet_int();
    __CPROVER_assume(k >= 1 && k < 1000 && Q_size <= k && dist == dist && dist >= 0.0 && Q_top == Q_top && Q_top >= 0.0); Q_pops = Q_emplaces = 0; size_t s0 = Q_size; double top0 = Q_top;
    bool r = gn_insertNeighborK(k, data, key, dist);
    bool want = s0 < k || dist < top0 || (dist < DBL_EPSILON && data == key);
    __CPROVER_assert(r == want, "C10.knn an element enters the k-best queue exactly when the queue is not full, or it is strictly closer than the current k-th best, or it is the query itself at distance 0");
    __CPROVER_assert(r ? (Q_emplaces == 1 && Q_last_d == dist && Q_last_e == data && Q_pops == (s0 < k ? 0 : 1) && Q_size == (s0 < k ? s0 + 1 : s0)) : (Q_emplaces == 0 && Q_pops == 0 && Q_size == s0), "C10.knn the queue never grows beyond k and loses exactly its worst entry when a better one arrives");
    if (r && s0 == k) REACH("replaced the worst"); if (!r) REACH("rejected"); if (dist == top0 && s0 == k && data != key) REACH("tie with the k-th best");
}
void h_insertR(void)
{
    double r = nondet_double(), dist = nondet_double(); int data = nondet_int(); __CPROVER_assume(r == r && dist == dist); Q_emplaces = 0;
    gn_insertNeighborR(r, data, dist);
    __CPROVER_assert(Q_emplaces == (dist <= r ? 1 : 0) && (Q_emplaces == 0 || (Q_last_d == dist && Q_last_e == data)), "C10.radius an element is reported exactly when its distance is within the radius (boundary included)");
    if (dist == r) REACH("exactly on the boundary");
}
/* ---- pruning step of Node::nearestR ---- */
size_t SZ; unsigned offset_; D MINR[MAXCH][MAXCH], MAXR[MAXCH][MAXCH], MINRAD[MAXCH], MAXRAD[MAXCH];
D DQ[MAXCH];       /* d(query, pivot_i) */
D DPX[MAXCH];      /* d(pivot_i, X) */
D DX; unsigned GJ; int queuedG; int visited[MAXCH];
static D distToPivotIdx(unsigned i)
{
    __CPROVER_assert(i < SZ, "child index");
    __CPROVER_assume(DQ[i] >= 0 && DPX[i] >= 0 && DX >= 0);
    __CPROVER_assume(DX <= DQ[i] + DPX[i] && DQ[i] <= DX + DPX[i] && DPX[i] <= DQ[i] + DX);              /* triangle inequality on (query, pivot_i, X) */
    __CPROVER_assume(MINR[i][GJ] <= DPX[i] && DPX[i] <= MAXR[i][GJ]);                                          /* X lies in child GJ: range envelope of child i about child GJ */
    if (i == GJ) __CPROVER_assume(MINRAD[GJ] <= DPX[GJ] && DPX[GJ] <= MAXRAD[GJ]);                              /* radius envelope of child GJ */
    visited[i]++; return DQ[i];
}
static void INSERT_R_PIVOT(unsigned i, D d) { }
static void NODEQ_EMPLACE(unsigned child, D d) { if (child == GJ) queuedG++; }
void gn_nearestR_prune(D r)
/*@BODY nearestR_prune@*/
void h_nearestR_prune(void)
{
    D r; __CPROVER_assume(SZ >= 1 && SZ <= MAXCH && GJ < SZ && r >= 0 && r < (1L << 40) && DX >= 0 && DX < (1L << 40)); queuedG = 0; for (unsigned i = 0; i < MAXCH; i++) { visited[i] = 0; __CPROVER_assume(DQ[i] < (1L << 40) && DPX[i] < (1L << 40)); for (unsigned j = 0; j < MAXCH; j++) __CPROVER_assume(MINR[i][j] > -(1L << 41) && MAXR[i][j] < (1L << 41)); __CPROVER_assume(MINRAD[i] > -(1L << 41) && MAXRAD[i] < (1L << 41)); }
    gn_nearestR_prune(r);
    if (DX <= r) __CPROVER_assert(queuedG == 1, "C10.prune a child whose subtree holds an element within the radius is never pruned: it is queued for the search, exactly once");
    __CPROVER_assert(queuedG <= 1, "a child is queued at most once");
    if (DX <= r && SZ > 2) REACH("kept"); if (DX > r && queuedG == 0) REACH("pruned"); if (DX == r) REACH("element exactly at the radius");
}
