/* C10: NearestNeighborsGNATNoThreadSafety keeps its result queue as a member (nearQueue_) that every query fills and must drain:
 * "the answer depends only on the present contents" needs that queue to be empty again at every exit of every public operation,
 * otherwise a left-over element shows up in the next answer.  The queue is abstracted to its length (and the identity of its top);
 * nearestKInternal / nearestRInternal are stubs that require an empty queue on entry and leave between 0/1 and k elements in it. */
#include <stddef.h>
#include <stdbool.h>
#define REACH(tag) __CPROVER_assert(0, "REACH " tag)
#define MAXQ 4
size_t size_, nq_size, removed_size, removedCacheSize_; bool thrown, rebuilt; int removed_inserts;
typedef int T; typedef int TP;
T nbh[MAXQ]; size_t nbh_size;
bool nondet_bool(void); size_t nondet_size_t(void); int nondet_int(void);
static bool NKI(size_t k) { __CPROVER_assert(nq_size == 0, "C10.scratch a query starts from an empty result queue"); __CPROVER_assert(size_ > 0, "queries run only on a non-empty structure");
    size_t n = nondet_size_t(); __CPROVER_assume(n >= 1 && n <= k && n <= size_ && n <= MAXQ); nq_size = n; return nondet_bool(); }
static void NRI(void) { __CPROVER_assert(nq_size == 0, "C10.scratch a query starts from an empty result queue"); size_t n = nondet_size_t(); __CPROVER_assume(n <= size_ && n <= MAXQ); nq_size = n; }
static TP NQ_TOP(void) { __CPROVER_assert(nq_size > 0, "top() of a non-empty queue"); return nondet_int(); }
static void NQ_POP(void) { __CPROVER_assert(nq_size > 0, "pop() of a non-empty queue"); nq_size--; }
static bool DIFFERS(TP d) { return nondet_bool(); }
static void REMOVED_INSERT(TP d) { removed_inserts++; removed_size = nondet_size_t(); }
static void REBUILD(void) { __CPROVER_assert(nq_size == 0, "C10.scratch rebuild starts from an empty result queue"); rebuilt = 1; }

bool nts_remove(T data)
/*@BODY remove@*/
T nts_nearest(T data)
/*@BODY nearest@*/
void nts_nearestK(T data, size_t k)
/*@BODY nearestK@*/
void nts_nearestR(T data, double radius)
/*@BODY nearestR@*/
void postprocessNearest(void)
/*@BODY postprocess@*/

static void any(void) { nq_size = 0; thrown = 0; rebuilt = 0; removed_inserts = 0; nbh_size = 0; }
void h_nts_remove(void)
{
    any(); size_t before = size_; bool r = nts_remove(nondet_int());
    __CPROVER_assert(nq_size == 0, "C10.scratch the result queue is empty again when remove returns (found or not)");
    __CPROVER_assert(r ? size_ + 1 == before && removed_inserts == 1 : size_ == before && removed_inserts == 0, "remove reports exactly whether one element was taken out");
    if (r) REACH("removed"); if (!r && before) REACH("not a member"); if (!before) REACH("empty");
}
void h_nts_nearest(void)
{
    any(); nts_nearest(nondet_int());
    __CPROVER_assert(nq_size == 0, "C10.scratch the result queue is empty again when nearest returns or throws");
    __CPROVER_assert(thrown == (size_ == 0), "nearest throws exactly on an empty structure");
    if (thrown) REACH("throws"); else REACH("answers");
}
void h_nts_nearestK(void)
{
    any(); size_t k = nondet_size_t(); nts_nearestK(nondet_int(), k);
    __CPROVER_assert(nq_size == 0, "C10.scratch the result queue is empty again when nearestK returns");
    __CPROVER_assert(nbh_size <= k && nbh_size <= size_, "at most k answers, at most size()");
    if (nbh_size > 1) REACH("several"); if (k == 0) REACH("k = 0");
}
void h_nts_nearestR(void)
{
    any(); nts_nearestR(nondet_int(), 1.0);
    __CPROVER_assert(nq_size == 0, "C10.scratch the result queue is empty again when nearestR returns");
    __CPROVER_assert(nbh_size <= size_, "at most size() answers");
    if (nbh_size > 1) REACH("several"); if (!size_) REACH("empty");
}
