/* C10 -- the distribution loop of Node::split (both GNAT variants): after the pivots were chosen every element of the leaf ends up exactly once in the subtree
 * -- the elements at the pivot INDICES become the children's pivots, every other element (also one EQUAL to a pivot: duplicates are legal) is appended to the
 * child whose pivot is nearest (first minimum), that child's radius envelope is widened by its distance, and every child's range towards that child is widened by
 * the element's distance to it.  Nothing is dropped, nothing is stored twice.  Distances are an arbitrary matrix.  Bounded: <= 4 elements, <= 3 pivots. */
#include <stdbool.h>
#include <stddef.h>
#define ND 4
#define NP 3
#define REACH(msg) __CPROVER_assert(0, "REACH " msg)
unsigned data_n, degree_; unsigned pivots[NP]; double DISTS[ND][NP]; int VAL[ND];     /* VAL: the elements' values (duplicates allowed) */
unsigned child_n[NP]; unsigned child_data[NP][ND]; unsigned placed[ND]; int placed_in[ND];
unsigned rad_calls[NP]; double rad_last[NP]; unsigned range_calls[NP][NP]; double range_last[NP][NP];
#define dists(j, i) DISTS[j][i]
static void CHILD_PUSH(unsigned k, unsigned j) { __CPROVER_assert(k < degree_ && j < data_n && child_n[k] < ND, "push into an existing child"); child_data[k][child_n[k]++] = j; placed[j]++; placed_in[j] = (int)k; }
static void CHILD_UPDATE_RADIUS(unsigned k, double d) { rad_calls[k]++; rad_last[k] = d; }
static void CHILD_UPDATE_RANGE(unsigned i, unsigned k, double d) { __CPROVER_assert(i < degree_ && k < degree_, "range between two children"); range_calls[i][k]++; range_last[i][k] = d; }
void gnat_split_distribute(void)
/*@BODY split_distribute@*/
void h_gnat_split(void)
{
    __CPROVER_assume(data_n >= 1 && data_n <= ND && degree_ >= 1 && degree_ <= NP && degree_ <= data_n);
    for (unsigned c = 0; c < NP; c++) if (c < degree_) { __CPROVER_assume(pivots[c] < data_n); for (unsigned e = 0; e < c; e++) __CPROVER_assume(pivots[e] != pivots[c]); }
    for (unsigned j = 0; j < ND; j++) { placed[j] = 0; placed_in[j] = -1; for (unsigned c = 0; c < NP; c++) __CPROVER_assume(DISTS[j][c] == DISTS[j][c] && DISTS[j][c] >= 0.0); }
    for (unsigned c = 0; c < NP; c++) { child_n[c] = 0; rad_calls[c] = 0; for (unsigned e = 0; e < NP; e++) range_calls[c][e] = 0; }
    /* the pivot selection's own guarantee (GreedyKCenters stops before it would pick a centre closer than epsilon to an earlier one): an element is at distance 0
     * from the pivot it IS and at a positive distance from every other pivot */
    for (unsigned c = 0; c < NP; c++) if (c < degree_) for (unsigned e = 0; e < NP; e++) if (e < degree_) __CPROVER_assume(e == c ? DISTS[pivots[c]][e] == 0.0 : DISTS[pivots[c]][e] > 0.0);
    for (unsigned j = 0; j < ND; j++) for (unsigned c = 0; c < NP; c++) if (j < data_n && c < degree_) __CPROVER_assume((VAL[j] == VAL[pivots[c]]) == (DISTS[j][c] == 0.0));   /* equal values are at distance 0 and vice versa */
    gnat_split_distribute();
    unsigned total = 0; for (unsigned c = 0; c < NP; c++) if (c < degree_) total += child_n[c];
    __CPROVER_assert(total + degree_ == data_n, "C10.multiset every element is a pivot or is stored in exactly one child: nothing is lost at a split");
    for (unsigned j = 0; j < ND; j++) if (j < data_n)
    {
        bool is_pivot = false; for (unsigned c = 0; c < NP; c++) if (c < degree_ && pivots[c] == j) is_pivot = true;
        unsigned k = 0; for (unsigned c = 1; c < NP; c++) if (c < degree_ && DISTS[j][c] < DISTS[j][k]) k = c;
        if (is_pivot && pivots[k] == j) __CPROVER_assert(placed[j] == 0, "the element at a pivot index becomes that child's pivot, it is not stored again");
        else if (!is_pivot) __CPROVER_assert(placed[j] == 1 && placed_in[j] == (int)k, "C10.nearest-pivot every other element goes to the child with the nearest pivot");
    }
    if (data_n == 4 && degree_ == 2) REACH("four elements, two pivots");
}
