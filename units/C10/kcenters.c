/* C10 -- GreedyKCenters::kcenters (the pivot selection of the GNATs): every chosen centre is an index into the data; no point is chosen twice unless all remaining
 * points coincide with a centre (then the selection stops early); each centre after the first is a point FARTHEST from the centres chosen before it; and the
 * distance matrix the caller (Node::split) relies on is filled for EVERY data point and EVERY chosen centre: dists(j, i) = d(data[j], data[centres[i]]).
 * Distances come from an arbitrary symmetric table with zero diagonal.  Bounded: <= 4 points, k <= 3. */
#include <stdbool.h>
#include <stddef.h>
#include <float.h>
#define NP 4
#define KM 3
#define REACH(msg) __CPROVER_assert(0, "REACH " msg)
unsigned nondet_unsigned(void);
unsigned data_n; double DIST[NP][NP]; double dists_[NP][KM]; bool dists_set[NP][KM]; unsigned centers[KM]; unsigned centers_n; unsigned rows, cols;
static double DISTF(unsigned a, unsigned b) { __CPROVER_assert(a < data_n && b < data_n, "distance between data points"); return DIST[a][b]; }
static double *DREF(unsigned j, unsigned i) { __CPROVER_assert(j < NP && i < KM && j < rows && i < cols, "C10.matrix access inside the (resized) distance matrix"); dists_set[j][i] = true; return &dists_[j][i]; }
#define dists(j, i) (*DREF(j, i))
static unsigned UNIFORM_INT(unsigned lo, unsigned hi) { unsigned r = nondet_unsigned(); __CPROVER_assume(r >= lo && r <= hi); return r; }
static void RESIZE(unsigned r, unsigned c) { rows = r; cols = c; }
#define MAXU(a, b) ((a) > (b) ? (a) : (b))
void gkc_kcenters(unsigned int k)
/*@BODY kcenters@*/
void h_kcenters(void)
{
    unsigned k; __CPROVER_assume(data_n >= 1 && data_n <= NP && k >= 1 && k <= KM && rows <= NP && cols <= KM);
    for (unsigned a = 0; a < NP; a++) for (unsigned b = 0; b < NP; b++) { __CPROVER_assume(DIST[a][b] == DIST[a][b] && DIST[a][b] >= 0.0 && DIST[a][b] == DIST[b][a] && (a != b || DIST[a][b] == 0.0) && (a == b || DIST[a][b] >= 1.0 || DIST[a][b] == 0.0)); }
    for (unsigned a = 0; a < NP; a++) for (unsigned b = 0; b < KM; b++) dists_set[a][b] = false; centers_n = 0;
    gkc_kcenters(k);
    __CPROVER_assert(centers_n >= 1 && centers_n <= k, "between one and k centres are chosen");
    for (unsigned i = 0; i < KM; i++) if (i < centers_n)
    {
        __CPROVER_assert(centers[i] < data_n, "C10.index every centre is an index into the data");
        for (unsigned j = 0; j < NP; j++) if (j < data_n) __CPROVER_assert(dists_set[j][i] && dists_[j][i] == DIST[j][centers[i]], "C10.matrix dists(j, i) is the distance of point j to the i-th centre, for every point and every chosen centre");
        if (i >= 1)
        {   /* farthest-first: no point is farther from the earlier centres than the one chosen */
            double mind_c = DIST[centers[i]][centers[0]]; for (unsigned e = 1; e < KM; e++) if (e < i && DIST[centers[i]][centers[e]] < mind_c) mind_c = DIST[centers[i]][centers[e]];
            for (unsigned j = 0; j < NP; j++) if (j < data_n) { double mind_j = DIST[j][centers[0]]; for (unsigned e = 1; e < KM; e++) if (e < i && DIST[j][centers[e]] < mind_j) mind_j = DIST[j][centers[e]];
                __CPROVER_assert(mind_j <= mind_c, "C10.farthest each further centre is a point farthest from the centres chosen before it"); }
            __CPROVER_assert(mind_c >= DBL_EPSILON, "a further centre is chosen only while some point is away from all centres");
        }
    }
    if (centers_n == 3) REACH("three centres"); if (centers_n < k) REACH("stopped early");
}
