/* C10: NearestNeighborsLinear::nearest / nearestR / remove.  Elements are addressed by their slot (data_[i] is "element i");
 * DIST[i] is the fixed, arbitrary non-NaN distance of element i to the query, EQ[i] says whether element i equals the argument of
 * remove().  Universal statements use the ghost slot G.  Unbounded in the number of stored elements up to MAXN. */
#include <stddef.h>
#include <stdbool.h>
#ifndef MAXN
#define MAXN 64
#endif
#define REACH(tag) __CPROVER_assert(0, "REACH " tag)
size_t data__size; double DIST[MAXN]; bool EQ[MAXN]; size_t G; bool EXC_;
double distIdx(size_t i)
__CPROVER_requires(i < data__size) __CPROVER_assigns() __CPROVER_ensures(__CPROVER_return_value == DIST[i] && DIST[i] == DIST[i]);
int pushedG; size_t nbh_size;
void NBH_PUSH(size_t i)
__CPROVER_requires(i < data__size && nbh_size < MAXN && pushedG < 100) __CPROVER_assigns(nbh_size, pushedG)
__CPROVER_ensures(nbh_size == __CPROVER_old(nbh_size) + 1 && pushedG == __CPROVER_old(pushedG) + (i == G ? 1 : 0));
bool sorted_after; 
void NBH_SORT(void) __CPROVER_requires(1) __CPROVER_assigns(sorted_after) __CPROVER_ensures(sorted_after);
size_t erased_at; int erases;
void DATA_ERASE(size_t i)
__CPROVER_requires(i < data__size && erases < 10) __CPROVER_assigns(erased_at, erases, data__size)
__CPROVER_ensures(erased_at == i && erases == __CPROVER_old(erases) + 1 && data__size == __CPROVER_old(data__size) - 1);
#define EXC() do { EXC_ = 1; } while (0)

size_t nn_nearest(void)
__CPROVER_requires(data__size <= MAXN && (data__size == 0 || G < data__size) && !EXC_)
__CPROVER_assigns(EXC_)
/* C10.nearest the answer is a current member at the distance brute force returns: no stored element is closer */
__CPROVER_ensures(data__size > 0 ==> (!EXC_ && __CPROVER_return_value < data__size && DIST[__CPROVER_return_value] <= DIST[G]))
__CPROVER_ensures(data__size == 0 ==> EXC_)
/*@BODY nearest@*/
void nn_nearestR(double radius)
__CPROVER_requires(data__size <= MAXN && G < data__size && pushedG == 0 && radius == radius && DIST[G] == DIST[G])
__CPROVER_assigns(nbh_size, pushedG, sorted_after)
/* C10.radius exactly the members within the radius are returned, each once, and the result is sorted afterwards */
__CPROVER_ensures(pushedG == (DIST[G] <= radius ? 1 : 0) && sorted_after && nbh_size <= data__size)
/*@BODY nearestR@*/
bool nn_remove(void)
__CPROVER_requires(data__size <= MAXN && (data__size == 0 || G < data__size) && erases == 0)
__CPROVER_assigns(erased_at, erases, data__size)
/* C10.remove one element equal to the argument is removed when there is one (the last such slot), nothing otherwise */
__CPROVER_ensures(__CPROVER_return_value ==> (erases == 1 && erased_at < __CPROVER_old(data__size) && EQ[erased_at] && data__size == __CPROVER_old(data__size) - 1))
__CPROVER_ensures((__CPROVER_return_value && __CPROVER_old(data__size) > 0 && G > erased_at && G < __CPROVER_old(data__size)) ==> !EQ[G])
__CPROVER_ensures(!__CPROVER_return_value ==> (erases == 0 && data__size == __CPROVER_old(data__size) && (__CPROVER_old(data__size) == 0 || !EQ[G])))
/*@BODY remove@*/
void h_nearest(void) { size_t r = nn_nearest(); if (data__size > 5 && r == data__size - 1) REACH("last is nearest"); if (data__size == 0) REACH("empty"); }
void h_nearestR(void) { double r; nn_nearestR(r); if (nbh_size > 2) REACH("several"); }
void h_remove(void) { bool r = nn_remove(); if (r) REACH("removed"); else REACH("absent"); }
