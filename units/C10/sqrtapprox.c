/* C10 -- NearestNeighborsSqrtApprox::nearest (the approximate structure: it inspects about sqrt(n) elements): every inspected slot is a stored element,
 * the answer is a stored element and no inspected element is closer than the answer; an empty structure throws; the rotating offset stays below the
 * number of checks; clear() resets the counters (after clear the structure is empty: nearest throws).  Bounded: n <= 6, checks <= 4. */
#include <stdbool.h>
#include <stddef.h>
#define NMAX 6
#define REACH(msg) __CPROVER_assert(0, "REACH " msg)
size_t data__size, checks_, offset_; double DIST[NMAX]; bool inspected[NMAX]; bool thrown; unsigned base_clears;
static double distIdx(size_t i) { __CPROVER_assert(i < data__size, "C10.member only stored elements are inspected"); inspected[i] = true; return DIST[i]; }
#define EXC() (thrown = true)
size_t sq_nearest(void)
/*@BODY sq_nearest@*/
void sq_clear(void)
/*@BODY sq_clear@*/
void h_sq_nearest(void)
{
    __CPROVER_assume(data__size <= NMAX && checks_ <= 4 && (checks_ == 0 || offset_ < checks_)); thrown = false;
    for (size_t k = 0; k < NMAX; k++) { inspected[k] = false; __CPROVER_assume(DIST[k] == DIST[k] && DIST[k] >= 0.0); }
    size_t r = sq_nearest();
    if (data__size == 0 || checks_ == 0) __CPROVER_assert(thrown, "an empty structure reports that there is no neighbour");
    else
    {
        __CPROVER_assert(!thrown && r < data__size && inspected[r], "C10.member the answer is a stored element that was inspected");
        for (size_t k = 0; k < NMAX; k++) if (k < data__size && inspected[k]) __CPROVER_assert(DIST[r] <= DIST[k], "C10.nearest no inspected element is closer than the answer");
        __CPROVER_assert(offset_ < checks_, "the rotating offset stays below the number of checks");
        REACH("answered");
    }
}
void h_sq_clear(void) { base_clears = 0; sq_clear(); __CPROVER_assert(base_clears == 1 && checks_ == 0 && offset_ == 0 && data__size == 0, "clear() empties the structure and resets the sampling counters"); REACH("cleared"); }
