"""C11 -- the updatable heap always pops in order, whatever was removed or updated."""
import copy
PROPERTY = "C11"
LEVEL = "proof"
BH = "src/ompl/datastructures/BinaryHeap.h"

HEAP_RULES = [
    (r"for \(auto &element : vector_\)\s*delete element;", "for (size_t i_ = 0; i_ < vector__size; ++i_) DELETE_Element(vector_[i_]);", 0),
    (r"for \(auto &element : vector_\)\s*content\.push_back\(element->data\);", "for (size_t i_ = 0; i_ < vector__size; ++i_) content[content_size++] = F_data[vector_[i_]];", 0),
    (r"auto \*element = new Element\(\);", "ElemRef element = NEW_Element();", 0),
    (r"std::vector<Element \*> backup = vector_;", "VEC_COPY(backup, vector_);", 0),
    (r"\bvector_ = backup;", "VEC_COPY(vector_, backup);", 0),
    (r"\bElement \*", "ElemRef ", 0),
    (r"delete vector_\[(\w+)\];", r"DELETE_Element(vector_[\1]);", 0),
    (r"(\w+(?:\[[^\]]+\])?)->data\b", r"F_data[\1]", 0),
    (r"(\w+(?:\[[^\]]+\])?)->position\b", r"F_position[\1]", 0),
    (r"vector_\.size\(\)", "vector__size", 0),
    (r"vector_\.back\(\)", "vector_[vector__size - 1]", 0),
    (r"vector_\.pop_back\(\);", "vector__size--;", 0),
    (r"vector_\.push_back\(([^;]+)\);", r"VEC_PUSH(vector_, \1);", 0),
    (r"vector_\.empty\(\)", "(vector__size == 0)", 0),
    (r"vector_\.at\(0\)", "vector_[0]", 0),
    (r"vector_\.clear\(\);", "vector__size = 0;", 0),
    (r"if \(eventAfterInsert_\)\s*eventAfterInsert_\((\w+), eventAfterInsertData_\);", r"if (eventAfterInsert_) ev_after_insert(\1);", 0),
    (r"if \(eventBeforeRemove_\)\s*eventBeforeRemove_\((\w+), eventBeforeRemoveData_\);", r"if (eventBeforeRemove_) ev_before_remove(\1);", 0),
    (r"\bassert\(([^;]*)\);", r'__CPROVER_assert(\1, "assert");', 0),
    (r"\bnullptr\b", "NULLREF", 0),
    (r"\b_T\b", "KeyT", 0),
]


def S(name, sig, extra=(), mins=None, loops=None):
    rules = list(extra) + HEAP_RULES
    d = dict(name=name, file=BH, sig=sig, rules=rules, loops=loops or {"allow_uncontracted": True})
    return d


def heap_sources(loops_up=None, loops_down=None):
    return [
        S("percolateUp", r"void\s+percolateUp\s*\(\s*const unsigned int pos\s*\)", loops=loops_up),
        S("percolateDown", r"void\s+percolateDown\s*\(\s*const unsigned int pos\s*\)", loops=loops_down),
        S("removePos", r"void\s+removePos\s*\(\s*unsigned int pos\s*\)"),
        S("build", r"void\s+build\s*\(\s*\)"),
        S("newElement", r"Element \*newElement\s*\(const _T &data, unsigned int pos\)\s*const"),
        S("clear", r"void\s+clear\s*\(\s*\)"),
        S("top", r"Element \*top\s*\(\s*\)\s*const"),
        S("pop", r"void\s+pop\s*\(\s*\)"),
        S("remove", r"void\s+remove\s*\(\s*Element \*element\s*\)"),
        S("insert", r"Element \*insert\s*\(\s*const _T &data\s*\)"),
        S("insert_list", r"void\s+insert\s*\(\s*const std::vector<_T> &list\s*\)", extra=[(r"list\.size\(\)", "list_size", 0)]),
        S("buildFrom", r"void\s+buildFrom\s*\(\s*const std::vector<_T> &list\s*\)",
          extra=[(r"list\.size\(\)", "list_size", 0), (r"\bclear\(\);", "heap_clear();", 0)]),
        S("rebuild", r"void\s+rebuild\s*\(\s*\)"),
        S("update", r"void\s+update\s*\(\s*Element \*element\s*\)"),
        S("empty", r"bool\s+empty\s*\(\s*\)\s*const"),
        S("size", r"unsigned int\s+size\s*\(\s*\)\s*const"),
        S("getContent", r"void\s+getContent\s*\(\s*std::vector<_T> &content\s*\)\s*const"),
        S("sort", r"void\s+sort\s*\(\s*std::vector<_T> &list\s*\)",
          extra=[(r"list\.size\(\)", "(*list_size_p)", 0), (r"list\.clear\(\);", "(*list_size_p) = 0;", 0),
                 (r"list\.reserve\(n\);", ";", 0), (r"list\.push_back\(([^;]+)\);", r"list[(*list_size_p)++] = \1;", 0)]),
    ]


ALL_FUNCS = ["ompl::BinaryHeap::" + f for f in ("percolateUp", "percolateDown", "removePos", "build", "newElement", "clear", "top",
                                                "pop", "remove", "insert", "insert(vector)", "buildFrom", "rebuild", "update",
                                                "empty", "size", "getContent", "sort")]


def log2c(n):
    k = 0
    while (1 << k) <= n:
        k += 1
    return k


def bounded(hname, n_quick, n_thorough, extra_def=None, canaries=(), functions=None, timeout=900, backend="kissat"):
    def defs(n):
        d = {"N": n, "LISTMAX": 3, "BUILDMAX": min(n - 1, 6)}
        d.update(extra_def or {})
        return d

    def uw(n, d):
        return {"percolateUp.0": log2c(n) + 1, "percolateDown.0": log2c(n) + 1, "build.0": n // 2 + 2,
                "heap_clear.0": n + 2, "heap_getContent.0": n + 2, "heap_insert_list.0": d["LISTMAX"] + 1,
                "heap_buildFrom.0": d["BUILDMAX"] + 1, "heap_sort.0": n + 3, "heap_sort.1": d["BUILDMAX"] + 2, "heap_sort.2": d["BUILDMAX"] + 2, "heap_sort.3": n + 3}
    dq, dt = defs(n_quick), defs(n_thorough)
    return dict(
        name="c11_bounded_" + hname, template="C11/heap_bounded.c", mode="plain", entry="h_" + hname,
        functions=functions or ALL_FUNCS, sources=heap_sources(),
        defines=dq, unwind=2 * n_quick + 6, unwindset=uw(n_quick, dq),
        tiers=dict(thorough=dict(defines=dt, unwind=2 * n_thorough + 6, unwindset=uw(n_thorough, dt),
                                 bound="heaps of <= %d elements, all contents" % n_thorough)),
        level="bounded", bound="heaps of <= %d elements, all contents" % n_quick,
        backend=backend, timeout=timeout, canaries=list(canaries),
        # no --conversion-check: build() relies on the (implementation-defined, two's complement on every supported
        # platform) narrowing of size_t(-1) to int -1 for heaps of <= 1 elements; stated as an assumption
        flags=["--bounds-check", "--pointer-check", "--signed-overflow-check", "--no-malloc-may-fail"],
    )


UNITS = [
    bounded("insert", 15, 31, canaries=[dict(name="up_wrong_parent", where="body:percolateUp", rx=r"parent = \(parent - 1\) >> 1;", repl="parent = parent >> 1;")]),
    bounded("remove", 15, 23, timeout=1500, canaries=[dict(name="remove_no_siftup", where="body:removePos", rx=r"percolateUp\(pos\);", repl="")]),
    bounded("pop", 15, 31, canaries=[dict(name="down_no_smaller_child", where="body:percolateDown", rx=r"if \(lt_\(F_data\[vector_\[child - 1\]\], F_data\[vector_\[child\]\]\)\)\s*--child;", repl="", count=1)]),
    bounded("update", 15, 23, timeout=1500, canaries=[dict(name="update_no_down", where="body:update", rx=r"percolateDown\(pos\);", repl="")]),
    bounded("build", 7, 15, canaries=[dict(name="build_off_by_one", where="body:build", rx=r"vector__size / 2 - 1", repl="(vector__size - 1) / 2 - 1")]),
    bounded("insert_list", 7, 11, canaries=[dict(name="bulk_wrong_position", where="body:insert_list", rx=r"newElement\(list\[i\], pos\)", repl="newElement(list[i], i)")]),
    bounded("buildFrom", 7, 9),
    bounded("clear", 15, 31),
    bounded("sort", 6, 8),
    bounded("getContent", 15, 31),
    bounded("top_is_min", 15, 63),
]

# ---------------- layer B: unbounded sift proofs (loop contracts, cvc5, one obligation per solver process) ----------------
IDX_RULE = [(r"\bvector_\[([^\]]+)\]", r"vector_[IDX(\1)]", 0)]
UP_LOOP = """
__CPROVER_assigns(child, parent, vector_, F_position)
__CPROVER_loop_invariant(child <= pos && ANC(pos, child) && (child > 0 ==> parent == PAR(child)) && tmp == T && N == __CPROVER_loop_entry(N))
__CPROVER_loop_invariant((G <= child || !ANC(pos, G)) ==> vector_[G] == E_G)
__CPROVER_loop_invariant(G > 0 ==> ((P <= child || !ANC(pos, P)) ==> vector_[P] == E_P))
__CPROVER_loop_invariant((G > 0 && P > 0) ==> (PP <= child ==> vector_[PP] == E_PP))
__CPROVER_loop_invariant((G > child && ANC(pos, G)) ==> vector_[G] == E_P)
__CPROVER_loop_invariant((G > 0 && P > child && ANC(pos, P)) ==> vector_[P] == E_PP)
__CPROVER_loop_invariant(child != pos ==> lt_(D(T), D(vector_[child])))
__CPROVER_loop_invariant(H != T ==> (F_position[H] < N && vector_[F_position[H]] == H && F_position[H] != child))
__CPROVER_loop_invariant(H == T ==> F_position[H] == pos)
__CPROVER_loop_invariant(child == pos ==> vector_[pos] == T)
__CPROVER_decreases(child)
"""
DOWN_LOOP = """
__CPROVER_assigns(child, parent, vector_, F_position)
__CPROVER_loop_invariant(pos <= parent && parent < n && n == N && N == __CPROVER_loop_entry(N) && ANC(parent, pos) && child == ((parent + 1u) << 1) && tmp == T)
__CPROVER_loop_invariant(!ABOVE(G) ==> vector_[G] == E_G)
__CPROVER_loop_invariant(ABOVE(G) ==> vector_[G] == (ANC(parent, C1) ? E_C1 : E_C2))
__CPROVER_loop_invariant(ABOVE(G) ==> lt_(D(vector_[G]), D(T)))
__CPROVER_loop_invariant(G > 0 ==> (!(G > 0 && ABOVE(P)) ==> vector_[P] == E_P))
__CPROVER_loop_invariant((G > 0 && ABOVE(P)) ==> vector_[P] == (ANC(parent, G) ? E_G : E_S))
__CPROVER_loop_invariant((G > 0 && ABOVE(P)) ==> lt_(D(vector_[P]), D(T)))
__CPROVER_loop_invariant((G > 0 && ABOVE(P) && !ANC(parent, G)) ==> !lt_(D(E_G), D(vector_[P])))
__CPROVER_loop_invariant((G > 0 && P > 0) ==> (PP < pos ==> vector_[PP] == E_PP))
__CPROVER_loop_invariant(C1 < N ==> ((!ANC(parent, C1) || C1 == parent || C1 < pos) ==> vector_[C1] == E_C1))
__CPROVER_loop_invariant(C2 < N ==> ((!ANC(parent, C2) || C2 == parent || C2 < pos) ==> vector_[C2] == E_C2))
__CPROVER_loop_invariant((G > 0 && S < N) ==> ((!ANC(parent, S) || S == parent || S < pos) ==> vector_[S] == E_S))
__CPROVER_loop_invariant(H != T ==> (F_position[H] < N && vector_[F_position[H]] == H && F_position[H] != parent))
__CPROVER_loop_invariant(H == T ==> F_position[H] == pos)
__CPROVER_loop_invariant(parent == pos ==> vector_[pos] == T)
__CPROVER_decreases(n - parent)
"""
SIFT_FLAGS = ["--bounds-check", "--pointer-check", "--signed-overflow-check", "--conversion-check", "--no-malloc-may-fail", "--object-bits", "12"]
UNITS.append(dict(
    name="c11_percolateUp_unbounded", template="C11/sift_up.c", functions=["ompl::BinaryHeap::percolateUp"],
    sources=[S("percolateUp", r"void\s+percolateUp\s*\(\s*const unsigned int pos\s*\)", extra=[], loops={1: UP_LOOP})],
    enforce=["percolateUp"], replace=[], backend="cvc5", split="per-property",
    split_groups=[r"\.bounds\.|\.pointer|\.overflow\.|\.conversion", r"\.assigns\.|loop_assigns", r"\.assertion\.\d+$"],
    flags=SIFT_FLAGS, timeout=600, level="proof", bound="n <= 65535 elements (16-bit element references)",
    canaries=[dict(name="up_wrong_parent", where="body:percolateUp", rx=r"parent = \(parent - 1\) >> 1;", repl="parent = parent >> 1;",
                   props=[r"postcondition\.1$", r"loop_invariant_step"], timeout=300)],
))
UNITS[-1]["sources"][0]["rules"] = HEAP_RULES + IDX_RULE
UNITS.append(dict(
    name="c11_percolateDown_unbounded", template="C11/sift_down.c", functions=["ompl::BinaryHeap::percolateDown"],
    sources=[S("percolateDown", r"void\s+percolateDown\s*\(\s*const unsigned int pos\s*\)", extra=[], loops={1: DOWN_LOOP})],
    enforce=["percolateDown"], replace=[], backend="cvc5", split="per-property",
    split_groups=[r"\.bounds\.|\.pointer|\.overflow\.|\.conversion", r"\.assigns\.|loop_assigns", r"\.assertion\.\d+$"],
    flags=SIFT_FLAGS, timeout=900, level="proof", bound="n <= 32767 elements (16-bit element references)",
    canaries=[dict(name="down_no_smaller_child", where="body:percolateDown",
                   rx=r"if \(lt_\(F_data\[vector_\[IDX\(child - 1\)\]\], F_data\[vector_\[IDX\(child\)\]\]\)\)\s*--child;", repl="", count=1,
                   props=[r"postcondition\.1$"], timeout=300)],
))
UNITS[-1]["sources"][0]["rules"] = HEAP_RULES + IDX_RULE

# insert(x), unbounded, against the contract of percolateUp
UNITS.append(dict(
    name="c11_insert_unbounded", template="C11/insert_unb.c", functions=["ompl::BinaryHeap::insert(const _T&)"],
    sources=[S("insert", r"Element \*insert\s*\(\s*const _T &data\s*\)", extra=[])],
    enforce=["heap_insert"], replace=["percolateUp"], backend="cvc5", split="per-property", loop_contracts=False,
    split_groups=[r"\.bounds\.|\.pointer|\.overflow\.|\.conversion", r"\.assigns\.|loop_assigns", r"\.assertion\.\d+$"],
    flags=SIFT_FLAGS, timeout=600, level="proof", bound="n <= 65534 elements (16-bit element references); percolateUp by contract",
    canaries=[dict(name="position_not_recorded", where="body:insert", rx=r"F_position\[element\] = pos;", repl=";", props=[r"precondition", r"postcondition"], timeout=300)],
))
UNITS[-1]["sources"][0]["rules"] = HEAP_RULES + IDX_RULE
UNITS[-1]["sources"][0]["loops"] = {}

# ---------------- layer C: a heap OWNER in the anchor list -- GridB keeps its two heaps in step with the cells (units of C13, 3x3 window) ----------------
import importlib.util as _ilu, os as _os
_s13 = _ilu.spec_from_file_location("c13", _os.path.join(_os.path.dirname(__file__), "C13.py")); _C13 = _ilu.module_from_spec(_s13); _s13.loader.exec_module(_C13)
for _u in _C13.UNITS:
    if _u["name"] in ("c13_b_create_add_d2w3", "c13_b_create_remove_d2w3", "c13_b_remove_d2w3", "c13_b_update_d2w3", "c13_b_updateAll_d2w3", "c13_b_tops_d2w3"):
        _v = copy.deepcopy(_u); _v["name"] = _v["name"].replace("c13_b_", "c11_gridb_"); UNITS.append(_v)
# ... and the planners that own such a grid: every key change is followed by update()/updateAll() before a top is requested (KPIECE units of C13)
for _u in _C13.KP_UNITS:
    _v = copy.deepcopy(_u); _v["name"] = _v["name"].replace("c13_", "c11_"); UNITS.append(_v)

# ---------------------------------------------------------------- layer D: planner-side heap owners (anchors SearchQueue.cpp, AITstar.cpp, ReverseQueue.cpp): key edits are followed by update()/rebuild()
import re as _re
RQF = "src/ompl/geometric/planners/informedtrees/eitstar/src/ReverseQueue.cpp"
SQF = "src/ompl/geometric/planners/informedtrees/bitstar/src/SearchQueue.cpp"
AITF = "src/ompl/geometric/planners/informedtrees/src/AITstar.cpp"
_S = _re.S
OWN_RULES = [
    (r"ASSERT_SETUP", "", 0), (r"#ifdef BITSTAR_DEBUG.*?#endif", "", 0, _S), (r"\bassert\((?:[^()]|\((?:[^()]|\((?:[^()]|\([^()]*\))*\))*\))*\);", "", 0),
    # EIT* ReverseQueue
    (r"const auto &lookup = edge\.source->asReverseVertex\(\)->outgoingReverseQueueLookup_;", "", 0),
    (r"const auto it = std::find_if\(lookup\.cbegin\(\), lookup\.cend\(\), \[&edge\]\(const auto &p\) \{.*?\}\);", "int it = FIND_IN_LOOKUP();", 0, _S),
    (r"it == lookup\.cend\(\)", "it < 0", 0),
    (r"std::get<(\d)>\(\(\*it\)->data\) = [^;]+;", r"KEY_WRITE(LOOKUP[it], \1);", 0), (r"queue_\.update\(\*it\);", "HEAP_UPDATE(LOOKUP[it]);", 0),
    (r"updateIfExists\(edge\)", "rq_updateIfExists()", 0), (r"const auto key\d = compute\w+\(edge\);", "", 0), (r"const auto element = std::make_tuple\([^;]*\);", "", 0),
    (r"const auto elementPointer = queue_\.insert\(element\);", "ElemRef elementPointer = HEAP_INSERT();", 0),
    (r"edge\.source->asReverseVertex\(\)->outgoingReverseQueueLookup_\.emplace_back\(elementPointer\);", "LOOKUP_PUSH(elementPointer);", 0),
    # BIT* SearchQueue
    (r"std::vector<SortKeyAndVertexPtrPair> contentCopy;\s*edgeQueue_\.getContent\(contentCopy\);", "", 0),
    (r"std::set<VertexPtr> parents;\s*for \(const auto &element : contentCopy\)\s*\{\s*parents\.insert\(element\.second\.first\);\s*\}", "", 0),
    (r"for \(const auto &parent : parents\)\s*\{\s*for \(auto it = parent->edgeQueueOutLookupConstBegin\(\); it != parent->edgeQueueOutLookupConstEnd\(\); \+\+it\)\s*\{(.*?)\}\s*\}",
     r"{ for (unsigned it = 0; it < LOOKUP_n; ++it) {\1} }", 0, _S),
    (r"\(\*it\)->data\.first = this->createSortKey\(\(\*it\)->data\.second\);", "KEY_WRITE(LOOKUP[it], 0);", 0),
    (r"edgeQueue_\.rebuild\(\);", "HEAP_REBUILD();", 0),
    (r"elementPtr->data\.first = createSortKey\(elementPtr->data\.second\);", "KEY_WRITE(elementPtr, 0);", 0), (r"edgeQueue_\.update\((\w+)\);", r"HEAP_UPDATE(\1);", 0),
    (r"const VertexPtr &parent = edge\.first;\s*const VertexPtr &child = edge\.second;", "", 0),
    (r"EdgeQueueElemPtr updateEdge = nullptr;\s*for \(auto it = child->edgeQueueInLookupConstBegin\(\); it != child->edgeQueueInLookupConstEnd\(\); \+\+it\)\s*\{.*?\n            \}",
     "ElemRef updateEdge = NULLREF; { int i_ = FIND_IN_LOOKUP(); if (i_ >= 0) updateEdge = LOOKUP[i_]; }", 0, _S),
    (r"updateEdge->data\.first = this->createSortKey\(edge\);", "KEY_WRITE(updateEdge, 0);", 0), (r"EdgeQueueElemPtr edgeElemPtr;", "ElemRef edgeElemPtr;", 0),
    (r"edgeElemPtr = edgeQueue_\.insert\(std::make_pair\(this->createSortKey\(edge\), edge\)\);", "edgeElemPtr = HEAP_INSERT();", 0),
    (r"parent->insertInEdgeQueueOutLookup\(edgeElemPtr\);", "LOOKUP2_PUSH(edgeElemPtr);", 0), (r"child->insertInEdgeQueueInLookup\(edgeElemPtr\);", "LOOKUP_PUSH(edgeElemPtr);", 0),
    # AIT*
    (r"vertex->isConsistent\(\)", "nondet_bool()", 0), (r"numInconsistentOrUnconnectedTargets_ \+= vertex->getForwardQueueIncomingLookup\(\)\.size\(\);", "counter_ += LOOKUP_n;", 0),
    (r"graph_\.isGoal\(vertex\)", "nondet_bool()", 0), (r"vertex->getReverseParent\(\)->removeFromReverseChildren\(vertex->getId\(\)\);", "", 0), (r"vertex->reset\w+\(\);", "", 0),
    (r"for \(const auto &edge : vertex->getForwardQueueIncomingLookup\(\)\)\s*\{", "for (unsigned k_ = 0; k_ < LOOKUP_n; ++k_) { ElemRef edge = LOOKUP[k_];", 0),
    (r"edge->data\.setSortKey\(computeSortKey\(edge->data\.getParent\(\), edge->data\.getChild\(\)\)\);", "KEY_WRITE(edge, 0);", 0), (r"forwardQueue_\.update\((\*?\w+)\);", r"HEAP_UPDATE(\1);", 0),
    (r"auto reverseQueuePointer = vertex->getReverseQueuePointer\(\);\s*if \(reverseQueuePointer\)\s*\{\s*reverseQueue_\.remove\(reverseQueuePointer\);\s*\}", "if (nondet_bool()) { /* removal from the REVERSE queue: a different heap, no requirement on the forward queue's keys */ }", 0),
    (r"for \(const auto &child : vertex->getReverseChildren\(\)\)\s*\{\s*invalidateCostToComeFromGoalOfReverseBranch\(child\);\s*\}", "for (unsigned c_ = 0; c_ < NCHILD; ++c_) { HEAP_OP(); /* the recursive call operates on both queues */ }", 0),
    (r"updateReverseSearchVertex\(vertex\);", "HEAP_OP();", 0),
    (r"const auto &lookup = edge\.getChild\(\)->getForwardQueueIncomingLookup\(\);", "", 0), (r"const auto lookup = edge\.getChild\(\)->getForwardQueueIncomingLookup\(\);", "", 0),
    (r"const auto it = std::find_if\(lookup\.begin\(\), lookup\.end\(\), \[&edge\]\(const auto element\) \{.*?\}\);", "int it = FIND_IN_LOOKUP();", 0, _S),
    (r"it != lookup\.end\(\)", "it >= 0", 0), (r"isEdgeBetter\(edge, \(\*it\)->data\)", "nondet_bool()", 0),
    (r"\(\*it\)->data\.setSortKey\(edge\.getSortKey\(\)\);", "KEY_WRITE(LOOKUP[it], 0);", 0), (r"HEAP_UPDATE\(\*it\)", "HEAP_UPDATE(LOOKUP[it])", 0),
    (r"auto element = forwardQueue_\.insert\(edge\);", "ElemRef element = HEAP_INSERT();", 0), (r"edge\.getParent\(\)->addToForwardQueueOutgoingLookup\(element\);", "LOOKUP2_PUSH(element);", 0),
    (r"edge\.getChild\(\)->addToForwardQueueIncomingLookup\(element\);", "LOOKUP_PUSH(element);", 0),
    (r"!edge\.getChild\(\)->isConsistent\(\) \|\| !objective_->isFinite\(edge\.getChild\(\)->getCostToComeFromGoal\(\)\)", "nondet_bool()", 0), (r"\+\+numInconsistentOrUnconnectedTargets_;", "counter_++;", 0),
    # a changed body may read keys back / compare costs: reads are arbitrary values, objective predicates arbitrary booleans
    (r"const auto (\w+) = std::get<\d>\(\(\*it\)->data\);", r"double \1 = nondet_double();", 0), (r"std::get<\d>\(\(\*it\)->data\)", "nondet_double()", 0),
    (r"objective_->is\w+\((?:[^()]|\([^()]*\))*\)", "nondet_bool()", 0),
]
def _own(name, file, sig):
    return dict(name=name, file=file, sig=sig, rules=OWN_RULES, loops={"allow_uncontracted": True})
OWN_SRC = [
    _own("rq_updateIfExists", RQF, r"bool ReverseQueue::updateIfExists\(const Edge &edge\)"), _own("rq_insertOrUpdate", RQF, r"void ReverseQueue::insertOrUpdate\(const Edge &edge\)"),
    _own("sq_rebuildEdgeQueue", SQF, r"void BITstar::SearchQueue::rebuildEdgeQueue\(\)"), _own("sq_update", SQF, r"void BITstar::SearchQueue::update\(const EdgeQueueElemPtr elementPtr\)"),
    _own("sq_enqueueEdge", SQF, r"void BITstar::SearchQueue::enqueueEdge\(const VertexPtrPair &edge\)"),
    _own("ait_invalidateBranch", AITF, r"void AITstar::invalidateCostToComeFromGoalOfReverseBranch\(const std::shared_ptr<Vertex> &vertex\)"),
    _own("ait_insertOrUpdateInForwardQueue", AITF, r"void AITstar::insertOrUpdateInForwardQueue\(const Edge &edge\)"),
]
for _h, _fn, _needs, _can in (
        ("rq_updateIfExists", "eitstar::ReverseQueue::updateIfExists", ["rq_updateIfExists"], [dict(name="resorted_only_if_cost_changed", where="body:rq_updateIfExists", rx=r"HEAP_UPDATE\(LOOKUP\[it\]\);", repl="if (nondet_bool()) HEAP_UPDATE(LOOKUP[it]);")]),
        ("rq_insertOrUpdate", "eitstar::ReverseQueue::insertOrUpdate(edge)", ["rq_updateIfExists", "rq_insertOrUpdate"], [dict(name="handle_not_remembered", where="body:rq_insertOrUpdate", rx=r"LOOKUP_PUSH\(elementPointer\);", repl=";")]),
        ("sq_rebuildEdgeQueue", "BITstar::SearchQueue::rebuildEdgeQueue", ["sq_rebuildEdgeQueue"], [dict(name="rebuild_skipped_for_some_factor", where="body:sq_rebuildEdgeQueue", rx=r"HEAP_REBUILD\(\);", repl="if (nondet_bool()) HEAP_REBUILD();")]),
        ("sq_update", "BITstar::SearchQueue::update", ["sq_update"], [dict(name="key_refreshed_not_resorted", where="body:sq_update", rx=r"HEAP_UPDATE\(elementPtr\);", repl=";")]),
        ("sq_enqueueEdge", "BITstar::SearchQueue::enqueueEdge", ["sq_enqueueEdge"], [dict(name="existing_edge_not_resorted", where="body:sq_enqueueEdge", rx=r"HEAP_UPDATE\(updateEdge\);", repl=";")]),
        ("ait_invalidateBranch", "AITstar::invalidateCostToComeFromGoalOfReverseBranch", ["ait_invalidateBranch"], [dict(name="resort_left_to_the_final_vertex_update", where="body:ait_invalidateBranch", rx=r"HEAP_UPDATE\(edge\);", repl=";")]),
        ("ait_insertOrUpdateInForwardQueue", "AITstar::insertOrUpdateInForwardQueue(edge)", ["ait_insertOrUpdateInForwardQueue"], [dict(name="better_key_not_resorted", where="body:ait_insertOrUpdateInForwardQueue", rx=r"HEAP_UPDATE\(LOOKUP\[it\]\);", repl=";")])):
    UNITS.append(dict(name="c11_owner_" + _h, template="C11/heap_owner.c", mode="plain", entry="h_" + _h, sources=OWN_SRC, needs=_needs, flags=["--bounds-check", "--pointer-check"], unwind=8, level="bounded",
                      bound="<= 3 handles in a lookup, <= 6 heap elements, <= 2 recursive calls", backend="minisat", timeout=300, functions=[_fn], canaries=_can))

ASSUMPTIONS = [
    "the user's comparison functor is a strict weak order (then a heap of <= N elements behaves exactly as under 8-bit rank keys)",
    "operator new does not throw; event callbacks do not touch the heap",
    "narrowing conversions size_t -> int / unsigned wrap-around ((pos-1)>>1 at pos 0, size()/2-1 for size<=1) behave as two's complement modular arithmetic",
    "bounded units: N as stated per unit; everything else (contents, positions, arguments, which element) is fully symbolic",
    "c11_insert_unbounded: the new element is an arbitrary reference not stored at the ghost slots (freshness of operator new); percolateUp is used by contract (proved by c11_percolateUp_unbounded from the same macro PERCOLATE_UP_CONTRACT)",
]
TRUSTED = [
    "extraction rewrite table of units/C11.py (Burstall field maps: p->f => F_f[p]; std::vector => array + size)",
    "harness code in units/C11/heap_bounded.c (pre-state builder any_heap, invariant checker check_inv)",
    "CBMC 6.11 + kissat/minisat; for the unbounded sift proofs goto-instrument DFCC + cvc5",
]
NOT_COVERED = ["comparison functors that are not strict weak orders", "exceptions thrown by operator new",
               "the planner-side heap owners BIT* SearchQueue, AIT* queues, EIT* ReverseQueue (key changes followed by update/rebuild): only GridB is under contract (bounded window)"]

NATIVE = [
    dict(name="c11_native_random_sequences", driver="native/c11_native.cpp",
         args=lambda tier, seed: ["search", seed, 20000 if tier == "quick" else 1000000], timeout=900),
]


def replay(ur, scratch, seed):
    """Search the real ompl::BinaryHeap<int> for a failing operation sequence (white-box invariant + observable oracle)."""
    from vf import native as N, cbmc as C
    exe = N.build_driver("native/c11_native.cpp", scratch)
    r = C.run_cmd([exe, "search", str(seed), "300000"], 600, env=N.run_env())
    return dict(found=(r["rc"] == 1), driver="native/c11_native.cpp", args=["search", seed, 300000], output=r["out"][-2500:])
