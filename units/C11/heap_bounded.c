/* C11, layer A: every method of BinaryHeap.h, bodies extracted from /repo, verified for ALL heaps of
 * up to N elements (contents, positions and arguments fully symbolic; keys are 8-bit ranks -- any
 * strict weak order on <= N elements is order-isomorphic to ranks).  Bounded in N, complete in
 * everything else; sift loops are unwound beyond log2(N)+1 with unwinding assertions. */
#include <stddef.h>
#include <stdbool.h>
typedef unsigned int ElemRef;          /* pointer to Element = index into the field maps; 0 = nullptr */
typedef unsigned char KeyT;
#ifndef N
#define N 15
#endif
#define NREF (2 * N + 3)
#define NULLREF 0u
unsigned int F_position[NREF]; KeyT F_data[NREF]; bool alive[NREF]; ElemRef next_ref;
ElemRef vector_[N + 1]; size_t vector__size;
#define lt_(a, b) ((a) < (b))
#define NEW_Element() (__CPROVER_assert(next_ref < NREF, "ref pool"), alive[next_ref] = 1, next_ref++)
#define DELETE_Element(r) do { __CPROVER_assert((r) < NREF && alive[r], "delete of a live element (no double free)"); alive[r] = 0; } while (0)
#define VEC_COPY(dst, src) do { for (size_t c_ = 0; c_ < N + 1; c_++) dst[c_] = src[c_]; dst##_size = src##_size; } while (0)
#define VEC_PUSH(v, x) do { __CPROVER_assert(v##_size <= N, "capacity"); v[v##_size++] = (x); } while (0)
int ev_insert_count, ev_remove_count; ElemRef ev_last;
bool eventAfterInsert_, eventBeforeRemove_;
static void ev_after_insert(ElemRef e) { ev_insert_count++; ev_last = e; }
static void ev_before_remove(ElemRef e) { __CPROVER_assert(alive[e], "event before remove sees a live element"); ev_remove_count++; ev_last = e; }

void percolateUp(const unsigned int pos)
/*@BODY percolateUp@*/
void percolateDown(const unsigned int pos)
/*@BODY percolateDown@*/
void removePos(unsigned int pos)
/*@BODY removePos@*/
void build(void)
/*@BODY build@*/
ElemRef newElement(const KeyT data, unsigned int pos)
/*@BODY newElement@*/
void heap_clear(void)
/*@BODY clear@*/
ElemRef heap_top(void)
/*@BODY top@*/
void heap_pop(void)
/*@BODY pop@*/
void heap_remove(ElemRef element)
/*@BODY remove@*/
ElemRef heap_insert(const KeyT data)
/*@BODY insert@*/
void heap_insert_list(const KeyT *list, size_t list_size)
/*@BODY insert_list@*/
void heap_buildFrom(const KeyT *list, size_t list_size)
/*@BODY buildFrom@*/
void heap_rebuild(void)
/*@BODY rebuild@*/
void heap_update(ElemRef element)
/*@BODY update@*/
bool heap_empty(void)
/*@BODY empty@*/
unsigned int heap_size(void)
/*@BODY size@*/
KeyT content[2 * N + 2]; size_t content_size;
void heap_getContent(void)
/*@BODY getContent@*/
ElemRef backup[N + 1]; size_t backup_size;
void heap_sort(KeyT *list, size_t *list_size_p)
/*@BODY sort@*/

/* ------------------------------------------------------------------ harness side (trusted) */
unsigned nondet_u(void); KeyT nondet_k(void); bool nondet_b(void);
#define REACH(tag) __CPROVER_assert(0, "REACH " tag)
KeyT cnt_key; /* ghost key: multiset is tracked as "number of elements with key == cnt_key" for arbitrary cnt_key */
static unsigned count_key(void) { unsigned c = 0; for (unsigned i = 0; i < N + 1; i++) if (i < vector__size && F_data[vector_[i]] == cnt_key) c++; return c; }
/* representation invariant as an assumption (pre-state): refs 1..n in slots 0..n-1 (WLOG up to renaming of opaque refs) */
static void any_heap(unsigned n, bool ordered)
{
    vector__size = n; next_ref = n + 1;
    for (unsigned i = 0; i < N + 1; i++)
        if (i < n) { vector_[i] = i + 1; F_position[i + 1] = i; alive[i + 1] = 1; F_data[i + 1] = nondet_k();
                     if (ordered && i > 0) __CPROVER_assume(!lt_(F_data[i + 1], F_data[((i - 1) >> 1) + 1])); }
    for (unsigned r = 0; r < NREF; r++) if (r == 0 || r > n) alive[r] = 0;
    eventAfterInsert_ = nondet_b(); eventBeforeRemove_ = nondet_b(); ev_insert_count = 0; ev_remove_count = 0;
}
static void check_inv(void)
{
    for (unsigned i = 1; i < N + 1; i++) if (i < vector__size) __CPROVER_assert(!lt_(F_data[vector_[i]], F_data[vector_[(i - 1) >> 1]]), "C11.order heap order holds at every slot");
    for (unsigned i = 0; i < N + 1; i++) if (i < vector__size) __CPROVER_assert(vector_[i] != NULLREF && vector_[i] < NREF && F_position[vector_[i]] == i && alive[vector_[i]], "C11.handle every stored element's handle points at its slot and is live");
    unsigned live = 0; for (unsigned r = 0; r < NREF; r++) if (alive[r]) live++;
    __CPROVER_assert(live == vector__size, "C11.size size equals the number of live elements");
}
/* H: arbitrary pre-existing element other than the one operated on: still there, same key, handle still its own */
#define CHECK_OTHER(H, keyH) __CPROVER_assert(alive[H] && F_position[H] < vector__size && vector_[F_position[H]] == (H) && F_data[H] == (keyH), "C11.handle other elements keep handle and key")

void h_insert(void)
{
    unsigned n = nondet_u(); __CPROVER_assume(n <= N - 1); any_heap(n, true);
    unsigned c0 = count_key(); KeyT x = nondet_k(); ElemRef H = nondet_u(); __CPROVER_assume(H >= 1 && H <= n || n == 0); KeyT kH = n ? F_data[H] : 0;
    ElemRef e = heap_insert(x);
    check_inv();
    __CPROVER_assert(vector__size == n + 1, "C11.size insert grows size by one");
    __CPROVER_assert(e > n && alive[e] && F_data[e] == x && vector_[F_position[e]] == e, "C11.handle insert returns a fresh handle holding the key");
    __CPROVER_assert(count_key() == c0 + (x == cnt_key ? 1 : 0), "C11.multiset insert adds exactly the new key");
    if (n) CHECK_OTHER(H, kH);
    __CPROVER_assert(ev_insert_count == (eventAfterInsert_ ? 1 : 0) && ev_remove_count == 0 && (!eventAfterInsert_ || ev_last == e), "C11.event after-insert fires once with the new element");
    if (n == N - 1 && F_position[e] == 0) REACH("insert sifts to root of a full heap");
}
void h_remove(void)
{
    unsigned n = nondet_u(); __CPROVER_assume(n >= 1 && n <= N); any_heap(n, true);
    unsigned c0 = count_key(); unsigned k = nondet_u(); __CPROVER_assume(k < n); ElemRef e = vector_[k]; KeyT ke = F_data[e];
    ElemRef H = nondet_u(); __CPROVER_assume(H >= 1 && H <= n); KeyT kH = F_data[H];
    heap_remove(e);
    check_inv();
    __CPROVER_assert(vector__size == n - 1 && !alive[e], "C11.size remove shrinks size by one and frees the element");
    __CPROVER_assert(count_key() == c0 - (ke == cnt_key ? 1 : 0), "C11.multiset remove deletes exactly that key");
    if (H != e) CHECK_OTHER(H, kH);
    __CPROVER_assert(ev_remove_count == (eventBeforeRemove_ ? 1 : 0) && ev_insert_count == 0, "C11.event before-remove fires once");
    if (k > 2 && k < n - 1 && F_position[n] < k) REACH("moved element sifted up");
    if (k == 0 && n == N) REACH("remove root of full heap");
}
void h_pop(void)
{
    unsigned n = nondet_u(); __CPROVER_assume(n >= 1 && n <= N); any_heap(n, true);
    unsigned c0 = count_key(); ElemRef e = heap_top(); KeyT ke = F_data[e];
    unsigned g = nondet_u(); __CPROVER_assume(g < n);
    __CPROVER_assert(e == vector_[0] && !lt_(F_data[vector_[g]], ke), "C11.top top is a minimum of the contents");
    ElemRef H = nondet_u(); __CPROVER_assume(H >= 1 && H <= n); KeyT kH = F_data[H];
    heap_pop();
    check_inv();
    __CPROVER_assert(vector__size == n - 1 && !alive[e], "C11.size pop shrinks size by one and frees the top");
    __CPROVER_assert(count_key() == c0 - (ke == cnt_key ? 1 : 0), "C11.multiset pop deletes exactly the top key");
    if (H != e) CHECK_OTHER(H, kH);
    if (n > 1) { ElemRef t2 = heap_top(); __CPROVER_assert(!lt_(F_data[t2], ke), "C11.order consecutive pops are non-decreasing"); }
    else __CPROVER_assert(heap_top() == NULLREF && heap_empty(), "top of an empty heap is null");
    if (n == N) REACH("pop from full heap");
}
void h_update(void)
{
    unsigned n = nondet_u(); __CPROVER_assume(n >= 1 && n <= N); any_heap(n, true);
    unsigned k = nondet_u(); __CPROVER_assume(k < n); ElemRef e = vector_[k];
    ElemRef H = nondet_u(); __CPROVER_assume(H >= 1 && H <= n); KeyT kH = F_data[H];
    F_data[e] = nondet_k();          /* the user changed the key in place, then calls update() */
    if (H == e) kH = F_data[e];
    unsigned c0 = count_key();
    heap_update(e);
    check_inv();
    __CPROVER_assert(vector__size == n && heap_size() == n, "C11.size update keeps size");
    __CPROVER_assert(count_key() == c0, "C11.multiset update keeps the multiset");
    CHECK_OTHER(H, kH);
    if (F_position[e] < k && k > 2) REACH("update moved up"); if (F_position[e] > k) REACH("update moved down");
}
void h_build(void)
{
    unsigned n = nondet_u(); __CPROVER_assume(n <= N); any_heap(n, false);
    unsigned c0 = count_key(); ElemRef H = nondet_u(); __CPROVER_assume(H >= 1 && H <= n || n == 0); KeyT kH = n ? F_data[H] : 0;
    heap_rebuild();
    check_inv();
    __CPROVER_assert(vector__size == n && count_key() == c0, "C11.multiset rebuild keeps size and multiset");
    if (n) CHECK_OTHER(H, kH);
    if (n == N) REACH("rebuild full"); if (n == N - 1) REACH("rebuild even/odd sibling case");
}
void h_insert_list(void)
{
    unsigned n = nondet_u(); unsigned m = nondet_u(); __CPROVER_assume(m <= LISTMAX && n <= N - LISTMAX); any_heap(n, true);
    KeyT list[LISTMAX]; for (unsigned i = 0; i < LISTMAX; i++) list[i] = nondet_k();
    unsigned c0 = count_key(); unsigned add = 0; for (unsigned i = 0; i < LISTMAX; i++) if (i < m && list[i] == cnt_key) add++;
    ElemRef H = nondet_u(); __CPROVER_assume(H >= 1 && H <= n || n == 0); KeyT kH = n ? F_data[H] : 0;
    heap_insert_list(list, m);
    check_inv();
    __CPROVER_assert(vector__size == n + m && count_key() == c0 + add, "C11.multiset bulk insert adds exactly the listed keys");
    if (n) CHECK_OTHER(H, kH);
    __CPROVER_assert(ev_insert_count == (eventAfterInsert_ ? (int)m : 0), "C11.event after-insert fires once per inserted element");
    if (m == LISTMAX && n > 0) REACH("bulk insert into non-empty heap");
}
void h_buildFrom(void)
{
    unsigned n = nondet_u(); unsigned m = nondet_u(); __CPROVER_assume(m <= BUILDMAX && n <= N); any_heap(n, true);
    KeyT list[BUILDMAX]; for (unsigned i = 0; i < BUILDMAX; i++) list[i] = nondet_k();
    unsigned add = 0; for (unsigned i = 0; i < BUILDMAX; i++) if (i < m && list[i] == cnt_key) add++;
    heap_buildFrom(list, m);
    check_inv();
    __CPROVER_assert(vector__size == m && count_key() == add, "C11.multiset buildFrom leaves exactly the listed keys");
    if (m == BUILDMAX && n > 2) REACH("buildFrom replaces content");
}
void h_clear(void)
{
    unsigned n = nondet_u(); __CPROVER_assume(n <= N); any_heap(n, true);
    heap_clear();
    check_inv();
    __CPROVER_assert(vector__size == 0 && heap_empty() && heap_top() == NULLREF, "C11.size clear empties the heap and frees every element once");
    if (n == N) REACH("clear full");
}
void h_sort(void)
{
    unsigned n = nondet_u(); unsigned m = nondet_u(); __CPROVER_assume(m <= BUILDMAX && n <= N); any_heap(n, true);
    KeyT list[BUILDMAX + 1]; size_t ls = m; for (unsigned i = 0; i < BUILDMAX; i++) list[i] = nondet_k();
    unsigned c0 = count_key(); unsigned add = 0; for (unsigned i = 0; i < BUILDMAX; i++) if (i < m && list[i] == cnt_key) add++;
    ElemRef H = nondet_u(); __CPROVER_assume(H >= 1 && H <= n || n == 0); KeyT kH = n ? F_data[H] : 0;
    heap_sort(list, &ls);
    __CPROVER_assert(ls == m, "sort keeps the list length");
    for (unsigned i = 1; i < BUILDMAX; i++) if (i < m) __CPROVER_assert(!lt_(list[i], list[i - 1]), "C11.order sort output is non-decreasing");
    unsigned got = 0; for (unsigned i = 0; i < BUILDMAX; i++) if (i < m && list[i] == cnt_key) got++;
    __CPROVER_assert(got == add, "C11.multiset sort output is a permutation of its input");
    check_inv();
    __CPROVER_assert(vector__size == n && count_key() == c0, "sort does not affect the content of the heap");
    if (n) CHECK_OTHER(H, kH);
    if (m == BUILDMAX && n > 1) REACH("sort with non-empty heap");
}
void h_getContent(void)
{
    unsigned n = nondet_u(); __CPROVER_assume(n <= N); any_heap(n, true); content_size = 0;
    unsigned c0 = count_key();
    heap_getContent();
    unsigned got = 0; for (unsigned i = 0; i < N + 1; i++) if (i < content_size && content[i] == cnt_key) got++;
    __CPROVER_assert(content_size == n && got == c0 && heap_size() == n, "getContent lists exactly the current keys");
    if (n == N) REACH("content full");
}
/* Inv => top is a minimum (the classic lemma, for every heap of <= N elements) */
void h_top_is_min(void)
{
    unsigned n = nondet_u(); __CPROVER_assume(n >= 1 && n <= N); any_heap(n, true);
    unsigned g = nondet_u(); __CPROVER_assume(g < n);
    ElemRef t = heap_top();
    __CPROVER_assert(t == vector_[0] && !lt_(F_data[vector_[g]], F_data[t]), "C11.top top is a minimum of the contents");
    if (n == N && g == N - 1) REACH("deepest leaf");
}
