/* C11 -- the planners that OWN an updatable heap (BIT* SearchQueue, AIT* forward/reverse queues, EIT* ReverseQueue) edit sort keys in place and
 * then tell the heap.  The heap's own contract (proved for BinaryHeap.h in this check) is: update(e) restores the order provided e is the ONLY
 * element whose key changed since the order last held; rebuild() restores it from any state; every other operation (insert, remove, pop, top,
 * update of another element) needs the order to hold on entry.  Ghost dirty[e]: the key of e was written after the heap last (re)established
 * the order.  Obligations: every heap operation is called with its precondition, and on return from the owner's function no element is dirty.
 * Lookups (vectors of element handles kept by vertices) are small arrays.  Bounded: <= 3 handles per lookup, <= 6 elements. */
#include <stdbool.h>
#include <stddef.h>
#define NEL 7
#define NLK 3
#define NULLREF 0u
#define REACH(msg) __CPROVER_assert(0, "REACH " msg)
typedef unsigned ElemRef;
unsigned nondet_unsigned(void); bool nondet_bool(void); int nondet_int(void); double nondet_double(void);
bool in_heap[NEL], dirty[NEL]; unsigned keys_written[NEL];
ElemRef LOOKUP[NLK]; unsigned LOOKUP_n;                     /* the lookup the function walks (incoming / outgoing handles of the vertex) */
ElemRef LOOKUP2[NLK]; unsigned LOOKUP2_n; bool in_lookup_new; ElemRef inserted;
unsigned heap_ops, updates, rebuilds, counter_;
static bool any_dirty_except(ElemRef x) { for (ElemRef e = 1; e < NEL; e++) if (e != x && in_heap[e] && dirty[e]) return true; return false; }
#define KEY_WRITE(e, k) do { __CPROVER_assert((e) != NULLREF && (e) < NEL && in_heap[e], "a sort key is edited through a handle of an element that is in the heap"); dirty[e] = true; keys_written[e] |= 1u << (k); } while (0)
static void HEAP_UPDATE(ElemRef e)
{
    __CPROVER_assert(e != NULLREF && e < NEL && in_heap[e], "C11.update update() of a live handle");
    __CPROVER_assert(!any_dirty_except(e), "C11.update update(e) is called while e is the only element with an edited key");
    dirty[e] = false; updates++; heap_ops++;
}
static void HEAP_REBUILD(void) { for (ElemRef e = 1; e < NEL; e++) dirty[e] = false; rebuilds++; heap_ops++; }
static void HEAP_OP(void) { __CPROVER_assert(!any_dirty_except(NULLREF), "C11.order a heap operation other than update(e)/rebuild() needs every key to be in place"); heap_ops++; }
static ElemRef HEAP_INSERT(void) { HEAP_OP(); for (ElemRef e = 1; e < NEL; e++) if (!in_heap[e]) { in_heap[e] = true; dirty[e] = false; keys_written[e] = 0; inserted = e; return e; } __CPROVER_assume(0); return NULLREF; }
static void HEAP_REMOVE(ElemRef e) { HEAP_OP(); __CPROVER_assert(e != NULLREF && e < NEL && in_heap[e], "C11.remove remove() of a live handle"); in_heap[e] = false; dirty[e] = false; }
static int FIND_IN_LOOKUP(void) { int i = nondet_int(); __CPROVER_assume(i >= -1 && i < (int)LOOKUP_n); return i; }
static void LOOKUP_PUSH(ElemRef e) { if (e == inserted) in_lookup_new = true; }
static void LOOKUP2_PUSH(ElemRef e) { }

/* ---- EIT* ReverseQueue ---- */
bool rq_updateIfExists(void)
/*@BODY rq_updateIfExists@*/
void rq_insertOrUpdate(void)
/*@BODY rq_insertOrUpdate@*/
/* ---- BIT* SearchQueue ---- */
void sq_rebuildEdgeQueue(void)
/*@BODY sq_rebuildEdgeQueue@*/
void sq_update(ElemRef elementPtr)
/*@BODY sq_update@*/
void sq_enqueueEdge(void)
/*@BODY sq_enqueueEdge@*/
/* ---- AIT* ---- */
unsigned NCHILD;
void ait_invalidateBranch(void)
/*@BODY ait_invalidateBranch@*/
void ait_insertOrUpdateInForwardQueue(void)
/*@BODY ait_insertOrUpdateInForwardQueue@*/

static void any_world(void)
{
    in_heap[0] = false; dirty[0] = false; inserted = NULLREF; in_lookup_new = false;
    for (ElemRef e = 1; e < NEL; e++) { dirty[e] = false; keys_written[e] = 0; }
    __CPROVER_assume(LOOKUP_n <= NLK && LOOKUP2_n <= NLK && NCHILD <= 2);
    for (unsigned k = 0; k < NLK; k++) if (k < LOOKUP_n) { __CPROVER_assume(LOOKUP[k] != NULLREF && LOOKUP[k] < NEL && in_heap[LOOKUP[k]]); for (unsigned j = 0; j < k; j++) __CPROVER_assume(LOOKUP[j] != LOOKUP[k]); }
    unsigned free_ = 0; for (ElemRef e = 1; e < NEL; e++) if (!in_heap[e]) free_++; __CPROVER_assume(free_ >= 1);
    heap_ops = 0; updates = 0; rebuilds = 0; __CPROVER_assume(counter_ < 1000);
}
static void check_clean(void) { for (ElemRef e = 1; e < NEL; e++) __CPROVER_assert(!(in_heap[e] && dirty[e]), "C11.update every edited key was re-sorted (update/rebuild) before the owner returned"); }
void h_rq_updateIfExists(void)
{
    any_world(); bool r = rq_updateIfExists(); check_clean();
    if (r) { __CPROVER_assert(updates == 1, "an existing edge is re-sorted once"); bool all4 = false; for (unsigned k = 0; k < NLK; k++) if (k < LOOKUP_n && keys_written[LOOKUP[k]] == 0xFu) all4 = true; __CPROVER_assert(all4, "all four keys of the existing edge are refreshed"); REACH("updated"); }
    else { __CPROVER_assert(heap_ops == 0, "an absent edge touches nothing"); REACH("absent"); }
}
void h_rq_insertOrUpdate(void)
{
    any_world(); rq_insertOrUpdate(); check_clean();
    __CPROVER_assert((inserted != NULLREF) == (updates == 0), "the edge is either updated in place or inserted, never both");
    if (inserted != NULLREF) { __CPROVER_assert(in_lookup_new, "the handle of a newly inserted edge is remembered in the source's lookup (so that later key changes find it)"); REACH("inserted"); } else REACH("updated");
}
void h_sq_rebuildEdgeQueue(void) { any_world(); sq_rebuildEdgeQueue(); check_clean(); __CPROVER_assert(rebuilds == 1, "the queue is rebuilt"); if (LOOKUP_n == 3) REACH("three edges re-keyed"); }
void h_sq_update(void) { any_world(); ElemRef e = nondet_unsigned(); __CPROVER_assume(e != NULLREF && e < NEL && in_heap[e]); sq_update(e); check_clean(); __CPROVER_assert(updates == 1 && keys_written[e] == 1u, "the element's key is refreshed and re-sorted"); REACH("updated"); }
void h_sq_enqueueEdge(void)
{
    any_world(); sq_enqueueEdge(); check_clean();
    __CPROVER_assert((inserted != NULLREF) == (updates == 0), "the edge is either updated in place or inserted");
    if (inserted != NULLREF) { __CPROVER_assert(in_lookup_new, "the new handle is remembered in the lookups"); REACH("inserted"); } else REACH("updated");
}
void h_ait_invalidateBranch(void) { any_world(); ait_invalidateBranch(); check_clean(); if (LOOKUP_n == 3 && NCHILD == 2) REACH("three incoming edges, two children"); }
void h_ait_insertOrUpdateInForwardQueue(void)
{
    any_world(); ait_insertOrUpdateInForwardQueue(); check_clean();
    if (inserted != NULLREF) { __CPROVER_assert(in_lookup_new, "the new handle is remembered in the lookups"); REACH("inserted"); } else REACH("existing");
}
