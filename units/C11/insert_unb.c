/* unit: BinaryHeap::insert -- UNBOUNDED, verified against the CONTRACT of percolateUp (--replace-call-with-contract; percolateUp's body is proved against that
 * contract by c11_percolateUp_unbounded): for every heap of up to 65534 elements that is ordered at the ghost slot G (and whose ghost element H finds itself
 * through its handle), after insert(x): the size grew by one, the heap is ordered at G (G may be the new last slot), H still finds itself, and the returned
 * handle is a fresh element holding x that finds itself.  The new element is the ghost E_NEW (any reference not in the heap). */
#include "sift_common.h"
ElemRef E_NEW; bool eventAfterInsert_; unsigned ev_calls; ElemRef ev_arg; size_t N0;
#define NEW_Element() (E_NEW)
#define VEC_PUSH(v, x) do { __CPROVER_assert(vector__size < 65535, "capacity"); v[vector__size] = (x); vector__size++; } while (0)
static void ev_after_insert(ElemRef e) { ev_calls++; ev_arg = e; }
typedef int KeyT;
void percolateUp(const unsigned int pos)
PERCOLATE_UP_CONTRACT
;
ElemRef heap_insert(const KeyT data)
__CPROVER_requires(N0 == N && N <= 65534 && G <= N && ev_calls == 0)
/* ghost constants as they will be when percolateUp is called (after the push): the new slot holds E_NEW */
__CPROVER_requires(T == E_NEW && (G == N ? E_G == E_NEW : E_G == vector_[G]) && (G > 0 ==> E_P == vector_[P]) && ((G > 0 && P > 0) ==> E_PP == vector_[PP]))
/* the heap is ordered at the ghost instances (old part) */
__CPROVER_requires((G > 0 && G < N) ==> !lt_(D(vector_[G]), D(vector_[P])))
__CPROVER_requires((G > 0 && P > 0) ==> !lt_(D(vector_[P]), D(vector_[PP])))
/* handles: H is either an element of the heap that finds itself, or the element about to be created */
__CPROVER_requires(H == E_NEW || (F_position[H] < N && vector_[F_position[H]] == H && H != E_NEW))
/* E_NEW is fresh: not stored at the ghost slots */
__CPROVER_requires((G < N ==> vector_[G] != E_NEW) && (G > 0 ==> vector_[P] != E_NEW) && ((G > 0 && P > 0) ==> vector_[PP] != E_NEW))
__CPROVER_assigns(vector_, F_position, vector__size, ev_calls, ev_arg; F_data[E_NEW])
__CPROVER_ensures(N == N0 + 1)                                                                  /* C11.insert the multiset grows by one element */
__CPROVER_ensures(G > 0 ==> !lt_(D(vector_[G]), D(vector_[P])))                                   /* C11.order heap order at the ghost slot */
__CPROVER_ensures(F_position[H] < N && vector_[F_position[H]] == H)                               /* C11.handle every handle (also the new one) finds its element */
__CPROVER_ensures(__CPROVER_return_value == E_NEW && D(E_NEW) == data)                            /* the returned handle is the new element, holding the inserted key */
__CPROVER_ensures(eventAfterInsert_ ? (ev_calls == 1 && ev_arg == E_NEW) : ev_calls == 0)         /* the insertion event fires once, for the new element */
/*@BODY insert@*/
void harness(void)
{
    KeyT x; ElemRef r = heap_insert(x);
    if (vector_[N - 1] != E_NEW) REACH("new element moved up"); else REACH("new element stayed at the end");
}
