/* C11, layer B: unbounded sift proofs.  Memory model: typed static field maps of 65536 entries
 * (Burstall), element references are 16-bit => the statements hold for heaps of up to NMAX elements.
 * Universal facts are Skolemised: G = arbitrary slot, H = arbitrary element (ghosts, never assigned). */
#include <stddef.h>
#include <stdbool.h>
typedef unsigned short ElemRef;
#define NREF 65536
unsigned int F_position[NREF]; int F_data[NREF];
ElemRef vector_[65536]; size_t vector__size;
#define lt_(a,b) ((a)<(b))
#define D(e) (F_data[e])
#define PAR(x) (((x)-1u)>>1)
#define SIB(x) (((x)&1u) ? (x)+1u : (x)-1u)
#define IDX(i) (__CPROVER_assert((size_t)(i) < vector__size, "index within vector_ storage"), (i))
/* x is an ancestor-or-self of a (heap numbering): exists k <= 16 with (a+1)>>k == x+1 */
#define ANC(a,x) (((((a)+1u)>>0) == (x)+1u) || ((((a)+1u)>>1) == (x)+1u) || ((((a)+1u)>>2) == (x)+1u) || ((((a)+1u)>>3) == (x)+1u) || ((((a)+1u)>>4) == (x)+1u) || ((((a)+1u)>>5) == (x)+1u) || ((((a)+1u)>>6) == (x)+1u) || ((((a)+1u)>>7) == (x)+1u) || ((((a)+1u)>>8) == (x)+1u) || ((((a)+1u)>>9) == (x)+1u) || ((((a)+1u)>>10) == (x)+1u) || ((((a)+1u)>>11) == (x)+1u) || ((((a)+1u)>>12) == (x)+1u) || ((((a)+1u)>>13) == (x)+1u) || ((((a)+1u)>>14) == (x)+1u) || ((((a)+1u)>>15) == (x)+1u) || ((((a)+1u)>>16) == (x)+1u))
unsigned int G; ElemRef E_G, E_P, E_PP, E_C1, E_C2, E_S, T; ElemRef H;
#define P  PAR(G)
#define PP PAR(P)
#define C1 (2u*G+1u)
#define C2 (2u*G+2u)
#define S  SIB(G)
#define N vector__size
#define REACH(tag) __CPROVER_assert(0, "REACH " tag)
/* the contract of BinaryHeap::percolateUp (one definition: the body is proved against it in c11_percolateUp_unbounded, callers are verified against it) */
/* pre-state heap order instances, excluding relations whose child is pos or whose parent is pos */
/* grand relation for children of pos */
/* handles: of the ghost element H and of the element at pos */
/* C11.order: heap order at G afterwards, unless G is a child of pos and nothing moved (then slot G is untouched) */
/* C11.handle: every element's handle still finds it */
/* frame: slots that are not ancestors-or-self of pos keep their element; the multiset is permuted along the path only */
#define PERCOLATE_UP_CONTRACT \
__CPROVER_requires(N >= 1 && N <= 65535 && pos < N && G < N) \
__CPROVER_requires(E_G == vector_[G] && T == vector_[pos]) \
__CPROVER_requires(G > 0 ==> E_P == vector_[P]) \
__CPROVER_requires((G > 0 && P > 0) ==> E_PP == vector_[PP]) \
__CPROVER_requires((G > 0 && G != pos && P != pos) ==> !lt_(D(vector_[G]), D(vector_[P]))) \
__CPROVER_requires((G > 0 && P > 0 && P != pos) ==> !lt_(D(vector_[P]), D(vector_[PP]))) \
__CPROVER_requires((G > 0 && P == pos && pos > 0) ==> !lt_(D(vector_[G]), D(vector_[PP]))) \
__CPROVER_requires(F_position[H] < N && vector_[F_position[H]] == H) \
__CPROVER_requires(F_position[vector_[pos]] == pos) \
__CPROVER_assigns(vector_, F_position) \
__CPROVER_ensures((G > 0 && !(P == pos && vector_[pos] == T)) ==> !lt_(D(vector_[G]), D(vector_[P]))) \
__CPROVER_ensures((G > 0 && P == pos && vector_[pos] == T) ==> vector_[G] == E_G) \
__CPROVER_ensures(F_position[H] < N && vector_[F_position[H]] == H) \
__CPROVER_ensures(!ANC(pos, G) ==> vector_[G] == E_G) \
__CPROVER_ensures(N == __CPROVER_old(N))
