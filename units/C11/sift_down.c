/* unit: BinaryHeap::percolateDown -- unbounded (loop contract), every n <= 32767, every pos, ghost slot G, ghost element H */
#include "sift_common.h"
#define ABOVE(x) (ANC(parent, x) && (x) >= pos && (x) != parent)   /* x is on the path, strictly above the hole */
void percolateDown(const unsigned int pos)
__CPROVER_requires(N >= 1 && N <= 32767 && pos < N && G < N)
__CPROVER_requires(E_G == vector_[G] && T == vector_[pos])
__CPROVER_requires(G > 0 ==> E_P == vector_[P])
__CPROVER_requires((G > 0 && P > 0) ==> E_PP == vector_[PP])
__CPROVER_requires(C1 < N ==> E_C1 == vector_[C1])
__CPROVER_requires(C2 < N ==> E_C2 == vector_[C2])
__CPROVER_requires((G > 0 && S < N) ==> E_S == vector_[S])
/* pre-state heap order instances; relations whose parent is pos are excluded */
__CPROVER_requires((G > 0 && P != pos) ==> !lt_(D(vector_[G]), D(vector_[P])))
__CPROVER_requires((C1 < N && G != pos) ==> !lt_(D(vector_[C1]), D(vector_[G])))
__CPROVER_requires((C2 < N && G != pos) ==> !lt_(D(vector_[C2]), D(vector_[G])))
__CPROVER_requires((G > 0 && S < N && P != pos) ==> !lt_(D(vector_[S]), D(vector_[P])))
/* grand relation: children of pos are not smaller than the parent of pos */
__CPROVER_requires((G > 0 && P == pos && pos > 0) ==> !lt_(D(vector_[G]), D(vector_[PP])))
__CPROVER_requires((G == pos && pos > 0 && C1 < N) ==> !lt_(D(vector_[C1]), D(vector_[P])))
__CPROVER_requires((G == pos && pos > 0 && C2 < N) ==> !lt_(D(vector_[C2]), D(vector_[P])))
/* handles */
__CPROVER_requires(F_position[H] < N && vector_[F_position[H]] == H)
__CPROVER_requires(F_position[vector_[pos]] == pos)
__CPROVER_assigns(vector_, F_position)
/* C11.order */
__CPROVER_ensures(G > 0 ==> !lt_(D(vector_[G]), D(vector_[P])))
/* C11.handle */
__CPROVER_ensures(F_position[H] < N && vector_[F_position[H]] == H)
/* frame: slots above pos or outside its subtree keep their element */
__CPROVER_ensures(!ANC(G, pos) ==> vector_[G] == E_G)
__CPROVER_ensures(N == __CPROVER_old(N))
/*@BODY percolateDown@*/

void harness(void)
{
    unsigned int pos; percolateDown(pos);
    if (vector_[pos] != T) REACH("element moved down"); else REACH("element stayed");
}
