/* unit: BinaryHeap::percolateUp -- unbounded (loop contract), every n <= 65535, every pos, ghost slot G, ghost element H */
#include "sift_common.h"
void percolateUp(const unsigned int pos)
PERCOLATE_UP_CONTRACT
/*@BODY percolateUp@*/

void harness(void)
{
    unsigned int pos; percolateUp(pos);
    if (vector_[pos] != T) REACH("element moved up"); else REACH("element stayed");
    if (vector_[0] == T && pos > 6) REACH("reached the root from depth >= 3");
}
