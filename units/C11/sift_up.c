/* unit: BinaryHeap::percolateUp -- unbounded (loop contract), every n <= 65535, every pos, ghost slot G, ghost element H */
#include "sift_common.h"
void percolateUp(const unsigned int pos)
__CPROVER_requires(N >= 1 && N <= 65535 && pos < N && G < N)
__CPROVER_requires(E_G == vector_[G] && T == vector_[pos])
__CPROVER_requires(G > 0 ==> E_P == vector_[P])
__CPROVER_requires((G > 0 && P > 0) ==> E_PP == vector_[PP])
/* pre-state heap order instances, excluding relations whose child is pos or whose parent is pos */
__CPROVER_requires((G > 0 && G != pos && P != pos) ==> !lt_(D(vector_[G]), D(vector_[P])))
__CPROVER_requires((G > 0 && P > 0 && P != pos) ==> !lt_(D(vector_[P]), D(vector_[PP])))
/* grand relation for children of pos */
__CPROVER_requires((G > 0 && P == pos && pos > 0) ==> !lt_(D(vector_[G]), D(vector_[PP])))
/* handles: of the ghost element H and of the element at pos */
__CPROVER_requires(F_position[H] < N && vector_[F_position[H]] == H)
__CPROVER_requires(F_position[vector_[pos]] == pos)
__CPROVER_assigns(vector_, F_position)
/* C11.order: heap order at G afterwards, unless G is a child of pos and nothing moved (then slot G is untouched) */
__CPROVER_ensures((G > 0 && !(P == pos && vector_[pos] == T)) ==> !lt_(D(vector_[G]), D(vector_[P])))
__CPROVER_ensures((G > 0 && P == pos && vector_[pos] == T) ==> vector_[G] == E_G)
/* C11.handle: every element's handle still finds it */
__CPROVER_ensures(F_position[H] < N && vector_[F_position[H]] == H)
/* frame: slots that are not ancestors-or-self of pos keep their element; the multiset is permuted along the path only */
__CPROVER_ensures(!ANC(pos, G) ==> vector_[G] == E_G)
__CPROVER_ensures(N == __CPROVER_old(N))
/*@BODY percolateUp@*/

void harness(void)
{
    unsigned int pos; percolateUp(pos);
    if (vector_[pos] != T) REACH("element moved up"); else REACH("element stayed");
    if (vector_[0] == T && pos > 6) REACH("reached the root from depth >= 3");
}
