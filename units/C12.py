"""C12 -- weighted sampling follows the current weights after any edits (PDF.h)."""
import re
PROPERTY = "C12"
LEVEL = "model_checking"
PDF = "src/ompl/datastructures/PDF.h"


def _sample_tail(m):
    tail = re.sub(r"\br\b", "x_", m.group(2))
    return "W x_ = SCALE(r, %s); sample_x = x_;%s" % (m.group(1), tail)


PDF_RULES = [
    (r"for \(auto e = data_\.begin\(\); e != data_\.end\(\); \+\+e\)\s*delete \*e;", "for (size_t e_ = 0; e_ < data__size; ++e_) DELETE_Element(data_[e_]);", 0),
    (r"auto \*elem = new Element\(d, data_\.size\(\)\);", "ElemRef elem = NEW_Element(d, data_.size());", 0),
    (r"std::vector<double> r\(1, w\);\s*tree_\.push_back\(r\);", "TREE_PUSH_ROW(w);", 0),
    (r"std::vector<double> head\(1, ([^;]+)\);\s*tree_\.push_back\(head\);", r"TREE_PUSH_ROW(\1);", 0),
    (r"r \*= ([^;]+);(.*)$", _sample_tail, 0, re.S),
    (r"return data_\[node\]->data_;", "{ sample_node = node; return data_[node]->data_; }", 0),
    (r"tree_\.front\(\)", "tree_[0]", 0),
    (r"tree_\.back\(\)", "tree_[tree__size - 1]", 0),
    (r"tree_\[([^\]]+)\]\.back\(\)", r"tree_[\1][tree_rowsize[ROWIDX(\1)] - 1]", 0),
    (r"tree_\[([^\]]+)\]\.front\(\)", r"tree_[\1][0]", 0),
    (r"tree_\[([^\]]+)\]\.push_back\(([^;]+)\);", r"ROW_PUSH(\1, \2);", 0),
    (r"tree_\[([^\]]+)\]\.pop_back\(\);", r"ROW_POP(\1);", 0),
    (r"tree_\[([^\]]+)\]\.size\(\)", r"tree_rowsize[ROWIDX(\1)]", 0),
    (r"tree_\[([^\]\[]+)\]\[((?:[^\]\[]|\[[^\]]*\])+)\]", r"tree_[ROWIDX(\1)][COLIDX(\1, \2)]", 0),
    (r"tree_\.size\(\)", "tree__size", 0),
    (r"tree_\.pop_back\(\);", "TREE_POP_ROW();", 0),
    (r"tree_\.clear\(\);", "tree__size = 0;", 0),
    (r"delete data_\.front\(\);", "DELETE_Element(data_.front());", 0),
    (r"delete data_\[([^\]]+)\];", r"DELETE_Element(data_[\1]);", 0),
    (r"data_\.size\(\)", "data__size", 0),
    (r"data_\.empty\(\)", "(data__size == 0)", 0),
    (r"data_\.push_back\((\w+)\);", r"DATA_PUSH(\1);", 0),
    (r"data_\.pop_back\(\);", "DATA_POP();", 0),
    (r"data_\.front\(\)", "data_[0]", 0),
    (r"data_\.back\(\)", "data_[data__size - 1]", 0),
    (r"data_\.clear\(\);", "data__size = 0;", 0),
    (r"\bdata_\[([^\]]+)\]", r"data_[DIDX(\1)]", 0),
    (r"(\w+(?:\[[^\]]+\])?)->index_\b", r"F_index[\1]", 0),
    (r"(\w+(?:\[[^\]]+\])?)->data_\b", r"F_data[\1]", 0),
    (r"std::swap\(([^;]+?), ((?:[^;(),]|\([^()]*\))+(?:\[[^;]*\])?)\);", r"SWAP(\1, \2);", 0),
    (r"std::size_t", "size_t", 0),
    (r"\bconst double\b", "const W", 0),
    (r"\bdouble\b", "W", 0),
]


def S(name, sig, throw_ret, extra=()):
    rules = [(r'throw Exception\("[^"]*"\);', "{ EXC(); return%s; }" % throw_ret, 0)] + list(extra) + PDF_RULES
    return dict(name=name, file=PDF, sig=sig, rules=rules, loops={"allow_uncontracted": True})


SOURCES = [
    S("add", r"Element \*add\s*\(const _T &d, const double w\)", " NULLREF"),
    S("sample", r"_T &sample\s*\(double r\)\s*const", " 0"),
    S("update", r"void\s+update\s*\(Element \*elem, const double w\)", ""),
    S("getWeight", r"double\s+getWeight\s*\(const Element \*elem\)\s*const", " 0"),
    S("remove", r"void\s+remove\s*\(Element \*elem\)", ""),
    S("clear", r"void\s+clear\s*\(\s*\)", ""),
    S("size", r"std::size_t\s+size\s*\(\s*\)\s*const", " 0"),
    S("empty", r"bool\s+empty\s*\(\s*\)\s*const", " 0"),
    S("at", r"const _T &operator\[\]\s*\(unsigned int i\)\s*const", " 0"),
]
FUNCS = ["ompl::PDF::" + f for f in ("add", "sample", "update", "getWeight", "remove", "clear", "size", "empty", "operator[]")]

UNITS = []


def unit(op, n, canaries=(), in_tiers=("quick", "thorough")):
    uw = {"pdf_add.0": 8, "pdf_add.1": 8, "pdf_sample.0": 8, "pdf_update.0": 8, "pdf_remove.0": 8, "pdf_remove.1": 8, "pdf_remove.2": 8,
          "pdf_clear.0": n + 3}
    return dict(
        name="c12_%s_n%02d" % (op, n), template="C12/pdf_bounded.c", mode="plain", entry="h_" + op,
        functions=FUNCS, sources=SOURCES, defines={"N": max(n, 2), "NN": n}, unwind=max(n, 2) + 6, unwindset=uw,
        level="bounded", bound="exactly %d elements, all weights (exact integers <= 2^20), all arguments" % n,
        backend="cadical", timeout=900, canaries=list(canaries), in_tiers=in_tiers,
        flags=["--bounds-check", "--pointer-check", "--signed-overflow-check", "--no-malloc-may-fail"],
    )


CAN = {
    "remove": [dict(name="sibling_parity_dropped", where="body:remove", rx=r" && index % 2 == 0", repl="")],
    "sample": [dict(name="tie_goes_right", where="body:sample", rx=r"x_ > tree_", repl="x_ >= tree_")],
    "add": [dict(name="add_skips_ancestors", where="body:add", rx=r"\+= w;", repl="+= 0;")],
    "update": [dict(name="update_skips_root", where="body:update", rx=r"row < tree__size;", repl="row + 1 < tree__size;")],
}
QUICK_SIZES = list(range(1, 17))
THOROUGH_SIZES = list(range(17, 33))
for op in ("remove", "add", "update", "sample"):
    for n in QUICK_SIZES + THOROUGH_SIZES:
        if op == "add" and n in (16, 32):
            continue
        if op == "sample" and n > 24:      # measured: sample at n = 28 takes 890 s, beyond that the 900 s budget is exceeded (undecided, never a violation)
            continue
        cans = CAN[op] if n in (7, 13) else []
        UNITS.append(unit(op, n, cans, in_tiers=("quick", "thorough") if n in QUICK_SIZES else ("thorough",)))
UNITS.append(unit("add", 0))
UNITS.append(unit("sample", 0))
UNITS.append(unit("clear", 9))

# ---------------------------------------------------------------- unbounded proof of PDF::update (loop contract over the ancestor chain, ghost node, cvc5, one obligation per process)
UPD_LOOP = """
__CPROVER_assigns(row, index, __CPROVER_object_whole(tree_))
__CPROVER_loop_invariant(1 <= row && row <= tree__size && index == (IDX0 >> row) && tree__size == __CPROVER_loop_entry(tree__size))
__CPROVER_loop_invariant(tree_[R][J] == ((R < row && ONCHAIN(R, J)) ? E_P + WC : E_P))
__CPROVER_loop_invariant(R == 1 ? tree_[0][2 * J] == (IDX0 == 2 * J ? E_OLD + WC : E_C1) : tree_[R - 1][2 * J] == ((R - 1 < row && ONCHAIN(R - 1, 2 * J)) ? E_C1 + WC : E_C1))
__CPROVER_loop_invariant(!HAS2(R, J) || (R == 1 ? tree_[0][2 * J + 1] == (IDX0 == 2 * J + 1 ? E_OLD + WC : E_C2) : tree_[R - 1][2 * J + 1] == ((R - 1 < row && ONCHAIN(R - 1, 2 * J + 1)) ? E_C2 + WC : E_C2)))
__CPROVER_loop_invariant(tree_[0][GL] == (GL == IDX0 ? E_OLD + WC : E_GL))
__CPROVER_decreases(tree__size - row)
"""
UNITS.append(dict(name="c12_update_unbounded", template="C12/pdf_update_unb.c", functions=["ompl::PDF::update"],
                  sources=[dict(name="update", file=PDF, sig=r"void\s+update\s*\(Element \*elem, const double w\)", rules=[(r'throw Exception\("[^"]*"\);', "{ EXC(); return; }", 0)] + PDF_RULES, loops={1: UPD_LOOP})],
                  enforce=["pdf_update"], replace=[], backend="cvc5", split="per-property", split_groups=[r"\.bounds\.|\.pointer|\.overflow\.|\.conversion", r"\.assigns\.|loop_assigns"],
                  flags=["--bounds-check", "--pointer-check", "--no-malloc-may-fail", "--object-bits", "12"], timeout=600, level="proof", bound="n <= 65535 elements (17 rows), unbounded in the loop",
                  canaries=[dict(name="update_skips_root", where="body:update", rx=r"row < tree__size;", repl="row + 1 < tree__size;", props=[r"postcondition\.1$", r"loop_invariant"], timeout=300)]))

# (an unbounded proof of PDF::sample along the same lines was attempted -- design-probes/pdf_sample_unbounded/ -- 250 of 255 obligations discharged, the
# invariant step and the postcondition did not finish in 10 minutes on cvc5 or z3-new; not registered, sample() stays bounded)

# ---------------------------------------------------------------- a PDF owner: AtlasStateSpace::clear keeps chartPDF_ in step with the charts
UNITS.append(dict(name="c12_user_atlas_clear", template="C12/atlas_clear.c", mode="plain", entry="h_atlas_clear", flags=["--bounds-check", "--pointer-check", "--unsigned-overflow-check"], unwind=5, level="bounded", bound="<= 3 anchor charts",
                  backend="minisat", timeout=300, functions=["ompl::base::AtlasStateSpace::clear"],
                  sources=[dict(name="clear", file="src/ompl/base/spaces/constraint/src/AtlasStateSpace.cpp", sig=r"void ompl::base::AtlasStateSpace::clear\(\)", loops={"allow_uncontracted": True},
                                rules=[(r"for \(auto chart : charts_\)\s*delete chart;", "DELETE_ALL_CHARTS();", 0), (r"charts_\.clear\(\);", "charts_n = 0;", 0),
                                       (r"std::vector<NNElement> nnList;\s*chartNN_\.list\(nnList\);\s*for \(auto &chart : nnList\)\s*\{.*?\}", "FREE_NN_STATES();", 0, __import__("re").S),
                                       (r"chartNN_\.clear\(\);", "nn_n = 0;", 0), (r"chartPDF_\.clear\(\);", "pdf_n = 0; pdf_dangling = 0;", 0),
                                       (r"for \(auto anchor : anchors_\)\s*newChart\(anchor\);", "for (unsigned a_ = 0; a_ < anchors_n; ++a_) NEW_CHART();", 0), (r"ConstrainedStateSpace::clear\(\);", "", 0)])],
                  canaries=[dict(name="neighbours_kept", where="body:clear", rx=r"nn_n = 0;", repl="")]))

ATLF = "src/ompl/base/spaces/constraint/src/AtlasStateSpace.cpp"
NC_RULES = [
    (r"AtlasChart \*chart;", "ChartRef chart;", 0), (r"StateType \*cstate = nullptr;", "int cstate = 0;", 0),
    (r"try\s*\{\s*cstate = cloneState\(state\)->as<StateType>\(\);\s*chart = new AtlasChart\(this, cstate\);\s*\}\s*catch \(ompl::Exception &e\)\s*\{.*?if \(cstate != nullptr\)\s*freeState\(cstate\);\s*return nullptr;\s*\}",
     "cstate = CLONE_STATE(); chart = NEW_CHART(cstate); if (chart == NULLREF) { if (cstate != 0) FREE_STATE(cstate); return NULLREF; }", 0, __import__("re").S),
    (r"std::vector<NNElement> nearbyCharts;\s*chartNN_\.nearestR\(std::make_pair\(cstate, 0\), 2 \* rho_s_, nearbyCharts\);", "unsigned nearby[NCH]; unsigned nearby_n = NN_nearestR(nearby);", 0),
    (r"for \(auto &&near : nearbyCharts\)\s*\{", "for (unsigned k_ = 0; k_ < nearby_n; ++k_) { unsigned near_second = nearby[k_];", 0), (r"near\.second", "near_second", 0),
    (r"AtlasChart \*other = charts_\[", "ChartRef other = charts_[", 0), (r"AtlasChart::generateHalfspace\(", "GEN_HALFSPACE(", 0),
    (r"chartPDF_\.update\(chartPDF_\.getElements\(\)\[([^\]]+)\], ", r"PDF_UPDATE(\1, ", 0), (r"biasFunction_\(", "BIAS(", 0),
    (r"chartNN_\.add\(std::make_pair\(cstate, charts_\.size\(\)\)\);", "NN_ADD(cstate, charts__size);", 0), (r"charts_\.push_back\(chart\);", "charts_[charts__size++] = chart;", 0),
    (r"chartPDF_\.add\(chart, ", "PDF_ADD(chart, ", 0),
]
UNITS.append(dict(name="c12_user_atlas_newChart", template="C12/atlas_newchart.c", mode="plain", entry="h_atlas_newChart", flags=["--bounds-check", "--pointer-check", "--unsigned-overflow-check"], unwind=8, level="bounded", bound="<= 3 existing charts",
                  backend="minisat", timeout=300, functions=["ompl::base::AtlasStateSpace::newChart"],
                  sources=[dict(name="newChart", file=ATLF, sig=r"ompl::base::AtlasChart \*ompl::base::AtlasStateSpace::newChart\(const StateType \*state\) const", rules=NC_RULES, loops={"allow_uncontracted": True})],
                  canaries=[dict(name="neighbour_gets_the_new_charts_bias", where="body:newChart", rx=r"BIAS\(other\)", repl="BIAS(chart)")]))

# ---------------------------------------------------------------- EST: an owner of a PDF (anchor src/ompl/geometric/planners/est/src/EST.cpp)
ESTF = "src/ompl/geometric/planners/est/src/EST.cpp"
EST_RULES = [
    (r"for \(auto neighbor : neighbors\)\s*\{", "for (unsigned k_ = 0; k_ < NB_n; ++k_) { MotionRef neighbor = NB[k_];", 0),
    (r"PDF<Motion \*>::Element \*elem = neighbor->element;", "ElemRef elem = M_element[neighbor];", 0), (r"double w = pdf_\.getWeight\(elem\);", "unsigned w = PDF_getWeight(elem);", 0),
    (r"pdf_\.update\(elem, w / \(w \+ 1\.\)\);", "PDF_update(elem, WNEXT(w));", 0),
    (r"motion->element = pdf_\.add\(motion, 1\. / \(neighbors\.size\(\) \+ 1\.\)\);", "M_element[motion] = PDF_add(motion, NB_n);", 0),
    (r"motions_\.push_back\(motion\);", "motions_n++; last_pushed = motion;", 0), (r"nn_->add\(motion\);", "nn_n++; last_nn = motion;", 0),
    # solve() regions
    (r"while \(const base::State \*st = pis_\.nextStart\(\)\)", "while ((st = NEXT_START()) != 0)", 0),
    (r"auto \*motion = new Motion\(si_\);", "MotionRef motion = NEW_MOTION();", 0), (r"si_->copyState\(motion->state, st\);", "M_content[motion] = st;", 0), (r"si_->copyState\(motion->state, xstate\);", "M_content[motion] = xstate_content;", 0),
    (r"nn_->nearestR\((\w+), (\w+), neighbors\);", r"NEARESTR(M_content[\1], \2);", 0), (r"addMotion\(motion, neighbors\);", "ADD_MOTION(motion);", 0),
    (r"Motion \*existing = pdf_\.sample\(rng_\.uniform01\(\)\);", "MotionRef existing = PDF_SAMPLE();", 0), (r"assert\(existing\);", "", 0),
    (r"rng_\.uniform01\(\) < goalBias_ && goal_s->canSample\(\)", "nondet_bool()", 0), (r"goal_s->sampleGoal\(xstate\);", "xstate_content = nondet_int();", 0),
    (r"xmotion->state = xstate;", "M_content[xmotion] = xstate_content;", 0), (r"!sampler_->sampleNear\(xstate, existing->state, maxDistance_\)", "!SAMPLE_NEAR()", 0),
    (r"!neighbors\.empty\(\)\s*", "neighbors_n != 0", 0), (r"double p = 1\.0 - \(1\.0 / neighbors\.size\(\)\);", "", 0), (r"rng_\.uniform01\(\) < p", "nondet_bool()", 0),
    (r"si_->checkMotion\(existing->state, xstate\)", "CHECK_MOTION(existing)", 0), (r"motion->parent = existing;", "M_parent[motion] = existing;", 0),
]
EST_SRC = [
    dict(name="addMotion", file=ESTF, sig=r"void ompl::geometric::EST::addMotion\(Motion \*motion, const std::vector<Motion \*> &neighbors\)", rules=EST_RULES, loops={"allow_uncontracted": True}),
    dict(name="solve_starts", file=ESTF, begin=r"while \(const base::State \*st = pis_\.nextStart\(\)\)", end=r"if \(motions_\.empty\(\)\)", rules=EST_RULES, loops={"allow_uncontracted": True}),
    dict(name="solve_expand", file=ESTF, begin=r"Motion \*existing = pdf_\.sample\(rng_\.uniform01\(\)\);", end=r"double dist = 0\.0;", rules=EST_RULES + [(r"\Z", "}", 0)], loops={"allow_uncontracted": True}),
]
for _h, _fn, _needs, _can in (("est_addMotion", "ompl::geometric::EST::addMotion", ["addMotion"], [dict(name="handle_of_new_motion_not_stored", where="body:addMotion", rx=r"M_element\[motion\] = PDF_add", repl="PDF_add")]),
                              ("est_solve_starts", "ompl::geometric::EST::solve (start states)", ["solve_starts"], [dict(name="start_states_without_neighbourhood", where="body:solve_starts", rx=r"NEARESTR\(M_content\[motion\], nbrhoodRadius_\);", repl="")]),
                              ("est_solve_expand", "ompl::geometric::EST::solve (expansion step)", ["solve_expand"], [dict(name="neighbourhood_of_the_parent", where="body:solve_expand", rx=r"M_content\[xmotion\] = xstate_content;", repl="M_content[xmotion] = M_content[existing];")])):
    UNITS.append(dict(name="c12_user_" + _h, template="C12/est_pdf.c", mode="plain", entry="h_" + _h, sources=EST_SRC, needs=_needs, flags=["--bounds-check", "--pointer-check", "--unsigned-overflow-check"], unwind=6, level="bounded",
                      bound="<= 3 neighbours / <= 3 start states / one expansion step", backend="minisat", timeout=300, functions=[_fn], canaries=_can))

# ---------------------------------------------------------------- KPIECE's Discretization (anchor of this property): cell selection follows the CURRENT cell weights --
# every change of a cell's score / coverage / selection count is re-sorted into the queues before the next selection (units of C13)
import copy as _copy, importlib.util as _ilu, os as _os
_s13 = _ilu.spec_from_file_location("c13", _os.path.join(_os.path.dirname(__file__), "C13.py")); _C13 = _ilu.module_from_spec(_s13); _s13.loader.exec_module(_C13)
for _u in _C13.KP_UNITS:
    if "disc_" in _u["name"]:
        _v = _copy.deepcopy(_u); _v["name"] = _v["name"].replace("c13_", "c12_"); UNITS.append(_v)
ASSUMPTIONS = [
    "weights are exact integers (machine arithmetic treated as mathematical): floating-point rounding drift of the running sums after long edit histories is NOT decided",
    "r*total is modelled as ANY exact value in [0,total] (0 for r==0, total for r==1, strictly inside for 0<r<1, total>0); with all weights even, odd values stand for non-integer reals",
    "one concrete element count per solver process (quick: 0..16, thorough: 0..32, sample(): 0..24); contents, weights, arguments fully symbolic",
    "exceptions: 'throw' is modelled as setting a flag and returning; operator new does not throw",
]
TRUSTED = [
    "extraction rewrite table of units/C12.py (vector<vector<double>> => fixed 2-D array + row sizes; Burstall field maps)",
    "harness code in units/C12/pdf_bounded.c (pre-state builder from the view, invariant checker, SCALE model)",
    "CBMC 6.11 + cadical",
]
NOT_COVERED = ["floating-point drift of the sums", "PDF(vector,vector) constructor and printTree",
               "PDF::add / remove / sample are bounded (<= 16 elements quick, <= 32 thorough); only PDF::update has an unbounded proof (an unbounded proof of sample() was attempted: design-probes/pdf_sample_unbounded)",
               "PDF owners other than EST (addMotion + the two solve() call sites), AtlasStateSpace (clear, newChart) and KPIECE's Discretization: control EST, Syclop's availDist_, ProjEST, LBKPIECE"]

NATIVE = [
    dict(name="c12_native_random_sequences", driver="native/c12_native.cpp",
         args=lambda tier, seed: ["search", seed, 5000 if tier == "quick" else 300000], timeout=900),
]


def replay(ur, scratch, seed):
    """Search the real ompl::PDF<int> for a failing edit sequence (white-box sum-tree invariant + sampling oracle)."""
    from vf import native as N, cbmc as C
    exe = N.build_driver("native/c12_native.cpp", scratch)
    r = C.run_cmd([exe, "search", str(seed), "100000"], 600, env=N.run_env())
    return dict(found=(r["rc"] == 1), driver="native/c12_native.cpp", args=["search", seed, 100000], output=r["out"][-2500:])
