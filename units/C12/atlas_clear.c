/* C12 (user side): AtlasStateSpace keeps a PDF of charts (chartPDF_) next to the chart list and the chart nearest-neighbour structure.
 * "sample never returns a removed element" needs the owner to drop PDF elements together with the charts they point to: after clear()
 * the three containers hold exactly the re-created anchor charts and no PDF element refers to a deleted chart.  Bounded: <= 3 anchors. */
#include <stdbool.h>
#include <stddef.h>
#define REACH(tag) __CPROVER_assert(0, "REACH " tag)
unsigned charts_n, nn_n, pdf_n, anchors_n, pdf_dangling, nn_states_freed;
static void DELETE_ALL_CHARTS(void) { pdf_dangling = pdf_n; }      /* every PDF element now points to a deleted chart */
static void FREE_NN_STATES(void) { nn_states_freed = nn_n; }
static void NEW_CHART(void) { charts_n++; nn_n++; pdf_n++; }
void atlas_clear(void)
/*@BODY clear@*/
void h_atlas_clear(void)
{
    __CPROVER_assume(anchors_n <= 3 && charts_n <= 8 && nn_n == charts_n && pdf_n == charts_n); pdf_dangling = 0;
    unsigned before = charts_n;
    atlas_clear();
    __CPROVER_assert(pdf_dangling == 0, "C12.user no element of the chart PDF refers to a deleted chart");
    __CPROVER_assert(charts_n == anchors_n && nn_n == anchors_n && pdf_n == anchors_n, "C12.user chart list, chart neighbours and chart PDF hold exactly the re-created anchor charts");
    __CPROVER_assert(nn_states_freed == before, "states owned by the neighbour structure are freed");
    if (before > anchors_n) REACH("charts dropped");
}
