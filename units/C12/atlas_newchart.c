/* C12 -- AtlasStateSpace::newChart keeps chartPDF_ in step with the charts: element i of the PDF belongs to charts_[i] and its weight is
 * biasFunction_(charts_[i]) AS OF NOW (a chart whose polytope was cut by a new neighbour is re-weighted with ITS OWN bias after the cut).
 * Model: charts are references; biasFunction_ returns bias_of[chart], generateHalfspace(other, chart) changes bias_of[other] arbitrarily;
 * chartPDF_ is the parallel array pdf_w[] (the structure itself is verified by the PDF units of this check); the AtlasChart constructor may throw.
 * Bounded: <= 3 existing charts. */
#include <stdbool.h>
#include <stddef.h>
#define NCH 5
#define NULLREF 0u
#define REACH(msg) __CPROVER_assert(0, "REACH " msg)
typedef unsigned ChartRef;
int nondet_int(void); unsigned nondet_unsigned(void); bool nondet_bool(void); double nondet_double(void);
ChartRef charts_[NCH]; unsigned charts__size; double pdf_w[NCH]; ChartRef pdf_chart[NCH]; unsigned pdf_n;
double bias_of[NCH + 2]; bool separate_; double rho_s_;
unsigned nn_n; unsigned nn_index_last; int nn_state_last; unsigned states_live; ChartRef chart_next;
static int CLONE_STATE(void) { states_live++; return 1 + (int)states_live; }
static void FREE_STATE(int s) { __CPROVER_assert(states_live > 0, "free of a cloned state"); states_live--; }
static ChartRef NEW_CHART(int cstate) { if (nondet_bool()) return NULLREF; /* degenerate manifold: constructor throws */ return chart_next; }
static unsigned NN_nearestR(unsigned *out) { unsigned n = 0; for (unsigned i = 0; i < NCH; i++) if (i < charts__size && nondet_bool()) out[n++] = i; return n; }
static void GEN_HALFSPACE(ChartRef other, ChartRef chart) { __CPROVER_assert(other != NULLREF && other <= NCH && chart == chart_next, "halfspace between an existing chart and the new one"); double b = nondet_double(); __CPROVER_assume(b >= 0.0 && b <= 1e6); bias_of[other] = b; }
static double BIAS(ChartRef c) { __CPROVER_assert(c != NULLREF && c <= NCH + 1, "bias of a live chart"); return bias_of[c]; }
static void PDF_UPDATE(unsigned idx, double w) { __CPROVER_assert(idx < pdf_n, "C12.index update of an existing PDF element"); pdf_w[idx] = w; }
static void PDF_ADD(ChartRef c, double w) { __CPROVER_assert(pdf_n < NCH, "model capacity"); pdf_chart[pdf_n] = c; pdf_w[pdf_n] = w; pdf_n++; }
static void NN_ADD(int cstate, unsigned idx) { nn_n++; nn_index_last = idx; nn_state_last = cstate; }
ChartRef atlas_newChart(void)
/*@BODY newChart@*/
void h_atlas_newChart(void)
{
    __CPROVER_assume(charts__size <= 3 && pdf_n == charts__size && nn_n == charts__size); states_live = 0; chart_next = NCH + 1;
    for (unsigned i = 0; i < NCH + 2; i++) __CPROVER_assume(bias_of[i] >= 0.0 && bias_of[i] <= 1e6);
    for (unsigned i = 0; i < 3; i++) if (i < charts__size) { charts_[i] = i + 1; pdf_chart[i] = i + 1; pdf_w[i] = bias_of[i + 1]; }     /* pre-state: PDF in step with the charts */
    unsigned n0 = charts__size;
    ChartRef c = atlas_newChart();
    if (c == NULLREF) { __CPROVER_assert(charts__size == n0 && pdf_n == n0 && nn_n == n0 && states_live == 0, "a failed chart construction leaves the atlas as it was and frees the cloned state"); REACH("degenerate"); return; }
    __CPROVER_assert(charts__size == n0 + 1 && pdf_n == n0 + 1 && nn_n == n0 + 1 && charts_[n0] == c && pdf_chart[n0] == c && nn_index_last == n0, "C12.parallel charts_, chartPDF_ and chartNN_ grow together: the new chart has the same index in all three");
    for (unsigned i = 0; i < NCH; i++) if (i < charts__size)
        __CPROVER_assert(pdf_chart[i] == charts_[i] && pdf_w[i] == bias_of[charts_[i]], "C12.weights every chart's sampling weight is its own current bias");
    if (n0 == 3 && separate_) REACH("three existing charts");
}
