/* C12 -- EST (geometric/planners/est/src/EST.cpp), an owner of a PDF: the sampling weight of every motion is 1 / (1 + number of tree motions within
 * nbrhoodRadius_ of it).  Weights are kept as the neighbour COUNT n (weight = 1/(1+n); w/(w+1) maps count n to n+1 -- exact, no rounding).
 *  - addMotion: every listed neighbour's count goes up by exactly one (through ITS OWN element handle), the new motion enters with count = number of
 *    neighbours listed, its handle is stored in the motion, and the motion is added to motions_ and to the neighbour structure;
 *  - solve(): addMotion is always given the neighbourhood of the motion's own state at radius nbrhoodRadius_, computed after that state was fixed
 *    (start states and expansions alike).
 * Bounded: <= 3 neighbours, <= 3 start states. */
#include <stdbool.h>
#include <stddef.h>
#define NM 8
#define NULLREF 0u
#define REACH(msg) __CPROVER_assert(0, "REACH " msg)
typedef unsigned MotionRef; typedef unsigned ElemRef;
int nondet_int(void); unsigned nondet_unsigned(void); bool nondet_bool(void); double nondet_double(void);
/* PDF abstract view: element e holds (motion, count) */
unsigned E_count[NM]; MotionRef E_motion[NM]; bool E_alive[NM]; unsigned E_next;
MotionRef M_element[NM]; int M_content[NM]; MotionRef M_parent[NM]; unsigned M_next;
unsigned motions_n, nn_n; MotionRef last_pushed, last_nn;
MotionRef NB[3]; unsigned NB_n;
#define PDF_getWeight(e) E_count[e]
#define WNEXT(w) ((w) + 1u)
static void PDF_update(ElemRef e, unsigned w) { __CPROVER_assert(e != NULLREF && e < NM && E_alive[e], "update through a live element handle"); E_count[e] = w; }
static ElemRef PDF_add(MotionRef m, unsigned w) { __CPROVER_assert(E_next < NM, "model capacity"); ElemRef e = E_next++; E_alive[e] = true; E_motion[e] = m; E_count[e] = w; return e; }
void est_addMotion(MotionRef motion)
/*@BODY addMotion@*/
void h_est_addMotion(void)
{
    __CPROVER_assume(NB_n <= 3 && E_next >= 4 && E_next < NM - 1); E_alive[0] = false;
    for (unsigned k = 0; k < 3; k++) if (k < NB_n) { __CPROVER_assume(NB[k] >= 1 && NB[k] <= 3); for (unsigned j = 0; j < k; j++) __CPROVER_assume(NB[j] != NB[k]); }
    for (MotionRef m = 1; m <= 3; m++) { M_element[m] = m; E_alive[m] = true; E_motion[m] = m; __CPROVER_assume(E_count[m] < 1000); }
    unsigned c0[4]; for (MotionRef m = 1; m <= 3; m++) c0[m] = E_count[m];
    MotionRef nw = 5; M_element[nw] = NULLREF; motions_n = 3; nn_n = 3;
    est_addMotion(nw);
    for (MotionRef m = 1; m <= 3; m++) { bool listed = false; for (unsigned k = 0; k < 3; k++) if (k < NB_n && NB[k] == m) listed = true;
        __CPROVER_assert(E_count[m] == c0[m] + (listed ? 1u : 0u), "C12.weights each neighbour's count grows by one, every other weight is unchanged"); }
    ElemRef e = M_element[nw];
    __CPROVER_assert(e != NULLREF && e < NM && E_alive[e] && E_motion[e] == nw && E_count[e] == NB_n, "C12.weights the new motion enters with weight 1/(1+#neighbours) and keeps its own element handle");
    __CPROVER_assert(motions_n == 4 && last_pushed == nw && nn_n == 4 && last_nn == nw, "the motion is recorded in motions_ and in the neighbour structure");
    if (NB_n == 3) REACH("three neighbours"); if (NB_n == 0) REACH("no neighbour");
}

/* ---- the two call sites in solve() ---- */
int neighbors_for; double neighbors_radius; bool neighbors_valid; unsigned neighbors_n; double nbrhoodRadius_;
int xstate_content; MotionRef xmotion; unsigned adds; MotionRef added; int starts_left;
static void NEARESTR(int content, double radius) { neighbors_for = content; neighbors_radius = radius; neighbors_valid = true; neighbors_n = nondet_unsigned(); }
static MotionRef NEW_MOTION(void) { __CPROVER_assert(M_next < NM, "model capacity"); MotionRef m = M_next++; M_content[m] = nondet_int(); M_parent[m] = NULLREF; return m; }
static void ADD_MOTION(MotionRef m)
{
    __CPROVER_assert(neighbors_valid && neighbors_for == M_content[m] && neighbors_radius == nbrhoodRadius_, "C12.weights addMotion is given the current neighbourhood of the motion's own state (radius nbrhoodRadius_)");
    adds++; added = m; neighbors_valid = false;    /* the tree changed: the list no longer describes a neighbourhood */
}
static int NEXT_START(void) { if (starts_left <= 0) return 0; starts_left--; int c = nondet_int(); __CPROVER_assume(c != 0); return c; }
static MotionRef PDF_SAMPLE(void) { MotionRef m = nondet_unsigned(); __CPROVER_assume(m >= 1 && m < M_next); return m; }
static bool SAMPLE_NEAR(void) { xstate_content = nondet_int(); return nondet_bool(); }
MotionRef checked_from; int checked_to; bool checked;
static bool CHECK_MOTION(MotionRef from) { checked = true; checked_from = from; checked_to = xstate_content; return nondet_bool(); }
void est_solve_starts(void)
{
    int st;
/*@BODY solve_starts@*/
}
void est_solve_expand(void)
{
    for (int once_ = 0; once_ < 1; ++once_)
/*@BODY solve_expand@*/
}
void h_est_solve_starts(void)
{
    __CPROVER_assume(starts_left >= 0 && starts_left <= 3 && M_next >= 1 && M_next <= 2 && nbrhoodRadius_ == nbrhoodRadius_); unsigned s0 = (unsigned)starts_left; adds = 0; neighbors_valid = nondet_bool();
    est_solve_starts();
    __CPROVER_assert(adds == s0, "every start state is added once");
    if (s0 == 3) REACH("three start states");
}
void h_est_solve_expand(void)
{
    __CPROVER_assume(M_next >= 3 && M_next <= 4 && nbrhoodRadius_ == nbrhoodRadius_); xmotion = 1; adds = 0; checked = false; neighbors_valid = nondet_bool();
    est_solve_expand();
    if (adds) { __CPROVER_assert(adds == 1 && checked && M_content[added] == checked_to && M_parent[added] == checked_from, "the motion added is the one whose connection to its parent was validated"); REACH("expanded"); } else REACH("rejected");
}
