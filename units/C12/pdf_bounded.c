/* C12: every method of PDF.h, bodies extracted from /repo.  Weights are modelled as exact integers
 * (typedef W) -- "machine arithmetic treated as mathematical", stated in evidence: the selection rule
 * and the sum-tree invariant are the property; floating-point rounding drift is not decided.
 * tree_ (vector<vector<double>>) becomes W tree_[ROWS][NCOL] + per-row sizes; every tree_[r][c] access
 * is checked against the CURRENT row count and the CURRENT size of that row (C12.storage). */
#include <stddef.h>
#include <stdbool.h>
#ifndef N
#define N 16
#endif
#ifndef NN
#define NN N
#endif
#define ROWS 7
#define NCOL (N + 2)
typedef int W;
typedef unsigned ElemRef;
typedef int KeyT;
#define NULLREF 0u
#define NREF (N + 4)
size_t F_index[NREF]; KeyT F_data[NREF]; bool alive[NREF]; ElemRef next_ref;
ElemRef data_[N + 2]; size_t data__size;
W tree_[ROWS][NCOL]; size_t tree_rowsize[ROWS]; size_t tree__size;
bool EXC_;
#define EXC() do { EXC_ = 1; } while (0)
#define ROWIDX(r) (__CPROVER_assert((size_t)(r) < tree__size, "C12.storage row index within tree_"), (r))
#define COLIDX(r, c) (__CPROVER_assert((size_t)(c) < tree_rowsize[r], "C12.storage column index within the row"), (c))
#define DIDX(i) (__CPROVER_assert((size_t)(i) < data__size, "C12.storage index within data_"), (i))
#define ROW_PUSH(r, v) do { size_t r_ = ROWIDX(r); __CPROVER_assert(tree_rowsize[r_] < NCOL, "capacity"); tree_[r_][tree_rowsize[r_]++] = (v); } while (0)
#define ROW_POP(r) do { size_t r_ = ROWIDX(r); __CPROVER_assert(tree_rowsize[r_] > 0, "C12.storage pop_back on empty row"); tree_rowsize[r_]--; } while (0)
#define TREE_PUSH_ROW(v) do { __CPROVER_assert(tree__size < ROWS, "capacity rows"); tree_rowsize[tree__size] = 1; tree_[tree__size][0] = (v); tree__size++; } while (0)
#define TREE_POP_ROW() do { __CPROVER_assert(tree__size > 0, "C12.storage pop_back on empty tree_"); tree__size--; } while (0)
#define DATA_PUSH(e) do { __CPROVER_assert(data__size < N + 2, "capacity"); data_[data__size++] = (e); } while (0)
#define DATA_POP() do { __CPROVER_assert(data__size > 0, "C12.storage pop_back on empty data_"); data__size--; } while (0)
#define SWAP(a, b) do { __typeof__(a) t_ = (a); (a) = (b); (b) = t_; } while (0)
static ElemRef NEW_Element(KeyT d, size_t i) { __CPROVER_assert(next_ref < NREF, "ref pool"); alive[next_ref] = 1; F_data[next_ref] = d; F_index[next_ref] = i; return next_ref++; }
#define DELETE_Element(r) do { ElemRef d_ = (r); __CPROVER_assert(d_ < NREF && alive[d_], "delete of a live element (no double free)"); alive[d_] = 0; } while (0)
/* r * total, exact model: the scaled value is ANY exact value in [0,total]; r==0 -> 0, r==1 -> total,
 * 0<r<1 and total>0 -> strictly inside.  With all weights even, odd values stand for non-integer reals. */
size_t sample_node; W sample_x;   /* ghosts: leaf returned by sample, and the scaled value it started from */
W nondet_W(void);
static W SCALE(double r, W total) { W x = nondet_W(); __CPROVER_assume(0 <= x && x <= total); __CPROVER_assume(r != 0.0 || x == 0); __CPROVER_assume(r != 1.0 || x == total); __CPROVER_assume(!(r > 0.0 && r < 1.0 && total > 0) || (x > 0 && x < total)); return x; }

ElemRef pdf_add(const KeyT d, const W w)
/*@BODY add@*/
KeyT pdf_sample(double r)
/*@BODY sample@*/
void pdf_update(ElemRef elem, const W w)
/*@BODY update@*/
W pdf_getWeight(const ElemRef elem)
/*@BODY getWeight@*/
void pdf_remove(ElemRef elem)
/*@BODY remove@*/
void pdf_clear(void)
/*@BODY clear@*/
size_t pdf_size(void)
/*@BODY size@*/
bool pdf_empty(void)
/*@BODY empty@*/
KeyT pdf_at(unsigned int i)
/*@BODY at@*/

/* ------------------------------------------------------------------ harness side (trusted) */
size_t nondet_size(void); double nondet_double(void); int nondet_int(void);
#define REACH(tag) __CPROVER_assert(0, "REACH " tag)
#define WMAX (1 << 20)
W w0[N + 2];
/* pre-state: the well-formed structure whose view is (element i+1, weight w0[i]) for i < n, rows recomputed from the view */
static void build_from_view(size_t n)
{
    data__size = n; tree__size = 0; next_ref = n + 1; EXC_ = 0;
    for (size_t r = 0; r < NREF; r++) alive[r] = 0;
    if (n == 0) return;
    for (size_t i = 0; i < N + 2; i++) if (i < n) { data_[i] = i + 1; F_index[i + 1] = i; alive[i + 1] = 1; F_data[i + 1] = nondet_int(); tree_[0][i] = w0[i]; }
    tree_rowsize[0] = n; tree__size = 1;
    for (size_t r = 0; r + 1 < ROWS; r++)
        if (tree_rowsize[r] > 1 && r + 1 == tree__size)
        {
            size_t m = (tree_rowsize[r] + 1) / 2;
            for (size_t j = 0; j < NCOL / 2 + 1; j++) if (j < m) tree_[r + 1][j] = tree_[r][2 * j] + ((2 * j + 1 < tree_rowsize[r]) ? tree_[r][2 * j + 1] : 0);
            tree_rowsize[r + 1] = m; tree__size = r + 2;
        }
}
static void check_inv(void)
{
    __CPROVER_assert(tree__size == 0 ? data__size == 0 : (tree_rowsize[0] == data__size && data__size > 0), "C12.inv leaf row has one weight per element");
    for (size_t r = 0; r + 1 < ROWS; r++) if (r + 1 < tree__size)
    {
        __CPROVER_assert(tree_rowsize[r + 1] == (tree_rowsize[r] + 1) / 2, "C12.inv row sizes halve");
        for (size_t j = 0; j < NCOL / 2 + 1; j++) if (j < tree_rowsize[r + 1])
            __CPROVER_assert(tree_[r + 1][j] == tree_[r][2 * j] + ((2 * j + 1 < tree_rowsize[r]) ? tree_[r][2 * j + 1] : 0), "C12.inv every inner node is the sum of its children");
    }
    if (tree__size > 0) __CPROVER_assert(tree_rowsize[tree__size - 1] == 1, "C12.inv single head row");
    for (size_t i = 0; i < N + 2; i++) if (i < data__size) __CPROVER_assert(data_[i] != NULLREF && data_[i] < NREF && F_index[data_[i]] == i && alive[data_[i]], "C12.handle every element's handle is its own index and is live");
    size_t live = 0; for (size_t r = 0; r < NREF; r++) if (alive[r]) live++;
    __CPROVER_assert(live == data__size, "C12.size size equals the number of live elements");
}
static void any_weights(bool even)
{
    for (size_t i = 0; i < N + 2; i++) { w0[i] = nondet_W(); __CPROVER_assume(w0[i] >= 0 && w0[i] <= WMAX); if (even) __CPROVER_assume((w0[i] & 1) == 0); }
}
void h_remove(void)
{
    size_t n = NN; any_weights(false); build_from_view(n);
    size_t k = nondet_size(); __CPROVER_assume(k < n);
    ElemRef last = data_[n - 1], victim = data_[k]; W wlast = w0[n - 1];
    pdf_remove(victim);
    __CPROVER_assert(!EXC_, "remove does not throw");
    check_inv();
    __CPROVER_assert(data__size == n - 1 && pdf_size() == n - 1 && !alive[victim], "C12.size remove shrinks size by one and frees the element");
    for (size_t i = 0; i < N + 2; i++) if (i < data__size)
    {
        if (i == k) __CPROVER_assert(data_[i] == last && tree_[0][i] == wlast, "C12.view the last element (with its weight) takes the removed slot");
        else __CPROVER_assert(data_[i] == i + 1 && tree_[0][i] == w0[i], "C12.view every other element keeps slot and weight");
    }
#if NN > 2
    if (k + 2 == n) REACH("last-but-one removed (sibling shortcut iff even index)");
#endif
    if (k + 1 == n) REACH("remove last"); if (k == 0) REACH("remove first");
}
void h_add(void)
{
    size_t n = NN; any_weights(false); build_from_view(n);
    W w = nondet_W(); __CPROVER_assume(w <= WMAX); KeyT d = nondet_int();
    ElemRef e = pdf_add(d, w);
    if (w < 0) { __CPROVER_assert(EXC_ && data__size == n, "C12.throws negative weight is rejected and nothing changes"); check_inv(); REACH("negative weight"); return; }
    __CPROVER_assert(!EXC_, "add does not throw for a non-negative weight");
    check_inv();
    __CPROVER_assert(data__size == n + 1 && e > n && alive[e] && F_index[e] == n && data_[n] == e && F_data[e] == d, "C12.handle add appends a fresh element holding the datum");
    for (size_t i = 0; i < N + 2; i++) if (i < n) __CPROVER_assert(data_[i] == i + 1 && tree_[0][i] == w0[i], "C12.view add keeps every other element and weight");
    __CPROVER_assert(tree_[0][n] == w && pdf_getWeight(e) == w, "C12.view the new element has the given weight");
    REACH("added");
}
void h_update(void)
{
    size_t n = NN; any_weights(false); build_from_view(n);
    size_t k = nondet_size(); __CPROVER_assume(k < n); W w = nondet_W(); __CPROVER_assume(w >= 0 && w <= WMAX);
    pdf_update(data_[k], w);
    __CPROVER_assert(!EXC_, "update does not throw for a member");
    check_inv();
    __CPROVER_assert(data__size == n, "C12.size update keeps size");
    for (size_t i = 0; i < N + 2; i++) if (i < n) __CPROVER_assert(data_[i] == i + 1 && tree_[0][i] == (i == k ? w : w0[i]) && pdf_getWeight(data_[i]) == tree_[0][i], "C12.view update changes exactly that weight");
    if (k == n - 1) REACH("update last"); if (k == 0) REACH("update first");
}
void h_sample(void)
{
    size_t n = NN; any_weights(true); build_from_view(n);
    double r = nondet_double();
    if (n > 0 && !(r < 0 || r > 1)) __CPROVER_assume(r == r);
    W total = n ? tree_[tree__size - 1][0] : 0;
    KeyT got = pdf_sample(r);
    if (n == 0 || r < 0 || r > 1 || r != r) { __CPROVER_assert(EXC_ || r != r, "C12.throws sample rejects an empty structure and r outside [0,1]"); REACH("rejected"); return; }
    __CPROVER_assert(!EXC_, "sample does not throw for r in [0,1]");
    /* which leaf was returned: the harness reads the ghost set by the at-return rule */
    size_t i = sample_node; W x = sample_x;
    __CPROVER_assert(i < n && got == F_data[data_[i]], "C12.select sample returns a current member");
    W pre = 0; for (size_t j = 0; j < N + 2; j++) if (j < i) pre += w0[j];
    __CPROVER_assert(x == 0 ? i == 0 : (pre < x && x <= pre + w0[i]), "C12.select the returned element's cumulative-weight interval contains r*total");
    if (r > 0.0 && r < 1.0 && total > 0) __CPROVER_assert(w0[i] > 0, "C12.zero an element of zero weight is never drawn for 0<r<1");
    check_inv();
    #if NN > 1
    if (i == n - 1) REACH("last element drawn");
#endif
#if NN > 0
    if (i == 0 && x > 0) REACH("first element drawn");
    if (r == 1.0) REACH("r == 1"); if (r == 0.0) REACH("r == 0");
#endif
}
void h_clear(void)
{
    size_t n = NN; any_weights(false); build_from_view(n);
    if (n > 0) { KeyT a = pdf_at((unsigned)(n - 1)); __CPROVER_assert(a == F_data[data_[n - 1]], "operator[] returns the datum in element order"); }
    pdf_clear();
    check_inv();
    __CPROVER_assert(data__size == 0 && tree__size == 0 && pdf_empty() && pdf_size() == 0, "C12.size clear removes everything");
    REACH("cleared");
}
