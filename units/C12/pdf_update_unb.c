/* C12 -- PDF::update, UNBOUNDED (loop contract, ghost node, cvc5): for every PDF of up to 65 535 elements (16 rows), every element and every new weight,
 * the sum-tree invariant at an ARBITRARY ghost node (R, J) is preserved -- tree_[R][J] is the sum of its children before and after -- every leaf other
 * than the edited one keeps its weight, the edited leaf holds the new weight, and every access stays inside its row.
 * The loop touches exactly one cell per row, on the static ancestor chain index0 >> row of the edited leaf: node (r, j) changes iff j == index0 >> r
 * (a quantifier-free fact), which is what makes the invariant expressible without quantifiers.
 * Weights are exact integers modulo 2^64 (machine arithmetic treated as mathematical: sums of at most 65 535 weights below 2^32 do not wrap). */
#include <stddef.h>
#include <stdbool.h>
#define ROWS 17
#define NCOL 65536
typedef unsigned long long W;
typedef unsigned short ElemRef;
size_t F_index[65536];
size_t data__size;
W tree_[ROWS][NCOL]; size_t tree_rowsize[ROWS]; size_t tree__size;
bool EXC_;
#define EXC() do { EXC_ = 1; } while (0)
#define ROWIDX(r) (__CPROVER_assert((size_t)(r) < tree__size, "C12.storage row index within tree_"), (r))
#define COLIDX(r, c) (__CPROVER_assert((size_t)(c) < tree_rowsize[r], "C12.storage column index within the row"), (c))
/* ghosts */
size_t R, J, GL;          /* ghost inner node (R >= 1, J) and ghost leaf GL */
W E_P, E_C1, E_C2, E_GL, E_OLD, WC; size_t IDX0;
#define HAS2(r, j) (2 * (j) + 1 < tree_rowsize[(r) - 1])
#define ONCHAIN(r, j) ((IDX0 >> (r)) == (j))
/* row sizes: rowsize[r+1] = ceil(rowsize[r] / 2), last row has one entry (instantiated for all 16 levels: a finite conjunction) */
#define RS(r) (tree_rowsize[(r) + 1] == (tree_rowsize[r] + 1) / 2)
#define SHAPE (tree__size >= 1 && tree__size <= ROWS && tree_rowsize[0] == data__size && data__size >= 1 && data__size <= 65535 && tree_rowsize[tree__size - 1] == 1 && \
    (tree__size <= 1 || RS(0)) && (tree__size <= 2 || RS(1)) && (tree__size <= 3 || RS(2)) && (tree__size <= 4 || RS(3)) && (tree__size <= 5 || RS(4)) && (tree__size <= 6 || RS(5)) && (tree__size <= 7 || RS(6)) && \
    (tree__size <= 8 || RS(7)) && (tree__size <= 9 || RS(8)) && (tree__size <= 10 || RS(9)) && (tree__size <= 11 || RS(10)) && (tree__size <= 12 || RS(11)) && (tree__size <= 13 || RS(12)) && (tree__size <= 14 || RS(13)) && \
    (tree__size <= 15 || RS(14)) && (tree__size <= 16 || RS(15)))

void pdf_update(ElemRef elem, const W w)
__CPROVER_requires(SHAPE && F_index[elem] < data__size && IDX0 == F_index[elem] && !EXC_)
__CPROVER_requires(R >= 1 && R < tree__size && J < tree_rowsize[R] && GL < data__size)
__CPROVER_requires(E_P == tree_[R][J] && E_C1 == tree_[R - 1][2 * J] && (HAS2(R, J) ? E_C2 == tree_[R - 1][2 * J + 1] : E_C2 == 0))
__CPROVER_requires(E_P == E_C1 + E_C2)                                             /* the invariant at the ghost node, before */
__CPROVER_requires(E_GL == tree_[0][GL] && E_OLD == tree_[0][IDX0] && WC == w - E_OLD)
__CPROVER_assigns(__CPROVER_object_whole(tree_))
__CPROVER_ensures(tree_[R][J] == tree_[R - 1][2 * J] + (HAS2(R, J) ? tree_[R - 1][2 * J + 1] : 0))     /* C12.inv ... and after */
__CPROVER_ensures(tree_[0][GL] == (GL == IDX0 ? w : E_GL))                          /* C12.view only the edited element's weight changes, to the new weight */
__CPROVER_ensures(!EXC_)
/*@BODY update@*/
void harness(void)
{
    ElemRef e; W w; pdf_update(e, w);
    __CPROVER_assert(0, "REACH updated");
}
