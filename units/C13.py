"""C13 -- grid discretizations track cells, neighbours, borders and components exactly."""
PROPERTY = "C13"
LEVEL = "model_checking"
G = "src/ompl/datastructures/Grid.h"
GN = "src/ompl/datastructures/GridN.h"
GB = "src/ompl/datastructures/GridB.h"

RULES = [
    # unordered_map lookups by coordinate value
    (r"auto pos = hash_\.find\(&coord\);\s*Cell \*cell = \(pos != hash_\.end\(\)\) \? pos->second : nullptr;", "CellRef cell = HASH_FIND(coord);", 0),
    (r"pos = hash_\.find\(&coord\);\s*cell = \(pos != hash_\.end\(\)\) \? pos->second : nullptr;", "cell = HASH_FIND(coord);", 0),
    (r"auto pos = (?:Grid(?:N)?<_T>::)?hash_\.find\(&cell->coord\);", "CellRef pos = HASH_FIND(cell->coord);", 0),
    (r"pos (==|!=) (?:Grid(?:N)?<_T>::)?hash_\.end\(\)", r"pos \1 NULLREF", 0),
    (r"(?:Grid(?:N)?<_T>::)?hash_\.erase\(pos\);", "HASH_ERASE(cell->coord);", 0),
    (r"hash_\.insert\(std::make_pair\(&cell->coord, cell\)\);", "HASH_INSERT(cell->coord, cell);", 0),
    (r"list\.reserve\([^;]*\);", ";", 0),
    (r"list\.push_back\(cell\);", "LIST_PUSH(list, cell);", 0),
    # cells and lists
    (r"auto \*cell = new Cell(?:X)?\(\);", "CellRef cell = NEW_Cell();", 0),
    (r"cell->coord = coord;", "COPY_COORD(cell->coord, coord);", 0),
    (r"(?:Base)?CellArray \*list = nbh \? nbh : new (?:Base)?CellArray\(\);", "CellList own_; own_.size = 0; CellList *list = nbh ? nbh : &own_;", 0),
    (r"auto \*list = new (?:Base)?CellArray\(\);", "CellList own_; own_.size = 0; CellList *list = &own_;", 0),
    (r"if \(!nbh\)\s*delete list;", ";", 0),
    (r"delete list;", ";", 0),
    (r"(?:Grid<_T>::|this->)neighbors\(cell->coord, \*list\);", "grid_neighbors(cell->coord, list);", 0),
    (r"for \(auto cl = list->begin\(\); cl != list->end\(\); \+\+cl\)\s*\{\s*auto \*c = static_cast<Cell(?:X)? \*>\(\*cl\);", "for (size_t cl = 0; cl < list->size; ++cl) { CellRef c = list->v[cl];", 0),
    (r"list->size\(\)", "list->size", 0),
    # GridB: casts, heaps, events
    (r"auto \*ccell = static_cast<CellX \*>\(cell\);", "CellRef ccell = cell;", 0),
    (r"auto \*cx = static_cast<CellX \*>\(cell\);", "CellRef cx = cell;", 0),
    (r"static_cast<Cell(?:X)? \*>\((\w+)\)", r"\1", 0),
    (r"reinterpret_cast<typename \w+::Element \*>\(", "(", 0),
    (r"static_cast<Cell \*>\(", "(", 0),
    (r"eventCellUpdate_\((\w+(?:\[\w+\])?), eventCellUpdateData_\);", r"EVENT_UPDATE(\1);", 0),
    (r"external_\.update\(", "HEAP_UPDATE(EXT_, ", 0), (r"internal_\.update\(", "HEAP_UPDATE(INT_, ", 0),
    (r"external_\.remove\(", "HEAP_REMOVE(EXT_, ", 0), (r"internal_\.remove\(", "HEAP_REMOVE(INT_, ", 0),
    (r"external_\.insert\(", "HEAP_INSERT(EXT_, ", 0), (r"internal_\.insert\(", "HEAP_INSERT(INT_, ", 0),
    (r"external_\.top\(\)->data", "HEAP_TOP_DATA(EXT_)", 0), (r"internal_\.top\(\)->data", "HEAP_TOP_DATA(INT_)", 0),
    (r"external_\.empty\(\)", "HEAP_EMPTY(EXT_)", 0), (r"internal_\.empty\(\)", "HEAP_EMPTY(INT_)", 0),
    (r"external_\.size\(\)", "HEAP_SIZE(EXT_)", 0), (r"internal_\.size\(\)", "HEAP_SIZE(INT_)", 0),
    (r"external_\.rebuild\(\);", "HEAP_REBUILD(EXT_);", 0), (r"internal_\.rebuild\(\);", "HEAP_REBUILD(INT_);", 0),
    (r"GridN<_T>::add\(cell\);", "grid_add(cell);", 0),
    (r"GridN<_T>::numberOfBoundaryDimensions\(", "gridn_numberOfBoundaryDimensions(", 0),
    (r"(?<![\w_])numberOfBoundaryDimensions\(", "gridn_numberOfBoundaryDimensions(", 0),
    (r"std::vector<Cell \*> cells;\s*this->getCells\(cells\);\s*for \(int i = cells\.size\(\) - 1; i >= 0; --i\)\s*EVENT_UPDATE\(cells\[i\]\);",
     "for (int i = NPOS - 1; i >= 0; --i) if (table[i]) EVENT_UPDATE(table[i]);", 0),
    (r"Grid(?:N)?<_T>::", "", 0),
    (r"(\w+)->(neighbors|border|coord|data|heapElement)\b", r"C_\2[\1]", 0),
    (r"\bnullptr\b", "NULLREF", 0),
]


COMP_RULES = [
    (r"using ComponentHash = [^;]*;", "", 0),
    (r"ComponentHash ch;", "for (unsigned r_ = 0; r_ < NC; r_++) ch_[r_] = -1;", 0),
    (r"std::vector<std::vector<Cell \*>> res;", "res_size = 0;", 0),
    (r"for \(auto & i: hash_\)\s*\{\s*Cell \*c0 = i\.second;", "for (unsigned s_ = 0; s_ < NPOS; ++s_) if (table[s_]) { CellRef c0 = table[s_];", 0),
    (r"auto pos = ch\.find\(&c0->coord\);\s*int comp = \(pos != ch\.end\(\)\) \? pos->second : -1;", "int comp = ch_[c0];", 0),
    (r"pos = ch\.find\(&(\w+)->coord\);\s*comp = \(pos != ch\.end\(\)\) \? pos->second : -1;", r"comp = ch_[\1];", 0),
    (r"res\.resize\(res\.size\(\) \+ 1\);\s*std::vector<Cell \*> &q = res\.back\(\);", "RES_NEW_ROW(); size_t q = res_size - 1;", 0),
    (r"q\.push_back\((\w+)\);", r"RES_PUSH(q, \1);", 0),
    (r"std::size_t", "size_t", 0), (r"q\.size\(\)", "res_rowsize[q]", 0),
    (r"Cell \*c = q\[index\+\+\];", "CellRef c = res[q][index++];", 0),
    (r"ch\.insert\(std::make_pair\(&c->coord, components\)\);", "ch_[c] = components;", 0),
    (r"std::vector<Cell \*> nbh;\s*neighbors\(c, nbh\);\s*for \(const auto &n : nbh\)\s*\{",
     "CellList nbh; nbh.size = 0; { int t_[DIM]; COPY_COORD(t_, C_coord[c]); grid_neighbors(t_, &nbh); } for (size_t ni_ = 0; ni_ < nbh.size; ++ni_) { CellRef n = nbh.v[ni_];", 0),
    (r"q\.erase\(q\.begin\(\) \+ index\);", "RES_ERASE(q, index);", 0),
    (r"std::sort\(res\.begin\(\), res\.end\(\), SortComponents\(\)\);", "RES_SORT_BY_SIZE();", 0),
    (r"return res;", "return;", 0),
]

def S(name, file, sig, which=None, mins=()):
    d = dict(name=name, file=file, sig=sig, rules=RULES, loops={"allow_uncontracted": True})
    if which is not None:
        d["which"] = which
    return d


SOURCES = [
    S("neighbors", G, r"void neighbors\(Coord &coord, CellArray &list\) const"),
    S("add", G, r"virtual void add\(Cell \*cell\)"),
    S("remove", G, r"virtual bool remove\(Cell \*cell\)"),
    S("nbd", GN, r"unsigned int numberOfBoundaryDimensions\(const Coord &coord\) const"),
    S("n_createCell", GN, r"BaseCell \*createCell\(const Coord &coord, BaseCellArray \*nbh = nullptr\) override"),
    S("n_remove", GN, r"bool remove\(BaseCell \*cell\) override"),
    S("b_createCell", GB, r"virtual Cell \*createCell\(const Coord &coord, CellArray \*nbh = nullptr\)"),
    S("b_add", GB, r"virtual void add\(Cell \*cell\)"),
    S("b_remove", GB, r"bool remove\(BaseCell \*cell\) override"),
    S("b_update", GB, r"void update\(Cell \*cell\)"),
    S("b_updateAll", GB, r"void updateAll\(\)"),
    S("b_topInternal", GB, r"Cell \*topInternal\(\) const"),
    S("b_topExternal", GB, r"Cell \*topExternal\(\) const"),
    S("b_countInternal", GB, r"unsigned int countInternal\(\) const"),
    S("b_countExternal", GB, r"unsigned int countExternal\(\) const"),
    dict(name="components", file=G, sig=r"std::vector<std::vector<Cell \*>> components\(\) const", rules=COMP_RULES + RULES, loops={"allow_uncontracted": True}),
]
FUNCS = ["ompl::Grid::neighbors(Coord&,CellArray&)", "ompl::Grid::add", "ompl::Grid::remove", "ompl::GridN::numberOfBoundaryDimensions", "ompl::GridN::createCell",
         "ompl::GridN::remove", "ompl::GridB::createCell", "ompl::GridB::add", "ompl::GridB::remove", "ompl::GridB::update", "ompl::GridB::updateAll",
         "ompl::GridB::topInternal", "ompl::GridB::topExternal", "ompl::GridB::countInternal", "ompl::GridB::countExternal", "ompl::Grid::components"]
FLAGS = ["--bounds-check", "--pointer-check", "--signed-overflow-check", "--no-malloc-may-fail"]


def U(h, dim, w, canaries=(), in_tiers=("quick", "thorough"), tag=""):
    npos = w ** dim
    return dict(name="c13_%s_d%dw%d" % (h, dim, w), template="C13/grid_bounded.c", mode="plain", entry="h_" + h, sources=SOURCES, functions=FUNCS,
                defines={"DIM": dim, "W": w}, unwind=npos + 5, flags=FLAGS, level="bounded", backend="cadical", timeout=900,
                bound="every grid state inside a %d^%d window (all subsets of cells, all limits/bounds configurations, all arguments)" % (w, dim),
                canaries=list(canaries), in_tiers=in_tiers)


CAN = {
    "neighbors": [dict(name="restores_wrong", where="body:neighbors", rx=r"coord\[i\] \+= 2;", repl="coord[i] += 1;")],
    "n_create_add": [dict(name="new_cell_gt", where="body:n_createCell", rx=r"C_border\[cell\] && C_neighbors\[cell\] >= interiorCellNeighborsLimit_", repl="C_border[cell] && C_neighbors[cell] > interiorCellNeighborsLimit_")],
    "n_create_remove": [dict(name="remove_early_return", where="body:n_remove", rx=r"if \(cell\)\s*\{", repl="if (cell && HASH_FIND(C_coord[cell]) != NULLREF) {")],
    "b_create_add": [dict(name="b_new_cell_gt", where="body:b_createCell", rx=r"C_border\[cell\] && C_neighbors\[cell\] >= interiorCellNeighborsLimit_", repl="C_border[cell] && C_neighbors[cell] > interiorCellNeighborsLimit_")],
    "b_remove": [dict(name="event_after_heap", where="body:b_remove", rx=r"if \(wasBorder\)\s*HEAP_UPDATE\(EXT_, \s*\(C_heapElement\[c\]\)\);", repl="if (wasBorder) ;")],
    "b_tops": [dict(name="top_internal_no_fallback", where="body:b_topInternal", rx=r"HEAP_EMPTY\(EXT_\) \? NULLREF : ", repl="1 ? NULLREF : ")],
}
UNITS = []
for h in ("neighbors", "base_remove", "n_create_add", "n_create_remove", "n_remove", "b_create_add", "b_create_remove", "b_remove", "b_update", "b_updateAll", "b_tops"):
    UNITS.append(U(h, 2, 3, CAN.get(h, ())))
    UNITS.append(U(h, 1, 4, (), in_tiers=("thorough",)))
    UNITS.append(U(h, 3, 2, (), in_tiers=("thorough",)))

COMP_CAN = [dict(name="duplicates_not_dropped", where="body:components", rx=r"else\s*\{\s*--index;\s*RES_ERASE\(q, index\);\s*\}", repl="")]
# Grid::components: one concrete occupancy pattern per solver process, ALL patterns of the window enumerated
for (dim, w, tiers) in ((2, 2, ("quick", "thorough")), (1, 4, ("quick", "thorough")), (2, 3, ("thorough",))):
    for mask in range(1 << (w ** dim)):
        u = U("components", dim, w, COMP_CAN if (dim, w, mask) == (2, 2, 15) else (), in_tiers=tiers)
        u["name"] += "_m%03x" % mask
        u["defines"]["PRESENT_MASK"] = mask
        q = (dim if w == 2 else 2 * dim) * (w ** dim) + 2
        u["unwind"] = max(q, w ** dim + 2) + 2
        u["functions"] = ["ompl::Grid::components", "ompl::Grid::neighbors(Coord&,CellArray&)"]
        u["bound"] = "occupancy pattern 0x%x of the %d^%d window (all %d patterns are enumerated, one per process)" % (mask, w, dim, 1 << (w ** dim))
        u["backend"] = "minisat"
        UNITS.append(u)

# ---------------------------------------------------------------- Grid::neighbors, unbounded in the dimension (loop contract, two ghost dimensions)
NB_RULES = [(r"list\.reserve\([^;]*\);", ";", 0), (r"auto pos = hash_\.find\(&coord\);\s*Cell \*cell = \(pos != hash_\.end\(\)\) \? pos->second : nullptr;", "CellRef cell = HASH_FIND(coord);", 0),
            (r"pos = hash_\.find\(&coord\);\s*cell = \(pos != hash_\.end\(\)\) \? pos->second : nullptr;", "cell = HASH_FIND(coord);", 0), (r"list\.push_back\(cell\);", "LIST_PUSH(cell);", 0)]
NB_LOOP = """
__CPROVER_assigns(i, __CPROVER_object_whole(coord), probed_gm, probed_gp, others_ok, probes_at_G, last_found, last_found_is_gm, last_found_is_gp, list_n, pushed_gm, pushed_gp, pushed_for_G)
__CPROVER_loop_invariant(-1 <= i && i < dimension_ && coord[G] == C0_G && coord[H] == C0_H && others_ok)
__CPROVER_loop_invariant(list_n >= LIST0 && list_n <= LIST0 + 2u * (unsigned)(dimension_ - 1 - i))
__CPROVER_loop_invariant(i < G ? (probed_gm && probed_gp && probes_at_G == 2 && pushed_gm == (CELL_GM != NULLREF) && pushed_gp == (CELL_GP != NULLREF) && pushed_for_G == (CELL_GM != NULLREF ? 1u : 0u) + (CELL_GP != NULLREF ? 1u : 0u))
                               : (!probed_gm && !probed_gp && probes_at_G == 0 && !pushed_gm && !pushed_gp && pushed_for_G == 0))
__CPROVER_decreases(i + 1)
"""
UNITS.append(dict(name="c13_neighbors_unbounded", template="C13/neighbors_unb.c", functions=["ompl::Grid::neighbors(Coord&, CellArray&)"],
                  sources=[dict(name="neighbors", file=G, sig=r"void neighbors\(Coord &coord, CellArray &list\) const", rules=NB_RULES, loops={1: NB_LOOP})],
                  enforce=["grid_neighbors"], replace=["HASH_FIND", "LIST_PUSH"], backend="minisat", flags=["--bounds-check", "--pointer-check", "--conversion-check", "--no-signed-overflow-check", "--no-malloc-may-fail", "--object-bits", "12"],   # no signed-overflow check: cell coordinates are assumed away from INT_MIN/INT_MAX (a universal fact about all dimensions)
                  timeout=900, level="proof", bound="dimension <= 64, unbounded in the loop; coordinates not within 1 of the int limits", expect_loops=1, confirm=dict(unwind=5, defines={}),
                  canaries=[dict(name="restores_wrong", where="body:neighbors", rx=r"coord\[i\] \+= 2;", repl="coord[i] += 1;")]))

# ---------------------------------------------------------------- KPIECE: the owners of the two-queue grid keep every changed priority re-sorted
DISC = "src/ompl/geometric/planners/kpiece/Discretization.h"
CKP = "src/ompl/control/planners/kpiece/src/KPIECE1.cpp"
KP_RULES = [
    (r"OMPL_DEBUG\([^;]*\);", "", 0),
    (r"Grid::Coord coord\(projectionEvaluator_->getDimension\(\)\);\s*projectionEvaluator_->computeCoordinates\(motion->state, coord\);", "", 0),
    (r"(?:Grid::)?Cell \*cell = (?:tree_\.grid|grid_)\.getCell\(coord\);", "CellRef cell = GRID_getCell();", 0),
    (r"cell = (?:tree_\.grid|grid_)\.createCell\(coord\);", "cell = GRID_createCell();", 0), (r"cell->data = new CellData\(\);", "", 0),
    (r"(\w+)->data->motions\.push_back\(motion\);", r"C_nmotions[\1]++;", 0),
    (r"\+\+(\w+)->data->selections;", r"TOUCH(\1); C_selections[\1]++;", 0), (r"(\w+)->data->selections\+\+;", r"TOUCH(\1); C_selections[\1]++;", 0),
    (r"(\w+)->data->(coverage|score|selections) (\+=|\*=|=) ([^;]+);", r"TOUCH(\1); C_\2[\1] \3 \4;", 0),
    (r"(\w+)->data->iteration = ([^;]+);", r"C_iteration[\1] = \2;", 0),
    (r"(?:tree_\.grid|grid_)\.update\((\w+)\);", r"GRID_update(\1);", 0), (r"(?:tree_\.grid|grid_)\.add\((\w+)\);", r"GRID_add(\1);", 0), (r"(?:tree_\.grid|grid_)\.updateAll\(\);", "GRID_updateAll();", 0),
    (r"log\(\(double\)\((?:tree_\.)?iteration_?\)\)", "LOG_(iteration_)", 0), (r"tree_\.iteration\b", "iteration_", 0), (r"tree_\.size\+\+;", "size_++;", 0), (r"motion->steps", "(double)motion->steps", 0), (r"DISTANCE_TO_GOAL_OFFSET", "1e-3", 0),
    # selectMotion
    (r"rng_\.uniform01\(\)", "UNIFORM01()", 0), (r"std::max\(", "MAXD(", 0), (r"(?:tree_\.grid|grid_)\.(fracExternal|topExternal|topInternal)\(\)", r"GRID_\1()", 0),
    (r"std::vector<CellData \*> content;\s*content\.reserve\((?:tree_\.grid|grid_)\.size\(\)\);\s*(?:tree_\.grid|grid_)\.getContent\(content\);\s*for \(auto it = content\.begin\(\); it != content\.end\(\); \+\+it\)\s*\(\*it\)->score \+= 1\.0 \+ log\(\(double\)\(\(\*it\)->iteration\)\);",
     "for (CellRef c_ = 1; c_ < NC; c_++) if (in_grid[c_]) { TOUCH(c_); C_score[c_] += 1.0 + LOG_(C_iteration[c_]); }", 0),
    (r"std::vector<CellData \*> content;\s*content\.reserve\((?:tree_\.grid|grid_)\.size\(\)\);\s*(?:tree_\.grid|grid_)\.getContent\(content\);\s*for \(auto &it : content\)\s*it->score \+= 1\.0 \+ log\(\(double\)\(it->iteration\)\);",
     "for (CellRef c_ = 1; c_ < NC; c_++) if (in_grid[c_]) { TOUCH(c_); C_score[c_] += 1.0 + LOG_(C_iteration[c_]); }", 0),
    (r"assert\(scell && !scell->data->motions\.empty\(\)\);", "", 0),
    (r"smotion = scell->data->motions\[rng_\.halfNormalInt\(0, scell->data->motions\.size\(\) - 1\)\];", "(*smotion_p) = PICK_MOTION(scell);", 0),
    (r"!scell->data->motions\.empty\(\)", "(C_nmotions[scell] != 0)", 0), (r"scell->data->score", "C_score[scell]", 0),
    (r"std::numeric_limits<double>::epsilon\(\)", "DBL_EPSILON", 0), (r"\bscell\b", "(*scell_p)", 0),
]
KP_SRC = [
    dict(name="disc_addMotion", file=DISC, sig=r"unsigned int addMotion\(Motion \*motion, const Coord &coord, double dist = 0\.0\)", rules=KP_RULES, loops={"allow_uncontracted": True}),
    dict(name="disc_selectMotion", file=DISC, sig=r"void selectMotion\(Motion \*&smotion, Cell \*&scell\)", rules=KP_RULES, loops={"allow_uncontracted": True}),
    dict(name="ck_addMotion", file=CKP, sig=r"ompl::control::KPIECE1::Grid::Cell \*ompl::control::KPIECE1::addMotion\(Motion \*motion, double dist\)", rules=KP_RULES, loops={"allow_uncontracted": True}),
    dict(name="ck_selectMotion", file=CKP, sig=r"bool ompl::control::KPIECE1::selectMotion\(Motion \*&smotion, Grid::Cell \*&scell\)", rules=KP_RULES, loops={"allow_uncontracted": True}),
]
KP_UNITS = []
for _h, _fn, _needs, _can in (("disc_addMotion", "geometric Discretization::addMotion", ["disc_addMotion"], [dict(name="existing_cell_not_resorted", where="body:disc_addMotion", rx=r"GRID_update\(cell\);", repl=";")]),
                              ("disc_selectMotion", "geometric Discretization::selectMotion", ["disc_selectMotion"], [dict(name="rescoring_resorts_only_the_selected_cell", where="body:disc_selectMotion", rx=r"GRID_updateAll\(\);", repl="GRID_update((*scell_p));")]),
                              ("ck_addMotion", "control::KPIECE1::addMotion", ["ck_addMotion"], [dict(name="existing_cell_not_resorted", where="body:ck_addMotion", rx=r"GRID_update\(cell\);", repl=";")]),
                              ("ck_selectMotion", "control::KPIECE1::selectMotion", ["ck_selectMotion"], [dict(name="rescoring_without_resorting", where="body:ck_selectMotion", rx=r"GRID_updateAll\(\);", repl=";")])):
    KP_UNITS.append(dict(name="c13_kpiece_" + _h, template="C13/kpiece_disc.c", mode="plain", entry="h_" + _h, sources=KP_SRC, needs=_needs, flags=["--bounds-check", "--pointer-check"], unwind=7, level="bounded",
                         bound="<= 4 cells, every subset present", backend="minisat", timeout=300, functions=[_fn], canaries=_can))
UNITS += KP_UNITS

ASSUMPTIONS = [
    "bounded world: grids of dimension 2 inside a 3x3 window (thorough: also 1-D width 4 and 3-D 2x2x2); probes may fall one step outside the window",
    "assumed finite-map contract for std::unordered_map keyed by coordinate value (direct table model in units/C13/grid_model.h); Eigen::VectorXi modelled as int[DIM]",
    "GridB's two BinaryHeaps are replaced by the abstract view established in C11 (member set, handle validity as precondition, top is a minimum); reinterpret_cast of heapElement is the identity on references",
    "createCell is given an empty neighbour list (or none); the update event may change the cell's priority arbitrarily",
    "GridN/GridB::neighbors(...) overloads that only copy/cast the base list are mapped to Grid::neighbors",
]
TRUSTED = ["extraction rewrite table of units/C13.py", "memory model and abstract heaps in units/C13/grid_model.h, harness code in units/C13/grid_bounded.c", "CBMC 6.11 + cadical"]
NOT_COVERED = ["ordering of the reported components by size", "hash function quality, Eigen", "grid owners other than geometric Discretization (addMotion, selectMotion) and control KPIECE1 (addMotion, selectMotion): removeMotion, the solve() loops that end with updateCell(), BKPIECE / LBKPIECE",
               "symmetry of the neighbour relation across arbitrary dimensions (follows from the +-1 probe rule, checked in the window)"]

NATIVE = [dict(name="c13_native_random_histories", driver="native/c13_native.cpp",
               args=lambda tier, seed: ["search", seed, 3000 if tier == "quick" else 200000], timeout=900)]


def replay(ur, scratch, seed):
    """Search the real GridB<int>/GridN<int> for a failing history (counts, borders, queues, tops, components)."""
    from vf import native as N, cbmc as C
    exe = N.build_driver("native/c13_native.cpp", scratch)
    r = C.run_cmd([exe, "search", str(seed), "60000"], 600, env=N.run_env())
    return dict(found=(r["rc"] == 1), driver="native/c13_native.cpp", args=["search", seed, 60000], output=r["out"][-2500:])
