/* C13: Grid / GridN / GridB operations, bodies extracted from /repo, verified over EVERY grid state inside a
 * W^DIM window (every subset of cells present, every limit / bounds configuration, every argument). */
#include "grid_model.h"

void grid_neighbors(int *coord, CellList *list)
/*@BODY neighbors@*/
void grid_add(CellRef cell)
/*@BODY add@*/
bool grid_remove(CellRef cell)
/*@BODY remove@*/
unsigned gridn_numberOfBoundaryDimensions(const int *coord)
/*@BODY nbd@*/
CellRef gridn_createCell(const int *coord, CellList *nbh)
/*@BODY n_createCell@*/
bool gridn_remove(CellRef cell)
/*@BODY n_remove@*/
CellRef gridb_createCell(const int *coord, CellList *nbh)
/*@BODY b_createCell@*/
void gridb_add(CellRef cell)
/*@BODY b_add@*/
bool gridb_remove(CellRef cell)
/*@BODY b_remove@*/
void gridb_update(CellRef cell)
/*@BODY b_update@*/
void gridb_updateAll(void)
/*@BODY b_updateAll@*/
CellRef gridb_topInternal(void)
/*@BODY b_topInternal@*/
CellRef gridb_topExternal(void)
/*@BODY b_topExternal@*/
unsigned gridb_countInternal(void)
/*@BODY b_countInternal@*/
unsigned gridb_countExternal(void)
/*@BODY b_countExternal@*/

/* Grid::components(): vector<vector<Cell*>> res -> rows of a 2-D array; the auxiliary unordered_map ch (coord -> component)
 * is keyed by the cell (coordinates are unique per present cell). */
#if W == 2
#define DEGMAX DIM
#else
#define DEGMAX (2 * DIM)
#endif
#define QMAX (DEGMAX * NPOS + 2)   /* one initial push + at most deg pushes per processed cell */
CellRef res[NPOS + 1][QMAX]; size_t res_rowsize[NPOS + 1]; size_t res_size; int ch_[NC];
#define RES_NEW_ROW() do { __CPROVER_assert(res_size < NPOS + 1, "rows"); res_rowsize[res_size++] = 0; } while (0)
#define RES_PUSH(q, x) do { __CPROVER_assert(res_rowsize[q] < QMAX, "queue capacity"); res[q][res_rowsize[q]++] = (x); } while (0)
#define RES_ERASE(q, i) do { __CPROVER_assert((i) < res_rowsize[q], "erase within the vector"); for (size_t e_ = 0; e_ + 1 < QMAX; e_++) if (e_ >= (i) && e_ + 1 < res_rowsize[q]) res[q][e_] = res[q][e_ + 1]; res_rowsize[q]--; } while (0)
#define RES_SORT_BY_SIZE() do { } while (0)   /* ordering of the components by size is not part of the property */
void grid_components(void)
/*@BODY components@*/

/* ------------------------------------------------------------------ harness side (trusted) */
bool nondet_bool(void); unsigned nondet_unsigned(void);
static void coord_of_slot(unsigned s, int *c) { for (int d = DIM - 1; d >= 0; d--) { c[d] = (int)(s % W); s /= W; } }
static unsigned spec_boundary(const int *c) { unsigned r = 0; if (hasBounds_) for (int d = 0; d < DIM; d++) if (c[d] == lowBound_[d] || c[d] == upBound_[d]) r++; return r; }
static unsigned spec_present_neighbors(const int *c0)
{
    unsigned n = 0; int c[DIM]; COPY_COORD(c, c0);
    for (int d = 0; d < DIM; d++) { c[d]--; if (HASH_FIND(c)) n++; c[d] += 2; if (HASH_FIND(c)) n++; c[d]--; }
    return n;
}
bool PRESENT0[NPOS]; int DATA0[NC];
static void any_grid(bool with_heaps)
{
    dimension_ = DIM; maxNeighbors_ = 2 * DIM; next_ref = NPOS + 1;
    interiorCellNeighborsLimit_ = nondet_unsigned(); __CPROVER_assume(interiorCellNeighborsLimit_ >= 1 && interiorCellNeighborsLimit_ <= 2 * DIM);
    hasBounds_ = nondet_bool();
    for (int d = 0; d < DIM; d++) { lowBound_[d] = nondet_bool() ? 0 : -1; upBound_[d] = nondet_bool() ? W - 1 : W; }
    for (unsigned r = 0; r < NC; r++) { alive[r] = 0; member[0][r] = member[1][r] = 0; stale[r] = 0; }
    for (unsigned s = 0; s < NPOS; s++) {
#ifdef PRESENT_MASK
        bool p = (PRESENT_MASK >> s) & 1;   /* one concrete occupancy pattern per solver process (all patterns are enumerated) */
#else
        bool p = nondet_bool();
#endif
        PRESENT0[s] = p; table[s] = p ? s + 1 : NULLREF; if (p) { alive[s + 1] = 1; coord_of_slot(s, C_coord[s + 1]); C_data[s + 1] = nondet_int(); DATA0[s + 1] = C_data[s + 1]; } }
    for (unsigned s = 0; s < NPOS; s++) if (table[s])
    {
        CellRef c = s + 1; C_neighbors[c] = spec_present_neighbors(C_coord[c]) + spec_boundary(C_coord[c]); C_border[c] = C_neighbors[c] < interiorCellNeighborsLimit_;
        if (with_heaps) { member[C_border[c] ? EXT_ : INT_][c] = 1; C_heapElement[c] = HANDLE(C_border[c] ? EXT_ : INT_, c); }
    }
}
static void check_inv(bool with_heaps)
{
    for (unsigned s = 0; s < NPOS; s++) if (table[s])
    {
        CellRef c = table[s]; int cc[DIM]; coord_of_slot(s, cc);
        __CPROVER_assert(c < NC && alive[c], "C13.lookup stored cells are live");
        for (int d = 0; d < DIM; d++) __CPROVER_assert(C_coord[c][d] == cc[d], "C13.lookup a cell is found under its own coordinates");
        __CPROVER_assert(C_neighbors[c] == spec_present_neighbors(cc) + spec_boundary(cc), "C13.count each cell's neighbour count matches its actual neighbours and the configured bounds");
        __CPROVER_assert(C_border[c] == (C_neighbors[c] < interiorCellNeighborsLimit_), "C13.border interior/border classification matches the count");
        if (with_heaps)
        {
            __CPROVER_assert(member[EXT_][c] == C_border[c] && member[INT_][c] == !C_border[c], "C13.queues every cell sits in exactly one queue: border cells in the external, interior cells in the internal one");
            __CPROVER_assert(C_heapElement[c] == HANDLE(C_border[c] ? EXT_ : INT_, c), "C13.queues the stored handle is the cell's handle in its queue");
            __CPROVER_assert(!stale[c], "C13.queues a queue is told (update/insert) after every priority change of one of its cells");
        }
    }
    if (with_heaps) for (CellRef c = 1; c < NC; c++) { bool present = 0; for (unsigned s = 0; s < NPOS; s++) if (table[s] == c) present = 1; if (!present) __CPROVER_assert(!member[0][c] && !member[1][c], "C13.queues removed / never-added cells are in no queue"); }
}
static void any_coord(int *c, bool inside) { for (int d = 0; d < DIM; d++) { c[d] = nondet_int(); __CPROVER_assume(inside ? (c[d] >= 0 && c[d] < W) : (c[d] >= -1 && c[d] <= W)); } }

void h_neighbors(void)
{
    any_grid(false); int c[DIM], c0[DIM]; any_coord(c, false); COPY_COORD(c0, c);
    CellList l; l.size = nondet_unsigned(); __CPROVER_assume(l.size <= 2); CellRef j0 = nondet_ref(), j1 = nondet_ref(); l.v[0] = j0; l.v[1] = j1; size_t k = l.size;
    grid_neighbors(c, &l);
    for (int d = 0; d < DIM; d++) __CPROVER_assert(c[d] == c0[d], "C13.nbr neighbors() restores the probe coordinate");
    __CPROVER_assert(l.size >= k && (k < 1 || l.v[0] == j0) && (k < 2 || l.v[1] == j1), "C13.nbr neighbors() appends, earlier entries untouched");
    __CPROVER_assert(l.size - k == spec_present_neighbors(c0), "C13.nbr exactly as many entries as present neighbour cells");
    for (size_t i = 0; i < LMAX; i++) if (i >= k && i < l.size)
    {
        CellRef n = l.v[i]; __CPROVER_assert(n != NULLREF && n < NC && alive[n] && HASH_FIND(C_coord[n]) == n, "C13.nbr every listed neighbour is a present cell");
        int diff = 0; for (int d = 0; d < DIM; d++) { int e = C_coord[n][d] - c0[d]; diff += e < 0 ? -e : e; }
        __CPROVER_assert(diff == 1, "C13.nbr listed cells differ by one in a single dimension");
        for (size_t j = 0; j < LMAX; j++) if (j >= k && j < i) __CPROVER_assert(l.v[j] != n, "C13.nbr no neighbour is listed twice");
    }
    #if W >= 3
    if (l.size - k == 2 * DIM) REACH("all neighbours present");
#endif
    if (l.size == k) REACH("no neighbour");
}
static void check_others_unchanged(unsigned skip_slot)
{
    for (unsigned s = 0; s < NPOS; s++) if (s != skip_slot) __CPROVER_assert(table[s] == (PRESENT0[s] ? s + 1 : NULLREF), "C13.lookup other cells stay exactly as they were");
}
#define CREATE(B, coord, nbhp) ((B) ? gridb_createCell(coord, nbhp) : gridn_createCell(coord, nbhp))
static void create_add(bool B)
{
    any_grid(B); int c[DIM]; any_coord(c, true); __CPROVER_assume(HASH_FIND(c) == NULLREF);
    CellList nb; nb.size = 0; bool give = nondet_bool();
    CellRef cell = CREATE(B, c, give ? &nb : (CellList *)0);
    __CPROVER_assert(cell != NULLREF && alive[cell] && cell > NPOS, "createCell returns a fresh cell");
    if (give) __CPROVER_assert(nb.size == spec_present_neighbors(c), "createCell reports the present neighbours");
    if (B) gridb_add(cell); else grid_add(cell);
    __CPROVER_assert(HASH_FIND(c) == cell, "C13.lookup an added cell is found");
    check_inv(B); check_others_unchanged(slot_of(c));
    if (C_neighbors[cell] == 2 * DIM) REACH("new cell fills a hole"); if (!C_border[cell]) REACH("new cell is interior");
}
static void create_remove(bool B)   /* candidate cell abandoned: createCell, then remove without add */
{
    any_grid(B); int c[DIM]; any_coord(c, true); __CPROVER_assume(HASH_FIND(c) == NULLREF);
    CellRef cell = CREATE(B, c, (CellList *)0);
    bool r = B ? gridb_remove(cell) : gridn_remove(cell);
    __CPROVER_assert(!r, "remove of a cell that was never added reports false");
    check_inv(B); check_others_unchanged(NPOS);
    REACH("abandoned");
}
static void remove_present(bool B)
{
    any_grid(B); int c[DIM]; any_coord(c, true); CellRef cell = HASH_FIND(c); __CPROVER_assume(cell != NULLREF);
    bool r = B ? gridb_remove(cell) : gridn_remove(cell);
    __CPROVER_assert(r && HASH_FIND(c) == NULLREF, "C13.lookup a removed cell is no longer found");
    check_inv(B); check_others_unchanged(slot_of(c));
    
#if W >= 3      /* a window of width 2 has no enclosed cell */
    if (spec_present_neighbors(c) == 2 * DIM) REACH("removed an enclosed cell");
#endif

}
void h_n_create_add(void) { create_add(false); }
void h_n_create_remove(void) { create_remove(false); }
void h_n_remove(void) { remove_present(false); }
void h_b_create_add(void) { create_add(true); }
void h_b_create_remove(void) { create_remove(true); }
void h_b_remove(void) { remove_present(true); }
void h_base_remove(void)
{
    any_grid(false); int c[DIM]; any_coord(c, true); CellRef cell = HASH_FIND(c);
    bool r = grid_remove(cell);
    __CPROVER_assert(r == (cell != NULLREF) && HASH_FIND(c) == NULLREF, "C13.lookup Grid::remove removes exactly that cell and reports whether it was present");
    check_others_unchanged(slot_of(c));
    if (r) REACH("removed"); else REACH("null cell");
}
void h_b_update(void)
{
    any_grid(true); int c[DIM]; any_coord(c, true); CellRef cell = HASH_FIND(c); __CPROVER_assume(cell != NULLREF);
    gridb_update(cell);
    check_inv(true); check_others_unchanged(NPOS);
    REACH("updated");
}
void h_b_updateAll(void)
{
    any_grid(true);
    gridb_updateAll();
    check_inv(true); check_others_unchanged(NPOS);
    REACH("updated all");
}
void h_b_tops(void)
{
    any_grid(true);
    CellRef ti = gridb_topInternal(), te = gridb_topExternal();
    unsigned ni = 0, ne = 0; for (unsigned s = 0; s < NPOS; s++) if (table[s]) { if (C_border[table[s]]) ne++; else ni++; }
    __CPROVER_assert(gridb_countInternal() == ni && gridb_countExternal() == ne, "C13.queues queue sizes equal the numbers of interior and border cells");
    if (ni + ne == 0) __CPROVER_assert(ti == NULLREF && te == NULLREF, "tops of an empty grid are null");
    else
    {
        __CPROVER_assert(ti != NULLREF && te != NULLREF && HASH_FIND(C_coord[ti]) == ti && HASH_FIND(C_coord[te]) == te, "tops are present cells");
        __CPROVER_assert(ni == 0 ? C_border[ti] : !C_border[ti], "C13.tops topInternal is an interior cell (a border cell only when there is no interior cell)");
        __CPROVER_assert(ne == 0 ? !C_border[te] : C_border[te], "C13.tops topExternal is a border cell (an interior cell only when there is no border cell)");
        for (unsigned s = 0; s < NPOS; s++) if (table[s])
        {
            if (C_border[table[s]] == C_border[ti]) __CPROVER_assert(!(C_data[table[s]] < C_data[ti]), "C13.tops topInternal is the best cell of its class");
            if (C_border[table[s]] == C_border[te]) __CPROVER_assert(!(C_data[table[s]] < C_data[te]), "C13.tops topExternal is the best cell of its class");
        }
    }
    if (ni == 0 && ne > 0) REACH("no interior cell"); if (ne == 0 && ni > 0) REACH("no border cell"); if (ni + ne == 0) REACH("empty grid");
}

void h_components(void)
{
    any_grid(false);
    grid_components();
    REACH("components returned");
    /* specification: connected components of the neighbour relation by label propagation to a fixpoint */
    unsigned label[NPOS]; for (unsigned s = 0; s < NPOS; s++) label[s] = s;
    for (unsigned round = 0; round < NPOS; round++)
        for (unsigned s = 0; s < NPOS; s++) if (table[s])
        {
            int c[DIM]; coord_of_slot(s, c);
            for (int d = 0; d < DIM; d++) for (int e = -1; e <= 1; e += 2) { c[d] += e; if (HASH_FIND(c) && label[slot_of(c)] < label[s]) label[s] = label[slot_of(c)]; c[d] -= e; }
        }
    unsigned comp_of[NPOS]; unsigned ncomp = 0;
    for (unsigned s = 0; s < NPOS; s++) if (table[s])
    {
        if (label[s] == s) ncomp++;
        unsigned occ = 0;
        for (unsigned r = 0; r < NPOS + 1; r++) if (r < res_size) for (unsigned i = 0; i < QMAX; i++) if (i < res_rowsize[r] && res[r][i] == table[s]) { occ++; comp_of[s] = r; }
        __CPROVER_assert(occ == 1, "C13.components every present cell is listed in exactly one component, exactly once");
    }
    __CPROVER_assert(res_size == ncomp, "C13.components as many components as the neighbour relation has");
    for (unsigned r = 0; r < NPOS + 1; r++) if (r < res_size) { __CPROVER_assert(res_rowsize[r] > 0, "no empty component"); for (unsigned i = 0; i < QMAX; i++) if (i < res_rowsize[r]) __CPROVER_assert(res[r][i] != NULLREF && res[r][i] <= NPOS && table[res[r][i] - 1] == res[r][i], "C13.components only present cells are listed"); }
    unsigned a = nondet_unsigned(), b = nondet_unsigned(); __CPROVER_assume(a < NPOS && b < NPOS && table[a] && table[b]);
    __CPROVER_assert((comp_of[a] == comp_of[b]) == (label[a] == label[b]), "C13.components two cells share a component exactly when the neighbour relation connects them");
}
