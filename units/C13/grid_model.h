/* C13 memory model (bounded world): DIM-dimensional grid, coordinates range over [-1, W] so that
 * lookups outside the W^DIM window miss.  hash_ (unordered_map<Coord*,Cell*> keyed by coordinate VALUE)
 * is modelled by a direct table over the window -- the assumed finite-map contract: find after insert of
 * an equal key hits, after erase misses, insert does not overwrite, other keys unaffected.
 * Cells are references into per-field maps (Burstall).  The two BinaryHeaps of GridB are replaced by the
 * abstract view proved in C11: a set of members + "top is a minimum"; every handle use asserts the C11
 * precondition (the handle is that heap's handle of a current member). */
#include <stddef.h>
#include <stdbool.h>
#ifndef DIM
#define DIM 2
#endif
#ifndef W
#define W 3
#endif
#if DIM == 1
#define NPOS (W)
#elif DIM == 2
#define NPOS (W * W)
#else
#define NPOS (W * W * W)
#endif
#define NC (NPOS + 2)           /* cell references 1..NC-1; 0 = nullptr */
typedef unsigned CellRef;
#define NULLREF 0u
typedef int Coord[DIM];
int C_coord[NC][DIM]; unsigned C_neighbors[NC]; bool C_border[NC]; int C_data[NC]; unsigned C_heapElement[NC]; bool alive[NC]; CellRef next_ref;
unsigned dimension_, maxNeighbors_, interiorCellNeighborsLimit_; bool hasBounds_; int lowBound_[DIM], upBound_[DIM];
CellRef table[NPOS];
#define REACH(tag) __CPROVER_assert(0, "REACH " tag)
static bool in_window(const int *c) { for (int d = 0; d < DIM; d++) if (c[d] < 0 || c[d] >= W) return 0; return 1; }
static unsigned slot_of(const int *c) { unsigned s = 0; for (int d = 0; d < DIM; d++) s = s * W + (unsigned)c[d]; return s; }
static CellRef HASH_FIND(const int *c) { return in_window(c) ? table[slot_of(c)] : NULLREF; }
static void HASH_ERASE(const int *c) { __CPROVER_assert(in_window(c) && table[slot_of(c)] != NULLREF, "erase of a present key"); table[slot_of(c)] = NULLREF; }
static void HASH_INSERT(const int *c, CellRef cell) { __CPROVER_assert(in_window(c), "model window"); if (table[slot_of(c)] == NULLREF) table[slot_of(c)] = cell; }
static unsigned HASH_SIZE(void) { unsigned n = 0; for (unsigned s = 0; s < NPOS; s++) if (table[s]) n++; return n; }
/* std::vector<Cell*> lists */
#define LMAX (2 * DIM + 4)
typedef struct { CellRef v[LMAX]; size_t size; } CellList;
#define LIST_PUSH(l, c) do { __CPROVER_assert((l)->size < LMAX, "list capacity"); (l)->v[(l)->size++] = (c); } while (0)
static CellRef NEW_Cell(void) { __CPROVER_assert(next_ref < NC, "ref pool"); CellRef r = next_ref++; alive[r] = 1; C_neighbors[r] = 0; C_border[r] = 1; return r; }
#define COPY_COORD(dst, src) do { for (int d_ = 0; d_ < DIM; d_++) (dst)[d_] = (src)[d_]; } while (0)
/* ---- abstract heaps (C11 contract) ---- */
enum { INT_ = 0, EXT_ = 1 };
bool member[2][NC]; bool stale[NC];   /* stale: the cell's priority changed (update event) and its heap was not told yet */
#define HANDLE(h, c) ((unsigned)(c) * 2u + (unsigned)(h) + 16u)
static void HEAP_INSERT(int h, CellRef c) { __CPROVER_assert(c != NULLREF && c < NC && !member[0][c] && !member[1][c], "C13.queues a cell is inserted into a queue only when it is in neither"); member[h][c] = 1; C_heapElement[c] = HANDLE(h, c); stale[c] = 0; }
static void HEAP_REMOVE(int h, unsigned handle) { CellRef c = (handle - 16u) / 2u; __CPROVER_assert(handle >= 16u && c < NC && handle == HANDLE(h, c) && member[h][c], "C13.queues (C11 precondition) remove: the handle is this queue's handle of a current member"); member[h][c] = 0; stale[c] = 0; }
static void HEAP_UPDATE(int h, unsigned handle) { CellRef c = (handle - 16u) / 2u; __CPROVER_assert(handle >= 16u && c < NC && handle == HANDLE(h, c) && member[h][c], "C13.queues (C11 precondition) update: the handle is this queue's handle of a current member"); stale[c] = 0; }
static bool HEAP_EMPTY(int h) { for (CellRef c = 1; c < NC; c++) if (member[h][c]) return 0; return 1; }
static unsigned HEAP_SIZE(int h) { unsigned n = 0; for (CellRef c = 1; c < NC; c++) if (member[h][c]) n++; return n; }
CellRef nondet_ref(void);
static CellRef HEAP_TOP_DATA(int h) { CellRef t = nondet_ref(); __CPROVER_assert(!HEAP_EMPTY(h), "top()->data only on a non-empty queue"); __CPROVER_assume(t >= 1 && t < NC && member[h][t]); for (CellRef c = 1; c < NC; c++) if (member[h][c]) __CPROVER_assume(!(C_data[c] < C_data[t])); return t; }
static void HEAP_REBUILD(int h) { for (CellRef c = 1; c < NC; c++) if (member[h][c]) stale[c] = 0; }
static void HEAP_CLEAR(int h) { for (CellRef c = 1; c < NC; c++) member[h][c] = 0; }
int nondet_int(void);
static void EVENT_UPDATE(CellRef c) { __CPROVER_assert(c != NULLREF && c < NC && alive[c], "update event on a live cell"); C_data[c] = nondet_int(); stale[c] = 1; }
