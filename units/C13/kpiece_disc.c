/* KPIECE's use of the two-queue grid (geometric/planners/kpiece/Discretization.h, control/planners/kpiece/src/KPIECE1.cpp):
 * a cell's queue priority (importance = score / ((neighbors+1) * coverage * selections)) is recomputed only when the grid is told
 * (update / updateAll / add).  Ghost dirty[c]: a priority input of cell c was written after the grid last re-sorted c.
 * Contract of the owners: a queue top is requested only when no cell is dirty; addMotion leaves no cell dirty; selectMotion leaves at most
 * the selected cell dirty (its selection counter -- the planner's expansion step ends with updateCell(that cell)); cells are created,
 * filled, then added (never updated before they are in the grid).
 * Bounded: NC-1 = 4 cells, every subset present, every prior dirty/score state. */
#include <stdbool.h>
#include <stddef.h>
#include <float.h>
#define NC 5
#define NULLREF 0u
#define REACH(msg) __CPROVER_assert(0, "REACH " msg)
typedef unsigned CellRef;
double nondet_double(void); unsigned nondet_unsigned(void); bool nondet_bool(void);
double C_score[NC], C_coverage[NC]; unsigned C_selections[NC], C_iteration[NC], C_nmotions[NC];
bool in_grid[NC], cr_pending[NC], dirty[NC];
unsigned iteration_, size_; CellRef recentCell_; double selectBorderFraction_;
unsigned tops_requested, updates_G; CellRef G;
#define TOUCH(c) do { __CPROVER_assert((c) != NULLREF && (c) < NC && (in_grid[c] || cr_pending[c]), "cell data of a live cell"); if (in_grid[c]) dirty[c] = true; } while (0)
static CellRef GRID_getCell(void) { CellRef c = nondet_unsigned(); __CPROVER_assume(c < NC && (c == NULLREF || in_grid[c])); return c; }
static CellRef GRID_createCell(void) { for (CellRef c = 1; c < NC; c++) if (!in_grid[c] && !cr_pending[c]) { cr_pending[c] = true; dirty[c] = false; C_nmotions[c] = 0; return c; } __CPROVER_assume(0); return NULLREF; }
static void GRID_add(CellRef c) { __CPROVER_assert(c != NULLREF && c < NC && cr_pending[c] && !in_grid[c], "add() of a cell created for this grid and not yet in it"); cr_pending[c] = false; in_grid[c] = true; dirty[c] = false; }
static void GRID_update(CellRef c) { __CPROVER_assert(c != NULLREF && c < NC && in_grid[c], "C13.queues update() of a cell that is in the grid"); dirty[c] = false; if (c == G) updates_G++; }
static void GRID_updateAll(void) { for (CellRef c = 1; c < NC; c++) dirty[c] = false; }
static bool any_dirty(void) { for (CellRef c = 1; c < NC; c++) if (in_grid[c] && dirty[c]) return true; return false; }
static CellRef GRID_top(void)
{
    __CPROVER_assert(!any_dirty(), "C13.queues a queue top is requested only while every cell's priority is up to date");
    tops_requested++; CellRef c = nondet_unsigned(); __CPROVER_assume(c != NULLREF && c < NC && in_grid[c]); return c;
}
#define GRID_topExternal() GRID_top()
#define GRID_topInternal() GRID_top()
static double GRID_fracExternal(void) { double f = nondet_double(); __CPROVER_assume(f >= 0.0 && f <= 1.0); return f; }
static double UNIFORM01(void) { double f = nondet_double(); __CPROVER_assume(f >= 0.0 && f < 1.0); return f; }
static double LOG_(unsigned it) { double f = nondet_double(); __CPROVER_assume(f >= 0.0 && f <= 50.0); return f; }
static int PICK_MOTION(CellRef c) { __CPROVER_assert(c != NULLREF && c < NC && in_grid[c] && C_nmotions[c] > 0, "a motion is drawn from a non-empty cell of the grid"); return (int)c; }
#define MAXD(a, b) ((a) > (b) ? (a) : (b))

unsigned int disc_addMotion(int motion, double dist)
/*@BODY disc_addMotion@*/
void disc_selectMotion(int *smotion_p, CellRef *scell_p)
/*@BODY disc_selectMotion@*/
typedef struct { unsigned steps; } MotionC;
CellRef ck_addMotion(MotionC *motion, double dist)
/*@BODY ck_addMotion@*/
bool ck_selectMotion(int *smotion_p, CellRef *scell_p)
/*@BODY ck_selectMotion@*/

static void any_world(void)
{
    for (CellRef c = 1; c < NC; c++) { cr_pending[c] = false; dirty[c] = false; __CPROVER_assume(!in_grid[c] || (C_nmotions[c] >= 1 && C_nmotions[c] < 1000 && C_selections[c] >= 1 && C_selections[c] < 1000000 && C_coverage[c] >= 1.0 && C_coverage[c] <= 1e9 && C_score[c] >= 0.0 && C_score[c] <= 1e9)); }
    in_grid[0] = false; cr_pending[0] = false; dirty[0] = false; __CPROVER_assume(G != NULLREF && G < NC); __CPROVER_assume(size_ < 1000000 && iteration_ >= 1);
    tops_requested = 0; updates_G = 0;
}
static void check_clean(CellRef except)
{
    for (CellRef c = 1; c < NC; c++) if (c != except) __CPROVER_assert(!(in_grid[c] && dirty[c]), "C13.queues every changed priority was re-sorted before returning");
    for (CellRef c = 1; c < NC; c++) __CPROVER_assert(!cr_pending[c], "C13.cells a created cell is added to the grid before returning");
}
void h_disc_addMotion(void)
{
    any_world(); double dist = nondet_double(); __CPROVER_assume(dist >= 0.0 && dist <= 1e6); unsigned n0 = size_;
    unsigned r = disc_addMotion(7, dist);
    check_clean(NULLREF); __CPROVER_assert(size_ == n0 + 1 && r <= 1, "the motion is counted once");
    if (r) { __CPROVER_assert(recentCell_ != NULLREF && in_grid[recentCell_] && C_nmotions[recentCell_] == 1 && C_selections[recentCell_] == 1 && C_coverage[recentCell_] == 1.0, "a new cell starts with one motion, coverage 1, one selection"); REACH("new cell"); }
    else REACH("existing cell");
}
void h_disc_selectMotion(void)
{
    any_world(); __CPROVER_assume(in_grid[1]); int m; CellRef sc = NULLREF;
    unsigned sel0 = C_selections[G];
    disc_selectMotion(&m, &sc);
    __CPROVER_assert(sc != NULLREF && in_grid[sc] && tops_requested == 1, "the selected cell is a queue top");
    check_clean(sc);
    __CPROVER_assert(C_selections[G] == sel0 + (G == sc ? 1u : 0u), "only the selected cell's selection counter advances, by one");
    if (C_score[sc] > 2.0) REACH("selected"); 
}
void h_ck_addMotion(void)
{
    any_world(); double dist = nondet_double(); __CPROVER_assume(dist >= 0.0 && dist <= 1e6); MotionC mo; __CPROVER_assume(mo.steps >= 1 && mo.steps < 1000); unsigned n0 = size_;
    CellRef c = ck_addMotion(&mo, dist);
    check_clean(NULLREF); __CPROVER_assert(size_ == n0 + 1 && c != NULLREF && in_grid[c], "the motion is counted once and its cell is in the grid");
    if (C_nmotions[c] == 1) REACH("new cell"); else REACH("existing cell");
}
void h_ck_selectMotion(void)
{
    any_world(); __CPROVER_assume(in_grid[1]); int m; CellRef sc = NULLREF;
    bool ok = ck_selectMotion(&m, &sc);
    __CPROVER_assert(sc != NULLREF && in_grid[sc] && tops_requested == 1, "the selected cell is a queue top");
    check_clean(sc);
    if (ok) REACH("selected");
}
