/* C13 -- Grid::neighbors(Coord&, CellArray&), UNBOUNDED in the dimension (loop contract, ghost dimensions G and H != G): for every dimension G the map is probed at
 * exactly coord - e_G and coord + e_G (every other coordinate H at its original value during those probes), each probe that finds a cell appends exactly that
 * cell, nothing else is appended for G, and the probe coordinate is restored.  Hence the reported neighbours are exactly the present cells that differ by one in a
 * single dimension.  The hash map is a stub (finite-map contract relative to the ghost coordinates).  Dimension <= 64. */
#include <stdbool.h>
#include <stddef.h>
#define DMAX 64
#define NULLREF 0u
#define REACH(msg) __CPROVER_assert(0, "REACH " msg)
typedef unsigned CellRef;
int dimension_; int coord[DMAX]; int G, H; int C0_G, C0_H;
CellRef CELL_GM, CELL_GP;                 /* what the map holds at coord - e_G / coord + e_G (NULLREF: no cell) */
bool probed_gm, probed_gp, others_ok; unsigned probes_at_G; unsigned list_n; unsigned pushed_for_G; bool pushed_gm, pushed_gp; CellRef last_found; bool last_found_is_gm, last_found_is_gp;
CellRef HASH_FIND(const int *c)
__CPROVER_requires(c == coord)
__CPROVER_assigns(probed_gm, probed_gp, others_ok, probes_at_G, last_found, last_found_is_gm, last_found_is_gp)
__CPROVER_ensures(coord[G] == C0_G - 1 ? (probed_gm && last_found_is_gm && !last_found_is_gp && __CPROVER_return_value == CELL_GM && probes_at_G == __CPROVER_old(probes_at_G) + 1 && others_ok == (__CPROVER_old(others_ok) && coord[H] == C0_H)) :
                  (coord[G] == C0_G + 1 ? (probed_gp && last_found_is_gp && !last_found_is_gm && __CPROVER_return_value == CELL_GP && probes_at_G == __CPROVER_old(probes_at_G) + 1 && others_ok == (__CPROVER_old(others_ok) && coord[H] == C0_H)) :
                   (!last_found_is_gm && !last_found_is_gp && probes_at_G == __CPROVER_old(probes_at_G) && others_ok == __CPROVER_old(others_ok))))
__CPROVER_ensures(coord[G] != C0_G - 1 ==> probed_gm == __CPROVER_old(probed_gm))
__CPROVER_ensures(coord[G] != C0_G + 1 ==> probed_gp == __CPROVER_old(probed_gp))
__CPROVER_ensures(last_found == __CPROVER_return_value);
void LIST_PUSH(CellRef c)
__CPROVER_requires(c != NULLREF && c == last_found && list_n < 0x7fffffffu)
__CPROVER_assigns(list_n, pushed_gm, pushed_gp, pushed_for_G)
__CPROVER_ensures(list_n == __CPROVER_old(list_n) + 1)
__CPROVER_ensures(pushed_gm == (__CPROVER_old(pushed_gm) || last_found_is_gm) && pushed_gp == (__CPROVER_old(pushed_gp) || last_found_is_gp))
__CPROVER_ensures(pushed_for_G == __CPROVER_old(pushed_for_G) + ((last_found_is_gm || last_found_is_gp) ? 1u : 0u));
unsigned LIST0;
void grid_neighbors(void)
__CPROVER_requires(dimension_ >= 1 && dimension_ <= DMAX && G >= 0 && G < dimension_ && H >= 0 && H < dimension_ && H != G)
__CPROVER_requires(coord[G] == C0_G && coord[H] == C0_H && C0_G > -1000000 && C0_G < 1000000)
__CPROVER_requires(!probed_gm && !probed_gp && others_ok && probes_at_G == 0 && pushed_for_G == 0 && !pushed_gm && !pushed_gp && list_n == LIST0 && LIST0 < 1000)
__CPROVER_assigns(__CPROVER_object_whole(coord), probed_gm, probed_gp, others_ok, probes_at_G, last_found, last_found_is_gm, last_found_is_gp, list_n, pushed_gm, pushed_gp, pushed_for_G)
__CPROVER_ensures(coord[G] == C0_G && coord[H] == C0_H)                                              /* C13.nbr the probe coordinate is restored */
__CPROVER_ensures(probed_gm && probed_gp && probes_at_G == 2 && others_ok)                           /* exactly the two cells at distance one along G are looked up */
__CPROVER_ensures(pushed_gm == (CELL_GM != NULLREF) && pushed_gp == (CELL_GP != NULLREF))            /* a present neighbour along G is reported, an absent one is not */
__CPROVER_ensures(pushed_for_G == (CELL_GM != NULLREF ? 1u : 0u) + (CELL_GP != NULLREF ? 1u : 0u))   /* ... exactly once */
__CPROVER_ensures(list_n >= LIST0 && list_n <= LIST0 + 2u * (unsigned)dimension_)                     /* at most two entries per dimension are appended */
/*@BODY neighbors@*/
void harness(void) { grid_neighbors(); if (CELL_GM != NULLREF && CELL_GP == NULLREF) REACH("one neighbour along G"); if (dimension_ > 40 && G == 17) REACH("high dimension"); }
