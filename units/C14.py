"""C14 -- Dubins / Reeds-Shepp distances are lengths of real, optimal curves (reduced scope: selection logic only; the trigonometry is out of reach)."""
PROPERTY = "C14"
LEVEL = "proof"
DUB = "src/ompl/base/spaces/src/DubinsStateSpace.cpp"
FLAGS = ["--bounds-check", "--pointer-check"]
D_RULES = [
    (r"return \{DubinsStateSpace::dubinsPathType\(\)\[0\], 0, d, 0\};", "return MAKE_ZERO(d);", 0),
    (r"DubinsStateSpace::DubinsPath path\(dubins(\w\w\w)\(d, alpha, beta\)\), tmp\(dubins(\w\w\w)\(d, alpha, beta\)\);", r"int path = W(\1_ID), tmp = W(\2_ID);", 0),
    (r"dubins([LSR]{3})\(d, alpha, beta\)", r"W(\1_ID)", 0), (r"\b(path|tmp)\.length\(\)", r"LEN(\1)", 0),
    (r"dubins\((\w+), (\w+), radius\)\.length\(\)", r"DLEN(\1, \2, radius)", 0), (r"std::min\(", "FMIN(", 0), (r"return radius \* (.+);", r"return RTIMES(radius, \1);", 0),
]
I_RULES = [
    (r"DubinsPath path2\(dubins\(to, from\)\);", "DPath path2 = DUBINS(to, from);", 1), (r"path = dubins\(from, to\);", "*path = DUBINS(from, to);", 1),
    (r"path2\.length\(\) < path\.length\(\)", "path2.len < path->len", 1), (r"path = path2;", "*path = path2;", 1),
    (r"firstTime = false;", "*firstTime = false;", 1), (r"if \(firstTime\)", "if (*firstTime)", 1), (r"interpolate\(from, path, t, state, rho_\);", "INTERP_PATH(from, path, t, state, rho_);", 1),
]
SRC = [
    dict(name="dubinsExhaustive", file=DUB, sig=r"DubinsStateSpace::DubinsPath dubinsExhaustive\(const double d, const double alpha, const double beta\)", rules=D_RULES, loops={}),
    dict(name="dub_distance", file=DUB, sig=r"double DubinsStateSpace::distance\(const State \*state1, const State \*state2, double radius\)", rules=D_RULES, loops={}),
    dict(name="dub_symmetricDistance", file=DUB, sig=r"double DubinsStateSpace::symmetricDistance\(const State \*state1, const State \*state2, double radius\)", rules=D_RULES, loops={}),
    dict(name="dub_interpolate", file=DUB, sig=r"void DubinsStateSpace::interpolate\(const State \*from, const State \*to, const double t, bool &firstTime,\s*DubinsPath &path, State \*state\) const", rules=I_RULES, loops={}),
]
UNITS = [
    dict(name="c14_dubinsExhaustive", template="C14/dubins_select.c", mode="plain", entry="h_exhaustive", sources=SRC, needs=["dubinsExhaustive"], flags=FLAGS, unwind=9, backend="minisat", timeout=300, level="proof",
         functions=["dubinsExhaustive (DubinsStateSpace.cpp)"], canaries=[dict(name="running_minimum_not_updated", where="body:dubinsExhaustive", rx=r"minLength = len;", repl="", count=1), dict(name="last_word_dropped", where="body:dubinsExhaustive", rx=r"tmp = W\(LRL_ID\);", repl="")]),
    dict(name="c14_dubins_distance", template="C14/dubins_select.c", mode="plain", entry="h_distance", sources=SRC, needs=["dub_distance", "dub_symmetricDistance"], flags=FLAGS, unwind=9, backend="minisat", timeout=300, level="proof",
         functions=["ompl::base::DubinsStateSpace::distance(s1, s2, radius)", "ompl::base::DubinsStateSpace::symmetricDistance"], canaries=[dict(name="one_direction_twice", where="body:dub_symmetricDistance", rx=r"DLEN\(state2, state1, radius\)", repl="DLEN(state1, state2, radius)")]),
    dict(name="c14_dubins_interpolate_cached", template="C14/dubins_select.c", mode="plain", entry="h_interpolate", sources=SRC, needs=["dub_interpolate"], flags=FLAGS, unwind=9, backend="minisat", timeout=300, level="proof",
         functions=["ompl::base::DubinsStateSpace::interpolate(from, to, t, firstTime, path, state)"], canaries=[dict(name="reverse_flag_forgotten", where="body:dub_interpolate", rx=r"path2\.reverse_ = true;", repl=""), dict(name="end_pose_not_copied", where="body:dub_interpolate", rx=r"copyState\(state, to\);", repl="")]),
]
# ---- Reeds-Shepp: running minimum inside the five word families, and reedsShepp() ----
RS = "src/ompl/base/spaces/src/ReedsSheppStateSpace.cpp"
RS_RULES = [
    (r"path\.length\(\) - \.5 \* pi", "PATH_LEN_LESS(1)", 0), (r"path\.length\(\) - pi", "PATH_LEN_LESS(2)", 0), (r"path\.length\(\)", "PATH_LEN_LESS(0)", 0),
    (r"double xb = [^;]+;", "double xb = 0, yb = 0;", 0),
    (r"\bLp\w+\([^;{}()]*?t, u, v\)", "SOLVE()", 0), (r"\(L = fabs\(t\) \+ (?:2\. \* )?fabs\(u\) \+ fabs\(v\)\)", "(L = CAND_LEN())", 0),
    (r"path =\s*ReedsSheppStateSpace::ReedsSheppPath\(ReedsSheppStateSpace::reedsSheppPathType\[(\d+)\],[^;]*\);", r"CHOOSE(\1);", 0),
]
RSM_RULES = [(r"ReedsSheppStateSpace::ReedsSheppPath path;", "int path = path_obj;", 1), (r"\bCSC\(x, y, phi, path\);", "FAM(0, path);", 1), (r"\bCCC\(x, y, phi, path\);", "FAM(1, path);", 1),
             (r"\bCCCC\(x, y, phi, path\);", "FAM(2, path);", 1), (r"\bCCSC\(x, y, phi, path\);", "FAM(3, path);", 1), (r"\bCCSCC\(x, y, phi, path\);", "FAM(4, path);", 1)]
RS_SRC = [dict(name="rs_" + f, file=RS, sig=r"\n    void %s\(double x, double y, double phi, ReedsSheppStateSpace::ReedsSheppPath &path\)" % f, rules=RS_RULES, loops={}) for f in ("CSC", "CCC", "CCCC", "CCSC", "CCSCC")]
RS_SRC.append(dict(name="rs_reedsShepp", file=RS, sig=r"ReedsSheppStateSpace::ReedsSheppPath reedsShepp\(double x, double y, double phi\)", rules=RSM_RULES, loops={}))
for f, n, q in (("CSC", 8, 0), ("CCC", 8, 0), ("CCCC", 8, 0), ("CCSC", 16, 1), ("CCSCC", 4, 2)):
    UNITS.append(dict(name="c14_rs_family_" + f, template="C14/rs_select.c", mode="plain", entry="h_family", sources=RS_SRC, needs=["rs_" + f], defines={"FAMILY": "rs_" + f, "EXPECT": n, "QUARTERS": q}, flags=FLAGS, unwind=18, backend="minisat", timeout=300,
                      level="proof", functions=["%s (ReedsSheppStateSpace.cpp)" % f], canaries=[dict(name="running_minimum_not_updated", where="body:rs_" + f, rx=r"Lmin = L;", repl="", count=1)]))
UNITS.append(dict(name="c14_rs_reedsShepp", template="C14/rs_select.c", mode="plain", entry="h_reedsShepp", sources=RS_SRC, needs=["rs_reedsShepp"], flags=FLAGS, unwind=18, backend="minisat", timeout=300, level="proof",
                  functions=["reedsShepp(x, y, phi) (ReedsSheppStateSpace.cpp)"], canaries=[dict(name="family_skipped", where="body:rs_reedsShepp", rx=r"FAM\(2, path\);", repl="")]))

# ---- dispatcher dubins(d, alpha, beta); Reeds-Shepp cached interpolate and distance ----
X_RULES = [(r"return \{DubinsStateSpace::dubinsPathType\(\)\[0\], 0, d, 0\};", "return MAKE_ZERO(d);", 1), (r"\bmod2pi\(", "MOD2PI(", 1),
           (r"isLongPath\(d, alpha, beta\) \? ::dubinsClassification\(d, alpha, beta\) : ::dubinsExhaustive\(d, alpha, beta\)", "IS_LONG(d, alpha, beta) ? CLASSIFY(d, alpha, beta) : EXHAUST(d, alpha, beta)", 0),
           (r"::dubinsClassification\(", "CLASSIFY(", 0), (r"::dubinsExhaustive\(", "EXHAUST(", 0), (r"\bisLongPath\(", "IS_LONG(", 0)]
RI_RULES = [(r"path = reedsShepp\(from, to\);", "*path = RS_PATH(from, to);", 1), (r"firstTime = false;", "*firstTime = false;", 1), (r"if \(firstTime\)", "if (*firstTime)", 1),
            (r"interpolate\(from, path, t, state\);", "INTERP_PATH(from, path, t, state, rho_);", 1)]
RD_RULES = [(r"reedsShepp\((\w+), (\w+)\)\.length\(\)", r"RSLEN(\1, \2)", 1), (r"return rho_ \* (.+);", r"return RTIMES(rho_, \1);", 1)]
SRC += [
    dict(name="dub_dispatch", file=DUB, sig=r"\nDubinsStateSpace::DubinsPath dubins\(double d, double alpha, double beta\)", rules=X_RULES, loops={}),
    dict(name="rs_interpolate", file=RS, sig=r"void ompl::base::ReedsSheppStateSpace::interpolate\(const State \*from, const State \*to, const double t, bool &firstTime,\s*ReedsSheppPath &path, State \*state\) const", rules=RI_RULES, loops={}),
    dict(name="rs_distance", file=RS, sig=r"double ompl::base::ReedsSheppStateSpace::distance\(const State \*state1, const State \*state2\) const", rules=RD_RULES, loops={}),
]
for h, need, fn, can in (("dispatch", "dub_dispatch", "dubins(d, alpha, beta) (DubinsStateSpace.cpp)", [dict(name="exhaustive_for_long_paths", where="body:dub_dispatch", rx=r"IS_LONG\(d, alpha, beta\) \?", repl="!IS_LONG(d, alpha, beta) ?")]),
                          ("rs_interpolate", "rs_interpolate", "ompl::base::ReedsSheppStateSpace::interpolate(from, to, t, firstTime, path, state)", [dict(name="end_pose_not_copied", where="body:rs_interpolate", rx=r"copyState\(state, to\);", repl="")]),
                          ("rs_distance", "rs_distance", "ompl::base::ReedsSheppStateSpace::distance", [dict(name="reverse_direction", where="body:rs_distance", rx=r"RSLEN\(state1, state2\)", repl="RSLEN(state2, state1)")])):
    UNITS.append(dict(name="c14_" + h, template="C14/dubins_select.c", mode="plain", entry="h_" + h, sources=SRC, needs=[need], flags=FLAGS, unwind=9, backend="minisat", timeout=300, level="proof", functions=[fn], canaries=can))

# ---- the segment walk of DubinsStateSpace::interpolate(from, path, t, state, radius) ----
W_RULES = [
    (r"auto \*s = allocState\(\)->as<StateType>\(\);", "int s = ALLOC_STATE();", 1), (r"double seg = t \* path\.length\(\), phi, v;", "double seg = TLEN(t), phi, v;", 1),
    (r"s->setXY\(0\., 0\.\);", "SET_ORIGIN();", 1), (r"s->setYaw\(from->as<StateType>\(\)->getYaw\(\)\);", "SET_YAW_FROM();", 1), (r"path\.reverse_", "P_REV", 1),
    (r"path\.length_\[", "P_LEN[", 2), (r"std::min\(", "FMIN(", 2), (r"phi = s->getYaw\(\);", "phi = GET_YAW();", 2),
    (r"seg -= v;(\s*)switch \(path\.type_->at\(([^)]+)\)\)", r"seg -= v;\1switch (TYPE_AT(\2, v, seg))", 2),
    (r"s->setXY\(s->getX\(\) ([+-]) sin\(phi ([+-]) v\) [+-] sin\(phi\), s->getY\(\) [+-] cos\(phi [+-] v\) [+-] cos\(phi\)\);\s*s->setYaw\(phi ([+-]) v\);", r"TURN('\1', '\2', '\3', v);", 4),
    (r"s->setXY\(s->getX\(\) ([+-]) v \* cos\(phi\), s->getY\(\) ([+-]) v \* sin\(phi\)\);", r"STRAIGHT('\1', '\2', v);", 2),
    (r"state->as<StateType>\(\)->setX\(s->getX\(\) \* radius \+ from->as<StateType>\(\)->getX\(\)\);", "OUT_X();", 1), (r"state->as<StateType>\(\)->setY\(s->getY\(\) \* radius \+ from->as<StateType>\(\)->getY\(\)\);", "OUT_Y();", 1),
    (r"getSubspace\(1\)->enforceBounds\(s->as<SO2StateSpace::StateType>\(1\)\);", "ENFORCE_YAW();", 1), (r"state->as<StateType>\(\)->setYaw\(s->getYaw\(\)\);", "OUT_YAW();", 1), (r"freeState\(s\);", "FREE_STATE(s);", 1),
    (r"(\n\s*)\}(\s*)\}(\s*)\}(\s*)else", r"\1} NOTE(v, seg);\2}\3}\4else", 1), (r"(\n\s*)\}(\s*)\}(\s*)\}(\s*)OUT_X", r"\1} NOTE(v, seg);\2}\3}\4OUT_X", 1),
]
WALK_SRC = [dict(name="dub_walk", file=DUB, sig=r"void DubinsStateSpace::interpolate\(const State \*from, const DubinsPath &path, double t, State \*state,\s*double radius\) const", rules=W_RULES, loops={"allow_uncontracted": True})]
UNITS.append(dict(name="c14_dubins_segment_walk", template="C14/dubins_walk.c", mode="plain", entry="h_walk", sources=WALK_SRC, flags=FLAGS, unwind=5, backend="minisat", timeout=300, level="proof",
                  functions=["ompl::base::DubinsStateSpace::interpolate(from, path, t, state, radius)"],
                  canaries=[dict(name="remaining_not_reduced", where="body:dub_walk", rx=r"seg -= v;", repl="", count=1), dict(name="reversed_word_walked_forwards", where="body:dub_walk", rx=r"P_LEN\[2 - i\]", repl="P_LEN[i]"),
                            dict(name="heading_written_before_enforceBounds", where="body:dub_walk", rx=r"ENFORCE_YAW\(\);(\s*)OUT_YAW\(\);", repl=r"OUT_YAW();\1ENFORCE_YAW();")]))

# ---- the segment walk of ReedsSheppStateSpace::interpolate(from, path, t, state) ----
RW_RULES = [
    (r"auto \*s = allocState\(\)->as<StateType>\(\);", "int s = ALLOC_STATE();", 1), (r"double seg = t \* path\.length\(\), phi, v;", "double seg = TLEN(t), phi, v;", 1),
    (r"s->setXY\(0\., 0\.\);", "SET_ORIGIN();", 1), (r"s->setYaw\(from->as<StateType>\(\)->getYaw\(\)\);", "SET_YAW_FROM();", 1),
    (r"path\.length_\[", "P_LEN[", 3), (r"std::min\(", "FMIN(", 1), (r"std::max\(", "FMAX(", 1), (r"phi = s->getYaw\(\);", "phi = GET_YAW();", 1),
    (r"switch \(path\.type_\[i\]\)", "switch (TYPE_AT(i, v, seg))", 1),
    (r"s->setXY\(s->getX\(\) ([+-]) sin\(phi ([+-]) v\) [+-] sin\(phi\), s->getY\(\) [+-] cos\(phi [+-] v\) [+-] cos\(phi\)\);\s*s->setYaw\(phi ([+-]) v\);", r"TURN('\1', '\2', '\3', v);", 2),
    (r"s->setXY\(s->getX\(\) ([+-]) v \* cos\(phi\), s->getY\(\) ([+-]) v \* sin\(phi\)\);", r"STRAIGHT('\1', '\2', v);", 1),
    (r"state->as<StateType>\(\)->setX\(s->getX\(\) \* rho_ \+ from->as<StateType>\(\)->getX\(\)\);", "OUT_X();", 1), (r"state->as<StateType>\(\)->setY\(s->getY\(\) \* rho_ \+ from->as<StateType>\(\)->getY\(\)\);", "OUT_Y();", 1),
    (r"getSubspace\(1\)->enforceBounds\(s->as<SO2StateSpace::StateType>\(1\)\);", "ENFORCE_YAW();", 1), (r"state->as<StateType>\(\)->setYaw\(s->getYaw\(\)\);", "OUT_YAW();", 1), (r"freeState\(s\);", "FREE_STATE(s);", 1),
]
RWALK_SRC = [dict(name="rs_walk", file=RS, sig=r"void ompl::base::ReedsSheppStateSpace::interpolate\(const State \*from, const ReedsSheppPath &path, double t,\s*State \*state\) const", rules=RW_RULES, loops={"allow_uncontracted": True})]
UNITS.append(dict(name="c14_rs_segment_walk", template="C14/rs_walk.c", mode="plain", entry="h_rs_walk", sources=RWALK_SRC, flags=FLAGS, unwind=7, backend="minisat", timeout=300, level="proof",
                  functions=["ompl::base::ReedsSheppStateSpace::interpolate(from, path, t, state)"],
                  canaries=[dict(name="reversing_segment_not_consumed", where="body:rs_walk", rx=r"seg \+= v;", repl=""), dict(name="backward_step_unclamped", where="body:rs_walk", rx=r"v = FMAX\(-seg, P_LEN\[i\]\);", repl="v = P_LEN[i];")]))

# ---- the quadrant table getDubinsClass ----
C_RULES = [(r"assert\((?:[^;])*?\);", "", 3), (r"\(DubinsClass\)", "(int)", 1), (r"int row\(0\), column\(0\);", "int row = 0, column = 0;", 1)]
CLASS_SRC = [dict(name="getDubinsClass", file=DUB, sig=r"DubinsClass getDubinsClass\(const double alpha, const double beta\)", rules=C_RULES, loops={})]
UNITS.append(dict(name="c14_getDubinsClass", template="C14/dubins_class.c", mode="plain", entry="h_class", sources=CLASS_SRC, flags=FLAGS, unwind=3, backend="minisat", timeout=300, level="proof",
                  functions=["getDubinsClass (DubinsStateSpace.cpp)"], canaries=[dict(name="boundary_in_no_quadrant", where="body:getDubinsClass", rx=r"halfpi < alpha && alpha <= onepi", repl="halfpi < alpha && alpha < onepi"),
                                                                                 dict(name="rows_and_columns_swapped", where="body:getDubinsClass", rx=r"\(column - 1\) \+ 4 \* \(row - 1\)\);", repl="(row - 1) + 4 * (column - 1));")]))

ASSUMPTIONS = ["onepi / halfpi / twopi are the doubles nearest to pi, pi/2, 2 pi (as boost::math::constants yields)", "Reeds-Shepp candidate lengths range over 8-bit ranks: the families only compare lengths, so every configuration of non-NaN lengths is order-isomorphic to one of these (WLOG, not machine-checked)", "the Reeds-Shepp families enumerate 8 + 8 + 8 + 16 + 4 = 44 candidate words (count taken from the construction: words x timeflip/reflect, CCC and CCSC also backwards)", "word lengths are non-NaN doubles ('no solution' is a huge finite length, as the word solvers return)", "radius * x is a trusted external operation (recorded)", "DUBINS_EPS = 1e-6 as in the source"]
TRUSTED = ["extraction rewrite table of units/C14.py", "stubs in units/C14/*.c", "CBMC 6.11 + minisat"]
NOT_COVERED = ["every trigonometric clause: the six word solvers, the classification tables for long paths (dubinsClassification), mod2pi, curve integration in interpolate, 'ends exactly at the target pose' for 0 < t < 1 ... t -> 1, arc length = reported distance, distance >= straight line, Reeds-Shepp <= Dubins, prefix optimality",
               "Reeds-Shepp word formulas and interpolation"]
NATIVE = [dict(name="kf_rs_prefix_witness", driver="native/c14_native_curves.cpp", link_ompl=True, unit_cpps=[], args=["kf_rs_prefix"], known_id="rs-prefix-suboptimal"),
          dict(name="c14_native_curves", driver="native/c14_native_curves.cpp", link_ompl=True, unit_cpps=[], args=lambda tier, seed: ["grid", "16" if tier == "quick" else "48"], timeout=600),
          dict(name="c14_native_table_vs_exhaustive", driver="native/c14_native.cpp", link_ompl=True, unit_cpps=[], args=lambda tier, seed: ["grid", "96" if tier == "quick" else "400"], timeout=300)]
