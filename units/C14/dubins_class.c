/* C14 (reduced scope) -- getDubinsClass(alpha, beta): the 4 x 4 quadrant table that selects the classification case for long paths is TOTAL on [0, 2pi]^2 (with
 * NDEBUG the asserts are gone: a heading that fell between two quadrant tests would yield a class outside 0..15), monotone in each heading, hits all 16 classes,
 * and a quadrant boundary belongs to the lower quadrant.  Loop-free, every pair of doubles in range.  (Which WORD each class selects is trigonometry: not covered.) */
#include <stdbool.h>
#include <stddef.h>
#define REACH(msg) __CPROVER_assert(0, "REACH " msg)
static const double onepi = 3.14159265358979323846, halfpi = 1.57079632679489661923, twopi = 6.28318530717958647692;
int getDubinsClass(const double alpha, const double beta)
/*@BODY getDubinsClass@*/
void h_class(void)
{
    double a1, b1, a2, b2; __CPROVER_assume(a1 >= 0.0 && a1 <= twopi && b1 >= 0.0 && b1 <= twopi && a2 >= 0.0 && a2 <= twopi && b2 >= 0.0 && b2 <= twopi);
    int c1 = getDubinsClass(a1, b1), c2 = getDubinsClass(a2, b2);
    __CPROVER_assert(c1 >= 0 && c1 <= 15, "C14.table every pair of headings in [0, 2pi] has a class (no gap between the quadrant tests)");
    int r1 = c1 / 4, k1 = c1 % 4, r2 = c2 / 4, k2 = c2 % 4;
    __CPROVER_assert(!(a1 <= a2) || r1 <= r2, "C14.table the row is monotone in the start heading");
    __CPROVER_assert(!(b1 <= b2) || k1 <= k2, "C14.table the column is monotone in the goal heading");
    __CPROVER_assert(!(a1 == a2) || r1 == r2, "the row depends on the start heading only");
    __CPROVER_assert((a1 <= halfpi) == (r1 == 0) && (a1 > 3 * halfpi) == (r1 == 3) && (b1 <= halfpi) == (k1 == 0) && (b1 > onepi && b1 <= 3 * halfpi) == (k1 == 2), "C14.table quadrant boundaries belong to the lower quadrant");
    if (c1 == 0) REACH("A11"); if (c1 == 15) REACH("A44"); if (c1 == 6) REACH("A23"); if (a1 == halfpi && b1 == onepi) REACH("both headings on a boundary");
}
