/* C14 (reduced scope: the SELECTION logic only -- every trigonometric identity of the property is out of reach, see DESIGN.md section 7).
 *  dubinsExhaustive: all six canonical words are solved, the word returned is one of them and none of the six is shorter (lengths arbitrary non-NaN doubles,
 *     "no solution" being a huge length); the degenerate zero path only for d < eps and |alpha - beta| < eps, and its straight part is d.
 *  DubinsStateSpace::distance / symmetricDistance: radius times the length of the curve from state1 to state2, resp. times the smaller of the two directions.
 *  DubinsStateSpace::interpolate(from, to, t, firstTime, path, state): t >= 1 yields exactly `to`, t <= 0 exactly `from` (no self-copy); otherwise the curve
 *     interpolated is dubins(from, to), or for the symmetrised space the strictly shorter reverse curve marked as reversed; firstTime is cleared.
 * Words are ids, lengths ghost doubles; loop-free, full double domain. */
#include <stdbool.h>
#include <stddef.h>
#define REACH(msg) __CPROVER_assert(0, "REACH " msg)
bool nondet_bool(void); double nondet_double(void); int nondet_int(void);
#define DUBINS_EPS 1e-6
#define fabs(x) ((x) < 0 ? -(x) : (x))
enum { ZERO_PATH = 0, LSL_ID = 1, RSR_ID, RSL_ID, LSR_ID, RLR_ID, LRL_ID, NW };
double WLEN[NW]; unsigned solved[NW]; double zero_straight;
static int W(int id) { solved[id]++; return id; }
static double LEN(int p) { return WLEN[p]; }
static int MAKE_ZERO(double s) { zero_straight = s; return ZERO_PATH; }
int dubinsExhaustive(const double d, const double alpha, const double beta)
/*@BODY dubinsExhaustive@*/
/* ---- distance ---- */
enum { S1 = 1, S2 = 2 };
double DL12, DL21; unsigned q12, q21, qother; double mul_r, mul_x; double PROD;
static double DLEN(int a, int b, double r) { if (a == S1 && b == S2) { q12++; return DL12; } if (a == S2 && b == S1) { q21++; return DL21; } qother++; return 0.0; }
static double RTIMES(double r, double x) { mul_r = r; mul_x = x; return PROD; }
static double FMIN(double a, double b) { return b < a ? b : a; }
double dub_distance(int state1, int state2, double radius)
/*@BODY dub_distance@*/
double dub_symmetricDistance(int state1, int state2, double radius)
/*@BODY dub_symmetricDistance@*/
/* ---- cached interpolate ---- */
enum { O_FROM = 1, O_TO = 2, O_OUT = 3 };
bool isSymmetric_; double rho_; int copies; int copy_dst, copy_src; bool self_copy; int path_used; bool path_rev_used; double t_used; int from_used; unsigned interp_calls;
typedef struct { int id; bool reverse_; double len; } DPath;
double PLEN_FWD, PLEN_REV;
static DPath DUBINS(int a, int b) { DPath p; p.reverse_ = false; if (a == O_FROM && b == O_TO) { p.id = 1; p.len = PLEN_FWD; } else if (a == O_TO && b == O_FROM) { p.id = 2; p.len = PLEN_REV; } else { p.id = 99; p.len = 0; } return p; }
static void copyState(int dst, int src) { copies++; copy_dst = dst; copy_src = src; if (dst == src) self_copy = true; }
static void INTERP_PATH(int from, DPath *p, double t, int state, double r) { interp_calls++; path_used = p->id; path_rev_used = p->reverse_; t_used = t; from_used = from; __CPROVER_assert(r == rho_ && (state == O_OUT || state == O_FROM || state == O_TO), "radius and output passed on"); }
void dub_interpolate(const int from, const int to, const double t, bool *firstTime, DPath *path, int state)
/*@BODY dub_interpolate@*/

/* ---- dubins(d, alpha, beta): the dispatcher ---- */
double A_IN, B_IN, A_N, B_N; unsigned mod_calls; bool LONG; int solver_used; double sd, sa, sb;
static double MOD2PI(double x) { mod_calls++; if (x == A_IN) return A_N; if (x == B_IN) return B_N; return x; }
static bool IS_LONG(double d, double a, double b) { __CPROVER_assert(a == A_N && b == B_N, "the long-path test sees the normalised angles"); return LONG; }
static int CLASSIFY(double d, double a, double b) { solver_used = 1; sd = d; sa = a; sb = b; return 11; }
static int EXHAUST(double d, double a, double b) { solver_used = 2; sd = d; sa = a; sb = b; return 12; }
int dub_dispatch(double d, double alpha, double beta)
/*@BODY dub_dispatch@*/
/* ---- Reeds-Shepp: cached interpolate and distance ---- */
static DPath RS_PATH(int a, int b) { DPath p; p.reverse_ = false; if (a == O_FROM && b == O_TO) { p.id = 1; p.len = PLEN_FWD; } else { p.id = 99; p.len = 0; } return p; }
void rs_interpolate(const int from, const int to, const double t, bool *firstTime, DPath *path, int state)
/*@BODY rs_interpolate@*/
static double RSLEN(int a, int b) { if (a == S1 && b == S2) { q12++; return DL12; } qother++; return 0.0; }
double rs_distance(int state1, int state2)
/*@BODY rs_distance@*/
void h_dispatch(void)
{
    double d; __CPROVER_assume(d == d && d >= 0.0 && A_IN == A_IN && B_IN == B_IN && A_N == A_N && B_N == B_N && A_IN != B_IN && A_IN != A_N && A_IN != B_N && B_IN != A_N && B_IN != B_N);
    mod_calls = 0; solver_used = 0;
    int r = dub_dispatch(d, A_IN, B_IN);
    if (r == ZERO_PATH) { __CPROVER_assert(d < DUBINS_EPS && fabs(A_IN - B_IN) < DUBINS_EPS && zero_straight == d && solver_used == 0, "zero path only for coincident poses"); REACH("degenerate"); }
    else { __CPROVER_assert(mod_calls == 2 && sd == d && sa == A_N && sb == B_N, "both headings are normalised before a word is chosen; the distance is passed on unchanged");
           __CPROVER_assert(solver_used == (LONG ? 1 : 2) && r == (LONG ? 11 : 12), "C14.six short paths enumerate all six words (exhaustive); only long paths use the classification table"); if (LONG) REACH("long"); else REACH("short"); }
}
void h_rs_interpolate(void)
{
    double t; __CPROVER_assume(t == t && PLEN_FWD == PLEN_FWD && rho_ > 0.0); bool first = true; DPath path; path.id = 0; path.reverse_ = false; path.len = 0;
    int state = nondet_int(); __CPROVER_assume(state == O_OUT || state == O_FROM || state == O_TO); copies = 0; self_copy = false; interp_calls = 0;
    rs_interpolate(O_FROM, O_TO, t, &first, &path, state);
    __CPROVER_assert(!self_copy, "no state is copied onto itself");
    if (t >= 1.) { __CPROVER_assert(interp_calls == 0 && (state == O_TO ? copies == 0 : (copies == 1 && copy_dst == state && copy_src == O_TO)), "C14.end at t >= 1 the result is exactly the target pose"); REACH("t=1"); }
    else if (t <= 0.) { __CPROVER_assert(interp_calls == 0 && (state == O_FROM ? copies == 0 : (copies == 1 && copy_dst == state && copy_src == O_FROM)), "at t <= 0 the result is exactly the start pose"); REACH("t=0"); }
    else { __CPROVER_assert(interp_calls == 1 && copies == 0 && !first && from_used == O_FROM && t_used == t && path_used == 1 && path.id == 1, "the curve followed is reedsShepp(from, to), from the start pose, at the requested t; the cache flag is cleared"); REACH("interior"); }
}
void h_rs_distance(void)
{
    __CPROVER_assume(rho_ == rho_ && DL12 == DL12 && PROD == PROD); q12 = q21 = qother = 0;
    double x = rs_distance(S1, S2);
    __CPROVER_assert(x == PROD && mul_r == rho_ && mul_x == DL12 && q12 == 1 && qother == 0, "C14.length Reeds-Shepp distance = turning radius x length of the curve from state1 to state2"); REACH("distance");
}

void h_exhaustive(void)
{
    double d, a, b; __CPROVER_assume(d == d && a == a && b == b && d >= 0.0);
    for (int i = 0; i < NW; i++) { solved[i] = 0; __CPROVER_assume(WLEN[i] == WLEN[i]); }
    int r = dubinsExhaustive(d, a, b);
    if (r == ZERO_PATH) { __CPROVER_assert(d < DUBINS_EPS && fabs(a - b) < DUBINS_EPS && zero_straight == d, "the zero path only for coincident poses; its straight part is d"); REACH("degenerate"); }
    else {
        int g = nondet_int(); __CPROVER_assume(g >= LSL_ID && g <= LRL_ID);
        __CPROVER_assert(r >= LSL_ID && r <= LRL_ID && solved[g] == 1, "C14.six every one of the six canonical words is solved once; the result is one of them");
        __CPROVER_assert(WLEN[r] <= WLEN[g], "C14.shortest no canonical word is shorter than the one returned");
        if (r == LRL_ID) REACH("last word wins"); if (r == LSL_ID) REACH("first word stays"); if (r == LSR_ID) REACH("middle word wins");
    }
}
void h_distance(void)
{
    double r; __CPROVER_assume(r == r && DL12 == DL12 && DL21 == DL21 && PROD == PROD); q12 = q21 = qother = 0;
    if (nondet_bool()) { double x = dub_distance(S1, S2, r); __CPROVER_assert(x == PROD && mul_r == r && mul_x == DL12 && q12 == 1 && q21 == 0 && qother == 0, "C14.length distance = radius x length of the curve from state1 to state2"); REACH("directed"); }
    else { double x = dub_symmetricDistance(S1, S2, r); __CPROVER_assert(x == PROD && mul_r == r && mul_x == (DL21 < DL12 ? DL21 : DL12) && q12 == 1 && q21 == 1 && qother == 0, "C14.symmetric symmetrised distance = radius x the shorter of the two directions"); REACH("symmetric"); }
}
void h_interpolate(void)
{
    double t; __CPROVER_assume(t == t && PLEN_FWD == PLEN_FWD && PLEN_REV == PLEN_REV && rho_ > 0.0); bool first = true; DPath path; path.id = 0; path.reverse_ = false; path.len = 0;
    int state = nondet_int(); __CPROVER_assume(state == O_OUT || state == O_FROM || state == O_TO); copies = 0; self_copy = false; interp_calls = 0;
    dub_interpolate(O_FROM, O_TO, t, &first, &path, state);
    __CPROVER_assert(!self_copy, "no state is copied onto itself");
    if (t >= 1.) { __CPROVER_assert(interp_calls == 0 && (state == O_TO ? copies == 0 : (copies == 1 && copy_dst == state && copy_src == O_TO)), "C14.end at t >= 1 the result is exactly the target pose"); REACH("t=1"); }
    else if (t <= 0.) { __CPROVER_assert(interp_calls == 0 && (state == O_FROM ? copies == 0 : (copies == 1 && copy_dst == state && copy_src == O_FROM)), "at t <= 0 the result is exactly the start pose"); REACH("t=0"); }
    else {
        bool rev = isSymmetric_ && PLEN_REV < PLEN_FWD;
        __CPROVER_assert(interp_calls == 1 && copies == 0 && !first && from_used == O_FROM && t_used == t, "one curve interpolation, from the start pose, at the requested t; the cache flag is cleared");
        __CPROVER_assert(path_used == (rev ? 2 : 1) && !path_rev_used == !rev && path.id == path_used, "C14.symmetric the curve followed is dubins(from,to), or the strictly shorter reverse curve marked as reversed (symmetrised space)");
        if (rev) REACH("reverse curve"); else REACH("forward curve");
    }
}
