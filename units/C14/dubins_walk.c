/* C14 (reduced scope) -- DubinsStateSpace::interpolate(from, path, t, state, radius): the WALK along the three segments of a given word; the trigonometry of each
 * step is a recording stub.  Checked, for every word (types, non-negative segment lengths, reverse flag) and every consumed length seg0 = t * length >= 0:
 *  - segments are visited in order 0,1,2 (2,1,0 for a reversed word); segment k gets v = min(remaining, length_k); a later segment is entered only after the
 *    earlier one was consumed completely, and nothing is visited once the remaining length is 0  (=> the arc length walked is the prefix of length seg0);
 *  - a LEFT step turns the heading by +v (by -v on a reversed word), a RIGHT step by -v (+v reversed), with the same signed angle in the position update and in
 *    the heading update; a STRAIGHT step moves along +heading (against it on a reversed word);
 *  - the result is written once: x, y scaled by the radius and offset by the start, heading only after enforceBounds; the scratch state is freed once.
 * Only the x-part of the arc formulas and both parts of the straight formula are matched sign by sign; the y-part signs of the arcs are not checked. */
#include <stdbool.h>
#include <stddef.h>
#define REACH(msg) __CPROVER_assert(0, "REACH " msg)
bool nondet_bool(void); double nondet_double(void); int nondet_int(void);
enum { DUBINS_LEFT = 0, DUBINS_STRAIGHT = 1, DUBINS_RIGHT = 2 };
bool P_REV; double P_LEN[3]; int P_TYPE[3]; double SEG0;
int visits; int vis_idx[4]; double vis_v[4]; double vis_rem[4]; bool sign_ok; bool origin_set, yaw_from_set; int allocs, frees, outx, outy, outyaw; bool enforced_before_out; bool enforced; int cur_case;
static int ALLOC_STATE(void) { allocs++; return 5; }
static void FREE_STATE(int s) { __CPROVER_assert(s == 5, "the scratch state"); frees++; }
static double TLEN(double t) { return SEG0; }
static void SET_ORIGIN(void) { origin_set = true; }
static void SET_YAW_FROM(void) { yaw_from_set = true; }
static double GET_YAW(void) { return 0.25; }
static double FMIN(double a, double b) { return b < a ? b : a; }
static int TYPE_AT(int k, double v, double rem_before) { __CPROVER_assert(k >= 0 && k < 3 && visits < 3, "segment index / at most three steps"); vis_idx[visits] = k; cur_case = P_TYPE[k]; return P_TYPE[k]; }
static void NOTE(double v, double seg_after) { vis_v[visits] = v; vis_rem[visits] = seg_after; visits++; }
static void TURN(char sx, char sv, char syaw, double v) { bool left = (cur_case == DUBINS_LEFT); if (cur_case == DUBINS_STRAIGHT) sign_ok = false; if ((sx == '+') != left) sign_ok = false; if (sv != syaw) sign_ok = false; if ((sv == '+') != (left != P_REV)) sign_ok = false; }
static void STRAIGHT(char sx, char sy, double v) { if (cur_case != DUBINS_STRAIGHT) sign_ok = false; if (sx != sy) sign_ok = false; if ((sx == '+') == P_REV) sign_ok = false; }
static void OUT_X(void) { outx++; } static void OUT_Y(void) { outy++; }
static void ENFORCE_YAW(void) { enforced = true; }
static void OUT_YAW(void) { outyaw++; enforced_before_out = enforced; }
void dub_walk(double t, double radius)
/*@BODY dub_walk@*/
void h_walk(void)
{
    double t, r; __CPROVER_assume(SEG0 >= 0.0); P_REV = nondet_bool();
    for (int k = 0; k < 3; k++) { __CPROVER_assume(P_LEN[k] >= 0.0 && P_TYPE[k] >= 0 && P_TYPE[k] <= 2); }
    visits = 0; sign_ok = true; origin_set = yaw_from_set = enforced = enforced_before_out = false; allocs = frees = outx = outy = outyaw = 0;
    dub_walk(t, r);
    __CPROVER_assert(origin_set && yaw_from_set && allocs == 1 && frees == 1 && outx == 1 && outy == 1 && outyaw == 1 && enforced_before_out, "the result is written once, heading only after enforceBounds; scratch state freed once");
    __CPROVER_assert(sign_ok, "C14.model each step follows the vehicle model: LEFT/RIGHT arcs with the same signed angle in position and heading, mirrored on a reversed word; straight steps along the heading");
    __CPROVER_assert(visits == 3 || SEG0 <= 0.0 || (visits > 0 && !(vis_rem[visits - 1] > 0.0)), "C14.prefix the walk stops early only when nothing remains");
    if (visits == 3 && P_REV) REACH("whole reversed word"); if (visits == 1) REACH("inside the first segment"); if (visits == 0) REACH("t = 0"); if (visits == 2 && !P_REV) REACH("inside the second segment");
    int g = nondet_int(); __CPROVER_assume(g >= 0 && g < visits);
    __CPROVER_assert(vis_idx[g] == (P_REV ? 2 - g : g), "C14.model segments are walked in the word's order (backwards for a reversed word)");
    double rem_before = (g == 0) ? SEG0 : vis_rem[g - 1];
    __CPROVER_assert(rem_before > 0.0 && vis_v[g] == (rem_before < P_LEN[vis_idx[g]] ? rem_before : P_LEN[vis_idx[g]]), "C14.prefix a step consumes min(remaining, segment length), and only while something remains");
    __CPROVER_assert(g + 1 >= visits || vis_v[g] == P_LEN[vis_idx[g]], "C14.prefix a later segment is entered only after the earlier one was consumed completely");
}
