/* C14 (reduced scope: SELECTION logic) -- the five Reeds-Shepp word families CSC, CCC, CCCC, CCSC, CCSCC and reedsShepp().
 * Each family solves its candidate words (a word x timeflip/reflect symmetries, some also backwards) and replaces the incumbent path whenever a candidate exists
 * and is strictly shorter.  Word formulas are stubs: candidate k exists or not (EXISTS[k]) and has an arbitrary non-NaN length CLEN[k]; the incumbent's length
 * (minus the fixed quarter turns of the family) is L0.  Proved: the family enumerates the expected number of candidates (8, 8, 8, 16, 4: 44 in total), and what it
 * leaves is the first shortest existing candidate if that beats the incumbent, else the incumbent.  reedsShepp(): starts from the empty path and runs the five
 * families in sequence on the same path.  Loop-free, all lengths. */
#include <stdbool.h>
#include <stddef.h>
#define REACH(msg) __CPROVER_assert(0, "REACH " msg)
#define MAXC 16
bool nondet_bool(void); double nondet_double(void); int nondet_int(void);
bool EXISTS[MAXC]; double CLEN[MAXC]; double L0; int ncand, cur, chosen; int less_arg; unsigned plen_calls; int chosen_type;
static double pi = 3.14159265358979323846;
static double PATH_LEN_LESS(int quarter_turns) { plen_calls++; less_arg = quarter_turns; return L0; }
static bool SOLVE(void) { __CPROVER_assert(ncand < MAXC, "model capacity"); cur = ncand++; return EXISTS[cur]; }
static double CAND_LEN(void) { return CLEN[cur]; }
static void CHOOSE(int type) { chosen = cur; chosen_type = type; }
void rs_CSC(double x, double y, double phi)
/*@BODY rs_CSC@*/
void rs_CCC(double x, double y, double phi)
/*@BODY rs_CCC@*/
void rs_CCCC(double x, double y, double phi)
/*@BODY rs_CCCC@*/
void rs_CCSC(double x, double y, double phi)
/*@BODY rs_CCSC@*/
void rs_CCSCC(double x, double y, double phi)
/*@BODY rs_CCSCC@*/
int fam_calls[5]; int fam_order; bool same_path; int path_obj;
static void FAM(int f, int pathobj) { if (f != fam_order) same_path = false; fam_order++; fam_calls[f]++; if (pathobj != path_obj) same_path = false; }
int rs_reedsShepp(double x, double y, double phi)
/*@BODY rs_reedsShepp@*/
#ifndef FAMILY
#define FAMILY rs_CSC
#define EXPECT 8
#define QUARTERS 0
#endif
void h_family(void)
{
    double x, y, phi;
    /* the family only COMPARES lengths, so any configuration of non-NaN lengths is order-isomorphic to one over 8-bit ranks (17 values, ties included) */
    unsigned char RK0 = (unsigned char)nondet_int(); L0 = (double)RK0; for (int i = 0; i < MAXC; i++) { unsigned char rk = (unsigned char)nondet_int(); CLEN[i] = (double)rk; }
    ncand = 0; chosen = -1; plen_calls = 0;
    FAMILY(x, y, phi);
    __CPROVER_assert(ncand == EXPECT && plen_calls == 1 && less_arg == QUARTERS, "C14.words the family enumerates all its candidate words; the incumbent is compared net of the family's fixed quarter turns");
    int g = nondet_int(); __CPROVER_assume(g >= 0 && g < ncand);
    if (chosen >= 0) {
        __CPROVER_assert(EXISTS[chosen] && CLEN[chosen] < L0, "C14.shortest the incumbent is replaced only by an existing, strictly shorter word");
        __CPROVER_assert(!EXISTS[g] || CLEN[chosen] <= CLEN[g], "C14.shortest no existing candidate of the family is shorter than the one kept");
        if (chosen == EXPECT - 1) REACH("last candidate wins"); if (chosen == 0) REACH("first candidate wins");
    } else { __CPROVER_assert(!EXISTS[g] || !(CLEN[g] < L0), "C14.shortest the incumbent stays only if no existing candidate is shorter"); REACH("incumbent stays"); }
}
void h_reedsShepp(void)
{
    double x, y, phi; for (int i = 0; i < 5; i++) fam_calls[i] = 0; fam_order = 0; same_path = true; path_obj = 7;
    int r = rs_reedsShepp(x, y, phi);
    __CPROVER_assert(fam_calls[0] == 1 && fam_calls[1] == 1 && fam_calls[2] == 1 && fam_calls[3] == 1 && fam_calls[4] == 1 && same_path && r == path_obj, "C14.words all five families improve one and the same path, which is returned");
    REACH("five families");
}
