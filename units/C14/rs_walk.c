/* C14 (reduced scope) -- ReedsSheppStateSpace::interpolate(from, path, t, state): the WALK along the (up to five) signed segments of a given word; the
 * trigonometry of each step is a recording stub.  Checked for every word (types incl. NOP, signed lengths: negative = driven backwards) and every seg0 = t*length >= 0:
 *  - segments are visited in order; segment k gets a step of the segment's own sign and of magnitude min(remaining, |length_k|); a later segment is entered only
 *    after the earlier one was consumed completely; nothing is visited once nothing remains (=> the arc length walked is the prefix of length seg0);
 *  - a LEFT step turns the heading by +v, a RIGHT step by -v (v signed), with the same signed angle in the position and the heading update; STRAIGHT moves by v along
 *    the heading; NOP moves nothing;
 *  - the result is written once (x, y scaled by rho_ and offset by the start; heading only after enforceBounds); the scratch state is freed once.
 * As for Dubins, the y-part signs of the arc formulas are not checked. */
#include <stdbool.h>
#include <stddef.h>
#define REACH(msg) __CPROVER_assert(0, "REACH " msg)
bool nondet_bool(void); double nondet_double(void); int nondet_int(void);
enum { RS_NOP = 0, RS_LEFT = 1, RS_STRAIGHT = 2, RS_RIGHT = 3 };
double P_LEN[5]; int P_TYPE[5]; double SEG0;
int visits; int vis_idx[6]; double vis_v[6]; double vis_rem[6]; bool sign_ok; bool origin_set, yaw_from_set; int allocs, frees, outx, outy, outyaw; bool enforced_before_out, enforced; int cur_case; int moves;
static int ALLOC_STATE(void) { allocs++; return 5; }
static void FREE_STATE(int s) { __CPROVER_assert(s == 5, "the scratch state"); frees++; }
static double TLEN(double t) { return SEG0; }
static void SET_ORIGIN(void) { origin_set = true; }
static void SET_YAW_FROM(void) { yaw_from_set = true; }
static double GET_YAW(void) { return 0.25; }
static double FMIN(double a, double b) { return b < a ? b : a; }
static double FMAX(double a, double b) { return a < b ? b : a; }
static int TYPE_AT(int k, double v, double seg_after) { __CPROVER_assert(k >= 0 && k < 5 && visits < 5, "segment index / at most five steps"); vis_idx[visits] = k; vis_v[visits] = v; vis_rem[visits] = seg_after; visits++; cur_case = P_TYPE[k]; moves = 0; return P_TYPE[k]; }
static void TURN(char sx, char sv, char syaw, double v) { moves++; if (cur_case != RS_LEFT && cur_case != RS_RIGHT) sign_ok = false; if ((sx == '+') != (cur_case == RS_LEFT)) sign_ok = false; if (sv != syaw) sign_ok = false; if ((sv == '+') != (cur_case == RS_LEFT)) sign_ok = false; }
static void STRAIGHT(char sx, char sy, double v) { moves++; if (cur_case != RS_STRAIGHT) sign_ok = false; if (sx != '+' || sy != '+') sign_ok = false; }
static void OUT_X(void) { outx++; } static void OUT_Y(void) { outy++; }
static void ENFORCE_YAW(void) { enforced = true; }
static void OUT_YAW(void) { outyaw++; enforced_before_out = enforced; }
double rho_;
void rs_walk(double t)
/*@BODY rs_walk@*/
void h_rs_walk(void)
{
    double t; __CPROVER_assume(SEG0 >= 0.0);
    for (int k = 0; k < 5; k++) { __CPROVER_assume(P_LEN[k] == P_LEN[k] && P_TYPE[k] >= 0 && P_TYPE[k] <= 3); }
    visits = 0; sign_ok = true; origin_set = yaw_from_set = enforced = enforced_before_out = false; allocs = frees = outx = outy = outyaw = 0;
    rs_walk(t);
    __CPROVER_assert(origin_set && yaw_from_set && allocs == 1 && frees == 1 && outx == 1 && outy == 1 && outyaw == 1 && enforced_before_out, "the result is written once, heading only after enforceBounds; scratch state freed once");
    __CPROVER_assert(sign_ok, "C14.model each step follows the vehicle model: LEFT/RIGHT arcs with the same signed angle in position and heading, straight steps along the heading");
    __CPROVER_assert(visits == 5 || SEG0 <= 0.0 || (visits > 0 && !(vis_rem[visits - 1] > 0.0)), "C14.prefix the walk stops early only when nothing remains");
    if (visits == 5) REACH("whole word"); if (visits == 1) REACH("inside the first segment"); if (visits == 0) REACH("t = 0"); if (visits == 2 && P_LEN[1] < 0) REACH("inside a reversing segment");
    int g = nondet_int(); __CPROVER_assume(g >= 0 && g < visits);
    double rem_before = (g == 0) ? SEG0 : vis_rem[g - 1]; double len = P_LEN[vis_idx[g]]; double alen = len < 0 ? -len : len; double av = vis_v[g] < 0 ? -vis_v[g] : vis_v[g];
    __CPROVER_assert(vis_idx[g] == g, "C14.model segments are walked in the word's order");
    __CPROVER_assert(rem_before > 0.0 && av == (rem_before < alen ? rem_before : alen) && (vis_v[g] == 0.0 || (vis_v[g] < 0) == (len < 0)), "C14.prefix a step has the segment's sign (reversals only where the word has them) and consumes min(remaining, |segment length|)");
    __CPROVER_assert(g + 1 >= visits || vis_v[g] == len, "C14.prefix a later segment is entered only after the earlier one was consumed completely");
}
