"""C15 -- informed sampling returns only states that can still help (reduced scope: the acceptance logic of the samplers; the geometry is not covered)."""
PROPERTY = "C15"
LEVEL = "proof"
RJ = "src/ompl/base/samplers/informed/src/RejectionInfSampler.cpp"
PL = "src/ompl/base/samplers/informed/src/PathLengthDirectInfSampler.cpp"
FLAGS = ["--bounds-check", "--pointer-check", "--unsigned-overflow-check"]
R = [
    (r"InformedSampler::numIters_", "numIters_", 0), (r"baseSampler_->sampleUniform\(statePtr\);", "BASE_SAMPLE();", 0),
    (r"InformedSampler::opt_->isCostBetterThan\(InformedSampler::heuristicSolnCost\(statePtr\), maxCost\)", "BETTER_H_MAX(HEUR(), maxCost)", 0),
    (r"Cost sampledCost = (?:InformedSampler::)?heuristicSolnCost\(statePtr\);", "double sampledCost = HEUR();", 0),
    (r"InformedSampler::opt_->isCostEquivalentTo\(minCost, sampledCost\) \|\|\s*InformedSampler::opt_->isCostBetterThan\(minCost, sampledCost\)", "NOT_BELOW_MIN(minCost, sampledCost)", 0),
    (r"!InformedSampler::opt_->isFinite\(maxCost\)", "!FINITE_MAX", 0), (r"updatePhsDefinitions\(maxCost\);", "", 0),
    (r"informedSubSpace_->getMeasure\(\) < summedMeasure_ / static_cast<double>\(listPhsPtrs_\.size\(\)\)", "LARGE_MEASURE", 0),
    (r"sampleBoundsRejectPhs\(statePtr, iters\)", "pl_boundsRejectPhs(iters)", 0), (r"samplePhsRejectBounds\(statePtr, iters\)", "pl_phsRejectBounds(iters)", 0),
    (r"std::vector<double> informedVector = getInformedSubstate\(statePtr\);", "", 0), (r"isInAnyPhs\(informedVector\)", "IN_ANY_PHS()", 0),
    (r"std::vector<double> informedVector\(informedSubSpace_->getDimension\(\)\);", "", 0), (r"ProlateHyperspheroidCPtr phsCPtr = randomPhsPtr\(\);", "", 0),
    (r"rng_\.uniformProlateHyperspheroid\(phsCPtr, &informedVector\[0\]\);", "PHS_SAMPLE();", 0), (r"keepSample\(informedVector\)", "KEEP_SAMPLE()", 0), (r"createFullState\(statePtr, informedVector\);", "CREATE_FULL_STATE();", 0),
    (r"InformedSampler::space_->satisfiesBounds\(statePtr\)", "SAT_BOUNDS()", 0),
]
SRC = [
    dict(name="rej_helper", file=RJ, sig=r"bool RejectionInfSampler::sampleUniform\(State \*statePtr, const Cost &maxCost, unsigned int \*iterPtr\)", rules=R, loops={"allow_uncontracted": True}),
    dict(name="rej_minmax", file=RJ, sig=r"bool RejectionInfSampler::sampleUniform\(State \*statePtr, const Cost &minCost, const Cost &maxCost\)", rules=[(r"sampleUniform\(statePtr, maxCost, &i\)", "rej_helper(maxCost, &i)", 0)] + R, loops={"allow_uncontracted": True}),
    dict(name="pl_boundsRejectPhs", file=PL, sig=r"bool PathLengthDirectInfSampler::sampleBoundsRejectPhs\(State \*statePtr, unsigned int \*iters\)", rules=R, loops={"allow_uncontracted": True}),
    dict(name="pl_phsRejectBounds", file=PL, sig=r"bool PathLengthDirectInfSampler::samplePhsRejectBounds\(State \*statePtr, unsigned int \*iters\)", rules=R, loops={"allow_uncontracted": True}),
    dict(name="pl_helper", file=PL, sig=r"bool PathLengthDirectInfSampler::sampleUniform\(State \*statePtr, const Cost &maxCost, unsigned int \*iters\)", rules=R, loops={}),
    dict(name="pl_minmax", file=PL, sig=r"bool PathLengthDirectInfSampler::sampleUniform\(State \*statePtr, const Cost &minCost, const Cost &maxCost\)", rules=[(r"sampleUniform\(statePtr, maxCost, &i\)", "pl_helper(maxCost, &i)", 0)] + R, loops={"allow_uncontracted": True}),
]
UNITS = []
for h, needs, fn, can in (
        ("rej_helper", ["rej_helper"], "RejectionInfSampler::sampleUniform(state, maxCost, iters)", [dict(name="bound_not_strict", where="body:rej_helper", rx=r"BETTER_H_MAX\(HEUR\(\), maxCost\)", repl="(BETTER_H_MAX(HEUR(), maxCost) || HEUR() == maxCost)")]),
        ("rej_minmax", ["rej_helper", "rej_minmax"], "RejectionInfSampler::sampleUniform(state, minCost, maxCost)", [dict(name="lower_bound_ignored", where="body:rej_minmax", rx=r"foundSample = NOT_BELOW_MIN\(minCost, sampledCost\);", repl="NOT_BELOW_MIN(minCost, sampledCost);")]),
        ("pl_boundsRejectPhs", ["pl_boundsRejectPhs"], "PathLengthDirectInfSampler::sampleBoundsRejectPhs", [dict(name="membership_of_the_previous_sample", where="body:pl_boundsRejectPhs", rx=r"BASE_SAMPLE\(\);(.*?)foundSample = IN_ANY_PHS\(\);", repl=r"foundSample = IN_ANY_PHS(); BASE_SAMPLE();\1")]),
        ("pl_phsRejectBounds", ["pl_phsRejectBounds"], "PathLengthDirectInfSampler::samplePhsRejectBounds", [dict(name="bounds_not_checked", where="body:pl_phsRejectBounds", rx=r"foundSample = SAT_BOUNDS\(\);", repl="SAT_BOUNDS();")]),
        ("pl_helper", ["pl_boundsRejectPhs", "pl_phsRejectBounds", "pl_helper"], "PathLengthDirectInfSampler::sampleUniform(state, maxCost, iters)", [dict(name="success_without_sampling", where="body:pl_helper", rx=r"foundSample = pl_phsRejectBounds\(iters\);", repl="foundSample = true;")]),
        ("pl_minmax", ["pl_boundsRejectPhs", "pl_phsRejectBounds", "pl_helper", "pl_minmax"], "PathLengthDirectInfSampler::sampleUniform(state, minCost, maxCost)", [dict(name="lower_bound_ignored", where="body:pl_minmax", rx=r"foundSample = NOT_BELOW_MIN\(minCost, sampledCost\);", repl="NOT_BELOW_MIN(minCost, sampledCost);")])):
    UNITS.append(dict(name="c15_" + h, template="C15/informed.c", mode="plain", entry="h_" + h, sources=SRC, needs=needs, flags=FLAGS, unwind=10, level="bounded", bound="numIters_ <= 3", backend="minisat", timeout=300, functions=["ompl::base::" + fn], canaries=can))
ASSUMPTIONS = ["the base state sampler yields states within the space bounds (its own contract: C08)", "membership in a prolate hyperspheroid of transverse diameter c is equivalent to a heuristic path-length cost below c (geometry, trusted)",
               "costs are non-NaN doubles compared by the minimising order", "numIters_ <= 10^9 and fewer than 10^9 earlier draws (32-bit counters do not wrap)"]
TRUSTED = ["extraction rewrite table of units/C15.py", "stub contracts in units/C15/informed_unb.c and stubs in units/C15/informed.c", "CBMC 6.11 (goto-instrument DFCC) + minisat"]
NOT_COVERED = ["the prolate-hyperspheroid transform (unit sphere surface -> summed focal distance = c), the analytic measure, uniformity of the samples, 'no improving state is excluded' (Eigen linear algebra, transcendental formulas, a distributional claim)",
               "OrderedInfSampler, InformedStateSampler's fallback to the base sampler, keepSample's 1/K rule, ProlateHyperspheroid.cpp, GeometricEquations.cpp"]
NATIVE = []

# ---- the same loops, UNBOUNDED in numIters_ (DFCC: loop contracts, stubs and callees replaced by their contracts) ----
_G = "ver, draws, cur_cost, cur_inphs, cur_inb, base_sample_last"
_CNT = ("*%(p)s <= numIters_ && *%(p)s >= __CPROVER_loop_entry(*%(p)s) && draws >= __CPROVER_loop_entry(draws) && *%(p)s - __CPROVER_loop_entry(*%(p)s) == draws - __CPROVER_loop_entry(draws) && ver >= __CPROVER_loop_entry(ver)"
        " && ver - __CPROVER_loop_entry(ver) <= draws - __CPROVER_loop_entry(draws)")
L_REJ = """
__CPROVER_assigns(*iterPtr, foundSample, %s, cost_tested_ver)
__CPROVER_loop_invariant(%s)
__CPROVER_loop_invariant(foundSample ==> (cost_tested_ver == ver && cur_cost < maxCost && *iterPtr > __CPROVER_loop_entry(*iterPtr)))
__CPROVER_decreases(numIters_ - *iterPtr)
""" % (_G, _CNT % dict(p="iterPtr"))
L_BRP = """
__CPROVER_assigns(*iters, foundSample, %s, phs_tested_ver)
__CPROVER_loop_invariant(%s)
__CPROVER_loop_invariant(foundSample ==> (base_sample_last && phs_tested_ver == ver && cur_inphs && *iters > __CPROVER_loop_entry(*iters)))
__CPROVER_decreases(numIters_ - *iters + (foundSample ? 0 : 1))
""" % (_G, _CNT % dict(p="iters"))
L_PRB = """
__CPROVER_assigns(*iters, foundSample, %s, kept_last, bounds_tested_ver)
__CPROVER_loop_invariant(%s)
__CPROVER_loop_invariant(foundSample ==> (!base_sample_last && kept_last && bounds_tested_ver == ver && cur_inb && *iters > __CPROVER_loop_entry(*iters)))
__CPROVER_decreases(numIters_ - *iters + (foundSample ? 0 : 1))
""" % (_G, _CNT % dict(p="iters"))
_MM = ("i <= numIters_ + 1 && draws >= __CPROVER_loop_entry(draws) && draws - __CPROVER_loop_entry(draws) <= i && draws - __CPROVER_loop_entry(draws) <= numIters_ && ver >= __CPROVER_loop_entry(ver)"
       " && ver - __CPROVER_loop_entry(ver) <= draws - __CPROVER_loop_entry(draws)")
L_RMM = """
__CPROVER_assigns(i, foundSample, %s, cost_tested_ver, lower_tested_ver)
__CPROVER_loop_invariant(%s)
__CPROVER_loop_invariant(foundSample ==> (cost_tested_ver == ver && lower_tested_ver == ver && cur_cost < maxCost && !(cur_cost < minCost)))
__CPROVER_decreases(numIters_ + 1 - i)
""" % (_G, _MM)
L_PMM = """
__CPROVER_assigns(i, foundSample, %s, kept_last, bounds_tested_ver, phs_tested_ver, lower_tested_ver)
__CPROVER_loop_invariant(%s)
__CPROVER_loop_invariant(foundSample ==> (lower_tested_ver == ver && !(cur_cost < minCost)))
__CPROVER_loop_invariant((foundSample && FINITE_MAX) ==> ((base_sample_last && phs_tested_ver == ver && cur_inphs) || (!base_sample_last && bounds_tested_ver == ver && cur_inb)))
__CPROVER_decreases(numIters_ + 1 - i)
""" % (_G, _MM)
def _with(loops):
    out = []
    for s in SRC:
        s = dict(s); s["loops"] = {1: loops[s["name"]]} if s["name"] in loops else {}; out.append(s)
    return out
SRC_U = _with(dict(rej_helper=L_REJ, rej_minmax=L_RMM, pl_boundsRejectPhs=L_BRP, pl_phsRejectBounds=L_PRB, pl_minmax=L_PMM))
STUBS = ["BASE_SAMPLE", "PHS_SAMPLE", "CREATE_FULL_STATE", "HEUR", "BETTER_H_MAX", "NOT_BELOW_MIN", "IN_ANY_PHS", "KEEP_SAMPLE", "SAT_BOUNDS"]
UFLAGS = FLAGS + ["--object-bits", "12"]
for h, callees, fn, can in (
        ("rej_helper", [], "RejectionInfSampler::sampleUniform(state, maxCost, iters)", [dict(name="bound_not_strict", where="body:rej_helper", rx=r"BETTER_H_MAX\(HEUR\(\), maxCost\)", repl="(BETTER_H_MAX(HEUR(), maxCost) || HEUR() == maxCost)")]),
        ("rej_minmax", ["rej_helper"], "RejectionInfSampler::sampleUniform(state, minCost, maxCost)", [dict(name="lower_bound_ignored", where="body:rej_minmax", rx=r"foundSample = NOT_BELOW_MIN\(minCost, sampledCost\);", repl="NOT_BELOW_MIN(minCost, sampledCost);")]),
        ("pl_boundsRejectPhs", [], "PathLengthDirectInfSampler::sampleBoundsRejectPhs", [dict(name="membership_of_the_previous_sample", where="body:pl_boundsRejectPhs", rx=r"BASE_SAMPLE\(\);(.*?)foundSample = IN_ANY_PHS\(\);", repl=r"foundSample = IN_ANY_PHS(); BASE_SAMPLE();\1")]),
        ("pl_phsRejectBounds", [], "PathLengthDirectInfSampler::samplePhsRejectBounds", [dict(name="bounds_not_checked", where="body:pl_phsRejectBounds", rx=r"foundSample = SAT_BOUNDS\(\);", repl="SAT_BOUNDS();")]),
        ("pl_helper", ["pl_boundsRejectPhs", "pl_phsRejectBounds"], "PathLengthDirectInfSampler::sampleUniform(state, maxCost, iters)", [dict(name="success_without_sampling", where="body:pl_helper", rx=r"foundSample = pl_phsRejectBounds\(iters\);", repl="foundSample = true;")]),
        ("pl_minmax", ["pl_helper"], "PathLengthDirectInfSampler::sampleUniform(state, minCost, maxCost)", [dict(name="lower_bound_ignored", where="body:pl_minmax", rx=r"foundSample = NOT_BELOW_MIN\(minCost, sampledCost\);", repl="NOT_BELOW_MIN(minCost, sampledCost);")])):
    nloops = 0 if h == "pl_helper" else 1
    UNITS.append(dict(name="c15_" + h + "_unbounded", template="C15/informed_unb.c", entry="h_" + h, sources=SRC_U, enforce=[h], replace=STUBS + callees, flags=UFLAGS, level="proof",
                      bound="numIters_ <= 10^9, unbounded in the loop", backend="minisat", timeout=300, expect_loops=nloops, functions=["ompl::base::" + fn], canaries=can))
