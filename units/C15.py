"""C15 -- informed sampling returns only states that can still help (reduced scope: the acceptance logic of the samplers; the geometry is not covered)."""
PROPERTY = "C15"
LEVEL = "model_checking"
RJ = "src/ompl/base/samplers/informed/src/RejectionInfSampler.cpp"
PL = "src/ompl/base/samplers/informed/src/PathLengthDirectInfSampler.cpp"
FLAGS = ["--bounds-check", "--pointer-check", "--unsigned-overflow-check"]
R = [
    (r"InformedSampler::numIters_", "numIters_", 0), (r"baseSampler_->sampleUniform\(statePtr\);", "BASE_SAMPLE();", 0),
    (r"InformedSampler::opt_->isCostBetterThan\(InformedSampler::heuristicSolnCost\(statePtr\), maxCost\)", "BETTER_H_MAX(HEUR(), maxCost)", 0),
    (r"Cost sampledCost = (?:InformedSampler::)?heuristicSolnCost\(statePtr\);", "double sampledCost = HEUR();", 0),
    (r"InformedSampler::opt_->isCostEquivalentTo\(minCost, sampledCost\) \|\|\s*InformedSampler::opt_->isCostBetterThan\(minCost, sampledCost\)", "NOT_BELOW_MIN(minCost, sampledCost)", 0),
    (r"!InformedSampler::opt_->isFinite\(maxCost\)", "!FINITE_MAX", 0), (r"updatePhsDefinitions\(maxCost\);", "", 0),
    (r"informedSubSpace_->getMeasure\(\) < summedMeasure_ / static_cast<double>\(listPhsPtrs_\.size\(\)\)", "LARGE_MEASURE", 0),
    (r"sampleBoundsRejectPhs\(statePtr, iters\)", "pl_boundsRejectPhs(iters)", 0), (r"samplePhsRejectBounds\(statePtr, iters\)", "pl_phsRejectBounds(iters)", 0),
    (r"std::vector<double> informedVector = getInformedSubstate\(statePtr\);", "", 0), (r"isInAnyPhs\(informedVector\)", "IN_ANY_PHS()", 0),
    (r"std::vector<double> informedVector\(informedSubSpace_->getDimension\(\)\);", "", 0), (r"ProlateHyperspheroidCPtr phsCPtr = randomPhsPtr\(\);", "", 0),
    (r"rng_\.uniformProlateHyperspheroid\(phsCPtr, &informedVector\[0\]\);", "PHS_SAMPLE();", 0), (r"keepSample\(informedVector\)", "KEEP_SAMPLE()", 0), (r"createFullState\(statePtr, informedVector\);", "CREATE_FULL_STATE();", 0),
    (r"InformedSampler::space_->satisfiesBounds\(statePtr\)", "SAT_BOUNDS()", 0),
]
SRC = [
    dict(name="rej_helper", file=RJ, sig=r"bool RejectionInfSampler::sampleUniform\(State \*statePtr, const Cost &maxCost, unsigned int \*iterPtr\)", rules=R, loops={"allow_uncontracted": True}),
    dict(name="rej_minmax", file=RJ, sig=r"bool RejectionInfSampler::sampleUniform\(State \*statePtr, const Cost &minCost, const Cost &maxCost\)", rules=[(r"sampleUniform\(statePtr, maxCost, &i\)", "rej_helper(maxCost, &i)", 0)] + R, loops={"allow_uncontracted": True}),
    dict(name="pl_boundsRejectPhs", file=PL, sig=r"bool PathLengthDirectInfSampler::sampleBoundsRejectPhs\(State \*statePtr, unsigned int \*iters\)", rules=R, loops={"allow_uncontracted": True}),
    dict(name="pl_phsRejectBounds", file=PL, sig=r"bool PathLengthDirectInfSampler::samplePhsRejectBounds\(State \*statePtr, unsigned int \*iters\)", rules=R, loops={"allow_uncontracted": True}),
    dict(name="pl_helper", file=PL, sig=r"bool PathLengthDirectInfSampler::sampleUniform\(State \*statePtr, const Cost &maxCost, unsigned int \*iters\)", rules=R, loops={}),
    dict(name="pl_minmax", file=PL, sig=r"bool PathLengthDirectInfSampler::sampleUniform\(State \*statePtr, const Cost &minCost, const Cost &maxCost\)", rules=[(r"sampleUniform\(statePtr, maxCost, &i\)", "pl_helper(maxCost, &i)", 0)] + R, loops={"allow_uncontracted": True}),
]
UNITS = []
for h, needs, fn, can in (
        ("rej_helper", ["rej_helper"], "RejectionInfSampler::sampleUniform(state, maxCost, iters)", [dict(name="bound_not_strict", where="body:rej_helper", rx=r"BETTER_H_MAX\(HEUR\(\), maxCost\)", repl="(BETTER_H_MAX(HEUR(), maxCost) || HEUR() == maxCost)")]),
        ("rej_minmax", ["rej_helper", "rej_minmax"], "RejectionInfSampler::sampleUniform(state, minCost, maxCost)", [dict(name="lower_bound_ignored", where="body:rej_minmax", rx=r"foundSample = NOT_BELOW_MIN\(minCost, sampledCost\);", repl="NOT_BELOW_MIN(minCost, sampledCost);")]),
        ("pl_boundsRejectPhs", ["pl_boundsRejectPhs"], "PathLengthDirectInfSampler::sampleBoundsRejectPhs", [dict(name="membership_of_the_previous_sample", where="body:pl_boundsRejectPhs", rx=r"BASE_SAMPLE\(\);(.*?)foundSample = IN_ANY_PHS\(\);", repl=r"foundSample = IN_ANY_PHS(); BASE_SAMPLE();\1")]),
        ("pl_phsRejectBounds", ["pl_phsRejectBounds"], "PathLengthDirectInfSampler::samplePhsRejectBounds", [dict(name="bounds_not_checked", where="body:pl_phsRejectBounds", rx=r"foundSample = SAT_BOUNDS\(\);", repl="SAT_BOUNDS();")]),
        ("pl_helper", ["pl_boundsRejectPhs", "pl_phsRejectBounds", "pl_helper"], "PathLengthDirectInfSampler::sampleUniform(state, maxCost, iters)", [dict(name="success_without_sampling", where="body:pl_helper", rx=r"foundSample = pl_phsRejectBounds\(iters\);", repl="foundSample = true;")]),
        ("pl_minmax", ["pl_boundsRejectPhs", "pl_phsRejectBounds", "pl_helper", "pl_minmax"], "PathLengthDirectInfSampler::sampleUniform(state, minCost, maxCost)", [dict(name="lower_bound_ignored", where="body:pl_minmax", rx=r"foundSample = NOT_BELOW_MIN\(minCost, sampledCost\);", repl="NOT_BELOW_MIN(minCost, sampledCost);")])):
    UNITS.append(dict(name="c15_" + h, template="C15/informed.c", mode="plain", entry="h_" + h, sources=SRC, needs=needs, flags=FLAGS, unwind=10, level="bounded", bound="numIters_ <= 3", backend="minisat", timeout=300, functions=["ompl::base::" + fn], canaries=can))
ASSUMPTIONS = ["the base state sampler yields states within the space bounds (its own contract: C08)", "membership in a prolate hyperspheroid of transverse diameter c is equivalent to a heuristic path-length cost below c (geometry, trusted)",
               "costs are non-NaN doubles compared by the minimising order"]
TRUSTED = ["extraction rewrite table of units/C15.py", "stubs in units/C15/informed.c", "CBMC 6.11 + minisat"]
NOT_COVERED = ["the prolate-hyperspheroid transform (unit sphere surface -> summed focal distance = c), the analytic measure, uniformity of the samples, 'no improving state is excluded' (Eigen linear algebra, transcendental formulas, a distributional claim)",
               "OrderedInfSampler, InformedStateSampler's fallback to the base sampler, keepSample's 1/K rule, ProlateHyperspheroid.cpp, GeometricEquations.cpp"]
NATIVE = []
