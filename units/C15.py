"""C15 -- informed sampling returns only states that can still help (reduced scope: the acceptance logic of the samplers; the geometry is not covered)."""
PROPERTY = "C15"
LEVEL = "proof"
RJ = "src/ompl/base/samplers/informed/src/RejectionInfSampler.cpp"
PL = "src/ompl/base/samplers/informed/src/PathLengthDirectInfSampler.cpp"
FLAGS = ["--bounds-check", "--pointer-check", "--unsigned-overflow-check"]
R = [
    (r"InformedSampler::numIters_", "numIters_", 0), (r"baseSampler_->sampleUniform\(statePtr\);", "BASE_SAMPLE();", 0),
    (r"InformedSampler::opt_->isCostBetterThan\(InformedSampler::heuristicSolnCost\(statePtr\), maxCost\)", "BETTER_H_MAX(HEUR(), maxCost)", 0),
    (r"Cost sampledCost = heuristicSolnCost\(statePtr\);", "double sampledCost = HEUR();", 0),
    (r"Cost sampledCost = InformedSampler::heuristicSolnCost\(statePtr\);", "double sampledCost = HEUR_BASE();", 0),   # qualified call = the base-class heuristic (RejectionInfSampler does not override it: same function there)
    (r"InformedSampler::opt_->isCostEquivalentTo\(minCost, sampledCost\) \|\|\s*InformedSampler::opt_->isCostBetterThan\(minCost, sampledCost\)", "NOT_BELOW_MIN(minCost, sampledCost)", 0),
    (r"!InformedSampler::opt_->isFinite\(maxCost\)", "!FINITE_MAX", 0), (r"updatePhsDefinitions\(maxCost\);", "", 0),
    (r"informedSubSpace_->getMeasure\(\) < summedMeasure_ / static_cast<double>\(listPhsPtrs_\.size\(\)\)", "LARGE_MEASURE", 0),
    (r"sampleBoundsRejectPhs\(statePtr, iters\)", "pl_boundsRejectPhs(iters)", 0), (r"samplePhsRejectBounds\(statePtr, iters\)", "pl_phsRejectBounds(iters)", 0),
    (r"std::vector<double> informedVector = getInformedSubstate\(statePtr\);", "", 0), (r"isInAnyPhs\(informedVector\)", "IN_ANY_PHS()", 0),
    (r"std::vector<double> informedVector\(informedSubSpace_->getDimension\(\)\);", "", 0), (r"ProlateHyperspheroidCPtr phsCPtr = randomPhsPtr\(\);", "", 0),
    (r"rng_\.uniformProlateHyperspheroid\(phsCPtr, &informedVector\[0\]\);", "PHS_SAMPLE();", 0), (r"keepSample\(informedVector\)", "KEEP_SAMPLE()", 0), (r"createFullState\(statePtr, informedVector\);", "CREATE_FULL_STATE();", 0),
    (r"InformedSampler::space_->satisfiesBounds\(statePtr\)", "SAT_BOUNDS()", 0),
]
SRC = [
    dict(name="rej_helper", file=RJ, sig=r"bool RejectionInfSampler::sampleUniform\(State \*statePtr, const Cost &maxCost, unsigned int \*iterPtr\)", rules=R, loops={"allow_uncontracted": True}),
    dict(name="rej_minmax", file=RJ, sig=r"bool RejectionInfSampler::sampleUniform\(State \*statePtr, const Cost &minCost, const Cost &maxCost\)", rules=[(r"sampleUniform\(statePtr, maxCost, &i\)", "rej_helper(maxCost, &i)", 0)] + R, loops={"allow_uncontracted": True}),
    dict(name="pl_boundsRejectPhs", file=PL, sig=r"bool PathLengthDirectInfSampler::sampleBoundsRejectPhs\(State \*statePtr, unsigned int \*iters\)", rules=R, loops={"allow_uncontracted": True}),
    dict(name="pl_phsRejectBounds", file=PL, sig=r"bool PathLengthDirectInfSampler::samplePhsRejectBounds\(State \*statePtr, unsigned int \*iters\)", rules=R, loops={"allow_uncontracted": True}),
    dict(name="pl_helper", file=PL, sig=r"bool PathLengthDirectInfSampler::sampleUniform\(State \*statePtr, const Cost &maxCost, unsigned int \*iters\)", rules=R, loops={}),
    dict(name="pl_minmax", file=PL, sig=r"bool PathLengthDirectInfSampler::sampleUniform\(State \*statePtr, const Cost &minCost, const Cost &maxCost\)", rules=[(r"sampleUniform\(statePtr, maxCost, &i\)", "pl_helper(maxCost, &i)", 0)] + R, loops={"allow_uncontracted": True}),
]
UNITS = []
for h, needs, fn, can in (
        ("rej_helper", ["rej_helper"], "RejectionInfSampler::sampleUniform(state, maxCost, iters)", [dict(name="bound_not_strict", where="body:rej_helper", rx=r"BETTER_H_MAX\(HEUR\(\), maxCost\)", repl="(BETTER_H_MAX(HEUR(), maxCost) || HEUR() == maxCost)")]),
        ("rej_minmax", ["rej_helper", "rej_minmax"], "RejectionInfSampler::sampleUniform(state, minCost, maxCost)", [dict(name="lower_bound_ignored", where="body:rej_minmax", rx=r"foundSample = NOT_BELOW_MIN\(minCost, sampledCost\);", repl="NOT_BELOW_MIN(minCost, sampledCost);")]),
        ("pl_boundsRejectPhs", ["pl_boundsRejectPhs"], "PathLengthDirectInfSampler::sampleBoundsRejectPhs", [dict(name="membership_of_the_previous_sample", where="body:pl_boundsRejectPhs", rx=r"BASE_SAMPLE\(\);(.*?)foundSample = IN_ANY_PHS\(\);", repl=r"foundSample = IN_ANY_PHS(); BASE_SAMPLE();\1")]),
        ("pl_phsRejectBounds", ["pl_phsRejectBounds"], "PathLengthDirectInfSampler::samplePhsRejectBounds", [dict(name="bounds_not_checked", where="body:pl_phsRejectBounds", rx=r"foundSample = SAT_BOUNDS\(\);", repl="SAT_BOUNDS();")]),
        ("pl_helper", ["pl_boundsRejectPhs", "pl_phsRejectBounds", "pl_helper"], "PathLengthDirectInfSampler::sampleUniform(state, maxCost, iters)", [dict(name="success_without_sampling", where="body:pl_helper", rx=r"foundSample = pl_phsRejectBounds\(iters\);", repl="foundSample = true;")]),
        ("pl_minmax", ["pl_boundsRejectPhs", "pl_phsRejectBounds", "pl_helper", "pl_minmax"], "PathLengthDirectInfSampler::sampleUniform(state, minCost, maxCost)", [dict(name="lower_bound_ignored", where="body:pl_minmax", rx=r"foundSample = NOT_BELOW_MIN\(minCost, sampledCost\);", repl="NOT_BELOW_MIN(minCost, sampledCost);")])):
    UNITS.append(dict(defines=({"DIRECT_SAMPLER": 1} if h.startswith("pl_") else {}), **dict(name="c15_" + h, template="C15/informed.c", mode="plain", entry="h_" + h, sources=SRC, needs=needs, flags=FLAGS, unwind=10, level="bounded", bound="numIters_ <= 3", backend="minisat", timeout=300, tiers={"thorough": {"defines": {"NI_MAX": 7}, "unwind": 14, "bound": "numIters_ <= 7", "timeout": 900}}, functions=["ompl::base::" + fn], canaries=can)))
ASSUMPTIONS = ["the base state sampler yields states within the space bounds (its own contract: C08)", "the path length focus1 -> x -> focus2 computed by ProlateHyperspheroid::getPathLength is the heuristic cost of x for that start/goal pair (Eigen norms, trusted); given that, membership <=> cost strictly below the diameter and diameter == cost bound are CHECKED (c15_phs_isInPhs, c15_updatePhs)",
               "costs are non-NaN doubles compared by the minimising order", "numIters_ <= 10^9 and fewer than 10^9 earlier draws (32-bit counters do not wrap)"]
TRUSTED = ["extraction rewrite table of units/C15.py", "stub contracts in units/C15/informed_unb.c and stubs in units/C15/informed.c", "CBMC 6.11 (goto-instrument DFCC) + minisat"]
NOT_COVERED = ["the prolate-hyperspheroid transform (unit sphere surface -> summed focal distance = c), the analytic measure, uniformity of the samples, 'no improving state is excluded' (Eigen linear algebra, transcendental formulas, a distributional claim)",
               "isInPhs (the membership test of one hyperspheroid), getPhsMeasure, randomPhsPtr (measure-proportional choice), ProlateHyperspheroid.cpp, GeometricEquations.cpp"]
NATIVE = [dict(name="c15_native_measures", driver="native/c15_native.cpp", link_ompl=True, unit_cpps=["src/ompl/util/src/GeometricEquations.cpp"], args=["measures"], timeout=120)]

# ---- the same loops, UNBOUNDED in numIters_ (DFCC: loop contracts, stubs and callees replaced by their contracts) ----
_G = "ver, draws, cur_cost, cur_inphs, cur_inb, base_sample_last"
_CNT = ("*%(p)s <= numIters_ && *%(p)s >= __CPROVER_loop_entry(*%(p)s) && draws >= __CPROVER_loop_entry(draws) && *%(p)s - __CPROVER_loop_entry(*%(p)s) == draws - __CPROVER_loop_entry(draws) && ver >= __CPROVER_loop_entry(ver)"
        " && ver - __CPROVER_loop_entry(ver) <= draws - __CPROVER_loop_entry(draws)")
L_REJ = """
__CPROVER_assigns(*iterPtr, foundSample, %s, cost_tested_ver)
__CPROVER_loop_invariant(%s)
__CPROVER_loop_invariant(foundSample ==> (cost_tested_ver == ver && cur_cost < maxCost && *iterPtr > __CPROVER_loop_entry(*iterPtr)))
__CPROVER_decreases(numIters_ - *iterPtr)
""" % (_G, _CNT % dict(p="iterPtr"))
L_BRP = """
__CPROVER_assigns(*iters, foundSample, %s, phs_tested_ver)
__CPROVER_loop_invariant(%s)
__CPROVER_loop_invariant(foundSample ==> (base_sample_last && phs_tested_ver == ver && cur_inphs && *iters > __CPROVER_loop_entry(*iters)))
__CPROVER_decreases(numIters_ - *iters + (foundSample ? 0 : 1))
""" % (_G, _CNT % dict(p="iters"))
L_PRB = """
__CPROVER_assigns(*iters, foundSample, %s, kept_last, bounds_tested_ver)
__CPROVER_loop_invariant(%s)
__CPROVER_loop_invariant(foundSample ==> (!base_sample_last && kept_last && bounds_tested_ver == ver && cur_inb && *iters > __CPROVER_loop_entry(*iters)))
__CPROVER_decreases(numIters_ - *iters + (foundSample ? 0 : 1))
""" % (_G, _CNT % dict(p="iters"))
_MM = ("i <= numIters_ + 1 && draws >= __CPROVER_loop_entry(draws) && draws - __CPROVER_loop_entry(draws) <= i && draws - __CPROVER_loop_entry(draws) <= numIters_ && ver >= __CPROVER_loop_entry(ver)"
       " && ver - __CPROVER_loop_entry(ver) <= draws - __CPROVER_loop_entry(draws)")
L_RMM = """
__CPROVER_assigns(i, foundSample, %s, cost_tested_ver, lower_tested_ver)
__CPROVER_loop_invariant(%s)
__CPROVER_loop_invariant(foundSample ==> (cost_tested_ver == ver && lower_tested_ver == ver && cur_cost < maxCost && !(cur_cost < minCost)))
__CPROVER_decreases(numIters_ + 1 - i)
""" % (_G, _MM)
L_PMM = """
__CPROVER_assigns(i, foundSample, %s, kept_last, bounds_tested_ver, phs_tested_ver, lower_tested_ver)
__CPROVER_loop_invariant(%s)
__CPROVER_loop_invariant(foundSample ==> (lower_tested_ver == ver && !(cur_cost < minCost)))
__CPROVER_loop_invariant((foundSample && FINITE_MAX) ==> ((base_sample_last && phs_tested_ver == ver && cur_inphs) || (!base_sample_last && bounds_tested_ver == ver && cur_inb)))
__CPROVER_decreases(numIters_ + 1 - i)
""" % (_G, _MM)
def _with(loops):
    out = []
    for s in SRC:
        s = dict(s); s["loops"] = {1: loops[s["name"]]} if s["name"] in loops else {}; out.append(s)
    return out
SRC_U = _with(dict(rej_helper=L_REJ, rej_minmax=L_RMM, pl_boundsRejectPhs=L_BRP, pl_phsRejectBounds=L_PRB, pl_minmax=L_PMM))
SRC_U += [
    dict(name="rej_one", file=RJ, sig=r"bool RejectionInfSampler::sampleUniform\(State \*statePtr, const Cost &maxCost\)", rules=[(r"sampleUniform\(statePtr, maxCost, &iter\)", "rej_helper(maxCost, &iter)", 1)], loops={}),
    dict(name="pl_one", file=PL, sig=r"bool PathLengthDirectInfSampler::sampleUniform\(State \*statePtr, const Cost &maxCost\)", rules=[(r"sampleUniform\(statePtr, maxCost, &iter\)", "pl_helper(maxCost, &iter)", 1)], loops={}),
]
STUBS = ["BASE_SAMPLE", "PHS_SAMPLE", "CREATE_FULL_STATE", "HEUR", "BETTER_H_MAX", "NOT_BELOW_MIN", "IN_ANY_PHS", "KEEP_SAMPLE", "SAT_BOUNDS"]
UFLAGS = FLAGS + ["--object-bits", "12"]
for h, callees, fn, can in (
        ("rej_helper", [], "RejectionInfSampler::sampleUniform(state, maxCost, iters)", [dict(name="bound_not_strict", where="body:rej_helper", rx=r"BETTER_H_MAX\(HEUR\(\), maxCost\)", repl="(BETTER_H_MAX(HEUR(), maxCost) || HEUR() == maxCost)")]),
        ("rej_minmax", ["rej_helper"], "RejectionInfSampler::sampleUniform(state, minCost, maxCost)", [dict(name="lower_bound_ignored", where="body:rej_minmax", rx=r"foundSample = NOT_BELOW_MIN\(minCost, sampledCost\);", repl="NOT_BELOW_MIN(minCost, sampledCost);")]),
        ("pl_boundsRejectPhs", [], "PathLengthDirectInfSampler::sampleBoundsRejectPhs", [dict(name="membership_of_the_previous_sample", where="body:pl_boundsRejectPhs", rx=r"BASE_SAMPLE\(\);(.*?)foundSample = IN_ANY_PHS\(\);", repl=r"foundSample = IN_ANY_PHS(); BASE_SAMPLE();\1")]),
        ("pl_phsRejectBounds", [], "PathLengthDirectInfSampler::samplePhsRejectBounds", [dict(name="bounds_not_checked", where="body:pl_phsRejectBounds", rx=r"foundSample = SAT_BOUNDS\(\);", repl="SAT_BOUNDS();")]),
        ("pl_helper", ["pl_boundsRejectPhs", "pl_phsRejectBounds"], "PathLengthDirectInfSampler::sampleUniform(state, maxCost, iters)", [dict(name="success_without_sampling", where="body:pl_helper", rx=r"foundSample = pl_phsRejectBounds\(iters\);", repl="foundSample = true;")]),
        ("pl_minmax", ["pl_helper"], "PathLengthDirectInfSampler::sampleUniform(state, minCost, maxCost)", [dict(name="lower_bound_ignored", where="body:pl_minmax", rx=r"foundSample = NOT_BELOW_MIN\(minCost, sampledCost\);", repl="NOT_BELOW_MIN(minCost, sampledCost);")]),
        ("rej_one", ["rej_helper"], "RejectionInfSampler::sampleUniform(state, maxCost)", [dict(name="counter_starts_at_one", where="body:rej_one", rx=r"iter = 0u;", repl="iter = 1u;")]),
        ("pl_one", ["pl_helper"], "PathLengthDirectInfSampler::sampleUniform(state, maxCost)", [dict(name="result_dropped", where="body:pl_one", rx=r"return pl_helper\(maxCost, &iter\);", repl="pl_helper(maxCost, &iter); return true;")])):
    nloops = 0 if h in ("pl_helper", "rej_one", "pl_one") else 1
    UNITS.append(dict(name="c15_" + h + "_unbounded", template="C15/informed_unb.c", entry="h_" + h, sources=SRC_U, enforce=[h], replace=STUBS + callees, flags=UFLAGS, level="proof",
                      bound="numIters_ <= 10^9, unbounded in the loop", backend="minisat", timeout=300, expect_loops=nloops, functions=["ompl::base::" + fn], canaries=can, defines=({"DIRECT_SAMPLER": 1} if h.startswith("pl_") else {})))

# ---- the wrappers: InformedStateSampler (fallback to the base sampler) and OrderedInfSampler (stale batches) ----
ISS = "src/ompl/base/samplers/src/InformedStateSampler.cpp"
ORD = "src/ompl/base/samplers/informed/src/OrderedInfSampler.cpp"
W_RULES = [
    (r"infSampler_->sampleUniform\(statePtr, bestCostFunc_\(\)\)", "INF_SAMPLE(BEST_COST())", 0), (r"baseSampler_->sampleUniform\(statePtr\);", "BASE_SAMPLE();", 0),
    (r"orderedSamples_\.empty\(\)", "Q_EMPTY()", 0), (r"createBatch\(maxCost\);", "CREATE_BATCH(maxCost);", 0),
    (r"InformedSampler::opt_->isCostBetterThan\(InformedSampler::heuristicSolnCost\(orderedSamples_\.top\(\)\),\s*maxCost\)", "BETTER(Q_TOP(), HEUR_OF(Q_TOP()), maxCost)", 0),
    (r"InformedSampler::space_->copyState\(statePtr, orderedSamples_\.top\(\)\);", "COPY_OUT(Q_TOP());", 0), (r"InformedSampler::space_->freeState\(orderedSamples_\.top\(\)\);", "FREE(Q_TOP());", 0),
    (r"orderedSamples_\.pop\(\);", "Q_POP();", 0), (r"clearBatch\(\);", "ord_clearBatch();", 0),
    (r"State \*newStatePtr = InformedSampler::space_->allocState\(\);", "int newStatePtr = ALLOC();", 0), (r"infSampler_->sampleUniform\(newStatePtr, maxCost\);", "SAMPLE_INTO(newStatePtr, maxCost);", 0),
    (r"orderedSamples_\.push\(newStatePtr\);", "Q_PUSH(newStatePtr);", 0),
]
H_RULES = [(r"probDefn_->getStartStateCount\(\)", "N_STARTS", 2), (r"opt_->infiniteCost\(\)", "INF_COST", 1), (r"\bCost bestCost\b", "double bestCost", 1), (r"opt_->betterCost\(", "BETTER_COST(", 1),
           (r"opt_->combineCosts\(opt_->motionCostHeuristic\(probDefn_->getStartState\((\w+)\), statePtr\),\s*opt_->costToGo\(statePtr, probDefn_->getGoal\(\)\.get\(\)\)\)", r"VIA_START(\1)", 2)]
W_SRC = [
    dict(name="ord_queueComparator", file=ORD, sig=r"bool OrderedInfSampler::queueComparator\(const State \*a, const State \*b\)",
         rules=[(r"InformedSampler::opt_->isCostBetterThan\(InformedSampler::heuristicSolnCost\(b\),\s*InformedSampler::heuristicSolnCost\(a\)\)", "(HC(b) < HC(a))", 0),
                (r"InformedSampler::opt_->isCostBetterThan\(InformedSampler::heuristicSolnCost\((\w)\),\s*InformedSampler::heuristicSolnCost\((\w)\)\)", r"(HC(\1) < HC(\2))", 0)], loops={}),
    dict(name="is_heuristicSolnCost", file=ISS, sig=r"Cost InformedSampler::heuristicSolnCost\(const State \*statePtr\) const", rules=H_RULES, loops={"allow_uncontracted": True}),
    dict(name="iss_sampleUniform", file=ISS, sig=r"void InformedStateSampler::sampleUniform\(State \*statePtr\)", rules=W_RULES, loops={}),
    dict(name="ord_sampleUniform", file=ORD, sig=r"bool OrderedInfSampler::sampleUniform\(State \*statePtr, const Cost &maxCost\)", rules=W_RULES, loops={"allow_uncontracted": True}),
    dict(name="ord_createBatch", file=ORD, sig=r"void OrderedInfSampler::createBatch\(const Cost &maxCost\)", rules=W_RULES, loops={"allow_uncontracted": True}),
    dict(name="ord_clearBatch", file=ORD, sig=r"void OrderedInfSampler::clearBatch\(\)", rules=W_RULES, loops={"allow_uncontracted": True}),
]
_ORDN = ["ord_sampleUniform", "ord_createBatch", "ord_clearBatch"]
for h, needs, fn, bound, can in (
        ("heur", ["is_heuristicSolnCost"], ["InformedSampler::heuristicSolnCost"], "<= 4 start states", [dict(name="first_start_skipped", where="body:is_heuristicSolnCost", rx=r"unsigned int i = 0u;", repl="unsigned int i = 1u;")]),
        ("cmp", ["ord_queueComparator"], ["OrderedInfSampler::queueComparator"], None, [dict(name="most_expensive_on_top", where="body:ord_queueComparator", rx=r"HC\(b\) < HC\(a\)", repl="HC(a) < HC(b)")]),
        ("iss", ["iss_sampleUniform"], ["InformedStateSampler::sampleUniform"], None, [dict(name="fallback_always", where="body:iss_sampleUniform", rx=r"if \(!informedSuccess\)", repl="if (true)")]),
        ("ord", _ORDN, ["OrderedInfSampler::sampleUniform(state, maxCost)"], "batch size <= 3, <= 3 batches per call", [dict(name="stale_top_served", where="body:ord_sampleUniform", rx=r"if \(BETTER\(Q_TOP\(\), HEUR_OF\(Q_TOP\(\)\), maxCost\)\)", repl="if (BETTER(Q_TOP(), HEUR_OF(Q_TOP()), maxCost) || true)"),
                                                                                                     dict(name="popped_not_freed", where="body:ord_sampleUniform", rx=r"FREE\(Q_TOP\(\)\);", repl="")]),
        ("batch", _ORDN[1:], ["OrderedInfSampler::createBatch", "OrderedInfSampler::clearBatch"], "batch size <= 3", [dict(name="clear_without_free", where="body:ord_clearBatch", rx=r"FREE\(Q_TOP\(\)\);", repl="")])):
    u = dict(name="c15_wrap_" + h, template="C15/wrappers.c", mode="plain", entry="h_" + h, sources=W_SRC, needs=needs, flags=FLAGS, unwind=6, backend="minisat", timeout=300, functions=["ompl::base::" + f for f in fn], canaries=can)
    if bound: u.update(level="bounded", bound=bound)
    else: u.update(level="proof")
    UNITS.append(u)

# ---- keepSample (1/K rule) and getInformedMeasure (symbolic measures) ----
M_RULES = [
    (r"listPhsPtrs_\.size\(\)", "N_PHS", 0), (r"numberOfPhsInclusions\(informedVector\)", "NUM_INCLUSIONS()", 0), (r"rng_\.uniform01\(\)", "UNIFORM01()", 0),
    (r"1\.0 / static_cast<double>\(([^;]+?)\)\);", r"RECIP(\1));", 0),
    (r"for \(const auto &phsPtr : listPhsPtrs_\)", "for (unsigned phs = 0; phs < N_PHS; ++phs)", 0), (r"currentCost\.value\(\) > phsPtr->getMinTransverseDiameter\(\)", "GT_MIN_DIAM(phs)", 0),
    (r"informedMeasure = informedMeasure \+ phsPtr->getPhsMeasure\(currentCost\.value\(\)\);", "informedMeasure = ADD_MEASURE(informedMeasure, phs);", 0),
    (r"InformedSampler::space_->isCompound\(\)", "IS_COMPOUND", 0), (r"informedMeasure \* (\w+)->getMeasure\(\)", r"TIMES_UNINFORMED(informedMeasure, \1->getMeasure())", 0),
    (r"InformedSampler::space_->getMeasure\(\)", "WHOLE_SPACE_MEASURE()", 0), (r"\binformedSubSpace_->getMeasure\(\)", "INFORMED_SUBSPACE_MEASURE()", 0), (r"\buninformedSubSpace_->getMeasure\(\)", "UNINFORMED_MEASURE()", 0),
    (r"std::min\(", "FMIN(", 0),
]
M_RULES += [(r"for \(auto phsIter = listPhsPtrs_\.begin\(\); phsIter != listPhsPtrs_\.end\(\) && !inPhs; \+\+phsIter\)", "for (unsigned phs = 0; phs != N_PHS && !inPhs; ++phs)", 0),
            (r"isInPhs\(\*phsIter, informedVector\)", "IN_PHS(phs)", 0), (r"phsPtr->isInPhs\(&informedVector\[0\]\)", "IN_PHS(phs)", 0)]
M_SRC = [
    dict(name="pl_isInAnyPhs", file=PL, sig=r"bool PathLengthDirectInfSampler::isInAnyPhs\(const std::vector<double> &informedVector\) const", rules=M_RULES, loops={"allow_uncontracted": True}),
    dict(name="pl_numberOfPhsInclusions", file=PL, sig=r"unsigned int PathLengthDirectInfSampler::numberOfPhsInclusions\(const std::vector<double> &informedVector\) const", rules=M_RULES, loops={"allow_uncontracted": True}),
    dict(name="pl_keepSample", file=PL, sig=r"bool PathLengthDirectInfSampler::keepSample\(const std::vector<double> &informedVector\)", rules=M_RULES, loops={}),
    dict(name="pl_getInformedMeasure", file=PL, sig=r"double PathLengthDirectInfSampler::getInformedMeasure\(const Cost &currentCost\) const", rules=M_RULES, loops={"allow_uncontracted": True}),
]
UNITS.append(dict(name="c15_keepSample", template="C15/phs_misc.c", mode="plain", entry="h_keepSample", sources=M_SRC, needs=["pl_keepSample"], flags=FLAGS, unwind=18, backend="minisat", timeout=300, level="proof",
                  functions=["ompl::base::PathLengthDirectInfSampler::keepSample"], canaries=[dict(name="one_over_all", where="body:pl_keepSample", rx=r"RECIP\(numIn\)", repl="RECIP(N_PHS)")]))
UNITS.append(dict(name="c15_getInformedMeasure", template="C15/phs_misc.c", mode="plain", entry="h_measure", sources=M_SRC, needs=["pl_getInformedMeasure"], flags=FLAGS, unwind=18, backend="minisat", timeout=300, level="bounded", bound="<= 4 hyperspheroids",
                  functions=["ompl::base::PathLengthDirectInfSampler::getInformedMeasure(cost)"], canaries=[dict(name="cap_by_informed_subspace", where="body:pl_getInformedMeasure", rx=r"WHOLE_SPACE_MEASURE\(\)", repl="INFORMED_SUBSPACE_MEASURE()")]))
UNITS.append(dict(name="c15_phs_membership", template="C15/phs_misc.c", mode="plain", entry="h_membership", sources=M_SRC, needs=["pl_isInAnyPhs", "pl_numberOfPhsInclusions"], flags=FLAGS, unwind=18, backend="minisat", timeout=300, level="bounded", bound="<= 4 hyperspheroids",
                  functions=["ompl::base::PathLengthDirectInfSampler::isInAnyPhs", "ompl::base::PathLengthDirectInfSampler::numberOfPhsInclusions"],
                  canaries=[dict(name="only_last_membership_counts", where="body:pl_isInAnyPhs", rx=r"&& !inPhs;", repl=";"), dict(name="count_resets", where="body:pl_numberOfPhsInclusions", rx=r"\+\+numInclusions;", repl="numInclusions = 1u;")]))

# ---- ProlateHyperspheroid membership / diameter, and updatePhsDefinitions ----
PHS = "src/ompl/util/src/ProlateHyperspheroid.cpp"
P_RULES = [(r"dataPtr_->", "", 1), (r"getPathLength\(point\)", "PATH_LEN()", 0), (r"OMPL_ERROR\([^;]*\);", "", 0), (r"updateTransformation\(\);", "UPDATE_TRANSFORM();", 0)]
PB = P_RULES + [(r"throw Exception\(\"[^\"]*\"\);", "THROW_BOOL;", 1)]
PV = P_RULES + [(r"throw Exception\(\"[^\"]*\"\);", "THROW_VOID;", 1)]
U_RULES = [(r"auto phsIter = listPhsPtrs_\.begin\(\);", "unsigned phsIter = 0;", 1), (r"phsIter != listPhsPtrs_\.end\(\)", "phsIter != L_N", 1), (r"\(\*phsIter\)->getMinTransverseDiameter\(\)", "MIN_DIAM(L[phsIter])", 2),
           (r"maxCost\.value\(\)", "maxCost", 2), (r"\(\*phsIter\)->setTransverseDiameter\(([^;]+)\);", r"SET_DIAM(L[phsIter], \1);", 2),
           (r"summedMeasure_ = summedMeasure_ \+ \(\*phsIter\)->getPhsMeasure\(\);", "summedMeasure_ = ADD_M(summedMeasure_, L[phsIter]);", 1), (r"listPhsPtrs_\.size\(\)", "L_N", 1),
           (r"phsIter = listPhsPtrs_\.erase\(phsIter\);", "ERASE_AT(phsIter);", 1)]
D_SRC = [
    dict(name="phs_isInPhs", file=PHS, sig=r"bool ompl::ProlateHyperspheroid::isInPhs\(const double point\[\]\) const", rules=PB, loops={}),
    dict(name="phs_isOnPhs", file=PHS, sig=r"bool ompl::ProlateHyperspheroid::isOnPhs\(const double point\[\]\) const", rules=PB, loops={}),
    dict(name="phs_setTransverseDiameter", file=PHS, sig=r"void ompl::ProlateHyperspheroid::setTransverseDiameter\(double transverseDiameter\)", rules=PV, loops={}),
    dict(name="pl_updatePhsDefinitions", file=PL, sig=r"void PathLengthDirectInfSampler::updatePhsDefinitions\(const Cost &maxCost\)", rules=U_RULES, loops={"allow_uncontracted": True}),
]
for h, needs, fn, lvl, bound, can in (
        ("phs_isInPhs", ["phs_isInPhs", "phs_isOnPhs"], ["ompl::ProlateHyperspheroid::isInPhs", "ompl::ProlateHyperspheroid::isOnPhs"], "proof", None, [dict(name="membership_not_strict", where="body:phs_isInPhs", rx=r"PATH_LEN\(\) < transverseDiameter_", repl="PATH_LEN() <= transverseDiameter_")]),
        ("phs_setDiameter", ["phs_setTransverseDiameter"], ["ompl::ProlateHyperspheroid::setTransverseDiameter"], "proof", None, [dict(name="transform_left_stale", where="body:phs_setTransverseDiameter", rx=r"UPDATE_TRANSFORM\(\);", repl="")]),
        ("updatePhs", ["pl_updatePhsDefinitions"], ["ompl::base::PathLengthDirectInfSampler::updatePhsDefinitions"], "bounded", "<= 3 hyperspheroids", [dict(name="useless_ones_kept", where="body:pl_updatePhsDefinitions", rx=r"ERASE_AT\(phsIter\);", repl="++phsIter;"),
                                                                                                                                              dict(name="diameter_not_updated", where="body:pl_updatePhsDefinitions", rx=r"SET_DIAM\(L\[phsIter\], maxCost\);", repl="")])):
    u = dict(name="c15_" + h, template="C15/phs_def.c", mode="plain", entry="h_" + h, sources=D_SRC, needs=needs, flags=FLAGS, unwind=10, backend="minisat", timeout=300, level=lvl, functions=fn, canaries=can)
    if bound: u["bound"] = bound
    UNITS.append(u)
