/* C15 (reduced scope: the ACCEPTANCE logic of the informed samplers; the geometry -- the prolate-hyperspheroid transform, its measure, uniformity -- is not
 * covered): a call reports success only for the state it leaves in the output, and only after that very content passed the tests the property names:
 *  - RejectionInfSampler: heuristic solution cost strictly better than the bound (and, in the two-bound form, not better than the lower bound);
 *  - PathLengthDirectInfSampler: with no finite bound yet, a plain sample of the base sampler; otherwise either a base sample (in bounds by the base sampler's
 *    contract) that lies in one of the hyperspheroids, or a hyperspheroid sample that was kept and, after being written into the state, satisfies the bounds;
 *    the two-bound form additionally requires the cost not to be better than the lower bound;
 *  - no call draws more than numIters_ samples, and the shared iteration counter counts every draw.
 * The output state carries a version (bumped by every write); every test records the version it judged.  Bounded: numIters_ <= 3. */
#include <stdbool.h>
#include <stddef.h>
#ifndef NI_MAX
#define NI_MAX 3
#endif
#define VMAX (NI_MAX + 5)
#define REACH(msg) __CPROVER_assert(0, "REACH " msg)
bool nondet_bool(void); double nondet_double(void);
unsigned numIters_; unsigned ver; double COSTV[VMAX]; bool INPHS[VMAX], INB[VMAX]; unsigned draws;
unsigned cost_tested_ver, phs_tested_ver, bounds_tested_ver, lower_tested_ver; bool cost_ok, phs_ok, bounds_ok, lower_ok; bool base_sample_last; bool kept_last; bool FINITE_MAX; bool LARGE_MEASURE;
static void BASE_SAMPLE(void) { __CPROVER_assert(ver + 1 < VMAX, "model capacity"); ver++; draws++; base_sample_last = true; }
static void PHS_SAMPLE(void) { draws++; }
static void CREATE_FULL_STATE(void) { __CPROVER_assert(ver + 1 < VMAX, "model capacity"); ver++; base_sample_last = false; }
static double HEUR(void) { return COSTV[ver]; }
#ifdef DIRECT_SAMPLER
double BASEV[VMAX]; static double HEUR_BASE(void) { return BASEV[ver]; }      /* the base-class heuristic: another function of the state */
#else
#define HEUR_BASE HEUR                                                        /* RejectionInfSampler inherits it */
#endif
static bool BETTER_H_MAX(double h, double maxc) { cost_tested_ver = ver; cost_ok = (h < maxc); return cost_ok; }
static bool NOT_BELOW_MIN(double minc, double h) { lower_tested_ver = ver; lower_ok = !(h < minc); return lower_ok; }
static bool IN_ANY_PHS(void) { phs_tested_ver = ver; phs_ok = INPHS[ver]; return phs_ok; }
static bool KEEP_SAMPLE(void) { kept_last = nondet_bool(); return kept_last; }
static bool SAT_BOUNDS(void) { bounds_tested_ver = ver; bounds_ok = INB[ver]; return bounds_ok; }
/* ---- RejectionInfSampler ---- */
bool rej_helper(double maxCost, unsigned int *iterPtr)
/*@BODY rej_helper@*/
bool rej_minmax(double minCost, double maxCost)
/*@BODY rej_minmax@*/
/* ---- PathLengthDirectInfSampler ---- */
bool pl_boundsRejectPhs(unsigned int *iters)
/*@BODY pl_boundsRejectPhs@*/
bool pl_phsRejectBounds(unsigned int *iters)
/*@BODY pl_phsRejectBounds@*/
bool pl_helper(double maxCost, unsigned int *iters)
/*@BODY pl_helper@*/
bool pl_minmax(double minCost, double maxCost)
/*@BODY pl_minmax@*/
static void init(void) { __CPROVER_assume(numIters_ <= NI_MAX); ver = 0; draws = 0; cost_tested_ver = phs_tested_ver = bounds_tested_ver = lower_tested_ver = 99; base_sample_last = false; for (unsigned v = 0; v < VMAX; v++) __CPROVER_assume(COSTV[v] == COSTV[v]); }
void h_rej_helper(void)
{
    init(); double maxc; __CPROVER_assume(maxc == maxc); unsigned it; __CPROVER_assume(it <= numIters_); unsigned it0 = it;
    bool r = rej_helper(maxc, &it);
    __CPROVER_assert(draws <= numIters_ - it0 && it == it0 + draws, "C15.budget no more than the remaining numIters_ samples are drawn and the counter counts each of them");
    if (r) { __CPROVER_assert(cost_tested_ver == ver && COSTV[ver] < maxc && draws >= 1, "C15.cost success means the state now in the output has a heuristic cost strictly below the bound"); REACH("informed sample"); } else REACH("gave up");
}
void h_rej_minmax(void)
{
    init(); double minc, maxc; __CPROVER_assume(minc == minc && maxc == maxc);
    bool r = rej_minmax(minc, maxc);
    __CPROVER_assert(draws <= numIters_, "C15.budget at most numIters_ samples in total");
    if (r) { __CPROVER_assert(COSTV[ver] < maxc && !(COSTV[ver] < minc) && cost_tested_ver == ver && lower_tested_ver == ver, "C15.cost success: cost of the returned state strictly below the upper bound and not below the lower bound"); REACH("informed sample between the bounds"); } else REACH("gave up");
}
void h_pl_boundsRejectPhs(void)
{
    init(); unsigned it; __CPROVER_assume(it <= numIters_); unsigned it0 = it;
    bool r = pl_boundsRejectPhs(&it);
    __CPROVER_assert(draws <= numIters_ - it0 && it == it0 + draws, "C15.budget counter and draws agree, within the budget");
    if (r) { __CPROVER_assert(draws >= 1 && base_sample_last && phs_tested_ver == ver && INPHS[ver], "C15.region success: the base sample now in the output lies in one of the hyperspheroids"); REACH("accepted"); } else REACH("gave up");
}
void h_pl_phsRejectBounds(void)
{
    init(); unsigned it; __CPROVER_assume(it <= numIters_); unsigned it0 = it;
    bool r = pl_phsRejectBounds(&it);
    __CPROVER_assert(draws <= numIters_ - it0 && it == it0 + draws, "C15.budget counter and draws agree, within the budget");
    if (r) { __CPROVER_assert(draws >= 1 && !base_sample_last && kept_last && bounds_tested_ver == ver && INB[ver], "C15.bounds success: the kept hyperspheroid sample was written into the output and that state satisfies the space bounds"); REACH("accepted"); } else REACH("gave up");
}
void h_pl_helper(void)
{
    init(); double maxc; __CPROVER_assume(maxc == maxc); unsigned it; __CPROVER_assume(it <= numIters_); unsigned it0 = it;
    bool r = pl_helper(maxc, &it);
    if (!FINITE_MAX) { __CPROVER_assert(r && draws == 1 && it == it0 + 1 && base_sample_last, "without a finite bound the sampler is the base sampler (one draw, always successful)"); REACH("no solution yet"); }
    else if (r) { __CPROVER_assert((base_sample_last && phs_tested_ver == ver && INPHS[ver]) || (!base_sample_last && bounds_tested_ver == ver && INB[ver]), "C15.region with a finite bound success comes from one of the two rejection schemes, about the state now in the output"); REACH("informed"); }
}
void h_pl_minmax(void)
{
    init(); double minc, maxc; __CPROVER_assume(minc == minc && maxc == maxc);
    bool r = pl_minmax(minc, maxc);
    if (r) { __CPROVER_assert(lower_tested_ver == ver && !(COSTV[ver] < minc), "C15.cost the two-bound form succeeds only for a state whose cost is not below the lower bound"); REACH("between the bounds"); } else REACH("gave up");
}
