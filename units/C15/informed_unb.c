/* C15 (reduced scope, see informed.c) -- the acceptance loops of the informed samplers, UNBOUNDED in numIters_ (loop contracts; stubs behind contracts, DFCC).
 * The output state has a ghost version `ver` (bumped by every write) and ghost attributes of its current content: cur_cost (heuristic solution cost), cur_inphs,
 * cur_inb.  Every test records the version it judged.  numIters_ <= 10^9 (the counter and the version never wrap). */
#include <stdbool.h>
#include <stddef.h>
#define REACH(msg) __CPROVER_assert(0, "REACH " msg)
#define BIG 1000000000u
unsigned numIters_; unsigned ver; double cur_cost; bool cur_inphs, cur_inb; unsigned draws;
unsigned cost_tested_ver, phs_tested_ver, bounds_tested_ver, lower_tested_ver; bool base_sample_last, kept_last; bool FINITE_MAX, LARGE_MEASURE;
void BASE_SAMPLE(void)
__CPROVER_requires(ver < 4 * BIG && draws < 4 * BIG) __CPROVER_assigns(ver, draws, cur_cost, cur_inphs, cur_inb, base_sample_last)
__CPROVER_ensures(ver == __CPROVER_old(ver) + 1 && draws == __CPROVER_old(draws) + 1 && base_sample_last && cur_cost == cur_cost);
void PHS_SAMPLE(void)
__CPROVER_requires(draws < 4 * BIG) __CPROVER_assigns(draws) __CPROVER_ensures(draws == __CPROVER_old(draws) + 1);
void CREATE_FULL_STATE(void)
__CPROVER_requires(ver < 4 * BIG) __CPROVER_assigns(ver, cur_cost, cur_inphs, cur_inb, base_sample_last)
__CPROVER_ensures(ver == __CPROVER_old(ver) + 1 && !base_sample_last && cur_cost == cur_cost);
double HEUR(void) __CPROVER_assigns() __CPROVER_ensures(__CPROVER_return_value == cur_cost);
#ifdef DIRECT_SAMPLER
double cur_base_cost; double HEUR_BASE(void) __CPROVER_assigns() __CPROVER_ensures(__CPROVER_return_value == cur_base_cost);   /* the base-class heuristic: another function of the state */
#else
#define HEUR_BASE HEUR   /* RejectionInfSampler inherits it */
#endif
bool BETTER_H_MAX(double h, double maxc) __CPROVER_assigns(cost_tested_ver) __CPROVER_ensures(cost_tested_ver == ver && __CPROVER_return_value == (h < maxc));
bool NOT_BELOW_MIN(double minc, double h) __CPROVER_assigns(lower_tested_ver) __CPROVER_ensures(lower_tested_ver == ver && __CPROVER_return_value == !(h < minc));
bool IN_ANY_PHS(void) __CPROVER_assigns(phs_tested_ver) __CPROVER_ensures(phs_tested_ver == ver && __CPROVER_return_value == cur_inphs);
bool KEEP_SAMPLE(void) __CPROVER_assigns(kept_last) __CPROVER_ensures(__CPROVER_return_value == kept_last);
bool SAT_BOUNDS(void) __CPROVER_assigns(bounds_tested_ver) __CPROVER_ensures(bounds_tested_ver == ver && __CPROVER_return_value == cur_inb);

#define PRE_COMMON (numIters_ <= BIG && ver <= BIG && draws <= BIG)            /* the public two-bound forms */
#define PRE_HELPER (numIters_ <= BIG && ver <= 2 * BIG && draws <= 2 * BIG)    /* the helpers they call inside their own loop */
#define GREW(itp) (*(itp) >= __CPROVER_old(*(itp)) && draws >= __CPROVER_old(draws) && *(itp) - __CPROVER_old(*(itp)) == draws - __CPROVER_old(draws) && ver >= __CPROVER_old(ver) && ver - __CPROVER_old(ver) <= draws - __CPROVER_old(draws))
#define COUNTED(itp) (*(itp) <= numIters_ && GREW(itp))
/* ---- RejectionInfSampler ---- */
bool rej_helper(double maxCost, unsigned int *iterPtr)
__CPROVER_requires(PRE_HELPER && __CPROVER_is_fresh(iterPtr, sizeof(unsigned)) && *iterPtr <= numIters_ && maxCost == maxCost)
__CPROVER_assigns(*iterPtr, ver, draws, cur_cost, cur_inphs, cur_inb, base_sample_last, cost_tested_ver)
__CPROVER_ensures(COUNTED(iterPtr))                                                                                                   /* C15.budget */
__CPROVER_ensures(__CPROVER_return_value ==> (cost_tested_ver == ver && cur_cost < maxCost && *iterPtr > __CPROVER_old(*iterPtr)))    /* C15.cost */
__CPROVER_ensures(!__CPROVER_return_value ==> *iterPtr == numIters_)
/*@BODY rej_helper@*/
bool rej_minmax(double minCost, double maxCost)
__CPROVER_requires(PRE_COMMON && minCost == minCost && maxCost == maxCost)
__CPROVER_assigns(ver, draws, cur_cost, cur_inphs, cur_inb, base_sample_last, cost_tested_ver, lower_tested_ver)
__CPROVER_ensures(draws >= __CPROVER_old(draws) && draws - __CPROVER_old(draws) <= numIters_)                                                                           /* C15.budget */
__CPROVER_ensures(__CPROVER_return_value ==> (cost_tested_ver == ver && lower_tested_ver == ver && cur_cost < maxCost && !(cur_cost < minCost)))   /* C15.cost */
/*@BODY rej_minmax@*/
/* ---- PathLengthDirectInfSampler ---- */
bool pl_boundsRejectPhs(unsigned int *iters)
__CPROVER_requires(PRE_HELPER && __CPROVER_is_fresh(iters, sizeof(unsigned)) && *iters <= numIters_)
__CPROVER_assigns(*iters, ver, draws, cur_cost, cur_inphs, cur_inb, base_sample_last, phs_tested_ver)
__CPROVER_ensures(COUNTED(iters))
__CPROVER_ensures(__CPROVER_return_value ==> (base_sample_last && phs_tested_ver == ver && cur_inphs && *iters > __CPROVER_old(*iters)))   /* C15.region */
__CPROVER_ensures(!__CPROVER_return_value ==> *iters == numIters_)
/*@BODY pl_boundsRejectPhs@*/
bool pl_phsRejectBounds(unsigned int *iters)
__CPROVER_requires(PRE_HELPER && __CPROVER_is_fresh(iters, sizeof(unsigned)) && *iters <= numIters_)
__CPROVER_assigns(*iters, ver, draws, cur_cost, cur_inphs, cur_inb, base_sample_last, kept_last, bounds_tested_ver)
__CPROVER_ensures(COUNTED(iters))
__CPROVER_ensures(__CPROVER_return_value ==> (!base_sample_last && kept_last && bounds_tested_ver == ver && cur_inb && *iters > __CPROVER_old(*iters)))   /* C15.bounds */
__CPROVER_ensures(!__CPROVER_return_value ==> *iters == numIters_)
/*@BODY pl_phsRejectBounds@*/
bool pl_helper(double maxCost, unsigned int *iters)
__CPROVER_requires(PRE_HELPER && __CPROVER_is_fresh(iters, sizeof(unsigned)) && *iters <= numIters_)
__CPROVER_assigns(*iters, ver, draws, cur_cost, cur_inphs, cur_inb, base_sample_last, kept_last, bounds_tested_ver, phs_tested_ver)
__CPROVER_ensures(GREW(iters))
__CPROVER_ensures(FINITE_MAX ? *iters <= numIters_ : (__CPROVER_return_value && *iters == __CPROVER_old(*iters) + 1 && base_sample_last && ver == __CPROVER_old(ver) + 1))
__CPROVER_ensures((FINITE_MAX && __CPROVER_return_value) ==> ((base_sample_last && phs_tested_ver == ver && cur_inphs) || (!base_sample_last && bounds_tested_ver == ver && cur_inb)))   /* C15.region */
__CPROVER_ensures(__CPROVER_return_value ==> *iters > __CPROVER_old(*iters))
/*@BODY pl_helper@*/
bool pl_minmax(double minCost, double maxCost)
__CPROVER_requires(PRE_COMMON && minCost == minCost && maxCost == maxCost)
__CPROVER_assigns(ver, draws, cur_cost, cur_inphs, cur_inb, base_sample_last, kept_last, bounds_tested_ver, phs_tested_ver, lower_tested_ver)
__CPROVER_ensures(draws >= __CPROVER_old(draws) && draws - __CPROVER_old(draws) <= numIters_)                                                                           /* C15.budget */
__CPROVER_ensures(__CPROVER_return_value ==> (lower_tested_ver == ver && !(cur_cost < minCost)))                                       /* C15.cost (lower bound) */
__CPROVER_ensures((__CPROVER_return_value && FINITE_MAX) ==> ((base_sample_last && phs_tested_ver == ver && cur_inphs) || (!base_sample_last && bounds_tested_ver == ver && cur_inb)))
/*@BODY pl_minmax@*/
/* ---- the public one-bound forms: a fresh counter, then the helper ---- */
bool rej_one(double maxCost)
__CPROVER_requires(PRE_HELPER && maxCost == maxCost)
__CPROVER_assigns(ver, draws, cur_cost, cur_inphs, cur_inb, base_sample_last, cost_tested_ver)
__CPROVER_ensures(draws >= __CPROVER_old(draws) && draws - __CPROVER_old(draws) <= numIters_)                                          /* C15.budget: the whole budget, from zero */
__CPROVER_ensures(__CPROVER_return_value ==> (cost_tested_ver == ver && cur_cost < maxCost && draws > __CPROVER_old(draws)))          /* C15.cost */
__CPROVER_ensures(!__CPROVER_return_value ==> draws - __CPROVER_old(draws) == numIters_)                                              /* gives up only after numIters_ draws */
/*@BODY rej_one@*/
bool pl_one(double maxCost)
__CPROVER_requires(PRE_HELPER && maxCost == maxCost)
__CPROVER_assigns(ver, draws, cur_cost, cur_inphs, cur_inb, base_sample_last, kept_last, bounds_tested_ver, phs_tested_ver)
__CPROVER_ensures(draws >= __CPROVER_old(draws) && (FINITE_MAX ? draws - __CPROVER_old(draws) <= numIters_ : (__CPROVER_return_value && draws == __CPROVER_old(draws) + 1 && base_sample_last)))
__CPROVER_ensures((FINITE_MAX && __CPROVER_return_value) ==> ((base_sample_last && phs_tested_ver == ver && cur_inphs) || (!base_sample_last && bounds_tested_ver == ver && cur_inb)))   /* C15.region */
__CPROVER_ensures(__CPROVER_return_value ==> draws > __CPROVER_old(draws))
/*@BODY pl_one@*/
void h_rej_one(void) { double m; bool r = rej_one(m); if (r) REACH("informed sample"); else REACH("gave up"); }
void h_pl_one(void) { double m; bool r = pl_one(m); if (r && FINITE_MAX) REACH("informed"); if (!FINITE_MAX) REACH("no solution yet"); }
void h_rej_helper(void) { double m; unsigned it; bool r = rej_helper(m, &it); if (r) REACH("informed sample"); else REACH("gave up"); }
void h_rej_minmax(void) { double a, b; bool r = rej_minmax(a, b); if (r) REACH("informed sample"); else REACH("gave up"); }
void h_pl_boundsRejectPhs(void) { unsigned it; bool r = pl_boundsRejectPhs(&it); if (r) REACH("accepted"); else REACH("gave up"); }
void h_pl_phsRejectBounds(void) { unsigned it; bool r = pl_phsRejectBounds(&it); if (r) REACH("accepted"); else REACH("gave up"); }
void h_pl_helper(void) { double m; unsigned it; bool r = pl_helper(m, &it); if (r && FINITE_MAX) REACH("informed"); if (!FINITE_MAX) REACH("no solution yet"); }
void h_pl_minmax(void) { double a, b; bool r = pl_minmax(a, b); if (r) REACH("between the bounds"); else REACH("gave up"); }
