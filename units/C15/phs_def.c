/* C15 (reduced scope) -- what ties "inside a hyperspheroid" to "heuristic cost strictly below the bound":
 *  ProlateHyperspheroid::isInPhs / isOnPhs: membership is path length (focus1 -> point -> focus2) STRICTLY below the transverse diameter, on-surface is equality;
 *     both refuse to answer while the transform is stale.  setTransverseDiameter: refuses a diameter below the focal distance, and after accepting a new value
 *     the transform is rebuilt for THAT value (never left stale).
 *  PathLengthDirectInfSampler::updatePhsDefinitions(maxCost): every hyperspheroid that can still help (min diameter < cost) ends with diameter == the cost bound
 *     and is counted once in the summed measure; those that cannot are dropped, except that the list is never emptied: a last useless one is collapsed to its
 *     minimum diameter with summed measure 0.  Bounded: <= 3 hyperspheroids.  Measures are symbolic (set of summed terms). */
#include <stdbool.h>
#include <stddef.h>
#define REACH(msg) __CPROVER_assert(0, "REACH " msg)
bool nondet_bool(void); double nondet_double(void); unsigned nondet_unsigned(void);
bool thrown; bool isTransformUpToDate_; double transverseDiameter_, minTransverseDiameter_; double PLEN; unsigned updates; double diam_at_update;
static double PATH_LEN(void) { return PLEN; }
static void UPDATE_TRANSFORM(void) { updates++; diam_at_update = transverseDiameter_; isTransformUpToDate_ = true; }
#define THROW_BOOL do { thrown = true; return false; } while (0)
#define THROW_VOID do { thrown = true; return; } while (0)
bool phs_isInPhs(void)
/*@BODY phs_isInPhs@*/
bool phs_isOnPhs(void)
/*@BODY phs_isOnPhs@*/
void phs_setTransverseDiameter(double transverseDiameter)
/*@BODY phs_setTransverseDiameter@*/
/* ---- updatePhsDefinitions ---- */
#define NP 3
unsigned L[NP + 1]; unsigned L_N; double MIND[NP], DIAM[NP]; unsigned sets[NP], erased[NP]; unsigned sum_mask; double SUMV[8]; double summedMeasure_;
static double MIN_DIAM(unsigned id) { return MIND[id]; }
static void SET_DIAM(unsigned id, double d) { __CPROVER_assert(id < NP && !erased[id], "no use of an erased hyperspheroid"); DIAM[id] = d; sets[id]++; }
static double ADD_M(double acc, unsigned id) { __CPROVER_assert(id < NP && !(sum_mask & (1u << id)) && (sum_mask == 0 ? acc == 0.0 : acc == SUMV[sum_mask]), "each measure added once to the running sum"); sum_mask |= 1u << id; return SUMV[sum_mask]; }
static void ERASE_AT(unsigned pos) { __CPROVER_assert(pos < L_N && L_N > 1, "erase inside the list, never the last element"); erased[L[pos]]++; for (unsigned k = pos; k + 1 < L_N && k < NP; k++) L[k] = L[k + 1]; L_N--; }
void pl_updatePhsDefinitions(double maxCost)
/*@BODY pl_updatePhsDefinitions@*/
void h_phs_isInPhs(void)
{
    __CPROVER_assume(PLEN == PLEN && transverseDiameter_ == transverseDiameter_); isTransformUpToDate_ = nondet_bool(); thrown = false;
    if (nondet_bool()) { bool r = phs_isInPhs(); if (!isTransformUpToDate_) { __CPROVER_assert(thrown, "no answer from a stale transform"); REACH("stale"); } else { __CPROVER_assert(!thrown && r == (PLEN < transverseDiameter_), "C15.cost inside means path length STRICTLY below the transverse diameter"); if (r) REACH("inside"); if (PLEN == transverseDiameter_) REACH("on the surface is not inside"); } }
    else { bool r = phs_isOnPhs(); if (!isTransformUpToDate_) __CPROVER_assert(thrown, "no answer from a stale transform"); else { __CPROVER_assert(!thrown && r == (PLEN == transverseDiameter_), "on the surface means path length equal to the transverse diameter"); if (r) REACH("on surface"); } }
}
void h_phs_setDiameter(void)
{
    double d; __CPROVER_assume(d == d && transverseDiameter_ == transverseDiameter_ && minTransverseDiameter_ == minTransverseDiameter_); isTransformUpToDate_ = nondet_bool(); bool was = isTransformUpToDate_; double old = transverseDiameter_; thrown = false; updates = 0;
    phs_setTransverseDiameter(d);
    if (d < minTransverseDiameter_) { __CPROVER_assert(thrown && updates == 0 && transverseDiameter_ == old, "a diameter below the focal distance is refused and nothing changes"); REACH("refused"); }
    else if (d != old) { __CPROVER_assert(!thrown && transverseDiameter_ == d && updates == 1 && diam_at_update == d && isTransformUpToDate_, "a new diameter is stored and the transform rebuilt for that value"); REACH("changed"); }
    else { __CPROVER_assert(!thrown && updates == 0 && transverseDiameter_ == old && !isTransformUpToDate_ == !was, "same diameter: nothing to do"); REACH("unchanged"); }
}
void h_updatePhs(void)
{
    double maxCost; __CPROVER_assume(maxCost == maxCost && L_N >= 1 && L_N <= NP); bool inlist0[NP]; unsigned good = 0;
    for (unsigned k = 0; k < NP; k++) { __CPROVER_assume(MIND[k] == MIND[k] && DIAM[k] == DIAM[k]); sets[k] = erased[k] = 0; inlist0[k] = false; }
    for (unsigned k = 0; k < NP; k++) if (k < L_N) { __CPROVER_assume(L[k] < NP && !inlist0[L[k]]); inlist0[L[k]] = true; if (MIND[L[k]] < maxCost) good |= 1u << L[k]; }
    sum_mask = 0; for (unsigned m = 0; m < 8; m++) __CPROVER_assume(SUMV[m] == SUMV[m]);
    pl_updatePhsDefinitions(maxCost);
    __CPROVER_assert(L_N >= 1 && L_N <= NP, "the list of hyperspheroids is never emptied");
    unsigned g = nondet_unsigned(); __CPROVER_assume(g < NP && inlist0[g]);
    bool inlist = false; for (unsigned k = 0; k < NP; k++) if (k < L_N && L[k] == g) inlist = true;
    if (MIND[g] < maxCost) { __CPROVER_assert(inlist && !erased[g] && sets[g] == 1 && DIAM[g] == maxCost && (sum_mask & (1u << g)), "C15.region a hyperspheroid that can still help is kept, its diameter is the cost bound, its measure counted once"); REACH("useful hyperspheroid"); }
    else if (inlist) { __CPROVER_assert(L_N == 1 && good == 0 && DIAM[g] == MIND[g] && summedMeasure_ == 0.0, "a hyperspheroid that cannot help survives only as the last one, collapsed to its minimum diameter, with summed measure 0"); REACH("collapsed last one"); }
    else { __CPROVER_assert(erased[g] == 1 && sets[g] == 0, "a useless hyperspheroid is dropped once and never touched"); REACH("dropped"); }
    __CPROVER_assert(sum_mask == good && (good == 0 ? summedMeasure_ == 0.0 : summedMeasure_ == SUMV[good]), "C15.measure the summed measure ranges over exactly the useful hyperspheroids");
}
