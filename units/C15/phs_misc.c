/* C15 (reduced scope) -- two more pieces of the direct sampler's bookkeeping, numerics behind recording stubs.
 *  keepSample: with several start/goal pairs a hyperspheroid sample is kept with probability 1 / (number of hyperspheroids that CONTAIN it) -- the rule that keeps
 *     the density uniform where hyperspheroids overlap; with a single pair every sample is kept and no random number is drawn.
 *  getInformedMeasure(cost): the sum of the measures of exactly those hyperspheroids whose minimum transverse diameter is below the cost, times the measure of the
 *     uninformed (rotation) subspace exactly when the space is compound, capped by the measure of the WHOLE state space.
 * Measures are symbolic: a sum is the set of its terms (bit mask), the product a flag; 1/n is a recording stub. <= 4 hyperspheroids. */
#include <stdbool.h>
#include <stddef.h>
#define REACH(msg) __CPROVER_assert(0, "REACH " msg)
#define NP 4
bool nondet_bool(void); double nondet_double(void); unsigned nondet_unsigned(void);
unsigned N_PHS; unsigned NUM_IN; unsigned incl_calls, rng_calls; double RAND; unsigned recip_arg; double RECIP_VAL; bool recip_called;
static unsigned NUM_INCLUSIONS(void) { incl_calls++; return NUM_IN; }
static double UNIFORM01(void) { rng_calls++; return RAND; }
static double RECIP(unsigned n) { recip_called = true; recip_arg = n; return RECIP_VAL; }
bool pl_keepSample(void)
/*@BODY pl_keepSample@*/
/* measures */
bool ABOVE_MIN_DIAM[NP]; bool IS_COMPOUND; unsigned sum_mask; bool times_uninformed; bool times_before_sum_done; double WHOLE, INF_SUB, UNINF; double SUMVAL[16]; double PRODVAL; unsigned gt_calls[NP];
static bool GT_MIN_DIAM(unsigned k) { __CPROVER_assert(k < N_PHS, "hyperspheroid index"); gt_calls[k]++; return ABOVE_MIN_DIAM[k]; }
static double ADD_MEASURE(double acc, unsigned k) { __CPROVER_assert(k < N_PHS && !(sum_mask & (1u << k)) && !times_uninformed, "each term once, before the product"); __CPROVER_assert(sum_mask == 0 ? acc == 0.0 : acc == SUMVAL[sum_mask], "accumulator carried"); sum_mask |= 1u << k; return SUMVAL[sum_mask]; }
static double TIMES_UNINFORMED(double acc, double m) { __CPROVER_assert(!times_uninformed && m == UNINF && (sum_mask == 0 ? acc == 0.0 : acc == SUMVAL[sum_mask]), "the finished sum times the uninformed-subspace measure, once"); times_uninformed = true; return PRODVAL; }
static double WHOLE_SPACE_MEASURE(void) { return WHOLE; }
static double INFORMED_SUBSPACE_MEASURE(void) { return INF_SUB; }
static double UNINFORMED_MEASURE(void) { return UNINF; }
static double FMIN(double a, double b) { return b < a ? b : a; }
double pl_getInformedMeasure(void)
/*@BODY pl_getInformedMeasure@*/
/* ---- membership counting ---- */
bool INP[NP]; unsigned inq[NP];
static bool IN_PHS(unsigned k) { __CPROVER_assert(k < N_PHS && k < NP, "hyperspheroid index"); inq[k]++; return INP[k]; }
bool pl_isInAnyPhs(void)
/*@BODY pl_isInAnyPhs@*/
unsigned int pl_numberOfPhsInclusions(void)
/*@BODY pl_numberOfPhsInclusions@*/
void h_membership(void)
{
    __CPROVER_assume(N_PHS >= 1 && N_PHS <= NP); unsigned want = 0; bool any = false;
    for (unsigned k = 0; k < NP; k++) { inq[k] = 0; if (k < N_PHS && INP[k]) { want++; any = true; } }
    bool a = pl_isInAnyPhs();
    __CPROVER_assert(!a == !any, "C15.region isInAnyPhs: true exactly when at least one hyperspheroid contains the sample");
    for (unsigned k = 0; k < NP; k++) { __CPROVER_assert(inq[k] <= 1, "each hyperspheroid asked at most once"); inq[k] = 0; }
    unsigned n = pl_numberOfPhsInclusions();
    __CPROVER_assert(n == want, "C15.uniform numberOfPhsInclusions: the number of hyperspheroids containing the sample");
    for (unsigned k = 0; k < NP; k++) __CPROVER_assert(inq[k] == (k < N_PHS ? 1 : 0), "every hyperspheroid asked exactly once");
    if (want == 0) REACH("in none"); if (want == N_PHS && N_PHS > 1) REACH("in all"); if (want == 1 && N_PHS == 3) REACH("in one of three");
}
void h_keepSample(void)
{
    __CPROVER_assume(N_PHS >= 1 && NUM_IN >= 1 && NUM_IN <= N_PHS && RAND >= 0.0 && RAND < 1.0 && RECIP_VAL > 0.0 && RECIP_VAL <= 1.0); incl_calls = rng_calls = 0; recip_called = false;
    bool k = pl_keepSample();
    if (N_PHS == 1) { __CPROVER_assert(k && rng_calls == 0, "a single hyperspheroid: every sample is kept"); REACH("single pair"); }
    else { __CPROVER_assert(recip_called && recip_arg == NUM_IN && incl_calls == 1 && rng_calls == 1, "C15.uniform keep probability is 1 / (number of hyperspheroids containing the sample)");
           __CPROVER_assert(k == (RAND <= RECIP_VAL), "C15.uniform kept exactly when the draw is at most that probability"); if (k) REACH("kept"); else REACH("rejected"); }
}
void h_measure(void)
{
    __CPROVER_assume(N_PHS >= 1 && N_PHS <= NP && WHOLE > 0.0 && INF_SUB > 0.0 && UNINF > 0.0 && PRODVAL >= 0.0); sum_mask = 0; times_uninformed = false;
    for (unsigned m = 0; m < 16; m++) __CPROVER_assume(SUMVAL[m] >= 0.0);
    for (unsigned k = 0; k < NP; k++) gt_calls[k] = 0;
    double r = pl_getInformedMeasure();
    unsigned want = 0; for (unsigned k = 0; k < NP; k++) if (k < N_PHS && ABOVE_MIN_DIAM[k]) want |= 1u << k;
    __CPROVER_assert(sum_mask == want, "C15.measure the sum ranges over exactly the hyperspheroids whose minimum transverse diameter is below the cost");
    __CPROVER_assert(!times_uninformed == !IS_COMPOUND, "C15.measure multiplied by the uninformed-subspace measure exactly for compound spaces");
    double analytic = IS_COMPOUND ? PRODVAL : (want == 0 ? 0.0 : SUMVAL[want]);
    __CPROVER_assert(r == (analytic < WHOLE ? analytic : WHOLE), "C15.measure the reported measure is the analytic value capped by the measure of the whole space");
    if (IS_COMPOUND && r < WHOLE) REACH("compound, uncapped"); if (!IS_COMPOUND && r == WHOLE && want != 0) REACH("capped"); if (want == 0) REACH("cost below every diameter");
}
